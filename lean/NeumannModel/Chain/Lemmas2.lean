import NeumannModel.Chain.Lemmas
/-
  C16 — helper lemmas for `Props2.lean`: restart (`Chain::initialize` over an existing store), `history`,
  the accounting of commit calls under arbitrary interleavings.
-/
namespace Neumann.Chain

/-! ### the height record and the absence of block records above the head -/

/-- what `Chain::initialize` relies on when it re-derives the head from the store: the height record names the
    in-memory height and no block record lies above it -/
structure MetaInv (c : ChainSt) : Prop where
  heightRec : sget c.store .chainMeta = some (.height c.height)
  top : ∀ j, c.height < j → blockAt c.store j = none

/-- two stores hold the same records (the lists may differ in order) -/
def StoreEq (s s' : List (SKey × SVal)) : Prop := ∀ k, sget s k = sget s' k

theorem storeEq_blockAt {s s' : List (SKey × SVal)} (h : StoreEq s s') (j : Nat) : blockAt s j = blockAt s' j := by
  simp only [blockAt, h (.block j)]

theorem sput_storeEq_of_sget (s : List (SKey × SVal)) (k : SKey) (v : SVal) (h : sget s k = some v) :
    StoreEq (sput s k v) s := by
  intro k'
  by_cases hk : k = k'
  · subst hk; rw [sget_sput_same, h]
  · rw [sget_sput_ne _ _ _ _ hk]

theorem sget_meta_applyTx (s : List (SKey × SVal)) (t : Tx) : sget (applyTx s t) .chainMeta = sget s .chainMeta := by
  cases t with
  | put k v => exact sget_sput_ne _ _ _ _ (by simp)
  | del k => exact sget_sdel_ne _ _ _ (by simp)
  | cas k e v =>
    simp only [applyTx]
    split
    · exact sget_sput_ne _ _ _ _ (by simp)
    · rfl

theorem sget_meta_applyTxs (txs : List Tx) : ∀ (s : List (SKey × SVal)), sget (applyTxs s txs) .chainMeta = sget s .chainMeta := by
  unfold applyTxs
  induction txs with
  | nil => intro s; rfl
  | cons t ts ih => intro s; simp only [List.foldl_cons]; rw [ih, sget_meta_applyTx]

theorem metaInv_init (C : Crypto) (p : List Nat) (ts : Nat) : MetaInv (initChain C [] p ts) := by
  refine ⟨?_, ?_⟩
  · simp only [initChain]; rw [sget_sput_same]
  · intro j hj
    simp only [initChain] at hj ⊢
    rw [blockAt_sput_ne _ _ _ _ (by simp), blockAt_sput_ne _ _ _ _ (by simp; omega)]
    rfl

/-- the store `commit` / `append` leave behind on success -/
theorem metaInv_commit (c : ChainSt) (txs : List Tx) (b : Block) (tip' : List Nat) (h : MetaInv c) :
    MetaInv { store := sput (sput (applyTxs c.store txs) (.block (c.height + 1)) (.block b)) .chainMeta (.height (c.height + 1)),
              height := c.height + 1, tip := tip' } := by
  refine ⟨?_, ?_⟩
  · simp only; rw [sget_sput_same]
  · intro j hj
    simp only at hj ⊢
    rw [blockAt_sput_ne _ _ _ _ (by simp), blockAt_sput_ne _ _ _ _ (by simp; omega), blockAt_applyTxs]
    exact h.top j (by omega)

/-! ### `Chain::initialize` over the store of a healthy chain -/

theorem walkBack_present (s : List (SKey × SVal)) (h : Nat) (hp : h = 0 ∨ (blockAt s h).isSome = true) : walkBack s h = h := by
  cases h with
  | zero => rfl
  | succ h =>
    rcases hp with hp | hp
    · omega
    · simp [walkBack, hp]

theorem walkFwd_absent (s : List (SKey × SVal)) (f h : Nat) (ha : blockAt s (h + 1) = none) : walkFwd s f h = h := by
  cases f with
  | zero => rfl
  | succ f => simp [walkFwd, ha]

theorem openChain_healthy (C : Crypto) (reg : Option (List (List Nat × Nat))) (c : ChainSt) (p : List Nat) (ts : Nat)
    (hinv : Inv C reg c) (hm : MetaInv c) :
    (openChain C c.store p ts).height = c.height ∧ (openChain C c.store p ts).tip = c.tip ∧
    StoreEq (openChain C c.store p ts).store c.store := by
  obtain ⟨t, ht, htip⟩ := hinv.tip
  have hl : loadHeight c.store = some c.height := by simp [loadHeight, hm.heightRec]
  have hb : walkBack c.store c.height = c.height :=
    walkBack_present _ _ (Or.inr (by rw [ht]; rfl))
  have hf : walkFwd c.store c.store.length c.height = c.height :=
    walkFwd_absent _ _ _ (hm.top _ (Nat.lt_succ_self _))
  simp only [openChain, hl, hb, hf, ht]
  exact ⟨trivial, htip.symm, sput_storeEq_of_sget _ _ _ hm.heightRec⟩

/-- `Inv`, transported along equal block records, height and tip -/
theorem inv_congr (C : Crypto) (reg : Option (List (List Nat × Nat))) (c c' : ChainSt)
    (hs : ∀ j, blockAt c'.store j = blockAt c.store j) (hh : c'.height = c.height) (ht : c'.tip = c.tip)
    (hinv : Inv C reg c) : Inv C reg c' := by
  have := inv_store_congr C reg c c'.store hs hinv
  obtain ⟨s', h', t'⟩ := c'
  simp only at hh ht
  subst hh ht
  exact this

theorem dataInv_congr (c c' : ChainSt) (hs : StoreEq c'.store c.store) (hh : c'.height = c.height)
    (h : DataInv c) : DataInv c' := by
  intro k
  rw [hs (.data k), hh, chainTxs_congr c.store c'.store c.height (fun j _ => storeEq_blockAt hs j)]
  exact h k

theorem metaInv_congr (c c' : ChainSt) (hs : StoreEq c'.store c.store) (hh : c'.height = c.height)
    (h : MetaInv c) : MetaInv c' :=
  ⟨by rw [hs, hh]; exact h.heightRec, fun j hj => by rw [storeEq_blockAt hs]; exact h.top j (by omega)⟩

/-! ### `history` -/

/-- the transactions of the genesis block (none on a chain built through the public interface) -/
def genesisTxs (s : List (SKey × SVal)) : List Tx :=
  match blockAt s 0 with
  | some g => g.txs
  | none => []

theorem historyUpTo_snd (s : List (SKey × SVal)) (k : Nat) :
    ∀ n, (historyUpTo s k n).map Prod.snd = (genesisTxs s ++ chainTxs s n).filter fun t => t.key = k
  | 0 => by
    simp only [historyUpTo, blockHistory, genesisTxs, chainTxs, List.append_nil]
    cases blockAt s 0 <;> simp [List.map_map, Function.comp_def]
  | n + 1 => by
    simp only [historyUpTo, chainTxs, List.map_append, historyUpTo_snd s k n, ← List.append_assoc, List.filter_append]
    congr 1
    simp only [blockHistory]
    cases blockAt s (n + 1) <;> simp [List.map_map, Function.comp_def]

theorem dataAt_congr {s s' : List (SKey × SVal)} {k : Nat} (h : sget s (.data k) = sget s' (.data k)) :
    dataAt s k = dataAt s' k := by simp only [dataAt, h]

theorem sget_applyTx_other (s : List (SKey × SVal)) (t : Tx) (k : Nat) (hk : t.key ≠ k) :
    sget (applyTx s t) (.data k) = sget s (.data k) := by
  cases t with
  | put k' v => exact sget_sput_ne _ _ _ _ (by simpa [Tx.key] using hk)
  | del k' => exact sget_sdel_ne _ _ _ (by simpa [Tx.key] using hk)
  | cas k' e v =>
    simp only [applyTx]
    split
    · exact sget_sput_ne _ _ _ _ (by simpa [Tx.key] using hk)
    · rfl

theorem sget_applyTx_same (s s' : List (SKey × SVal)) (t : Tx) (k : Nat) (hk : t.key = k)
    (h : sget s (.data k) = sget s' (.data k)) :
    sget (applyTx s t) (.data k) = sget (applyTx s' t) (.data k) := by
  cases t with
  | put k' v =>
    simp only [Tx.key] at hk; subst hk
    simp only [applyTx, sget_sput_same]
  | del k' =>
    simp only [Tx.key] at hk; subst hk
    simp only [applyTx, sget_sdel_same]
  | cas k' e v =>
    simp only [Tx.key] at hk; subst hk
    simp only [applyTx, dataAt_congr h]
    split
    · simp only [sget_sput_same]
    · exact h

/-- the value of one key after a list of transactions depends only on the transactions that affect this key -/
theorem sget_applyTxs_filter (k : Nat) (txs : List Tx) : ∀ (s s' : List (SKey × SVal)),
    sget s (.data k) = sget s' (.data k) →
    sget (applyTxs s txs) (.data k) = sget (applyTxs s' (txs.filter fun t => t.key = k)) (.data k) := by
  unfold applyTxs
  induction txs with
  | nil => intro s s' h; exact h
  | cons t ts ih =>
    intro s s' h
    by_cases hk : t.key = k
    · simp only [List.filter_cons, hk, decide_true, if_true, List.foldl_cons]
      exact ih _ _ (sget_applyTx_same s s' t k hk h)
    · simp only [List.filter_cons, hk, decide_false, List.foldl_cons]
      exact ih _ _ (by rw [sget_applyTx_other s t k hk]; exact h)

/-! ### commit calls under an arbitrary interleaving: what `append_lock` guarantees -/

def Local.isOk (l : Local) : Bool :=
  match l.res with
  | some (.ok _) => true
  | _ => false

def okCount (ls : List Local) : Nat := (ls.filter Local.isOk).length

def Local.okH (l : Local) : Option Nat :=
  match l.res with
  | some (.ok h) => some h
  | _ => none

/-- the heights reported by the calls that returned `Ok` -/
def okHeights (ls : List Local) : List Nat := ls.filterMap Local.okH

theorem okH_of_not_ok (l : Local) (h : l.isOk = false) : l.okH = none := by
  unfold Local.okH Local.isOk at *
  split at h <;> simp_all

theorem okH_of_res (l : Local) (h : Nat) (hr : l.res = some (.ok h)) : l.okH = some h := by
  simp [Local.okH, hr]

theorem okCount_eq (ls : List Local) : okCount ls = (okHeights ls).length := by
  induction ls with
  | nil => rfl
  | cons l ls ih =>
    simp only [okCount, okHeights, List.filter_cons, List.filterMap_cons] at ih ⊢
    cases h : l.isOk with
    | false => simp [okH_of_not_ok l h, ih]
    | true =>
      have : ∃ x, l.okH = some x := by
        unfold Local.okH Local.isOk at *
        split at h <;> simp_all
      obtain ⟨x, hx⟩ := this
      simp [hx, ih]

theorem setNth_self {α : Type} : ∀ (ls : List α) (i : Nat) (a : α), ls[i]? = some a → setNth ls i a = ls
  | [], _, _, _ => rfl
  | x :: r, 0, a, h => by simp at h; simp [setNth, h]
  | x :: r, i + 1, a, h => by
    simp only [setNth]
    rw [setNth_self r i a (by simpa using h)]

theorem mem_setNth {α : Type} : ∀ (ls : List α) (i : Nat) (a x : α), x ∈ setNth ls i a → x ∈ ls ∨ x = a
  | [], _, _, _, h => by simp [setNth] at h
  | y :: r, 0, a, x, h => by
    simp only [setNth, List.mem_cons] at h ⊢
    rcases h with h | h
    · exact Or.inr h
    · exact Or.inl (Or.inr h)
  | y :: r, i + 1, a, x, h => by
    simp only [setNth, List.mem_cons] at h ⊢
    rcases h with h | h
    · exact Or.inl (Or.inl h)
    · rcases mem_setNth r i a x h with h | h
      · exact Or.inl (Or.inr h)
      · exact Or.inr h

theorem okHeights_setNth_same : ∀ (ls : List Local) (i : Nat) (l l' : Local), ls[i]? = some l →
    l.isOk = false → l'.isOk = false → okHeights (setNth ls i l') = okHeights ls
  | [], _, _, _, _, _, _ => rfl
  | x :: r, 0, l, l', h, h1, h2 => by
    simp at h; subst h
    simp [setNth, okHeights, okH_of_not_ok _ h1, okH_of_not_ok _ h2]
  | x :: r, i + 1, l, l', h, h1, h2 => by
    have := okHeights_setNth_same r i l l' (by simpa using h) h1 h2
    simp only [okHeights, setNth, List.filterMap_cons] at this ⊢
    rw [this]

theorem okHeights_setNth_new : ∀ (ls : List Local) (i : Nat) (l l' : Local) (hh : Nat), ls[i]? = some l →
    l.isOk = false → l'.res = some (.ok hh) → (okHeights (setNth ls i l')).Perm (hh :: okHeights ls)
  | [], _, _, _, _, h, _, _ => by simp at h
  | x :: r, 0, l, l', hh, h, h1, h2 => by
    simp at h; subst h
    simp [setNth, okHeights, okH_of_not_ok _ h1, okH_of_res _ _ h2]
  | x :: r, i + 1, l, l', hh, h, h1, h2 => by
    have := okHeights_setNth_new r i l l' hh (by simpa using h) h1 h2
    simp only [okHeights, setNth, List.filterMap_cons] at this ⊢
    cases x.okH with
    | none => exact this
    | some y => exact (List.Perm.cons y this).trans (List.Perm.swap hh y _)

/-- a call that has its `Ok` result has returned -/
def Local.Settled (l : Local) : Prop := l.isOk = true → l.pc = .done

theorem commitStep_done (C : Crypto) (n : Node) (l : Local) (h : l.pc = .done) : commitStep C n l = (n, l) := by
  simp [commitStep, h]

/-- what one step of a call that has not returned may do to the accounting -/
def StepAccount (n : Node) (l : Local) (r : Node × Local) : Prop :=
  r.2.Settled ∧
  (r = (n, l) ∨
   (l.isOk = false ∧ r.2.isOk = false ∧ r.1.chain.height = n.chain.height) ∨
   (l.isOk = false ∧ r.2.res = some (.ok (n.chain.height + 1)) ∧ r.1.chain.height = n.chain.height + 1))

theorem stepAccount_same (n n' : Node) (l l' : Local) (hno : l.isOk = false) (hres : l'.res = l.res)
    (hh : n'.chain.height = n.chain.height) : StepAccount n l (n', l') := by
  have h' : l'.isOk = false := by simp only [Local.isOk, hres]; exact hno
  exact ⟨fun h => (by rw [h'] at h; cases h), Or.inr (Or.inl ⟨hno, h', hh⟩)⟩

theorem stepAccount_fail (n n' : Node) (l l' : Local) (hno : l.isOk = false) (hpc : l'.pc = .done) (h' : l'.isOk = false)
    (hh : n'.chain.height = n.chain.height) : StepAccount n l (n', l') :=
  ⟨fun _ => hpc, Or.inr (Or.inl ⟨hno, h', hh⟩)⟩

/-- one atomic step of one call: either nothing changes (the call had returned), or no `Ok` appears and the height
    is unchanged, or the call returns `Ok (height + 1)` and the height grows by one (this is the `append` step:
    height check, write and height update are one critical section) -/
theorem commitStep_account (C : Crypto) (n : Node) (l : Local) (hs : l.Settled) :
    StepAccount n l (commitStep C n l) := by
  by_cases hd : l.pc = .done
  · rw [commitStep_done C n l hd]
    exact ⟨hs, Or.inl rfl⟩
  · have hno : l.isOk = false := by
      cases h : l.isOk with
      | false => rfl
      | true => exact absurd (hs h) hd
    cases hpc : l.pc with
    | done => exact absurd hpc hd
    | prepare =>
      simp only [commitStep, hpc]
      cases findWs n.wss l.ws with
      | none => exact stepAccount_fail _ _ _ _ hno rfl rfl rfl
      | some ws =>
        simp only
        (repeat' split) <;>
          first
          | exact stepAccount_fail _ _ _ _ hno rfl rfl rfl
          | exact stepAccount_same _ _ _ _ hno rfl rfl
    | snapshot => simp only [commitStep, hpc]; exact stepAccount_same _ _ _ _ hno rfl rfl
    | apply => simp only [commitStep, hpc]; exact stepAccount_same _ _ _ _ hno rfl rfl
    | root => simp only [commitStep, hpc]; exact stepAccount_same _ _ _ _ hno rfl rfl
    | build => simp only [commitStep, hpc]; exact stepAccount_same _ _ _ _ hno rfl rfl
    | restore => simp only [commitStep, hpc]; exact stepAccount_fail _ _ _ _ hno rfl rfl rfl
    | append =>
      simp only [commitStep, hpc]
      cases hb : l.block with
      | none => exact stepAccount_same _ _ _ _ hno rfl rfl
      | some b =>
        simp only
        cases happ : append C n.cfg.registry n.chain b with
        | error e => exact stepAccount_same _ _ _ _ hno rfl rfl
        | ok c' =>
          have hh : c'.height = n.chain.height + 1 := by
            obtain ⟨_, _, _, _, hc'⟩ := append_ok_inv C _ _ _ _ happ
            rw [hc']
          exact ⟨fun _ => rfl, Or.inr (Or.inr ⟨hno, by simp [hh], by simp [finish, hh]⟩)⟩

/-- a duplicate-free list of `k` numbers in `(a, a + k]` contains every number of that range -/
theorem nodup_range_complete (a : Nat) : ∀ (k : Nat) (l : List Nat), l.Nodup → (∀ x ∈ l, a < x ∧ x ≤ a + k) → l.length = k →
    ∀ x, a < x → x ≤ a + k → x ∈ l := by
  intro k
  induction k with
  | zero => intro l _ _ _ x h1 h2; omega
  | succ k ih =>
    intro l hnd hb hlen x h1 h2
    by_cases htop : (a + (k + 1)) ∈ l
    · by_cases hx : x = a + (k + 1)
      · rw [hx]; exact htop
      · have hin := ih (l.erase (a + (k + 1))) (hnd.erase _)
          (by
            intro y hy
            have hy' := (hnd.mem_erase_iff).mp hy
            have := hb y hy'.2
            have hne := hy'.1
            omega)
          (by rw [List.length_erase_of_mem htop, hlen]; rfl) x h1 (by omega)
        exact List.mem_of_mem_erase hin
    · exfalso
      have hall : ∀ y ∈ l, a < y ∧ y ≤ a + k := by
        intro y hy
        have := hb y hy
        have hne : y ≠ a + (k + 1) := fun h => htop (h ▸ hy)
        omega
      cases l with
      | nil => simp at hlen
      | cons y t =>
        have hnd2 := List.nodup_cons.mp hnd
        have hy := hall y (List.mem_cons_self ..)
        exact hnd2.1 (ih t hnd2.2 (fun z hz => hall z (List.mem_cons_of_mem _ hz)) (by simpa using hlen) y hy.1 hy.2)

/-! ### the node invariant of sequential histories with restarts -/

structure NodeInv (C : Crypto) (cfg : Config) (n : Node) : Prop where
  hcfg : n.cfg = cfg
  hinv : Inv C cfg.registry n.chain
  hdata : DataInv n.chain
  hmeta : MetaInv n.chain
  hgen : genesisTxs n.chain.store = []

theorem genesisTxs_congr (s s' : List (SKey × SVal)) (h : blockAt s' 0 = blockAt s 0) : genesisTxs s' = genesisTxs s := by
  simp only [genesisTxs, h]

theorem addOp_chain (n : Node) (w : Nat) (t : Tx) : (addOp n w t).1.cfg = n.cfg ∧ (addOp n w t).1.chain = n.chain := by
  unfold addOp; (repeat' split) <;> exact ⟨rfl, rfl⟩

/-! ### workspace bookkeeping of `commit` -/

theorem findWs_id (wss : List Ws) (w : Nat) (ws : Ws) (h : findWs wss w = some ws) : ws.id = w := by
  have := List.find?_some h
  simpa using this

theorem findWs_setStates (wss : List Ws) (ids : List Nat) (st : WsState) (w : Nat) :
    findWs (setStates wss ids st) w =
      (findWs wss w).map fun x => if ids.contains x.id then { x with state := st } else x := by
  unfold findWs setStates
  induction wss with
  | nil => rfl
  | cons x r ih =>
    have hid : (if ids.contains x.id then { x with state := st } else x : Ws).id = x.id := by split <;> rfl
    simp only [List.map_cons, List.find?_cons, hid]
    cases decide (x.id = w) with
    | true => rfl
    | false => exact ih

/-- the five steps after the early checks, when `append` accepts the block: the workspace and every merged
    workspace end `Committed` and leave the manager -/
theorem pipeline_ok_wss (C : Crypto) (n : Node) (l : Local) (hpc : l.pc = .snapshot) (c' : ChainSt)
    (happ : append C n.cfg.registry { n.chain with store := applyTxs n.chain.store l.ops }
              (builtBlock C n l.ops l.dirs (stateRoot C (applyTxs n.chain.store l.ops)) l.ts) = .ok c') :
    (commitRun C 7 n l).1.wss = setStates n.wss (l.ws :: l.merged) .committed := by
  simp only [commitRun, commitStep, hpc, builtBlock] at happ ⊢
  simp [happ, finish]

/-- the early checks passed: the call works on workspace `w`, which is found in the table afterwards -/
theorem prepare_ok_ws (C : Crypto) (n : Node) (w ts : Nat)
    (hpc : (commitStep C n (Local.init w ts)).2.pc = .snapshot) :
    (commitStep C n (Local.init w ts)).2.ws = w ∧
    ∃ ws', findWs (commitStep C n (Local.init w ts)).1.wss w = some ws' := by
  simp only [commitStep, Local.init] at hpc ⊢
  cases hf : findWs n.wss w with
  | none => simp [hf] at hpc
  | some ws =>
    simp only
    (repeat' split) <;> exact ⟨rfl, by simp [finish, findWs_setStates, hf]⟩

end Neumann.Chain
