import NeumannModel.Chain.Lemmas
/-
  C16 — helper lemmas for `Props2.lean`: restart (`Chain::initialize` over an existing store), `history`,
  the accounting of commit calls under arbitrary interleavings.
-/
namespace Neumann.Chain

/-! ### the height record and the absence of block records above the head -/

/-- what `Chain::initialize` relies on when it re-derives the head from the store: the height record names the
    in-memory height and no block record lies above it -/
structure MetaInv (c : ChainSt) : Prop where
  heightRec : sget c.store .chainMeta = some (.height c.height)
  top : ∀ j, c.height < j → blockAt c.store j = none

/-- two stores hold the same records (the lists may differ in order) -/
def StoreEq (s s' : List (SKey × SVal)) : Prop := ∀ k, sget s k = sget s' k

theorem storeEq_blockAt {s s' : List (SKey × SVal)} (h : StoreEq s s') (j : Nat) : blockAt s j = blockAt s' j := by
  simp only [blockAt, h (.block j)]

theorem sput_storeEq_of_sget (s : List (SKey × SVal)) (k : SKey) (v : SVal) (h : sget s k = some v) :
    StoreEq (sput s k v) s := by
  intro k'
  by_cases hk : k = k'
  · subst hk; rw [sget_sput_same, h]
  · rw [sget_sput_ne _ _ _ _ hk]

theorem sget_meta_applyTx (s : List (SKey × SVal)) (t : Tx) : sget (applyTx s t) .chainMeta = sget s .chainMeta := by
  cases t with
  | put k v => exact sget_sput_ne _ _ _ _ (by simp)
  | del k => exact sget_sdel_ne _ _ _ (by simp)
  | cas k e v =>
    simp only [applyTx]
    split
    · exact sget_sput_ne _ _ _ _ (by simp)
    · rfl

theorem sget_meta_applyTxs (txs : List Tx) : ∀ (s : List (SKey × SVal)), sget (applyTxs s txs) .chainMeta = sget s .chainMeta := by
  unfold applyTxs
  induction txs with
  | nil => intro s; rfl
  | cons t ts ih => intro s; simp only [List.foldl_cons]; rw [ih, sget_meta_applyTx]

theorem metaInv_init (C : Crypto) (p : List Nat) (ts : Nat) : MetaInv (initChain C [] p ts) := by
  refine ⟨?_, ?_⟩
  · simp only [initChain]; rw [sget_sput_same]
  · intro j hj
    simp only [initChain] at hj ⊢
    rw [blockAt_sput_ne _ _ _ _ (by simp), blockAt_sput_ne _ _ _ _ (by simp; omega)]
    rfl

/-- the store `commit` / `append` leave behind on success -/
theorem metaInv_commit (c : ChainSt) (txs : List Tx) (b : Block) (tip' : List Nat) (h : MetaInv c) :
    MetaInv { store := sput (sput (applyTxs c.store txs) (.block (c.height + 1)) (.block b)) .chainMeta (.height (c.height + 1)),
              height := c.height + 1, tip := tip' } := by
  refine ⟨?_, ?_⟩
  · simp only; rw [sget_sput_same]
  · intro j hj
    simp only at hj ⊢
    rw [blockAt_sput_ne _ _ _ _ (by simp), blockAt_sput_ne _ _ _ _ (by simp; omega), blockAt_applyTxs]
    exact h.top j (by omega)

/-! ### `Chain::initialize` over the store of a healthy chain -/

theorem walkBack_present (s : List (SKey × SVal)) (h : Nat) (hp : h = 0 ∨ (blockAt s h).isSome = true) : walkBack s h = h := by
  cases h with
  | zero => rfl
  | succ h =>
    rcases hp with hp | hp
    · omega
    · simp [walkBack, hp]

theorem walkFwd_absent (s : List (SKey × SVal)) (f h : Nat) (ha : blockAt s (h + 1) = none) : walkFwd s f h = h := by
  cases f with
  | zero => rfl
  | succ f => simp [walkFwd, ha]

theorem openChain_healthy (C : Crypto) (reg : Option (List (List Nat × Nat))) (c : ChainSt) (p : List Nat) (ts : Nat)
    (hinv : Inv C reg c) (hm : MetaInv c) :
    (openChain C c.store p ts).height = c.height ∧ (openChain C c.store p ts).tip = c.tip ∧
    StoreEq (openChain C c.store p ts).store c.store := by
  obtain ⟨t, ht, htip⟩ := hinv.tip
  have hl : loadHeight c.store = some c.height := by simp [loadHeight, hm.heightRec]
  have hb : walkBack c.store c.height = c.height :=
    walkBack_present _ _ (Or.inr (by rw [ht]; rfl))
  have hf : walkFwd c.store c.store.length c.height = c.height :=
    walkFwd_absent _ _ _ (hm.top _ (Nat.lt_succ_self _))
  simp only [openChain, hl, hb, hf, ht]
  exact ⟨trivial, htip.symm, sput_storeEq_of_sget _ _ _ hm.heightRec⟩

/-- `Inv`, transported along equal block records, height and tip -/
theorem inv_congr (C : Crypto) (reg : Option (List (List Nat × Nat))) (c c' : ChainSt)
    (hs : ∀ j, blockAt c'.store j = blockAt c.store j) (hh : c'.height = c.height) (ht : c'.tip = c.tip)
    (hinv : Inv C reg c) : Inv C reg c' := by
  have := inv_store_congr C reg c c'.store hs hinv
  obtain ⟨s', h', t'⟩ := c'
  simp only at hh ht
  subst hh ht
  exact this

theorem dataInv_congr (c c' : ChainSt) (hs : StoreEq c'.store c.store) (hh : c'.height = c.height)
    (h : DataInv c) : DataInv c' := by
  intro k
  rw [hs (.data k), hh, chainTxs_congr c.store c'.store c.height (fun j _ => storeEq_blockAt hs j)]
  exact h k

theorem metaInv_congr (c c' : ChainSt) (hs : StoreEq c'.store c.store) (hh : c'.height = c.height)
    (h : MetaInv c) : MetaInv c' :=
  ⟨by rw [hs, hh]; exact h.heightRec, fun j hj => by rw [storeEq_blockAt hs]; exact h.top j (by omega)⟩

/-! ### `history` -/

/-- the transactions of the genesis block (none on a chain built through the public interface) -/
def genesisTxs (s : List (SKey × SVal)) : List Tx :=
  match blockAt s 0 with
  | some g => g.txs
  | none => []

theorem historyUpTo_snd (s : List (SKey × SVal)) (k : Nat) :
    ∀ n, (historyUpTo s k n).map Prod.snd = (genesisTxs s ++ chainTxs s n).filter fun t => t.key = k
  | 0 => by
    simp only [historyUpTo, blockHistory, genesisTxs, chainTxs, List.append_nil]
    cases blockAt s 0 <;> simp [List.map_map, Function.comp_def]
  | n + 1 => by
    simp only [historyUpTo, chainTxs, List.map_append, historyUpTo_snd s k n, ← List.append_assoc, List.filter_append]
    congr 1
    simp only [blockHistory]
    cases blockAt s (n + 1) <;> simp [List.map_map, Function.comp_def]

theorem dataAt_congr {s s' : List (SKey × SVal)} {k : Nat} (h : sget s (.data k) = sget s' (.data k)) :
    dataAt s k = dataAt s' k := by simp only [dataAt, h]

theorem sget_applyTx_other (s : List (SKey × SVal)) (t : Tx) (k : Nat) (hk : t.key ≠ k) :
    sget (applyTx s t) (.data k) = sget s (.data k) := by
  cases t with
  | put k' v => exact sget_sput_ne _ _ _ _ (by simpa [Tx.key] using hk)
  | del k' => exact sget_sdel_ne _ _ _ (by simpa [Tx.key] using hk)
  | cas k' e v =>
    simp only [applyTx]
    split
    · exact sget_sput_ne _ _ _ _ (by simpa [Tx.key] using hk)
    · rfl

theorem sget_applyTx_same (s s' : List (SKey × SVal)) (t : Tx) (k : Nat) (hk : t.key = k)
    (h : sget s (.data k) = sget s' (.data k)) :
    sget (applyTx s t) (.data k) = sget (applyTx s' t) (.data k) := by
  cases t with
  | put k' v =>
    simp only [Tx.key] at hk; subst hk
    simp only [applyTx, sget_sput_same]
  | del k' =>
    simp only [Tx.key] at hk; subst hk
    simp only [applyTx, sget_sdel_same]
  | cas k' e v =>
    simp only [Tx.key] at hk; subst hk
    simp only [applyTx, dataAt_congr h]
    split
    · simp only [sget_sput_same]
    · exact h

/-- the value of one key after a list of transactions depends only on the transactions that affect this key -/
theorem sget_applyTxs_filter (k : Nat) (txs : List Tx) : ∀ (s s' : List (SKey × SVal)),
    sget s (.data k) = sget s' (.data k) →
    sget (applyTxs s txs) (.data k) = sget (applyTxs s' (txs.filter fun t => t.key = k)) (.data k) := by
  unfold applyTxs
  induction txs with
  | nil => intro s s' h; exact h
  | cons t ts ih =>
    intro s s' h
    by_cases hk : t.key = k
    · simp only [List.filter_cons, hk, decide_true, if_true, List.foldl_cons]
      exact ih _ _ (sget_applyTx_same s s' t k hk h)
    · simp only [List.filter_cons, hk, decide_false, List.foldl_cons]
      exact ih _ _ (by rw [sget_applyTx_other s t k hk]; exact h)

/-! ### commit calls under an arbitrary interleaving: what `append_lock` guarantees -/

def Local.isOk (l : Local) : Bool :=
  match l.res with
  | some (.ok _) => true
  | _ => false

def okCount (ls : List Local) : Nat := (ls.filter Local.isOk).length

/-- the heights reported by the calls that returned `Ok` -/
def okHeights (ls : List Local) : List Nat :=
  ls.filterMap fun l => match l.res with
    | some (.ok h) => some h
    | _ => none

/-- a call that has its `Ok` result has returned -/
def Local.Settled (l : Local) : Prop := l.isOk = true → l.pc = .done

theorem commitStep_done (C : Crypto) (n : Node) (l : Local) (h : l.pc = .done) : commitStep C n l = (n, l) := by
  simp [commitStep, h]

/-- what one step of a call that has not returned may do to the accounting -/
def StepAccount (n : Node) (l : Local) (r : Node × Local) : Prop :=
  r.2.Settled ∧
  (r = (n, l) ∨
   (l.isOk = false ∧ r.2.isOk = false ∧ r.1.chain.height = n.chain.height) ∨
   (l.isOk = false ∧ r.2.res = some (.ok (n.chain.height + 1)) ∧ r.1.chain.height = n.chain.height + 1))

theorem stepAccount_same (n n' : Node) (l l' : Local) (hno : l.isOk = false) (hres : l'.res = l.res)
    (hh : n'.chain.height = n.chain.height) : StepAccount n l (n', l') := by
  have h' : l'.isOk = false := by simp only [Local.isOk, hres]; exact hno
  exact ⟨fun h => (by rw [h'] at h; cases h), Or.inr (Or.inl ⟨hno, h', hh⟩)⟩

theorem stepAccount_fail (n n' : Node) (l l' : Local) (hno : l.isOk = false) (hpc : l'.pc = .done) (h' : l'.isOk = false)
    (hh : n'.chain.height = n.chain.height) : StepAccount n l (n', l') :=
  ⟨fun _ => hpc, Or.inr (Or.inl ⟨hno, h', hh⟩)⟩

/-- one atomic step of one call: either nothing changes (the call had returned), or no `Ok` appears and the height
    is unchanged, or the call returns `Ok (height + 1)` and the height grows by one (this is the `append` step:
    height check, write and height update are one critical section) -/
theorem commitStep_account (C : Crypto) (n : Node) (l : Local) (hs : l.Settled) :
    StepAccount n l (commitStep C n l) := by
  by_cases hd : l.pc = .done
  · rw [commitStep_done C n l hd]
    exact ⟨hs, Or.inl rfl⟩
  · have hno : l.isOk = false := by
      cases h : l.isOk with
      | false => rfl
      | true => exact absurd (hs h) hd
    cases hpc : l.pc with
    | done => exact absurd hpc hd
    | prepare =>
      simp only [commitStep, hpc]
      cases findWs n.wss l.ws with
      | none => exact stepAccount_fail _ _ _ _ hno rfl rfl rfl
      | some ws =>
        simp only
        (repeat' split) <;>
          first
          | exact stepAccount_fail _ _ _ _ hno rfl rfl rfl
          | exact stepAccount_same _ _ _ _ hno rfl rfl
    | snapshot => simp only [commitStep, hpc]; exact stepAccount_same _ _ _ _ hno rfl rfl
    | apply => simp only [commitStep, hpc]; exact stepAccount_same _ _ _ _ hno rfl rfl
    | root => simp only [commitStep, hpc]; exact stepAccount_same _ _ _ _ hno rfl rfl
    | build => simp only [commitStep, hpc]; exact stepAccount_same _ _ _ _ hno rfl rfl
    | restore => simp only [commitStep, hpc]; exact stepAccount_fail _ _ _ _ hno rfl rfl rfl
    | append =>
      simp only [commitStep, hpc]
      cases hb : l.block with
      | none => exact stepAccount_same _ _ _ _ hno rfl rfl
      | some b =>
        simp only
        cases happ : append C n.cfg.registry n.chain b with
        | error e => exact stepAccount_same _ _ _ _ hno rfl rfl
        | ok c' =>
          have hh : c'.height = n.chain.height + 1 := by
            obtain ⟨_, _, _, _, hc'⟩ := append_ok_inv C _ _ _ _ happ
            rw [hc']
          exact ⟨fun _ => rfl, Or.inr (Or.inr ⟨hno, by simp [hh], by simp [finish, hh]⟩)⟩

end Neumann.Chain
