/-
  C16 — model of the tensor chain (`tensor_chain/src/{block,chain,lib,transaction,
  state_machine,state_root}.rs`).  Import-free, total, computable.

  What is opaque: SHA-256 (`Crypto.hash`), ed25519 (`Crypto.sign` / `Crypto.verify`), bitcode
  (`Tx.enc`, the `embedding` bytes of a header).  The theorems take `HashInjOn` / `SigSound`
  as hypotheses; the driver instantiates `hash` with an injective encoding.

  Not modelled: the graph nodes / edges `Chain::append` creates beside each block record (they
  only matter as additional scanned keys of the state root), storage errors of the store
  itself, the float arithmetic of delta embeddings (workspaces carry a direction tag instead:
  `0` = zero delta, `d > 0` = unit vector `e_d`; the harness only generates such deltas).
-/
namespace Neumann.Chain

/-- `n` little-endian bytes of `v` (`u64::to_le_bytes`, `u16::to_le_bytes`) -/
def leBytes : Nat → Nat → List Nat
  | 0, _ => []
  | n + 1, v => v % 256 :: leBytes n (v / 256)

/-- the opaque third-party functions -/
structure Crypto where
  hash : List Nat → List Nat
  sign : Nat → List Nat → List Nat
  verify : Nat → List Nat → List Nat → Bool
  /-- `[0u8; 32]` -/
  zero : List Nat

/-- `Transaction::{Put, Delete, CompareAndSwap}`.  `cas k e v`: write `v` only if the current value of `k`
    equals `e` (`none` = empty `expected_data`, which is also what an absent key compares as).  The remaining
    variants (`Embed`, `NodeCreate`, `NodeDelete`, `EdgeCreate`, `TableInsert`, `TableUpdate`, `TableDelete`) are
    unconditional puts / deletes of one prefixed key, i.e. `put` / `del` on another key. -/
inductive Tx where
  | put (k v : Nat)
  | del (k : Nat)
  | cas (k : Nat) (e : Option Nat) (v : Nat)
deriving DecidableEq, Repr

def optCode : Option Nat → Nat
  | none => 0
  | some e => e + 1

/-- stands for `bitcode::serialize(tx)` -/
def Tx.enc : Tx → List Nat
  | .put k v => [1, k, v]
  | .del k => [2, k, 0]
  | .cas k e v => [3, k, optCode e, v]

/-- `Transaction::affected_key` -/
def Tx.key : Tx → Nat
  | .put k _ => k
  | .del k => k
  | .cas k _ _ => k

/-- `BlockHeader`, fields in declaration order -/
structure Header where
  height : Nat
  prevHash : List Nat
  txRoot : List Nat
  stateRoot : List Nat
  /-- `bitcode::serialize(delta_embedding)` -/
  embedding : List Nat
  codes : List Nat
  timestamp : Nat
  proposer : List Nat
  signature : List Nat
deriving DecidableEq, Repr

/-- `BlockHeader::signing_bytes` = the bytes fed to SHA-256 by `BlockHeader::hash`:
    every field except `signature`, concatenated without length prefixes -/
def Header.bytes (h : Header) : List Nat :=
  leBytes 8 h.height ++ (h.prevHash ++ (h.txRoot ++ (h.stateRoot ++ (h.embedding
    ++ (h.codes.flatMap (leBytes 2) ++ (leBytes 8 h.timestamp ++ h.proposer))))))

def Header.hash (C : Crypto) (h : Header) : List Nat := C.hash h.bytes

/-- `Block` -/
structure Block where
  header : Header
  txs : List Tx
  /-- `signatures: Vec<ValidatorSignature>` (opaque entries) -/
  sigs : List Nat
deriving DecidableEq, Repr

/-- one level of `merkle_root`: `level.chunks(2)`, an odd last chunk is hashed with itself -/
def merkleLevel (C : Crypto) : List (List Nat) → List (List Nat)
  | [] => []
  | [a] => [C.hash (a ++ a)]
  | a :: b :: rest => C.hash (a ++ b) :: merkleLevel C rest

/-- the `while level.len() > 1` loop (fuel = number of leaves is enough) -/
def merkleLoop (C : Crypto) : Nat → List (List Nat) → List Nat
  | _, [] => C.zero
  | _, [a] => a
  | 0, a :: _ => a
  | fuel + 1, level => merkleLoop C fuel (merkleLevel C level)

def merkleRoot (C : Crypto) (leaves : List (List Nat)) : List Nat :=
  merkleLoop C leaves.length leaves

/-- `Block::compute_tx_root` -/
def txRoot (C : Crypto) (txs : List Tx) : List Nat :=
  match txs with
  | [] => C.zero
  | _ => merkleRoot C (txs.map fun t => C.hash t.enc)

/-! ### the store (one `TensorStore` holds data keys, block records and chain metadata) -/

inductive SKey where
  | chainMeta
  | block (h : Nat)
  | data (k : Nat)
deriving DecidableEq, Repr

inductive SVal where
  | height (h : Nat)
  | block (b : Block)
  | data (v : Nat)
deriving DecidableEq, Repr

/-- scan order (any fixed total order; the real one is the string order of the keys) -/
def SKey.code : SKey → Nat
  | .chainMeta => 0
  | .block h => 2 * h + 1
  | .data k => 2 * k + 2

/-- a store is its scanned image: key-sorted association list -/
def sget : List (SKey × SVal) → SKey → Option SVal
  | [], _ => none
  | (k', v) :: r, k => if k' = k then some v else sget r k

def sput : List (SKey × SVal) → SKey → SVal → List (SKey × SVal)
  | [], k, v => [(k, v)]
  | (k', v') :: r, k, v =>
    if k' = k then (k, v) :: r
    else if k.code < k'.code then (k, v) :: (k', v') :: r
    else (k', v') :: sput r k v

def sdel : List (SKey × SVal) → SKey → List (SKey × SVal)
  | [], _ => []
  | (k', v') :: r, k => if k' = k then sdel r k else (k', v') :: sdel r k

def blockAt (s : List (SKey × SVal)) (h : Nat) : Option Block :=
  match sget s (.block h) with
  | some (.block b) => some b
  | _ => none

/-- the `data` bytes `CompareAndSwap` compares with: `None` for an absent key (`unwrap_or(&[])`) -/
def dataAt (s : List (SKey × SVal)) (k : Nat) : Option Nat :=
  match sget s (.data k) with
  | some (.data x) => some x
  | _ => none

/-- `apply_transaction_to_store` -/
def applyTx (s : List (SKey × SVal)) : Tx → List (SKey × SVal)
  | .put k v => sput s (.data k) (.data v)
  | .del k => sdel s (.data k)
  | .cas k e v => if dataAt s k = e then sput s (.data k) (.data v) else s

def applyTxs (s : List (SKey × SVal)) (txs : List Tx) : List (SKey × SVal) :=
  txs.foldl applyTx s

def encKey : SKey → List Nat
  | .chainMeta => [0]
  | .block h => [1, h]
  | .data k => [2, k]

def encVal : SVal → List Nat
  | .height h => [0, h]
  | .block b => 1 :: (b.header.bytes ++ b.header.signature ++ b.txs.flatMap Tx.enc ++ b.sigs)
  | .data v => [2, v]

/-- `compute_state_root`: SHA-256 over every scanned key and value, length-prefixed -/
def stateRoot (C : Crypto) (s : List (SKey × SVal)) : List Nat :=
  C.hash (s.flatMap fun kv =>
    let k := encKey kv.1
    let v := encVal kv.2
    k.length :: (k ++ (v.length :: v)))

/-! ### `Chain` -/

def regLookup : List (List Nat × Nat) → List Nat → Option Nat
  | [], _ => none
  | (p, k) :: r, q => if p = q then some k else regLookup r q

/-- `BlockHeader::verify_signature` -/
def sigOk (C : Crypto) (reg : List (List Nat × Nat)) (h : Header) : Bool :=
  if h.signature = [] then false
  else match regLookup reg h.proposer with
    | none => false
    | some k => C.verify k h.bytes h.signature

/-- `if let Some(registry) = &self.validator_registry { header.verify_signature(registry)? }` -/
def regSigOk (C : Crypto) (reg : Option (List (List Nat × Nat))) (h : Header) : Bool :=
  match reg with
  | some r => sigOk C r h
  | none => true

inductive AppendErr where
  | height | prevHash | txRoot | unsigned | badSig
deriving DecidableEq, Repr

/-- "Compute tx_root if not set" in `Chain::append` (done after the block was signed) -/
def fixTxRoot (C : Crypto) (b : Block) : Block :=
  if b.header.txRoot = C.zero ∧ b.txs ≠ [] then
    { b with header := { b.header with txRoot := txRoot C b.txs } }
  else b

/-- in-memory part of `Chain` plus the store it writes to -/
structure ChainSt where
  store : List (SKey × SVal)
  height : Nat
  tip : List Nat
deriving DecidableEq, Repr

/-- `Chain::append` (one critical section under `append_lock`) -/
def append (C : Crypto) (reg : Option (List (List Nat × Nat))) (c : ChainSt) (b : Block) :
    Except AppendErr ChainSt :=
  let expected := c.height + 1
  if b.header.height ≠ expected then .error .height
  else if b.header.prevHash ≠ c.tip then .error .prevHash
  else
    let b : Block := fixTxRoot C b
    if b.header.txRoot ≠ txRoot C b.txs then .error .txRoot
    else if expected > 1 ∧ b.header.signature = [] then .error .unsigned
    else if expected > 1 ∧ regSigOk C reg b.header = false then .error .badSig
    else
      .ok { store := sput (sput c.store (.block expected) (.block b)) .chainMeta (.height expected),
            height := expected, tip := b.header.hash C }

inductive VerifyErr where
  | emptyChain
  | notFound (h : Nat)
  | height | prevHash | txRoot | timestamp | badSig
deriving DecidableEq, Repr

/-- `Block::verify_chain(prev)` followed by the optional signature check -/
def checkLink (C : Crypto) (reg : Option (List (List Nat × Nat))) (prev b : Block) : Option VerifyErr :=
  if b.header.height ≠ prev.header.height + 1 then some .height
  else if b.header.prevHash ≠ prev.header.hash C then some .prevHash
  else if b.header.txRoot ≠ txRoot C b.txs then some .txRoot
  else if b.header.timestamp < prev.header.timestamp then some .timestamp
  else if regSigOk C reg b.header then none else some .badSig

/-- the `for h in 1..=height` loop of `Chain::verify_chain`; `n` = blocks still to visit -/
def verifyFrom (C : Crypto) (reg : Option (List (List Nat × Nat))) (s : List (SKey × SVal)) :
    Block → Nat → Nat → Option VerifyErr
  | _, _, 0 => none
  | prev, h, n + 1 =>
    match blockAt s h with
    | none => some (.notFound h)
    | some b =>
      match checkLink C reg prev b with
      | some e => some e
      | none => verifyFrom C reg s b (h + 1) n

/-- `Chain::verify_chain`; `none` = `Ok(())` -/
def verifyChain (C : Crypto) (reg : Option (List (List Nat × Nat))) (c : ChainSt) : Option VerifyErr :=
  if c.height = 0 then none
  else match blockAt c.store 0 with
    | none => some .emptyChain
    | some g =>
      -- `if !prev_block.verify_tx_root()` on the genesis block (repo commit 8e53c5a4)
      if g.header.txRoot ≠ txRoot C g.txs then some .txRoot
      else verifyFrom C reg c.store g 1 c.height

/-- `Chain::verify_chain` before repo commit 8e53c5a4 (the genesis block's `tx_root` was never compared
    with its transactions); kept only for the regression witness in `Props.lean` -/
def verifyChainOld (C : Crypto) (reg : Option (List (List Nat × Nat))) (c : ChainSt) : Option VerifyErr :=
  if c.height = 0 then none
  else match blockAt c.store 0 with
    | none => some .emptyChain
    | some g => verifyFrom C reg c.store g 1 c.height

/-- `Block::genesis` stored by `Chain::initialize` on an empty store -/
def genesisBlock (C : Crypto) (proposer : List Nat) (ts : Nat) : Block :=
  { header := { height := 0, prevHash := C.zero, txRoot := C.zero, stateRoot := C.zero,
                embedding := [], codes := [], timestamp := ts, proposer := proposer, signature := [] },
    txs := [], sigs := [] }

def initChain (C : Crypto) (s : List (SKey × SVal)) (proposer : List Nat) (ts : Nat) : ChainSt :=
  let g := genesisBlock C proposer ts
  { store := sput (sput s (.block 0) (.block g)) .chainMeta (.height 0), height := 0, tip := g.header.hash C }

/-! ### `Chain::initialize` on a store that already holds a chain (re-open after a restart) -/

/-- `load_height`: the `height` field of the `chain:meta` record -/
def loadHeight (s : List (SKey × SVal)) : Option Nat :=
  match sget s .chainMeta with
  | some (.height h) => some h
  | _ => none

/-- `while height > 0 && self.get_block_at(height)?.is_none() { height -= 1 }` -/
def walkBack (s : List (SKey × SVal)) : Nat → Nat
  | 0 => 0
  | h + 1 => if (blockAt s (h + 1)).isSome then h + 1 else walkBack s h

/-- `loop { if self.get_block_at(height + 1)?.is_some() { height += 1 } else { break } }`; every round consumes
    a different block record, so `fuel` = number of records in the store is enough -/
def walkFwd (s : List (SKey × SVal)) : Nat → Nat → Nat
  | 0, h => h
  | f + 1, h => if (blockAt s (h + 1)).isSome then walkFwd s f (h + 1) else h

/-- `Chain::initialize` on a fresh `Chain` object (height 0, tip `[0u8; 32]`) over the store `s`: with a height
    record the height is corrected against the block records actually present (back over missing blocks, then
    forward over present ones), the tip is the hash of the block at that height, and the corrected height is
    saved; without a height record a genesis block is created -/
def openChain (C : Crypto) (s : List (SKey × SVal)) (proposer : List Nat) (ts : Nat) : ChainSt :=
  match loadHeight s with
  | some h0 =>
    let h := walkFwd s s.length (walkBack s h0)
    { store := sput s .chainMeta (.height h), height := h,
      tip := match blockAt s h with
        | some t => t.header.hash C
        | none => C.zero }
  | none => initChain C s proposer ts

/-! ### crash states of `Chain::append`: the process stops between two of its store writes -/

/-- the store writes of an accepted `Chain::append`, in program order: `store_block` (the block record), then —
    after `add_chain_edge`, whose node/edge records belong to the graph engine and are never read by
    `initialize` — `save_height` (the height record) -/
def appendWrites (c : ChainSt) (b : Block) : List (SKey × SVal) :=
  [(.block (c.height + 1), .block b), (.chainMeta, .height (c.height + 1))]

def putAll (s : List (SKey × SVal)) (ws : List (SKey × SVal)) : List (SKey × SVal) :=
  ws.foldl (fun s kv => sput s kv.1 kv.2) s

/-- the store a process leaves behind when it stops inside `Chain::append` of a block that passed the checks,
    after the first `k` store writes: `k = 0` nothing written, `k = 1` block record written and the height record
    still the old one, `k ≥ 2` both written (the store of the completed append) -/
def appendCrashStore (C : Crypto) (c : ChainSt) (b : Block) (k : Nat) : List (SKey × SVal) :=
  putAll c.store ((appendWrites c (fixTxRoot C b)).take k)

/-- NOT the current code — the variant of `Chain::initialize` that keeps the block found by the walk BACK and
    uses it for the tip hash instead of reading the block at the final height again (regression fixture
    seeded/C16_2): the walk FORWARD advances the height but not the cached block.  Kept only for the witness
    `cached_walk_back_tip_breaks_chain_witness` in `Props3.lean`. -/
def openChainWalkBackTip (C : Crypto) (s : List (SKey × SVal)) (proposer : List Nat) (ts : Nat) : ChainSt :=
  match loadHeight s with
  | some h0 =>
    let hb := walkBack s h0
    let h := walkFwd s s.length hb
    { store := sput s .chainMeta (.height h), height := h,
      tip := match blockAt s hb with
        | some t => t.header.hash C
        | none => C.zero }
  | none => initChain C s proposer ts

/-! ### `TensorChain`: workspaces and the commit pipeline -/

inductive WsState where
  | active | committing | committed | rolledBack | failed
deriving DecidableEq, Repr

structure Ws where
  id : Nat
  /-- `checkpoint_bytes`: the whole store at `begin` -/
  snap : List (SKey × SVal)
  ops : List Tx
  state : WsState
  /-- delta embedding: 0 = zero vector, d > 0 = unit vector e_d -/
  dir : Nat
deriving DecidableEq, Repr

structure Config where
  maxTxs : Nat
  autoMerge : Bool
  maxMerge : Nat
  /-- `Some` for `TensorChain` (always built `with_registry`) -/
  registry : Option (List (List Nat × Nat))
  nodeId : List Nat
  key : Nat
deriving DecidableEq, Repr

structure Node where
  cfg : Config
  chain : ChainSt
  wss : List Ws
  /-- `tx_manager.active` -/
  active : List Nat
  nextId : Nat
deriving DecidableEq, Repr

def findWs (wss : List Ws) (id : Nat) : Option Ws := wss.find? (·.id = id)

def updWs (wss : List Ws) (id : Nat) (f : Ws → Ws) : List Ws :=
  wss.map fun w => if w.id = id then f w else w

def setStates (wss : List Ws) (ids : List Nat) (st : WsState) : List Ws :=
  wss.map fun w => if ids.contains w.id then { w with state := st } else w

/-- affected key set (sorted, duplicate-free) -/
def insertKey (k : Nat) : List Nat → List Nat
  | [] => [k]
  | x :: r => if k < x then k :: x :: r else if k = x then x :: r else x :: insertKey k r

def keySet (ops : List Tx) : List Nat := ops.foldl (fun acc t => insertKey t.key acc) []

/-- `TensorChain::begin` -/
def beginWs (n : Node) : Node :=
  { n with wss := n.wss ++ [{ id := n.nextId, snap := n.chain.store, ops := [], state := .active, dir := 0 }],
           active := n.active ++ [n.nextId], nextId := n.nextId + 1 }

/-- `TransactionWorkspace::add_operation`; `false` = "transaction is not active" -/
def addOp (n : Node) (w : Nat) (t : Tx) : Node × Bool :=
  match findWs n.wss w with
  | some ws => if ws.state = .active then ({ n with wss := updWs n.wss w fun x => { x with ops := x.ops ++ [t] } }, true)
               else (n, false)
  | none => (n, false)

def setDir (n : Node) (w d : Nat) : Node :=
  { n with wss := updWs n.wss w fun x => { x with dir := d } }

/-- `TensorChain::rollback`: restores the whole store to the workspace checkpoint -/
def rollbackWs (n : Node) (w : Nat) : Node × Bool :=
  match findWs n.wss w with
  | some ws =>
    if ws.state = .committed then (n, false)
    else ({ n with chain := { n.chain with store := ws.snap },
                   wss := updWs n.wss w (fun x => { x with state := .rolledBack }),
                   active := n.active.filter (· ≠ w) }, true)
  | none => (n, false)

inductive CommitRes where
  | ok (height : Nat)
  | emptyOk
  | notActive | tooMany | conflict
  | appendFailed (e : AppendErr)
deriving DecidableEq, Repr

/-- program counter of one `TensorChain::commit` call -/
inductive Pc where
  | prepare | snapshot | apply | root | build | append | restore | done
deriving DecidableEq, Repr

/-- thread-local variables of one `commit` call -/
structure Local where
  ws : Nat
  ts : Nat
  pc : Pc
  ops : List Tx
  merged : List Nat
  dirs : List Nat
  snap : List (SKey × SVal)
  root : List Nat
  block : Option Block
  err : Option AppendErr
  res : Option CommitRes
deriving DecidableEq, Repr

def Local.init (w ts : Nat) : Local :=
  { ws := w, ts := ts, pc := .prepare, ops := [], merged := [], dirs := [], snap := [], root := [],
    block := none, err := none, res := none }

def otherActive (n : Node) (w : Nat) : List Ws :=
  n.wss.filter fun o => n.active.contains o.id ∧ o.id ≠ w ∧ o.state = .active ∧ o.dir ≠ 0

/-- `detect_conflicts` on unit-vector deltas: same direction with a different key set is
    `Conflicting`; same direction and key set is `Identical`; different directions `Orthogonal` -/
def hasConflict (n : Node) (ws : Ws) : Bool :=
  ws.dir ≠ 0 ∧ (otherActive n ws.id).any fun o => o.dir = ws.dir ∧ keySet o.ops ≠ keySet ws.ops

/-- `find_merge_candidates`: active, non-zero, orthogonal workspaces -/
def mergeCandidates (n : Node) (ws : Ws) : List Ws :=
  if n.cfg.autoMerge ∧ ws.dir ≠ 0 then
    ((otherActive n ws.id).filter fun o => o.dir ≠ ws.dir).take n.cfg.maxMerge
  else []

def finish (n : Node) (ids : List Nat) (st : WsState) : Node :=
  { n with wss := setStates n.wss ids st, active := n.active.filter fun i => !ids.contains i }

/-- the embedding bytes of the committed block: opaque function of the merged directions -/
def embBytes (dirs : List Nat) : List Nat := dirs.filter (· ≠ 0)

/-- one atomic step of `TensorChain::commit` (no lock is held between two steps) -/
def commitStep (C : Crypto) (n : Node) (l : Local) : Node × Local :=
  match l.pc with
  | .prepare =>
    match findWs n.wss l.ws with
    | none => (n, { l with pc := .done, res := some .notActive })
    | some ws =>
      if ws.state ≠ .active then (n, { l with pc := .done, res := some .notActive })
      else
        let n1 := { n with wss := setStates n.wss [ws.id] .committing }
        if ws.ops = [] then (finish n1 [ws.id] .committed, { l with pc := .done, res := some .emptyOk })
        else if ws.ops.length > n.cfg.maxTxs then (finish n1 [ws.id] .failed, { l with pc := .done, res := some .tooMany })
        else if hasConflict n1 ws then (finish n1 [ws.id] .failed, { l with pc := .done, res := some .conflict })
        else
          let cands := mergeCandidates n1 ws
          let ids := cands.map (·.id)
          let n2 := { n1 with wss := setStates n1.wss ids .committing }
          let ops := ws.ops ++ cands.flatMap (·.ops)
          if ops.length > n.cfg.maxTxs then
            (finish n2 (ws.id :: ids) .failed, { l with pc := .done, res := some .tooMany })
          else (n2, { l with pc := .snapshot, ops := ops, merged := ids, dirs := ws.dir :: cands.map (·.dir) })
  | .snapshot => (n, { l with pc := .apply, snap := n.chain.store })
  | .apply => ({ n with chain := { n.chain with store := applyTxs n.chain.store l.ops } }, { l with pc := .root })
  | .root => (n, { l with pc := .build, root := stateRoot C n.chain.store })
  | .build =>
    let h0 : Header :=
      { height := n.chain.height + 1, prevHash := n.chain.tip, txRoot := txRoot C l.ops, stateRoot := l.root,
        embedding := embBytes l.dirs, codes := [], timestamp := l.ts, proposer := n.cfg.nodeId, signature := [] }
    let h : Header := { h0 with signature := C.sign n.cfg.key h0.bytes }
    (n, { l with pc := .append, block := some { header := h, txs := l.ops, sigs := [] } })
  | .append =>
    match l.block with
    | none => (n, { l with pc := .done })
    | some b =>
      match append C n.cfg.registry n.chain b with
      | .ok c' =>
        (finish { n with chain := c' } (l.ws :: l.merged) .committed, { l with pc := .done, res := some (.ok c'.height) })
      | .error e => (n, { l with pc := .restore, err := some e })
  | .restore =>
    (finish { n with chain := { n.chain with store := l.snap } } (l.ws :: l.merged) .failed,
     { l with pc := .done, res := some (.appendFailed (l.err.getD .height)) })
  | .done => (n, l)

def commitRun (C : Crypto) : Nat → Node → Local → Node × Local
  | 0, n, l => (n, l)
  | f + 1, n, l =>
    if l.pc = .done then (n, l)
    else
      let r := commitStep C n l
      commitRun C f r.1 r.2

/-- `TensorChain::commit` executed without interference -/
def commit (C : Crypto) (n : Node) (w ts : Nat) : Node × Local :=
  commitRun C 8 n (Local.init w ts)

/-- a concurrent execution: the schedule names which commit call takes its next step -/
def setNth {α : Type} : List α → Nat → α → List α
  | [], _, _ => []
  | _ :: r, 0, a => a :: r
  | x :: r, i + 1, a => x :: setNth r i a

def runSched (C : Crypto) : List Nat → Node → List Local → Node × List Local
  | [], n, ls => (n, ls)
  | i :: sched, n, ls =>
    match ls[i]? with
    | none => runSched C sched n ls
    | some l =>
      let r := commitStep C n l
      runSched C sched r.1 (setNth ls i r.2)

/-- sequential client operations on one node -/
inductive Op where
  | begin
  | put (w k v : Nat)
  | del (w k : Nat)
  | cas (w k : Nat) (e : Option Nat) (v : Nat)
  | dir (w d : Nat)
  | commit (w ts : Nat)
  | rollback (w : Nat)
deriving DecidableEq, Repr

def stepOp (C : Crypto) (n : Node) : Op → Node
  | .begin => beginWs n
  | .put w k v => (addOp n w (.put k v)).1
  | .del w k => (addOp n w (.del k)).1
  | .cas w k e v => (addOp n w (.cas k e v)).1
  | .dir w d => setDir n w d
  | .commit w ts => (commit C n w ts).1
  | .rollback w => (rollbackWs n w).1

def runOps (C : Crypto) (n : Node) (ops : List Op) : Node := ops.foldl (stepOp C) n

def initNode (C : Crypto) (cfg : Config) (ts : Nat) : Node :=
  { cfg := cfg, chain := initChain C [] cfg.nodeId ts, wss := [], active := [], nextId := 0 }

/-! ### the validator registry is shared mutable state (`ValidatorRegistry` = a `DashMap` behind
    `TensorChain::validator_registry()`): a client can remove and re-insert the node's own key between two
    calls.  With the key absent, `Chain::append` rejects the block `commit` has just built ("unknown proposer")
    AFTER the workspace's writes were applied to the store — the late failure of a commit that needs no second
    thread. -/

/-- `ValidatorRegistry::remove(node_id)` -/
def regRemove : List (List Nat × Nat) → List Nat → List (List Nat × Nat)
  | [], _ => []
  | (p, k) :: r, q => if p = q then regRemove r q else (p, k) :: regRemove r q

/-- `chain.validator_registry().remove(chain.node_id())`; `true` = an entry was removed -/
def unregisterSelf (n : Node) : Node × Bool :=
  match n.cfg.registry with
  | some r => ({ n with cfg := { n.cfg with registry := some (regRemove r n.cfg.nodeId) } },
               (regLookup r n.cfg.nodeId).isSome)
  | none => (n, false)

/-- `chain.register_validator(chain.identity())` (`DashMap::insert` under the node's own id) -/
def registerSelf (n : Node) : Node :=
  match n.cfg.registry with
  | some r => { n with cfg := { n.cfg with registry := some ((n.cfg.nodeId, n.cfg.key) :: regRemove r n.cfg.nodeId) } }
  | none => n

/-- client calls including the two registry calls (kept apart from `Op`: the sequential-history invariant
    is stated for histories in which the node's key stays registered) -/
inductive OpX where
  | op (o : Op)
  | unregister
  | register
deriving DecidableEq, Repr

def stepOpX (C : Crypto) (n : Node) : OpX → Node
  | .op o => stepOp C n o
  | .unregister => (unregisterSelf n).1
  | .register => registerSelf n

def runOpsX (C : Crypto) (n : Node) (ops : List OpX) : Node := ops.foldl (stepOpX C) n

/-! ### restart: a new `TensorChain` object (same identity) over the same store, then `initialize()` -/

/-- `TensorChain::with_identity(store, config, identity)` + `initialize()`: the chain head is re-derived from the
    store, the validator registry is a fresh one holding the node's own key, the transaction manager is empty.
    Workspace objects the client still holds stay usable (`commit` / `rollback` take any workspace), they are
    merely unknown to the new manager. -/
def reopenNode (C : Crypto) (n : Node) (ts : Nat) : Node :=
  { n with cfg := { n.cfg with registry := some [(n.cfg.nodeId, n.cfg.key)] },
           chain := openChain C n.chain.store n.cfg.nodeId ts,
           active := [] }

/-- the node a process leaves behind when it stops inside the `Chain::append` of an uninterrupted
    `commit w ts` (the five steps prepare … build have run, the block passed `append`'s checks), after the first
    `k` store writes of that append (`appendCrashStore`); `none` when the call never reaches an accepted append.
    Only the store matters afterwards: a restart (`reopenNode`) re-derives height and tip from it. -/
def commitCrashInAppend (C : Crypto) (n : Node) (w ts k : Nat) : Option Node :=
  let r := commitRun C 5 n (Local.init w ts)
  match r.2.pc, r.2.block with
  | .append, some b =>
    match append C r.1.cfg.registry r.1.chain b with
    | .ok _ => some { r.1 with chain := { r.1.chain with store := appendCrashStore C r.1.chain b k } }
    | .error _ => none
  | _, _ => none

/-- every client call: the sequential calls, the two registry calls, and the restart -/
inductive OpR where
  | x (o : OpX)
  | reopen (ts : Nat)
deriving DecidableEq, Repr

def stepOpR (C : Crypto) (n : Node) : OpR → Node
  | .x o => stepOpX C n o
  | .reopen ts => reopenNode C n ts

def runOpsR (C : Crypto) (n : Node) (ops : List OpR) : Node := ops.foldl (stepOpR C) n

/-! ### `Chain::history(key)`: the transactions of blocks `0..=height` whose affected key is `key` -/

def blockHistory (s : List (SKey × SVal)) (k h : Nat) : List (Nat × Tx) :=
  match blockAt s h with
  | some b => (b.txs.filter fun t => t.key = k).map fun t => (h, t)
  | none => []

/-- the `for h in 0..=height` loop, blocks that are not found are skipped -/
def historyUpTo (s : List (SKey × SVal)) (k : Nat) : Nat → List (Nat × Tx)
  | 0 => blockHistory s k 0
  | h + 1 => historyUpTo s k h ++ blockHistory s k (h + 1)

def history (c : ChainSt) (k : Nat) : List (Nat × Tx) := historyUpTo c.store k c.height

/-! ### replica: `TensorStateMachine::apply_block` -/

structure Replica where
  /-- the store transactions are applied to and the state root is computed over -/
  state : List (SKey × SVal)
  chain : ChainSt
  /-- `true`: `state` *is* `chain.store` (one `TensorStore` for both) -/
  shared : Bool
deriving DecidableEq, Repr

inductive ApplyErr where
  | stateRoot
  | append (e : AppendErr)
deriving DecidableEq, Repr

def Replica.stateStore (r : Replica) : List (SKey × SVal) := if r.shared then r.chain.store else r.state

def Replica.setState (r : Replica) (s : List (SKey × SVal)) : Replica :=
  if r.shared then { r with chain := { r.chain with store := s } } else { r with state := s }

def applyBlock (C : Crypto) (reg : Option (List (List Nat × Nat))) (r : Replica) (b : Block) :
    Replica × Option ApplyErr :=
  let snap := r.stateStore
  let r1 := r.setState (applyTxs snap b.txs)
  if b.header.stateRoot ≠ stateRoot C r1.stateStore then (r1.setState snap, some .stateRoot)
  else match append C reg r1.chain b with
    | .ok c' => ({ r1 with chain := c' }, none)
    | .error e => (r1.setState snap, some (.append e))

def initReplica (C : Crypto) (shared : Bool) (proposer : List Nat) (ts : Nat) : Replica :=
  { state := [], chain := initChain C [] proposer ts, shared := shared }

/-! ### transaction keys as the client names them: the reserved `chain:` prefix (repo commit b368f92a)

    The chain keeps its block records (`chain:block:<height>`) and its height record (`chain:meta`) in the very
    store its transactions write to, and `apply_transaction_to_store` has no notion of a reserved key: it calls
    `store.put(key, {data})` / `store.delete(key)` on whatever string the transaction names.  What keeps the two
    key spaces apart is one check in `TransactionWorkspace::add_operation`
    (`op.storage_key().starts_with("chain:")` ⇒ `TransactionFailed`), added by repo commit b368f92a.  The typed
    `Tx` above (keys are data keys by construction) is the model of the transactions that check lets through;
    `RawTx` is a transaction as a client hands it in, naming ANY record of the store. -/

/-- `storage_key().starts_with("chain:")`.  (Other strings under the prefix that name no record of the chain are
    refused alike; the typed store has no key for them — the harness checks them on the real code.) -/
def SKey.reserved : SKey → Bool
  | .data _ => false
  | _ => true

/-- `Transaction::{Put, Delete, CompareAndSwap}` as handed to `add_operation`: the key is any store key -/
inductive RawTx where
  | put (k : SKey) (v : Nat)
  | del (k : SKey)
  | cas (k : SKey) (e : Option Nat) (v : Nat)
deriving DecidableEq, Repr

/-- `Transaction::storage_key` -/
def RawTx.key : RawTx → SKey
  | .put k _ => k
  | .del k => k
  | .cas k _ _ => k

/-- a transaction on a data key, as a raw transaction -/
def Tx.raw : Tx → RawTx
  | .put k v => .put (.data k) v
  | .del k => .del (.data k)
  | .cas k e v => .cas (.data k) e v

/-- the typed transaction of a raw transaction whose key is not reserved; `none` for a reserved key -/
def RawTx.narrow : RawTx → Option Tx
  | .put (.data k) v => some (.put k v)
  | .del (.data k) => some (.del k)
  | .cas (.data k) e v => some (.cas k e v)
  | _ => none

/-- the `data` field `CompareAndSwap` compares with, of whatever record lies under the key (`None` when the key is
    absent or the record — a block, the height record — has no such field) -/
def rawDataAt (s : List (SKey × SVal)) (k : SKey) : Option Nat :=
  match sget s k with
  | some (.data x) => some x
  | _ => none

/-- `apply_transaction_to_store` for whatever key the transaction names (the function the fix did NOT change) -/
def applyRawTx (s : List (SKey × SVal)) : RawTx → List (SKey × SVal)
  | .put k v => sput s k (.data v)
  | .del k => sdel s k
  | .cas k e v => if rawDataAt s k = e then sput s k (.data v) else s

def applyRawTxs (s : List (SKey × SVal)) (txs : List RawTx) : List (SKey × SVal) :=
  txs.foldl applyRawTx s

inductive AddRes where
  | ok
  /-- "transaction is not active" -/
  | notActive
  /-- "key uses the reserved prefix \"chain:\"" -/
  | reserved
deriving DecidableEq, Repr

/-- `TransactionWorkspace::add_operation` as it is now: the state check, then the reserved-prefix check (repo commit
    b368f92a), then the operation is recorded (`addOp`) -/
def addOperation (n : Node) (w : Nat) (t : RawTx) : Node × AddRes :=
  match findWs n.wss w with
  | some ws =>
    if ws.state ≠ .active then (n, .notActive)
    else match t.narrow with
      | none => (n, .reserved)
      | some t' => ((addOp n w t').1, .ok)
  | none => (n, .notActive)

/-- every client call of a sequential history, `add_operation` with ANY key included -/
inductive OpC where
  | call (o : Op)
  | add (w : Nat) (t : RawTx)
  | reopen (ts : Nat)
deriving DecidableEq, Repr

def stepOpC (C : Crypto) (n : Node) : OpC → Node
  | .call o => stepOp C n o
  | .add w t => (addOperation n w t).1
  | .reopen ts => reopenNode C n ts

def runOpsC (C : Crypto) (n : Node) (ops : List OpC) : Node := ops.foldl (stepOpC C) n

/-! #### before repo commit b368f92a (kept only for the regression witness in `Props3.lean`)

    `add_operation` had the state check only, so a workspace could hold a transaction on `chain:block:<h>` or
    `chain:meta`, and `commit` applied it like any other.  `commitOld` is `TensorChain::commit` of a workspace
    holding the raw operations `ops`, run without interference, with a zero delta (no conflict check, nothing
    merged): apply, state root, build + sign, `Chain::append`, restore on failure. -/

/-- the block entry of a raw transaction: the scan code of the key stands for the key string (injective) -/
def RawTx.entry : RawTx → Tx
  | .put k v => .put k.code v
  | .del k => .del k.code
  | .cas k e v => .cas k.code e v

def commitOld (C : Crypto) (n : Node) (ops : List RawTx) (ts : Nat) : Node × CommitRes :=
  if ops = [] then (n, .emptyOk)
  else if ops.length > n.cfg.maxTxs then (n, .tooMany)
  else
    let snap := n.chain.store
    let s1 := applyRawTxs snap ops
    let txs := ops.map RawTx.entry
    let h0 : Header :=
      { height := n.chain.height + 1, prevHash := n.chain.tip, txRoot := txRoot C txs, stateRoot := stateRoot C s1,
        embedding := embBytes [0], codes := [], timestamp := ts, proposer := n.cfg.nodeId, signature := [] }
    let h : Header := { h0 with signature := C.sign n.cfg.key h0.bytes }
    match append C n.cfg.registry { n.chain with store := s1 } { header := h, txs := txs, sigs := [] } with
    | .ok c' => ({ n with chain := c' }, .ok c'.height)
    | .error e => ({ n with chain := { n.chain with store := snap } }, .appendFailed e)

/-! ### `TensorStateMachine` as an object: the fast path and the recent-embedding window

    `apply_block` / `apply_entry` choose between `append_fast` and `append_full` by `can_fast_path(block)`: the
    block's delta embedding is non-empty and its cosine similarity to one of the (at most `max_recent` = 10)
    embeddings this OBJECT tracked — the non-empty embeddings of the blocks it accepted since it was created or
    `clear_recent()` was called — reaches `fast_path_threshold`.  The window is in memory only and private to the
    object: two replicas that hold the same store and the same chain may hold different windows (one was restarted,
    one was created with another threshold, one had its window cleared).  The float arithmetic is opaque
    (`FastPath`: what the code reads of an embedding); everything else is mirrored branch by branch. -/

/-- what `can_fast_path` / `track_embedding` read of the serialised delta embeddings -/
structure FastPath where
  /-- `delta_embedding.nnz() != 0` -/
  nonzero : List Nat → Bool
  /-- `block_embedding.cosine_similarity(recent_emb) >= self.fast_path_threshold` (first argument: the block's) -/
  similar : List Nat → List Nat → Bool
  /-- `max_recent` -/
  maxRecent : Nat

/-- one `TensorStateMachine`: the replica it drives and its `recent_embeddings` (oldest first) -/
structure Machine where
  rep : Replica
  recent : List (List Nat)
deriving DecidableEq, Repr

/-- `can_fast_path`: no embedding ⇒ no; empty window ⇒ no; otherwise the maximum similarity over the window reaches
    the threshold, i.e. some entry does -/
def canFastPath (F : FastPath) (recent : List (List Nat)) (b : Block) : Bool :=
  if F.nonzero b.header.embedding = false then false
  else if recent.isEmpty then false
  else recent.any (F.similar b.header.embedding)

/-- `append_fast`: "still do basic structural validation via Chain::append" -/
def appendFast (C : Crypto) (reg : Option (List (List Nat × Nat))) (c : ChainSt) (b : Block) : Except AppendErr ChainSt :=
  append C reg c b

/-- `append_full`: "full validation path through Chain::append" -/
def appendFull (C : Crypto) (reg : Option (List (List Nat × Nat))) (c : ChainSt) (b : Block) : Except AppendErr ChainSt :=
  append C reg c b

/-- `while recent.len() > max_recent { recent.remove(0) }` -/
def trimFront (n : Nat) (l : List (List Nat)) : List (List Nat) := l.drop (l.length - n)

/-- `track_embedding` -/
def trackEmbedding (F : FastPath) (recent : List (List Nat)) (b : Block) : List (List Nat) :=
  if F.nonzero b.header.embedding = false then recent
  else trimFront F.maxRecent (recent ++ [b.header.embedding])

/-- `TensorStateMachine::apply_block` (and `apply_entry` after its config-change filter: the same statements) as the
    code is NOW: snapshot, apply the transactions, compare the state root ON EVERY PATH, then the fast or the full
    append, restore on any failure, track the embedding of an accepted block -/
def applyBlockM (F : FastPath) (C : Crypto) (reg : Option (List (List Nat × Nat))) (m : Machine) (b : Block) :
    Machine × Option ApplyErr :=
  let snap := m.rep.stateStore
  let r1 := m.rep.setState (applyTxs snap b.txs)
  if b.header.stateRoot ≠ stateRoot C r1.stateStore then ({ m with rep := r1.setState snap }, some .stateRoot)
  else
    match (if canFastPath F m.recent b then appendFast C reg r1.chain b else appendFull C reg r1.chain b) with
    | .ok c' => ({ rep := { r1 with chain := c' }, recent := trackEmbedding F m.recent b }, none)
    | .error e => ({ m with rep := r1.setState snap }, some (.append e))

/-- the variant in which the fast path also skips the state-root comparison ("the fast path skips heavy
    validation": regression fixture seeded/C16_4) — kept only for the witnesses in `Props4.lean` -/
def applyBlockFastPathSkipsStateRoot (F : FastPath) (C : Crypto) (reg : Option (List (List Nat × Nat))) (m : Machine)
    (b : Block) : Machine × Option ApplyErr :=
  let snap := m.rep.stateStore
  let r1 := m.rep.setState (applyTxs snap b.txs)
  let fast := canFastPath F m.recent b
  if fast = false ∧ b.header.stateRoot ≠ stateRoot C r1.stateStore then ({ m with rep := r1.setState snap }, some .stateRoot)
  else
    match (if fast then appendFast C reg r1.chain b else appendFull C reg r1.chain b) with
    | .ok c' => ({ rep := { r1 with chain := c' }, recent := trackEmbedding F m.recent b }, none)
    | .error e => ({ m with rep := r1.setState snap }, some (.append e))

/-- what happens to one replica between two blocks, besides receiving the next block -/
inductive MOp where
  /-- `apply_block(b)` -/
  | apply (b : Block)
  /-- the process restarts: `TensorStateMachine::new` / `with_threshold` over the same chain and the same store -/
  | restart
  /-- `clear_recent()` -/
  | clear
deriving DecidableEq, Repr

def stepM (F : FastPath) (C : Crypto) (reg : Option (List (List Nat × Nat))) (m : Machine) : MOp → Machine
  | .apply b => (applyBlockM F C reg m b).1
  | .restart => { m with recent := [] }
  | .clear => { m with recent := [] }

def runM (F : FastPath) (C : Crypto) (reg : Option (List (List Nat × Nat))) (m : Machine) (ops : List MOp) : Machine :=
  ops.foldl (stepM F C reg) m

/-- the verdicts of the `apply_block` calls of a run, in order -/
def verdictsM (F : FastPath) (C : Crypto) (reg : Option (List (List Nat × Nat))) : Machine → List MOp → List (Option ApplyErr)
  | _, [] => []
  | m, .apply b :: ops => (applyBlockM F C reg m b).2 :: verdictsM F C reg (applyBlockM F C reg m b).1 ops
  | m, o :: ops => verdictsM F C reg (stepM F C reg m o) ops

/-- the blocks a run feeds to the replica -/
def blocksOf : List MOp → List Block
  | [] => []
  | .apply b :: ops => b :: blocksOf ops
  | _ :: ops => blocksOf ops

/-- the driver's embeddings: `[]` = the zero vector, `[c, p]` = direction class `c` with perturbation `p`.  With the
    default threshold (0.95) two embeddings are similar exactly when they are of one class; with threshold 0 every
    pair of non-empty embeddings is (the harness's vectors have no negative component). -/
def drvFast (all : Bool) : FastPath :=
  { nonzero := fun e => !e.isEmpty, similar := fun a b => all || a.head? == b.head?, maxRecent := 10 }

/-! ### one transaction of a stored block altered in place; a Merkle variant that loses odd inner nodes

  `merkle_root` (above: `merkleLevel` / `merkleLoop`) gives EVERY level of the tree the treatment of an odd last
  node: `level.chunks(2)` yields a final chunk of one, which is hashed with itself.  That is what makes every leaf
  feed the root.  The variant below is the tempting simplification "pad the leaves to an even number once, then
  fold pairs": `chunks_exact(2)` has no final chunk of one, so the last node of every odd INNER level (3 nodes above
  5 or 6 leaves, 5 above 9 or 10, 3 above 11 or 12, …) is dropped together with every transaction below it.  Kept
  only for the regression witnesses in `Props5.lean`. -/

/-- transaction `k` of the block replaced by `t` (the stored record rewritten; header untouched) -/
def Block.setTx (b : Block) (k : Nat) (t : Tx) : Block := { b with txs := b.txs.set k t }

/-- `level.chunks_exact(2)`: pairs only, a remaining single node is ignored -/
def merkleLevelExact (C : Crypto) : List (List Nat) → List (List Nat)
  | a :: b :: rest => C.hash (a ++ b) :: merkleLevelExact C rest
  | _ => []

def merkleLoopExact (C : Crypto) : Nat → List (List Nat) → List Nat
  | _, [] => C.zero
  | _, [a] => a
  | 0, a :: _ => a
  | fuel + 1, level => merkleLoopExact C fuel (merkleLevelExact C level)

/-- VARIANT of `merkleRoot`: the leaf level padded once (last leaf repeated when their number is odd), every level
    folded with `chunks_exact(2)` -/
def merkleRootDropsOddIntermediateNode (C : Crypto) (leaves : List (List Nat)) : List Nat :=
  match leaves with
  | [] => C.zero
  | [a] => a
  | _ =>
    let level := if leaves.length % 2 = 1 then leaves ++ leaves.getLast?.toList else leaves
    merkleLoopExact C level.length level

/-- VARIANT of `txRoot` over it -/
def txRootDropsOddIntermediateNode (C : Crypto) (txs : List Tx) : List Nat :=
  match txs with
  | [] => C.zero
  | _ => merkleRootDropsOddIntermediateNode C (txs.map fun t => C.hash t.enc)

/-- `checkLink` / `verifyFrom` / `verifyChain` with the function that recomputes a block's transaction root as a
    parameter (`verifyChainR C (txRoot C) = verifyChain C`, proved in `Lemmas8.lean`) -/
def checkLinkR (C : Crypto) (root : List Tx → List Nat) (reg : Option (List (List Nat × Nat))) (prev b : Block) :
    Option VerifyErr :=
  if b.header.height ≠ prev.header.height + 1 then some .height
  else if b.header.prevHash ≠ prev.header.hash C then some .prevHash
  else if b.header.txRoot ≠ root b.txs then some .txRoot
  else if b.header.timestamp < prev.header.timestamp then some .timestamp
  else if regSigOk C reg b.header then none else some .badSig

def verifyFromR (C : Crypto) (root : List Tx → List Nat) (reg : Option (List (List Nat × Nat))) (s : List (SKey × SVal)) :
    Block → Nat → Nat → Option VerifyErr
  | _, _, 0 => none
  | prev, h, n + 1 =>
    match blockAt s h with
    | none => some (.notFound h)
    | some b =>
      match checkLinkR C root reg prev b with
      | some e => some e
      | none => verifyFromR C root reg s b (h + 1) n

def verifyChainR (C : Crypto) (root : List Tx → List Nat) (reg : Option (List (List Nat × Nat))) (c : ChainSt) :
    Option VerifyErr :=
  if c.height = 0 then none
  else match blockAt c.store 0 with
    | none => some .emptyChain
    | some g =>
      if g.header.txRoot ≠ root g.txs then some .txRoot
      else verifyFromR C root reg c.store g 1 c.height

/-! ### `find_and_merge_orthogonal` with the transition validator (non-empty global codebook)

`commitStep` above models auto-merge with the DEFAULT (empty) codebook, where every candidate that can be marked
`Committing` is merged.  With a non-empty codebook the loop asks the `TransitionValidator` about the tentative
merged delta of each candidate in turn; the verdict is an INPUT BIT of the candidate here (the validator is a
function of embeddings the model does not carry).  Branch by branch:
`mark_committing` fails → skip; validator consulted and says invalid → `mark_failed`, skip (nothing of the
candidate is kept); otherwise operations appended, delta merged, workspace recorded as merged. -/

structure Cand where
  id : Nat
  ops : List Tx
  dir : Nat
  /-- `mark_committing()` succeeds (the workspace is still `Active` when the loop reaches it) -/
  markable : Bool
  /-- `validate_transition("chain", original, tentative).is_valid` -/
  valid : Bool
deriving DecidableEq, Repr

/-- the loop variables of `find_and_merge_orthogonal` (+ the ids marked `Failed`) -/
structure MergeAcc where
  /-- `all_operations` -/
  ops : List Tx
  /-- the directions summed into `delta` -/
  dirs : List Nat
  /-- `merged_workspaces` -/
  merged : List Nat
  /-- candidates marked `Failed` by the loop (they stay in `tx_manager.active`) -/
  failed : List Nat
deriving DecidableEq, Repr

/-- one iteration; `validate` = `!codebook_manager.global().is_empty()` -/
def mergeStep (validate : Bool) (a : MergeAcc) (c : Cand) : MergeAcc :=
  if !c.markable then a
  else if validate && !c.valid then { a with failed := a.failed ++ [c.id] }
  else { a with ops := a.ops ++ c.ops, dirs := a.dirs ++ [c.dir], merged := a.merged ++ [c.id] }

def mergeInit (own : List Tx) (dir : Nat) : MergeAcc := { ops := own, dirs := [dir], merged := [], failed := [] }

/-- `find_and_merge_orthogonal(workspace, delta)` over the (already truncated) candidate list -/
def mergeLoop (validate : Bool) (own : List Tx) (dir : Nat) (cs : List Cand) : MergeAcc :=
  cs.foldl (mergeStep validate) (mergeInit own dir)

/-- the candidate ends up in the block -/
def Cand.accepted (validate : Bool) (c : Cand) : Bool := c.markable && !(validate && !c.valid)
/-- the candidate is marked `Failed` by the loop -/
def Cand.rejected (validate : Bool) (c : Cand) : Bool := c.markable && (validate && !c.valid)

/-- variant (seeded mistake): the candidate's operations are appended next to the tentative delta merge, BEFORE the
    validator is consulted; a rejected candidate is still marked `Failed` and skipped -/
def mergeStepAppendBeforeValidation (validate : Bool) (a : MergeAcc) (c : Cand) : MergeAcc :=
  if !c.markable then a
  else
    let a1 := { a with ops := a.ops ++ c.ops }
    if validate && !c.valid then { a1 with failed := a1.failed ++ [c.id] }
    else { a1 with dirs := a1.dirs ++ [c.dir], merged := a1.merged ++ [c.id] }

def mergeLoopAppendBeforeValidation (validate : Bool) (own : List Tx) (dir : Nat) (cs : List Cand) : MergeAcc :=
  cs.foldl (mergeStepAppendBeforeValidation validate) (mergeInit own dir)

/-- the candidate a workspace of the node is, given the verdict the validator will give it -/
def Cand.ofWs (valid : Nat → Bool) (w : Ws) : Cand :=
  { id := w.id, ops := w.ops, dir := w.dir, markable := w.state = .active, valid := valid w.id }

/-! ### the driver's concrete crypto: injective encodings -/

def drvCrypto : Crypto :=
  { hash := fun x => x, sign := fun k m => 7 :: k :: m, verify := fun k m s => s == 7 :: k :: m, zero := [0] }

end Neumann.Chain
