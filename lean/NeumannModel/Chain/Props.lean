import NeumannModel.Chain.Lemmas
/-
  C16 — property theorems for the tamper-evident chain.  ONLY property statements and their
  non-vacuity examples live here; helpers are in `Lemmas.lean`.
-/
namespace Neumann.Chain.Props
open Neumann.Chain

/-- `merkle_root` gives `[a,b,c]` and `[a,b,c,c]` the same root for EVERY hash function: the odd
    last leaf is paired with itself, which is exactly the pair `(c,c)` of the longer list.
    Hence the `transactions` field is not bound by `tx_root`. -/
theorem merkle_duplicate_witness (C : Crypto) (a b c : Tx) :
    [a, b, c] ≠ [a, b, c, c] ∧ txRoot C [a, b, c] = txRoot C [a, b, c, c] := by
  refine ⟨by simp, ?_⟩
  simp [txRoot, merkleRoot, merkleLoop, merkleLevel]

end Neumann.Chain.Props
