import NeumannModel.Chain.Lemmas
/-
  C16 — property theorems for the tamper-evident chain.  ONLY property statements and their
  non-vacuity examples live here; helpers are in `Lemmas.lean`.

  Reading guide.  `Inv C reg c` is the invariant of chains built through `initialize`/`append`
  (`built_inv`).  The tamper theorems quantify over EVERY chain length `c.height ≥ 1`, every
  position `i`, every replacement value.  `signedOf r c.store c.height` is "what the validators
  signed" = the stored blocks `1..=height` of the honest chain; `SigSound` says nothing else
  verifies under a registered key.  What is false of the code as it stands is proved as
  `…_witness`, what holds with an extra hypothesis as `…_partial`.
-/
namespace Neumann.Chain.Props
open Neumann.Chain

/-! ## 1. chains built through the public interface verify -/

/-- chains reachable by `Chain::initialize` + `Chain::append`, where each appended block also
    satisfies the two conditions `verify_chain` checks but `append` does not -/
inductive Built (C : Crypto) (reg : Option (List (List Nat × Nat))) : ChainSt → Prop where
  | init (s : List (SKey × SVal)) (proposer : List Nat) (ts : Nat) : Built C reg (initChain C s proposer ts)
  | step (c c' : ChainSt) (b : Block) : Built C reg c → append C reg c b = .ok c' →
      (∀ t, blockAt c.store c.height = some t → t.header.timestamp ≤ b.header.timestamp) →
      (c.height = 0 → regSigOk C reg (fixTxRoot C b).header = true) → Built C reg c'

theorem built_inv (C : Crypto) (reg : Option (List (List Nat × Nat))) (c : ChainSt) (h : Built C reg c) :
    Inv C reg c := by
  induction h with
  | init s p ts => exact inv_init C reg s p ts
  | step c c' b _ happ hts hsig ih => exact inv_append C reg c c' b ih happ hts hsig

/-- PARTIAL (missing: `append` itself does not enforce the two side conditions of `Built.step`, so the
    unconditional statement is false for RAW `append` — see the two witnesses below; for chains built through the
    workspace commit path the side conditions are discharged in `commit_built_chain_verifies`).  Any chain of any length built
    through `append` from blocks whose timestamps do not go back and whose height-1 block is signed
    verifies. -/
theorem built_chain_verifies_partial (C : Crypto) (reg : Option (List (List Nat × Nat))) (c : ChainSt)
    (h : Built C reg c) : verifyChain C reg c = none :=
  verify_complete C reg c (built_inv C reg c h).ok

/-- a concrete two-block chain: genesis + one signed block -/
def exBlock1 : Block :=
  let h0 : Header := { height := 1, prevHash := (genesisBlock drvCrypto [1] 10).header.hash drvCrypto,
                       txRoot := txRoot drvCrypto [.put 1 2], stateRoot := [0], embedding := [], codes := [],
                       timestamp := 11, proposer := [1], signature := [] }
  { header := { h0 with signature := drvCrypto.sign 1 h0.bytes }, txs := [.put 1 2], sigs := [] }

def exChain1 : ChainSt :=
  match append drvCrypto (some [([1], 1)]) (initChain drvCrypto [] [1] 10) exBlock1 with
  | .ok c => c
  | .error _ => initChain drvCrypto [] [1] 10

/-- non-vacuity: `Built` holds of a real two-block chain, and it verifies -/
example : exChain1.height = 1 ∧ verifyChain drvCrypto (some [([1], 1)]) exChain1 = none := by decide

/-- WITNESS (`built_chain_verifies` is false as the code stands, 1/2): `append` accepts a block whose
    timestamp is before the tip's; `verify_chain` rejects the resulting chain. -/
theorem append_accepts_timestamp_regression_witness :
    ∃ (c : ChainSt) (b : Block) (c' : ChainSt), Built drvCrypto none c ∧ append drvCrypto none c b = .ok c' ∧
      verifyChain drvCrypto none c' = some .timestamp := by
  let g := initChain drvCrypto [] [1] 10
  let b : Block := { header := { height := 1, prevHash := g.tip, txRoot := [0], stateRoot := [0], embedding := [],
                                 codes := [], timestamp := 5, proposer := [1], signature := [] }, txs := [], sigs := [] }
  refine ⟨g, b, { store := sput (sput g.store (.block 1) (.block b)) .chainMeta (.height 1), height := 1,
                  tip := b.header.hash drvCrypto }, Built.init _ _ _, by rfl, by decide⟩

/-- WITNESS (2/2): with a validator registry, `append` accepts an UNSIGNED block at height 1 (its check is
    `expected_height > 1`); `verify_chain` rejects the chain ("missing block signature"). -/
theorem append_accepts_unsigned_height1_witness :
    ∃ (c : ChainSt) (b : Block) (c' : ChainSt), Built drvCrypto (some [([1], 1)]) c ∧
      append drvCrypto (some [([1], 1)]) c b = .ok c' ∧ verifyChain drvCrypto (some [([1], 1)]) c' = some .badSig := by
  let g := initChain drvCrypto [] [1] 10
  let b : Block := { header := { height := 1, prevHash := g.tip, txRoot := [0], stateRoot := [0], embedding := [],
                                 codes := [], timestamp := 15, proposer := [1], signature := [] }, txs := [], sigs := [] }
  refine ⟨g, b, { store := sput (sput g.store (.block 1) (.block b)) .chainMeta (.height 1), height := 1,
                  tip := b.header.hash drvCrypto }, Built.init _ _ _, by rfl, by decide⟩

/-! ## 2. tamper evidence -/

/-- replace the stored block at position `i` -/
def withBlock (c : ChainSt) (i : Nat) (b : Block) : ChainSt :=
  { c with store := sput c.store (.block i) (.block b) }

/-- CORE (alter / forge, every chain length, every non-genesis position): if the stored block `i ≥ 1`
    is replaced by ANY block `b'` and the chain still verifies, then `b'` has exactly the signing bytes and the
    signature of the original.  Needs only `SigSound` (the predecessor check pins the height, the height is
    readable from the signed bytes, so the validators' signature over another height cannot be reused). -/
theorem tamper_detected_forged_block (C : Crypto) (r : List (List Nat × Nat)) (c : ChainSt)
    (hinv : Inv C (some r) c) (hwf : ∀ j b, j ≤ c.height → blockAt c.store j = some b → b.header.height < 2 ^ 64)
    (hsound : SigSound C (signedOf r c.store c.height))
    (i : Nat) (h1 : 1 ≤ i) (h2 : i ≤ c.height) (o b' : Block) (ho : blockAt c.store i = some o)
    (hwf' : b'.header.height < 2 ^ 64)
    (hne : b'.header.bytes ≠ o.header.bytes ∨ b'.header.signature ≠ o.header.signature) :
    verifyChain C (some r) (withBlock c i b') ≠ none := by
  intro hv
  have hok := verify_sound C (some r) (withBlock c i b') hv (by simp [withBlock]; omega)
  obtain ⟨p, b, hp, hb, hc⟩ := hok.2 i h1 (by simpa [withBlock] using h2)
  simp only [withBlock] at hp hb
  rw [blockAt_sput_same] at hb
  cases hb
  rw [blockAt_sput_ne _ _ _ _ (by simp; omega)] at hp
  obtain ⟨p0, hp0, hph⟩ := hinv.heights (i - 1) (by omega)
  rw [hp0] at hp; cases hp
  obtain ⟨hh, _, _, _, hs⟩ := checkLink_none C (some r) _ _ hc
  obtain ⟨k, _, hver⟩ := regSigOk_some C r _ hs
  obtain ⟨j, bj, hj1, hj2, hbj, hbytes, hsig⟩ := mem_signedOf r c.store c.height _ (hsound _ _ _ hver)
  simp only at hbytes hsig
  obtain ⟨bj', hbj', hjh⟩ := hinv.heights j hj2
  rw [hbj] at hbj'; cases hbj'
  have hhj : b'.header.height = bj.header.height := bytes_height _ _ hwf' (hwf j bj hj2 hbj) hbytes
  have : j = i := by omega
  subst this
  rw [ho] at hbj; cases hbj
  rcases hne with hne | hne
  · exact hne hbytes
  · exact hne hsig

/-- genesis (`i = 0`) header: its hash is pinned by block 1's `prev_hash` (needs `HashInjOn`) -/
theorem tamper_detected_genesis_header (C : Crypto) (reg : Option (List (List Nat × Nat))) (occ : List Nat → Prop)
    (c : ChainSt) (hinv : Inv C reg c) (hinj : HashInjOn C occ) (hh : 1 ≤ c.height)
    (o b' : Block) (ho : blockAt c.store 0 = some o) (ho1 : occ o.header.bytes) (ho2 : occ b'.header.bytes)
    (hne : b'.header.bytes ≠ o.header.bytes) :
    verifyChain C reg (withBlock c 0 b') ≠ none := by
  intro hv
  have hok := verify_sound C reg (withBlock c 0 b') hv (by simpa [withBlock] using hh)
  obtain ⟨p, b, hp, hb, hc⟩ := hok.2 1 (Nat.le_refl _) (by simpa [withBlock] using hh)
  simp only [withBlock, Nat.sub_self] at hp hb
  rw [blockAt_sput_same] at hp
  cases hp
  rw [blockAt_sput_ne _ _ _ _ (by simp)] at hb
  obtain ⟨p0, b0, hp0, hb0, hc0⟩ := hinv.ok.2 1 (Nat.le_refl _) hh
  simp only [Nat.sub_self] at hp0
  rw [ho] at hp0; cases hp0
  rw [hb] at hb0; cases hb0
  have e1 := (checkLink_none C reg _ _ hc).2.1
  have e2 := (checkLink_none C reg _ _ hc0).2.1
  rw [e1] at e2
  exact hne (hinj _ _ ho2 ho1 e2)

/-- the per-field statement, all positions `0..=height` of every chain with `height ≥ 1`:
    a replacement whose signing bytes differ from the original's is detected -/
theorem tamper_detected_header_bytes (C : Crypto) (r : List (List Nat × Nat)) (occ : List Nat → Prop) (c : ChainSt)
    (hinv : Inv C (some r) c) (hwf : ∀ j b, j ≤ c.height → blockAt c.store j = some b → b.header.height < 2 ^ 64)
    (hinj : HashInjOn C occ) (hsound : SigSound C (signedOf r c.store c.height)) (hh : 1 ≤ c.height)
    (i : Nat) (h2 : i ≤ c.height) (o b' : Block) (ho : blockAt c.store i = some o)
    (ho1 : occ o.header.bytes) (ho2 : occ b'.header.bytes) (hwf' : b'.header.height < 2 ^ 64)
    (hne : b'.header.bytes ≠ o.header.bytes) :
    verifyChain C (some r) (withBlock c i b') ≠ none := by
  by_cases h0 : i = 0
  · subst h0
    exact tamper_detected_genesis_header C (some r) occ c hinv hinj hh o b' ho ho1 ho2 hne
  · exact tamper_detected_forged_block C r c hinv hwf hsound i (by omega) h2 o b' ho hwf' (Or.inl hne)

/-- hypotheses shared by the per-field theorems, bundled -/
structure Honest (C : Crypto) (r : List (List Nat × Nat)) (occ : List Nat → Prop) (c : ChainSt) : Prop where
  inv : Inv C (some r) c
  wf : ∀ j b, j ≤ c.height → blockAt c.store j = some b → b.header.WF
  inj : HashInjOn C occ
  sound : SigSound C (signedOf r c.store c.height)
  occAll : ∀ x, occ x
  nonempty : 1 ≤ c.height

theorem field_detected (C : Crypto) (r : List (List Nat × Nat)) (occ : List Nat → Prop) (c : ChainSt)
    (H : Honest C r occ c) (i : Nat) (h2 : i ≤ c.height) (o : Block) (ho : blockAt c.store i = some o) (h' : Header)
    (hwf' : h'.height < 2 ^ 64) (hne : h'.bytes ≠ o.header.bytes) :
    verifyChain C (some r) (withBlock c i { o with header := h' }) ≠ none :=
  tamper_detected_header_bytes C r occ c H.inv (fun j b hj hb => (H.wf j b hj hb).1) H.inj H.sound H.nonempty i h2 o _ ho
    (H.occAll _) (H.occAll _) hwf' hne

theorem tamper_detected_height (C : Crypto) (r : List (List Nat × Nat)) (occ : List Nat → Prop) (c : ChainSt)
    (H : Honest C r occ c) (i : Nat) (h2 : i ≤ c.height) (o : Block) (ho : blockAt c.store i = some o)
    (v : Nat) (hv : v < 2 ^ 64) (hne : v ≠ o.header.height) :
    verifyChain C (some r) (withBlock c i { o with header := { o.header with height := v } }) ≠ none := by
  refine field_detected C r occ c H i h2 o ho _ ?_ ?_
  · exact hv
  intro hb
  exact hne (bytes_height _ _ hv (H.wf i o h2 ho).1 hb)

theorem tamper_detected_prev_hash (C : Crypto) (r : List (List Nat × Nat)) (occ : List Nat → Prop) (c : ChainSt)
    (H : Honest C r occ c) (i : Nat) (h2 : i ≤ c.height) (o : Block) (ho : blockAt c.store i = some o)
    (v : List Nat) (hne : v ≠ o.header.prevHash) :
    verifyChain C (some r) (withBlock c i { o with header := { o.header with prevHash := v } }) ≠ none := by
  refine field_detected C r occ c H i h2 o ho _ ?_ ?_
  · exact (H.wf i o h2 ho).1
  intro hb
  simp only [Header.bytes] at hb
  exact hne (List.append_cancel_right (List.append_cancel_left hb))

theorem tamper_detected_tx_root (C : Crypto) (r : List (List Nat × Nat)) (occ : List Nat → Prop) (c : ChainSt)
    (H : Honest C r occ c) (i : Nat) (h2 : i ≤ c.height) (o : Block) (ho : blockAt c.store i = some o)
    (v : List Nat) (hne : v ≠ o.header.txRoot) :
    verifyChain C (some r) (withBlock c i { o with header := { o.header with txRoot := v } }) ≠ none := by
  refine field_detected C r occ c H i h2 o ho _ ?_ ?_
  · exact (H.wf i o h2 ho).1
  intro hb
  simp only [Header.bytes] at hb
  exact hne (List.append_cancel_right (List.append_cancel_left (List.append_cancel_left hb)))

theorem tamper_detected_state_root (C : Crypto) (r : List (List Nat × Nat)) (occ : List Nat → Prop) (c : ChainSt)
    (H : Honest C r occ c) (i : Nat) (h2 : i ≤ c.height) (o : Block) (ho : blockAt c.store i = some o)
    (v : List Nat) (hne : v ≠ o.header.stateRoot) :
    verifyChain C (some r) (withBlock c i { o with header := { o.header with stateRoot := v } }) ≠ none := by
  refine field_detected C r occ c H i h2 o ho _ ?_ ?_
  · exact (H.wf i o h2 ho).1
  intro hb
  simp only [Header.bytes] at hb
  exact hne (List.append_cancel_right (List.append_cancel_left (List.append_cancel_left (List.append_cancel_left hb))))

theorem tamper_detected_delta_embedding (C : Crypto) (r : List (List Nat × Nat)) (occ : List Nat → Prop) (c : ChainSt)
    (H : Honest C r occ c) (i : Nat) (h2 : i ≤ c.height) (o : Block) (ho : blockAt c.store i = some o)
    (v : List Nat) (hne : v ≠ o.header.embedding) :
    verifyChain C (some r) (withBlock c i { o with header := { o.header with embedding := v } }) ≠ none := by
  refine field_detected C r occ c H i h2 o ho _ ?_ ?_
  · exact (H.wf i o h2 ho).1
  intro hb
  simp only [Header.bytes] at hb
  exact hne (List.append_cancel_right (List.append_cancel_left (List.append_cancel_left
    (List.append_cancel_left (List.append_cancel_left hb)))))

theorem tamper_detected_quantized_codes (C : Crypto) (r : List (List Nat × Nat)) (occ : List Nat → Prop) (c : ChainSt)
    (H : Honest C r occ c) (i : Nat) (h2 : i ≤ c.height) (o : Block) (ho : blockAt c.store i = some o)
    (v : List Nat) (hv : ∀ x ∈ v, x < 2 ^ 16) (hne : v ≠ o.header.codes) :
    verifyChain C (some r) (withBlock c i { o with header := { o.header with codes := v } }) ≠ none := by
  refine field_detected C r occ c H i h2 o ho _ ?_ ?_
  · exact (H.wf i o h2 ho).1
  intro hb
  simp only [Header.bytes] at hb
  have := List.append_cancel_right (List.append_cancel_left (List.append_cancel_left
    (List.append_cancel_left (List.append_cancel_left (List.append_cancel_left hb)))))
  exact hne (flatMap_leBytes2_inj _ _ hv (H.wf i o h2 ho).2.2 this)

theorem tamper_detected_timestamp (C : Crypto) (r : List (List Nat × Nat)) (occ : List Nat → Prop) (c : ChainSt)
    (H : Honest C r occ c) (i : Nat) (h2 : i ≤ c.height) (o : Block) (ho : blockAt c.store i = some o)
    (v : Nat) (hv : v < 2 ^ 64) (hne : v ≠ o.header.timestamp) :
    verifyChain C (some r) (withBlock c i { o with header := { o.header with timestamp := v } }) ≠ none := by
  refine field_detected C r occ c H i h2 o ho _ ?_ ?_
  · exact (H.wf i o h2 ho).1
  intro hb
  simp only [Header.bytes] at hb
  have := List.append_cancel_right (List.append_cancel_left (List.append_cancel_left
    (List.append_cancel_left (List.append_cancel_left (List.append_cancel_left (List.append_cancel_left hb))))))
  exact hne (leBytes8_inj _ _ hv (H.wf i o h2 ho).2.1 this)

theorem tamper_detected_proposer (C : Crypto) (r : List (List Nat × Nat)) (occ : List Nat → Prop) (c : ChainSt)
    (H : Honest C r occ c) (i : Nat) (h2 : i ≤ c.height) (o : Block) (ho : blockAt c.store i = some o)
    (v : List Nat) (hne : v ≠ o.header.proposer) :
    verifyChain C (some r) (withBlock c i { o with header := { o.header with proposer := v } }) ≠ none := by
  refine field_detected C r occ c H i h2 o ho _ ?_ ?_
  · exact (H.wf i o h2 ho).1
  intro hb
  simp only [Header.bytes] at hb
  exact hne (List.append_cancel_left (List.append_cancel_left (List.append_cancel_left
    (List.append_cancel_left (List.append_cancel_left (List.append_cancel_left (List.append_cancel_left hb)))))))

/-- PARTIAL (missing: position 0 — the genesis `signature` is neither hashed nor verified, see
    `tamper_genesis_signature_witness`).  The `signature` field of every non-genesis block. -/
theorem tamper_detected_signature_partial (C : Crypto) (r : List (List Nat × Nat)) (occ : List Nat → Prop) (c : ChainSt)
    (H : Honest C r occ c) (i : Nat) (h1 : 1 ≤ i) (h2 : i ≤ c.height) (o : Block) (ho : blockAt c.store i = some o)
    (v : List Nat) (hne : v ≠ o.header.signature) :
    verifyChain C (some r) (withBlock c i { o with header := { o.header with signature := v } }) ≠ none :=
  tamper_detected_forged_block C r c H.inv (fun j b hj hb => (H.wf j b hj hb).1) H.sound i h1 h2 o _ ho (H.wf i o h2 ho).1 (Or.inr hne)

/-- removing any stored block `0..=height` is detected (no crypto needed) -/
theorem tamper_detected_removed (C : Crypto) (reg : Option (List (List Nat × Nat))) (c : ChainSt)
    (hh : 1 ≤ c.height) (i : Nat) (h2 : i ≤ c.height) :
    verifyChain C reg { c with store := sdel c.store (.block i) } ≠ none := by
  intro hv
  have hok := verify_sound C reg _ hv (by simpa using hh)
  by_cases h0 : i = 0
  · subst h0
    obtain ⟨g, hg, _⟩ := hok.1
    simp only at hg
    rw [blockAt_sdel_same] at hg
    cases hg
  · obtain ⟨p, b, _, hb, _⟩ := hok.2 i (by omega) (by simpa using h2)
    simp only at hb
    rw [blockAt_sdel_same] at hb
    cases hb

/-- reordering: swapping the stored blocks at two different positions is detected (no crypto needed) -/
theorem tamper_detected_reordered (C : Crypto) (reg : Option (List (List Nat × Nat))) (c : ChainSt) (hinv : Inv C reg c)
    (i j : Nat) (hij : i < j) (hj : j ≤ c.height) (oi oj : Block)
    (hoi : blockAt c.store i = some oi) (hoj : blockAt c.store j = some oj) :
    verifyChain C reg { c with store := sput (sput c.store (.block i) (.block oj)) (.block j) (.block oi) } ≠ none := by
  intro hv
  have hok := verify_sound C reg _ hv (by simp; omega)
  obtain ⟨x, hx, hxh⟩ := hinv.heights i (by omega)
  rw [hoi] at hx; cases hx
  obtain ⟨y, hy, hyh⟩ := hinv.heights j hj
  rw [hoj] at hy; cases hy
  by_cases h0 : i = 0
  · -- genesis swapped with block j: look at position 1
    subst h0
    obtain ⟨p, b, hp, hb, hc⟩ := hok.2 1 (Nat.le_refl _) (by simp; omega)
    simp only [Nat.sub_self] at hp hb
    rw [blockAt_sput_ne _ _ _ _ (by simp; omega), blockAt_sput_same] at hp
    cases hp
    have hh := (checkLink_none C reg _ _ hc).1
    by_cases hj1 : j = 1
    · subst hj1
      rw [blockAt_sput_same] at hb
      cases hb
      omega
    · rw [blockAt_sput_ne _ _ _ _ (by simp; omega), blockAt_sput_ne _ _ _ _ (by simp)] at hb
      obtain ⟨z, hz, hzh⟩ := hinv.heights 1 (by omega)
      rw [hb] at hz; cases hz
      omega
  · -- position i ≥ 1 now holds the block of height j, its predecessor i-1 is untouched
    obtain ⟨p, b, hp, hb, hc⟩ := hok.2 i (by omega) (by simp; omega)
    simp only at hp hb
    rw [blockAt_sput_ne _ _ _ _ (by simp; omega), blockAt_sput_same] at hb
    cases hb
    rw [blockAt_sput_ne _ _ _ _ (by simp; omega), blockAt_sput_ne _ _ _ _ (by simp; omega)] at hp
    obtain ⟨z, hz, hzh⟩ := hinv.heights (i - 1) (by omega)
    rw [hp] at hz; cases hz
    have hh := (checkLink_none C reg _ _ hc).1
    omega

/-! ### the `transactions` field -/

/-- WITNESS: `merkle_root` gives `[a,b,c]` and `[a,b,c,c]` the same root for EVERY hash function: the odd
    last leaf is paired with itself, which is exactly the pair `(c,c)` of the longer list.
    Hence `tx_root` does not bind the `transactions` field (reproduced on `Block::verify_tx_root`). -/
theorem merkle_duplicate_witness (C : Crypto) (a b c : Tx) :
    [a, b, c] ≠ [a, b, c, c] ∧ txRoot C [a, b, c] = txRoot C [a, b, c, c] := by
  refine ⟨by simp, ?_⟩
  simp [txRoot, merkleRoot, merkleLoop, merkleLevel]

/-- WITNESS: consequently a stored non-genesis block can be altered without `verify_chain` noticing,
    validator registry and all. -/
theorem tamper_transactions_witness :
    ∃ (c : ChainSt) (o : Block) (txs' : List Tx), Built drvCrypto (some [([1], 1)]) c ∧ blockAt c.store 1 = some o ∧
      txs' ≠ o.txs ∧ verifyChain drvCrypto (some [([1], 1)]) (withBlock c 1 { o with txs := txs' }) = none := by
  let g := initChain drvCrypto [] [1] 10
  let txs : List Tx := [.put 1 1, .put 2 2, .put 3 3]
  let h0 : Header := { height := 1, prevHash := g.tip, txRoot := txRoot drvCrypto txs, stateRoot := [0], embedding := [],
                       codes := [], timestamp := 11, proposer := [1], signature := [] }
  let b : Block := { header := { h0 with signature := drvCrypto.sign 1 h0.bytes }, txs := txs, sigs := [] }
  let c : ChainSt := { store := sput (sput g.store (.block 1) (.block b)) .chainMeta (.height 1), height := 1,
                       tip := b.header.hash drvCrypto }
  refine ⟨c, b, txs ++ [.put 3 3], ?_, by decide, by decide, by decide⟩
  exact Built.step g c b (Built.init _ _ _) (by rfl) (by decide) (by decide)

/-- genesis (`i = 0`), after repo commit 8e53c5a4 (`verify_chain` now calls `verify_tx_root` on the genesis
    block): PARTIAL (missing: injectivity of `txRoot` — the duplicated-tail weakness of `merkle_root` applies to
    a genesis block with an odd number ≥ 3 of transactions just as to any other block; same-length alterations
    are covered at full strength by `tamper_detected_transactions`).  Every alteration of the genesis block's
    `transactions` that changes the Merkle root is detected, for every chain with at least one more block. -/
theorem tamper_detected_genesis_transactions_partial (C : Crypto) (reg : Option (List (List Nat × Nat))) (c : ChainSt)
    (hinv : Inv C reg c) (hh : 1 ≤ c.height) (o : Block) (ho : blockAt c.store 0 = some o)
    (txs' : List Tx) (hne : txRoot C txs' ≠ txRoot C o.txs) :
    verifyChain C reg (withBlock c 0 { o with txs := txs' }) ≠ none := by
  intro hv
  have hok := verify_sound C reg _ hv (by simpa [withBlock] using hh)
  obtain ⟨g, hg, hroot⟩ := hok.1
  simp only [withBlock] at hg
  rw [blockAt_sput_same] at hg
  cases hg
  obtain ⟨g0, hg0, hroot0⟩ := hinv.ok.1
  rw [ho] at hg0; cases hg0
  simp only at hroot
  rw [hroot0] at hroot
  exact hne hroot.symm

/-- PARTIAL (missing: injectivity of `txRoot` across DIFFERENT lengths, which fails for a duplicated tail as shown
    above; for equal lengths see `tamper_detected_transactions`).  Every alteration of the `transactions` of ANY
    stored block `0..=height` that changes the Merkle root is detected — no crypto hypothesis needed, for every
    chain length. -/
theorem tamper_detected_transactions_partial (C : Crypto) (reg : Option (List (List Nat × Nat))) (c : ChainSt)
    (hinv : Inv C reg c) (hh : 1 ≤ c.height) (i : Nat) (h2 : i ≤ c.height) (o : Block) (ho : blockAt c.store i = some o)
    (txs' : List Tx) (hne : txRoot C txs' ≠ txRoot C o.txs) :
    verifyChain C reg (withBlock c i { o with txs := txs' }) ≠ none := by
  by_cases h0 : i = 0
  · subst h0
    exact tamper_detected_genesis_transactions_partial C reg c hinv hh o ho txs' hne
  have h1 : 1 ≤ i := by omega
  intro hv
  have hok := verify_sound C reg _ hv (by simp [withBlock]; omega)
  obtain ⟨p, b, _, hb, hc⟩ := hok.2 i h1 (by simpa [withBlock] using h2)
  simp only [withBlock] at hb
  rw [blockAt_sput_same] at hb
  cases hb
  obtain ⟨p0, b0, _, hb0, hc0⟩ := hinv.ok.2 i h1 h2
  rw [ho] at hb0; cases hb0
  have e1 := (checkLink_none C reg _ _ hc).2.2.1
  have e2 := (checkLink_none C reg _ _ hc0).2.2.1
  simp only at e1
  rw [e2] at e1
  exact hne e1.symm

/-- REGRESSION WITNESS for repo commit 8e53c5a4: on the same tampered chain (forged transactions in the stored
    genesis block) the old `verify_chain` (`verifyChainOld`: checks start at block 1) answers `Ok`, the current one
    answers `tx_root does not match transactions`. -/
theorem tamper_genesis_transactions_fixed_witness :
    ∃ (c : ChainSt) (o : Block), Built drvCrypto (some [([1], 1)]) c ∧ 1 ≤ c.height ∧ blockAt c.store 0 = some o ∧
      verifyChainOld drvCrypto (some [([1], 1)]) (withBlock c 0 { o with txs := [.put 9 9] }) = none ∧
      verifyChain drvCrypto (some [([1], 1)]) (withBlock c 0 { o with txs := [.put 9 9] }) = some .txRoot :=
  ⟨exChain1, genesisBlock drvCrypto [1] 10,
    Built.step (initChain drvCrypto [] [1] 10) exChain1 exBlock1 (Built.init _ _ _) (by rfl) (by decide) (by decide),
    by decide, by decide, by decide, by decide⟩

/-- FULL STRENGTH for every alteration that keeps the NUMBER of transactions (replace, reorder, any mix), every
    stored block `0..=height`, every chain length: under `HashInjOn` on the byte strings `compute_tx_root` feeds to
    SHA-256 for the two lists (`txRootInputs`: the serialised transactions and every inner pair of every level) and
    `HashLen` (all digests have one length, 32 bytes for SHA-256), `compute_tx_root` is injective on lists of equal
    length (`txRoot_inj_of_length_eq`), so the alteration is detected.  Together with `merkle_duplicate_witness`
    this locates the gap of `tamper_detected_transactions_partial` exactly: only alterations that CHANGE the length
    can go unnoticed, and the duplicated odd tail is one that does. -/
theorem tamper_detected_transactions (C : Crypto) (reg : Option (List (List Nat × Nat))) (occ : List Nat → Prop)
    (c : ChainSt) (hinv : Inv C reg c) (hinj : HashInjOn C occ) (n : Nat) (hl : HashLen C n) (hh : 1 ≤ c.height)
    (i : Nat) (h2 : i ≤ c.height) (o : Block) (ho : blockAt c.store i = some o) (txs' : List Tx)
    (hlen : txs'.length = o.txs.length)
    (o1 : ∀ z ∈ txRootInputs C o.txs, occ z) (o2 : ∀ z ∈ txRootInputs C txs', occ z) (hne : txs' ≠ o.txs) :
    verifyChain C reg (withBlock c i { o with txs := txs' }) ≠ none :=
  tamper_detected_transactions_partial C reg c hinv hh i h2 o ho txs'
    (fun h => hne (txRoot_inj_of_length_eq C occ hinj n hl txs' o.txs hlen o2 o1 h))

/-- a crypto whose digests all have length 8 and which is injective on the strings of the example below -/
def lenCrypto : Crypto := { drvCrypto with hash := fun x => x.length :: (x ++ List.replicate 7 0).take 7 }

def exTxsA : List Tx := [.put 1 1, .put 2 2]
def exTxsB : List Tx := [.put 1 5, .put 2 2]
def exOccList : List (List Nat) := txRootInputs lenCrypto exTxsA ++ txRootInputs lenCrypto exTxsB

example : HashInjOn lenCrypto (· ∈ exOccList) := by
  intro x y hx hy
  revert y
  revert x
  decide

example : HashLen lenCrypto 8 := by
  intro x
  simp [lenCrypto]

example : exTxsB.length = exTxsA.length ∧ exTxsB ≠ exTxsA ∧ (∀ z ∈ txRootInputs lenCrypto exTxsA, z ∈ exOccList) ∧
    (∀ z ∈ txRootInputs lenCrypto exTxsB, z ∈ exOccList) ∧ txRoot lenCrypto exTxsB ≠ txRoot lenCrypto exTxsA := by
  refine ⟨rfl, by decide, fun z hz => List.mem_append_left _ hz, fun z hz => List.mem_append_right _ hz, by decide⟩

/-- WITNESS: the genesis block's `signature` is neither part of its hash nor verified. -/
theorem tamper_genesis_signature_witness :
    ∃ (c : ChainSt) (o : Block), Built drvCrypto (some [([1], 1)]) c ∧ 1 ≤ c.height ∧ blockAt c.store 0 = some o ∧
      verifyChain drvCrypto (some [([1], 1)])
        (withBlock c 0 { o with header := { o.header with signature := [6, 6, 6] } }) = none :=
  ⟨exChain1, genesisBlock drvCrypto [1] 10,
    Built.step (initChain drvCrypto [] [1] 10) exChain1 exBlock1 (Built.init _ _ _) (by rfl) (by decide) (by decide),
    by decide, by decide, by decide⟩

/-- WITNESS: `Block.signatures` (the validator-signature vector) is covered by no hash and no signature,
    at any position. -/
theorem tamper_signatures_witness :
    ∃ (c : ChainSt) (o : Block), Built drvCrypto (some [([1], 1)]) c ∧ blockAt c.store 1 = some o ∧
      verifyChain drvCrypto (some [([1], 1)]) (withBlock c 1 { o with sigs := [1] }) = none :=
  ⟨exChain1, exBlock1,
    Built.step (initChain drvCrypto [] [1] 10) exChain1 exBlock1 (Built.init _ _ _) (by rfl) (by decide) (by decide),
    by decide, by decide⟩

/-- WITNESS: a chain that only has its genesis block is not checked at all (`height == 0` returns `Ok`
    before reading the store) — even removing the genesis record goes unnoticed. -/
theorem tamper_genesis_only_witness (C : Crypto) (reg : Option (List (List Nat × Nat))) (s : List (SKey × SVal)) (tip : List Nat) :
    verifyChain C reg { store := s, height := 0, tip := tip } = none := by
  simp [verifyChain]

/-- non-vacuity of `Honest` and of the tamper theorems: the concrete two-block chain satisfies every
    hypothesis (hash = identity is injective; the only triple that verifies under key 1 … is checked by
    evaluation on the stored block), and an altered state root is indeed rejected -/
example : verifyChain drvCrypto (some [([1], 1)])
    (withBlock exChain1 1 { exBlock1 with header := { exBlock1.header with stateRoot := [7] } }) = some .badSig := by decide

/-- a crypto under which exactly the one honest signature verifies (so that `SigSound` holds) -/
def exCrypto : Crypto :=
  { drvCrypto with verify := fun k m s => k == 1 && m == exBlock1.header.bytes && s == exBlock1.header.signature }

/-- non-vacuity of `Honest` (the hypothesis bundle of every per-field theorem): the concrete chain
    genesis + one signed block satisfies all of it -/
example : Honest exCrypto [([1], 1)] (fun _ => True) exChain1 where
  inv := built_inv _ _ _ (Built.step (initChain exCrypto [] [1] 10) exChain1 exBlock1 (Built.init _ _ _) (by rfl) (by decide) (by decide))
  wf := by
    intro j b hj hb
    have hh : exChain1.height = 1 := by decide
    have : j = 0 ∨ j = 1 := by omega
    rcases this with rfl | rfl
    · rw [show blockAt exChain1.store 0 = some (genesisBlock drvCrypto [1] 10) by decide] at hb
      cases hb
      exact ⟨by decide, by decide, by decide⟩
    · rw [show blockAt exChain1.store 1 = some exBlock1 by decide] at hb
      cases hb
      exact ⟨by decide, by decide, by decide⟩
  inj := fun _ _ _ _ h => h
  sound := by
    intro k m s h
    simp only [exCrypto, Bool.and_eq_true, beq_iff_eq] at h
    obtain ⟨⟨rfl, rfl⟩, rfl⟩ := h
    decide
  occAll := fun _ => trivial
  nonempty := by decide

example : HashInjOn drvCrypto (fun _ => True) := fun _ _ _ _ h => h


/-! ## 3. commits are atomic -/

/-- ATOMICITY of one `TensorChain::commit` run without interference, from ANY node state (hence at every
    point of every sequential history, see `commit_atomic_history`): either the result is `Ok`, the chain is
    exactly one block longer, that block carries the workspace's operations (plus those of merged
    workspaces) and the store is the old store with all these writes applied plus the block record and the
    height record — or the chain (store, height, tip) is untouched and the result is not `Ok`. -/
theorem commit_atomic (C : Crypto) (n : Node) (w ts : Nat) :
    let r := commit C n w ts
    (∃ (b : Block) (ws : Ws) (extra : List Tx),
        r.2.res = some (.ok (n.chain.height + 1)) ∧ r.1.chain.height = n.chain.height + 1 ∧
        findWs n.wss w = some ws ∧ b.txs = ws.ops ++ extra ∧ b.header.height = n.chain.height + 1 ∧
        r.1.chain.store = sput (sput (applyTxs n.chain.store (ws.ops ++ extra)) (.block (n.chain.height + 1)) (.block b))
                            .chainMeta (.height (n.chain.height + 1)))
    ∨ (r.1.chain = n.chain ∧ ∀ h, r.2.res ≠ some (.ok h)) := by
  intro r
  have hr : r = commitRun C 7 (commitStep C n (Local.init w ts)).1 (commitStep C n (Local.init w ts)).2 := by
    simp [r, commit, commitRun, Local.init]
  have key := prepare_cases C n w ts
  simp only at key
  generalize commitStep C n (Local.init w ts) = q at key hr
  obtain ⟨n1, l1⟩ := q
  simp only at key hr
  rcases key with ⟨hpc, hch, hres⟩ | ⟨hpc, hch, hcfg, hts, ws, extra, hws, hops⟩
  · right
    have : r = (n1, l1) := by
      rw [hr]; simp [commitRun, hpc]
    rw [this]; exact ⟨hch, hres⟩
  · rcases pipeline C n1 l1 hpc with ⟨c', happ, h1, h2, h3⟩ | ⟨h1, h2⟩
    · left
      obtain ⟨hh, _, _, _, hc'⟩ := append_ok_inv C _ _ _ _ happ
      refine ⟨fixTxRoot C (builtBlock C n1 l1.ops l1.dirs (stateRoot C (applyTxs n1.chain.store l1.ops)) l1.ts),
        ws, extra, ?_, ?_, hws, ?_, ?_, ?_⟩
      · rw [hr, h2, hc']; simp [hch]
      · rw [hr, h1, hc']; simp [hch]
      · rw [fixTxRoot_txs]; simp [builtBlock, hops]
      · rw [fixTxRoot_height]; simp [builtBlock, hch]
      · rw [hr, h1, hc']; simp [hch, hops]
    · right
      rw [hr]
      exact ⟨by rw [h1, hch], h2⟩

/-- the same over every sequential history: whatever ops ran before (begin/put/delete/commit/rollback over any
    number of workspaces), the next commit is atomic -/
theorem commit_atomic_history (C : Crypto) (n0 : Node) (ops : List Op) (w ts : Nat) :
    let n := runOps C n0 ops
    let r := commit C n w ts
    (r.1.chain.height = n.chain.height + 1 ∧ r.2.res = some (.ok (n.chain.height + 1)))
    ∨ (r.1.chain = n.chain ∧ ∀ h, r.2.res ≠ some (.ok h)) := by
  intro n r
  rcases commit_atomic C n w ts with ⟨b, ws, extra, h1, h2, _⟩ | h
  · exact Or.inl ⟨h2, h1⟩
  · exact Or.inr h

/-- non-overlapping commits, any number of them: the height grows by exactly the number of `Ok` results -/
def commitsSeq (C : Crypto) : Node → List (Nat × Nat) → Node × Nat
  | n, [] => (n, 0)
  | n, (w, ts) :: rest =>
    let r := commit C n w ts
    let q := commitsSeq C r.1 rest
    (q.1, q.2 + (match r.2.res with | some (.ok _) => 1 | _ => 0))

/-- the full statement about concurrent commits: for EVERY interleaving of the step lists of the commit calls,
    once all calls have returned the chain verifies and its height is the old height plus the number of `Ok`s -/
def ConcurrentCommitsValid (C : Crypto) : Prop :=
  ∀ (n : Node) (ws : List Nat) (ts : Nat) (sched : List Nat), Inv C n.cfg.registry n.chain →
    let r := runSched C sched n (ws.map fun w => Local.init w ts)
    (∀ l ∈ r.2, l.pc = .done) →
      verifyChain C r.1.cfg.registry r.1.chain = none ∧
      r.1.chain.height = n.chain.height + (r.2.filter fun l => match l.res with | some (.ok _) => true | _ => false).length

/-- PARTIAL (missing: overlapping commits, for which the statement is false — `concurrent_commit_witness`).
    Commits that do not overlap in time: height = old height + number of successful commits. -/
theorem concurrent_commits_nonoverlapping_partial (C : Crypto) (n : Node) (cs : List (Nat × Nat)) :
    (commitsSeq C n cs).1.chain.height = n.chain.height + (commitsSeq C n cs).2 := by
  induction cs generalizing n with
  | nil => simp [commitsSeq]
  | cons c rest ih =>
    obtain ⟨w, ts⟩ := c
    simp only [commitsSeq]
    rw [ih]
    rcases commit_atomic C n w ts with ⟨b, ws, extra, h1, h2, _⟩ | ⟨h1, h2⟩
    · rw [h2, h1]; simp; omega
    · rw [h1]
      cases hres : (commit C n w ts).2.res with
      | none => simp
      | some x =>
        cases x with
        | ok h => exact absurd hres (h2 h)
        | _ => simp

def cfg0 : Config := { maxTxs := 1000, autoMerge := true, maxMerge := 10, registry := some [([1], 1)], nodeId := [1], key := 1 }

/-- two workspaces with one write each, both still active -/
def twoWs : Node := runOps drvCrypto (initNode drvCrypto cfg0 0) [.begin, .put 0 1 1, .begin, .put 1 2 2]

def witnessSched : List Nat := [0, 1, 0, 1, 0, 1, 0, 1, 0, 1, 0, 1, 1]

def witnessRun : Node × List Local := runSched drvCrypto witnessSched twoWs ([0, 1].map fun w => Local.init w 5)

/-- WITNESS (DESIGN §8 row 12; replayed on the real `TensorChain` by the harness under the deterministic scheduler,
    unit script `0A 1A 0B 1B 0C 1C 0D 1D`): two overlapping `commit`s.  Both snapshot, both apply, both build height 1;
    thread 0's append wins; thread 1's append fails on the height check and it restores its snapshot — taken
    before thread 0 stored its block.  Result: in-memory height 1, block record 1 gone, `verify_chain` =
    `BlockNotFound(1)`, although thread 0 was told `Ok`. -/
theorem concurrent_commit_witness : ¬ ConcurrentCommitsValid drvCrypto := by
  intro h
  have hdone : ∀ l ∈ witnessRun.2, l.pc = .done := by decide +kernel
  have hbad : verifyChain drvCrypto witnessRun.1.cfg.registry witnessRun.1.chain = some (.notFound 1) := by decide +kernel
  have := (h twoWs [0, 1] 5 witnessSched (inv_init _ _ _ _ _) hdone).1
  rw [show runSched drvCrypto witnessSched twoWs ([0, 1].map fun w => Local.init w 5) = witnessRun from rfl] at this
  rw [hbad] at this
  cases this

/-- non-vacuity of the sequential theorems: the same two commits run one after the other give two blocks
    and a verifying chain -/
example : (commitsSeq drvCrypto twoWs [(0, 5), (1, 6)]).2 = 2 ∧
    verifyChain drvCrypto cfg0.registry (commitsSeq drvCrypto twoWs [(0, 5), (1, 6)]).1.chain = none := by decide +kernel

/-- two workspaces writing the SAME key, both still active -/
def sameKeyWs : Node := runOps drvCrypto (initNode drvCrypto cfg0 0) [.begin, .put 0 1 10, .begin, .put 1 1 11]

/-- thread 0 runs prepare/snapshot/apply, then thread 1 runs its whole commit, then thread 0 finishes -/
def orderSched : List Nat := [0, 0, 0, 1, 1, 1, 1, 1, 1, 0, 0, 0]

def orderRun : Node × List Local := runSched drvCrypto orderSched sameKeyWs ([0, 1].map fun w => Local.init w 5)

/-- WITNESS (second symptom of the same defect, reproduced on the real code under the deterministic scheduler, unit
    script `0A 0B 1A 1B 1C 1D 0C 0D`, as `tensor_chain.commit/concurrent_store_diverges_from_chain`): both overlapping commits return `Ok`, the chain has
    two new blocks and verifies — but the writes were applied to the store in the order 0,1 and the blocks were
    appended in the order 1,0, so the store holds `d1 = 11` while replaying the chain gives `d1 = 10`:
    the sequential-history invariant `DataInv` fails. -/
theorem concurrent_commit_order_witness :
    (∀ l ∈ orderRun.2, l.pc = .done) ∧ orderRun.2.map (·.res) = [some (.ok 2), some (.ok 1)] ∧
    orderRun.1.chain.height = 2 ∧ verifyChain drvCrypto orderRun.1.cfg.registry orderRun.1.chain = none ∧
    sget orderRun.1.chain.store (.data 1) = some (.data 11) ∧
    sget (applyTxs [] (chainTxs orderRun.1.chain.store orderRun.1.chain.height)) (.data 1) = some (.data 10) ∧
    ¬ DataInv orderRun.1.chain := by
  have h5 : sget orderRun.1.chain.store (.data 1) = some (.data 11) := by decide +kernel
  have h6 : sget (applyTxs [] (chainTxs orderRun.1.chain.store orderRun.1.chain.height)) (.data 1) = some (.data 10) := by
    decide +kernel
  refine ⟨by decide +kernel, by decide +kernel, by decide +kernel, by decide +kernel, h5, h6, ?_⟩
  intro h
  have := h 1
  rw [h5, h6] at this
  cases this

/-! ### rollback -/

/-- WITNESS: `rollback` restores the WHOLE store to the workspace's checkpoint.  In the sequential history
    begin w0; put w0; begin w1; commit w0; rollback w1 the committed block 1 and its write disappear while
    the in-memory height stays 1. -/
theorem rollback_wipes_commit_witness :
    let n := runOps drvCrypto (initNode drvCrypto cfg0 0) [.begin, .put 0 1 1, .begin, .commit 0 5, .rollback 1]
    n.chain.height = 1 ∧ blockAt n.chain.store 1 = none ∧ sget n.chain.store (.data 1) = none ∧
    verifyChain drvCrypto cfg0.registry n.chain = some (.notFound 1) := by decide

/-- PARTIAL (missing: workspaces whose checkpoint is older than the last commit, see the witness).  A rollback
    leaves chain and store untouched when nothing was committed since the workspace began. -/
theorem rollback_untouched_partial (n : Node) (w : Nat) (ws : Ws) (hws : findWs n.wss w = some ws)
    (hsnap : ws.snap = n.chain.store) : (rollbackWs n w).1.chain = n.chain := by
  unfold rollbackWs
  simp only [hws]
  split
  · rfl
  · simp [hsnap]

/-! ### failed commits, early and late -/

/-- A FAILED COMMIT LEAVES CHAIN AND STORE EXACTLY AS THEY WERE IMMEDIATELY BEFORE THE CALL, for EVERY node state
    (any chain, any store contents, any registry contents, any set of workspaces with any operation lists) and
    whichever step failed: early (workspace not active, too many operations, conflict, merged block too large —
    nothing was written yet) or late (`Chain::append` rejects the block after the operations of the workspace and
    of the merged workspaces were applied to the store: the pre-apply snapshot is restored).  `chain` is the triple
    (store image, in-memory height, in-memory tip); equality of the store image covers every data key, every block
    record and the height record, hence also "the failed workspace's writes are absent". -/
theorem failed_commit_untouched (C : Crypto) (n : Node) (w ts : Nat)
    (hfail : ∀ h, (commit C n w ts).2.res ≠ some (.ok h)) :
    (commit C n w ts).1.chain = n.chain ∧ (commit C n w ts).1.cfg = n.cfg := by
  refine ⟨?_, commit_cfg C n w ts⟩
  rcases commit_atomic C n w ts with ⟨b, ws, extra, h1, _⟩ | ⟨h, _⟩
  · exact absurd h1 (hfail _)
  · exact h

/-- the same at the end of every history of client calls, the two registry calls
    (`validator_registry().remove(node_id)`, `register_validator(identity())`) included, from every start state -/
theorem failed_commit_untouched_history (C : Crypto) (n0 : Node) (ops : List OpX) (w ts : Nat) :
    let n := runOpsX C n0 ops
    (∀ h, (commit C n w ts).2.res ≠ some (.ok h)) →
      (commit C n w ts).1.chain = n.chain ∧ (commit C n w ts).1.cfg = n.cfg := by
  intro n h
  exact failed_commit_untouched C n w ts h

/-- THE LATE FAILURE, step by step, from every state in which `commit` has passed its early checks (`pc = snapshot`):
    if `Chain::append` rejects the block built over the store with the operations applied, then after the five steps
    snapshot / apply / root / build / append the store DOES hold the writes (`applyTxs`), and the restore step puts
    back exactly the chain of before (not the image of some earlier moment such as the workspace's `begin`), reports
    the append error and marks the workspace and every merged workspace `Failed`. -/
theorem late_failure_restores (C : Crypto) (n : Node) (l : Local) (hpc : l.pc = .snapshot) (e : AppendErr)
    (hfail : append C n.cfg.registry { n.chain with store := applyTxs n.chain.store l.ops }
              (builtBlock C n l.ops l.dirs (stateRoot C (applyTxs n.chain.store l.ops)) l.ts) = .error e) :
    (commitRun C 5 n l).2.pc = .restore ∧
    (commitRun C 5 n l).1.chain.store = applyTxs n.chain.store l.ops ∧
    (commitRun C 7 n l).2.pc = .done ∧
    (commitRun C 7 n l).2.res = some (.appendFailed e) ∧
    (commitRun C 7 n l).1.chain = n.chain ∧
    (commitRun C 7 n l).1.wss = setStates n.wss (l.ws :: l.merged) .failed := by
  simp only [commitRun, commitStep, hpc, builtBlock] at hfail ⊢
  simp [hfail, finish]

/-- the late failure is reachable without a second thread: with the node's own key absent from the registry and at
    least one block after genesis, `Chain::append` rejects every block `commit` builds (whatever the store, the
    operations, the state root, the time) -/
theorem unregistered_append_rejects (C : Crypto) (n : Node) (r : List (List Nat × Nat))
    (hreg : n.cfg.registry = some r) (hno : regLookup r n.cfg.nodeId = none) (hh : 1 ≤ n.chain.height)
    (s : List (SKey × SVal)) (ops : List Tx) (dirs root : List Nat) (ts : Nat) :
    ∃ e, (e = .unsigned ∨ e = .badSig) ∧
      append C n.cfg.registry { n.chain with store := s } (builtBlock C n ops dirs root ts) = .error e := by
  rw [append_eq]
  unfold appendCheck
  rw [fixTxRoot_of_root C _ rfl]
  by_cases hs : (builtBlock C n ops dirs root ts).header.signature = []
  · refine ⟨.unsigned, Or.inl rfl, ?_⟩
    have h1 : n.chain.height + 1 > 1 := by omega
    simp [builtBlock] at hs
    simp [builtBlock, hs, h1]
  · refine ⟨.badSig, Or.inr rfl, ?_⟩
    have h1 : n.chain.height + 1 > 1 := by omega
    simp [builtBlock] at hs
    simp [builtBlock, hs, h1, hreg, regSigOk, sigOk, hno]

/-- both together, seen from the client: a `commit` that passes its early checks on a node whose key is not
    registered (height ≥ 1) fails with the append error, after its writes were applied, and leaves the chain
    (store, height, tip) exactly as it was before the call -/
theorem commit_unregistered_late_failure (C : Crypto) (n : Node) (w ts : Nat) (r : List (List Nat × Nat))
    (hreg : n.cfg.registry = some r) (hno : regLookup r n.cfg.nodeId = none) (hh : 1 ≤ n.chain.height)
    (hprep : (commitStep C n (Local.init w ts)).2.pc = .snapshot) :
    ∃ e, (e = .unsigned ∨ e = .badSig) ∧ (commit C n w ts).2.res = some (.appendFailed e) ∧
      (commit C n w ts).1.chain = n.chain := by
  have hr : commit C n w ts = commitRun C 7 (commitStep C n (Local.init w ts)).1 (commitStep C n (Local.init w ts)).2 := by
    simp [commit, commitRun, Local.init]
  have key := prepare_cases C n w ts
  simp only at key
  generalize commitStep C n (Local.init w ts) = q at key hr hprep
  obtain ⟨n1, l1⟩ := q
  simp only at key hr hprep
  rcases key with ⟨hpc, _, _⟩ | ⟨hpc, hch, hcfg, _, _⟩
  · rw [hprep] at hpc; cases hpc
  · obtain ⟨e, he, happ⟩ := unregistered_append_rejects C n1 r (by rw [hcfg]; exact hreg) (by rw [hcfg]; exact hno)
      (by rw [hch]; exact hh) (applyTxs n1.chain.store l1.ops) l1.ops l1.dirs (stateRoot C (applyTxs n1.chain.store l1.ops)) l1.ts
    obtain ⟨_, _, _, h4, h5, _⟩ := late_failure_restores C n1 l1 hpc e happ
    exact ⟨e, he, by rw [hr]; exact h4, by rw [hr, h5, hch]⟩

/-- non-vacuity: block 1; workspace 1 begins and gets two writes (one over the committed key 1); workspace 2 begins
    and commits block 2; the node's key is removed -/
def lateHistory : List OpX :=
  [.op .begin, .op (.put 0 1 1), .op (.commit 0 5), .op .begin, .op (.put 1 1 9), .op (.put 1 2 2),
   .op .begin, .op (.put 2 3 3), .op (.commit 2 6), .unregister]

def lateNode : Node := runOpsX drvCrypto (initNode drvCrypto cfg0 0) lateHistory

/-- the hypotheses of `commit_unregistered_late_failure` hold at `lateNode`; the commit of workspace 1 fails late
    (`badSig` = "unknown proposer"), chain and store are those of before (two blocks, key 1 still 1, key 2 absent),
    and once the key is registered again the chain verifies -/
example : lateNode.cfg.registry = some [] ∧ regLookup [] lateNode.cfg.nodeId = none ∧ lateNode.chain.height = 2 ∧
    (commitStep drvCrypto lateNode (Local.init 1 7)).2.pc = .snapshot ∧
    (commit drvCrypto lateNode 1 7).2.res = some (.appendFailed .badSig) ∧
    (commit drvCrypto lateNode 1 7).1.chain = lateNode.chain ∧
    sget lateNode.chain.store (.data 1) = some (.data 1) ∧ sget lateNode.chain.store (.data 2) = none ∧
    verifyChain drvCrypto (registerSelf (commit drvCrypto lateNode 1 7).1).cfg.registry
      (commit drvCrypto lateNode 1 7).1.chain = none := by decide +kernel

/-- the restore step with the workspace's BEGIN-time checkpoint as the undo image (what `commit` would do if it
    reused `workspace.checkpoint_bytes()` instead of taking `snapshot_bytes()` before applying).  NOT the code:
    kept only for the witness below, which is why the harness stream `late_fail` compares the whole store. -/
def commitStepBeginCkpt (C : Crypto) (n : Node) (l : Local) : Node × Local :=
  match l.pc with
  | .restore =>
    let snap := match findWs n.wss l.ws with
      | some ws => ws.snap
      | none => l.snap
    (finish { n with chain := { n.chain with store := snap } } (l.ws :: l.merged) .failed,
     { l with pc := .done, res := some (.appendFailed (l.err.getD .height)) })
  | _ => commitStep C n l

def commitRunBeginCkpt (C : Crypto) : Nat → Node → Local → Node × Local
  | 0, n, l => (n, l)
  | f + 1, n, l =>
    if l.pc = .done then (n, l)
    else
      let r := commitStepBeginCkpt C n l
      commitRunBeginCkpt C f r.1 r.2

/-- WITNESS (why the undo image must be taken right before the apply step): with the begin-time checkpoint as undo
    image the same failed commit at `lateNode` erases block 2 and its write (committed by workspace 2 after
    workspace 1 began) while the in-memory height stays 2, so `failed_commit_untouched` fails and the chain no
    longer verifies even with the key registered again — whereas nothing is lost when no commit lies between the
    workspace's `begin` and its failed commit (the k = 0 histories of the harness stream). -/
theorem begin_checkpoint_restore_witness :
    let r := commitRunBeginCkpt drvCrypto 8 lateNode (Local.init 1 7)
    r.2.res = some (.appendFailed .badSig) ∧ r.1.chain.height = 2 ∧ r.1.chain ≠ lateNode.chain ∧
    blockAt r.1.chain.store 2 = none ∧ sget r.1.chain.store (.data 3) = none ∧
    verifyChain drvCrypto (registerSelf r.1).cfg.registry r.1.chain = some (.notFound 2) := by decide +kernel

/-! ### the sequential-history invariant; `built_chain_verifies` for commit-built chains -/

/-- side conditions of one client call in a sequential history.  `commit`: the clock (`SystemTime::now`, the
    block timestamp) has not gone back since the tip block.  `rollback`: the workspace's checkpoint is still the
    current store, i.e. nothing was committed since its `begin` (otherwise: `rollback_wipes_commit_witness`).
    Everything else is unconditional. -/
def OpOk (n : Node) : Op → Prop
  | .commit _ ts =>
    match blockAt n.chain.store n.chain.height with
    | some t => t.header.timestamp ≤ ts
    | none => True
  | .rollback w =>
    match findWs n.wss w with
    | some ws => ws.state = .committed ∨ ws.snap = n.chain.store
    | none => True
  | _ => True

instance (n : Node) (op : Op) : Decidable (OpOk n op) := by
  cases op <;> simp only [OpOk] <;> (try split) <;> infer_instance

/-- node states reachable from `TensorChain::initialize` through ANY sequential history of client calls
    (`begin` / `put` / `delete` / delta / `commit` / `rollback` over any number of workspaces, auto-merge or not) -/
inductive SeqReach (C : Crypto) (cfg : Config) : Node → Prop where
  | init (ts : Nat) : SeqReach C cfg (initNode C cfg ts)
  | step (n : Node) (op : Op) : SeqReach C cfg n → OpOk n op → SeqReach C cfg (stepOp C n op)

theorem commit_dataInv (C : Crypto) (n : Node) (w ts : Nat) (h : DataInv n.chain) : DataInv (commit C n w ts).1.chain := by
  rcases commit_atomic C n w ts with ⟨b, ws, extra, _, hh, _, htx, _, hst⟩ | ⟨hc, _⟩
  · have := dataInv_commit n.chain b (commit C n w ts).1.chain.tip h
    rw [htx] at this
    generalize (commit C n w ts).1.chain = cc at hh hst this ⊢
    obtain ⟨st, hgt, tp⟩ := cc
    simp only at hh hst this
    subst hh hst
    exact this
  · rw [hc]; exact h

/-- THE SEQUENTIAL-HISTORY INVARIANT.  After every sequential history (any length, any number of workspaces):
    the configuration is unchanged, the chain invariant `Inv` holds (every block `1..=height` present, linked, its
    `tx_root` matching, timestamps monotone, signed by a registered key; tip = hash of the last block) and the
    store's data image is exactly the replay of the transactions of blocks `1..=height` in chain order. -/
theorem sequential_history_invariant (C : Crypto) (cfg : Config) (hsc : SignCorrect C)
    (hreg : ∀ r, cfg.registry = some r → regLookup r cfg.nodeId = some cfg.key) (n : Node) (h : SeqReach C cfg n) :
    n.cfg = cfg ∧ Inv C cfg.registry n.chain ∧ DataInv n.chain := by
  induction h with
  | init ts => exact ⟨rfl, inv_init C _ _ _ _, dataInv_init C _ _⟩
  | step n op _ hop ih =>
    obtain ⟨hcfg, hinv, hdata⟩ := ih
    cases op with
    | begin => exact ⟨hcfg, hinv, hdata⟩
    | put w k v =>
      have : (addOp n w (.put k v)).1.cfg = n.cfg ∧ (addOp n w (.put k v)).1.chain = n.chain := by
        unfold addOp; (repeat' split) <;> exact ⟨rfl, rfl⟩
      simp only [stepOp, this.1, this.2]; exact ⟨hcfg, hinv, hdata⟩
    | del w k =>
      have : (addOp n w (.del k)).1.cfg = n.cfg ∧ (addOp n w (.del k)).1.chain = n.chain := by
        unfold addOp; (repeat' split) <;> exact ⟨rfl, rfl⟩
      simp only [stepOp, this.1, this.2]; exact ⟨hcfg, hinv, hdata⟩
    | cas w k e v =>
      have : (addOp n w (.cas k e v)).1.cfg = n.cfg ∧ (addOp n w (.cas k e v)).1.chain = n.chain := by
        unfold addOp; (repeat' split) <;> exact ⟨rfl, rfl⟩
      simp only [stepOp, this.1, this.2]; exact ⟨hcfg, hinv, hdata⟩
    | dir w d => exact ⟨hcfg, hinv, hdata⟩
    | commit w ts =>
      simp only [stepOp]
      refine ⟨by rw [commit_cfg]; exact hcfg, ?_, commit_dataInv C n w ts hdata⟩
      have := commit_inv C n w ts hsc (by rw [hcfg]; exact hreg) (by rw [hcfg]; exact hinv)
        (by intro t ht; simp only [OpOk, ht] at hop; exact hop)
      rw [hcfg] at this
      exact this
    | rollback w =>
      simp only [stepOp]
      unfold rollbackWs
      cases hf : findWs n.wss w with
      | none => exact ⟨hcfg, hinv, hdata⟩
      | some ws =>
        simp only [OpOk, hf] at hop
        simp only
        split
        · exact ⟨hcfg, hinv, hdata⟩
        · rename_i hst
          have hs : ws.snap = n.chain.store := by
            rcases hop with h | h
            · exact absurd h hst
            · exact h
          have : ({ n.chain with store := ws.snap } : ChainSt) = n.chain := by rw [hs]
          simp only [this]
          exact ⟨hcfg, hinv, hdata⟩

/-- `built_chain_verifies` for the chains the system itself builds: through the workspace commit path the two
    checks `Chain::append` omits cannot fail (every block is signed by the node's registered key, also the one at
    height 1; timestamps come from a clock that does not go back), so after EVERY sequential history
    `verify_chain` returns `Ok`. -/
theorem commit_built_chain_verifies (C : Crypto) (cfg : Config) (hsc : SignCorrect C)
    (hreg : ∀ r, cfg.registry = some r → regLookup r cfg.nodeId = some cfg.key) (n : Node) (h : SeqReach C cfg n) :
    verifyChain C n.cfg.registry n.chain = none := by
  obtain ⟨hcfg, hinv, _⟩ := sequential_history_invariant C cfg hsc hreg n h
  rw [hcfg]
  exact verify_complete C _ _ hinv.ok

example : SignCorrect drvCrypto := fun k m => ⟨by simp [drvCrypto], by simp [drvCrypto]⟩

/-- every op list whose calls satisfy `OpOk` at the state they are issued in is a sequential history -/
theorem seqReach_of_runOps (C : Crypto) (cfg : Config) :
    ∀ (ops : List Op) (n : Node), SeqReach C cfg n → (∀ i (h : i < ops.length), OpOk (runOps C n (ops.take i)) ops[i]) →
      SeqReach C cfg (runOps C n ops) := by
  intro ops
  induction ops with
  | nil => intro n h _; exact h
  | cons op ops ih =>
    intro n h hok
    simp only [runOps, List.foldl_cons]
    refine ih _ (SeqReach.step n op h (by have := hok 0 (by simp); simpa [runOps, List.getElem_cons_zero] using this)) ?_
    intro i hi
    have := hok (i + 1) (by simp; omega)
    simpa [runOps, List.getElem_cons_succ, List.take_succ_cons] using this

/-- non-vacuity: a history with two workspaces, a fresh rollback and two commits is in `SeqReach`; it ends with
    two blocks -/
def exHistory : List Op := [.begin, .put 0 1 1, .begin, .rollback 1, .begin, .put 2 2 2, .commit 0 5, .commit 2 6]

example : SeqReach drvCrypto cfg0 (runOps drvCrypto (initNode drvCrypto cfg0 0) exHistory) ∧
    (runOps drvCrypto (initNode drvCrypto cfg0 0) exHistory).chain.height = 2 ∧
    regLookup [([1], 1)] cfg0.nodeId = some cfg0.key :=
  ⟨seqReach_of_runOps drvCrypto cfg0 exHistory _ (SeqReach.init 0) (by decide +kernel), by decide +kernel, by decide⟩

/-! ## 4. replay is deterministic -/

def replay (C : Crypto) (reg : Option (List (List Nat × Nat))) (r : Replica) (bs : List Block) : Replica :=
  bs.foldl (fun r b => (applyBlock C reg r b).1) r

/-- two replicas are in agreement when the key/value image the state root scans is the same and their
    chains are at the same height and tip (exactly what `apply_block` + `append` read) -/
def Agree (r1 r2 : Replica) : Prop :=
  r1.shared = r2.shared ∧ r1.stateStore = r2.stateStore ∧ r1.chain.height = r2.chain.height ∧ r1.chain.tip = r2.chain.tip

theorem applyBlock_agree (C : Crypto) (reg : Option (List (List Nat × Nat))) (r1 r2 : Replica) (b : Block)
    (h : Agree r1 r2) :
    Agree (applyBlock C reg r1 b).1 (applyBlock C reg r2 b).1 ∧ (applyBlock C reg r1 b).2 = (applyBlock C reg r2 b).2 := by
  obtain ⟨s1, c1, sh1⟩ := r1
  obtain ⟨s2, c2, sh2⟩ := r2
  obtain ⟨st1, h1, t1⟩ := c1
  obtain ⟨st2, h2, t2⟩ := c2
  obtain ⟨hsh, hst, hh, ht⟩ := h
  simp only at hsh hh ht
  subst hsh hh ht
  cases sh1
  · simp only [Replica.stateStore, Bool.false_eq_true, if_false] at hst
    subst hst
    simp only [applyBlock, Replica.stateStore, Replica.setState, Bool.false_eq_true, if_false, append_eq]
    split
    · simp [Agree, Replica.stateStore]
    · cases appendCheck C reg h1 t1 b <;> simp [Agree, Replica.stateStore]
  · simp only [Replica.stateStore, if_true] at hst
    subst hst
    simp only [applyBlock, Replica.stateStore, Replica.setState, if_true, append_eq]
    split
    · simp [Agree, Replica.stateStore]
    · cases appendCheck C reg h1 t1 b <;> simp [Agree, Replica.stateStore]

/-- DETERMINISM, with exactly the hypothesis the code needs: the state root is a function of the scanned
    key/value image, so replicas that agree on that image (and on chain height/tip) accept/reject every block of
    every block sequence identically and end with the same state root. -/
theorem replay_deterministic (C : Crypto) (reg : Option (List (List Nat × Nat))) (bs : List Block) (r1 r2 : Replica)
    (h : Agree r1 r2) :
    Agree (replay C reg r1 bs) (replay C reg r2 bs) ∧
    stateRoot C (replay C reg r1 bs).stateStore = stateRoot C (replay C reg r2 bs).stateStore := by
  induction bs generalizing r1 r2 with
  | nil => exact ⟨h, by rw [show (replay C reg r1 []).stateStore = r1.stateStore from rfl,
                            show (replay C reg r2 []).stateStore = r2.stateStore from rfl, h.2.1]⟩
  | cons b bs ih => exact ih _ _ (applyBlock_agree C reg r1 r2 b h).1

/-- non-vacuity: two replicas with separate state stores and different chain stores (one already pruned) agree -/
example : Agree (initReplica drvCrypto false [1] 5)
    { initReplica drvCrypto false [1] 5 with chain := { (initReplica drvCrypto false [1] 5).chain with store := [] } } :=
  ⟨by decide, by decide, by decide, by decide⟩

/-- WITNESS: when the state store is the chain store, the scanned image contains the replica's own chain
    records; two replicas whose records differ (here: genesis timestamps 5 and 6) compute different roots
    for the same block, so a block valid on one is rejected by the other. -/
theorem replay_shared_store_witness :
    let r1 := initReplica drvCrypto true [1] 5
    let r2 := initReplica drvCrypto true [1] 6
    let root := stateRoot drvCrypto (applyTxs r1.chain.store [.put 1 1])
    let h0 : Header := { height := 1, prevHash := r1.chain.tip, txRoot := txRoot drvCrypto [.put 1 1], stateRoot := root,
                         embedding := [], codes := [], timestamp := 7, proposer := [1], signature := [7] }
    let b : Block := { header := h0, txs := [.put 1 1], sigs := [] }
    (applyBlock drvCrypto none r1 b).2 = none ∧ (applyBlock drvCrypto none r2 b).2 = some .stateRoot := by decide


end Neumann.Chain.Props
