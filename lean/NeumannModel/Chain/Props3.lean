import NeumannModel.Chain.Props2
import NeumannModel.Chain.Lemmas5
/-
  C16 — property theorems, part 3: the chain's own records (`chain:block:<h>`, `chain:meta`) and the transactions'
  keys share one store; `add_operation` refuses keys under the reserved `chain:` prefix (repo commit b368f92a).
  What the check makes true — for EVERY key a client may name, every node state, every sequential history — and
  what was false before it (`…_old_witness`).  Same conventions as `Props.lean`.
-/
namespace Neumann.Chain.Props
open Neumann.Chain

/-! ## 9. the reserved `chain:` prefix -/

/-- `add_operation` REFUSES EVERY RESERVED KEY, from every node state, for every workspace and every transaction
    kind: the node (workspaces, operation lists, chain, store) is exactly as before, the result is never `Ok`, and
    on an active workspace it is the reserved-prefix error. -/
theorem add_operation_refuses_reserved_keys (n : Node) (w : Nat) (t : RawTx) (hr : t.key.reserved = true) :
    (addOperation n w t).1 = n ∧ (addOperation n w t).2 ≠ .ok ∧
    (∀ ws, findWs n.wss w = some ws → ws.state = .active → (addOperation n w t).2 = .reserved) := by
  have hn := narrow_none_of_reserved t hr
  unfold addOperation
  cases hf : findWs n.wss w with
  | none => exact ⟨rfl, by simp, by intro ws h; cases h⟩
  | some ws =>
    by_cases hs : ws.state = .active
    · simp [hs, hn]
    · refine ⟨by simp [hs], by simp [hs], ?_⟩
      intro ws' h h'
      cases h
      exact absurd h' hs

/-- non-vacuity: an active workspace on a chain of height 1; the block record, the genesis record and the height
    record are refused for put, delete and compare-and-swap; a data key is accepted -/
example : let n := runOps drvCrypto (initNode drvCrypto cfg0 0) [.begin, .put 0 1 1, .commit 0 5, .begin]
    (findWs n.wss 1).map (·.state) = some .active ∧
    addOperation n 1 (.put (.block 1) 1) = (n, .reserved) ∧ addOperation n 1 (.del (.block 0)) = (n, .reserved) ∧
    addOperation n 1 (.cas .chainMeta none 7) = (n, .reserved) ∧ (addOperation n 1 (.put (.data 4) 4)).2 = .ok ∧
    (addOperation n 0 (.put (.data 4) 4)).2 = .notActive := by decide +kernel

/-- ON EVERY OTHER KEY `add_operation` IS THE TYPED CALL of the model (`addOp`): same node afterwards, `Ok` exactly
    when `addOp` accepts — so the typed transactions `Tx` (data keys by construction) are exactly what workspaces
    hold and blocks carry. -/
theorem add_operation_unreserved_is_addOp (n : Node) (w : Nat) (t : RawTx) (hr : t.key.reserved = false) :
    ∃ t' : Tx, t'.raw = t ∧ (addOperation n w t).1 = (addOp n w t').1 ∧
      ((addOperation n w t).2 = .ok ↔ (addOp n w t').2 = true) := by
  obtain ⟨t', hn, hraw⟩ := narrow_some_of_unreserved t hr
  refine ⟨t', hraw, ?_⟩
  unfold addOperation addOp
  cases hf : findWs n.wss w with
  | none => exact ⟨rfl, by simp⟩
  | some ws =>
    by_cases hs : ws.state = .active
    · simp [hs, hn]
    · simp [hs]

/-- THE APPLY STEP, for the generic `apply_transaction_to_store` (which the fix did not touch): a list of
    transactions none of which names a reserved key leaves EVERY chain record — every block record, the height
    record — exactly as it was, whatever the store holds; and on typed transactions the generic apply is the typed
    apply of the model. -/
theorem apply_unreserved_keeps_chain_records (s : List (SKey × SVal)) (ops : List RawTx)
    (hall : ∀ t ∈ ops, t.key.reserved = false) (k : SKey) (hk : k.reserved = true) :
    sget (applyRawTxs s ops) k = sget s k :=
  sget_applyRawTxs_unreserved ops s hall k hk

theorem apply_typed_is_generic_apply (s : List (SKey × SVal)) (txs : List Tx) :
    applyRawTxs s (txs.map Tx.raw) = applyTxs s txs ∧ ∀ t ∈ txs.map Tx.raw, t.key.reserved = false := by
  refine ⟨applyRawTxs_raw txs s, ?_⟩
  intro t ht
  obtain ⟨t', _, rfl⟩ := List.mem_map.mp ht
  exact raw_key_unreserved t'

/-- non-vacuity, and what a reserved key does to the same store: three data-key operations leave block 1 and the
    height record alone; one put on `chain:block:1` replaces the block record -/
example : let s := (runOps drvCrypto (initNode drvCrypto cfg0 0) [.begin, .put 0 1 1, .commit 0 5]).chain.store
    (blockAt s 1).isSome = true ∧
    sget (applyRawTxs s [.put (.data 1) 9, .del (.data 1), .cas (.data 2) none 3]) (.block 1) = sget s (.block 1) ∧
    sget (applyRawTxs s [.put (.data 1) 9, .del (.data 1), .cas (.data 2) none 3]) .chainMeta = sget s .chainMeta ∧
    blockAt (applyRawTxs s [.put (.block 1) 1]) 1 = none := by decide +kernel

/-- side condition of one client call (`OpOk` for the typed calls; `add_operation` with any key and a restart are
    unconditional) -/
def OpCOk (n : Node) : OpC → Prop
  | .call o => OpOk n o
  | _ => True

instance (n : Node) (op : OpC) : Decidable (OpCOk n op) := by
  cases op <;> simp only [OpCOk] <;> infer_instance

/-- node states reachable from `TensorChain::initialize` through ANY sequential history of client calls in which
    `add_operation` may name ANY key — data keys, `chain:block:<h>` for any `h`, `chain:meta` — with put, delete
    or compare-and-swap, on any workspace, at any point; restarts included -/
inductive SeqReachC (C : Crypto) (cfg : Config) : Node → Prop where
  | init (ts : Nat) : SeqReachC C cfg (initNode C cfg ts)
  | step (n : Node) (op : OpC) : SeqReachC C cfg n → OpCOk n op → SeqReachC C cfg (stepOpC C n op)

/-- such a history reaches nothing the histories over data keys do not reach: a refused call changes nothing -/
theorem seqReachC_is_seqReachR (C : Crypto) (cfg : Config) (n : Node) (h : SeqReachC C cfg n) : SeqReachR C cfg n := by
  induction h with
  | init ts => exact SeqReachR.init ts
  | step n op _ hop ih =>
    cases op with
    | call o => exact SeqReachR.step n o ih hop
    | reopen ts => exact SeqReachR.reopen n ts ih
    | add w t =>
      simp only [stepOpC]
      rcases addOperation_cases C n w t with h | ⟨t', _, h⟩
      · rw [h]; exact ih
      · rw [h]
        exact SeqReachR.step n _ ih (by cases t' <;> simp [Tx.asOp, OpOk])

/-- THE SEQUENTIAL-HISTORY INVARIANT FOR EVERY KEY A CLIENT MAY NAME (what repo commit b368f92a makes true; before
    it: `workspace_write_to_chain_namespace_old_witness`).  After every sequential history of begin / add_operation
    with ANY key / delta / commit / rollback / restart: the chain invariant holds, the store's data image is the
    replay of the chain, the height record names the height with no block record above it — and `verify()` returns
    `Ok`.  A chain built only through the public interface verifies, whatever keys the transactions tried to write. -/
theorem sequential_history_invariant_any_key (C : Crypto) (cfg : Config) (hsc : SignCorrect C)
    (hown : cfg.registry = some [(cfg.nodeId, cfg.key)]) (n : Node) (h : SeqReachC C cfg n) :
    NodeInv C cfg n ∧ verifyChain C n.cfg.registry n.chain = none :=
  sequential_history_invariant_restart C cfg hsc hown n (seqReachC_is_seqReachR C cfg n h)

/-- NO CLIENT CALL CHANGES A CHAIN RECORD EXCEPT THROUGH `Chain::append`.  At every state of every such history,
    for every next call: either every chain record (every block record at every height, the height record) reads
    exactly as before the call, or the call is a `commit` that returned `Ok(height + 1)` and the only chain records
    that differ are the ones `Chain::append` writes — the new block record at `height + 1` and the height record.
    In particular every block record at or below the height stays what it was, for ever. -/
theorem chain_records_change_only_through_append (C : Crypto) (cfg : Config) (hsc : SignCorrect C)
    (hown : cfg.registry = some [(cfg.nodeId, cfg.key)]) (n : Node) (h : SeqReachC C cfg n)
    (op : OpC) (hop : OpCOk n op) :
    let n' := stepOpC C n op
    ((∀ k : SKey, k.reserved = true → sget n'.chain.store k = sget n.chain.store k) ∨
     (∃ w ts, op = .call (.commit w ts) ∧ (commit C n w ts).2.res = some (.ok (n.chain.height + 1)) ∧
        ∀ k : SKey, k.reserved = true → k ≠ .block (n.chain.height + 1) → k ≠ .chainMeta →
          sget n'.chain.store k = sget n.chain.store k)) ∧
    ∀ j, j ≤ n.chain.height → blockAt n'.chain.store j = blockAt n.chain.store j := by
  intro n'
  have same : n'.chain = n.chain →
      ((∀ k : SKey, k.reserved = true → sget n'.chain.store k = sget n.chain.store k) ∨
       (∃ w ts, op = .call (.commit w ts) ∧ (commit C n w ts).2.res = some (.ok (n.chain.height + 1)) ∧
          ∀ k : SKey, k.reserved = true → k ≠ .block (n.chain.height + 1) → k ≠ .chainMeta →
            sget n'.chain.store k = sget n.chain.store k)) ∧
      ∀ j, j ≤ n.chain.height → blockAt n'.chain.store j = blockAt n.chain.store j := by
    intro hc
    rw [hc]
    exact ⟨Or.inl fun _ _ => rfl, fun _ _ => rfl⟩
  cases op with
  | add w t => exact same (addOperation_chain n w t).2
  | reopen ts =>
    obtain ⟨hN, _⟩ := sequential_history_invariant_any_key C cfg hsc hown n h
    obtain ⟨_, _, hs⟩ := openChain_healthy C cfg.registry n.chain n.cfg.nodeId ts hN.hinv hN.hmeta
    exact ⟨Or.inl fun k _ => hs k, fun j _ => storeEq_blockAt hs j⟩
  | call o =>
    cases o with
    | begin => exact same rfl
    | put w k v => exact same (addOp_chain n w _).2
    | del w k => exact same (addOp_chain n w _).2
    | cas w k e v => exact same (addOp_chain n w _).2
    | dir w d => exact same rfl
    | rollback w =>
      apply same
      show (rollbackWs n w).1.chain = n.chain
      unfold rollbackWs
      cases hf : findWs n.wss w with
      | none => rfl
      | some ws =>
        simp only [OpCOk, OpOk, hf] at hop
        simp only
        split
        · rfl
        · rename_i hst
          rcases hop with h1 | h1
          · exact absurd h1 hst
          · simp [h1]
    | commit w ts =>
      rcases commit_atomic C n w ts with ⟨b, ws, extra, hres, _, _, _, _, hst⟩ | ⟨hc, _⟩
      · have key : ∀ k : SKey, k.reserved = true → k ≠ .block (n.chain.height + 1) → k ≠ .chainMeta →
            sget n'.chain.store k = sget n.chain.store k := by
          intro k hk h1 h2
          show sget (commit C n w ts).1.chain.store k = _
          rw [hst, sget_sput_ne _ _ _ _ (Ne.symm h2), sget_sput_ne _ _ _ _ (Ne.symm h1)]
          exact sget_applyTxs_reserved _ _ k hk
        refine ⟨Or.inr ⟨w, ts, rfl, hres, key⟩, ?_⟩
        intro j hj
        show blockAt (commit C n w ts).1.chain.store j = _
        rw [hst, blockAt_sput_ne _ _ _ _ (by simp), blockAt_sput_ne _ _ _ _ (by simp; omega), blockAt_applyTxs]
      · exact same hc

/-- every op list whose calls satisfy their side condition where they are issued is such a history -/
theorem seqReachC_of_runOpsC (C : Crypto) (cfg : Config) :
    ∀ (ops : List OpC) (n : Node), SeqReachC C cfg n →
      (∀ i (h : i < ops.length), OpCOk (runOpsC C n (ops.take i)) ops[i]) →
      SeqReachC C cfg (runOpsC C n ops) := by
  intro ops
  induction ops with
  | nil => intro n h _; exact h
  | cons op ops ih =>
    intro n h hok
    simp only [runOpsC, List.foldl_cons]
    refine ih _ (SeqReachC.step n op h (by have := hok 0 (by simp); simpa [runOpsC, List.getElem_cons_zero] using this)) ?_
    intro i hi
    have := hok (i + 1) (by simp; omega)
    simpa [runOpsC, List.getElem_cons_succ, List.take_succ_cons] using this

/-- non-vacuity: block 1; a workspace that is handed `Put{chain:block:1}`, `Delete{chain:meta}`,
    `CompareAndSwap{chain:block:0}` (all refused) and one data-key put, committed as block 2; a restart; the same
    attempts on a finished workspace.  The history is in `SeqReachC`, ends at height 2 with block record 1 intact. -/
def exReservedHistory : List OpC :=
  [.call .begin, .call (.put 0 1 1), .call (.commit 0 5), .call .begin, .add 1 (.put (.block 1) 1), .add 1 (.del .chainMeta),
   .add 1 (.cas (.block 0) none 3), .add 1 (.put (.data 4) 4), .call (.commit 1 6), .reopen 7, .add 1 (.del (.block 2))]

example : SeqReachC drvCrypto cfgOwn (runOpsC drvCrypto (initNode drvCrypto cfgOwn 0) exReservedHistory) ∧
    (runOpsC drvCrypto (initNode drvCrypto cfgOwn 0) exReservedHistory).chain.height = 2 ∧
    (blockAt (runOpsC drvCrypto (initNode drvCrypto cfgOwn 0) exReservedHistory).chain.store 1).map (·.txs) = some [.put 1 1] ∧
    (blockAt (runOpsC drvCrypto (initNode drvCrypto cfgOwn 0) exReservedHistory).chain.store 2).map (·.txs) = some [.put 4 4] :=
  ⟨seqReachC_of_runOpsC drvCrypto cfgOwn exReservedHistory _ (SeqReachC.init 0) (by decide +kernel), by decide +kernel,
   by decide +kernel, by decide +kernel⟩

/-- WITNESS (the code before repo commit b368f92a, `commitOld`): on a verifying chain of height 1, a workspace
    holding `Put{key: "chain:block:1"}` committed successfully as block 2; the apply step had replaced the record of
    block 1 by the transaction's data, and `verify()` then failed at block 1 although only begin / put / commit
    were used.  `Delete` on the same key: the record is gone, same verdict.  With the check, both operations are
    refused and the node is untouched. -/
theorem workspace_write_to_chain_namespace_old_witness :
    let n := runOps drvCrypto (initNode drvCrypto cfg0 0) [.begin, .put 0 1 1, .commit 0 5, .begin]
    let p := commitOld drvCrypto n [.put (.block 1) 1] 6
    let d := commitOld drvCrypto n [.del (.block 1)] 6
    n.chain.height = 1 ∧ verifyChain drvCrypto cfg0.registry n.chain = none ∧
    p.2 = .ok 2 ∧ sget p.1.chain.store (.block 1) = some (.data 1) ∧ (blockAt p.1.chain.store 2).isSome = true ∧
    verifyChain drvCrypto cfg0.registry p.1.chain = some (.notFound 1) ∧
    d.2 = .ok 2 ∧ sget d.1.chain.store (.block 1) = none ∧
    verifyChain drvCrypto cfg0.registry d.1.chain = some (.notFound 1) ∧
    addOperation n 1 (.put (.block 1) 1) = (n, .reserved) ∧ addOperation n 1 (.del (.block 1)) = (n, .reserved) := by
  decide +kernel

/-- `commitOld` is the commit pipeline: on a data key it does what `commit` does (same result, same data image,
    same verdict) -/
example : let n := runOps drvCrypto (initNode drvCrypto cfg0 0) [.begin, .put 0 1 1, .commit 0 5, .begin, .put 1 2 2]
    (commitOld drvCrypto n [.put (.data 2) 2] 6).2 = .ok 2 ∧ (commit drvCrypto n 1 6).2.res = some (.ok 2) ∧
    (∀ k ∈ [0, 1, 2, 3], sget (commitOld drvCrypto n [.put (.data 2) 2] 6).1.chain.store (.data k)
        = sget (commit drvCrypto n 1 6).1.chain.store (.data k)) ∧
    verifyChain drvCrypto cfg0.registry (commitOld drvCrypto n [.put (.data 2) 2] 6).1.chain = none ∧
    verifyChain drvCrypto cfg0.registry (commit drvCrypto n 1 6).1.chain = none := by decide +kernel

end Neumann.Chain.Props
