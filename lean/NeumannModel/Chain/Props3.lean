import NeumannModel.Chain.Props2
import NeumannModel.Chain.Lemmas5
import NeumannModel.Chain.Lemmas6
/-
  C16 — property theorems, part 3: the chain's own records (`chain:block:<h>`, `chain:meta`) and the transactions'
  keys share one store; `add_operation` refuses keys under the reserved `chain:` prefix (repo commit b368f92a).
  What the check makes true — for EVERY key a client may name, every node state, every sequential history — and
  what was false before it (`…_old_witness`).  Section 10: restart over the crash states of `Chain::append` (block
  record written, height record not yet).  Same conventions as `Props.lean`.
-/
namespace Neumann.Chain.Props
open Neumann.Chain

/-! ## 9. the reserved `chain:` prefix -/

/-- `add_operation` REFUSES EVERY RESERVED KEY, from every node state, for every workspace and every transaction
    kind: the node (workspaces, operation lists, chain, store) is exactly as before, the result is never `Ok`, and
    on an active workspace it is the reserved-prefix error. -/
theorem add_operation_refuses_reserved_keys (n : Node) (w : Nat) (t : RawTx) (hr : t.key.reserved = true) :
    (addOperation n w t).1 = n ∧ (addOperation n w t).2 ≠ .ok ∧
    (∀ ws, findWs n.wss w = some ws → ws.state = .active → (addOperation n w t).2 = .reserved) := by
  have hn := narrow_none_of_reserved t hr
  unfold addOperation
  cases hf : findWs n.wss w with
  | none => exact ⟨rfl, by simp, by intro ws h; cases h⟩
  | some ws =>
    by_cases hs : ws.state = .active
    · simp [hs, hn]
    · refine ⟨by simp [hs], by simp [hs], ?_⟩
      intro ws' h h'
      cases h
      exact absurd h' hs

/-- non-vacuity: an active workspace on a chain of height 1; the block record, the genesis record and the height
    record are refused for put, delete and compare-and-swap; a data key is accepted -/
example : let n := runOps drvCrypto (initNode drvCrypto cfg0 0) [.begin, .put 0 1 1, .commit 0 5, .begin]
    (findWs n.wss 1).map (·.state) = some .active ∧
    addOperation n 1 (.put (.block 1) 1) = (n, .reserved) ∧ addOperation n 1 (.del (.block 0)) = (n, .reserved) ∧
    addOperation n 1 (.cas .chainMeta none 7) = (n, .reserved) ∧ (addOperation n 1 (.put (.data 4) 4)).2 = .ok ∧
    (addOperation n 0 (.put (.data 4) 4)).2 = .notActive := by decide +kernel

/-- ON EVERY OTHER KEY `add_operation` IS THE TYPED CALL of the model (`addOp`): same node afterwards, `Ok` exactly
    when `addOp` accepts — so the typed transactions `Tx` (data keys by construction) are exactly what workspaces
    hold and blocks carry. -/
theorem add_operation_unreserved_is_addOp (n : Node) (w : Nat) (t : RawTx) (hr : t.key.reserved = false) :
    ∃ t' : Tx, t'.raw = t ∧ (addOperation n w t).1 = (addOp n w t').1 ∧
      ((addOperation n w t).2 = .ok ↔ (addOp n w t').2 = true) := by
  obtain ⟨t', hn, hraw⟩ := narrow_some_of_unreserved t hr
  refine ⟨t', hraw, ?_⟩
  unfold addOperation addOp
  cases hf : findWs n.wss w with
  | none => exact ⟨rfl, by simp⟩
  | some ws =>
    by_cases hs : ws.state = .active
    · simp [hs, hn]
    · simp [hs]

/-- THE APPLY STEP, for the generic `apply_transaction_to_store` (which the fix did not touch): a list of
    transactions none of which names a reserved key leaves EVERY chain record — every block record, the height
    record — exactly as it was, whatever the store holds; and on typed transactions the generic apply is the typed
    apply of the model. -/
theorem apply_unreserved_keeps_chain_records (s : List (SKey × SVal)) (ops : List RawTx)
    (hall : ∀ t ∈ ops, t.key.reserved = false) (k : SKey) (hk : k.reserved = true) :
    sget (applyRawTxs s ops) k = sget s k :=
  sget_applyRawTxs_unreserved ops s hall k hk

theorem apply_typed_is_generic_apply (s : List (SKey × SVal)) (txs : List Tx) :
    applyRawTxs s (txs.map Tx.raw) = applyTxs s txs ∧ ∀ t ∈ txs.map Tx.raw, t.key.reserved = false := by
  refine ⟨applyRawTxs_raw txs s, ?_⟩
  intro t ht
  obtain ⟨t', _, rfl⟩ := List.mem_map.mp ht
  exact raw_key_unreserved t'

/-- non-vacuity, and what a reserved key does to the same store: three data-key operations leave block 1 and the
    height record alone; one put on `chain:block:1` replaces the block record -/
example : let s := (runOps drvCrypto (initNode drvCrypto cfg0 0) [.begin, .put 0 1 1, .commit 0 5]).chain.store
    (blockAt s 1).isSome = true ∧
    sget (applyRawTxs s [.put (.data 1) 9, .del (.data 1), .cas (.data 2) none 3]) (.block 1) = sget s (.block 1) ∧
    sget (applyRawTxs s [.put (.data 1) 9, .del (.data 1), .cas (.data 2) none 3]) .chainMeta = sget s .chainMeta ∧
    blockAt (applyRawTxs s [.put (.block 1) 1]) 1 = none := by decide +kernel

/-- side condition of one client call (`OpOk` for the typed calls; `add_operation` with any key and a restart are
    unconditional) -/
def OpCOk (n : Node) : OpC → Prop
  | .call o => OpOk n o
  | _ => True

instance (n : Node) (op : OpC) : Decidable (OpCOk n op) := by
  cases op <;> simp only [OpCOk] <;> infer_instance

/-- node states reachable from `TensorChain::initialize` through ANY sequential history of client calls in which
    `add_operation` may name ANY key — data keys, `chain:block:<h>` for any `h`, `chain:meta` — with put, delete
    or compare-and-swap, on any workspace, at any point; restarts included -/
inductive SeqReachC (C : Crypto) (cfg : Config) : Node → Prop where
  | init (ts : Nat) : SeqReachC C cfg (initNode C cfg ts)
  | step (n : Node) (op : OpC) : SeqReachC C cfg n → OpCOk n op → SeqReachC C cfg (stepOpC C n op)

/-- such a history reaches nothing the histories over data keys do not reach: a refused call changes nothing -/
theorem seqReachC_is_seqReachR (C : Crypto) (cfg : Config) (n : Node) (h : SeqReachC C cfg n) : SeqReachR C cfg n := by
  induction h with
  | init ts => exact SeqReachR.init ts
  | step n op _ hop ih =>
    cases op with
    | call o => exact SeqReachR.step n o ih hop
    | reopen ts => exact SeqReachR.reopen n ts ih
    | add w t =>
      simp only [stepOpC]
      rcases addOperation_cases C n w t with h | ⟨t', _, h⟩
      · rw [h]; exact ih
      · rw [h]
        exact SeqReachR.step n _ ih (by cases t' <;> simp [Tx.asOp, OpOk])

/-- THE SEQUENTIAL-HISTORY INVARIANT FOR EVERY KEY A CLIENT MAY NAME (what repo commit b368f92a makes true; before
    it: `workspace_write_to_chain_namespace_old_witness`).  After every sequential history of begin / add_operation
    with ANY key / delta / commit / rollback / restart: the chain invariant holds, the store's data image is the
    replay of the chain, the height record names the height with no block record above it — and `verify()` returns
    `Ok`.  A chain built only through the public interface verifies, whatever keys the transactions tried to write. -/
theorem sequential_history_invariant_any_key (C : Crypto) (cfg : Config) (hsc : SignCorrect C)
    (hown : cfg.registry = some [(cfg.nodeId, cfg.key)]) (n : Node) (h : SeqReachC C cfg n) :
    NodeInv C cfg n ∧ verifyChain C n.cfg.registry n.chain = none :=
  sequential_history_invariant_restart C cfg hsc hown n (seqReachC_is_seqReachR C cfg n h)

/-- NO CLIENT CALL CHANGES A CHAIN RECORD EXCEPT THROUGH `Chain::append`.  At every state of every such history,
    for every next call: either every chain record (every block record at every height, the height record) reads
    exactly as before the call, or the call is a `commit` that returned `Ok(height + 1)` and the only chain records
    that differ are the ones `Chain::append` writes — the new block record at `height + 1` and the height record.
    In particular every block record at or below the height stays what it was, for ever. -/
theorem chain_records_change_only_through_append (C : Crypto) (cfg : Config) (hsc : SignCorrect C)
    (hown : cfg.registry = some [(cfg.nodeId, cfg.key)]) (n : Node) (h : SeqReachC C cfg n)
    (op : OpC) (hop : OpCOk n op) :
    let n' := stepOpC C n op
    ((∀ k : SKey, k.reserved = true → sget n'.chain.store k = sget n.chain.store k) ∨
     (∃ w ts, op = .call (.commit w ts) ∧ (commit C n w ts).2.res = some (.ok (n.chain.height + 1)) ∧
        ∀ k : SKey, k.reserved = true → k ≠ .block (n.chain.height + 1) → k ≠ .chainMeta →
          sget n'.chain.store k = sget n.chain.store k)) ∧
    ∀ j, j ≤ n.chain.height → blockAt n'.chain.store j = blockAt n.chain.store j := by
  intro n'
  have same : n'.chain = n.chain →
      ((∀ k : SKey, k.reserved = true → sget n'.chain.store k = sget n.chain.store k) ∨
       (∃ w ts, op = .call (.commit w ts) ∧ (commit C n w ts).2.res = some (.ok (n.chain.height + 1)) ∧
          ∀ k : SKey, k.reserved = true → k ≠ .block (n.chain.height + 1) → k ≠ .chainMeta →
            sget n'.chain.store k = sget n.chain.store k)) ∧
      ∀ j, j ≤ n.chain.height → blockAt n'.chain.store j = blockAt n.chain.store j := by
    intro hc
    rw [hc]
    exact ⟨Or.inl fun _ _ => rfl, fun _ _ => rfl⟩
  cases op with
  | add w t => exact same (addOperation_chain n w t).2
  | reopen ts =>
    obtain ⟨hN, _⟩ := sequential_history_invariant_any_key C cfg hsc hown n h
    obtain ⟨_, _, hs⟩ := openChain_healthy C cfg.registry n.chain n.cfg.nodeId ts hN.hinv hN.hmeta
    exact ⟨Or.inl fun k _ => hs k, fun j _ => storeEq_blockAt hs j⟩
  | call o =>
    cases o with
    | begin => exact same rfl
    | put w k v => exact same (addOp_chain n w _).2
    | del w k => exact same (addOp_chain n w _).2
    | cas w k e v => exact same (addOp_chain n w _).2
    | dir w d => exact same rfl
    | rollback w =>
      apply same
      show (rollbackWs n w).1.chain = n.chain
      unfold rollbackWs
      cases hf : findWs n.wss w with
      | none => rfl
      | some ws =>
        simp only [OpCOk, OpOk, hf] at hop
        simp only
        split
        · rfl
        · rename_i hst
          rcases hop with h1 | h1
          · exact absurd h1 hst
          · simp [h1]
    | commit w ts =>
      rcases commit_atomic C n w ts with ⟨b, ws, extra, hres, _, _, _, _, hst⟩ | ⟨hc, _⟩
      · have key : ∀ k : SKey, k.reserved = true → k ≠ .block (n.chain.height + 1) → k ≠ .chainMeta →
            sget n'.chain.store k = sget n.chain.store k := by
          intro k hk h1 h2
          show sget (commit C n w ts).1.chain.store k = _
          rw [hst, sget_sput_ne _ _ _ _ (Ne.symm h2), sget_sput_ne _ _ _ _ (Ne.symm h1)]
          exact sget_applyTxs_reserved _ _ k hk
        refine ⟨Or.inr ⟨w, ts, rfl, hres, key⟩, ?_⟩
        intro j hj
        show blockAt (commit C n w ts).1.chain.store j = _
        rw [hst, blockAt_sput_ne _ _ _ _ (by simp), blockAt_sput_ne _ _ _ _ (by simp; omega), blockAt_applyTxs]
      · exact same hc

/-- every op list whose calls satisfy their side condition where they are issued is such a history -/
theorem seqReachC_of_runOpsC (C : Crypto) (cfg : Config) :
    ∀ (ops : List OpC) (n : Node), SeqReachC C cfg n →
      (∀ i (h : i < ops.length), OpCOk (runOpsC C n (ops.take i)) ops[i]) →
      SeqReachC C cfg (runOpsC C n ops) := by
  intro ops
  induction ops with
  | nil => intro n h _; exact h
  | cons op ops ih =>
    intro n h hok
    simp only [runOpsC, List.foldl_cons]
    refine ih _ (SeqReachC.step n op h (by have := hok 0 (by simp); simpa [runOpsC, List.getElem_cons_zero] using this)) ?_
    intro i hi
    have := hok (i + 1) (by simp; omega)
    simpa [runOpsC, List.getElem_cons_succ, List.take_succ_cons] using this

/-- non-vacuity: block 1; a workspace that is handed `Put{chain:block:1}`, `Delete{chain:meta}`,
    `CompareAndSwap{chain:block:0}` (all refused) and one data-key put, committed as block 2; a restart; the same
    attempts on a finished workspace.  The history is in `SeqReachC`, ends at height 2 with block record 1 intact. -/
def exReservedHistory : List OpC :=
  [.call .begin, .call (.put 0 1 1), .call (.commit 0 5), .call .begin, .add 1 (.put (.block 1) 1), .add 1 (.del .chainMeta),
   .add 1 (.cas (.block 0) none 3), .add 1 (.put (.data 4) 4), .call (.commit 1 6), .reopen 7, .add 1 (.del (.block 2))]

example : SeqReachC drvCrypto cfgOwn (runOpsC drvCrypto (initNode drvCrypto cfgOwn 0) exReservedHistory) ∧
    (runOpsC drvCrypto (initNode drvCrypto cfgOwn 0) exReservedHistory).chain.height = 2 ∧
    (blockAt (runOpsC drvCrypto (initNode drvCrypto cfgOwn 0) exReservedHistory).chain.store 1).map (·.txs) = some [.put 1 1] ∧
    (blockAt (runOpsC drvCrypto (initNode drvCrypto cfgOwn 0) exReservedHistory).chain.store 2).map (·.txs) = some [.put 4 4] :=
  ⟨seqReachC_of_runOpsC drvCrypto cfgOwn exReservedHistory _ (SeqReachC.init 0) (by decide +kernel), by decide +kernel,
   by decide +kernel, by decide +kernel⟩

/-- WITNESS (the code before repo commit b368f92a, `commitOld`): on a verifying chain of height 1, a workspace
    holding `Put{key: "chain:block:1"}` committed successfully as block 2; the apply step had replaced the record of
    block 1 by the transaction's data, and `verify()` then failed at block 1 although only begin / put / commit
    were used.  `Delete` on the same key: the record is gone, same verdict.  With the check, both operations are
    refused and the node is untouched. -/
theorem workspace_write_to_chain_namespace_old_witness :
    let n := runOps drvCrypto (initNode drvCrypto cfg0 0) [.begin, .put 0 1 1, .commit 0 5, .begin]
    let p := commitOld drvCrypto n [.put (.block 1) 1] 6
    let d := commitOld drvCrypto n [.del (.block 1)] 6
    n.chain.height = 1 ∧ verifyChain drvCrypto cfg0.registry n.chain = none ∧
    p.2 = .ok 2 ∧ sget p.1.chain.store (.block 1) = some (.data 1) ∧ (blockAt p.1.chain.store 2).isSome = true ∧
    verifyChain drvCrypto cfg0.registry p.1.chain = some (.notFound 1) ∧
    d.2 = .ok 2 ∧ sget d.1.chain.store (.block 1) = none ∧
    verifyChain drvCrypto cfg0.registry d.1.chain = some (.notFound 1) ∧
    addOperation n 1 (.put (.block 1) 1) = (n, .reserved) ∧ addOperation n 1 (.del (.block 1)) = (n, .reserved) := by
  decide +kernel

/-- `commitOld` is the commit pipeline: on a data key it does what `commit` does (same result, same data image,
    same verdict) -/
example : let n := runOps drvCrypto (initNode drvCrypto cfg0 0) [.begin, .put 0 1 1, .commit 0 5, .begin, .put 1 2 2]
    (commitOld drvCrypto n [.put (.data 2) 2] 6).2 = .ok 2 ∧ (commit drvCrypto n 1 6).2.res = some (.ok 2) ∧
    (∀ k ∈ [0, 1, 2, 3], sget (commitOld drvCrypto n [.put (.data 2) 2] 6).1.chain.store (.data k)
        = sget (commit drvCrypto n 1 6).1.chain.store (.data k)) ∧
    verifyChain drvCrypto cfg0.registry (commitOld drvCrypto n [.put (.data 2) 2] 6).1.chain = none ∧
    verifyChain drvCrypto cfg0.registry (commit drvCrypto n 1 6).1.chain = none := by decide +kernel

/-! ## 10. restart over a crash state of `Chain::append` (block record written, height record not yet) -/

/-- the write list IS what `append` does to the store: the store of an accepted append is the old store with both
    writes applied, in that order (so `appendCrashStore … k`, `k = 0, 1, 2`, are exactly the stores a process can
    leave behind when it stops inside `append`) -/
theorem append_store_is_its_writes (C : Crypto) (reg : Option (List (List Nat × Nat))) (c c' : ChainSt) (b : Block)
    (h : append C reg c b = .ok c') (k : Nat) : c'.store = appendCrashStore C c b (k + 2) := by
  obtain ⟨_, _, _, _, hc'⟩ := append_ok_inv C reg c c' b h
  rw [appendCrashStore_all, hc']

/-- RESTART OVER EVERY CRASH STATE OF `append`, every chain length, every accepted block, every number `k` of store
    writes done when the process stopped.  `c` is any chain satisfying the chain invariant with its height record in
    place, `b` any block `append` accepts (with the two facts `verify_chain` checks and `append` does not, as in
    `inv_append`).  A NEW `Chain` object + `initialize()` over the store left behind:
    * `k = 0` (nothing written): height and tip of `c`;
    * `k ≥ 1` (block record written — with or without the height record): height `c.height + 1` and the tip is the
      hash of the block just stored, i.e. exactly the head of the completed append `c'`, over the same records;
    * in every case the tip is the hash of the stored block at the recovered height, the height record names the
      recovered height, the chain verifies and satisfies the invariants again — so every later append / commit
      continues a verifying chain (`sequential_history_invariant_append_crash`). -/
theorem reopen_after_append_crash_recovers_tip (C : Crypto) (reg : Option (List (List Nat × Nat))) (c c' : ChainSt)
    (b : Block) (p : List Nat) (ts k : Nat)
    (hinv : Inv C reg c) (hm : MetaInv c) (happ : append C reg c b = .ok c')
    (hts : ∀ t, blockAt c.store c.height = some t → t.header.timestamp ≤ b.header.timestamp)
    (hsig1 : c.height = 0 → regSigOk C reg (fixTxRoot C b).header = true) :
    let r := openChain C (appendCrashStore C c b k) p ts
    (k = 0 → r.height = c.height ∧ r.tip = c.tip ∧ StoreEq r.store c.store) ∧
    (1 ≤ k → r.height = c.height + 1 ∧ r.tip = (fixTxRoot C b).header.hash C ∧
              r.height = c'.height ∧ r.tip = c'.tip ∧ StoreEq r.store c'.store) ∧
    (∃ t, blockAt r.store r.height = some t ∧ r.tip = t.header.hash C) ∧
    loadHeight r.store = some r.height ∧
    verifyChain C reg r = none ∧ Inv C reg r ∧ MetaInv r := by
  intro r
  have hinv' : Inv C reg c' := inv_append C reg c c' b hinv happ hts hsig1
  obtain ⟨_, _, _, _, hc'⟩ := append_ok_inv C reg c c' b happ
  have hm' : MetaInv c' := by
    rw [hc']
    exact metaInv_commit c [] (fixTxRoot C b) _ hm
  -- the recovered chain agrees with `c` (k = 0) or with `c'` (k ≥ 1) in height, tip and records
  have key : (k = 0 ∧ r.height = c.height ∧ r.tip = c.tip ∧ StoreEq r.store c.store) ∨
             (1 ≤ k ∧ r.height = c'.height ∧ r.tip = c'.tip ∧ StoreEq r.store c'.store) := by
    cases k with
    | zero =>
      obtain ⟨hh, ht, hs⟩ := openChain_healthy C reg c p ts hinv hm
      exact Or.inl ⟨rfl, hh, ht, hs⟩
    | succ k =>
      right
      refine ⟨by omega, ?_⟩
      cases k with
      | zero =>
        obtain ⟨t, ht, _⟩ := hinv.tip
        have : r = c' := by
          simp only [r, Nat.zero_add, appendCrashStore_one]
          rw [openChain_block_stored C c _ p ts hm (by rw [ht]; rfl), hc']
        rw [this]
        exact ⟨rfl, rfl, fun _ => rfl⟩
      | succ k =>
        have hs : appendCrashStore C c b (k + 1 + 1) = c'.store := (append_store_is_its_writes C reg c c' b happ k).symm
        simp only [r, hs]
        exact openChain_healthy C reg c' p ts hinv' hm'
  have fin : ∀ d : ChainSt, Inv C reg d → MetaInv d → r.height = d.height → r.tip = d.tip → StoreEq r.store d.store →
      (∃ t, blockAt r.store r.height = some t ∧ r.tip = t.header.hash C) ∧
      loadHeight r.store = some r.height ∧ verifyChain C reg r = none ∧ Inv C reg r ∧ MetaInv r := by
    intro d hd hmd hh ht hs
    have hi : Inv C reg r := inv_congr C reg d r (fun j => storeEq_blockAt hs j) hh ht hd
    have hmr : MetaInv r := metaInv_congr d r hs hh hmd
    exact ⟨hi.tip, by simp [loadHeight, hmr.heightRec], verify_complete C reg r hi.ok, hi, hmr⟩
  have hh' : c'.height = c.height + 1 := by rw [hc']
  have ht' : c'.tip = (fixTxRoot C b).header.hash C := by rw [hc']
  rcases key with ⟨hk, hh, ht, hs⟩ | ⟨hk, hh, ht, hs⟩
  · exact ⟨fun _ => ⟨hh, ht, hs⟩, fun h1 => by omega, fin c hinv hm hh ht hs⟩
  · exact ⟨fun h0 => by omega, fun _ => ⟨by rw [hh, hh'], by rw [ht, ht'], hh, ht, hs⟩, fin c' hinv' hm' hh ht hs⟩

/-- non-vacuity: the genesis-only chain and the concrete block `exBlock1` of `Props.lean` satisfy the hypotheses
    (`append` accepts the block), and over "block record 1 written, height record still 0" a restart finds
    height 1 with the hash of block 1 as tip -/
example : Inv drvCrypto (some [([1], 1)]) (initChain drvCrypto [] [1] 10) ∧ MetaInv (initChain drvCrypto [] [1] 10) ∧
    (match append drvCrypto (some [([1], 1)]) (initChain drvCrypto [] [1] 10) exBlock1 with
      | .ok c => decide (c = exChain1) | .error _ => false) = true ∧
    loadHeight (appendCrashStore drvCrypto (initChain drvCrypto [] [1] 10) exBlock1 1) = some 0 ∧
    (openChain drvCrypto (appendCrashStore drvCrypto (initChain drvCrypto [] [1] 10) exBlock1 1) [1] 99).height = 1 ∧
    (openChain drvCrypto (appendCrashStore drvCrypto (initChain drvCrypto [] [1] 10) exBlock1 1) [1] 99).tip
      = exBlock1.header.hash drvCrypto :=
  ⟨inv_init _ _ _ _ _, metaInv_init _ _ _, by decide, by decide, by decide, by decide⟩

/-- node states reachable through ANY sequential history of client calls with restarts (`SeqReachR`) in which, in
    addition, the process may STOP INSIDE THE `Chain::append` OF ANY COMMIT — after the block record was written,
    with or without the height record (`commitCrashInAppend`, `k ≥ 1`) — and be restarted over the store left
    behind, any number of times -/
inductive SeqReachK (C : Crypto) (cfg : Config) : Node → Prop where
  | init (ts : Nat) : SeqReachK C cfg (initNode C cfg ts)
  | step (n : Node) (op : Op) : SeqReachK C cfg n → OpOk n op → SeqReachK C cfg (stepOp C n op)
  | reopen (n : Node) (ts : Nat) : SeqReachK C cfg n → SeqReachK C cfg (reopenNode C n ts)
  | crash (n nc : Node) (w ts k ts' : Nat) : SeqReachK C cfg n → OpOk n (.commit w ts) → 1 ≤ k →
      commitCrashInAppend C n w ts k = some nc → SeqReachK C cfg (reopenNode C nc ts')

/-- a history without crashes is such a history -/
theorem seqReachK_of_seqReachR (C : Crypto) (cfg : Config) (n : Node) (h : SeqReachR C cfg n) : SeqReachK C cfg n := by
  induction h with
  | init ts => exact .init ts
  | step n op _ hop ih => exact .step n op ih hop
  | reopen n ts _ ih => exact .reopen n ts ih

/-- A COMMIT THAT STOPS INSIDE ITS `append` AFTER THE BLOCK RECORD WAS WRITTEN IS, AFTER THE RESTART, THE COMPLETED
    COMMIT: from every node state whose chain has its height record in place and its tip block stored, the
    restarted node has the configuration's identity, height and tip of the node the uninterrupted `commit` returns
    (one block more than before), over a store holding the same records. -/
theorem reopen_after_commit_crash_is_completed_commit (C : Crypto) (n nc : Node) (w ts k ts' : Nat) (hk : 1 ≤ k)
    (hm : MetaInv n.chain) (htip : (blockAt n.chain.store n.chain.height).isSome = true)
    (hc : commitCrashInAppend C n w ts k = some nc) :
    (reopenNode C nc ts').chain.height = (commit C n w ts).1.chain.height ∧
    (reopenNode C nc ts').chain.tip = (commit C n w ts).1.chain.tip ∧
    (∀ key, sget (reopenNode C nc ts').chain.store key = sget (commit C n w ts).1.chain.store key) ∧
    (reopenNode C nc ts').chain.height = n.chain.height + 1 := by
  obtain ⟨_, hh, ht, hs, h1⟩ := reopen_commitCrash C n nc w ts k ts' hk hm htip hc
  exact ⟨hh, ht, hs, by rw [← h1]; exact hh⟩

/-- THE SEQUENTIAL-HISTORY INVARIANT WITH RESTARTS AND CRASHES INSIDE `append`.  After every such history the
    configuration is the original one, the chain invariant holds (in particular the in-memory tip is the hash of
    the stored block at the in-memory height), the store's data image is the replay of the chain, the height record
    names the height with no block record above it — and `verify()` returns `Ok`.  So a chain built through
    begin / commit keeps verifying whatever crash of this kind and restart lies behind it. -/
theorem sequential_history_invariant_append_crash (C : Crypto) (cfg : Config) (hsc : SignCorrect C)
    (hown : cfg.registry = some [(cfg.nodeId, cfg.key)]) (n : Node) (h : SeqReachK C cfg n) :
    NodeInv C cfg n ∧ verifyChain C n.cfg.registry n.chain = none ∧
    (∃ t, blockAt n.chain.store n.chain.height = some t ∧ n.chain.tip = t.header.hash C) := by
  have hreg : ∀ r, cfg.registry = some r → regLookup r cfg.nodeId = some cfg.key := by
    intro r hr
    rw [hown] at hr
    cases hr
    simp [regLookup]
  suffices hN : NodeInv C cfg n from ⟨hN, by rw [hN.hcfg]; exact verify_complete C _ _ hN.hinv.ok, hN.hinv.tip⟩
  have hcfg' : ∀ m : Node, m.cfg = cfg → ∀ ts, (reopenNode C m ts).cfg = cfg := by
    intro m hm ts
    simp only [reopenNode, hm]
    obtain ⟨a1, a2, a3, a4, a5, a6⟩ := cfg
    simp only at hown
    simp [hown]
  induction h with
  | init ts => exact (sequential_history_invariant_restart C cfg hsc hown _ (.init ts)).1
  | step n op _ hop ih => exact stepOp_nodeInv C cfg hsc hreg n op hop ih
  | reopen n ts _ ih =>
    obtain ⟨hcfg, hinv, hdata, hmeta, hgen⟩ := ih
    obtain ⟨hh, ht, hs⟩ := openChain_healthy C cfg.registry n.chain n.cfg.nodeId ts hinv hmeta
    exact ⟨hcfg' n hcfg ts, inv_congr C _ n.chain _ (fun j => storeEq_blockAt hs j) hh ht hinv,
      dataInv_congr n.chain _ hs hh hdata, metaInv_congr n.chain _ hs hh hmeta,
      by rw [← hgen]; exact genesisTxs_congr _ _ (storeEq_blockAt hs 0)⟩
  | crash n nc w ts k ts' _ hop hk hc ih =>
    have hdone : NodeInv C cfg (commit C n w ts).1 := stepOp_nodeInv C cfg hsc hreg n (.commit w ts) hop ih
    obtain ⟨t, htip, _⟩ := ih.hinv.tip
    obtain ⟨hcfgc, hh, ht, hs, _⟩ := reopen_commitCrash C n nc w ts k ts' hk ih.hmeta (by rw [htip]; rfl) hc
    obtain ⟨_, hinv, hdata, hmeta, hgen⟩ := hdone
    exact ⟨hcfg' nc (by rw [hcfgc]; exact ih.hcfg) ts',
      inv_congr C _ (commit C n w ts).1.chain _ (fun j => storeEq_blockAt hs j) hh ht hinv,
      dataInv_congr (commit C n w ts).1.chain _ hs hh hdata, metaInv_congr (commit C n w ts).1.chain _ hs hh hmeta,
      by rw [← hgen]; exact genesisTxs_congr _ _ (storeEq_blockAt hs 0)⟩

/-- every op list whose calls satisfy `OpOk` where they are issued continues such a history -/
theorem seqReachK_of_runOps (C : Crypto) (cfg : Config) :
    ∀ (ops : List Op) (n : Node), SeqReachK C cfg n → (∀ i (h : i < ops.length), OpOk (runOps C n (ops.take i)) ops[i]) →
      SeqReachK C cfg (runOps C n ops) := by
  intro ops
  induction ops with
  | nil => intro n h _; exact h
  | cons op ops ih =>
    intro n h hok
    simp only [runOps, List.foldl_cons]
    refine ih _ (SeqReachK.step n op h (by have := hok 0 (by simp); simpa [runOps, List.getElem_cons_zero] using this)) ?_
    intro i hi
    have := hok (i + 1) (by simp; omega)
    simpa [runOps, List.getElem_cons_succ, List.take_succ_cons] using this

/-- the node of the examples below: block 1 committed, a second workspace with one write still active -/
def exCrashPre : Node :=
  runOps drvCrypto (initNode drvCrypto cfgOwn 0) [.begin, .put 0 1 1, .commit 0 5, .begin, .put 1 2 2]

/-- `commit 1` stops inside `append`: block record 2 written, height record still 1 -/
def exCrashed : Node := (commitCrashInAppend drvCrypto exCrashPre 1 6 1).getD exCrashPre

/-- restart over the crash state, one more commit, a second restart, another commit -/
def exCrashHistoryEnd : Node :=
  runOps drvCrypto (reopenNode drvCrypto (runOps drvCrypto (reopenNode drvCrypto exCrashed 9)
    [.begin, .put 2 3 3, .commit 2 10]) 11) [.begin, .put 3 4 4, .commit 3 12]

/-- non-vacuity: the crash state is reached (`some`), it holds block record 2 under height record 1; the restart +
    one more commit + a second restart + another commit is a history in `SeqReachK` and ends at height 4; right after
    the first restart the tip is the hash of block 2, and at the end every block names its predecessor
    (`verifyChain = none`) -/
example : commitCrashInAppend drvCrypto exCrashPre 1 6 1 = some exCrashed ∧
    loadHeight exCrashed.chain.store = some 1 ∧ (blockAt exCrashed.chain.store 2).isSome = true ∧
    (reopenNode drvCrypto exCrashed 9).chain.height = 2 ∧
    SeqReachK drvCrypto cfgOwn exCrashHistoryEnd ∧ exCrashHistoryEnd.chain.height = 4 ∧
    (blockAt (reopenNode drvCrypto exCrashed 9).chain.store 2).map (·.header.hash drvCrypto)
      = some (reopenNode drvCrypto exCrashed 9).chain.tip ∧
    verifyChain drvCrypto exCrashHistoryEnd.cfg.registry exCrashHistoryEnd.chain = none := by
  have h0 : SeqReachK drvCrypto cfgOwn exCrashPre :=
    seqReachK_of_runOps drvCrypto cfgOwn _ _ (.init 0) (by decide +kernel)
  have h1 : SeqReachK drvCrypto cfgOwn (reopenNode drvCrypto exCrashed 9) :=
    .crash exCrashPre exCrashed 1 6 1 9 h0 (by decide +kernel) (by decide) (by decide +kernel)
  have h2 := seqReachK_of_runOps drvCrypto cfgOwn [.begin, .put 2 3 3, .commit 2 10] _ h1 (by decide +kernel)
  have h3 : SeqReachK drvCrypto cfgOwn exCrashHistoryEnd :=
    seqReachK_of_runOps drvCrypto cfgOwn [.begin, .put 3 4 4, .commit 3 12] _ (.reopen _ 11 h2) (by decide +kernel)
  exact ⟨by decide +kernel, by decide +kernel, by decide +kernel, by decide +kernel, h3, by decide +kernel,
    by decide +kernel, by decide +kernel⟩

/-- the restart over `exCrashed` as the code does it -/
def exReopened : Node := reopenNode drvCrypto exCrashed 9

/-- the same restart with the tip taken from the block the walk back stopped at (`openChainWalkBackTip`) -/
def exReopenedStale : Node := { exReopened with chain := openChainWalkBackTip drvCrypto exCrashed.chain.store [1] 9 }

/-- the next workspace after the restart: begin, one put (committed as workspace 2) -/
def exNext : List Op := [.begin, .put 2 3 3]

/-- WITNESS (the variant of `initialize` that reuses the block found by the walk BACK for the tip,
    `openChainWalkBackTip`; regression fixture seeded/C16_2): over the same crash state — block record 2 written,
    height record 1 — it also reports height 2 and the stored chain verifies, but its tip is the hash of block 1,
    not of block 2.  The next commit through the public interface (begin / put / commit) returns `Ok(3)`: `append`
    compares the block's predecessor hash only with the in-memory tip.  Block 3 names block 1 as its predecessor
    and `verify()` fails with the predecessor-hash error — on the current `openChain` the same history verifies. -/
theorem cached_walk_back_tip_breaks_chain_witness :
    exReopened.chain.height = 2 ∧ exReopenedStale.chain.height = 2 ∧ exReopenedStale.chain.store = exReopened.chain.store ∧
    (blockAt exReopened.chain.store 2).map (·.header.hash drvCrypto) = some exReopened.chain.tip ∧
    (blockAt exReopenedStale.chain.store 2).map (·.header.hash drvCrypto) ≠ some exReopenedStale.chain.tip ∧
    (blockAt exReopenedStale.chain.store 1).map (·.header.hash drvCrypto) = some exReopenedStale.chain.tip ∧
    verifyChain drvCrypto exReopenedStale.cfg.registry exReopenedStale.chain = none ∧
    (commit drvCrypto (runOps drvCrypto exReopenedStale exNext) 2 10).2.res = some (.ok 3) ∧
    verifyChain drvCrypto exReopenedStale.cfg.registry (commit drvCrypto (runOps drvCrypto exReopenedStale exNext) 2 10).1.chain
      = some .prevHash ∧
    (commit drvCrypto (runOps drvCrypto exReopened exNext) 2 10).2.res = some (.ok 3) ∧
    verifyChain drvCrypto exReopened.cfg.registry (commit drvCrypto (runOps drvCrypto exReopened exNext) 2 10).1.chain = none :=
  ⟨by decide +kernel, by decide +kernel, by decide +kernel, by decide +kernel, by decide +kernel, by decide +kernel,
   by decide +kernel, by decide +kernel, by decide +kernel, by decide +kernel, by decide +kernel⟩

end Neumann.Chain.Props
