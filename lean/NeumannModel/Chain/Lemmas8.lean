import NeumannModel.Chain.Lemmas
/- helper lemmas for `Props5.lean` (one transaction of a stored block altered; root function as a parameter) -/
namespace Neumann.Chain

theorem checkLinkR_txRoot (C : Crypto) (reg : Option (List (List Nat × Nat))) (prev b : Block) :
    checkLinkR C (txRoot C) reg prev b = checkLink C reg prev b := rfl

theorem verifyFromR_txRoot (C : Crypto) (reg : Option (List (List Nat × Nat))) (s : List (SKey × SVal)) :
    ∀ (n : Nat) (prev : Block) (h : Nat), verifyFromR C (txRoot C) reg s prev h n = verifyFrom C reg s prev h n := by
  intro n
  induction n with
  | zero => intro prev h; rfl
  | succ n ih =>
    intro prev h
    rw [verifyFromR, verifyFrom]
    cases blockAt s h with
    | none => rfl
    | some b =>
      simp only [checkLinkR_txRoot]
      cases checkLink C reg prev b with
      | none => exact ih b (h + 1)
      | some e => rfl

/-- the parametrised verifier instantiated with `compute_tx_root` IS `verify_chain` -/
theorem verifyChainR_txRoot (C : Crypto) (reg : Option (List (List Nat × Nat))) (c : ChainSt) :
    verifyChainR C (txRoot C) reg c = verifyChain C reg c := by
  unfold verifyChainR verifyChain
  split
  · rfl
  · cases blockAt c.store 0 with
    | none => rfl
    | some g =>
      simp only
      split
      · rfl
      · exact verifyFromR_txRoot C reg c.store c.height g 1

/-- replacing an entry by a different one gives a different list -/
theorem set_ne_of_ne {α : Type} (l : List α) (k : Nat) (hk : k < l.length) (x : α) (hne : x ≠ l[k]) : l.set k x ≠ l := by
  intro h
  have h1 : (l.set k x)[k]'(by rw [List.length_set]; exact hk) = x := List.getElem_set_self _
  have h2 : (l.set k x)[k]'(by rw [List.length_set]; exact hk) = l[k] := by
    simp only [h]
  exact hne (h1.symm.trans h2)

end Neumann.Chain
