import NeumannModel.Chain.Lemmas5
/-
  C16 — helper lemmas for the crash states of `Chain::append` (block record written, height record not yet) and
  the restart over them.
-/
namespace Neumann.Chain

theorem appendCrashStore_zero (C : Crypto) (c : ChainSt) (b : Block) : appendCrashStore C c b 0 = c.store := rfl

theorem appendCrashStore_one (C : Crypto) (c : ChainSt) (b : Block) :
    appendCrashStore C c b 1 = sput c.store (.block (c.height + 1)) (.block (fixTxRoot C b)) := rfl

theorem appendCrashStore_all (C : Crypto) (c : ChainSt) (b : Block) (k : Nat) :
    appendCrashStore C c b (k + 2) =
      sput (sput c.store (.block (c.height + 1)) (.block (fixTxRoot C b))) .chainMeta (.height (c.height + 1)) := by
  simp [appendCrashStore, appendWrites, putAll]

/-- `initialize` over "block record written, height record still the old one": the walk back stays at the recorded
    height (its block is there), the walk forward finds exactly the new block, the tip is read at the final
    height, the corrected height is saved — the result is literally the state the completed append would have
    left -/
theorem openChain_block_stored (C : Crypto) (c : ChainSt) (b' : Block) (p : List Nat) (ts : Nat)
    (hm : MetaInv c) (htip : (blockAt c.store c.height).isSome = true) :
    openChain C (sput c.store (.block (c.height + 1)) (.block b')) p ts =
      { store := sput (sput c.store (.block (c.height + 1)) (.block b')) .chainMeta (.height (c.height + 1)),
        height := c.height + 1, tip := b'.header.hash C } := by
  have hnew : blockAt (sput c.store (.block (c.height + 1)) (.block b')) (c.height + 1) = some b' := blockAt_sput_same _ _ _
  have hold : ∀ j, j ≠ c.height + 1 → blockAt (sput c.store (.block (c.height + 1)) (.block b')) j = blockAt c.store j := by
    intro j hj
    exact blockAt_sput_ne _ _ _ _ (by simp; omega)
  have hl : loadHeight (sput c.store (.block (c.height + 1)) (.block b')) = some c.height := by
    simp only [loadHeight]
    rw [sget_sput_ne _ _ _ _ (by simp), hm.heightRec]
  have hb : walkBack (sput c.store (.block (c.height + 1)) (.block b')) c.height = c.height :=
    walkBack_present _ _ (Or.inr (by rw [hold _ (by omega)]; exact htip))
  have hf : walkFwd (sput c.store (.block (c.height + 1)) (.block b')) (sput c.store (.block (c.height + 1)) (.block b')).length
      c.height = c.height + 1 := by
    cases hlen : (sput c.store (.block (c.height + 1)) (.block b')).length with
    | zero =>
      have : sput c.store (.block (c.height + 1)) (.block b') = [] := List.length_eq_zero_iff.mp hlen
      rw [this] at hnew
      simp [blockAt, sget] at hnew
    | succ f =>
      rw [walkFwd]
      simp only [hnew, Option.isSome_some, if_true]
      exact walkFwd_absent _ _ _ (by rw [hold _ (by omega)]; exact hm.top _ (by omega))
  simp only [openChain, hl, hb, hf, hnew]

/-- the five steps prepare … build of a `commit` whose early checks passed -/
theorem pipeline_to_append (C : Crypto) (n : Node) (l : Local) (hpc : l.pc = .snapshot) :
    commitRun C 4 n l =
      ({ n with chain := { n.chain with store := applyTxs n.chain.store l.ops } },
       { l with pc := .append, snap := n.chain.store, root := stateRoot C (applyTxs n.chain.store l.ops),
                block := some (builtBlock C n l.ops l.dirs (stateRoot C (applyTxs n.chain.store l.ops)) l.ts) }) := by
  simp [commitRun, commitStep, hpc, builtBlock]

theorem metaInv_applyTxs (c : ChainSt) (txs : List Tx) (h : MetaInv c) :
    MetaInv { c with store := applyTxs c.store txs } :=
  ⟨by simp only; rw [sget_meta_applyTxs]; exact h.heightRec,
   fun j hj => by simp only at hj ⊢; rw [blockAt_applyTxs]; exact h.top j hj⟩

/-- a `commit` that stops inside its `append` after at least the block record was written: the restart re-derives
    exactly the head of the completed commit, over a store holding the same records -/
theorem reopen_commitCrash (C : Crypto) (n nc : Node) (w ts k ts' : Nat) (hk : 1 ≤ k)
    (hm : MetaInv n.chain) (htip : (blockAt n.chain.store n.chain.height).isSome = true)
    (hc : commitCrashInAppend C n w ts k = some nc) :
    nc.cfg = n.cfg ∧
    (openChain C nc.chain.store nc.cfg.nodeId ts').height = (commit C n w ts).1.chain.height ∧
    (openChain C nc.chain.store nc.cfg.nodeId ts').tip = (commit C n w ts).1.chain.tip ∧
    StoreEq (openChain C nc.chain.store nc.cfg.nodeId ts').store (commit C n w ts).1.chain.store ∧
    (commit C n w ts).1.chain.height = n.chain.height + 1 := by
  have hr5 : commitRun C 5 n (Local.init w ts) =
      commitRun C 4 (commitStep C n (Local.init w ts)).1 (commitStep C n (Local.init w ts)).2 := by
    simp [commitRun, Local.init]
  have hr8 : commit C n w ts =
      commitRun C 7 (commitStep C n (Local.init w ts)).1 (commitStep C n (Local.init w ts)).2 := by
    simp [commit, commitRun, Local.init]
  have key := prepare_cases C n w ts
  simp only at key
  unfold commitCrashInAppend at hc
  simp only at hc
  rw [hr5] at hc
  rw [hr8]
  generalize commitStep C n (Local.init w ts) = q at key hc
  obtain ⟨n1, l1⟩ := q
  simp only at key hc ⊢
  rcases key with ⟨hpc, _, _⟩ | ⟨hpc, hch, hcfg, _, _⟩
  · have : commitRun C 4 n1 l1 = (n1, l1) := by simp [commitRun, hpc]
    rw [this] at hc
    simp [hpc] at hc
  · rw [pipeline_to_append C n1 l1 hpc] at hc
    simp only at hc
    cases happ : append C n1.cfg.registry { n1.chain with store := applyTxs n1.chain.store l1.ops }
        (builtBlock C n1 l1.ops l1.dirs (stateRoot C (applyTxs n1.chain.store l1.ops)) l1.ts) with
    | error e => rw [happ] at hc; simp at hc
    | ok c' =>
      have h1 : (commitRun C 7 n1 l1).1.chain = c' := by
        have happ2 := happ
        simp only [commitRun, commitStep, hpc, builtBlock] at happ2 ⊢
        simp [happ2, finish_chain]
      rw [happ] at hc
      simp only [Option.some.injEq] at hc
      subst hc
      obtain ⟨_, _, _, _, hc'⟩ := append_ok_inv C _ _ _ _ happ
      simp only at hc'
      have hm1 : MetaInv { n1.chain with store := applyTxs n1.chain.store l1.ops } :=
        metaInv_applyTxs _ _ (by rw [hch]; exact hm)
      have htip1 : (blockAt ({ n1.chain with store := applyTxs n1.chain.store l1.ops } : ChainSt).store
          ({ n1.chain with store := applyTxs n1.chain.store l1.ops } : ChainSt).height).isSome = true := by
        simp only [blockAt_applyTxs]; rw [hch]; exact htip
      refine ⟨hcfg, ?_⟩
      rw [h1, hc']
      obtain ⟨k', rfl⟩ : ∃ k', k = k' + 1 := ⟨k - 1, by omega⟩
      cases k' with
      | zero =>
        simp only [Nat.zero_add, appendCrashStore_one]
        rw [openChain_block_stored C _ _ _ _ hm1 htip1]
        exact ⟨rfl, rfl, fun _ => rfl, by simp [hch]⟩
      | succ k'' =>
        simp only [appendCrashStore_all]
        have hinvm : MetaInv c' := by
          rw [hc']
          have := metaInv_commit n1.chain l1.ops
            (fixTxRoot C (builtBlock C n1 l1.ops l1.dirs (stateRoot C (applyTxs n1.chain.store l1.ops)) l1.ts))
            ((fixTxRoot C (builtBlock C n1 l1.ops l1.dirs (stateRoot C (applyTxs n1.chain.store l1.ops)) l1.ts)).header.hash C)
            (by rw [hch]; exact hm)
          exact this
        rw [hc'] at hinvm
        -- the completed store: `initialize` is the healthy round trip
        have hl : loadHeight (sput (sput (applyTxs n1.chain.store l1.ops) (.block (n1.chain.height + 1))
            (.block (fixTxRoot C (builtBlock C n1 l1.ops l1.dirs (stateRoot C (applyTxs n1.chain.store l1.ops)) l1.ts))))
            .chainMeta (.height (n1.chain.height + 1))) = some (n1.chain.height + 1) := by
          simp only [loadHeight]; rw [sget_sput_same]
        have hblk : blockAt (sput (sput (applyTxs n1.chain.store l1.ops) (.block (n1.chain.height + 1))
            (.block (fixTxRoot C (builtBlock C n1 l1.ops l1.dirs (stateRoot C (applyTxs n1.chain.store l1.ops)) l1.ts))))
            .chainMeta (.height (n1.chain.height + 1))) (n1.chain.height + 1) =
            some (fixTxRoot C (builtBlock C n1 l1.ops l1.dirs (stateRoot C (applyTxs n1.chain.store l1.ops)) l1.ts)) := by
          rw [blockAt_sput_ne _ _ _ _ (by simp), blockAt_sput_same]
        have hb := walkBack_present _ (n1.chain.height + 1) (Or.inr (by rw [hblk]; rfl))
        have hf := walkFwd_absent _ (sput (sput (applyTxs n1.chain.store l1.ops) (.block (n1.chain.height + 1))
            (.block (fixTxRoot C (builtBlock C n1 l1.ops l1.dirs (stateRoot C (applyTxs n1.chain.store l1.ops)) l1.ts))))
            .chainMeta (.height (n1.chain.height + 1))).length (n1.chain.height + 1) (hinvm.top _ (Nat.lt_succ_self _))
        simp only [openChain, hl, hb, hf, hblk]
        exact ⟨trivial, trivial, sput_storeEq_of_sget _ _ _ (sget_sput_same _ _ _), by simp [hch]⟩

end Neumann.Chain
