import NeumannModel.KV.Lemmas
/-
  C11 — `emb:` keys: the index / slab / metadata coherence invariant and the linearization of runs
  in which no two operations on one `emb:` key overlap (core Lean only).

  Linearization points: a `put` of an `emb:` key at its FIRST step (from the index step on, scans and
  `exists` see the key), every other operation at its LAST step.
-/
namespace Neumann.KV

/-! ### entity index -/

theorem idxGetAux_some {v : List (Key × Bool)} {k : Key} {n i : Nat} (h : idxGetAux v k n = some i) :
    n ≤ i ∧ v[i - n]? = some (k, true) := by
  induction v generalizing n with
  | nil => simp [idxGetAux] at h
  | cons p r ih =>
    obtain ⟨k', live⟩ := p
    simp only [idxGetAux] at h
    split at h
    · rename_i hc
      obtain ⟨hl, hk⟩ := hc
      cases h
      simp [hl, hk]
    · obtain ⟨h1, h2⟩ := ih h
      refine ⟨by omega, ?_⟩
      have e : i - n = (i - (n + 1)) + 1 := by omega
      rw [e]
      simpa using h2

theorem idxGetAux_none {v : List (Key × Bool)} {k : Key} {n : Nat} :
    idxGetAux v k n = none ↔ (k, true) ∉ v := by
  induction v generalizing n with
  | nil => simp [idxGetAux]
  | cons p r ih =>
    obtain ⟨k', live⟩ := p
    simp only [idxGetAux]
    split
    · rename_i hc
      obtain ⟨hl, hk⟩ := hc
      simp [hl, hk]
    · rename_i hc
      rw [ih]
      simp only [List.mem_cons, not_or]
      constructor
      · intro h
        refine ⟨?_, h⟩
        intro e
        cases e
        exact hc ⟨rfl, rfl⟩
      · exact fun h => h.2

theorem idxGet_getElem {v : List (Key × Bool)} {k : Key} {i : Nat} (h : idxGet v k = some i) :
    v[i]? = some (k, true) := by
  have := (idxGetAux_some h).2
  simpa using this

theorem idxGet_none {v : List (Key × Bool)} {k : Key} : idxGet v k = none ↔ (k, true) ∉ v :=
  idxGetAux_none

/-- two keys never share an entity id -/
theorem idxGet_inj {v : List (Key × Bool)} {k k' : Key} {i : Nat} (h : idxGet v k = some i)
    (h' : idxGet v k' = some i) : k = k' := by
  have a := idxGet_getElem h
  have b := idxGet_getElem h'
  rw [a] at b
  simpa using b

/-- a key has at most one live entry -/
def LiveUnique (v : List (Key × Bool)) : Prop :=
  ∀ (i j : Nat) (k : Key), v[i]? = some (k, true) → v[j]? = some (k, true) → i = j

theorem idxGetAux_append_some {v w : List (Key × Bool)} {k : Key} {n i : Nat}
    (h : idxGetAux v k n = some i) : idxGetAux (v ++ w) k n = some i := by
  induction v generalizing n with
  | nil => simp [idxGetAux] at h
  | cons p r ih =>
    obtain ⟨k', live⟩ := p
    simp only [List.cons_append, idxGetAux] at h ⊢
    split
    · rename_i hc; simpa [hc] using h
    · rename_i hc; simp only [hc, if_false] at h; exact ih h

theorem idxGetAux_append_none {v w : List (Key × Bool)} {k : Key} {n : Nat}
    (h : idxGetAux v k n = none) : idxGetAux (v ++ w) k n = idxGetAux w k (n + v.length) := by
  induction v generalizing n with
  | nil => simp
  | cons p r ih =>
    obtain ⟨k', live⟩ := p
    simp only [List.cons_append, idxGetAux] at h ⊢
    split
    · rename_i hc; simp [hc] at h
    · rename_i hc
      simp only [hc, if_false] at h
      rw [ih h]
      simp only [List.length_cons]
      congr 1
      omega

theorem idxGetOrCreate_self (v : List (Key × Bool)) (k : Key) :
    idxGet (idxGetOrCreate v k).2 k = some (idxGetOrCreate v k).1 := by
  unfold idxGetOrCreate
  cases h : idxGet v k with
  | some i => simpa using h
  | none =>
    simp only
    unfold idxGet at h ⊢
    rw [idxGetAux_append_none h]
    simp [idxGetAux]

theorem idxGetOrCreate_other (v : List (Key × Bool)) {k k' : Key} (hne : k' ≠ k) :
    idxGet (idxGetOrCreate v k).2 k' = idxGet v k' := by
  unfold idxGetOrCreate
  cases h : idxGet v k with
  | some i => rfl
  | none =>
    simp only
    cases h' : idxGet v k' with
    | some j => exact idxGetAux_append_some h'
    | none =>
      unfold idxGet at h' ⊢
      rw [idxGetAux_append_none h']
      simp [idxGetAux, Ne.symm hne]

theorem LiveUnique.getOrCreate {v : List (Key × Bool)} (h : LiveUnique v) (k : Key) :
    LiveUnique (idxGetOrCreate v k).2 := by
  unfold idxGetOrCreate
  cases hk : idxGet v k with
  | some i => exact h
  | none =>
    simp only
    have hnot : (k, true) ∉ v := idxGet_none.mp hk
    intro i j k' hi hj
    rw [List.getElem?_append] at hi hj
    split at hi <;> split at hj
    · exact h i j k' hi hj
    · rename_i h1 h2
      have : (k, true) ∈ v := by
        have hj' : k' = k := by
          cases hlen : j - v.length with
          | zero => rw [hlen] at hj; simpa using hj.symm
          | succ m => rw [hlen] at hj; simp at hj
        subst hj'
        exact List.mem_of_getElem? hi
      exact absurd this hnot
    · rename_i h1 h2
      have : (k, true) ∈ v := by
        have hi' : k' = k := by
          cases hlen : i - v.length with
          | zero => rw [hlen] at hi; simpa using hi.symm
          | succ m => rw [hlen] at hi; simp at hi
        subst hi'
        exact List.mem_of_getElem? hj
      exact absurd this hnot
    · rename_i h1 h2
      have e1 : i - v.length = 0 := by
        cases hlen : i - v.length with
        | zero => rfl
        | succ m => rw [hlen] at hi; simp at hi
      have e2 : j - v.length = 0 := by
        cases hlen : j - v.length with
        | zero => rfl
        | succ m => rw [hlen] at hj; simp at hj
      omega

theorem idxGetAux_set_other {v : List (Key × Bool)} {k k' : Key} {b b0 : Bool} {i n : Nat}
    (hi : v[i]? = some (k, b0)) (hne : k' ≠ k) :
    idxGetAux (v.set i (k, b)) k' n = idxGetAux v k' n := by
  induction v generalizing i n with
  | nil => simp at hi
  | cons p r ih =>
    cases i with
    | zero =>
      simp only [List.getElem?_cons_zero, Option.some.injEq] at hi
      subst hi
      simp [List.set, idxGetAux, Ne.symm hne]
    | succ m =>
      obtain ⟨k'', live⟩ := p
      simp only [List.getElem?_cons_succ] at hi
      simp only [List.set, idxGetAux]
      split
      · rfl
      · exact ih hi

theorem idxRemove_other (v : List (Key × Bool)) {k k' : Key} (hne : k' ≠ k) :
    idxGet (idxRemove v k) k' = idxGet v k' := by
  unfold idxRemove
  cases h : idxGet v k with
  | none => rfl
  | some i => exact idxGetAux_set_other (idxGet_getElem h) hne

theorem idxRemove_self {v : List (Key × Bool)} (hu : LiveUnique v) (k : Key) :
    idxGet (idxRemove v k) k = none := by
  unfold idxRemove
  cases h : idxGet v k with
  | none => simpa using h
  | some i =>
    simp only
    rw [idxGet_none]
    intro hmem
    obtain ⟨j, hj⟩ := List.getElem?_of_mem hmem
    have hi := idxGet_getElem h
    rcases getElem?_set_cases hi hj with ⟨_, e⟩ | ⟨hne, hj'⟩
    · simp at e
    · exact hne (hu j i k hj' hi)

theorem LiveUnique.remove {v : List (Key × Bool)} (hu : LiveUnique v) (k : Key) :
    LiveUnique (idxRemove v k) := by
  unfold idxRemove
  cases h : idxGet v k with
  | none => exact hu
  | some i =>
    simp only
    have hi := idxGet_getElem h
    intro a b k' ha hb
    rcases getElem?_set_cases hi ha with ⟨_, e⟩ | ⟨_, ha'⟩
    · simp at e
    · rcases getElem?_set_cases hi hb with ⟨_, e⟩ | ⟨_, hb'⟩
      · simp at e
      · exact hu a b k' ha' hb'

theorem mem_liveKeys {v : List (Key × Bool)} {k : Key} :
    k ∈ liveKeys v ↔ (idxGet v k).isSome = true := by
  have : k ∈ liveKeys v ↔ (k, true) ∈ v := by
    simp only [liveKeys, List.mem_map, List.mem_filter]
    constructor
    · rintro ⟨⟨a, b⟩, ⟨hm, hb⟩, rfl⟩
      simp only at hb
      subst hb
      exact hm
    · intro h
      exact ⟨(k, true), ⟨h, rfl⟩, rfl⟩
  rw [this]
  cases h : idxGet v k with
  | none => simpa using idxGet_none.mp h
  | some i => simpa using List.mem_of_getElem? (idxGet_getElem h)

/-! ### what the slabs and the specification say about ONE key -/

def vecTag : VecF → Option Nat
  | .good t => some t
  | _ => none

structure KView where
  sp : Option Val   -- the specification map
  ix : Option Nat   -- entity index
  md : Option Val   -- metadata slab
  sl : Option Nat   -- embedding slab at the key's entity id
  ca : Option Val   -- cache ring

def kview (s : Store) (σ : Spec) (k : Key) : KView :=
  { sp := aget σ k, ix := idxGet s.vocab k, md := aget s.md k,
    sl := (idxGet s.vocab k).bind (aget s.slab), ca := aget s.cache k }

/-- a key of the plain / graph / table / cache class: one slab holds it, the index does not -/
def KView.plainOK (w : KView) (k : Key) : Prop :=
  w.ix = none ∧ (if k.cls = .cache then w.md = none ∧ w.sp = w.ca else w.ca = none ∧ w.sp = w.md)

/-- COHERENCE of an `emb:` key no operation is inside of: absent from index and metadata, or
    present in both with the slab holding exactly the vector of the metadata value -/
def KView.quiet (w : KView) : Prop :=
  match w.sp with
  | none => w.ix = none ∧ w.md = none
  | some v => w.ix.isSome = true ∧ w.md = some v ∧ w.sl = vecTag v.vec

/-- an `emb:` key while operation `op` is parked inside at `pc`.  A put is already linearized
    (the specification holds its value), a delete not yet. -/
def KView.pend (w : KView) : Op → PC → Prop
  | .put _ v, .putEmbAfterIndex id => w.sp = some v ∧ w.ix = some id
  | .put _ v, .putEmbAfterVector => w.sp = some v ∧ w.ix.isSome = true ∧ w.sl = vecTag v.vec
  | .get _, .getEmbAfterIndex id => w.quiet ∧ w.ix = some id
  | .get _, .getEmbAfterVector t => w.quiet ∧ w.sl = some t
  | .delete _, .delEmbAfterVector => w.sp.isSome = true ∧ w.md = w.sp
  | .delete _, .delEmbAfterIndex => w.sp.isSome = true ∧ w.md = w.sp ∧ w.ix = none
  | _, _ => False

/-- scans and `exists` see the key iff the specification has it -/
def KView.vis (w : KView) : Prop := w.sp.isSome = (w.ix.isSome || w.md.isSome || w.ca.isSome)

theorem KView.quiet_vis {w : KView} (h : w.quiet) (hc : w.ca = none) : w.vis := by
  unfold KView.quiet at h
  unfold KView.vis
  split at h
  · rename_i e; simp [e, h.1, h.2, hc]
  · rename_i v e; simp [e, h.1]

theorem KView.pend_vis {w : KView} {op : Op} {pc : PC} (h : w.pend op pc) (hc : w.ca = none) : w.vis := by
  unfold KView.pend at h
  split at h
  · unfold KView.vis; simp [h.1, h.2]
  · unfold KView.vis; simp [h.1, h.2.1]
  · exact KView.quiet_vis h.1 hc
  · exact KView.quiet_vis h.1 hc
  · unfold KView.vis
    have := h.1
    rw [← h.2] at this
    simp [h.1, this]
  · unfold KView.vis
    have := h.1
    rw [← h.2.1] at this
    simp [h.1, this]
  · exact absurd h id

theorem KView.plain_vis {w : KView} {k : Key} (h : w.plainOK k) : w.vis := by
  unfold KView.vis
  obtain ⟨h1, h2⟩ := h
  split at h2
  · simp [h1, h2.1, h2.2]
  · simp [h1, h2.1, h2.2]

/-- a step that leaves alone what the index, the slab at the key's id, metadata, cache and the
    specification say about `k'` leaves its view alone -/
theorem kview_frame {s s' : Store} {σ σ' : Spec} {k' : Key} (hσ : aget σ' k' = aget σ k')
    (hix : idxGet s'.vocab k' = idxGet s.vocab k') (hmd : aget s'.md k' = aget s.md k')
    (hca : aget s'.cache k' = aget s.cache k')
    (hsl : ∀ id, idxGet s.vocab k' = some id → aget s'.slab id = aget s.slab id) :
    kview s' σ' k' = kview s σ k' := by
  unfold kview
  rw [hσ, hix, hmd, hca]
  cases h : idxGet s.vocab k' with
  | none => rfl
  | some id => simp [hsl id h]

theorem aget_slabPut_self (s : List (Nat × Nat)) (id : Nat) (vec : VecF) :
    aget (slabPut s id vec) id = vecTag vec := by
  cases vec <;> simp [slabPut, vecTag, aget_aset, aget_aerase]

theorem aget_slabPut_ne (s : List (Nat × Nat)) {id id' : Nat} (vec : VecF) (h : id ≠ id') :
    aget (slabPut s id vec) id' = aget s id' := by
  cases vec <;> simp [slabPut, aget_aset, aget_aerase, h]

/-! ### the store part of the invariant -/

/-- the specification state after the linearized operations -/
def specOf (lin : List OpRec) : Spec := specRun [] (lin.map (·.op))

structure SInv (sys : Sys) (σ : Spec) : Prop where
  walOff : sys.store.walOn = false
  nd : ∀ (t : Nat) (th : Thread), sys.threads[t]? = some th → ∀ op ∈ th.ops, op.nonDurableStr = true
  uniq : LiveUnique sys.store.vocab
  plain : ∀ k, k.cls ≠ .emb → (kview sys.store σ k).plainOK k
  embCache : ∀ k, k.cls = .emb → (kview sys.store σ k).ca = none
  quiet : ∀ k, k.cls = .emb →
    (∀ (t : Nat) (th : Thread), sys.threads[t]? = some th → th.midKey ≠ some k) →
    (kview sys.store σ k).quiet
  pend : ∀ (t : Nat) (th : Thread) (op : Op) (rest : List Op),
    sys.threads[t]? = some th → th.ops = op :: rest → th.pc ≠ .start →
    ∃ k, op.key? = some k ∧ k.cls = .emb ∧ (kview sys.store σ k).pend op th.pc
  excl : ∀ (i j : Nat) (thi thj : Thread) (k : Key),
    sys.threads[i]? = some thi → sys.threads[j]? = some thj →
    thi.midKey = some k → thj.midKey = some k → i = j

theorem midKey_start {th : Thread} (h : th.pc = .start) : th.midKey = none := by
  simp [Thread.midKey, h]

theorem midKey_of_ne_start {th : Thread} {op : Op} {rest : List Op} (h : th.pc ≠ .start)
    (ho : th.ops = op :: rest) : th.midKey = op.key? := by
  simp [Thread.midKey, h, ho]

theorem midKey_some {th : Thread} {k : Key} (h : th.midKey = some k) :
    th.pc ≠ .start ∧ ∃ op rest, th.ops = op :: rest ∧ op.key? = some k := by
  unfold Thread.midKey at h
  split at h
  · cases h
  · rename_i hpc
    refine ⟨hpc, ?_⟩
    split at h
    · rename_i op rest ho; exact ⟨op, rest, ho, h⟩
    · cases h

/-- only `emb:` keys have operations of more than one step -/
theorem SInv.mid_emb {sys : Sys} {σ : Spec} (h : SInv sys σ) {t : Nat} {th : Thread} {k : Key}
    (hth : sys.threads[t]? = some th) (hm : th.midKey = some k) : k.cls = .emb := by
  obtain ⟨hpc, op, rest, ho, hk⟩ := midKey_some hm
  obtain ⟨k', hk', he, _⟩ := h.pend t th op rest hth ho hpc
  rw [hk] at hk'
  cases hk'
  exact he

/-- every key: scans and `exists` see it iff the specification has it -/
theorem SInv.vis {sys : Sys} {σ : Spec} (h : SInv sys σ) (k : Key) : (kview sys.store σ k).vis := by
  by_cases he : k.cls = .emb
  · by_cases hm : ∃ (t : Nat) (th : Thread), sys.threads[t]? = some th ∧ th.midKey = some k
    · obtain ⟨t, th, hth, hmk⟩ := hm
      obtain ⟨hpc, op, rest, ho, hk⟩ := midKey_some hmk
      obtain ⟨k', hk', _, hp⟩ := h.pend t th op rest hth ho hpc
      rw [hk] at hk'
      cases hk'
      exact KView.pend_vis hp (h.embCache k he)
    · refine KView.quiet_vis (h.quiet k he ?_) (h.embCache k he)
      intro t th hth hmk
      exact hm ⟨t, th, hth, hmk⟩
  · exact KView.plain_vis (h.plain k he)

theorem SInv.scan {sys : Sys} {σ : Spec} (h : SInv sys σ) (p : List Nat)
    (hb : validUtf8 p = true) (k : Key) :
    k ∈ scanNow sys.store p ↔ k ∈ (σ.map (·.1)).filter (pmatch p) := by
  have hv := h.vis k
  simp only [KView.vis, kview] at hv
  simp only [scanNow, List.mem_append, List.mem_filter, mem_keys_iff, mem_liveKeys, hv,
    mdMatch_eq_pmatch hb]
  cases pmatch p k <;> simp [or_comm, or_left_comm]

theorem getElem?_set_self' {α} {l : List α} {t : Nat} {a old : α} (hold : l[t]? = some old) :
    (l.set t a)[t]? = some a := by
  obtain ⟨hlt, _⟩ := List.getElem?_eq_some_iff.mp hold
  exact List.getElem?_set_self hlt

/-- thread `t` takes a step of an operation on key `k`: the step changes the view of `k` only -/
theorem SInv.stepKey {sys sys' : Sys} {σ σ' : Spec} (h : SInv sys σ) {t : Nat} {th th' : Thread}
    {k : Key} (hth : sys.threads[t]? = some th) (hthreads : sys'.threads = sys.threads.set t th')
    (hwal : sys'.store.walOn = false) (hnd : ∀ op ∈ th'.ops, op.nonDurableStr = true)
    (hmid : th.midKey = none ∨ th.midKey = some k) (hmid' : th'.midKey = none ∨ th'.midKey = some k)
    (hothers : ∀ (j : Nat) (thj : Thread), sys.threads[j]? = some thj → j ≠ t → thj.midKey ≠ some k)
    (hframe : ∀ k', k' ≠ k → kview sys'.store σ' k' = kview sys.store σ k')
    (huniq : LiveUnique sys'.store.vocab)
    (hplain : k.cls ≠ .emb → (kview sys'.store σ' k).plainOK k)
    (hcache : k.cls = .emb → (kview sys'.store σ' k).ca = none)
    (hquiet : k.cls = .emb → th'.midKey = none → (kview sys'.store σ' k).quiet)
    (hpend : ∀ op rest, th'.ops = op :: rest → th'.pc ≠ .start →
      op.key? = some k ∧ k.cls = .emb ∧ (kview sys'.store σ' k).pend op th'.pc) :
    SInv sys' σ' := by
  have hself : sys'.threads[t]? = some th' := by rw [hthreads]; exact getElem?_set_self' hth
  have hother : ∀ j, j ≠ t → sys'.threads[j]? = sys.threads[j]? := by
    intro j hj; rw [hthreads, List.getElem?_set_ne (Ne.symm hj)]
  constructor
  · exact hwal
  · intro j thj hj
    rw [hthreads] at hj
    rcases getElem?_set_cases hth hj with ⟨_, rfl⟩ | ⟨_, hj'⟩
    · exact hnd
    · exact h.nd j thj hj'
  · exact huniq
  · intro k' hk'
    by_cases e : k' = k
    · subst e; exact hplain hk'
    · rw [hframe k' e]; exact h.plain k' hk'
  · intro k' hk'
    by_cases e : k' = k
    · subst e; exact hcache hk'
    · rw [hframe k' e]; exact h.embCache k' hk'
  · intro k' hk' hall
    by_cases e : k' = k
    · subst e
      refine hquiet hk' ?_
      rcases hmid' with h1 | h1
      · exact h1
      · exact absurd h1 (hall t th' hself)
    · rw [hframe k' e]
      refine h.quiet k' hk' ?_
      intro j thj hj
      by_cases ej : j = t
      · subst ej
        rw [hth] at hj
        cases hj
        rcases hmid with h1 | h1
        · simp [h1]
        · rw [h1]; intro c; cases c; exact e rfl
      · exact hall j thj (by rw [hother j ej]; exact hj)
  · intro j thj op rest hj ho hpc
    by_cases ej : j = t
    · subst ej
      rw [hself] at hj
      cases hj
      obtain ⟨a, b, c⟩ := hpend op rest ho hpc
      exact ⟨k, a, b, c⟩
    · rw [hother j ej] at hj
      obtain ⟨kj, hkj, he, hp⟩ := h.pend j thj op rest hj ho hpc
      have hne : kj ≠ k := by
        intro c
        subst c
        exact hothers j thj hj ej (by rw [midKey_of_ne_start hpc ho, hkj])
      exact ⟨kj, hkj, he, by rw [hframe kj hne]; exact hp⟩
  · intro i j thi thj k' hi hj hmi hmj
    by_cases ei : i = t <;> by_cases ej : j = t
    · rw [ei, ej]
    · subst ei
      rw [hself] at hi
      cases hi
      rw [hother j ej] at hj
      rcases hmid' with h1 | h1
      · rw [h1] at hmi; cases hmi
      · rw [h1] at hmi; cases hmi
        exact absurd hmj (hothers j thj hj ej)
    · subst ej
      rw [hself] at hj
      cases hj
      rw [hother i ei] at hi
      rcases hmid' with h1 | h1
      · rw [h1] at hmj; cases hmj
      · rw [h1] at hmj; cases hmj
        exact absurd hmi (hothers i thi hi ei)
    · rw [hother i ei] at hi
      rw [hother j ej] at hj
      exact h.excl i j thi thj k' hi hj hmi hmj

/-- thread `t` completes a one-step operation that changes neither the store nor the specification -/
theorem SInv.stepStay {sys sys' : Sys} {σ : Spec} (h : SInv sys σ) {t : Nat} {th th' : Thread}
    (hth : sys.threads[t]? = some th) (hthreads : sys'.threads = sys.threads.set t th')
    (hstore : sys'.store = sys.store) (hnd : ∀ op ∈ th'.ops, op.nonDurableStr = true)
    (hpc : th.pc = .start) (hpc' : th'.pc = .start) : SInv sys' σ := by
  have hself : sys'.threads[t]? = some th' := by rw [hthreads]; exact getElem?_set_self' hth
  have hother : ∀ j, j ≠ t → sys'.threads[j]? = sys.threads[j]? := by
    intro j hj; rw [hthreads, List.getElem?_set_ne (Ne.symm hj)]
  constructor
  · rw [hstore]; exact h.walOff
  · intro j thj hj
    rw [hthreads] at hj
    rcases getElem?_set_cases hth hj with ⟨_, rfl⟩ | ⟨_, hj'⟩
    · exact hnd
    · exact h.nd j thj hj'
  · rw [hstore]; exact h.uniq
  · intro k hk; rw [hstore]; exact h.plain k hk
  · intro k hk; rw [hstore]; exact h.embCache k hk
  · intro k hk hall
    rw [hstore]
    refine h.quiet k hk ?_
    intro j thj hj
    by_cases ej : j = t
    · subst ej
      rw [hth] at hj
      cases hj
      simp [midKey_start hpc]
    · exact hall j thj (by rw [hother j ej]; exact hj)
  · intro j thj op rest hj ho hpcj
    by_cases ej : j = t
    · subst ej
      rw [hself] at hj
      cases hj
      exact absurd hpc' hpcj
    · rw [hother j ej] at hj
      rw [hstore]
      exact h.pend j thj op rest hj ho hpcj
  · intro i j thi thj k hi hj hmi hmj
    by_cases ei : i = t
    · subst ei
      rw [hself] at hi
      cases hi
      rw [midKey_start hpc'] at hmi
      cases hmi
    · by_cases ej : j = t
      · subst ej
        rw [hself] at hj
        cases hj
        rw [midKey_start hpc'] at hmj
        cases hmj
      · rw [hother i ei] at hi
        rw [hother j ej] at hj
        exact h.excl i j thi thj k hi hj hmi hmj

/-! ### the history part of the invariant -/

def PC.isPutMid : PC → Bool
  | .putEmbAfterIndex _ | .putEmbAfterVector => true
  | _ => false

/-- the record under which a `put` that has taken its first step (and is linearized there) stands
    in the linearization until it returns; the return time is filled in then -/
def phRec (t : Nat) (th : Thread) (op : Op) : OpRec := ⟨t, th.idx, op, .ok, th.inv, th.inv⟩

structure HInv (sys : Sys) (lin : List OpRec) : Prop where
  strict : SeqStrict [] lin
  rt : lin.Pairwise (fun a b => a.inv ≤ b.ret)
  times : ∀ r ∈ lin, r.inv ≤ r.ret ∧ r.ret < sys.clock
  nodup : lin.Nodup
  hsorted : sys.hist.Pairwise (fun a b => a.ret < b.ret)
  hlin : ∀ r ∈ sys.hist, r ∈ lin
  hidx : ∀ r ∈ sys.hist, ∀ (th : Thread), sys.threads[r.t]? = some th → r.i < th.idx
  src : ∀ r ∈ lin, r ∈ sys.hist ∨ ∃ (th : Thread) (op : Op) (rest : List Op),
    sys.threads[r.t]? = some th ∧ th.ops = op :: rest ∧ th.pc.isPutMid = true ∧ r = phRec r.t th op
  pend : ∀ (t : Nat) (th : Thread) (op : Op) (rest : List Op), sys.threads[t]? = some th →
    th.ops = op :: rest → th.pc.isPutMid = true → phRec t th op ∈ lin
  invLt : ∀ (t : Nat) (th : Thread), sys.threads[t]? = some th → th.pc ≠ .start → th.inv < sys.clock

theorem isPutMid_ne_start {pc : PC} (h : pc.isPutMid = true) : pc ≠ .start := by
  intro e; subst e; simp [PC.isPutMid] at h

/-- a step inside an operation that neither linearizes nor returns -/
theorem HInv.silent {sys sys' : Sys} {lin : List OpRec} (h : HInv sys lin) {t : Nat} {th th' : Thread}
    (hth : sys.threads[t]? = some th) (hthreads : sys'.threads = sys.threads.set t th')
    (hhist : sys'.hist = sys.hist) (hclock : sys'.clock = sys.clock + 1)
    (hops : th'.ops = th.ops) (hidx : th'.idx = th.idx) (hmid : th'.pc.isPutMid = th.pc.isPutMid)
    (hinv : th.pc.isPutMid = true → th'.inv = th.inv) (hinv' : th'.inv ≤ sys.clock) :
    HInv sys' lin := by
  have hself : sys'.threads[t]? = some th' := by rw [hthreads]; exact getElem?_set_self' hth
  have hother : ∀ j, j ≠ t → sys'.threads[j]? = sys.threads[j]? := by
    intro j hj; rw [hthreads, List.getElem?_set_ne (Ne.symm hj)]
  have hph : ∀ op, th.pc.isPutMid = true → phRec t th' op = phRec t th op := by
    intro op hm; simp [phRec, hidx, hinv hm]
  constructor
  · exact h.strict
  · exact h.rt
  · intro r hr
    have := h.times r hr
    rw [hclock]; exact ⟨this.1, by omega⟩
  · exact h.nodup
  · rw [hhist]; exact h.hsorted
  · rw [hhist]; exact h.hlin
  · rw [hhist]
    intro r hr th0 h0
    by_cases e : r.t = t
    · rw [e, hself] at h0
      cases h0
      rw [hidx]
      exact h.hidx r hr th (by rw [e]; exact hth)
    · rw [hother _ e] at h0
      exact h.hidx r hr th0 h0
  · intro r hr
    rw [hhist]
    rcases h.src r hr with h1 | ⟨th0, op, rest, h0, ho, hm, hr'⟩
    · exact Or.inl h1
    · right
      by_cases e : r.t = t
      · rw [e, hth] at h0
        cases h0
        refine ⟨th', op, rest, by rw [e]; exact hself, by rw [hops]; exact ho, by rw [hmid]; exact hm, ?_⟩
        have e2 : phRec r.t th' op = phRec r.t th op := by rw [e]; exact hph op hm
        rw [e2]; exact hr'
      · exact ⟨th0, op, rest, by rw [hother _ e]; exact h0, ho, hm, hr'⟩
  · intro j thj op rest hj ho hm
    by_cases e : j = t
    · subst e
      rw [hself] at hj
      cases hj
      rw [hmid] at hm
      rw [hph op hm]
      exact h.pend j th op rest hth (by rw [← hops]; exact ho) hm
    · rw [hother j e] at hj
      exact h.pend j thj op rest hj ho hm
  · intro j thj hj hpc
    rw [hclock]
    by_cases e : j = t
    · subst e
      rw [hself] at hj
      cases hj
      omega
    · rw [hother j e] at hj
      have := h.invLt j thj hj hpc
      omega

/-- the first step of a `put` of an `emb:` key: the put is linearized here -/
theorem HInv.putStart {sys sys' : Sys} {lin : List OpRec} (h : HInv sys lin) {t : Nat}
    {th th' : Thread} {op : Op} {rest : List Op}
    (hth : sys.threads[t]? = some th) (hthreads : sys'.threads = sys.threads.set t th')
    (hhist : sys'.hist = sys.hist) (hclock : sys'.clock = sys.clock + 1)
    (hops' : th'.ops = op :: rest) (hidx : th'.idx = th.idx)
    (hold : th.pc.isPutMid = false) (hnew : th'.pc.isPutMid = true) (hinv' : th'.inv = sys.clock)
    (hres : resEquiv .ok (specRes (specOf lin) op)) : HInv sys' (lin ++ [phRec t th' op]) := by
  have hself : sys'.threads[t]? = some th' := by rw [hthreads]; exact getElem?_set_self' hth
  have hother : ∀ j, j ≠ t → sys'.threads[j]? = sys.threads[j]? := by
    intro j hj; rw [hthreads, List.getElem?_set_ne (Ne.symm hj)]
  constructor
  · exact (seqStrict_append _ _ _).mpr ⟨h.strict, hres⟩
  · refine List.pairwise_append.mpr ⟨h.rt, by simp, ?_⟩
    intro a ha b hb
    simp only [List.mem_singleton] at hb
    subst hb
    have := h.times a ha
    simp only [phRec, hinv']
    omega
  · intro r hr
    rw [hclock]
    simp only [List.mem_append, List.mem_singleton] at hr
    rcases hr with hr | hr
    · have := h.times r hr; exact ⟨this.1, by omega⟩
    · subst hr; simp [phRec, hinv']
  · refine List.nodup_append.mpr ⟨h.nodup, by simp, ?_⟩
    intro a ha b hb
    simp only [List.mem_singleton] at hb
    subst hb
    intro e
    have := (h.times a ha).2
    rw [e] at this
    simp [phRec, hinv'] at this
  · rw [hhist]; exact h.hsorted
  · rw [hhist]; intro r hr; exact List.mem_append_left _ (h.hlin r hr)
  · rw [hhist]
    intro r hr th0 h0
    by_cases e : r.t = t
    · rw [e, hself] at h0
      cases h0
      rw [hidx]
      exact h.hidx r hr th (by rw [e]; exact hth)
    · rw [hother _ e] at h0
      exact h.hidx r hr th0 h0
  · intro r hr
    rw [hhist]
    simp only [List.mem_append, List.mem_singleton] at hr
    rcases hr with hr | hr
    · rcases h.src r hr with h1 | ⟨th0, op0, rest0, h0, ho, hm, hr'⟩
      · exact Or.inl h1
      · right
        by_cases e : r.t = t
        · rw [e, hth] at h0
          cases h0
          rw [hold] at hm
          cases hm
        · exact ⟨th0, op0, rest0, by rw [hother _ e]; exact h0, ho, hm, hr'⟩
    · right
      subst hr
      exact ⟨th', op, rest, hself, hops', hnew, rfl⟩
  · intro j thj op0 rest0 hj ho hm
    by_cases e : j = t
    · subst e
      rw [hself] at hj
      cases hj
      rw [hops'] at ho
      cases ho
      exact List.mem_append_right _ (List.mem_singleton.mpr rfl)
    · rw [hother j e] at hj
      exact List.mem_append_left _ (h.pend j thj op0 rest0 hj ho hm)
  · intro j thj hj hpc
    rw [hclock]
    by_cases e : j = t
    · subst e
      rw [hself] at hj
      cases hj
      omega
    · rw [hother j e] at hj
      have := h.invLt j thj hj hpc
      omega

/-- the last step of an operation that is linearized at its last step -/
theorem HInv.done {sys sys' : Sys} {lin : List OpRec} (h : HInv sys lin) {t : Nat}
    {th th' : Thread} {op : Op} {r : Res} {inv : Nat}
    (hth : sys.threads[t]? = some th) (hthreads : sys'.threads = sys.threads.set t th')
    (hclock : sys'.clock = sys.clock + 1)
    (hhist : sys'.hist = sys.hist ++ [⟨t, th.idx, op, r, inv, sys.clock⟩])
    (hpc' : th'.pc = .start) (hidx : th'.idx = th.idx + 1)
    (hold : th.pc.isPutMid = false) (hinv : inv ≤ sys.clock)
    (hres : resEquiv r (specRes (specOf lin) op)) :
    HInv sys' (lin ++ [⟨t, th.idx, op, r, inv, sys.clock⟩]) := by
  have hself : sys'.threads[t]? = some th' := by rw [hthreads]; exact getElem?_set_self' hth
  have hother : ∀ j, j ≠ t → sys'.threads[j]? = sys.threads[j]? := by
    intro j hj; rw [hthreads, List.getElem?_set_ne (Ne.symm hj)]
  constructor
  · exact (seqStrict_append _ _ _).mpr ⟨h.strict, hres⟩
  · refine List.pairwise_append.mpr ⟨h.rt, by simp, ?_⟩
    intro a ha b hb
    simp only [List.mem_singleton] at hb
    subst hb
    have := h.times a ha
    simp only
    omega
  · intro x hx
    rw [hclock]
    simp only [List.mem_append, List.mem_singleton] at hx
    rcases hx with hx | hx
    · have := h.times x hx; exact ⟨this.1, by omega⟩
    · subst hx; exact ⟨hinv, by simp⟩
  · refine List.nodup_append.mpr ⟨h.nodup, by simp, ?_⟩
    intro a ha b hb
    simp only [List.mem_singleton] at hb
    subst hb
    intro e
    have := (h.times a ha).2
    rw [e] at this
    simp at this
  · rw [hhist]
    refine List.pairwise_append.mpr ⟨h.hsorted, by simp, ?_⟩
    intro a ha b hb
    simp only [List.mem_singleton] at hb
    subst hb
    exact (h.times a (h.hlin a ha)).2
  · rw [hhist]
    intro x hx
    simp only [List.mem_append, List.mem_singleton] at hx ⊢
    rcases hx with hx | hx
    · exact Or.inl (h.hlin x hx)
    · exact Or.inr hx
  · rw [hhist]
    intro x hx th0 h0
    simp only [List.mem_append, List.mem_singleton] at hx
    rcases hx with hx | hx
    · by_cases e : x.t = t
      · rw [e, hself] at h0
        cases h0
        have := h.hidx x hx th (by rw [e]; exact hth)
        omega
      · rw [hother _ e] at h0
        exact h.hidx x hx th0 h0
    · subst hx
      simp only at h0 ⊢
      rw [hself] at h0
      cases h0
      omega
  · intro x hx
    rw [hhist]
    simp only [List.mem_append, List.mem_singleton] at hx ⊢
    rcases hx with hx | hx
    · rcases h.src x hx with h1 | ⟨th0, op0, rest0, h0, ho, hm, hr'⟩
      · exact Or.inl (Or.inl h1)
      · right
        by_cases e : x.t = t
        · rw [e, hth] at h0
          cases h0
          rw [hold] at hm
          cases hm
        · exact ⟨th0, op0, rest0, by rw [hother _ e]; exact h0, ho, hm, hr'⟩
    · exact Or.inl (Or.inr hx)
  · intro j thj op0 rest0 hj ho hm
    by_cases e : j = t
    · subst e
      rw [hself] at hj
      cases hj
      exact absurd hpc' (isPutMid_ne_start hm)
    · rw [hother j e] at hj
      exact List.mem_append_left _ (h.pend j thj op0 rest0 hj ho hm)
  · intro j thj hj hpc
    rw [hclock]
    by_cases e : j = t
    · subst e
      rw [hself] at hj
      cases hj
      exact absurd hpc' hpc
    · rw [hother j e] at hj
      have := h.invLt j thj hj hpc
      omega

theorem seqStrict_map {f : OpRec → OpRec} (hf : ∀ r, (f r).op = r.op ∧ (f r).res = r.res) :
    ∀ (σ : Spec) (l : List OpRec), SeqStrict σ (l.map f) ↔ SeqStrict σ l
  | _, [] => by simp [SeqStrict]
  | σ, a :: l => by
    simp only [List.map_cons, SeqStrict, (hf a).1, (hf a).2]
    rw [seqStrict_map hf]

/-- the last step of a `put` of an `emb:` key: its record gets its return time -/
theorem HInv.putDone {sys sys' : Sys} {lin : List OpRec} (h : HInv sys lin) {t : Nat}
    {th th' : Thread} {op : Op} {rest : List Op}
    (hth : sys.threads[t]? = some th) (hthreads : sys'.threads = sys.threads.set t th')
    (hclock : sys'.clock = sys.clock + 1) (hops : th.ops = op :: rest)
    (hhist : sys'.hist = sys.hist ++ [⟨t, th.idx, op, .ok, th.inv, sys.clock⟩])
    (hpc' : th'.pc = .start) (hidx : th'.idx = th.idx + 1) (hold : th.pc.isPutMid = true) :
    HInv sys' (lin.map fun r => if r = phRec t th op then ⟨t, th.idx, op, .ok, th.inv, sys.clock⟩ else r) ∧
    specOf (lin.map fun r => if r = phRec t th op then ⟨t, th.idx, op, .ok, th.inv, sys.clock⟩ else r)
      = specOf lin := by
  have hself : sys'.threads[t]? = some th' := by rw [hthreads]; exact getElem?_set_self' hth
  have hother : ∀ j, j ≠ t → sys'.threads[j]? = sys.threads[j]? := by
    intro j hj; rw [hthreads, List.getElem?_set_ne (Ne.symm hj)]
  have hf : ∀ r : OpRec, (if r = phRec t th op then (⟨t, th.idx, op, .ok, th.inv, sys.clock⟩ : OpRec) else r).op = r.op ∧
      (if r = phRec t th op then (⟨t, th.idx, op, .ok, th.inv, sys.clock⟩ : OpRec) else r).res = r.res := by
    intro r
    by_cases e : r = phRec t th op
    · simp [e, phRec]
    · simp [e]
  have hinvlt : th.inv < sys.clock := h.invLt t th hth (isPutMid_ne_start hold)
  have hphmem : phRec t th op ∈ lin := h.pend t th op rest hth hops hold
  have hphhist : phRec t th op ∉ sys.hist := by
    intro hm
    have := h.hidx _ hm th (by simpa [phRec] using hth)
    simp [phRec] at this
  refine ⟨?_, ?_⟩
  constructor
  · exact (seqStrict_map hf _ _).mpr h.strict
  · rw [List.pairwise_map]
    refine List.Pairwise.imp_of_mem ?_ h.rt
    intro a b ha hb hab
    have ta := h.times a ha
    have tb := h.times b hb
    by_cases ea : a = phRec t th op <;> by_cases eb : b = phRec t th op
    · simp only [ea, eb, if_true]; omega
    · simp only [ea, eb, if_true, if_false]
      rw [ea] at hab; simpa [phRec] using hab
    · simp only [ea, eb, if_true, if_false]; omega
    · simp only [ea, eb, if_false]; exact hab
  · intro x hx
    rw [hclock]
    obtain ⟨r, hr, rfl⟩ := List.mem_map.mp hx
    by_cases e : r = phRec t th op
    · simp only [e, if_true]; omega
    · simp only [e, if_false]
      have := h.times r hr; exact ⟨this.1, by omega⟩
  · rw [List.nodup_iff_pairwise_ne, List.pairwise_map]
    refine List.Pairwise.imp_of_mem ?_ (List.nodup_iff_pairwise_ne.mp h.nodup)
    intro a b ha hb hab
    have ta := (h.times a ha).2
    have tb := (h.times b hb).2
    by_cases ea : a = phRec t th op <;> by_cases eb : b = phRec t th op
    · exact absurd (ea.trans eb.symm) hab
    · simp only [ea, eb, if_true, if_false]
      intro c; rw [← c] at tb; simp at tb
    · simp only [ea, eb, if_true, if_false]
      intro c; rw [c] at ta; simp at ta
    · simpa only [ea, eb, if_false] using hab
  · rw [hhist]
    refine List.pairwise_append.mpr ⟨h.hsorted, by simp, ?_⟩
    intro a ha b hb
    simp only [List.mem_singleton] at hb
    subst hb
    exact (h.times a (h.hlin a ha)).2
  · rw [hhist]
    intro x hx
    simp only [List.mem_append, List.mem_singleton] at hx
    rcases hx with hx | hx
    · refine List.mem_map.mpr ⟨x, h.hlin x hx, ?_⟩
      have : x ≠ phRec t th op := fun c => hphhist (c ▸ hx)
      simp [this]
    · subst hx
      exact List.mem_map.mpr ⟨phRec t th op, hphmem, by simp⟩
  · rw [hhist]
    intro x hx th0 h0
    simp only [List.mem_append, List.mem_singleton] at hx
    rcases hx with hx | hx
    · by_cases e : x.t = t
      · rw [e, hself] at h0
        cases h0
        have := h.hidx x hx th (by rw [e]; exact hth)
        omega
      · rw [hother _ e] at h0
        exact h.hidx x hx th0 h0
    · subst hx
      simp only at h0 ⊢
      rw [hself] at h0
      cases h0
      omega
  · intro x hx
    rw [hhist]
    obtain ⟨r, hr, rfl⟩ := List.mem_map.mp hx
    by_cases e : r = phRec t th op
    · left
      simp [e]
    · simp only [e, if_false]
      rcases h.src r hr with h1 | ⟨th0, op0, rest0, h0, ho, hm, hr'⟩
      · exact Or.inl (List.mem_append_left _ h1)
      · right
        by_cases et : r.t = t
        · rw [et, hth] at h0
          cases h0
          rw [hops] at ho
          cases ho
          rw [et] at hr'
          exact absurd hr' e
        · exact ⟨th0, op0, rest0, by rw [hother _ et]; exact h0, ho, hm, hr'⟩
  · intro j thj op0 rest0 hj ho hm
    by_cases e : j = t
    · subst e
      rw [hself] at hj
      cases hj
      exact absurd hpc' (isPutMid_ne_start hm)
    · rw [hother j e] at hj
      refine List.mem_map.mpr ⟨phRec j thj op0, h.pend j thj op0 rest0 hj ho hm, ?_⟩
      have : phRec j thj op0 ≠ phRec t th op := by
        intro c
        have := congrArg OpRec.t c
        simp [phRec] at this
        exact e this
      simp [this]
  · intro j thj hj hpc
    rw [hclock]
    by_cases e : j = t
    · subst e
      rw [hself] at hj
      cases hj
      exact absurd hpc' hpc
    · rw [hother j e] at hj
      have := h.invLt j thj hj hpc
      omega
  · unfold specOf
    rw [List.map_map]
    congr 1
    apply List.map_congr_left
    intro r _
    exact (hf r).1

/-! ### one step of the scheduler -/

/-- the invariant of runs without the log in which no two operations on one `emb:` key overlap:
    some linearization `lin` of the completed operations and the `put`s in progress explains the
    store (`SInv`) and respects real time (`HInv`) -/
def EInv (sys : Sys) : Prop := ∃ lin, SInv sys (specOf lin) ∧ HInv sys lin

theorem specOf_append (lin : List OpRec) (x : OpRec) :
    specOf (lin ++ [x]) = specApply (specOf lin) x.op := by
  simp [specOf, specRun_append]

theorem step_eq_stepOld {sys : Sys} (h : sys.store.walOn = false) (t : Nat) :
    step sys t = stepOld sys t := by
  unfold step
  split
  · rename_i h1; unfold stepOld; simp [h1]
  · rename_i th h1
    split
    · rename_i h2; unfold stepOld; simp [h1, h2]
    · simp [h]

def afterCont (sys : Sys) (t : Nat) (th : Thread) (op : Op) (s' : Store) (pc' : PC) : Sys :=
  { store := s',
    threads := sys.threads.set t { th with pc := pc', inv := if th.pc = .start then sys.clock else th.inv },
    hist := sys.hist, clock := sys.clock + 1, trace := sys.trace ++ [(t, op, th.pc)] }

def afterDone (sys : Sys) (t : Nat) (th : Thread) (op : Op) (rest : List Op) (s' : Store) (r : Res) : Sys :=
  { store := s',
    threads := sys.threads.set t { ops := rest, pc := .start, idx := th.idx + 1, inv := 0 },
    hist := sys.hist ++ [{ t := t, i := th.idx, op := op, res := r,
                           inv := if th.pc = .start then sys.clock else th.inv, ret := sys.clock }],
    clock := sys.clock + 1, trace := sys.trace ++ [(t, op, th.pc)] }

theorem stepOld_cont {sys : Sys} {t : Nat} {th : Thread} {op : Op} {rest : List Op} {s' : Store} {pc' : PC}
    (hth : sys.threads[t]? = some th) (hops : th.ops = op :: rest)
    (hstep : stepOp sys.store op th.pc = (s', .cont pc')) :
    stepOld sys t = afterCont sys t th op s' pc' := by
  unfold stepOld afterCont
  simp only [hth, hops, hstep]

theorem stepOld_done {sys : Sys} {t : Nat} {th : Thread} {op : Op} {rest : List Op} {s' : Store} {r : Res}
    (hth : sys.threads[t]? = some th) (hops : th.ops = op :: rest)
    (hstep : stepOp sys.store op th.pc = (s', .done r)) :
    stepOld sys t = afterDone sys t th op rest s' r := by
  unfold stepOld afterDone
  simp only [hth, hops, hstep]

theorem midKey_cases {th : Thread} {op : Op} {rest : List Op} {k : Key} (hops : th.ops = op :: rest)
    (hk : op.key? = some k) : th.midKey = none ∨ th.midKey = some k := by
  by_cases h : th.pc = .start
  · exact Or.inl (midKey_start h)
  · exact Or.inr (by rw [midKey_of_ne_start h hops, hk])

theorem inv_le_clock {sys : Sys} {lin : List OpRec} (hh : HInv sys lin) {t : Nat} {th : Thread}
    (hth : sys.threads[t]? = some th) : (if th.pc = .start then sys.clock else th.inv) ≤ sys.clock := by
  split
  · exact Nat.le_refl _
  · rename_i h; exact Nat.le_of_lt (hh.invLt t th hth h)

/-- a step inside an operation on `emb:` key `k` that neither linearizes nor returns -/
theorem EInv.cont_silent {sys : Sys} {lin : List OpRec} {t : Nat} {th : Thread} {op : Op}
    {rest : List Op} {s' : Store} {pc' : PC} {k : Key}
    (hs : SInv sys (specOf lin)) (hh : HInv sys lin) (hth : sys.threads[t]? = some th)
    (hops : th.ops = op :: rest) (hk : op.key? = some k) (he : k.cls = .emb)
    (hothers : ∀ (j : Nat) (thj : Thread), sys.threads[j]? = some thj → j ≠ t → thj.midKey ≠ some k)
    (hpc' : pc' ≠ .start) (hmid : pc'.isPutMid = th.pc.isPutMid) (hwal : s'.walOn = false)
    (hframe : ∀ k', k' ≠ k → kview s' (specOf lin) k' = kview sys.store (specOf lin) k')
    (huniq : LiveUnique s'.vocab) (hcache : (kview s' (specOf lin) k).ca = none)
    (hpend : (kview s' (specOf lin) k).pend op pc') :
    EInv (afterCont sys t th op s' pc') := by
  have hmk' : Thread.midKey { th with pc := pc', inv := if th.pc = .start then sys.clock else th.inv } = some k := by
    simp [Thread.midKey, hpc', hops, hk]
  refine ⟨lin, ?_, ?_⟩
  · refine hs.stepKey (sys' := afterCont sys t th op s' pc') hth rfl hwal (hs.nd t th hth)
      (midKey_cases hops hk) (Or.inr hmk') hothers hframe huniq (fun h => absurd he h) (fun _ => hcache) ?_ ?_
    · intro _ hn; rw [hmk'] at hn; cases hn
    · intro op0 rest0 ho _
      have : op0 = op := by
        have : op0 :: rest0 = op :: rest := ho.symm.trans hops
        exact (List.cons.inj this).1
      subst this
      exact ⟨hk, he, hpend⟩
  · refine hh.silent (sys' := afterCont sys t th op s' pc') hth rfl rfl rfl rfl rfl hmid ?_ (inv_le_clock hh hth)
    intro hm
    simp [isPutMid_ne_start hm]

/-- the first step of a `put` of `emb:` key `k`: linearized here -/
theorem EInv.cont_putStart {sys : Sys} {lin : List OpRec} {t : Nat} {th : Thread}
    {rest : List Op} {s' : Store} {pc' : PC} {k : Key} {v : Val}
    (hs : SInv sys (specOf lin)) (hh : HInv sys lin) (hth : sys.threads[t]? = some th)
    (hops : th.ops = .put k v :: rest) (he : k.cls = .emb) (hpc : th.pc = .start)
    (hothers : ∀ (j : Nat) (thj : Thread), sys.threads[j]? = some thj → j ≠ t → thj.midKey ≠ some k)
    (hmid : pc'.isPutMid = true) (hwal : s'.walOn = false)
    (hframe : ∀ k', k' ≠ k → kview s' (aset (specOf lin) k v) k' = kview sys.store (specOf lin) k')
    (huniq : LiveUnique s'.vocab) (hcache : (kview s' (aset (specOf lin) k v) k).ca = none)
    (hpend : (kview s' (aset (specOf lin) k v) k).pend (.put k v) pc') :
    EInv (afterCont sys t th (.put k v) s' pc') := by
  have hpc' : pc' ≠ .start := isPutMid_ne_start hmid
  have hmk' : Thread.midKey { th with pc := pc', inv := if th.pc = .start then sys.clock else th.inv } = some k := by
    simp [Thread.midKey, hpc', hops, Op.key?]
  refine ⟨lin ++ [phRec t { th with pc := pc', inv := if th.pc = .start then sys.clock else th.inv } (.put k v)], ?_, ?_⟩
  · have hσ : specOf (lin ++ [phRec t { th with pc := pc', inv := if th.pc = .start then sys.clock else th.inv } (.put k v)])
        = aset (specOf lin) k v := by
      rw [specOf_append]; rfl
    rw [hσ]
    refine hs.stepKey (sys' := afterCont sys t th (.put k v) s' pc') hth rfl hwal (hs.nd t th hth)
      (midKey_cases hops rfl) (Or.inr hmk') hothers hframe huniq (fun h => absurd he h) (fun _ => hcache) ?_ ?_
    · intro _ hn; rw [hmk'] at hn; cases hn
    · intro op0 rest0 ho _
      have : op0 = .put k v := by
        have : op0 :: rest0 = .put k v :: rest := ho.symm.trans hops
        exact (List.cons.inj this).1
      subst this
      exact ⟨rfl, he, hpend⟩
  · refine hh.putStart (sys' := afterCont sys t th (.put k v) s' pc') hth rfl rfl rfl hops rfl ?_ hmid ?_ ?_
    · simp [hpc, PC.isPutMid]
    · simp [hpc]
    · simp [specRes, specStep, resEquiv]

/-- the last step of an operation on key `k` that is linearized at its last step -/
theorem EInv.done_key {sys : Sys} {lin : List OpRec} {t : Nat} {th : Thread} {op : Op}
    {rest : List Op} {s' : Store} {r : Res} {k : Key}
    (hs : SInv sys (specOf lin)) (hh : HInv sys lin) (hth : sys.threads[t]? = some th)
    (hops : th.ops = op :: rest) (hk : op.key? = some k)
    (hothers : ∀ (j : Nat) (thj : Thread), sys.threads[j]? = some thj → j ≠ t → thj.midKey ≠ some k)
    (hold : th.pc.isPutMid = false) (hwal : s'.walOn = false)
    (hres : resEquiv r (specRes (specOf lin) op))
    (hframe : ∀ k', k' ≠ k → kview s' (specApply (specOf lin) op) k' = kview sys.store (specOf lin) k')
    (huniq : LiveUnique s'.vocab)
    (hplain : k.cls ≠ .emb → (kview s' (specApply (specOf lin) op) k).plainOK k)
    (hcache : k.cls = .emb → (kview s' (specApply (specOf lin) op) k).ca = none)
    (hquiet : k.cls = .emb → (kview s' (specApply (specOf lin) op) k).quiet) :
    EInv (afterDone sys t th op rest s' r) := by
  refine ⟨lin ++ [⟨t, th.idx, op, r, if th.pc = .start then sys.clock else th.inv, sys.clock⟩], ?_, ?_⟩
  · rw [specOf_append]
    refine hs.stepKey (sys' := afterDone sys t th op rest s' r) hth rfl hwal ?_
      (midKey_cases hops hk) (Or.inl (midKey_start rfl)) hothers hframe huniq hplain hcache
      (fun h _ => hquiet h) ?_
    · intro o ho
      exact hs.nd t th hth o (by rw [hops]; exact List.mem_cons_of_mem _ ho)
    · intro op0 rest0 _ hn; exact absurd rfl hn
  · exact hh.done (sys' := afterDone sys t th op rest s' r) hth rfl rfl rfl rfl rfl hold
      (inv_le_clock hh hth) hres

/-- a one-step operation that changes neither the store nor the specification -/
theorem EInv.done_stay {sys : Sys} {lin : List OpRec} {t : Nat} {th : Thread} {op : Op}
    {rest : List Op} {r : Res}
    (hs : SInv sys (specOf lin)) (hh : HInv sys lin) (hth : sys.threads[t]? = some th)
    (hops : th.ops = op :: rest) (hpc : th.pc = .start)
    (hres : resEquiv r (specRes (specOf lin) op))
    (hσ : specApply (specOf lin) op = specOf lin) :
    EInv (afterDone sys t th op rest sys.store r) := by
  refine ⟨lin ++ [⟨t, th.idx, op, r, if th.pc = .start then sys.clock else th.inv, sys.clock⟩], ?_, ?_⟩
  · rw [specOf_append]
    simp only [hσ]
    refine hs.stepStay (sys' := afterDone sys t th op rest sys.store r) hth rfl rfl ?_ hpc rfl
    intro o ho
    exact hs.nd t th hth o (by rw [hops]; exact List.mem_cons_of_mem _ ho)
  · exact hh.done (sys' := afterDone sys t th op rest sys.store r) hth rfl rfl rfl rfl rfl
      (by simp [hpc, PC.isPutMid]) (inv_le_clock hh hth) hres

/-- the last step of a `put` of `emb:` key `k` (linearized at its first step) -/
theorem EInv.done_put {sys : Sys} {lin : List OpRec} {t : Nat} {th : Thread}
    {rest : List Op} {s' : Store} {k : Key} {v : Val}
    (hs : SInv sys (specOf lin)) (hh : HInv sys lin) (hth : sys.threads[t]? = some th)
    (hops : th.ops = .put k v :: rest) (he : k.cls = .emb)
    (hothers : ∀ (j : Nat) (thj : Thread), sys.threads[j]? = some thj → j ≠ t → thj.midKey ≠ some k)
    (hold : th.pc.isPutMid = true) (hwal : s'.walOn = false)
    (hframe : ∀ k', k' ≠ k → kview s' (specOf lin) k' = kview sys.store (specOf lin) k')
    (huniq : LiveUnique s'.vocab) (hcache : (kview s' (specOf lin) k).ca = none)
    (hquiet : (kview s' (specOf lin) k).quiet) :
    EInv (afterDone sys t th (.put k v) rest s' .ok) := by
  have hpcne : th.pc ≠ .start := isPutMid_ne_start hold
  obtain ⟨h1, h2⟩ := hh.putDone (sys' := afterDone sys t th (.put k v) rest s' .ok) hth rfl rfl hops
    (by simp [afterDone, hpcne]) rfl rfl hold
  refine ⟨_, ?_, h1⟩
  rw [h2]
  refine hs.stepKey (sys' := afterDone sys t th (.put k v) rest s' .ok) hth rfl hwal ?_
    (midKey_cases hops rfl) (Or.inl (midKey_start rfl)) hothers hframe huniq (fun h => absurd he h)
    (fun _ => hcache) (fun _ _ => hquiet) ?_
  · intro o ho
    exact hs.nd t th hth o (by rw [hops]; exact List.mem_cons_of_mem _ ho)
  · intro op0 rest0 _ hn; exact absurd rfl hn

theorem startsExclusive_spec {sys : Sys} {t : Nat} {th : Thread} {op : Op} {rest : List Op} {k : Key}
    (hx : startsExclusive sys t = true) (hth : sys.threads[t]? = some th) (hpc : th.pc = .start)
    (hops : th.ops = op :: rest) (hk : op.key? = some k) (he : k.cls = .emb) :
    ∀ (j : Nat) (thj : Thread), sys.threads[j]? = some thj → thj.midKey ≠ some k := by
  simp [startsExclusive, hth, hpc, hops, hk, he] at hx
  intro j thj hj
  exact hx thj (List.mem_of_getElem? hj)

theorem pend_cases {w : KView} {op : Op} {pc : PC} (h : w.pend op pc) :
    (∃ k v id, op = .put k v ∧ pc = .putEmbAfterIndex id ∧ w.sp = some v ∧ w.ix = some id) ∨
    (∃ k v, op = .put k v ∧ pc = .putEmbAfterVector ∧ w.sp = some v ∧ w.ix.isSome = true ∧ w.sl = vecTag v.vec) ∨
    (∃ k id, op = .get k ∧ pc = .getEmbAfterIndex id ∧ w.quiet ∧ w.ix = some id) ∨
    (∃ k tt, op = .get k ∧ pc = .getEmbAfterVector tt ∧ w.quiet ∧ w.sl = some tt) ∨
    (∃ k, op = .delete k ∧ pc = .delEmbAfterVector ∧ w.sp.isSome = true ∧ w.md = w.sp) ∨
    (∃ k, op = .delete k ∧ pc = .delEmbAfterIndex ∧ w.sp.isSome = true ∧ w.md = w.sp ∧ w.ix = none) := by
  unfold KView.pend at h
  split at h
  · rename_i k v id; exact Or.inl ⟨k, v, id, rfl, rfl, h⟩
  · rename_i k v; exact Or.inr (Or.inl ⟨k, v, rfl, rfl, h⟩)
  · rename_i k id; exact Or.inr (Or.inr (Or.inl ⟨k, id, rfl, rfl, h⟩))
  · rename_i k tt; exact Or.inr (Or.inr (Or.inr (Or.inl ⟨k, tt, rfl, rfl, h⟩)))
  · rename_i k; exact Or.inr (Or.inr (Or.inr (Or.inr (Or.inl ⟨k, rfl, rfl, h⟩))))
  · rename_i k; exact Or.inr (Or.inr (Or.inr (Or.inr (Or.inr ⟨k, rfl, rfl, h⟩))))
  · exact absurd h id

/-- a step of a thread that is INSIDE an operation (on an `emb:` key) -/
theorem EInv.step_inside {sys : Sys} {lin : List OpRec} {t : Nat} {th : Thread} {op : Op}
    {rest : List Op} (hs : SInv sys (specOf lin)) (hh : HInv sys lin)
    (hth : sys.threads[t]? = some th) (hops : th.ops = op :: rest) (hpc : th.pc ≠ .start) :
    EInv (stepOld sys t) := by
  obtain ⟨k, hk, he, hp⟩ := hs.pend t th op rest hth hops hpc
  have hoth : ∀ (j : Nat) (thj : Thread), sys.threads[j]? = some thj → j ≠ t → thj.midKey ≠ some k := by
    intro j thj hj hne hm
    exact hne (hs.excl j t thj th k hj hth hm (by rw [midKey_of_ne_start hpc hops, hk]))
  have hca : aget sys.store.cache k = none := hs.embCache k he
  rcases pend_cases hp with ⟨k0, v, id, rfl, hpcv, h1, h2⟩ | ⟨k0, v, rfl, hpcv, h1, h2, h3⟩ |
    ⟨k0, id, rfl, hpcv, h1, h2⟩ | ⟨k0, tt, rfl, hpcv, h1, h2⟩ | ⟨k0, rfl, hpcv, h1, h2⟩ |
    ⟨k0, rfl, hpcv, h1, h2, h3⟩ <;>
    (simp only [Op.key?, Option.some.injEq] at hk; subst hk)
  · -- put: embeddings.set / delete
    have hstep : stepOp sys.store (.put k0 v) th.pc =
        ({ sys.store with slab := slabPut sys.store.slab id v.vec }, .cont .putEmbAfterVector) := by
      rw [hpcv]; rfl
    rw [stepOld_cont hth hops hstep]
    have h2' : idxGet sys.store.vocab k0 = some id := h2
    refine EInv.cont_silent hs hh hth hops rfl he hoth (by simp) (by rw [hpcv]; rfl) hs.walOff ?_ hs.uniq hca ?_
    · intro k' hne
      refine kview_frame rfl rfl rfl rfl ?_
      intro id' hid'
      refine aget_slabPut_ne _ _ ?_
      intro e
      subst e
      exact hne (idxGet_inj hid' h2')
    · refine ⟨h1, by simp [kview, h2'], ?_⟩
      simp [kview, h2', aget_slabPut_self]
  · -- put: metadata.set, return
    have hstep : stepOp sys.store (.put k0 v) th.pc =
        ({ sys.store with md := aset sys.store.md k0 v }, .done .ok) := by
      rw [hpcv]; rfl
    rw [stepOld_done hth hops hstep]
    refine EInv.done_put hs hh hth hops he hoth (by rw [hpcv]; rfl) hs.walOff ?_ hs.uniq hca ?_
    · intro k' hne
      refine kview_frame rfl rfl ?_ rfl (fun _ _ => rfl)
      simp [aget_aset, Ne.symm hne]
    · have h1' : aget (specOf lin) k0 = some v := h1
      unfold KView.quiet
      simp only [kview, h1']
      exact ⟨h2, by simp [aget_aset], h3⟩
  · -- get: embeddings.get
    have h2' : idxGet sys.store.vocab k0 = some id := h2
    cases hsl : aget sys.store.slab id with
    | some tt =>
      have hstep : stepOp sys.store (.get k0) th.pc = (sys.store, .cont (.getEmbAfterVector tt)) := by
        rw [hpcv]; simp [stepOp, hsl]
      rw [stepOld_cont hth hops hstep]
      refine EInv.cont_silent hs hh hth hops rfl he hoth (by simp) (by rw [hpcv]; rfl) hs.walOff
        (fun _ _ => rfl) hs.uniq hca ⟨h1, ?_⟩
      simp [kview, h2', hsl]
    | none =>
      have hstep : stepOp sys.store (.get k0) th.pc = (sys.store, .done (mdGet sys.store k0)) := by
        rw [hpcv]; simp [stepOp, hsl]
      rw [stepOld_done hth hops hstep]
      refine EInv.done_key hs hh hth hops rfl hoth (by rw [hpcv]; rfl) hs.walOff ?_
        (fun _ _ => rfl) hs.uniq (fun hn => absurd he hn) (fun _ => hca) (fun _ => h1)
      unfold KView.quiet at h1
      cases hsp : aget (specOf lin) k0 with
      | none =>
        simp only [kview, hsp] at h1
        rw [h2'] at h1
        exact absurd h1.1 (by simp)
      | some v0 =>
        simp only [kview, hsp] at h1
        simp [specRes, specStep, hsp, mdGet, h1.2.1, resEquiv]
  · -- get: metadata.get, return
    have hstep : stepOp sys.store (.get k0) th.pc = (sys.store,
        .done (.found { tag := ((aget sys.store.md k0).map (·.tag)).getD 0, vec := .good tt })) := by
      rw [hpcv]; rfl
    rw [stepOld_done hth hops hstep]
    refine EInv.done_key hs hh hth hops rfl hoth (by rw [hpcv]; rfl) hs.walOff ?_
      (fun _ _ => rfl) hs.uniq (fun hn => absurd he hn) (fun _ => hca) (fun _ => h1)
    unfold KView.quiet at h1
    cases hsp : aget (specOf lin) k0 with
    | none =>
      simp only [kview, hsp] at h1
      have : (kview sys.store (specOf lin) k0).sl = none := by simp [kview, h1.1]
      rw [this] at h2
      cases h2
    | some v0 =>
      simp only [kview, hsp] at h1
      have hv : vecTag v0.vec = some tt := by
        have h2' : (idxGet sys.store.vocab k0).bind (aget sys.store.slab) = some tt := h2
        rw [← h1.2.2]; exact h2'
      obtain ⟨tg, vc⟩ := v0
      cases vc <;> simp [vecTag] at hv
      subst hv
      simp [specRes, specStep, hsp, h1.2.1, resEquiv]
  · -- delete: index.remove
    have hstep : stepOp sys.store (.delete k0) th.pc =
        ({ sys.store with vocab := idxRemove sys.store.vocab k0 }, .cont .delEmbAfterIndex) := by
      rw [hpcv]; rfl
    rw [stepOld_cont hth hops hstep]
    refine EInv.cont_silent hs hh hth hops rfl he hoth (by simp) (by rw [hpcv]; rfl) hs.walOff ?_
      (hs.uniq.remove k0) hca ⟨h1, h2, idxRemove_self hs.uniq k0⟩
    intro k' hne
    have hix : idxGet (idxRemove sys.store.vocab k0) k' = idxGet sys.store.vocab k' := idxRemove_other _ hne
    unfold kview
    simp only [hix]
  · -- delete: metadata.delete, return
    have hstep : stepOp sys.store (.delete k0) th.pc =
        ({ sys.store with md := aerase sys.store.md k0 }, .done .ok) := by
      rw [hpcv]; rfl
    rw [stepOld_done hth hops hstep]
    have h1' : (aget (specOf lin) k0).isSome = true := h1
    obtain ⟨w, hw⟩ := Option.isSome_iff_exists.mp h1'
    have hσ : specApply (specOf lin) (.delete k0) = aerase (specOf lin) k0 := by
      simp [specApply, specStep, hw]
    refine EInv.done_key hs hh hth hops rfl hoth (by rw [hpcv]; rfl) hs.walOff ?_ ?_ hs.uniq
      (fun hn => absurd he hn) (fun _ => hca) ?_
    · simp [specRes, specStep, hw, resEquiv]
    · intro k' hne
      rw [hσ]
      refine kview_frame ?_ rfl ?_ rfl (fun _ _ => rfl)
      · simp [aget_aerase, Ne.symm hne]
      · simp [aget_aerase, Ne.symm hne]
    · intro _
      rw [hσ]
      have h3' : idxGet sys.store.vocab k0 = none := h3
      unfold KView.quiet
      simp [kview, aget_aerase, h3']

/-- the FIRST step of an operation -/
theorem EInv.step_start {sys : Sys} {lin : List OpRec} {t : Nat} {th : Thread} {op : Op}
    {rest : List Op} (hs : SInv sys (specOf lin)) (hh : HInv sys lin)
    (hth : sys.threads[t]? = some th) (hops : th.ops = op :: rest) (hpc : th.pc = .start)
    (hx : startsExclusive sys t = true) : EInv (stepOld sys t) := by
  have hndop : op.nonDurableStr = true := hs.nd t th hth op (by simp [hops])
  have hoth : ∀ k, op.key? = some k → ∀ (j : Nat) (thj : Thread), sys.threads[j]? = some thj →
      j ≠ t → thj.midKey ≠ some k := by
    intro k hk j thj hj _ hm
    exact startsExclusive_spec hx hth hpc hops hk (hs.mid_emb hj hm) j thj hj hm
  have hq : ∀ k, op.key? = some k → k.cls = .emb → (kview sys.store (specOf lin) k).quiet :=
    fun k hk he => hs.quiet k he (startsExclusive_spec hx hth hpc hops hk he)
  have hold : th.pc.isPutMid = false := by rw [hpc]; rfl
  cases op with
  | putD k v => simp [Op.nonDurableStr, Op.nonDurable] at hndop
  | delD k => simp [Op.nonDurableStr, Op.nonDurable] at hndop
  | scan p =>
    have hstep : stepOp sys.store (.scan p) th.pc = (sys.store, .done (.keys (scanNow sys.store p))) := by
      rw [hpc]; rfl
    rw [stepOld_done hth hops hstep]
    refine EInv.done_stay hs hh hth hops hpc ?_ rfl
    simp only [specRes, specStep, resEquiv]
    have hbp : validUtf8 p = true := by
      simpa [Op.nonDurableStr, Op.nonDurable, Op.scanStr] using hndop
    exact ⟨fun k hk => (hs.scan p hbp k).mp hk, fun k hk => (hs.scan p hbp k).mpr hk⟩
  | exists_ k =>
    have hstep : stepOp sys.store (.exists_ k) th.pc = (sys.store, .done (.bool (existsNow sys.store k))) := by
      rw [hpc]; rfl
    rw [stepOld_done hth hops hstep]
    refine EInv.done_stay hs hh hth hops hpc ?_ rfl
    have hv := hs.vis k
    simp only [KView.vis, kview] at hv
    simp only [specRes, specStep, resEquiv, Res.bool.injEq, hv]
    by_cases he : k.cls = .emb
    · have hc : aget sys.store.cache k = none := hs.embCache k he
      simp [existsNow, he, hc]
    · obtain ⟨h1, h2⟩ := hs.plain k he
      simp only [kview] at h1 h2
      by_cases hc : k.cls = .cache
      · simp only [hc, if_true] at h2
        simp [existsNow, hc, h1, h2.1]
      · simp only [hc, if_false] at h2
        cases hcl : k.cls <;> simp_all [existsNow]
  | get k =>
    by_cases he : k.cls = .emb
    · have hqk := hq k rfl he
      cases hi : idxGet sys.store.vocab k with
      | none =>
        have hstep : stepOp sys.store (.get k) th.pc = (sys.store, .done (mdGet sys.store k)) := by
          rw [hpc]; simp [stepOp, routerGet, he, hi]
        rw [stepOld_done hth hops hstep]
        refine EInv.done_stay hs hh hth hops hpc ?_ rfl
        unfold KView.quiet at hqk
        cases hsp : aget (specOf lin) k with
        | none =>
          simp only [kview, hsp] at hqk
          simp [specRes, specStep, hsp, mdGet, hqk.2, resEquiv]
        | some v0 =>
          simp only [kview, hsp, hi] at hqk
          exact absurd hqk.1 (by simp)
      | some id =>
        have hstep : stepOp sys.store (.get k) th.pc = (sys.store, .cont (.getEmbAfterIndex id)) := by
          rw [hpc]; simp [stepOp, routerGet, he, hi]
        rw [stepOld_cont hth hops hstep]
        exact EInv.cont_silent hs hh hth hops rfl he (hoth k rfl) (by simp) (by rw [hpc]; rfl) hs.walOff
          (fun _ _ => rfl) hs.uniq (hs.embCache k he) ⟨hqk, hi⟩
    · obtain ⟨h1, h2⟩ := hs.plain k he
      simp only [kview] at h1 h2
      by_cases hc : k.cls = .cache
      · have hstep : stepOp sys.store (.get k) th.pc = (sys.store,
            .done (match aget sys.store.cache k with | some v => .found v | none => .notFound)) := by
          rw [hpc]; simp [stepOp, routerGet, hc]; cases aget sys.store.cache k <;> rfl
        rw [stepOld_done hth hops hstep]
        refine EInv.done_stay hs hh hth hops hpc ?_ rfl
        simp only [hc, if_true] at h2
        simp only [specRes, specStep, h2.2]
        exact resEquiv_refl _
      · have hstep : stepOp sys.store (.get k) th.pc = (sys.store, .done (mdGet sys.store k)) := by
          rw [hpc]; cases hcl : k.cls <;> simp_all [stepOp, routerGet]
        rw [stepOld_done hth hops hstep]
        refine EInv.done_stay hs hh hth hops hpc ?_ rfl
        simp only [hc, if_false] at h2
        simp only [specRes, specStep, h2.2, mdGet]
        exact resEquiv_refl _
  | put k v =>
    have hσ : specApply (specOf lin) (.put k v) = aset (specOf lin) k v := rfl
    have hres : resEquiv .ok (specRes (specOf lin) (.put k v)) := by simp [specRes, specStep, resEquiv]
    by_cases he : k.cls = .emb
    · have hstep : stepOp sys.store (.put k v) th.pc =
          ({ sys.store with vocab := (idxGetOrCreate sys.store.vocab k).2 },
           .cont (.putEmbAfterIndex (idxGetOrCreate sys.store.vocab k).1)) := by
        rw [hpc]; simp [stepOp, routerPut, he]
      rw [stepOld_cont hth hops hstep]
      refine EInv.cont_putStart hs hh hth hops he hpc (hoth k rfl) rfl hs.walOff ?_
        (hs.uniq.getOrCreate k) (hs.embCache k he) ⟨?_, idxGetOrCreate_self _ _⟩
      · intro k' hne
        have hix : idxGet (idxGetOrCreate sys.store.vocab k).2 k' = idxGet sys.store.vocab k' :=
          idxGetOrCreate_other _ hne
        unfold kview
        simp only [hix, aget_aset, Ne.symm hne, if_false]
      · simp [kview, aget_aset]
    · obtain ⟨h1, h2⟩ := hs.plain k he
      simp only [kview] at h1 h2
      by_cases hc : k.cls = .cache
      · have hstep : stepOp sys.store (.put k v) th.pc =
            ({ sys.store with cache := aset sys.store.cache k v }, .done .ok) := by
          rw [hpc]; simp [stepOp, routerPut, hc]
        rw [stepOld_done hth hops hstep]
        simp only [hc, if_true] at h2
        refine EInv.done_key hs hh hth hops rfl (hoth k rfl) hold hs.walOff hres ?_ hs.uniq ?_
          (fun h => absurd h he) (fun h => absurd h he)
        · intro k' hne
          rw [hσ]
          refine kview_frame ?_ rfl rfl ?_ (fun _ _ => rfl)
          · simp [aget_aset, Ne.symm hne]
          · simp [aget_aset, Ne.symm hne]
        · intro _
          rw [hσ]
          refine ⟨h1, ?_⟩
          simp [kview, hc, h2.1, aget_aset]
      · have hstep : stepOp sys.store (.put k v) th.pc =
            ({ sys.store with md := aset sys.store.md k v }, .done .ok) := by
          rw [hpc]; cases hcl : k.cls <;> simp_all [stepOp, routerPut]
        rw [stepOld_done hth hops hstep]
        simp only [hc, if_false] at h2
        refine EInv.done_key hs hh hth hops rfl (hoth k rfl) hold hs.walOff hres ?_ hs.uniq ?_
          (fun h => absurd h he) (fun h => absurd h he)
        · intro k' hne
          rw [hσ]
          refine kview_frame ?_ rfl ?_ rfl (fun _ _ => rfl)
          · simp [aget_aset, Ne.symm hne]
          · simp [aget_aset, Ne.symm hne]
        · intro _
          rw [hσ]
          refine ⟨h1, ?_⟩
          simp [kview, hc, h2.1, aget_aset]
  | delete k =>
    by_cases he : k.cls = .emb
    · have hqk := hq k rfl he
      unfold KView.quiet at hqk
      cases hsp : aget (specOf lin) k with
      | none =>
        simp only [kview, hsp] at hqk
        have hstep : stepOp sys.store (.delete k) th.pc = (sys.store, .done .notFound) := by
          rw [hpc]; simp [stepOp, routerDelete, existsNow, he, hqk.1, hqk.2]
        rw [stepOld_done hth hops hstep]
        refine EInv.done_stay hs hh hth hops hpc ?_ ?_
        · simp [specRes, specStep, hsp, resEquiv]
        · simp [specApply, specStep, hsp]
      | some v0 =>
        simp only [kview, hsp] at hqk
        obtain ⟨id, hid⟩ := Option.isSome_iff_exists.mp hqk.1
        have hstep : stepOp sys.store (.delete k) th.pc =
            ({ sys.store with slab := aerase sys.store.slab id }, .cont .delEmbAfterVector) := by
          rw [hpc]; simp [stepOp, routerDelete, existsNow, he, hid]
        rw [stepOld_cont hth hops hstep]
        refine EInv.cont_silent hs hh hth hops rfl he (hoth k rfl) (by simp) (by rw [hpc]; rfl) hs.walOff
          ?_ hs.uniq (hs.embCache k he) ⟨by simp [kview, hsp], by simp [kview, hsp, hqk.2.1]⟩
        intro k' hne
        refine kview_frame rfl rfl rfl rfl ?_
        intro id' hid'
        have : id ≠ id' := by
          intro e
          subst e
          exact hne (idxGet_inj hid' hid)
        simp [aget_aerase, this]
    · obtain ⟨h1, h2⟩ := hs.plain k he
      simp only [kview] at h1 h2
      by_cases hc : k.cls = .cache
      · simp only [hc, if_true] at h2
        cases hv : aget sys.store.cache k with
        | none =>
          have hsp : aget (specOf lin) k = none := by rw [h2.2, hv]
          have hstep : stepOp sys.store (.delete k) th.pc = (sys.store, .done .notFound) := by
            rw [hpc]; simp [stepOp, routerDelete, existsNow, hc, hv]
          rw [stepOld_done hth hops hstep]
          refine EInv.done_stay hs hh hth hops hpc ?_ ?_
          · simp [specRes, specStep, hsp, resEquiv]
          · simp [specApply, specStep, hsp]
        | some w =>
          have hsp : aget (specOf lin) k = some w := by rw [h2.2, hv]
          have hσ : specApply (specOf lin) (.delete k) = aerase (specOf lin) k := by
            simp [specApply, specStep, hsp]
          have hstep : stepOp sys.store (.delete k) th.pc =
              ({ sys.store with cache := aerase sys.store.cache k }, .done .ok) := by
            rw [hpc]; simp [stepOp, routerDelete, existsNow, hc, hv]
          rw [stepOld_done hth hops hstep]
          refine EInv.done_key hs hh hth hops rfl (hoth k rfl) hold hs.walOff ?_ ?_ hs.uniq ?_
            (fun h => absurd h he) (fun h => absurd h he)
          · simp [specRes, specStep, hsp, resEquiv]
          · intro k' hne
            rw [hσ]
            refine kview_frame ?_ rfl rfl ?_ (fun _ _ => rfl)
            · simp [aget_aerase, Ne.symm hne]
            · simp [aget_aerase, Ne.symm hne]
          · intro _
            rw [hσ]
            refine ⟨h1, ?_⟩
            simp [kview, hc, h2.1, aget_aerase]
      · simp only [hc, if_false] at h2
        cases hv : aget sys.store.md k with
        | none =>
          have hsp : aget (specOf lin) k = none := by rw [h2.2, hv]
          have hstep : stepOp sys.store (.delete k) th.pc = (sys.store, .done .notFound) := by
            rw [hpc]; cases hcl : k.cls <;> simp_all [stepOp, routerDelete, existsNow]
          rw [stepOld_done hth hops hstep]
          refine EInv.done_stay hs hh hth hops hpc ?_ ?_
          · simp [specRes, specStep, hsp, resEquiv]
          · simp [specApply, specStep, hsp]
        | some w =>
          have hsp : aget (specOf lin) k = some w := by rw [h2.2, hv]
          have hσ : specApply (specOf lin) (.delete k) = aerase (specOf lin) k := by
            simp [specApply, specStep, hsp]
          have hstep : stepOp sys.store (.delete k) th.pc =
              ({ sys.store with md := aerase sys.store.md k }, .done .ok) := by
            rw [hpc]; cases hcl : k.cls <;> simp_all [stepOp, routerDelete, existsNow]
          rw [stepOld_done hth hops hstep]
          refine EInv.done_key hs hh hth hops rfl (hoth k rfl) hold hs.walOff ?_ ?_ hs.uniq ?_
            (fun h => absurd h he) (fun h => absurd h he)
          · simp [specRes, specStep, hsp, resEquiv]
          · intro k' hne
            rw [hσ]
            refine kview_frame ?_ rfl ?_ rfl (fun _ _ => rfl)
            · simp [aget_aerase, Ne.symm hne]
            · simp [aget_aerase, Ne.symm hne]
          · intro _
            rw [hσ]
            refine ⟨h1, ?_⟩
            simp [kview, hc, h2.1, aget_aerase]

theorem EInv.step {sys : Sys} (h : EInv sys) (t : Nat) (hx : startsExclusive sys t = true) :
    EInv (step sys t) := by
  obtain ⟨lin, hs, hh⟩ := h
  rw [step_eq_stepOld hs.walOff]
  cases hth : sys.threads[t]? with
  | none =>
    have : stepOld sys t = sys := by unfold stepOld; simp [hth]
    rw [this]; exact ⟨lin, hs, hh⟩
  | some th =>
    cases hops : th.ops with
    | nil =>
      have : stepOld sys t = sys := by unfold stepOld; simp [hth, hops]
      rw [this]; exact ⟨lin, hs, hh⟩
    | cons op rest =>
      by_cases hpc : th.pc = .start
      · exact EInv.step_start hs hh hth hops hpc hx
      · exact EInv.step_inside hs hh hth hops hpc

theorem EInv.init (progs : List ThreadProgram) (h : ∀ p ∈ progs, ∀ op ∈ p, op.nonDurableStr = true) :
    EInv (initSys false progs) := by
  have hthreads : ∀ (t : Nat) (th : Thread), (initSys false progs).threads[t]? = some th →
      th.pc = .start ∧ ∀ op ∈ th.ops, op.nonDurableStr = true := by
    intro t th hth
    simp only [initSys, List.getElem?_map, Option.map_eq_some_iff] at hth
    obtain ⟨p, hp, rfl⟩ := hth
    exact ⟨rfl, h p (List.mem_of_getElem? hp)⟩
  refine ⟨[], ?_, ?_⟩
  · constructor
    · rfl
    · intro t th hth; exact (hthreads t th hth).2
    · intro i j k hi; simp [initSys] at hi
    · intro k _
      simp [KView.plainOK, kview, initSys, specOf, specRun, idxGet, idxGetAux, aget]
    · intro k _; rfl
    · intro k _ _
      simp [KView.quiet, kview, initSys, specOf, specRun, idxGet, idxGetAux, aget]
    · intro t th op rest hth _ hpc
      exact absurd (hthreads t th hth).1 hpc
    · intro i j thi thj k hi _ hmi _
      rw [midKey_start (hthreads i thi hi).1] at hmi
      cases hmi
  · constructor
    · trivial
    · simp
    · intro r hr; cases hr
    · simp
    · simp [initSys]
    · intro r hr; simp [initSys] at hr
    · intro r hr; simp [initSys] at hr
    · intro r hr; cases hr
    · intro t th op rest hth _ hm
      rw [(hthreads t th hth).1] at hm
      simp [PC.isPutMid] at hm
    · intro t th hth hpc
      exact absurd (hthreads t th hth).1 hpc

theorem EInv.run {sys : Sys} (h : EInv sys) (sched : List Nat) (hx : NoEmbOverlapFrom sys sched = true) :
    EInv (runFrom sys sched) := by
  induction sched generalizing sys with
  | nil => exact h
  | cons t rest ih =>
    simp only [NoEmbOverlapFrom, Bool.and_eq_true] at hx
    exact ih (h.step t hx.1) hx.2

/-- at quiescence the linearization is a permutation of the history -/
theorem EInv.linearizable {sys : Sys} (h : EInv sys) (hq : quiescent sys = true) :
    ∃ order : List OpRec, order.Perm sys.hist ∧ SeqStrict [] order ∧ RespectsRealTime order ∧
      SInv sys (specRun [] (order.map (·.op))) := by
  obtain ⟨lin, hs, hh⟩ := h
  refine ⟨lin, ?_, hh.strict, ?_, hs⟩
  · have hn : sys.hist.Nodup := by
      rw [List.nodup_iff_pairwise_ne]
      refine List.Pairwise.imp ?_ hh.hsorted
      intro a b hab e
      rw [e] at hab
      exact Nat.lt_irrefl _ hab
    rw [List.perm_ext_iff_of_nodup hh.nodup hn]
    intro r
    constructor
    · intro hr
      rcases hh.src r hr with h1 | ⟨th, op, rest, hth, ho, _, _⟩
      · exact h1
      · simp only [quiescent, List.all_eq_true, List.isEmpty_iff] at hq
        rw [hq th (List.mem_of_getElem? hth)] at ho
        cases ho
    · exact hh.hlin r
  · refine List.Pairwise.imp ?_ hh.rt
    intro a b hab
    exact Nat.not_lt.mpr hab

/-- the coherence invariant read off a quiescent store: `get`, `exists` and `scan` show every key
    exactly as the specification state does -/
theorem SInv.view_quiescent {sys : Sys} {σ : Spec} (h : SInv sys σ) (hq : quiescent sys = true)
    (k : Key) : view sys.store k = (specRes σ (.get k), (aget σ k).isSome, (aget σ k).isSome) := by
  have hv := h.vis k
  simp only [KView.vis, kview] at hv
  have hscan : decide (k ∈ scanNow sys.store []) = (aget σ k).isSome := by
    have := h.scan [] rfl k
    simp only [List.mem_filter, pmatch, isPfx_nil_left, and_true, mem_keys_iff] at this
    cases hs : (aget σ k).isSome
    · rw [hs] at this; simpa using this
    · rw [hs] at this; simpa using this
  have hnomid : ∀ (t : Nat) (th : Thread), sys.threads[t]? = some th → th.midKey ≠ some k := by
    intro t th hth
    simp only [quiescent, List.all_eq_true, List.isEmpty_iff] at hq
    have := hq th (List.mem_of_getElem? hth)
    simp [Thread.midKey, this]
  unfold view
  rw [hscan]
  by_cases he : k.cls = .emb
  · have hc : aget sys.store.cache k = none := h.embCache k he
    have hqk := h.quiet k he hnomid
    unfold KView.quiet at hqk
    have hex : existsNow sys.store k = (aget σ k).isSome := by simp [existsNow, he, hv, hc]
    rw [hex]
    cases hsp : aget σ k with
    | none =>
      simp only [kview, hsp] at hqk
      simp [seqOp, seqOpAux, stepOp, routerGet, he, hqk.1, mdGet, hqk.2, specRes, specStep, hsp]
    | some v0 =>
      simp only [kview, hsp] at hqk
      obtain ⟨id, hid⟩ := Option.isSome_iff_exists.mp hqk.1
      have hsl : aget sys.store.slab id = vecTag v0.vec := by
        have := hqk.2.2; simpa [hid] using this
      obtain ⟨tg, vc⟩ := v0
      cases vc <;>
        simp [seqOp, seqOpAux, stepOp, routerGet, he, hid, mdGet, hqk.2.1, specRes, specStep, hsp, vecTag] at hsl ⊢ <;>
        simp [hsl, hqk.2.1]
  · obtain ⟨h1, h2⟩ := h.plain k he
    simp only [kview] at h1 h2
    by_cases hc : k.cls = .cache
    · simp only [hc, if_true] at h2
      have hex : existsNow sys.store k = (aget σ k).isSome := by simp [existsNow, hc, h2.2]
      rw [hex]
      simp only [seqOp, seqOpAux, stepOp, routerGet, hc, specRes, specStep, h2.2]
    · simp only [hc, if_false] at h2
      have hex : existsNow sys.store k = (aget σ k).isSome := by
        cases hcl : k.cls <;> simp_all [existsNow]
      rw [hex]
      have : (seqOp sys.store (.get k)).2 = mdGet sys.store k := by
        cases hcl : k.cls <;> simp_all [seqOp, seqOpAux, stepOp, routerGet]
      rw [this]
      simp only [mdGet, specRes, specStep, h2.2]

/-! ### `NoEmbOverlap` read off the history: operations on one `emb:` key are disjoint in time -/

structure OInv (sys : Sys) : Prop where
  pendAfter : ∀ a ∈ sys.hist, ∀ (t : Nat) (th : Thread) (k : Key), sys.threads[t]? = some th →
    th.midKey = some k → a.op.key? = some k → a.ret < th.inv
  disjoint : sys.hist.Pairwise (fun a b => ∀ k, a.op.key? = some k → b.op.key? = some k →
    k.cls = .emb → a.ret < b.inv)

theorem OInv.step {sys : Sys} {lin : List OpRec} (ho : OInv sys) (hs : SInv sys (specOf lin))
    (hh : HInv sys lin) (t : Nat) (hx : startsExclusive sys t = true) : OInv (step sys t) := by
  rw [step_eq_stepOld hs.walOff]
  cases hth : sys.threads[t]? with
  | none =>
    have : stepOld sys t = sys := by unfold stepOld; simp [hth]
    rw [this]; exact ho
  | some th =>
    cases hops : th.ops with
    | nil =>
      have : stepOld sys t = sys := by unfold stepOld; simp [hth, hops]
      rw [this]; exact ho
    | cons op rest =>
      have hret : ∀ a ∈ sys.hist, a.ret < sys.clock := fun a ha => (hh.times a (hh.hlin a ha)).2
      -- no other thread is inside an operation on the key of `op`
      have hoth : ∀ k, op.key? = some k → ∀ (j : Nat) (thj : Thread), sys.threads[j]? = some thj →
          j ≠ t → thj.midKey ≠ some k := by
        intro k hk j thj hj hne hm
        by_cases hpc : th.pc = .start
        · exact startsExclusive_spec hx hth hpc hops hk (hs.mid_emb hj hm) j thj hj hm
        · exact hne (hs.excl j t thj th k hj hth hm (by rw [midKey_of_ne_start hpc hops, hk]))
      cases hstep : stepOp sys.store op th.pc with
      | mk s' out =>
        cases out with
        | cont pc' =>
          rw [stepOld_cont hth hops hstep]
          have hself : (afterCont sys t th op s' pc').threads[t]? =
              some { th with pc := pc', inv := if th.pc = .start then sys.clock else th.inv } :=
            getElem?_set_self' hth
          constructor
          · intro a ha j thj k hj hm hak
            by_cases e : j = t
            · subst e
              rw [hself] at hj
              cases hj
              by_cases hpc : th.pc = .start
              · simpa [hpc] using hret a ha
              · simp only [hpc, if_false]
                have hm' : th.midKey = some k := by
                  obtain ⟨_, op0, rest0, ho0, hk0⟩ := midKey_some hm
                  have ho0' : th.ops = op0 :: rest0 := ho0
                  rw [midKey_of_ne_start hpc ho0', hk0]
                exact ho.pendAfter a ha j th k hth hm' hak
            · have hj' : sys.threads[j]? = some thj := by
                have : (afterCont sys t th op s' pc').threads[j]? = sys.threads[j]? :=
                  List.getElem?_set_ne (Ne.symm e)
                rw [this] at hj; exact hj
              exact ho.pendAfter a ha j thj k hj' hm hak
          · exact ho.disjoint
        | done r =>
          rw [stepOld_done hth hops hstep]
          have hself : (afterDone sys t th op rest s' r).threads[t]? =
              some { ops := rest, pc := .start, idx := th.idx + 1, inv := 0 } :=
            getElem?_set_self' hth
          constructor
          · intro a ha j thj k hj hm hak
            by_cases e : j = t
            · subst e
              rw [hself] at hj
              cases hj
              simp [Thread.midKey] at hm
            · have hj' : sys.threads[j]? = some thj := by
                have : (afterDone sys t th op rest s' r).threads[j]? = sys.threads[j]? :=
                  List.getElem?_set_ne (Ne.symm e)
                rw [this] at hj; exact hj
              have ha' : a ∈ sys.hist ++ [⟨t, th.idx, op, r, if th.pc = .start then sys.clock else th.inv, sys.clock⟩] := ha
              simp only [List.mem_append, List.mem_singleton] at ha'
              rcases ha' with ha' | ha'
              · exact ho.pendAfter a ha' j thj k hj' hm hak
              · subst ha'
                exact absurd hm (hoth k hak j thj hj' e)
          · show (sys.hist ++ [(⟨t, th.idx, op, r, if th.pc = .start then sys.clock else th.inv, sys.clock⟩ : OpRec)]).Pairwise _
            refine List.pairwise_append.mpr ⟨ho.disjoint, by simp, ?_⟩
            intro a ha b hb
            simp only [List.mem_singleton] at hb
            subst hb
            intro k hak hbk _
            by_cases hpc : th.pc = .start
            · simpa [hpc] using hret a ha
            · simp only [hpc, if_false]
              exact ho.pendAfter a ha t th k hth (by rw [midKey_of_ne_start hpc hops]; exact hbk) hak

theorem EInv.run_overlap {sys : Sys} (h : EInv sys) (ho : OInv sys) (sched : List Nat)
    (hx : NoEmbOverlapFrom sys sched = true) : OInv (runFrom sys sched) := by
  induction sched generalizing sys with
  | nil => exact ho
  | cons t rest ih =>
    simp only [NoEmbOverlapFrom, Bool.and_eq_true] at hx
    obtain ⟨lin, hs, hh⟩ := h
    exact ih (EInv.step ⟨lin, hs, hh⟩ t hx.1) (ho.step hs hh t hx.1) hx.2

theorem pairwise_or {α} {R : α → α → Prop} {l : List α} (h : l.Pairwise R) {a b : α} (ha : a ∈ l)
    (hb : b ∈ l) (hne : a ≠ b) : R a b ∨ R b a := by
  induction l with
  | nil => cases ha
  | cons x r ih =>
    rw [List.pairwise_cons] at h
    rcases List.mem_cons.mp ha with ea | ha' <;> rcases List.mem_cons.mp hb with eb | hb'
    · exact absurd (ea.trans eb.symm) hne
    · subst ea; exact Or.inl (h.1 b hb')
    · subst eb; exact Or.inr (h.1 a ha')
    · exact ih h.2 ha' hb'

end Neumann.KV
