import NeumannModel.Common.Proto
import NeumannModel.KV.Model
import NeumannModel.KV.Bloom
import NeumannModel.KV.Index
import NeumannModel.KV.Ring
import NeumannModel.KV.Slab
/-
  Line-protocol driver for the concurrent-store model (C11).

    run <wal:0|1> <programs> <schedule>
      programs : threads separated by `|`, ops by `;`  (`-` = empty program)
        op     : P,<key>,<val> | G,<key> | D,<key> | E,<key> | S,<prefix> | PD,<key>,<val> | DD,<key>
        key    : <p|g|t|c|e><id> (= user:<id> node:<id> table:<id> _cache:<id> emb:<id>) | x<hex of the UTF-8 bytes>
        prefix : * (= "") | <p|g|t|c|e> (= the class prefix) | x<hex>
        val    : <tag>.<n|g<t>|b<t>>
      schedule : comma separated thread numbers (`-` = empty)
    answer: trace <t>:<site>:<key>,…  | hist <t>.<i>:<inv>-<ret>:<res>,… | image <key>=<get>/<exists>/<inscan>,…
            | wal <records> | rimage <image of the store recovered from the log>   (last two only with wal=1)
            | q=<1 when every thread finished>
    runb <wal:0|1> <programs> <schedule>
      the same on a store built WITH a Bloom filter (`Bloom.runSchedB`, no hash collisions); the
      answer has one more field: covers=<1 when every visible key of the programs is in the filter>
    runbl <wal:0|1> <programs> <schedule>
      NOT the code: `filter.add` after the router call (`Bloom.runSchedBLate`)
    runi <wal:0|1> <programs> <schedule>
      the store at the granularity of the entity index's own locks (`Index.runSchedI true`): a put /
      put_durable of an `emb:` key whose lookup under the read locks missed parks at
      `index.get_or_create.after_miss` (one more entry in the trace) and takes the write locks in
      its next step
    runin <wal:0|1> <programs> <schedule>
      NOT the code: the write section of `try_get_or_create` appends without looking again
      (`Index.runSchedI false`)
    witness two_first_puts | witness recreate   (schedules of `runi` / `runin`)
    runr <wal:0|1> <collisions> <programs> <schedule>
      the store with the cache ring as it is (`Ring.runSchedR`, 256 slots): an index from the HASH of
      a key to a slot, `get` of a `_cache:` key in two steps - after an index hit it parks at
      `cache_ring.get.after_index` (one more entry in the trace) and reads the slot in its next step
      collisions : `-` (no two keys share a hash) | groups separated by `,`, the keys of a group
                   (which all have ONE hash) joined by `=`, e.g. `x5f63…=x5f63…,c7=c8`
    runrf <wal:0|1> <collisions> <programs> <schedule>
      the same ring at the granularity of a tree WITHOUT the yield point inside `CacheRing::get`
      (`Ring.runSchedRFused`: both lock sections of `get` in one scheduler step)
    runrn <wal:0|1> <collisions> <programs> <schedule>
      NOT the code: `get` without the comparison `entry.key == key` (`runSchedRGetWithoutKeyCheck`)
    witness ring_race | witness ring_collision  →  `<wal> <collisions> <programs> <schedule>` (for `runr` / `runrn`)
    witness emb_mixture | witness durable_order | witness delete_skip_if_absent | witness bloom_late_add
                    →  `<wal> <programs> <schedule>` of the Lean witness theorems
    seq <keepFree:0|1> <ops>
      a SEQUENTIAL history on the store whose embedding slab is modelled as it is (`Slab.sRun`: index
      id ↦ slot, free list, bump pointer) with `TensorStore::clear`
        ops : separated by `;` : P,<key>,<val> | G,<key> | D,<key> | E,<key> | CLR
      keepFree = 1 is NOT the code: `EmbeddingSlab::clear` without `free_slots.clear()`
      answer: res <result of each op>,… | slots <live emb key>=<slot>,… | free <free list, top first> | wpos <n> | count <n>
    witness clear_keeps_free_list  →  `<ops>` (for `seq`)
    lin <hist>  — not implemented (answers bad-op); the harness has its own Wing–Gong checker.
-/
open Neumann Neumann.Proto Neumann.KV

def clsChar : KeyClass → String
  | .plain => "p" | .graph => "g" | .table => "t" | .cache => "c" | .emb => "e"

def parseCls (c : Char) : Option KeyClass :=
  if c = 'p' then some .plain else if c = 'g' then some .graph else if c = 't' then some .table
  else if c = 'c' then some .cache else if c = 'e' then some .emb else none

def allClasses : List KeyClass := [.plain, .graph, .table, .cache, .emb]

def hexVal (c : Char) : Option Nat :=
  if '0' ≤ c ∧ c ≤ '9' then some (c.toNat - 48)
  else if 'a' ≤ c ∧ c ≤ 'f' then some (c.toNat - 87) else none

def parseHex : List Char → Option (List Nat)
  | [] => some []
  | a :: b :: r => do
      let x ← hexVal a
      let y ← hexVal b
      let rest ← parseHex r
      pure ((16 * x + y) :: rest)
  | _ => none

def hexDigit (n : Nat) : Char := if n < 10 then Char.ofNat (48 + n) else Char.ofNat (87 + n)

def showHex (bs : List Nat) : String := String.ofList (bs.flatMap fun b => [hexDigit (b / 16), hexDigit (b % 16)])

/-- canonical decimal: digits only, no leading zero -/
def isDecimal (bs : List Nat) : Bool :=
  !bs.isEmpty && bs.all (fun b => 48 ≤ b && b ≤ 57) && (bs.length == 1 || bs.head? != some 48)

/-- `<p|g|t|c|e><digits>` = `user:` / `node:` / `table:` / `_cache:` / `emb:` + the digits; `x<hex>` = any bytes -/
def parseBytes (s : String) : Option (List Nat) :=
  match s.toList with
  | 'x' :: rest => parseHex rest
  | c :: rest => do
      let cl ← parseCls c
      let ds := rest.map Char.toNat
      if isDecimal ds then pure (clsPrefix cl ++ ds) else none
  | [] => none

def parseKey (s : String) : Option Key := (parseBytes s).map Key.mk

def stripPfx : List Nat → List Nat → Option (List Nat)
  | [], k => some k
  | _ :: _, [] => none
  | a :: p, b :: k => if a = b then stripPfx p k else none

def showBytes (bs : List Nat) : String :=
  match allClasses.filterMap (fun c => (stripPfx (clsPrefix c) bs).bind fun r =>
      if isDecimal r then some (clsChar c ++ String.ofList (r.map Char.ofNat)) else none) with
  | a :: _ => a
  | [] => "x" ++ showHex bs

def showKey (k : Key) : String := showBytes k.bytes

/-- a scan prefix: `*` = "", a class letter = the class prefix, `x<hex>` = any bytes -/
def parsePfx (s : String) : Option (List Nat) :=
  if s = "*" then some [] else
  match s.toList with
  | [ch] => (parseCls ch).map clsPrefix
  | 'x' :: rest => parseHex rest
  | _ => none

def showPfx (p : List Nat) : String :=
  if p.isEmpty then "*" else
  match allClasses.filter (fun c => clsPrefix c = p) with
  | c :: _ => clsChar c
  | [] => "x" ++ showHex p

def parseVec (s : String) : Option VecF :=
  match s.toList with
  | ['n'] => some .none
  | 'g' :: rest => (String.ofList rest).toNat?.map .good
  | 'b' :: rest => (String.ofList rest).toNat?.map .bad
  | _ => none

def showVec : VecF → String
  | .none => "n" | .good t => s!"g{t}" | .bad t => s!"b{t}"

def parseVal (s : String) : Option Val :=
  match s.splitOn "." with
  | [a, b] => do
      let t ← a.toNat?
      let v ← parseVec b
      pure ⟨t, v⟩
  | _ => none

def showVal (v : Val) : String := s!"{v.tag}.{showVec v.vec}"

def parseOp (s : String) : Option Op :=
  match s.splitOn "," with
  | ["P", k, v] => do pure (.put (← parseKey k) (← parseVal v))
  | ["PD", k, v] => do pure (.putD (← parseKey k) (← parseVal v))
  | ["G", k] => (parseKey k).map .get
  | ["D", k] => (parseKey k).map .delete
  | ["DD", k] => (parseKey k).map .delD
  | ["E", k] => (parseKey k).map .exists_
  | ["S", p] => (parsePfx p).map .scan
  | _ => none

def parseProg (s : String) : Option (List Op) :=
  if s = "-" then some [] else (s.splitOn ";").mapM parseOp

def parseProgs (s : String) : Option (List (List Op)) := (s.splitOn "|").mapM parseProg

/-- byte-wise order of the key strings (Rust's `String: Ord`) -/
def keyLe (a b : Key) : Bool := bleq a.bytes b.bytes

def sortKeys (ks : List Key) : List Key := (ks.mergeSort keyLe).eraseDups

def showRes : Res → String
  | .ok => "ok" | .notFound => "nf"
  | .found v => "v" ++ showVal v
  | .bool b => if b then "T" else "F"
  | .keys ks => "k[" ++ "+".intercalate ((sortKeys ks).map showKey) ++ "]"

def siteOf (op : Op) : PC → String
  | .start => (match op with
      | .put .. => "store.put" | .get .. => "store.get" | .delete .. => "store.delete"
      | .exists_ .. => "store.exists" | .scan .. => "store.scan"
      | .putD .. => "store.put_durable" | .delD .. => "store.delete_durable")
  | .putEmbAfterIndex _ => "router.put.emb.after_index"
  | .putEmbAfterVector => "router.put.emb.after_vector"
  | .getEmbAfterIndex _ => "router.get.emb.after_index"
  | .getEmbAfterVector _ => "router.get.emb.after_vector"
  | .delEmbAfterVector => "router.delete.emb.after_vector"
  | .delEmbAfterIndex => "router.delete.emb.after_index"
  | .putDAfterLog => "router.put_durable.after_log"
  | .delDAfterLog => "router.delete_durable.after_log"

def opKeyStr : Op → String
  | .scan p => showPfx p
  | .put k _ | .get k | .delete k | .exists_ k | .putD k _ | .delD k => showKey k

def showEntry : Entry → String
  | .metaSet k v => s!"MS:{showKey k}:{showVal v}"
  | .metaDel k => s!"MD:{showKey k}"
  | .embSet id v => s!"ES:{id}:{showVec v}"
  | .embDel id => s!"ED:{id}"
  | .entRemove k => s!"ER:{showKey k}"

def joinOr (xs : List String) : String := if xs.isEmpty then "-" else ",".intercalate xs

def keyUniverse (progs : List (List Op)) : List Key :=
  sortKeys ((progs.flatten).filterMap Op.key?)

def showImage (s : Store) (ks : List Key) : String :=
  joinOr (ks.map fun k =>
    let v := view s k
    s!"{showKey k}={showRes v.1}/{if v.2.1 then "T" else "F"}/{if v.2.2 then "T" else "F"}")

def showOp : Op → String
  | .put k v => s!"P,{showKey k},{showVal v}"
  | .putD k v => s!"PD,{showKey k},{showVal v}"
  | .get k => s!"G,{showKey k}"
  | .delete k => s!"D,{showKey k}"
  | .delD k => s!"DD,{showKey k}"
  | .exists_ k => s!"E,{showKey k}"
  | .scan p => s!"S,{showPfx p}"

def showProgs (ps : List (List Op)) : String :=
  "|".intercalate (ps.map fun p => if p.isEmpty then "-" else ";".intercalate (p.map showOp))

def showView (k : Key) (v : Res × Bool × Bool) : String :=
  s!"{showKey k}={showRes v.1}/{if v.2.1 then "T" else "F"}/{if v.2.2 then "T" else "F"}"

def showRun (w : String) (progs : List (List Op)) (sys : Sys) (image : Option String := none) : String :=
  let ks := keyUniverse progs
  let tr := joinOr (sys.trace.map fun (t, op, pc) => s!"{t}:{siteOf op pc}:{opKeyStr op}")
  let hi := joinOr (sys.hist.map fun r => s!"{r.t}.{r.i}:{r.inv}-{r.ret}:{showRes r.res}")
  let base := s!"trace {tr} | hist {hi} | image {image.getD (showImage sys.store ks)}"
  let walPart :=
    if w = "1" then
      s!" | wal {joinOr (sys.store.wal.map showEntry)} | rimage {showImage (recover sys.store.wal) ks}"
    else ""
  base ++ walPart ++ s!" | q={if quiescent sys then 1 else 0}"

def siteOfI (op : Op) : IPC → String
  | .hook pc => siteOf op pc
  | .idxMiss _ => "index.get_or_create.after_miss"

/-- the run of the index-granularity machine, rendered as `showRun` renders `Sys` -/
def showRunI (w : String) (progs : List (List Op)) (sys : ISys) : String :=
  let ks := keyUniverse progs
  let tr := joinOr (sys.trace.map fun (t, op, pc) => s!"{t}:{siteOfI op pc}:{opKeyStr op}")
  let hi := joinOr (sys.hist.map fun r => s!"{r.t}.{r.i}:{r.inv}-{r.ret}:{showRes r.res}")
  let base := s!"trace {tr} | hist {hi} | image {showImage sys.store ks}"
  let walPart :=
    if w = "1" then
      s!" | wal {joinOr (sys.store.wal.map showEntry)} | rimage {showImage (recover sys.store.wal) ks}"
    else ""
  base ++ walPart ++ s!" | q={if quiescentI sys then 1 else 0}"


/-- an injective code of a byte string (bytes < 256): base 257, digits 1..256 -/
def encodeBytes (bs : List Nat) : Nat := bs.foldl (fun a b => a * 257 + b + 1) 0

/-- the hash function of a run: the keys of one group share a hash, every other key has its own -/
def hashOfGroups (groups : List (List Key)) (k : Key) : Nat :=
  match groups.findIdx? (fun g => g.contains k) with
  | some i => i
  | none => groups.length + encodeBytes k.bytes

def parseGroups (s : String) : Option (List (List Key)) :=
  if s = "-" then some [] else (s.splitOn ",").mapM fun g => (g.splitOn "=").mapM parseKey

def showGroups (gs : List (List Key)) : String :=
  if gs.isEmpty then "-" else ",".intercalate (gs.map fun g => "=".intercalate (g.map showKey))

def ringCap : Nat := 256

def siteOfR (op : Op) : RPC → String
  | .hook pc => siteOf op pc
  | .ringGetAfterIndex _ => "cache_ring.get.after_index"

/-- the run of the ring-granularity machine, rendered as `showRun` renders `Sys` -/
def showRunR (c : RingCfg) (w : String) (progs : List (List Op)) (sys : RSys) : String :=
  let ks := keyUniverse progs
  let tr := joinOr (sys.trace.map fun (t, op, pc) => s!"{t}:{siteOfR op pc}:{opKeyStr op}")
  let hi := joinOr (sys.hist.map fun r => s!"{r.t}.{r.i}:{r.inv}-{r.ret}:{showRes r.res}")
  let img := joinOr (ks.map fun k => showView k (viewR c sys.store k))
  let base := s!"trace {tr} | hist {hi} | image {img}"
  let walPart :=
    if w = "1" then
      s!" | wal {joinOr (sys.store.base.wal.map showEntry)} | rimage {showImage (recover sys.store.base.wal) ks}"
    else ""
  base ++ walPart ++ s!" | q={if quiescentR sys then 1 else 0}"

def parseSOp (s : String) : Option SOp :=
  if s = "CLR" then some .clear else
  match s.splitOn "," with
  | ["P", k, v] => do pure (.put (← parseKey k) (← parseVal v))
  | ["G", k] => (parseKey k).map .get
  | ["D", k] => (parseKey k).map .delete
  | ["E", k] => (parseKey k).map .exists_
  | _ => none

def showSOp : SOp → String
  | .put k v => s!"P,{showKey k},{showVal v}"
  | .get k => s!"G,{showKey k}"
  | .delete k => s!"D,{showKey k}"
  | .exists_ k => s!"E,{showKey k}"
  | .clear => "CLR"

def sopKey? : SOp → Option Key
  | .put k _ | .get k | .delete k | .exists_ k => some k
  | .clear => none

def showSeq (ops : List SOp) (r : SStore × List Res) : String :=
  let ks := sortKeys (ops.filterMap sopKey?)
  let slots := ks.filterMap fun k => (sSlot r.1 k).map fun sl => s!"{showKey k}={sl}"
  s!"res {joinOr (r.2.map showRes)} | slots {joinOr slots} | free {joinOr (r.1.es.free.map toString)} | wpos {r.1.es.wpos} | count {r.1.es.count}"

def kvStep (_ : Unit) (line : String) : Unit × String :=
  let bad := ((), "bad-op")
  match words line with
  | ["run", w, ps, sc] =>
      match parseProgs ps, parseNats sc with
      | some progs, some sched =>
          if w ≠ "0" ∧ w ≠ "1" then bad else
          ((), showRun w progs (runSched (w = "1") progs sched))
      | _, _ => bad
  | ["runi", w, ps, sc] =>
      match parseProgs ps, parseNats sc with
      | some progs, some sched =>
          if w ≠ "0" ∧ w ≠ "1" then bad else
          ((), showRunI w progs (runSchedI true (w = "1") progs sched))
      | _, _ => bad
  | ["runin", w, ps, sc] =>
      match parseProgs ps, parseNats sc with
      | some progs, some sched =>
          if w ≠ "0" ∧ w ≠ "1" then bad else
          ((), showRunI w progs (runSchedI false (w = "1") progs sched))
      | _, _ => bad
  | [cmd, w, gs, ps, sc] =>
      if cmd ≠ "runr" ∧ cmd ≠ "runrn" ∧ cmd ≠ "runrf" then bad else
      match parseGroups gs, parseProgs ps, parseNats sc with
      | some groups, some progs, some sched =>
          if w ≠ "0" ∧ w ≠ "1" then bad else
          let c : RingCfg := { hash := hashOfGroups groups, pick := fun _ => 0, keyCheck := cmd ≠ "runrn" }
          if cmd = "runrf" then ((), showRunR c w progs (runSchedRFused c ringCap (w = "1") progs sched)) else
          ((), showRunR c w progs (runSchedR c ringCap (w = "1") progs sched))
      | _, _, _ => bad
  | [cmd, w, ps, sc] =>
      if cmd ≠ "runb" ∧ cmd ≠ "runbl" then bad else
      match parseProgs ps, parseNats sc with
      | some progs, some sched =>
          if w ≠ "0" ∧ w ≠ "1" then bad else
          let b := if cmd = "runb" then runSchedB (fun _ => false) (w = "1") progs sched
                   else runSchedBLate (fun _ => false) (w = "1") progs sched
          let img := joinOr ((keyUniverse progs).map fun k => showView k (viewB (fun _ => false) b k))
          ((), showRun w progs b.sys (some img) ++ s!" | covers={if coversOn b (keyUniverse progs) then 1 else 0}")
      | _, _ => bad
  | ["seq", kf, os] =>
      if kf ≠ "0" ∧ kf ≠ "1" then bad else
      match (os.splitOn ";").mapM parseSOp with
      | some ops => ((), showSeq ops (sRun (kf = "1") ops))
      | none => bad
  | ["witness", "clear_keeps_free_list"] => ((), ";".intercalate (clearKeepsFreeListOps.map showSOp))
  | ["witness", "emb_mixture"] => ((), s!"0 {showProgs embMixtureProgs} {showNats embMixtureSched}")
  | ["witness", "durable_order"] => ((), s!"1 {showProgs durableOrderProgs} {showNats durableOrderSched}")
  | ["witness", "delete_skip_if_absent"] => ((), s!"1 {showProgs putDeleteAbsentProgs} {showNats putDeleteAbsentSched}")
  | ["witness", "two_first_puts"] => ((), s!"0 {showProgs twoFirstPutsProgs} {showNats twoFirstPutsSched}")
  | ["witness", "recreate"] => ((), s!"0 {showProgs recreateProgs} {showNats recreateSched}")
  | ["witness", "ring_race"] => ((), s!"0 - {showProgs ringRaceProgs} {showNats ringRaceSched}")
  | ["witness", "ring_collision"] =>
      ((), s!"0 {showGroups [[kC1, kC2]]} {showProgs ringCollisionProgs} {showNats ringCollisionSched}")
  | ["witness", "bloom_late_add"] => ((), s!"0 {showProgs lateAddProgs} {showNats lateAddSched}")
  | _ => bad

def main : IO Unit := run kvStep ()
