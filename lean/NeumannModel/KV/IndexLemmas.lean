import NeumannModel.KV.Index
import NeumannModel.KV.EmbLemmas
/-
  C11 — `try_get_or_create` at the granularity of the index's own locks: the invariant
  "a key has at most one live entity id" of every step of every interleaving (core Lean only).
-/
namespace Neumann.KV

/-! ### the write section WITH the double-check is `idxGetOrCreate` -/

theorem idxCreateLocked_recheck (v : List (Key × Bool)) (k : Key) :
    idxCreateLocked true v k = idxGetOrCreate v k := by
  simp [idxCreateLocked]

/-! ### one coarse step keeps the slabs well-formed -/

theorem StoreWF.init (w : Bool) : StoreWF { walOn := w } := by
  constructor
  · intro i j k hi; simp at hi
  · intro k _; rfl

theorem StoreWF.frame {s s' : Store} (h : StoreWF s) (hv : s'.vocab = s.vocab) (hc : s'.cache = s.cache) :
    StoreWF s' := by
  constructor
  · rw [hv]; exact h.uniq
  · rw [hc]; exact h.cacheOnly

theorem StoreWF.routerPut {s : Store} (h : StoreWF s) (k : Key) (v : Val) : StoreWF (routerPut s k v).1 := by
  unfold Neumann.KV.routerPut
  split
  · exact ⟨LiveUnique.getOrCreate h.uniq k, h.cacheOnly⟩
  · rename_i hc
    refine ⟨h.uniq, ?_⟩
    intro k' hk'
    simp only [aget_aset]
    split
    · rename_i e; subst e; exact absurd hc hk'
    · exact h.cacheOnly k' hk'
  · exact h.frame rfl rfl

theorem StoreWF.routerGet {s : Store} (h : StoreWF s) (k : Key) : StoreWF (routerGet s k).1 := by
  unfold Neumann.KV.routerGet
  split
  · split <;> exact h
  · exact h
  · exact h

theorem StoreWF.routerDelete {s : Store} (h : StoreWF s) (k : Key) : StoreWF (routerDelete s k).1 := by
  unfold Neumann.KV.routerDelete
  split
  · exact h
  · split
    · exact h.frame rfl rfl
    · refine ⟨h.uniq, ?_⟩
      intro k' hk'
      simp only [aget_aerase]
      split
      · rfl
      · exact h.cacheOnly k' hk'
    · exact h.frame rfl rfl

theorem StoreWF.logPut {s : Store} (h : StoreWF s) (k : Key) (v : Val) : StoreWF (logPut s k v) := by
  unfold Neumann.KV.logPut
  split
  · exact h
  · split
    · exact h.frame rfl rfl
    · split
      · exact h.frame rfl rfl
      · exact ⟨LiveUnique.getOrCreate h.uniq k, h.cacheOnly⟩

theorem StoreWF.logDelete {s : Store} (h : StoreWF s) (k : Key) : StoreWF (logDelete s k) := by
  unfold Neumann.KV.logDelete
  split
  · exact h
  · split <;> exact h.frame rfl rfl

/-- EVERY step of `Model.stepOp` - whatever the operation and the program counter - keeps "at most
    one live id per key": the index changes through `idxGetOrCreate` and `idxRemove` alone -/
theorem StoreWF.stepOp {s : Store} (h : StoreWF s) (op : Op) (pc : PC) : StoreWF (stepOp s op pc).1 := by
  unfold Neumann.KV.stepOp
  split
  all_goals first
    | exact h
    | exact h.routerPut _ _
    | exact h.routerGet _
    | exact h.routerDelete _
    | exact h.frame rfl rfl
    | exact ⟨LiveUnique.remove h.uniq _, h.cacheOnly⟩
    | (split
       · first | exact h.routerPut _ _ | exact h.routerDelete _
       · first | exact h.logPut _ _ | exact h.logDelete _)
    | (split <;> exact h)

/-- the step from the write locks on, WITH the double-check -/
theorem StoreWF.lockedStep {s : Store} (h : StoreWF s) (op : Op) (pc : PC) :
    StoreWF (lockedStep true s op pc).1 := by
  unfold Neumann.KV.lockedStep
  split
  · rw [idxCreateLocked_recheck]; exact ⟨LiveUnique.getOrCreate h.uniq _, h.cacheOnly⟩
  · rw [idxCreateLocked_recheck]; exact ⟨LiveUnique.getOrCreate h.uniq _, h.cacheOnly⟩
  · rw [idxCreateLocked_recheck]; exact ⟨LiveUnique.getOrCreate h.uniq _, h.cacheOnly⟩
  · exact h

theorem StoreWF.stepOpI {s : Store} (h : StoreWF s) (op : Op) (pc : IPC) :
    StoreWF (stepOpI true s op pc).1 := by
  unfold Neumann.KV.stepOpI
  split
  · split
    · split
      · exact h.stepOp op _
      · exact h
    · exact h.stepOp op _
  · exact h.lockedStep op _

theorem StoreWF.stepI {sys : ISys} (h : StoreWF sys.store) (t : Nat) : StoreWF (stepI true sys t).store := by
  unfold Neumann.KV.stepI
  split
  · exact h
  · rename_i th _
    split
    · exact h
    · rename_i op rest _
      split
      · exact h
      · have hs := h.stepOpI op th.pc
        generalize Neumann.KV.stepOpI true sys.store op th.pc = r at hs ⊢
        obtain ⟨s', o⟩ := r
        cases o <;> exact hs

theorem StoreWF.runI {sys : ISys} (h : StoreWF sys.store) (sched : List Nat) :
    StoreWF (runFromI true sys sched).store := by
  induction sched generalizing sys with
  | nil => exact h
  | cons t rest ih => exact ih (h.stepI t)

/-! ### the same for the hook-granularity machine (`Model.step`) -/

theorem StoreWF.stepOld {sys : Sys} (h : StoreWF sys.store) (t : Nat) : StoreWF (stepOld sys t).store := by
  unfold Neumann.KV.stepOld
  split
  · exact h
  · rename_i th _
    split
    · exact h
    · rename_i op rest _
      have hs := h.stepOp op th.pc
      generalize Neumann.KV.stepOp sys.store op th.pc = r at hs ⊢
      obtain ⟨s', o⟩ := r
      cases o <;> exact hs

theorem StoreWF.step {sys : Sys} (h : StoreWF sys.store) (t : Nat) : StoreWF (step sys t).store := by
  unfold Neumann.KV.step
  split
  · exact h
  · split
    · exact h
    · split
      · exact h
      · exact h.stepOld t

theorem StoreWF.run {sys : Sys} (h : StoreWF sys.store) (sched : List Nat) :
    StoreWF (runFrom sys sched).store := by
  induction sched generalizing sys with
  | nil => exact h
  | cons t rest ih => exact ih (h.step t)

/-! ### at most one live id, as a count -/

theorem liveIds_length_le_one {v : List (Key × Bool)} (h : LiveUnique v) (k : Key) :
    (liveIds v k).length ≤ 1 := by
  have hnd : (liveIds v k).Nodup := List.Nodup.sublist List.filter_sublist List.nodup_range
  have hall : ∀ i ∈ liveIds v k, v[i]? = some (k, true) := by
    intro i hi
    simp only [liveIds, List.mem_filter, beq_iff_eq] at hi
    exact hi.2
  match hl : liveIds v k with
  | [] => simp
  | [_] => simp
  | a :: b :: r =>
    rw [hl] at hnd hall
    have e : a = b := h a b k (hall a (by simp)) (hall b (by simp))
    subst e
    simp at hnd

/-! ### delete, all its steps back to back, on a well-formed store -/

theorem seqOp_delete_absent {s : Store} {k : Key} (h : existsNow s k = false) :
    seqOp s (.delete k) = (s, .notFound) := by
  simp [seqOp, seqOpAux, stepOp, routerDelete, h]

theorem seqOp_delete_emb {s : Store} {k : Key} (hk : k.cls = .emb) (h : existsNow s k = true) :
    seqOp s (.delete k) =
      ({ s with slab := (match idxGet s.vocab k with | some id => aerase s.slab id | none => s.slab),
                vocab := idxRemove s.vocab k, md := aerase s.md k }, .ok) := by
  cases hi : idxGet s.vocab k <;> simp [seqOp, seqOpAux, stepOp, routerDelete, h, hk, hi]

theorem seqOp_get_absent {s : Store} {k : Key} (hk : k.cls = .emb) (hi : idxGet s.vocab k = none)
    (hm : aget s.md k = none) : (seqOp s (.get k)).2 = .notFound := by
  simp [seqOp, seqOpAux, stepOp, routerGet, hk, hi, mdGet, hm]

/-- nothing of an `emb:` key that is neither live in the index nor in the metadata slab -/
theorem absent_of_parts {s : Store} (hw : StoreWF s) {k : Key} (hk : k.cls = .emb)
    (hi : idxGet s.vocab k = none) (hm : aget s.md k = none) :
    (seqOp s (.get k)).2 = .notFound ∧ existsNow s k = false ∧ (∀ p, k ∉ scanNow s p) ∧
      (seqOp s (.delete k)).2 = .notFound := by
  have hex : existsNow s k = false := by simp [existsNow, hk, hi, hm]
  have hc : aget s.cache k = none := hw.cacheOnly k (by rw [hk]; decide)
  refine ⟨seqOp_get_absent hk hi hm, hex, ?_, by rw [seqOp_delete_absent hex]⟩
  intro p hmem
  rw [mem_scanNow_iff, mem_liveKeys] at hmem
  simp [hi, hm, hc] at hmem

theorem delete_then_absent {s : Store} (hw : StoreWF s) {k : Key} (hk : k.cls = .emb) :
    let s' := (seqOp s (.delete k)).1
    (seqOp s' (.get k)).2 = .notFound ∧ existsNow s' k = false ∧ (∀ p, k ∉ scanNow s' p) ∧
      (seqOp s' (.delete k)).2 = .notFound := by
  intro s'
  cases hex : existsNow s k with
  | false =>
    have e : s' = s := by simp [s', seqOp_delete_absent hex]
    rw [e]
    have hi : idxGet s.vocab k = none := by
      simp only [existsNow, hk, Bool.or_eq_false_iff] at hex
      simpa using hex.1
    have hm : aget s.md k = none := by
      simp only [existsNow, hk, Bool.or_eq_false_iff] at hex
      simpa using hex.2
    exact absent_of_parts hw hk hi hm
  | true =>
    have e : s' = { s with slab := (match idxGet s.vocab k with | some id => aerase s.slab id | none => s.slab),
                           vocab := idxRemove s.vocab k, md := aerase s.md k } := by
      simp [s', seqOp_delete_emb hk hex]
    rw [e]
    have hw' : StoreWF { s with slab := (match idxGet s.vocab k with | some id => aerase s.slab id | none => s.slab),
                                vocab := idxRemove s.vocab k, md := aerase s.md k } :=
      ⟨LiveUnique.remove hw.uniq k, hw.cacheOnly⟩
    refine absent_of_parts hw' hk ?_ ?_
    · exact idxRemove_self hw.uniq k
    · simp [aget_aerase]

end Neumann.KV
