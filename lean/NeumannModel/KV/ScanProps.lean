import NeumannModel.KV.Lemmas
/-
  C11 — the prefix scan, byte for byte.

  Specification: `scan(prefix)` returns exactly the keys that are present and start with `prefix`
  (byte-wise, `str::starts_with`).  The code (`SlabRouter::scan`, Model.`scanNow`): the entity index
  and the cache ring filter by `starts_with`; `MetadataSlab::scan` reads the shard of the prefix's
  first byte and there the `BTreeMap` range `prefix .. next_prefix(prefix)` - or, when `next_prefix`
  is `None`, `range(prefix ..)` while the key starts with the prefix (repo 27855097; before that
  commit: the rest of the shard, Model.`scanNowOld`).
-/
namespace Neumann.KV.ScanProps
open Neumann.KV

/-- THE STATEMENT, over a scan function: for every store and every prefix that is a string, the
    scan lists exactly the listed-at-all keys that start with the prefix -/
def ScanExact (scan : Store → List Nat → List Key) : Prop :=
  ∀ (s : Store) (p : List Nat), validUtf8 p = true →
    ∀ k, k ∈ scan s p ↔ (isPfx p k.bytes = true ∧ k ∈ scan s [])

/-- FULL STRENGTH for the current code: EVERY store (any slabs, any keys - any byte strings, of
    every class, in the metadata slab, the entity index or the cache ring), EVERY prefix that is a
    string (with or without an end key, cutting across key classes or not, empty or not), every
    key: `SlabRouter::scan(p)` lists the key iff the key starts with `p` and is listed at all; the
    metadata range selects `k` iff `k` starts with `p`. -/
theorem scan_exact : ScanExact scanNow ∧
    ∀ (p : List Nat), validUtf8 p = true → ∀ k, mdMatch p k = isPfx p k.bytes := by
  refine ⟨?_, fun p hv k => mdMatch_eq_pmatch hv k⟩
  intro s p hv k
  have hm : ∀ k, mdMatch p k = pmatch p k := fun k => mdMatch_eq_pmatch hv k
  have h0 : ∀ k, mdMatch [] k = true := fun k => by simp [mdMatch]
  simp only [scanNow, List.mem_append, List.mem_filter, hm, h0, pmatch, isPfx_nil_left, and_true]
  grind

/-- non-vacuity: prefix `e` over a store with a metadata key, an entity-index key without
    metadata, a cache key and keys of other shards / other first letters; the prefix `a` DEL (no
    end key) over a store with `q1` in the same shard; `ÿ` over `ӿx` and `ÿ1` -/
example :
    validUtf8 [101] = true ∧ validUtf8 [97, 127] = true ∧ validUtf8 [195, 191] = true ∧
    scanNow { md := [(⟨[101, 118, 101]⟩, ⟨1, .none⟩), (mkKey .plain 1, ⟨2, .none⟩), (mkKey .emb 1, ⟨3, .good 3⟩)],
              vocab := [(mkKey .emb 1, true), (mkKey .emb 2, true), (mkKey .emb 3, false)],
              cache := [(mkKey .cache 1, ⟨4, .none⟩)] } [101]
      = [⟨[101, 118, 101]⟩, mkKey .emb 1, mkKey .emb 1, mkKey .emb 2] ∧
    scanNow { md := [(⟨[97, 127, 120]⟩, ⟨2, .none⟩), (⟨[113, 49]⟩, ⟨1, .none⟩)] } [97, 127]
      = [⟨[97, 127, 120]⟩] ∧
    scanNow { md := [(⟨[211, 191, 120]⟩, ⟨1, .none⟩), (⟨[195, 191, 49]⟩, ⟨1, .none⟩)] } [195, 191]
      = [⟨[195, 191, 49]⟩] ∧
    (runSched false [[.put ⟨[113, 49]⟩ ⟨1, .none⟩, .put ⟨[97, 127, 120]⟩ ⟨2, .none⟩, .scan [97, 127]]]
        [0, 0, 0]).hist.map (·.res) = [.ok, .ok, .keys [⟨[97, 127, 120]⟩]] := by decide

/-- FULL STRENGTH for the mechanism `next_prefix` relies on: for EVERY byte string `q`, byte `b` and
    key `k` (any bytes, any length), `k` lies in the range `q ++ [b] .. q ++ [b + 1]` of the byte-wise
    order iff `k` starts with `q ++ [b]` -/
theorem range_up_to_successor_is_the_prefix_set (q : List Nat) (b : Nat) (k : List Nat) :
    (bleq (q ++ [b]) k = true ∧ blt k (q ++ [b + 1]) = true) ↔ isPfx (q ++ [b]) k = true := by
  rw [← range_succ_last q b k, Bool.and_eq_true]

/-- FULL STRENGTH: which prefixes have an end key.  For every non-empty string `p`, `next_prefix p`
    is `p` with its last byte plus one when that is UTF-8, and it is `None` EXACTLY when the last
    byte of `p` is `0x7F` (DEL) or `0xBF` (the last byte of every character whose code point is
    63 mod 64: U+00BF `¿`, U+00FF `ÿ`, U+043F `п`, U+04FF, U+FFFF, ...) -/
theorem bounded_prefix_iff (p : List Nat) (hv : validUtf8 p = true) (hp : p ≠ []) :
    ∃ q b, p = q ++ [b] ∧ b < 0xC0 ∧
      (boundedPrefix p = true ↔ (b ≠ 0x7F ∧ b ≠ 0xBF)) ∧
      (boundedPrefix p = true → nextPrefix p = some (q ++ [b + 1])) := by
  obtain ⟨q, b, rfl, h⟩ := nextPrefix_some_iff hv hp
  obtain ⟨q', b', st, hqb, hlt, _, _, _⟩ := valid_nonempty hv hp
  obtain ⟨rfl, rfl⟩ : q = q' ∧ b = b' := by
    have := List.append_inj' hqb rfl
    exact ⟨this.1, by simpa using this.2⟩
  refine ⟨q, b, rfl, hlt, ?_, ?_⟩
  · have hne : (q ++ [b]).isEmpty = false := by cases q <;> rfl
    rcases h with ⟨hn, h1, h2⟩ | ⟨hn, hb⟩
    · simp [boundedPrefix, hne, hv, hn, h1, h2]
    · simp only [boundedPrefix, hne, hv, hn, Option.isSome_none, Bool.and_false, Bool.or_self,
        Bool.false_eq_true, false_iff]
      omega
  · intro hb
    have hne : (q ++ [b]).isEmpty = false := by cases q <;> rfl
    rcases h with ⟨hn, _, _⟩ | ⟨hn, _⟩
    · exact hn
    · simp [boundedPrefix, hne, hn] at hb

/-- the prefixes of the key classes, and ASCII prefixes in general: every non-empty prefix of
    bytes below `0x7F` has an end key -/
theorem ascii_prefix_bounded (p : List Nat) (h : ∀ b ∈ p, b < 0x7F) : boundedPrefix p = true := by
  by_cases hp : p = []
  · subst hp; rfl
  · have hrun : ∀ l : List Nat, (∀ b ∈ l, b < 0x7F) → u8run .s0 l = some .s0 := by
      intro l hl
      induction l with
      | nil => rfl
      | cons x l ih =>
        have hx : x < 0x80 := Nat.lt_succ_of_lt (hl x List.mem_cons_self)
        simp only [u8run, u8step, hx, if_true]
        exact ih (fun b hb => hl b (List.mem_cons_of_mem _ hb))
    have hv : validUtf8 p = true := by simp [validUtf8, hrun p h]
    obtain ⟨q, b, hqb, _, hiff, _⟩ := bounded_prefix_iff p hv hp
    apply hiff.mpr
    have hb : b < 0x7F := h b (by rw [hqb]; simp)
    omega

/-- non-vacuity / the prefixes the engines use: `user:` `node:` `edge:` `table:` `_cache:` `emb:` -/
example : (∀ p ∈ [pfxUser, pfxNode, pfxEdge, pfxTable, pfxCache, pfxEmb], boundedPrefix p = true) ∧
    nextPrefix pfxEmb = some [101, 109, 98, 59] ∧
    -- `é` (C3 A9) has the end key `ê` (C3 AA); `п` (D0 BF), `ÿ` (C3 BF), `a` DEL have none
    nextPrefix [0xC3, 0xA9] = some [0xC3, 0xAA] ∧ nextPrefix [0xD0, 0xBF] = none ∧
    nextPrefix [0xC3, 0xBF] = none ∧ nextPrefix [97, 0x7F] = none := by decide

/-- THE CODE BEFORE 27855097 (`scanNowOld`) did not have the property (sequentially, no threads
    needed).  With `q1` and `a\x7fx` in the store, `scan("a\x7f")` returned BOTH keys:
    `next_prefix("a\x7f")` builds the bytes `61 80`, which are not UTF-8, answers `None`, and
    `MetadataSlab::scan` fell back to "the rest of the shard" (`q` and `a` are both 1 mod 16).  The
    same with `ӿx` (D3 BF 78) and `scan("ÿ")` (C3 BF).  On the current code the same stores give
    the exact answers. -/
theorem scan_prefix_without_successor_old_witness :
    scanNowOld { md := [(⟨[97, 127, 120]⟩, ⟨2, .none⟩), (⟨[113, 49]⟩, ⟨1, .none⟩)] } [97, 127]
      = [⟨[97, 127, 120]⟩, ⟨[113, 49]⟩] ∧
    isPfx [97, 127] [113, 49] = false ∧
    scanNowOld { md := [(⟨[211, 191, 120]⟩, ⟨1, .none⟩)] } [195, 191] = [⟨[211, 191, 120]⟩] ∧
    isPfx [195, 191] [211, 191, 120] = false ∧
    validUtf8 [97, 127] = true ∧ validUtf8 [195, 191] = true ∧
    boundedPrefix [97, 127] = false ∧ boundedPrefix [195, 191] = false ∧
    ¬ ScanExact scanNowOld ∧
    scanNow { md := [(⟨[97, 127, 120]⟩, ⟨2, .none⟩), (⟨[113, 49]⟩, ⟨1, .none⟩)] } [97, 127]
      = [⟨[97, 127, 120]⟩] ∧
    scanNow { md := [(⟨[211, 191, 120]⟩, ⟨1, .none⟩)] } [195, 191] = [] := by
  refine ⟨by decide, by decide, by decide, by decide, by decide, by decide, by decide, by decide, ?_,
    by decide, by decide⟩
  intro h
  have := (h { md := [(⟨[113, 49]⟩, ⟨1, .none⟩)] } [97, 127] (by decide) ⟨[113, 49]⟩).mp (by decide)
  revert this
  decide

/-- the defect of the old code was confined to the prefixes without an end key, and there the
    over-return was EXACTLY the rest of the shard: for every store, on a prefix with an end key the
    old scan was exact; on a string without one it listed a key iff the key starts with the prefix
    and is listed at all, or is a metadata key of the prefix's shard that is greater than the prefix -/
theorem scan_old_exact_iff_prefix_bounded (s : Store) (p : List Nat) (hv : validUtf8 p = true) (k : Key) :
    (boundedPrefix p = true → (k ∈ scanNowOld s p ↔ (isPfx p k.bytes = true ∧ k ∈ scanNowOld s []))) ∧
    (boundedPrefix p = false → (k ∈ scanNowOld s p ↔ ((isPfx p k.bytes = true ∧ k ∈ scanNowOld s []) ∨
      ((aget s.md k).isSome = true ∧ shardOf k.bytes = shardOf p ∧ bleq p k.bytes = true)))) := by
  have hmem : ∀ q, k ∈ scanNowOld s q ↔ ((mdMatchOld q k = true ∧ (aget s.md k).isSome = true) ∨
      (pmatch q k = true ∧ (k ∈ liveKeys s.vocab ∨ (aget s.cache k).isSome = true))) := by
    intro q
    simp only [scanNowOld, List.mem_append, List.mem_filter, mem_keys_iff]
    grind
  constructor
  · intro hb
    rw [hmem p, hmem [], mdMatchOld_eq_pmatch hb]
    simp only [pmatch, mdMatchOld, if_true, isPfx_nil_left, true_and]
    grind
  · intro hb
    have hp : p ≠ [] := by rintro rfl; simp [boundedPrefix] at hb
    have hn : nextPrefix p = none := by
      cases p with
      | nil => exact absurd rfl hp
      | cons x p =>
        simp only [boundedPrefix, List.isEmpty_cons, hv, Bool.true_and, Bool.false_or] at hb
        cases hnp : nextPrefix (x :: p) with
        | none => rfl
        | some e => rw [hnp] at hb; simp at hb
    rw [hmem p, hmem []]
    simp only [mdMatchOld, hp, if_false, hn, if_true, pmatch, isPfx_nil_left, true_and,
      Bool.and_eq_true, decide_eq_true_eq]
    constructor
    · rintro (⟨⟨h1, h2⟩, h3⟩ | ⟨h1, h2⟩)
      · exact Or.inr ⟨h3, h1, h2⟩
      · exact Or.inl ⟨h1, Or.inr h2⟩
    · rintro (⟨h1, h2 | h2⟩ | ⟨h1, h2, h3⟩)
      · exact Or.inl ⟨⟨shardOf_of_isPfx hp h1, bleq_of_isPfx h1⟩, h2⟩
      · exact Or.inr ⟨h1, h2⟩
      · exact Or.inl ⟨⟨h2, h3⟩, h1⟩

/-- non-vacuity of both branches -/
example : boundedPrefix pfxUser = true ∧ boundedPrefix (pfxUser ++ [0xD0, 0xBF]) = false ∧
    validUtf8 (pfxUser ++ [0xD0, 0xBF]) = true := by decide

/-- why `take_while` is enough in the code: on a SORTED list of strings that are all ≥ `p` (what
    `BTreeMap::range(p..)` yields) the keys that start with `p` come first, so taking while a key
    starts with `p` yields the same list as filtering by it - for every `p` and every such list -/
theorem take_while_on_sorted_range_is_the_prefix_filter (p : List Nat) (l : List (List Nat))
    (hs : l.Pairwise (fun a b => bleq a b = true)) (hlo : ∀ a ∈ l, bleq p a = true) :
    l.takeWhile (isPfx p) = l.filter (isPfx p) :=
  takeWhile_pfx_eq_filter p l hs hlo

/-- non-vacuity: a sorted range above `a` DEL with two keys that start with it and two that do not -/
example :
    ([[97, 127], [97, 127, 120], [98], [113, 49]] : List (List Nat)).Pairwise (fun a b => bleq a b = true) ∧
    (∀ a ∈ ([[97, 127], [97, 127, 120], [98], [113, 49]] : List (List Nat)), bleq [97, 127] a = true) ∧
    ([[97, 127], [97, 127, 120], [98], [113, 49]] : List (List Nat)).takeWhile (isPfx [97, 127])
      = [[97, 127], [97, 127, 120]] := by decide

/-- `classify_key` on bytes: the class of a key is decided by its first bytes, in the order of
    the code; a key that merely resembles a class prefix is a plain (metadata) key -/
example :
    classify pfxEmb = .emb ∧ (mkKey .emb 7).cls = .emb ∧ (mkKey .graph 1).cls = .graph ∧
    classify (pfxEdge ++ [49]) = .graph ∧ (mkKey .table 2).cls = .table ∧ (mkKey .cache 3).cls = .cache ∧
    (mkKey .plain 1).cls = .plain ∧ classify [] = .plain ∧ classify [101, 109, 98] = .plain ∧
    classify [99, 97, 99, 104, 101, 58, 49] = .plain := by decide

end Neumann.KV.ScanProps
