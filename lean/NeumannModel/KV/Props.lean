import NeumannModel.KV.Lemmas
/-
  C11 — concurrent store operations behave as if executed one at a time.

  `runSched walOn progs sched` (Model.lean) interprets the interleaving `sched` (the thread that
  takes each successive ATOMIC STEP) of the thread programs `progs`; its `hist` lists the completed
  operations with result and the step numbers of their first (`inv`) and last (`ret`) step.
  `Linearizable` = some permutation of the history is a legal execution of the key→value
  specification and never orders `a` before `b` when `b` returned before `a` was invoked.
-/
namespace Neumann.KV.Props
open Neumann.KV

/-! ### single-step operations: every key class except `emb:`, without the durable log -/

/-- FULL STRENGTH, every number of threads, every program, every schedule: when every operation is
    a single atomic step (put/get/delete/exists on plain, graph, table and cache keys, every scan,
    durable forms of cache keys), then the history IN STEP ORDER is a legal sequential execution
    with every result exactly the specification's (`SeqStrict`, hence `SeqValid`); the step order
    respects real time (each operation is invoked and returns at its one step; the history is
    strictly increasing in it); the final store is the specification applied in step order
    (`Abs`); so the history is linearizable. -/
theorem single_step_ops_linearizable (walOn : Bool) (progs : List ThreadProgram) (sched : List Nat)
    (h : ∀ p ∈ progs, ∀ op ∈ p, op.singleStep) :
    let r := runSched walOn progs sched
    SeqStrict [] r.hist ∧ SeqValid [] r.hist ∧
    (∀ x ∈ r.hist, x.inv = x.ret) ∧ r.hist.Pairwise (fun a b => a.ret < b.inv) ∧
    RespectsRealTime r.hist ∧
    Abs r.store (specRun [] (r.hist.map (·.op))) ∧
    Linearizable r.hist := by
  have inv : Inv (runSched walOn progs sched) := (Inv.init walOn progs h).run sched
  obtain ⟨order, hperm, hvalid, hrt⟩ := inv.linearizable
  refine ⟨inv.strict, inv.strict.valid, fun x hx => (inv.times x hx).1, inv.sorted, ?_, inv.abs,
    inv.linearizable⟩
  refine List.Pairwise.imp_of_mem ?_ inv.sorted
  intro a b ha hb hab hba
  have := (inv.times a ha).1
  have := (inv.times b hb).1
  omega

/-- non-vacuity: four threads on contended plain / graph / table / cache keys, an interleaved
    schedule, 8 completed operations; the reads see the other threads' writes -/
example :
    (∀ p ∈ ([[.put ⟨.plain, 1⟩ ⟨1, .none⟩, .get ⟨.cache, 1⟩], [.get ⟨.plain, 1⟩, .delete ⟨.plain, 1⟩],
        [.put ⟨.cache, 1⟩ ⟨2, .good 2⟩, .scan none], [.exists_ ⟨.plain, 1⟩, .put ⟨.graph, 2⟩ ⟨3, .none⟩]]
        : List ThreadProgram), ∀ op ∈ p, op.singleStep) ∧
    (runSched false [[.put ⟨.plain, 1⟩ ⟨1, .none⟩, .get ⟨.cache, 1⟩], [.get ⟨.plain, 1⟩, .delete ⟨.plain, 1⟩],
        [.put ⟨.cache, 1⟩ ⟨2, .good 2⟩, .scan none], [.exists_ ⟨.plain, 1⟩, .put ⟨.graph, 2⟩ ⟨3, .none⟩]]
        [0, 1, 2, 3, 2, 0, 3, 1]).hist.map (·.res)
      = [.ok, .found ⟨1, .none⟩, .ok, .bool true, .keys [⟨.plain, 1⟩, ⟨.cache, 1⟩],
         .found ⟨2, .good 2⟩, .ok, .ok] := by decide

/-- a scan with the prefix of ONE class (`user:`, `node:`, `table:`, `_cache:`; also `emb:` and ""
    while no `emb:` key is in use) is one atomic step: in any run of single-step operations it
    returns exactly the keys of that class present in the specification state at its step.
    (`MetadataSlab::scan` with a non-empty prefix reads one shard under one read lock; the
    entity-index and cache-ring reads that follow in `SlabRouter::scan` have no yield hook between
    them — at the granularity of the hooks the whole scan is one step.) -/
theorem scan_atomic_for_single_class_prefix (walOn : Bool) (progs : List ThreadProgram)
    (sched : List Nat) (h : ∀ p ∈ progs, ∀ op ∈ p, op.singleStep)
    (pre : List OpRec) (x : OpRec) (post : List OpRec) (c : Option KeyClass) (ks : List Key)
    (hx : (runSched walOn progs sched).hist = pre ++ x :: post)
    (hop : x.op = .scan c) (hres : x.res = .keys ks) :
    x.inv = x.ret ∧
    ∀ k, k ∈ ks ↔ (pmatch c k = true ∧ (aget (specRun [] (pre.map (·.op))) k).isSome = true) := by
  have inv : Inv (runSched walOn progs sched) := (Inv.init walOn progs h).run sched
  have hstrict := inv.strict
  rw [hx] at hstrict
  have hmem : x ∈ (runSched walOn progs sched).hist := by rw [hx]; simp
  refine ⟨(inv.times x hmem).1, ?_⟩
  have : SeqStrict [] ((pre ++ [x]) ++ post) := by simpa using hstrict
  have h1 : SeqStrict [] (pre ++ [x]) := by
    clear hx hmem hstrict
    generalize ([] : Spec) = σ at this
    induction pre generalizing σ with
    | nil => exact ⟨this.1, trivial⟩
    | cons a l ih => exact ⟨this.1, ih _ this.2⟩
  have h2 := ((seqStrict_append _ _ _).mp h1).2
  rw [hop, hres] at h2
  simp only [specRes, specStep, resEquiv] at h2
  intro k
  constructor
  · intro hk
    have := h2.1 hk
    simpa [List.mem_filter, mem_keys_iff, and_comm] using this
  · intro hk
    apply h2.2
    simpa [List.mem_filter, mem_keys_iff, and_comm] using hk

/-- in ANY legal sequential execution (hence in any linearization of any history) a `get` that
    finds a value finds one that some put of that key wrote: "a read never returns a value that
    was never written, or a mixture of two writes" is a consequence of linearizability -/
theorem linearizable_read_returns_written_value (recs : List OpRec) (hl : Linearizable recs)
    (r : OpRec) (hr : r ∈ recs) (k : Key) (v : Val) (hop : r.op = .get k) (hres : r.res = .found v) :
    ∃ w ∈ recs, w.op = .put k v ∨ w.op = .putD k v := by
  obtain ⟨order, hperm, hvalid, _⟩ := hl
  rcases seqValid_get_written hvalid (hperm.mem_iff.mpr hr) hop hres with h | ⟨w, hw, hw'⟩
  · simp [aget] at h
  · exact ⟨w, hperm.mem_iff.mp hw, hw'⟩

/-! ### `emb:` keys: three atomic steps per operation -/

/-- FULL STATEMENT (false of the code as it is, see `emb_mixture_witness`): every history of
    every interleaving of operations of every key class is linearizable. -/
def EmbLinearizable : Prop :=
  ∀ (progs : List ThreadProgram) (sched : List Nat),
    (∀ p ∈ progs, ∀ op ∈ p, op.nonDurable = true) →
    Linearizable (runSched false progs sched).hist

/-- the interleaving `embMixtureSched` of two `put emb:1` and one `get emb:1`
    (A index, B index, A vector, C index.get, C embeddings.get, B vector, A metadata, B metadata,
    C metadata.get): the get returns the metadata of put B with the vector of put A. -/
theorem emb_mixture_witness :
    (runSched false embMixtureProgs embMixtureSched).hist =
      [⟨0, 0, .put kE1 ⟨1, .good 1⟩, .ok, 0, 6⟩, ⟨1, 0, .put kE1 ⟨2, .good 2⟩, .ok, 1, 7⟩,
       ⟨2, 0, .get kE1, .found ⟨2, .good 1⟩, 3, 8⟩] ∧
    ¬ Linearizable (runSched false embMixtureProgs embMixtureSched).hist ∧
    ¬ EmbLinearizable := by
  have hh : (runSched false embMixtureProgs embMixtureSched).hist =
      [⟨0, 0, .put kE1 ⟨1, .good 1⟩, .ok, 0, 6⟩, ⟨1, 0, .put kE1 ⟨2, .good 2⟩, .ok, 1, 7⟩,
       ⟨2, 0, .get kE1, .found ⟨2, .good 1⟩, 3, 8⟩] := by decide
  have hn : ¬ Linearizable (runSched false embMixtureProgs embMixtureSched).hist := by
    intro hl
    rw [hh] at hl
    obtain ⟨w, hw, hw'⟩ := linearizable_read_returns_written_value _ hl
      ⟨2, 0, .get kE1, .found ⟨2, .good 1⟩, 3, 8⟩ (by simp) kE1 ⟨2, .good 1⟩ rfl rfl
    revert w
    decide
  exact ⟨hh, hn, fun h => hn (h embMixtureProgs embMixtureSched (by decide))⟩

/-- PARTIAL.  What is missing: the general statement "every history in which no two operations on
    the same `emb:` key overlap is linearizable" (any programs, any schedule) is NOT proved.
    What is proved: the three-step `emb:` operations of one thread running alone (no overlapping
    operation at all) return exactly the specification's results, for EVERY pair of values (all
    three shapes of `_embedding`: absent, slab dimension, other dimension) — put, get (vector path
    and metadata fallback), overwrite, exists, delete, get / exists after delete. -/
theorem emb_linearizable_partial (v1 v2 : Val) :
    ((runSched false [[.put kE1 v1, .get kE1, .put kE1 v2, .get kE1, .exists_ kE1, .delete kE1,
        .get kE1, .exists_ kE1]] (List.replicate 20 0)).hist.map (·.res))
      = [.ok, .found v1, .ok, .found v2, .bool true, .ok, .notFound, .bool false] := by
  rcases v1 with ⟨t1, (_|a|a)⟩ <;> rcases v2 with ⟨t2, (_|b|b)⟩ <;>
    simp [runSched, runFrom, initSys, List.replicate, step, stepOp, routerPut, routerGet, routerDelete,
      existsNow, mdGet, idxGetOrCreate, idxGet, idxGetAux, idxRemove, slabPut, aset, aerase, aget, kE1]

/-! ### durable writes: log under the mutex, apply after it -/

/-- FULL STATEMENT (false of the code as it is, see `durable_order_witness`): for durable writers,
    once every thread has finished, the store recovered from the log shows every key (get, exists,
    membership in scan) exactly as the in-memory store does. -/
def DurableOrderEqMemoryOrder : Prop :=
  ∀ (progs : List ThreadProgram) (sched : List Nat),
    (∀ p ∈ progs, ∀ op ∈ p, op.simpleDurablePut = true) →
    quiescent (runSched true progs sched) = true →
    ∀ k, view (recover (runSched true progs sched).store.wal) k = view (runSched true progs sched).store k

/-- A logs, B logs, B applies, A applies: the log ends with B's record, memory with A's value. -/
theorem durable_order_witness :
    (runSched true durableOrderProgs durableOrderSched).store.wal
      = [.metaSet kP1 ⟨1, .none⟩, .metaSet kP1 ⟨2, .none⟩] ∧
    view (runSched true durableOrderProgs durableOrderSched).store kP1 = (.found ⟨1, .none⟩, true, true) ∧
    view (recover (runSched true durableOrderProgs durableOrderSched).store.wal) kP1
      = (.found ⟨2, .none⟩, true, true) ∧
    ¬ DurableOrderEqMemoryOrder := by
  refine ⟨by decide, by decide, by decide, ?_⟩
  intro h
  have := h durableOrderProgs durableOrderSched (by decide) (by decide) kP1
  revert this
  decide

/-- THE REPAIRED `put_durable` (proposed/C11-durable-apply-under-log-mutex.diff: the log mutex is
    held from the log step to the end of the in-memory apply; `runLocked` = `runSched` in which a
    thread about to log while another holds the mutex does not move).  For every number of durable
    writers of ANY, also the same, plain / graph / table keys (vector-free values) and every
    lock-respecting interleaving: once every thread has finished, the store recovered from the log
    shows every key exactly as memory does.  The witness interleaving of `durable_order_witness`
    is not executable under the mutex (thread B cannot log between A's log and A's apply). -/
theorem durable_order_eq_memory_order_when_apply_under_log_mutex
    (progs : List ThreadProgram) (sched : List Nat)
    (h : ∀ p ∈ progs, ∀ op ∈ p, op.simpleDurablePut = true)
    (hq : quiescent (runLocked true progs sched) = true) :
    ∀ k, view (recover (runLocked true progs sched).store.wal) k
       = view (runLocked true progs sched).store k := by
  have inv : LInv (runLocked true progs sched) := (LInv.init progs h).run sched
  intro k
  refine view_of_shape (recover _) _ k inv.rshape inv.shape (inv.idle k ?_)
  intro i th v hi hp
  have hmem := List.mem_of_getElem? hi
  simp only [quiescent, List.all_eq_true, List.isEmpty_iff] at hq
  obtain ⟨_, rest, hr⟩ := hp
  rw [hq th hmem] at hr
  cases hr

/-- non-vacuity: the two contended writers of the witness; under the mutex the schedule
    A-log, B-log(blocked), B(blocked), A-apply, B-log, B-apply finishes with log order = apply order -/
example :
    quiescent (runLocked true durableOrderProgs [0, 1, 1, 0, 1, 1]) = true ∧
    (runLocked true durableOrderProgs [0, 1, 1, 0, 1, 1]).store.wal
      = [.metaSet kP1 ⟨1, .none⟩, .metaSet kP1 ⟨2, .none⟩] ∧
    (runLocked true durableOrderProgs [0, 1, 1, 0, 1, 1]).store.md = [(kP1, ⟨2, .none⟩)] := by decide

/-- PARTIAL (what is missing: two threads writing the SAME key, see `durable_order_witness`; values
    with an `_embedding`, `emb:` keys and `delete_durable`): for every number of durable writers,
    every program of vector-free `put_durable`s on plain / graph / table keys and EVERY interleaving
    of their log and apply steps, if no key is written by two different threads then, once every
    thread has finished, the store recovered from the log shows every key (get, exists, scan
    membership) exactly as memory does — in every reachable state the replayed log equals memory on
    every key but those of writes logged and not yet applied (`DInv`). -/
theorem durable_order_partial (progs : List ThreadProgram) (sched : List Nat)
    (h : ∀ p ∈ progs, ∀ op ∈ p, op.simpleDurablePut = true) (ho : KeysOwned progs)
    (hq : quiescent (runSched true progs sched) = true) :
    ∀ k, view (recover (runSched true progs sched).store.wal) k
       = view (runSched true progs sched).store k := by
  have inv : DInv (runSched true progs sched) := (DInv.init progs h ho).run sched
  intro k
  refine view_of_shape (recover _) _ k inv.rshape inv.shape (inv.idle k ?_)
  intro i th v hi hp
  have hmem := List.mem_of_getElem? hi
  simp only [quiescent, List.all_eq_true, List.isEmpty_iff] at hq
  obtain ⟨_, rest, hr⟩ := hp
  rw [hq th hmem] at hr
  cases hr

/-- non-vacuity: three writers (one writes its key twice), keys owned, an interleaving in which
    the log order of the three keys differs from their apply order; it reaches quiescence -/
example :
    (∀ p ∈ ([[.putD ⟨.plain, 1⟩ ⟨1, .none⟩, .putD ⟨.plain, 1⟩ ⟨4, .none⟩], [.putD ⟨.graph, 1⟩ ⟨2, .none⟩],
        [.putD ⟨.table, 1⟩ ⟨3, .none⟩]] : List ThreadProgram), ∀ op ∈ p, op.simpleDurablePut = true) ∧
    quiescent (runSched true [[.putD ⟨.plain, 1⟩ ⟨1, .none⟩, .putD ⟨.plain, 1⟩ ⟨4, .none⟩],
        [.putD ⟨.graph, 1⟩ ⟨2, .none⟩], [.putD ⟨.table, 1⟩ ⟨3, .none⟩]] [0, 1, 2, 2, 1, 0, 0, 0]) = true ∧
    (runSched true [[.putD ⟨.plain, 1⟩ ⟨1, .none⟩, .putD ⟨.plain, 1⟩ ⟨4, .none⟩],
        [.putD ⟨.graph, 1⟩ ⟨2, .none⟩], [.putD ⟨.table, 1⟩ ⟨3, .none⟩]] [0, 1, 2, 2, 1, 0, 0, 0]).store.md
      = [(⟨.plain, 1⟩, ⟨4, .none⟩), (⟨.graph, 1⟩, ⟨2, .none⟩), (⟨.table, 1⟩, ⟨3, .none⟩)] := by decide

example : KeysOwned [[.putD ⟨.plain, 1⟩ ⟨1, .none⟩, .putD ⟨.plain, 1⟩ ⟨4, .none⟩],
    [.putD ⟨.graph, 1⟩ ⟨2, .none⟩], [.putD ⟨.table, 1⟩ ⟨3, .none⟩]] := by
  intro i j pi pj hi hj hij a ha b hb
  match i, j with
  | 0, 0 | 1, 1 | 2, 2 => exact absurd rfl hij
  | 0, 1 | 0, 2 | 1, 0 | 1, 2 | 2, 0 | 2, 1 =>
    simp only [List.getElem?_cons_zero, List.getElem?_cons_succ, Option.some.injEq] at hi hj
    subst hi hj
    revert hb; revert b; revert ha; revert a
    decide
  | _ + 3, _ => simp at hi
  | 0, _ + 3 | 1, _ + 3 | 2, _ + 3 => simp at hj

end Neumann.KV.Props
