import NeumannModel.KV.Lemmas
import NeumannModel.KV.EmbLemmas
import NeumannModel.KV.DurLemmas
/-
  C11 — concurrent store operations behave as if executed one at a time.

  `runSched walOn progs sched` (Model.lean) interprets the interleaving `sched` (the thread that
  takes each successive ATOMIC STEP) of the thread programs `progs`; its `hist` lists the completed
  operations with result and the step numbers of their first (`inv`) and last (`ret`) step.
  `Linearizable` = some permutation of the history is a legal execution of the key→value
  specification and never orders `a` before `b` when `b` returned before `a` was invoked.
-/
namespace Neumann.KV.Props
open Neumann.KV

/-! ### single-step operations: every key class except `emb:`, without the durable log -/

/-- FULL STRENGTH, every number of threads, every program, every schedule, keys any byte strings
    (their class is what `classify_key` computes): when every operation is a single atomic step
    (put/get/delete/exists on plain, graph, table and cache keys, scans with ANY prefix that is a
    string - `Op.scanStr`, well-formedness of the input -, durable forms of cache keys), then the
    history IN STEP ORDER is a legal sequential execution
    with every result exactly the specification's (`SeqStrict`, hence `SeqValid`); the step order
    respects real time (each operation is invoked and returns at its one step; the history is
    strictly increasing in it); the final store is the specification applied in step order
    (`Abs`); so the history is linearizable. -/
theorem single_step_ops_linearizable (walOn : Bool) (progs : List ThreadProgram) (sched : List Nat)
    (h : ∀ p ∈ progs, ∀ op ∈ p, op.singleStep ∧ op.scanStr = true) :
    let r := runSched walOn progs sched
    SeqStrict [] r.hist ∧ SeqValid [] r.hist ∧
    (∀ x ∈ r.hist, x.inv = x.ret) ∧ r.hist.Pairwise (fun a b => a.ret < b.inv) ∧
    RespectsRealTime r.hist ∧
    Abs r.store (specRun [] (r.hist.map (·.op))) ∧
    Linearizable r.hist := by
  have inv : Inv (runSched walOn progs sched) := (Inv.init walOn progs h).run sched
  obtain ⟨order, hperm, hvalid, hrt⟩ := inv.linearizable
  refine ⟨inv.strict, inv.strict.valid, fun x hx => (inv.times x hx).1, inv.sorted, ?_, inv.abs,
    inv.linearizable⟩
  refine List.Pairwise.imp_of_mem ?_ inv.sorted
  intro a b ha hb hab hba
  have := (inv.times a ha).1
  have := (inv.times b hb).1
  omega

/-- non-vacuity: four threads on contended plain / graph / table / cache keys, an interleaved
    schedule, 8 completed operations; the reads see the other threads' writes -/
example :
    (∀ p ∈ ([[.put (mkKey .plain 1) ⟨1, .none⟩, .get (mkKey .cache 1)], [.get (mkKey .plain 1), .delete (mkKey .plain 1)],
        [.put (mkKey .cache 1) ⟨2, .good 2⟩, .scan []], [.exists_ (mkKey .plain 1), .put (mkKey .graph 2) ⟨3, .none⟩]]
        : List ThreadProgram), ∀ op ∈ p, op.singleStep ∧ op.scanStr = true) ∧
    (runSched false [[.put (mkKey .plain 1) ⟨1, .none⟩, .get (mkKey .cache 1)], [.get (mkKey .plain 1), .delete (mkKey .plain 1)],
        [.put (mkKey .cache 1) ⟨2, .good 2⟩, .scan []], [.exists_ (mkKey .plain 1), .put (mkKey .graph 2) ⟨3, .none⟩]]
        [0, 1, 2, 3, 2, 0, 3, 1]).hist.map (·.res)
      = [.ok, .found ⟨1, .none⟩, .ok, .bool true, .keys [(mkKey .plain 1), (mkKey .cache 1)],
         .found ⟨2, .good 2⟩, .ok, .ok] := by decide

/-- a scan with ANY prefix (the class prefixes `user:` `node:` `edge:` `table:` `_cache:`, prefixes
    that cut across classes such as `e` or `_`, prefixes without an end key such as `user:п`, "",
    while no `emb:` key is in use) is one atomic step: in any run of single-step operations it returns exactly the keys that
    start with the prefix (byte-wise) and are present in the specification state at its step.
    (`MetadataSlab::scan` with a non-empty prefix reads one shard under one read lock; the
    entity-index and cache-ring reads that follow in `SlabRouter::scan` have no yield hook between
    them — at the granularity of the hooks the whole scan is one step.) -/
theorem scan_atomic_and_exact (walOn : Bool) (progs : List ThreadProgram)
    (sched : List Nat) (h : ∀ p ∈ progs, ∀ op ∈ p, op.singleStep ∧ op.scanStr = true)
    (pre : List OpRec) (x : OpRec) (post : List OpRec) (c : List Nat) (ks : List Key)
    (hx : (runSched walOn progs sched).hist = pre ++ x :: post)
    (hop : x.op = .scan c) (hres : x.res = .keys ks) :
    x.inv = x.ret ∧
    ∀ k, k ∈ ks ↔ (isPfx c k.bytes = true ∧ (aget (specRun [] (pre.map (·.op))) k).isSome = true) := by
  have inv : Inv (runSched walOn progs sched) := (Inv.init walOn progs h).run sched
  have hstrict := inv.strict
  rw [hx] at hstrict
  have hmem : x ∈ (runSched walOn progs sched).hist := by rw [hx]; simp
  refine ⟨(inv.times x hmem).1, ?_⟩
  have : SeqStrict [] ((pre ++ [x]) ++ post) := by simpa using hstrict
  have h1 : SeqStrict [] (pre ++ [x]) := by
    clear hx hmem hstrict
    generalize ([] : Spec) = σ at this
    induction pre generalizing σ with
    | nil => exact ⟨this.1, trivial⟩
    | cons a l ih => exact ⟨this.1, ih _ this.2⟩
  have h2 := ((seqStrict_append _ _ _).mp h1).2
  rw [hop, hres] at h2
  simp only [specRes, specStep, resEquiv] at h2
  intro k
  constructor
  · intro hk
    have := h2.1 hk
    simpa [List.mem_filter, mem_keys_iff, and_comm, pmatch] using this
  · intro hk
    apply h2.2
    simpa [List.mem_filter, mem_keys_iff, and_comm, pmatch] using hk

/-- non-vacuity: a scan with the prefix `e` (it cuts across the plain key `eve`, the graph key
    `edge:1` and — were one in use — `emb:` keys) racing a put and a delete; `user:1` (same shard
    as `e`: 0x75 and 0x65 are both 5 mod 16) is not listed -/
example :
    (∀ p ∈ ([[.put ⟨[101, 118, 101]⟩ ⟨1, .none⟩, .delete ⟨[101, 118, 101]⟩],
        [.put ⟨pfxEdge ++ [49]⟩ ⟨2, .none⟩, .put (mkKey .plain 1) ⟨3, .none⟩],
        [.scan [101], .scan [101]]] : List ThreadProgram), ∀ op ∈ p, op.singleStep ∧ op.scanStr = true) ∧
    (runSched false [[.put ⟨[101, 118, 101]⟩ ⟨1, .none⟩, .delete ⟨[101, 118, 101]⟩],
        [.put ⟨pfxEdge ++ [49]⟩ ⟨2, .none⟩, .put (mkKey .plain 1) ⟨3, .none⟩],
        [.scan [101], .scan [101]]] [0, 1, 1, 2, 0, 2]).hist.map (·.res)
      = [.ok, .ok, .ok, .keys [⟨pfxEdge ++ [49]⟩, ⟨[101, 118, 101]⟩], .ok, .keys [⟨pfxEdge ++ [49]⟩]] := by
  decide

/-- in ANY legal sequential execution (hence in any linearization of any history) a `get` that
    finds a value finds one that some put of that key wrote: "a read never returns a value that
    was never written, or a mixture of two writes" is a consequence of linearizability -/
theorem linearizable_read_returns_written_value (recs : List OpRec) (hl : Linearizable recs)
    (r : OpRec) (hr : r ∈ recs) (k : Key) (v : Val) (hop : r.op = .get k) (hres : r.res = .found v) :
    ∃ w ∈ recs, w.op = .put k v ∨ w.op = .putD k v := by
  obtain ⟨order, hperm, hvalid, _⟩ := hl
  rcases seqValid_get_written hvalid (hperm.mem_iff.mpr hr) hop hres with h | ⟨w, hw, hw'⟩
  · simp [aget] at h
  · exact ⟨w, hperm.mem_iff.mp hw, hw'⟩

/-! ### `emb:` keys: three atomic steps per operation -/

/-- FULL STATEMENT (false of the code as it is, see `emb_mixture_witness`): every history of
    every interleaving of operations of every key class is linearizable. -/
def EmbLinearizable : Prop :=
  ∀ (progs : List ThreadProgram) (sched : List Nat),
    (∀ p ∈ progs, ∀ op ∈ p, op.nonDurableStr = true) →
    Linearizable (runSched false progs sched).hist

/-- the interleaving `embMixtureSched` of two `put emb:1` and one `get emb:1`
    (A index, B index, A vector, C index.get, C embeddings.get, B vector, A metadata, B metadata,
    C metadata.get): the get returns the metadata of put B with the vector of put A. -/
theorem emb_mixture_witness :
    (runSched false embMixtureProgs embMixtureSched).hist =
      [⟨0, 0, .put kE1 ⟨1, .good 1⟩, .ok, 0, 6⟩, ⟨1, 0, .put kE1 ⟨2, .good 2⟩, .ok, 1, 7⟩,
       ⟨2, 0, .get kE1, .found ⟨2, .good 1⟩, 3, 8⟩] ∧
    ¬ Linearizable (runSched false embMixtureProgs embMixtureSched).hist ∧
    ¬ EmbLinearizable := by
  have hh : (runSched false embMixtureProgs embMixtureSched).hist =
      [⟨0, 0, .put kE1 ⟨1, .good 1⟩, .ok, 0, 6⟩, ⟨1, 0, .put kE1 ⟨2, .good 2⟩, .ok, 1, 7⟩,
       ⟨2, 0, .get kE1, .found ⟨2, .good 1⟩, 3, 8⟩] := by decide
  have hn : ¬ Linearizable (runSched false embMixtureProgs embMixtureSched).hist := by
    intro hl
    rw [hh] at hl
    obtain ⟨w, hw, hw'⟩ := linearizable_read_returns_written_value _ hl
      ⟨2, 0, .get kE1, .found ⟨2, .good 1⟩, 3, 8⟩ (by simp) kE1 ⟨2, .good 1⟩ rfl rfl
    revert w
    decide
  exact ⟨hh, hn, fun h => hn (h embMixtureProgs embMixtureSched (by decide))⟩

/-- PARTIAL.  What is missing: histories in which two operations on ONE `emb:` key overlap (they
    are not linearizable, see `emb_mixture_witness` and the known findings), runs with the durable
    log (`put_durable` / `delete_durable`), and the operations still in progress when the schedule
    ends (`Linearizable` speaks of completed operations, so the run must have finished: a scan
    may have seen the key of a `put` that has taken only its index step).
    What is proved, for EVERY number of threads, ALL programs of put / get / delete / exists / scan
    (scan prefixes any strings, `Op.nonDurableStr`) on keys of every class - any byte
    strings - and EVERY schedule in which no operation on an `emb:` key is invoked
    while another operation on the same key is in progress (`NoEmbOverlap`, computed along the
    schedule; operations on different keys, scans and everything on the other classes overlap
    freely): once every thread has finished the history is linearizable — with every result
    exactly the specification's (`SeqStrict`), and the quiescent store shows every key (get,
    exists, scan membership) exactly as the specification state after that order does.
    Linearization points: a put of an `emb:` key at its first (index) step, everything else at its
    last step.  The invariant (`SInv`) is the index / slab / metadata coherence: a key no operation
    is inside of is absent from index and metadata, or present in both with the slab holding the
    vector of the metadata value; a key with an operation inside is in the partial state that
    operation's yield point implies; entity ids are never shared. -/
theorem emb_linearizable_partial (progs : List ThreadProgram) (sched : List Nat)
    (h : ∀ p ∈ progs, ∀ op ∈ p, op.nonDurableStr = true)
    (hx : NoEmbOverlap false progs sched = true)
    (hq : quiescent (runSched false progs sched) = true) :
    Linearizable (runSched false progs sched).hist ∧
    ∃ order : List OpRec, order.Perm (runSched false progs sched).hist ∧ SeqStrict [] order ∧
      RespectsRealTime order ∧
      ∀ k, view (runSched false progs sched).store k =
        (specRes (specRun [] (order.map (·.op))) (.get k),
         (aget (specRun [] (order.map (·.op))) k).isSome, (aget (specRun [] (order.map (·.op))) k).isSome) := by
  have inv : EInv (runSched false progs sched) := (EInv.init progs h).run sched hx
  obtain ⟨order, hperm, hstrict, hrt, hs⟩ := inv.linearizable hq
  exact ⟨⟨order, hperm, hstrict.valid, hrt⟩, order, hperm, hstrict, hrt, fun k => hs.view_quiescent hq k⟩

/-- non-vacuity: three threads; the put of `emb:1` (three steps) overlaps a scan, a get of `emb:2`,
    the put of `emb:2` and operations on `user:1`, never another operation on `emb:1`; the scan at
    step 1 already lists `emb:1` (index step done, no metadata yet) -/
example :
    (∀ p ∈ ([[.put (mkKey .emb 1) ⟨1, .good 1⟩, .get (mkKey .emb 2), .delete (mkKey .emb 1)],
        [.scan pfxEmb, .put (mkKey .emb 2) ⟨2, .bad 2⟩, .get (mkKey .emb 1)],
        [.put (mkKey .plain 1) ⟨3, .none⟩, .exists_ (mkKey .emb 2), .get (mkKey .plain 1)]] : List ThreadProgram),
        ∀ op ∈ p, op.nonDurableStr = true) ∧
    NoEmbOverlap false [[.put (mkKey .emb 1) ⟨1, .good 1⟩, .get (mkKey .emb 2), .delete (mkKey .emb 1)],
        [.scan pfxEmb, .put (mkKey .emb 2) ⟨2, .bad 2⟩, .get (mkKey .emb 1)],
        [.put (mkKey .plain 1) ⟨3, .none⟩, .exists_ (mkKey .emb 2), .get (mkKey .plain 1)]]
        [0, 1, 2, 1, 0, 1, 0, 1, 2, 0, 1, 1, 1, 0, 0, 0, 0, 2] = true ∧
    quiescent (runSched false [[.put (mkKey .emb 1) ⟨1, .good 1⟩, .get (mkKey .emb 2), .delete (mkKey .emb 1)],
        [.scan pfxEmb, .put (mkKey .emb 2) ⟨2, .bad 2⟩, .get (mkKey .emb 1)],
        [.put (mkKey .plain 1) ⟨3, .none⟩, .exists_ (mkKey .emb 2), .get (mkKey .plain 1)]]
        [0, 1, 2, 1, 0, 1, 0, 1, 2, 0, 1, 1, 1, 0, 0, 0, 0, 2]) = true ∧
    (runSched false [[.put (mkKey .emb 1) ⟨1, .good 1⟩, .get (mkKey .emb 2), .delete (mkKey .emb 1)],
        [.scan pfxEmb, .put (mkKey .emb 2) ⟨2, .bad 2⟩, .get (mkKey .emb 1)],
        [.put (mkKey .plain 1) ⟨3, .none⟩, .exists_ (mkKey .emb 2), .get (mkKey .plain 1)]]
        [0, 1, 2, 1, 0, 1, 0, 1, 2, 0, 1, 1, 1, 0, 0, 0, 0, 2]).hist.map (fun r => (r.t, r.i, r.res, r.inv, r.ret))
      = [(1, 0, .keys [(mkKey .emb 1)], 1, 1), (2, 0, .ok, 2, 2), (0, 0, .ok, 0, 6), (1, 1, .ok, 3, 7),
         (2, 1, .bool true, 8, 8), (1, 2, .found ⟨1, .good 1⟩, 10, 12), (0, 1, .found ⟨2, .bad 2⟩, 9, 13),
         (0, 2, .ok, 14, 16), (2, 2, .found ⟨3, .none⟩, 17, 17)] := by decide

/-- `NoEmbOverlap` (stated along the schedule) means what its name says on the history: in such a
    run any two completed operations on one `emb:` key are disjoint in time — one returned (its
    last step) before the other was invoked (its first step).  (The schedule form also covers the
    operations still in progress when the schedule ends, which the history does not show.) -/
theorem no_emb_overlap_disjoint_in_history (progs : List ThreadProgram) (sched : List Nat)
    (h : ∀ p ∈ progs, ∀ op ∈ p, op.nonDurableStr = true)
    (hx : NoEmbOverlap false progs sched = true) :
    ∀ a ∈ (runSched false progs sched).hist, ∀ b ∈ (runSched false progs sched).hist, a ≠ b →
      ∀ k, a.op.key? = some k → b.op.key? = some k → k.cls = .emb → a.ret < b.inv ∨ b.ret < a.inv := by
  have ho : OInv (runSched false progs sched) :=
    (EInv.init progs h).run_overlap ⟨by intro a ha; simp [initSys] at ha, by simp [initSys]⟩ sched hx
  intro a ha b hb hne k hak hbk he
  rcases pairwise_or ho.disjoint ha hb hne with h1 | h1
  · exact Or.inl (h1 k hak hbk he)
  · exact Or.inr (h1 k hbk hak he)

/-- the hypothesis is what separates the two: the schedule of `emb_mixture_witness` violates it -/
example : NoEmbOverlap false embMixtureProgs embMixtureSched = false := by decide

/-! ### durable writes: logged and applied under the log mutex -/

/-- FULL STRENGTH, with or without the log, every number of threads, every program, every schedule:
    operations of every kind - put / get / delete / exists / scan AND `put_durable` /
    `delete_durable` - on keys of every class but `emb:` (any byte strings, any values), scan
    prefixes any strings.  A durable write of a plain / graph / table key is two atomic steps
    (append to the log, apply in memory; the mutex is held in between) and other threads' reads
    and non-durable writes of the same key run between them.  The history, IN THE ORDER OF THE
    LAST STEPS, is a legal sequential execution with every result exactly the specification's; that
    order respects real time; the live store is at every moment the specification applied to the
    completed operations (a write that is logged and not yet applied is invisible to every reader);
    so the history is linearizable - the linearization point of a durable write is its in-memory
    apply. -/
theorem durable_ops_linearizable (walOn : Bool) (progs : List ThreadProgram) (sched : List Nat)
    (h : ∀ p ∈ progs, ∀ op ∈ p, op.noEmb = true ∧ op.scanStr = true) :
    let r := runSched walOn progs sched
    SeqStrict [] r.hist ∧ SeqValid [] r.hist ∧
    (∀ x ∈ r.hist, x.inv ≤ x.ret) ∧ r.hist.Pairwise (fun a b => a.ret < b.ret) ∧
    RespectsRealTime r.hist ∧
    Abs r.store (specRun [] (r.hist.map (·.op))) ∧
    Linearizable r.hist := by
  have inv : DInv (runSched walOn progs sched) := (DInv.init walOn progs h).run sched
  exact ⟨inv.strict, inv.strict.valid, fun x hx => (inv.times x hx).1, inv.sorted, inv.realTime,
    inv.abs, inv.linearizable⟩

/-- non-vacuity: with the log on, thread 0 puts `user:1` durably; between its log step and its
    apply thread 1 reads the key (absent: the logged write is not visible yet) and thread 2 puts it
    non-durably; thread 0 applies (overwrites), thread 1 reads again; thread 1's `put_durable` is
    granted while thread 0 holds the mutex and does not move -/
example :
    (∀ p ∈ ([[.putD kP1 ⟨1, .none⟩], [.get kP1, .get kP1, .putD kP1 ⟨3, .none⟩], [.put kP1 ⟨2, .none⟩, .scan pfxUser]]
        : List ThreadProgram), ∀ op ∈ p, op.noEmb = true ∧ op.scanStr = true) ∧
    (runSched true [[.putD kP1 ⟨1, .none⟩], [.get kP1, .get kP1, .putD kP1 ⟨3, .none⟩], [.put kP1 ⟨2, .none⟩, .scan pfxUser]]
        [0, 1, 2, 2, 1, 1, 0, 1, 1]).hist.map (fun r => (r.t, r.i, r.res, r.inv, r.ret))
      = [(1, 0, .notFound, 1, 1), (2, 0, .ok, 2, 2), (2, 1, .keys [kP1], 3, 3), (1, 1, .found ⟨2, .none⟩, 4, 4),
         (0, 0, .ok, 0, 5), (1, 2, .ok, 6, 7)] := by decide

/-- THE STATEMENT, over a step machine `run`: for durable writers of keys of every class but the
    cache (`put_durable` of any value, `delete_durable`) and readers (`Op.durableOrRead`), once every
    thread has finished, the store recovered from the log shows every key (get, exists,
    membership in scan) exactly as the in-memory store does. -/
def DurableOrderEqMemoryOrder (run : Bool → List ThreadProgram → List Nat → Sys) : Prop :=
  ∀ (progs : List ThreadProgram) (sched : List Nat),
    (∀ p ∈ progs, ∀ op ∈ p, op.durableOrRead = true) →
    quiescent (run true progs sched) = true →
    ∀ k, view (recover (run true progs sched).store.wal) k = view (run true progs sched).store k

/-- FULL STRENGTH for the current code (repo dfea2ecb: the log mutex is held from the log step to
    the end of the in-memory apply; `runSched` = the interleaving in which a thread about to log
    while another holds the mutex does not move).  For every number of durable writers -
    `put_durable` of ANY value (with or without a vector, of the right or a wrong dimension) and
    `delete_durable` - of ANY, also the same, keys of the plain / graph / table / `emb:` classes
    (any byte strings; an `emb:` write is four atomic steps: log, entity index, embedding slab,
    metadata), with any number of concurrent readers (get / exists / scan of any key and prefix,
    which interleave with the sub-steps), and every interleaving: once every thread has finished,
    the store recovered from the log shows every key exactly as memory does.  In every reachable
    state at most one thread is between its log step and the end of its write, and the log replays
    to the slabs that thread will have produced when it has run to its end (`RInv`; the records of a
    write are exactly those whose replay is its in-memory effect, `logStep_replay`). -/
theorem durable_order_eq_memory_order : DurableOrderEqMemoryOrder runSched := by
  intro progs sched h hq k
  have inv : RInv (runSched true progs sched) := (RInv.init progs h).run sched
  have heq : SlabsEq (recover (runSched true progs sched).store.wal) (runSched true progs sched).store :=
    inv.quiescent_eq hq
  have hc : (recover (runSched true progs sched).store.wal).cache = (runSched true progs sched).store.cache := by
    rw [inv.cache]; exact replay_cache _
  exact (reads_congr heq hc k).1

/-- non-vacuity: the two contended writers of the witness; under the mutex the schedule
    A-log, B-log(blocked), B(blocked), A-apply, B-log, B-apply finishes with log order = apply order -/
example :
    (∀ p ∈ durableOrderProgs, ∀ op ∈ p, op.durableOrRead = true) ∧
    quiescent (runSched true durableOrderProgs [0, 1, 1, 0, 1, 1]) = true ∧
    (runSched true durableOrderProgs [0, 1, 1, 0, 1, 1]).store.wal
      = [.metaSet kP1 ⟨1, .none⟩, .metaSet kP1 ⟨2, .none⟩] ∧
    (runSched true durableOrderProgs [0, 1, 1, 0, 1, 1]).store.md = [(kP1, ⟨2, .none⟩)] := by decide

/-- non-vacuity with a `delete_durable`: A puts and deletes `user:1`, B puts it; B is granted while A
    is between the log step and the apply of its delete and does not move -/
example :
    (∀ p ∈ ([[.putD kP1 ⟨1, .none⟩, .delD kP1], [.putD kP1 ⟨2, .none⟩]] : List ThreadProgram),
      ∀ op ∈ p, op.durableOrRead = true) ∧
    quiescent (runSched true [[.putD kP1 ⟨1, .none⟩, .delD kP1], [.putD kP1 ⟨2, .none⟩]]
      [0, 0, 0, 1, 1, 0, 1, 1]) = true ∧
    (runSched true [[.putD kP1 ⟨1, .none⟩, .delD kP1], [.putD kP1 ⟨2, .none⟩]]
      [0, 0, 0, 1, 1, 0, 1, 1]).store.wal = [.metaSet kP1 ⟨1, .none⟩, .metaDel kP1, .metaSet kP1 ⟨2, .none⟩] ∧
    (runSched true [[.putD kP1 ⟨1, .none⟩, .delD kP1], [.putD kP1 ⟨2, .none⟩]]
      [0, 0, 0, 1, 1, 0, 1, 1]).store.md = [(kP1, ⟨2, .none⟩)] := by decide

/-- non-vacuity with `emb:` keys, vectors and readers: two threads write `emb:1` (a 384-vector, a
    vector of another dimension, a delete, a value without vector), a third `user:1` with a vector,
    a `get` of `emb:1` and a scan interleave with the sub-steps; the second and third pick (threads 1
    and 2 at the entry of `put_durable` while thread 0 holds the mutex) are no-ops -/
example :
    (∀ p ∈ ([[.putD kE1 ⟨1, .good 1⟩, .delD kE1, .putD kE1 ⟨3, .none⟩], [.putD kE1 ⟨2, .bad 2⟩, .get kE1],
        [.putD kP1 ⟨4, .good 4⟩, .scan []]] : List ThreadProgram), ∀ op ∈ p, op.durableOrRead = true) ∧
    quiescent (runSched true [[.putD kE1 ⟨1, .good 1⟩, .delD kE1, .putD kE1 ⟨3, .none⟩], [.putD kE1 ⟨2, .bad 2⟩, .get kE1],
        [.putD kP1 ⟨4, .good 4⟩, .scan []]] [0, 1, 2, 0, 0, 0, 1, 1, 1, 1, 2, 1, 2, 0, 1, 2, 0, 0, 0, 0, 0, 0, 0]) = true ∧
    (runSched true [[.putD kE1 ⟨1, .good 1⟩, .delD kE1, .putD kE1 ⟨3, .none⟩], [.putD kE1 ⟨2, .bad 2⟩, .get kE1],
        [.putD kP1 ⟨4, .good 4⟩, .scan []]] [0, 1, 2, 0, 0, 0, 1, 1, 1, 1, 2, 1, 2, 0, 1, 2, 0, 0, 0, 0, 0, 0, 0]).store.wal
      = [.embSet 0 (.good 1), .metaSet kE1 ⟨1, .good 1⟩, .embSet 0 (.bad 2), .metaSet kE1 ⟨2, .bad 2⟩,
         .metaSet kP1 ⟨4, .good 4⟩, .embDel 0, .entRemove kE1, .metaDel kE1, .metaSet kE1 ⟨3, .none⟩] ∧
    (runSched true [[.putD kE1 ⟨1, .good 1⟩, .delD kE1, .putD kE1 ⟨3, .none⟩], [.putD kE1 ⟨2, .bad 2⟩, .get kE1],
        [.putD kP1 ⟨4, .good 4⟩, .scan []]] [0, 1, 2, 0, 0, 0, 1, 1, 1, 1, 2, 1, 2, 0, 1, 2, 0, 0, 0, 0, 0, 0, 0]).hist.map (fun r => (r.t, r.i, r.res))
      = [(0, 0, .ok), (1, 0, .ok), (2, 0, .ok), (1, 1, .found ⟨2, .bad 2⟩), (2, 1, .keys [kP1, kE1, kE1]),
         (0, 1, .ok), (0, 2, .ok)] := by decide

/-- THE CODE BEFORE dfea2ecb (`runSchedOld`: the mutex covered the log step only) did not have the
    property: A logs, B logs, B applies, A applies — the log ends with B's record, memory with A's
    value.  Under the mutex the same schedule is not executable: thread B does not move until A
    has applied, and the run is not finished after these four picks. -/
theorem durable_order_witness :
    (runSchedOld true durableOrderProgs durableOrderSched).store.wal
      = [.metaSet kP1 ⟨1, .none⟩, .metaSet kP1 ⟨2, .none⟩] ∧
    view (runSchedOld true durableOrderProgs durableOrderSched).store kP1 = (.found ⟨1, .none⟩, true, true) ∧
    view (recover (runSchedOld true durableOrderProgs durableOrderSched).store.wal) kP1
      = (.found ⟨2, .none⟩, true, true) ∧
    ¬ DurableOrderEqMemoryOrder runSchedOld ∧
    (runSched true durableOrderProgs durableOrderSched).trace
      = [(0, .putD kP1 ⟨1, .none⟩, .start), (0, .putD kP1 ⟨1, .none⟩, .putDAfterLog)] ∧
    quiescent (runSched true durableOrderProgs durableOrderSched) = false := by
  refine ⟨by decide, by decide, by decide, ?_, by decide, by decide⟩
  intro h
  have := h durableOrderProgs durableOrderSched (by decide) (by decide) kP1
  revert this
  decide

/-! ### the recovered store is the live store (the durable clause in observable terms) -/

/-- FULL STRENGTH, `durable_order_eq_memory_order` stated on what a client can observe and on the
    slabs themselves.  For every number of threads, ALL programs of `put_durable` (any value) and
    `delete_durable` on plain / graph / table / `emb:` keys - of a present key, of a key that was never
    put, of a key another thread is putting or deleting at that moment - and of readers, and EVERY
    interleaving: once all calls have returned, a store recovered from the log file alone
    (`SlabRouter::recover`, replay over an empty store) holds the same metadata slab, the same entity
    index (every key under the same id, the same tombstones) and the same embedding slab as the live
    store, and answers `get`, `exists` and `scan` (EVERY prefix, bounded or not: the same list) about
    EVERY key exactly as the live store does.  In particular every write that took effect in memory
    has its record in the log, in the order in which the writes took effect: `delete_durable`
    appends its `MetadataDelete` under the mutex whether or not the key is there (`logDelete`);
    deciding that from an observation made before the mutex loses the property
    (`delete_skip_if_absent_witness`). -/
theorem recovered_eq_live (progs : List ThreadProgram) (sched : List Nat)
    (h : ∀ p ∈ progs, ∀ op ∈ p, op.durableOrRead = true)
    (hq : quiescent (runSched true progs sched) = true) :
    let live := (runSched true progs sched).store
    let recovered := recover live.wal
    recovered.md = live.md ∧ recovered.vocab = live.vocab ∧ recovered.slab = live.slab ∧
    recovered.cache = live.cache ∧
    (∀ p, scanNow recovered p = scanNow live p) ∧
    ∀ k, (seqOp recovered (.get k)).2 = (seqOp live (.get k)).2 ∧
      (seqOp recovered (.exists_ k)).2 = (seqOp live (.exists_ k)).2 := by
  intro live recovered
  have inv : RInv (runSched true progs sched) := (RInv.init progs h).run sched
  have heq : SlabsEq recovered live := inv.quiescent_eq hq
  have hc : recovered.cache = live.cache := by
    show (replay live.wal).cache = live.cache
    rw [replay_cache]; exact inv.cache.symm
  refine ⟨heq.1, heq.2.1, heq.2.2, hc, fun p => (reads_congr heq hc ⟨[]⟩).2.1 p, fun k => ?_⟩
  obtain ⟨_, _, hex, hget⟩ := reads_congr heq hc k
  exact ⟨hget, by simp only [seqOp, seqOpAux, stepOp, hex]⟩

/-- FULL STRENGTH, a crash at ANY moment, not only after quiescence: in every state reachable by
    durable writers of plain / graph / table / `emb:` keys (any values) and readers - any number of
    threads, any programs, any schedule, stopped anywhere - the slabs rebuilt from the log are the
    live slabs, or exactly one thread is inside a durable write (it holds the log mutex) and they
    are the live slabs with THAT write run to its end (`finishOp`: its remaining atomic steps with
    nobody in between).  So recovery never yields a state no reader could have seen or been about
    to see: a logged write is applied whole, never half (index without metadata, metadata of one
    put with the vector of another). -/
theorem crash_at_any_step_recovers_live_or_inflight_write_completed (progs : List ThreadProgram)
    (sched : List Nat) (h : ∀ p ∈ progs, ∀ op ∈ p, op.durableOrRead = true) :
    let sys := runSched true progs sched
    SlabsEq (recover sys.store.wal) sys.store ∨
    ∃ (i : Nat) (th : Thread) (op : Op) (rest : List Op),
      sys.threads[i]? = some th ∧ th.ops = op :: rest ∧ op.takesLock = true ∧ th.pc ≠ .start ∧
      (∀ (j : Nat) (thj : Thread), sys.threads[j]? = some thj → j ≠ i → thj.inCS = false) ∧
      SlabsEq (recover sys.store.wal) (finishOp sys.store op th.pc) := by
  intro sys
  have inv : RInv sys := (RInv.init progs h).run sched
  rcases inv.cs with ⟨_, heq⟩ | hcs
  · exact Or.inl heq
  · exact Or.inr hcs

/-- non-vacuity: the run of the `emb:` example stopped after 11 picks - thread 1 is inside its
    `put_durable emb:1` (logged, index and slab written, metadata not yet): the live store still shows
    the old metadata, the recovered store the new value, which is the live store once thread 1 has
    taken its last step -/
example :
    let sys := runSched true [[.putD kE1 ⟨1, .good 1⟩, .delD kE1, .putD kE1 ⟨3, .none⟩], [.putD kE1 ⟨2, .bad 2⟩, .get kE1],
        [.putD kP1 ⟨4, .good 4⟩, .scan []]] [0, 1, 2, 0, 0, 0, 1, 1, 1]
    (sys.threads.map (·.pc)) = [.start, .putEmbAfterVector, .start] ∧
    aget sys.store.md kE1 = some ⟨1, .good 1⟩ ∧
    aget (recover sys.store.wal).md kE1 = some ⟨2, .bad 2⟩ ∧
    aget (finishOp sys.store (.putD kE1 ⟨2, .bad 2⟩) .putEmbAfterVector).md kE1 = some ⟨2, .bad 2⟩ ∧
    (recover sys.store.wal).slab = (finishOp sys.store (.putD kE1 ⟨2, .bad 2⟩) .putEmbAfterVector).slab := by
  decide

/-- non-vacuity: the hypotheses hold of the race the statement is about — `delete_durable user:1`
    of a key that is absent at the start is granted while `put_durable user:1` is between its log
    step and its apply (it does not move), then logs its `MetadataDelete` AFTER the set and removes
    the value: the run is complete, memory and the recovered store both say "absent"; and of a
    three-thread put / put / delete run on one key that ends with the key present in both -/
example :
    (∀ p ∈ putDeleteAbsentProgs, ∀ op ∈ p, op.durableOrRead = true) ∧
    quiescent (runSched true putDeleteAbsentProgs putDeleteAbsentSched) = true ∧
    (runSched true putDeleteAbsentProgs putDeleteAbsentSched).hist.map (fun r => (r.t, r.res, r.inv, r.ret))
      = [(0, .ok, 0, 1), (1, .ok, 2, 3)] ∧
    (runSched true putDeleteAbsentProgs putDeleteAbsentSched).store.wal
      = [.metaSet kP1 ⟨1, .none⟩, .metaDel kP1] ∧
    view (runSched true putDeleteAbsentProgs putDeleteAbsentSched).store kP1 = (.notFound, false, false) ∧
    view (recover (runSched true putDeleteAbsentProgs putDeleteAbsentSched).store.wal) kP1
      = (.notFound, false, false) ∧
    quiescent (runSched true [[.putD kP1 ⟨1, .none⟩], [.putD kP1 ⟨2, .none⟩], [.delD kP1]]
      [0, 2, 0, 2, 1, 2, 1, 1]) = true ∧
    (runSched true [[.putD kP1 ⟨1, .none⟩], [.putD kP1 ⟨2, .none⟩], [.delD kP1]]
      [0, 2, 0, 2, 1, 2, 1, 1]).store.wal
      = [.metaSet kP1 ⟨1, .none⟩, .metaDel kP1, .metaSet kP1 ⟨2, .none⟩] ∧
    view (recover (runSched true [[.putD kP1 ⟨1, .none⟩], [.putD kP1 ⟨2, .none⟩], [.delD kP1]]
      [0, 2, 0, 2, 1, 2, 1, 1]).store.wal) kP1 = (.found ⟨2, .none⟩, true, true) := by decide

/-- NOT THE CODE (`runSchedDelSkipIfAbsent`: `delete_durable` evaluates `exists(key)` before it takes
    the log mutex and appends its records only if the key was there; the in-memory delete under the
    mutex is unconditional).  Two threads, `user:1` absent at the start: A logs its set and holds the
    mutex; B enters `delete_durable`, sees the key absent and waits for the mutex; A applies and
    returns Ok; B gets the mutex, appends nothing, finds the key present, removes it and returns Ok.
    Every reader of the live store sees `user:1` absent; the log holds the set alone, so the
    recovered store has `user:1` = A's value.  On the step machine of the code (`runSched`) the same
    picks end with the delete record logged after the set and the two stores equal. -/
theorem delete_skip_if_absent_witness :
    quiescent (runSchedDelSkipIfAbsent true putDeleteAbsentProgs putDeleteAbsentSched) = true ∧
    (runSchedDelSkipIfAbsent true putDeleteAbsentProgs putDeleteAbsentSched).hist.map (fun r => (r.t, r.res))
      = [(0, .ok), (1, .ok)] ∧
    (runSchedDelSkipIfAbsent true putDeleteAbsentProgs putDeleteAbsentSched).store.wal
      = [.metaSet kP1 ⟨1, .none⟩] ∧
    view (runSchedDelSkipIfAbsent true putDeleteAbsentProgs putDeleteAbsentSched).store kP1
      = (.notFound, false, false) ∧
    view (recover (runSchedDelSkipIfAbsent true putDeleteAbsentProgs putDeleteAbsentSched).store.wal) kP1
      = (.found ⟨1, .none⟩, true, true) ∧
    ¬ DurableOrderEqMemoryOrder runSchedDelSkipIfAbsent ∧
    (runSched true putDeleteAbsentProgs putDeleteAbsentSched).store.wal
      = [.metaSet kP1 ⟨1, .none⟩, .metaDel kP1] := by
  refine ⟨by decide, by decide, by decide, by decide, by decide, ?_, by decide⟩
  intro h
  have := h putDeleteAbsentProgs putDeleteAbsentSched (by decide) (by decide) kP1
  revert this
  decide

/-- the variant differs from the code ONLY in that race: sequentially (here: delete of a missing
    key, put, delete, delete again) it reaches the same memory and the same recovered store, with a
    shorter log -/
example :
    (runSchedDelSkipIfAbsent true [[.delD kP1, .putD kP1 ⟨1, .none⟩, .delD kP1, .delD kP1]]
      [0, 0, 0, 0, 0, 0, 0, 0]).store.wal = [.metaSet kP1 ⟨1, .none⟩, .metaDel kP1] ∧
    (runSched true [[.delD kP1, .putD kP1 ⟨1, .none⟩, .delD kP1, .delD kP1]]
      [0, 0, 0, 0, 0, 0, 0, 0]).store.wal = [.metaDel kP1, .metaSet kP1 ⟨1, .none⟩, .metaDel kP1, .metaDel kP1] ∧
    (runSchedDelSkipIfAbsent true [[.delD kP1, .putD kP1 ⟨1, .none⟩, .delD kP1, .delD kP1]]
      [0, 0, 0, 0, 0, 0, 0, 0]).hist.map (·.res) = [.notFound, .ok, .ok, .notFound] ∧
    view (recover (runSchedDelSkipIfAbsent true [[.delD kP1, .putD kP1 ⟨1, .none⟩, .delD kP1, .delD kP1]]
      [0, 0, 0, 0, 0, 0, 0, 0]).store.wal) kP1 = (.notFound, false, false) := by decide

end Neumann.KV.Props
