import NeumannModel.KV.Lemmas
/-
  C11 — concurrent store operations behave as if executed one at a time.
-/
namespace Neumann.KV.Props
open Neumann.KV

/-- FULL STATEMENT for `emb:` keys (false of the code as it is, see `emb_mixture_witness`). -/
def EmbLinearizable : Prop :=
  ∀ (walOn : Bool) (progs : List ThreadProgram) (sched : List Nat),
    Linearizable (runSched walOn progs sched).hist

/-- FULL STATEMENT for durable writes (false of the code as it is, see `durable_order_witness`):
    once every thread has finished, the store recovered from the log shows every key exactly as
    the in-memory store does. -/
def DurableOrderEqMemoryOrder : Prop :=
  ∀ (progs : List ThreadProgram) (sched : List Nat),
    (∀ p ∈ progs, ∀ op ∈ p, op.simpleDurablePut = true) →
    quiescent (runSched true progs sched) = true →
    ∀ k, view (recover (runSched true progs sched).store.wal) k = view (runSched true progs sched).store k

theorem durable_order_witness : ¬ DurableOrderEqMemoryOrder := by
  intro h
  have := h durableOrderProgs durableOrderSched (by decide) (by decide) kP1
  revert this
  decide

end Neumann.KV.Props
