import NeumannModel.KV.SlabLemmas
import NeumannModel.KV.SlabStoreLemmas
import NeumannModel.KV.EmbLemmas
/-
  C11 — the embedding slab as it is (index id ↦ slot, free list, bump pointer) and
  `TensorStore::clear`: "a read never returns a value that was never written" TO THE KEY IT READS.

  A get of an `emb:` key reads the vector from the slot the slab's index has for the key's entity id.
  The value it returns is the key's own as long as no two live ids share a slot; that is what the
  allocator (free list first, bump pointer otherwise) has to guarantee across deletes AND clears -
  `clear` resets the bump pointer to 0, so it must also empty the free list.

  `eRun false ops` / `sRun false ops` = the code; `… true …` = `clear` without `free_slots.clear()`.
  `clear` is a quiescent whole-store operation: sequential histories.
-/
namespace Neumann.KV.SlabProps
open Neumann.KV

/-- FULL STRENGTH (slab calls): after EVERY history of set / delete / clear on the slab, in any
    order and number, no two live entity ids share a slot. -/
theorem slab_no_two_live_ids_share_a_slot (ops : List EOp) (a b sl : Nat)
    (ha : aget (eRun false ops).index a = some sl) (hb : aget (eRun false ops).index b = some sl) :
    a = b :=
  (slab_run_from ops {} [] SlabInv.init Refines.init).1.inj a b sl ha hb

/-- … and no live slot is on the free list or at / above the bump pointer (the two places the
    allocator takes slots from), and the free list has no slot twice. -/
theorem slab_allocator_never_hands_out_a_live_slot (ops : List EOp) :
    let e := eRun false ops
    (∀ a sl, aget e.index a = some sl → sl ∉ e.free ∧ sl < e.wpos) ∧ e.free.Nodup ∧
      ∀ sl, sl ∈ e.free → sl < e.wpos :=
  let h := (slab_run_from ops {} [] SlabInv.init Refines.init).1
  ⟨fun a sl ha => ⟨h.disj a sl ha, h.live_lt a sl ha⟩, h.nodup, h.free_lt⟩

/-- FULL STRENGTH (slab calls): after every history with deletes and clears, `get` reads the slab
    exactly as the map id ↦ vector the concurrent model (`Store.slab`: `aset` / `aerase`, empty
    after clear) sees it - the slots, the free list and the bump pointer are not observable. -/
theorem slab_get_is_the_map_of_the_concurrent_model (ops : List EOp) (id : Nat) :
    eGet (eRun false ops) id = aget (mRun ops) id :=
  (slab_run_from ops {} [] SlabInv.init Refines.init).2 id

/-- the value oracle: a get returns exactly the LAST vector set for that id, whatever happened
    before that set and whatever other ids did afterwards (sets, deletes - not a clear) -/
theorem slab_get_returns_the_last_vector_set_for_that_id (before later : List EOp) (id t : Nat)
    (h : ∀ op ∈ later, op.touches id = false) :
    eGet (eRun false (before ++ .set id t :: later)) id = some t := by
  rw [slab_get_is_the_map_of_the_concurrent_model]
  unfold mRun
  rw [List.foldl_append, List.foldl_cons, aget_mRun_untouched id later _ h]
  simp [mStep, aget_aset]

/-- non-vacuity: a history with a delete before a clear and two other ids written afterwards -/
example : eGet (eRun false ([.set 0 1, .del 0, .clear] ++ .set 1 2 :: [.set 2 3])) 1 = some 2 :=
  slab_get_returns_the_last_vector_set_for_that_id _ _ 1 2 (by decide)

/-- a cleared or deleted id reads as absent -/
theorem slab_get_after_clear_is_absent (before : List EOp) (id : Nat) :
    eGet (eRun false (before ++ [.clear])) id = none := by
  rw [slab_get_is_the_map_of_the_concurrent_model]
  simp [mRun, List.foldl_append, mStep, aget]

/-- FULL STRENGTH (store operations): after EVERY sequential history of put / get / delete /
    exists / clear on keys of every class and values with / without / with a wrong-dimension
    vector, no two live `emb:` keys share a slot of the slab. -/
theorem store_no_two_live_keys_share_a_slot (ops : List SOp) (k k' : Key) (sl : Nat)
    (h : sSlot (sRun false ops).1 k = some sl) (h' : sSlot (sRun false ops).1 k' = some sl) :
    k = k' := by
  have inv := sRunFrom_inv ops {} SlabInv.init
  unfold sSlot at h h'
  change SlabInv (sRun false ops).1.es at inv
  cases hi : idxGet (sRun false ops).1.vocab k with
  | none => rw [hi] at h; simp at h
  | some i =>
    cases hi' : idxGet (sRun false ops).1.vocab k' with
    | none => rw [hi'] at h'; simp at h'
    | some i' =>
      rw [hi] at h; rw [hi'] at h'
      have : i = i' := inv.inj i i' sl h h'
      subst this
      exact idxGet_inj hi hi'

/-- FULL STRENGTH (store operations), THE VALUE ORACLE: every sequential history of put / get /
    delete / exists / clear - any length, any number of clears, keys of every class, values with /
    without / with a wrong-dimension vector - answers exactly as the map key ↦ last value put
    (`sSpecRunFrom`: clear empties the map): a get returns the last value put to THAT key, never
    another key's vector, never a value from before a delete or a clear. -/
theorem store_sequential_history_is_the_map_of_last_values_put (ops : List SOp) :
    (sRun false ops).2 = sSpecRunFrom [] ops :=
  sRunFrom_is_the_map ops {} [] Coh.init

/-- `clear` without `free_slots.clear()` (not the code) is not that map -/
theorem clearKeepsFreeList_history_is_not_the_map_witness :
    (sRun true clearKeepsFreeListOps).2 ≠ sSpecRunFrom [] clearKeepsFreeListOps := by decide

/-- non-vacuity: two keys live after a delete and a clear, in different slots -/
example : sSlot (sRun false (clearKeepsFreeListOps)).1 kE2 = some 0 ∧
    sSlot (sRun false (clearKeepsFreeListOps)).1 kE3 = some 1 := by decide

/-- the code on the shortest history: get(emb:2) returns the vector put to emb:2 -/
theorem clear_then_puts_read_their_own_vectors :
    (sRun false clearKeepsFreeListOps).2.getLast? = some (.found ⟨2, .good 2⟩) := by decide

/-- `clear` WITHOUT `free_slots.clear()` (not the code): put a, delete a, clear, put b, put c -
    b pops the stale free slot 0, the bump pointer (back at 0) hands slot 0 to c as well; the two
    live keys share the slot and get(b) returns the vector that was only ever written to c. -/
theorem clearKeepsFreeList_two_keys_share_a_slot_witness :
    sSlot (sRun true clearKeepsFreeListOps).1 kE2 = some 0 ∧
    sSlot (sRun true clearKeepsFreeListOps).1 kE3 = some 0 ∧
    (sRun true clearKeepsFreeListOps).2.getLast? = some (.found ⟨2, .good 3⟩) := by decide

/-- the same at the slab: the statement of `slab_get_is_the_map_of_the_concurrent_model` fails -/
theorem clearKeepsFreeList_get_is_not_the_map_witness :
    ¬ ∀ (ops : List EOp) (id : Nat), eGet (eRun true ops) id = aget (mRun ops) id := by
  intro h
  exact absurd (h [.set 0 1, .del 0, .clear, .set 1 2, .set 2 3] 1) (by decide)

end Neumann.KV.SlabProps
