import NeumannModel.KV.EmbLemmas
import NeumannModel.KV.Bloom
/-
  Helper lemmas for the store with a Bloom filter (C11, `BloomProps.lean`).
-/
namespace Neumann.KV

/-! ### which keys a router step can make visible -/

theorem visible_congr {s s' : Store} (h1 : s'.md = s.md) (h2 : s'.cache = s.cache)
    (h3 : s'.vocab = s.vocab) (k : Key) : visible s' k = visible s k := by
  simp [visible, h1, h2, h3]

theorem idxGet_idxRemove_isSome {v : List (Key × Bool)} {k k' : Key}
    (h : (idxGet (idxRemove v k) k').isSome = true) : (idxGet v k').isSome = true := by
  cases hv : idxGet v k' with
  | some i => rfl
  | none =>
    exfalso
    have hnot : (k', true) ∉ v := idxGet_none.mp hv
    have : idxGet (idxRemove v k) k' = none := by
      rw [idxGet_none]
      unfold idxRemove
      cases hk : idxGet v k with
      | none => exact hnot
      | some i =>
        intro hm
        rcases mem_set_cases hm with h' | h'
        · exact hnot h'
        · simp at h'
    rw [this] at h
    simp at h

theorem idxGet_create_isSome {v : List (Key × Bool)} {k k' : Key}
    (h : (idxGet (idxGetOrCreate v k).2 k').isSome = true) : (idxGet v k').isSome = true ∨ k = k' := by
  by_cases e : k' = k
  · exact Or.inr e.symm
  · rw [idxGetOrCreate_other v e] at h
    exact Or.inl h

/-- every key a step makes visible is the key of the `put` / `put_durable` that takes the step -/
def Grows (s s' : Store) (op : Op) : Prop :=
  ∀ k', visible s' k' = true → visible s k' = true ∨ op.putKey? = some k'

theorem Grows.refl (s : Store) (op : Op) : Grows s s op := fun _ h => Or.inl h

theorem Grows.of_congr {s s' : Store} {op : Op} (h1 : s'.md = s.md) (h2 : s'.cache = s.cache)
    (h3 : s'.vocab = s.vocab) : Grows s s' op := fun k h => Or.inl (by rwa [visible_congr h1 h2 h3] at h)

theorem grows_setMd (s : Store) (k : Key) (v : Val) (op : Op) (hk : op.putKey? = some k) :
    Grows s { s with md := aset s.md k v } op := by
  intro k' h
  by_cases e : k = k'
  · exact Or.inr (e ▸ hk)
  · left
    simpa [visible, aget_aset, e] using h

theorem grows_setCache (s : Store) (k : Key) (v : Val) (op : Op) (hk : op.putKey? = some k) :
    Grows s { s with cache := aset s.cache k v } op := by
  intro k' h
  by_cases e : k = k'
  · exact Or.inr (e ▸ hk)
  · left
    simpa [visible, aget_aset, e] using h

theorem grows_createIdx (s : Store) (k : Key) (op : Op) (hk : op.putKey? = some k) :
    Grows s { s with vocab := (idxGetOrCreate s.vocab k).2 } op := by
  intro k' h
  simp only [visible, Bool.or_eq_true] at h ⊢
  rcases h with (h | h) | h
  · exact Or.inl (Or.inl (Or.inl h))
  · exact Or.inl (Or.inl (Or.inr h))
  · rcases idxGet_create_isSome h with h' | h'
    · exact Or.inl (Or.inr h')
    · exact Or.inr (h' ▸ hk)

theorem grows_eraseMd (s : Store) (k : Key) (op : Op) : Grows s { s with md := aerase s.md k } op := by
  intro k' h
  left
  simp only [visible, Bool.or_eq_true, aget_aerase] at h ⊢
  by_cases e : k = k'
  · simp only [e, if_true] at h
    rcases h with (h | h) | h
    · simp at h
    · exact Or.inl (Or.inr h)
    · exact Or.inr h
  · simpa [e] using h

theorem grows_eraseCache (s : Store) (k : Key) (op : Op) : Grows s { s with cache := aerase s.cache k } op := by
  intro k' h
  left
  simp only [visible, Bool.or_eq_true, aget_aerase] at h ⊢
  by_cases e : k = k'
  · simp only [e, if_true] at h
    rcases h with (h | h) | h
    · exact Or.inl (Or.inl h)
    · simp at h
    · exact Or.inr h
  · simpa [e] using h

theorem grows_removeIdx (s : Store) (k : Key) (op : Op) : Grows s { s with vocab := idxRemove s.vocab k } op := by
  intro k' h
  left
  simp only [visible, Bool.or_eq_true] at h ⊢
  rcases h with h | h
  · exact Or.inl h
  · exact Or.inr (idxGet_idxRemove_isSome h)

theorem grows_routerPut (s : Store) (k : Key) (v : Val) (op : Op) (hk : op.putKey? = some k) :
    Grows s (routerPut s k v).1 op := by
  unfold routerPut
  split
  · exact grows_createIdx s k op hk
  · exact grows_setCache s k v op hk
  · exact grows_setMd s k v op hk

theorem grows_routerGet (s : Store) (k : Key) (op : Op) : Grows s (routerGet s k).1 op := by
  unfold routerGet
  split
  · split <;> exact Grows.refl s op
  · exact Grows.refl s op
  · exact Grows.refl s op

theorem grows_routerDelete (s : Store) (k : Key) (op : Op) : Grows s (routerDelete s k).1 op := by
  unfold routerDelete
  split
  · exact Grows.refl s op
  · split
    · exact Grows.of_congr rfl rfl rfl
    · exact grows_eraseCache s k op
    · exact grows_eraseMd s k op

theorem grows_logPut (s : Store) (k : Key) (v : Val) (op : Op) (hk : op.putKey? = some k) :
    Grows s (logPut s k v) op := by
  unfold logPut
  split
  · exact Grows.refl s op
  · split
    · exact Grows.of_congr rfl rfl rfl
    · split
      · exact Grows.of_congr rfl rfl rfl
      · intro k' h
        exact grows_createIdx s k op hk k' (by simpa [visible] using h)

theorem grows_logDelete (s : Store) (k : Key) (op : Op) : Grows s (logDelete s k) op := by
  unfold logDelete
  split
  · exact Grows.refl s op
  · split <;> exact Grows.of_congr rfl rfl rfl

/-- THE FRAME LEMMA: a router step makes no key visible except the key of the `put` /
    `put_durable` it belongs to -/
theorem grows_stepOp (s : Store) (op : Op) (pc : PC) : Grows s (stepOp s op pc).1 op := by
  cases pc with
  | start =>
    cases op with
    | put k v => exact grows_routerPut s k v _ rfl
    | get k => exact grows_routerGet s k _
    | delete k => exact grows_routerDelete s k _
    | exists_ k => exact Grows.refl _ _
    | scan p => exact Grows.refl _ _
    | putD k v =>
      simp only [stepOp]
      split
      · exact grows_routerPut s k v _ rfl
      · exact grows_logPut s k v _ rfl
    | delD k =>
      simp only [stepOp]
      split
      · exact grows_routerDelete s k _
      · exact grows_logDelete s k _
  | putEmbAfterIndex id =>
    cases op <;> simp only [stepOp] <;> first | exact Grows.refl _ _ | exact Grows.of_congr rfl rfl rfl
  | putEmbAfterVector =>
    cases op <;> simp only [stepOp] <;> first | exact Grows.refl _ _ | exact grows_setMd _ _ _ _ rfl
  | getEmbAfterIndex id =>
    cases op <;> simp only [stepOp] <;> first | exact Grows.refl _ _ | (split <;> exact Grows.refl _ _)
  | getEmbAfterVector t =>
    cases op <;> simp only [stepOp] <;> exact Grows.refl _ _
  | delEmbAfterVector =>
    cases op <;> simp only [stepOp] <;> first | exact Grows.refl _ _ | exact grows_removeIdx _ _ _
  | delEmbAfterIndex =>
    cases op <;> simp only [stepOp] <;> first | exact Grows.refl _ _ | exact grows_eraseMd _ _ _
  | putDAfterLog =>
    cases op <;> simp only [stepOp] <;> first | exact Grows.refl _ _ | exact grows_routerPut _ _ _ _ rfl
  | delDAfterLog =>
    cases op <;> simp only [stepOp] <;> first | exact Grows.refl _ _ | exact grows_routerDelete _ _ _

/-! ### a key the filter does not know is not in the slabs: the router says so too -/

theorem routerGet_invisible {s : Store} {k : Key} (h : visible s k = false) :
    routerGet s k = (s, .done .notFound) := by
  simp only [visible, Bool.or_eq_false_iff, Option.isSome_eq_false_iff, Option.isNone_iff_eq_none] at h
  obtain ⟨⟨h1, h2⟩, h3⟩ := h
  unfold routerGet mdGet
  split <;> simp [h1, h2, h3]

theorem existsNow_invisible {s : Store} {k : Key} (h : visible s k = false) : existsNow s k = false := by
  simp only [visible, Bool.or_eq_false_iff, Option.isSome_eq_false_iff, Option.isNone_iff_eq_none] at h
  obtain ⟨⟨h1, h2⟩, h3⟩ := h
  unfold existsNow
  split <;> simp [h1, h2, h3]

theorem existsNow_visible {s : Store} {k : Key} (h : existsNow s k = true) : visible s k = true := by
  unfold existsNow at h
  simp only [visible, Bool.or_eq_true]
  split at h
  · simp only [Bool.or_eq_true] at h
    rcases h with h | h
    · exact Or.inr h
    · exact Or.inl (Or.inl h)
  · exact Or.inl (Or.inr h)
  · exact Or.inl (Or.inl h)

/-- every key a scan lists is visible -/
theorem scanNow_visible {s : Store} {p : List Nat} {k : Key} (h : k ∈ scanNow s p) : visible s k = true := by
  rw [mem_scanNow_iff] at h
  simp only [visible, Bool.or_eq_true]
  rcases h with ⟨_, h⟩ | ⟨_, h | h⟩
  · exact Or.inl (Or.inl h)
  · exact Or.inr (mem_liveKeys.mp h)
  · exact Or.inl (Or.inr h)

/-- `router.scan("")` lists every visible key: the filter rebuilt by `load_snapshot_with_bloom_filter` /
    `recover_with_bloom` knows them all -/
theorem visible_mem_scanAll {s : Store} {k : Key} (h : visible s k = true) : k ∈ scanNow s [] := by
  rw [mem_scanNow_iff]
  simp only [visible, Bool.or_eq_true] at h
  rcases h with (h | h) | h
  · exact Or.inl ⟨by simp [mdMatch], h⟩
  · exact Or.inr ⟨by simp [pmatch, isPfx], Or.inr h⟩
  · exact Or.inr ⟨by simp [pmatch, isPfx], Or.inl (mem_liveKeys.mpr h)⟩

/-! ### (A) the invariant of the hook-level machine -/

/-- the filter knows every visible key, and the key of every `put` / `put_durable` that has taken
    its first step -/
structure BInv (b : BSys) : Prop where
  cov : ∀ k, visible b.sys.store k = true → k ∈ b.added
  mid : ∀ th ∈ b.sys.threads, th.pc ≠ .start → ∀ op rest, th.ops = op :: rest →
          ∀ k, op.putKey? = some k → k ∈ b.added

theorem mem_filterAdd_of_mem {added : List Key} {op : Op} {k : Key} (h : k ∈ added) : k ∈ filterAdd added op := by
  unfold filterAdd
  split
  · exact List.mem_cons_of_mem _ h
  · exact h

theorem mem_filterAdd_key {added : List Key} {op : Op} {k : Key} (h : op.putKey? = some k) :
    k ∈ filterAdd added op := by
  unfold filterAdd
  rw [h]
  exact List.mem_cons_self

/-- under the invariant the filtered step IS the router's step: the fast path answers what the
    router would -/
theorem stepOpB_fst (fp : Key → Bool) {s : Store} {added : List Key}
    (hc : ∀ k, visible s k = true → k ∈ added) (op : Op) (pc : PC) :
    (stepOpB fp s added op pc).1 = stepOp s op pc := by
  have key : ∀ k, mightContain fp added k = false → visible s k = false := by
    intro k hm
    cases hv : visible s k with
    | false => rfl
    | true =>
      have := hc k hv
      simp [mightContain, this] at hm
  cases pc <;> cases op <;> simp only [stepOpB]
  · split
    · rfl
    · rename_i k hm
      simp only [stepOp]
      exact (routerGet_invisible (key _ (by simpa using hm))).symm
  · split
    · rfl
    · rename_i k hm
      simp only [stepOp]
      rw [existsNow_invisible (key _ (by simpa using hm))]

theorem stepOpB_mono (fp : Key → Bool) (s : Store) (added : List Key) (op : Op) (pc : PC) {k : Key}
    (h : k ∈ added) : k ∈ (stepOpB fp s added op pc).2 := by
  cases pc <;> cases op <;> simp only [stepOpB] <;> (try split) <;>
    first | exact h | exact mem_filterAdd_of_mem h

theorem stepOpB_start_key (fp : Key → Bool) (s : Store) (added : List Key) (op : Op) {k : Key}
    (h : op.putKey? = some k) : k ∈ (stepOpB fp s added op .start).2 := by
  cases op with
  | put k' v => simp only [stepOpB]; exact mem_filterAdd_key h
  | putD k' v => simp only [stepOpB]; exact mem_filterAdd_key h
  | _ => simp [Op.putKey?] at h

/-! ### one scheduler step of (A) -/

theorem stepOldG_cont {f : StepFn} {b : BSys} {t : Nat} {th : Thread} {op : Op} {rest : List Op}
    {s' : Store} {pc' : PC} (hth : b.sys.threads[t]? = some th) (hops : th.ops = op :: rest)
    (hstep : (f b.sys.store b.added op th.pc).1 = (s', .cont pc')) :
    stepOldG f b t = ⟨afterCont b.sys t th op s' pc', (f b.sys.store b.added op th.pc).2⟩ := by
  unfold stepOldG afterCont
  simp only [hth, hops, hstep]

theorem stepOldG_done {f : StepFn} {b : BSys} {t : Nat} {th : Thread} {op : Op} {rest : List Op}
    {s' : Store} {r : Res} (hth : b.sys.threads[t]? = some th) (hops : th.ops = op :: rest)
    (hstep : (f b.sys.store b.added op th.pc).1 = (s', .done r)) :
    stepOldG f b t = ⟨afterDone b.sys t th op rest s' r, (f b.sys.store b.added op th.pc).2⟩ := by
  unfold stepOldG afterDone
  simp only [hth, hops, hstep]

/-- a step function whose slabs-and-outcome part is the router's -/
theorem stepOldG_sys {f : StepFn} {b : BSys} (t : Nat)
    (hf : ∀ op pc, (f b.sys.store b.added op pc).1 = stepOp b.sys.store op pc) :
    (stepOldG f b t).sys = stepOld b.sys t := by
  cases hth : b.sys.threads[t]? with
  | none => unfold stepOldG stepOld; simp only [hth]
  | some th =>
    cases hops : th.ops with
    | nil => unfold stepOldG stepOld; simp only [hth, hops]
    | cons op rest =>
      cases hstep : stepOp b.sys.store op th.pc with
      | mk s' out =>
        cases out with
        | cont pc' =>
          rw [stepOldG_cont hth hops ((hf op th.pc).trans hstep), stepOld_cont hth hops hstep]
        | done r =>
          rw [stepOldG_done hth hops ((hf op th.pc).trans hstep), stepOld_done hth hops hstep]

theorem stepG_sys {f : StepFn} {b : BSys} (t : Nat)
    (hf : ∀ op pc, (f b.sys.store b.added op pc).1 = stepOp b.sys.store op pc) :
    (stepG f b t).sys = step b.sys t := by
  unfold stepG step
  cases hth : b.sys.threads[t]? with
  | none => rfl
  | some th =>
    simp only
    cases hops : th.ops with
    | nil => rfl
    | cons op rest =>
      simp only
      by_cases hb : (b.sys.store.walOn && op.takesLock && decide (th.pc = .start) && b.sys.threads.any Thread.inCS) = true
      · simp only [hb, if_true]
      · simp only [hb]
        exact stepOldG_sys t hf

theorem BInv.stepOld {b : BSys} (h : BInv b) (fp : Key → Bool) (t : Nat) :
    BInv (stepOldG (stepOpB fp) b t) := by
  cases hth : b.sys.threads[t]? with
  | none => unfold stepOldG; simp only [hth]; exact h
  | some th =>
    cases hops : th.ops with
    | nil => unfold stepOldG; simp only [hth, hops]; exact h
    | cons op rest =>
      have hmem : th ∈ b.sys.threads := List.mem_of_getElem? hth
      -- the key of a put that takes this step is in the filter afterwards
      have hkey : ∀ k, op.putKey? = some k → k ∈ (stepOpB fp b.sys.store b.added op th.pc).2 := by
        intro k hk
        by_cases hp : th.pc = .start
        · rw [hp]; exact stepOpB_start_key fp _ _ op hk
        · exact stepOpB_mono fp _ _ _ _ (h.mid th hmem hp op rest hops k hk)
      have hcov : ∀ k, visible (stepOp b.sys.store op th.pc).1 k = true →
          k ∈ (stepOpB fp b.sys.store b.added op th.pc).2 := by
        intro k hv
        rcases grows_stepOp _ _ _ k hv with h1 | h1
        · exact stepOpB_mono fp _ _ _ _ (h.cov k h1)
        · exact hkey k h1
      have hold : ∀ th' ∈ b.sys.threads, th'.pc ≠ .start → ∀ op' rest', th'.ops = op' :: rest' →
          ∀ k, op'.putKey? = some k → k ∈ (stepOpB fp b.sys.store b.added op th.pc).2 :=
        fun th' hm hp op' rest' ho k hk => stepOpB_mono fp _ _ _ _ (h.mid th' hm hp op' rest' ho k hk)
      cases hstep : stepOp b.sys.store op th.pc with
      | mk s' out =>
        have hs' : s' = (stepOp b.sys.store op th.pc).1 := by rw [hstep]
        cases out with
        | cont pc' =>
          rw [stepOldG_cont hth hops ((stepOpB_fst fp h.cov op th.pc).trans hstep)]
          refine ⟨fun k hv => hcov k (by rw [← hs']; exact hv), ?_⟩
          intro th' hm hp op' rest' ho k hk
          rcases mem_set_cases hm with hm' | hm'
          · exact hold th' hm' hp op' rest' ho k hk
          · subst hm'
            simp only [hops, List.cons.injEq] at ho
            obtain ⟨rfl, rfl⟩ := ho
            exact hkey k hk
        | done r =>
          rw [stepOldG_done hth hops ((stepOpB_fst fp h.cov op th.pc).trans hstep)]
          refine ⟨fun k hv => hcov k (by rw [← hs']; exact hv), ?_⟩
          intro th' hm hp op' rest' ho k hk
          rcases mem_set_cases hm with hm' | hm'
          · exact hold th' hm' hp op' rest' ho k hk
          · subst hm'
            exact absurd rfl hp

theorem BInv.step {b : BSys} (h : BInv b) (fp : Key → Bool) (t : Nat) : BInv (stepG (stepOpB fp) b t) := by
  unfold stepG
  split
  · exact h
  · split
    · exact h
    · split
      · exact h
      · exact h.stepOld fp t

theorem BInv.run {b : BSys} (h : BInv b) (fp : Key → Bool) (sched : List Nat) :
    BInv (runFromG (stepOpB fp) b sched) := by
  induction sched generalizing b with
  | nil => exact h
  | cons t rest ih => exact ih (h.step fp t)

theorem run_sys {b : BSys} (h : BInv b) (fp : Key → Bool) (sched : List Nat) :
    (runFromG (stepOpB fp) b sched).sys = runFrom b.sys sched := by
  induction sched generalizing b with
  | nil => rfl
  | cons t rest ih =>
    have := ih (h.step fp t)
    simp only [runFromG, runFrom, List.foldl_cons] at this ⊢
    rw [this, stepG_sys t (fun op pc => stepOpB_fst fp h.cov op pc)]

theorem BInv.init (walOn : Bool) (progs : List ThreadProgram) : BInv (initB walOn progs) := by
  refine ⟨fun k hv => ?_, fun th hm hp => ?_⟩
  · simp [initB, initSys, visible, aget, idxGet, idxGetAux] at hv
  · simp only [initB, initSys, List.mem_map] at hm
    obtain ⟨p, _, rfl⟩ := hm
    exact absurd rfl hp

theorem BInv.load (s : Store) (progs : List ThreadProgram) : BInv (loadB s progs) := by
  refine ⟨fun k hv => visible_mem_scanAll hv, fun th hm hp => ?_⟩
  simp only [loadB, List.mem_map] at hm
  obtain ⟨p, _, rfl⟩ := hm
  exact absurd rfl hp

/-! ### (B) the invariant of the finer machine -/

/-- the filter knows every visible key, and the key of every `put` / `put_durable` whose prologue
    has run -/
structure FInv (sys : FSys) : Prop where
  cov : ∀ k, visible sys.store k = true → k ∈ sys.added
  mid : ∀ th ∈ sys.threads, th.pc ≠ .pre → ∀ op rest, th.ops = op :: rest →
          ∀ k, op.putKey? = some k → k ∈ sys.added

theorem FInv.init (s : Store) (progs : List ThreadProgram) : FInv (finit s progs) := by
  refine ⟨fun k hv => visible_mem_scanAll hv, fun th hm hp => ?_⟩
  simp only [finit, List.mem_map] at hm
  obtain ⟨p, _, rfl⟩ := hm
  exact absurd rfl hp

/-- the shape of every step: the slabs grow only by the key of the stepping thread's put, the
    filter only grows, the other threads are untouched -/
theorem FInv.of_step {sys sys' : FSys} (h : FInv sys) {t : Nat} {th thNew : FThread} {op : Op} {rest : List Op}
    (hth : sys.threads[t]? = some th) (hops : th.ops = op :: rest)
    (hthreads : sys'.threads = sys.threads.set t thNew)
    (hmono : ∀ k, k ∈ sys.added → k ∈ sys'.added)
    (hstore : ∀ k, visible sys'.store k = true → visible sys.store k = true ∨ (th.pc ≠ .pre ∧ op.putKey? = some k))
    (hnew : thNew.pc ≠ .pre → thNew.ops = op :: rest ∧ (th.pc = .pre → ∀ k, op.putKey? = some k → k ∈ sys'.added)) :
    FInv sys' := by
  have hmem : th ∈ sys.threads := List.mem_of_getElem? hth
  refine ⟨fun k hv => ?_, fun th' hm hp op' rest' ho k hk => ?_⟩
  · rcases hstore k hv with h1 | ⟨h1, h2⟩
    · exact hmono k (h.cov k h1)
    · exact hmono k (h.mid th hmem h1 op rest hops k h2)
  · rw [hthreads] at hm
    rcases mem_set_cases hm with hm' | hm'
    · exact hmono k (h.mid th' hm' hp op' rest' ho k hk)
    · subst hm'
      obtain ⟨e, hk'⟩ := hnew hp
      rw [e] at ho
      simp only [List.cons.injEq] at ho
      obtain ⟨rfl, rfl⟩ := ho
      by_cases hpre : th.pc = .pre
      · exact hk' hpre k hk
      · exact hmono k (h.mid th hmem hpre op rest hops k hk)

theorem FInv.step {sys : FSys} (h : FInv sys) (bloomOn : Bool) (fp : Key → Bool) (t : Nat) :
    FInv (fstep bloomOn false fp sys t) := by
  unfold fstep
  cases hth : sys.threads[t]? with
  | none => exact h
  | some th =>
    simp only
    cases hops : th.ops with
    | nil => exact h
    | cons op rest =>
      simp only
      cases hpc : th.pc with
      | pre =>
        simp only
        have stay : ∀ (thNew : FThread) (hist : List FRec), (thNew.pc ≠ .pre → thNew.ops = op :: rest ∧ op.putKey? = none) →
            FInv { sys with threads := sys.threads.set t thNew, hist := hist } := by
          intro thNew hist hn
          refine h.of_step (sys' := { sys with threads := sys.threads.set t thNew, hist := hist }) hth hops rfl
            (fun _ hk => hk) (fun k hv => Or.inl hv) (fun hp => ⟨(hn hp).1, fun _ k hk => ?_⟩)
          rw [(hn hp).2] at hk
          simp at hk
        have addk : FInv { sys with added := filterAdd sys.added op,
                                    threads := sys.threads.set t { ops := op :: rest, pc := .call .start } } :=
          h.of_step (sys' := { sys with added := filterAdd sys.added op,
                                        threads := sys.threads.set t { ops := op :: rest, pc := .call .start } })
            hth hops rfl (fun _ hk => mem_filterAdd_of_mem hk) (fun k hv => Or.inl hv)
            (fun _ => ⟨rfl, fun _ k hk => mem_filterAdd_key hk⟩)
        cases op with
        | get k =>
          simp only
          split
          · exact stay _ _ (fun hp => absurd rfl hp)
          · exact stay _ _ (fun _ => ⟨rfl, rfl⟩)
        | exists_ k =>
          simp only
          split
          · exact stay _ _ (fun hp => absurd rfl hp)
          · exact stay _ _ (fun _ => ⟨rfl, rfl⟩)
        | put k v => simpa using addk
        | putD k v => simpa using addk
        | delete k => simpa using addk
        | delD k => simpa using addk
        | scan p => simpa using addk
      | call pc =>
        simp only
        split
        · exact h
        · have hne : th.pc ≠ .pre := by rw [hpc]; simp
          have hg := grows_stepOp sys.store op pc
          cases hstep : stepOp sys.store op pc with
          | mk s' out =>
            rw [hstep] at hg
            cases out with
            | cont pc' =>
              exact h.of_step (sys' := { sys with store := s', threads := sys.threads.set t { ops := op :: rest, pc := .call pc' } })
                hth hops rfl (fun _ hk => hk)
                (fun k hv => (hg k hv).imp id (fun e => ⟨hne, e⟩))
                (fun _ => ⟨rfl, fun hp => absurd hp hne⟩)
            | done r =>
              exact h.of_step (sys' := { sys with store := s', threads := sys.threads.set t { ops := op :: rest, pc := .post r } })
                hth hops rfl (fun _ hk => hk)
                (fun k hv => (hg k hv).imp id (fun e => ⟨hne, e⟩))
                (fun _ => ⟨rfl, fun hp => absurd hp hne⟩)
      | post r =>
        simp only [Bool.false_and, Bool.false_eq_true, if_false]
        exact h.of_step (sys' := { sys with threads := sys.threads.set t { ops := rest, pc := .pre },
                                            hist := sys.hist ++ [⟨t, op, r⟩] })
          hth hops rfl (fun _ hk => hk) (fun k hv => Or.inl hv) (fun hp => absurd rfl hp)

theorem FInv.run {sys : FSys} (h : FInv sys) (bloomOn : Bool) (fp : Key → Bool) (sched : List Nat) :
    FInv (sched.foldl (fstep bloomOn false fp) sys) := by
  induction sched generalizing sys with
  | nil => exact h
  | cons t rest ih => exact ih (h.step bloomOn fp t)

/-! ### the sequential specification: a present key stays present until it is deleted -/

/-- in a legal sequential execution a key that is present stays found while nobody deletes it -/
theorem seen_stays {k : Key} (hc : k.cls ≠ .cache) :
    ∀ (l : List OpRec) (σ : Spec), SeqValid σ l → (aget σ k).isSome = true →
      (∀ r ∈ l, r.op ≠ .delete k ∧ r.op ≠ .delD k) →
      ∀ r ∈ l, (r.op = .exists_ k → r.res ≠ .bool false) ∧ (r.op = .get k → r.res ≠ .notFound) := by
  intro l
  induction l with
  | nil => intro σ _ _ _ r hr; simp at hr
  | cons x xs ih =>
    intro σ hv hs hnd r hr
    obtain ⟨hx, hxs⟩ := hv
    rcases List.mem_cons.mp hr with rfl | hr'
    · constructor
      · intro hop hres
        rw [hop, hres] at hx
        rcases hx with hx | hx
        · simp [resEquiv, specRes, specStep, hs] at hx
        · exact hc hx
      · intro hop hres
        rw [hop, hres] at hx
        rcases hx with hx | hx
        · cases hg : aget σ k with
          | none => simp [hg] at hs
          | some v => simp [resEquiv, specRes, specStep, hg] at hx
        · exact hc hx
    · refine ih (specApply σ x.op) hxs ?_ (fun r hr => hnd r (List.mem_cons_of_mem _ hr)) r hr'
      have hx' := hnd x List.mem_cons_self
      cases hop : x.op with
      | put k' v => simp only [specApply, specStep, aget_aset]; split <;> simp [hs]
      | putD k' v => simp only [specApply, specStep, aget_aset]; split <;> simp [hs]
      | get k' => simpa [specApply, specStep] using hs
      | exists_ k' => simpa [specApply, specStep] using hs
      | scan p => simpa [specApply, specStep] using hs
      | delete k' =>
        have hne : k' ≠ k := fun e => hx'.1 (by rw [hop, e])
        simp only [specApply, specStep]
        split
        · simp only [aget_aerase, hne, if_false]; exact hs
        · exact hs
      | delD k' =>
        have hne : k' ≠ k := fun e => hx'.2 (by rw [hop, e])
        simp only [specApply, specStep]
        split
        · simp only [aget_aerase, hne, if_false]; exact hs
        · exact hs

end Neumann.KV
