import NeumannModel.KV.Model
/-
  C11 — the prefix scan of `MetadataSlab` at the level of bytes (core Lean only): byte-wise order,
  `next_prefix`, the UTF-8 decoder, and when the `BTreeMap` range is the set of keys that start with
  the prefix.
-/
namespace Neumann.KV

/-! ### prefixes -/

theorem isPfx_nil_left (k : List Nat) : isPfx [] k = true := by
  cases k <;> rfl

theorem isPfx_iff (p k : List Nat) : isPfx p k = true ↔ ∃ r, k = p ++ r := by
  induction p generalizing k with
  | nil => exact ⟨fun _ => ⟨k, rfl⟩, fun _ => isPfx_nil_left k⟩
  | cons a p ih =>
    cases k with
    | nil => simp [isPfx]
    | cons b k =>
      simp only [isPfx, Bool.and_eq_true, beq_iff_eq, ih, List.cons_append, List.cons.injEq]
      constructor
      · rintro ⟨rfl, r, rfl⟩; exact ⟨r, rfl, rfl⟩
      · rintro ⟨r, rfl, rfl⟩; exact ⟨rfl, r, rfl⟩

theorem isPfx_append (p r : List Nat) : isPfx p (p ++ r) = true := (isPfx_iff _ _).mpr ⟨r, rfl⟩

theorem isPfx_refl (p : List Nat) : isPfx p p = true := by simpa using isPfx_append p []

/-- every key that starts with a non-empty prefix lives in the shard of the prefix -/
theorem shardOf_of_isPfx {p k : List Nat} (hp : p ≠ []) (h : isPfx p k = true) :
    shardOf k = shardOf p := by
  cases p with
  | nil => exact absurd rfl hp
  | cons a p =>
    cases k with
    | nil => simp [isPfx] at h
    | cons b k =>
      simp only [isPfx, Bool.and_eq_true, beq_iff_eq] at h
      simp [shardOf, h.1]

/-! ### the byte-wise order -/

theorem bleq_nil_left (k : List Nat) : bleq [] k = true := by
  cases k <;> rfl

theorem bleq_refl (a : List Nat) : bleq a a = true := by
  induction a with
  | nil => rfl
  | cons x a ih => simp [bleq, ih]

theorem bleq_trans {a b c : List Nat} (h1 : bleq a b = true) (h2 : bleq b c = true) :
    bleq a c = true := by
  induction a generalizing b c with
  | nil => cases c <;> rfl
  | cons x a ih =>
    cases b with
    | nil => simp [bleq] at h1
    | cons y b =>
      cases c with
      | nil => simp [bleq] at h2
      | cons z c =>
        simp only [bleq, Bool.or_eq_true, decide_eq_true_eq, Bool.and_eq_true, beq_iff_eq] at h1 h2 ⊢
        rcases h1 with h1 | ⟨rfl, h1⟩
        · rcases h2 with h2 | ⟨rfl, _⟩
          · exact Or.inl (Nat.lt_trans h1 h2)
          · exact Or.inl h1
        · rcases h2 with h2 | ⟨rfl, h2⟩
          · exact Or.inl h2
          · exact Or.inr ⟨rfl, ih h1 h2⟩

theorem bleq_total (a b : List Nat) : bleq a b = true ∨ bleq b a = true := by
  induction a generalizing b with
  | nil => left; cases b <;> rfl
  | cons x a ih =>
    cases b with
    | nil => right; rfl
    | cons y b =>
      simp only [bleq, Bool.or_eq_true, decide_eq_true_eq, Bool.and_eq_true, beq_iff_eq]
      rcases Nat.lt_trichotomy x y with h | h | h
      · exact Or.inl (Or.inl h)
      · subst h
        rcases ih b with h' | h'
        · exact Or.inl (Or.inr ⟨rfl, h'⟩)
        · exact Or.inr (Or.inr ⟨rfl, h'⟩)
      · exact Or.inr (Or.inl h)

/-- a string is ≤ everything that starts with it -/
theorem bleq_of_isPfx {p k : List Nat} (h : isPfx p k = true) : bleq p k = true := by
  induction p generalizing k with
  | nil => cases k <;> rfl
  | cons a p ih =>
    cases k with
    | nil => simp [isPfx] at h
    | cons b k =>
      simp only [isPfx, Bool.and_eq_true, beq_iff_eq] at h
      simp [bleq, h.1, ih h.2]

/-- THE RANGE LEMMA: between `q ++ [b]` (inclusive) and `q ++ [b + 1]` (exclusive) lie exactly the
    strings that start with `q ++ [b]` - any bytes, any length -/
theorem range_succ_last (q : List Nat) (b : Nat) (k : List Nat) :
    (bleq (q ++ [b]) k && blt k (q ++ [b + 1])) = isPfx (q ++ [b]) k := by
  induction q generalizing k with
  | nil =>
    cases k with
    | nil => simp [bleq, blt, isPfx]
    | cons y k =>
      simp only [List.nil_append, bleq, blt, isPfx, Bool.and_true]
      rw [Bool.eq_iff_iff]
      simp only [Bool.and_eq_true, Bool.or_eq_true, decide_eq_true_eq, beq_iff_eq,
        Bool.not_eq_true', Bool.or_eq_false_iff, decide_eq_false_iff_not, beq_eq_false_iff_ne]
      omega
  | cons x q ih =>
    cases k with
    | nil => simp [bleq, blt, isPfx]
    | cons y k =>
      have ih' := ih k
      simp only [blt] at ih'
      simp only [List.cons_append, bleq, blt, isPfx]
      rcases Nat.lt_trichotomy x y with h | h | h
      · have h1 : decide (x < y) = true := by simp [h]
        have h2 : (x == y) = false := by simp; omega
        simp [h1, h2]
      · subst h
        simp only [Nat.lt_irrefl, decide_false, beq_self_eq_true, Bool.true_and, Bool.false_or]
        exact ih'
      · have h1 : decide (x < y) = false := by simp; omega
        have h2 : (x == y) = false := by simp; omega
        simp [h1, h2]

/-- the strings that start with `p` are convex and start at `p`: anything between `p` and a string
    that starts with `p` starts with `p` (why `range(p..).take_while(starts_with p)` is the filter) -/
theorem isPfx_of_between {p a c : List Nat} (h1 : bleq p a = true) (h2 : bleq a c = true)
    (hc : isPfx p c = true) : isPfx p a = true := by
  induction p generalizing a c with
  | nil => exact isPfx_nil_left a
  | cons x p ih =>
    cases c with
    | nil => simp [isPfx] at hc
    | cons z c =>
      simp only [isPfx, Bool.and_eq_true, beq_iff_eq] at hc
      obtain ⟨rfl, hc⟩ := hc
      cases a with
      | nil => simp [bleq] at h1
      | cons y a =>
        simp only [bleq, Bool.or_eq_true, decide_eq_true_eq, Bool.and_eq_true, beq_iff_eq] at h1 h2
        simp only [isPfx, Bool.and_eq_true, beq_iff_eq]
        rcases h1 with h1 | ⟨rfl, h1⟩
        · rcases h2 with h2 | ⟨rfl, _⟩ <;> omega
        · rcases h2 with h2 | ⟨_, h2⟩
          · omega
          · exact ⟨rfl, ih h1 h2 hc⟩

/-- on a list in which everything between `p` and a string that starts with `p` ... i.e. on a
    SORTED list of strings ≥ `p` (a `BTreeMap` range `p..`), taking while the key starts with `p`
    is filtering by it -/
theorem takeWhile_pfx_eq_filter (p : List Nat) (l : List (List Nat))
    (hs : l.Pairwise (fun a b => bleq a b = true)) (hlo : ∀ a ∈ l, bleq p a = true) :
    l.takeWhile (isPfx p) = l.filter (isPfx p) := by
  induction l with
  | nil => rfl
  | cons a l ih =>
    have hs' := List.pairwise_cons.mp hs
    have ih' := ih hs'.2 (fun x hx => hlo x (List.mem_cons_of_mem _ hx))
    by_cases ha : isPfx p a = true
    · simp [List.takeWhile, List.filter, ha, ih']
    · have ha' : isPfx p a = false := by simpa using ha
      simp only [List.takeWhile, List.filter, ha']
      symm
      rw [List.filter_eq_nil_iff]
      intro c hc hpc
      exact ha (isPfx_of_between (hlo a List.mem_cons_self) (hs'.1 c hc) hpc)

/-! ### the UTF-8 decoder -/

theorem u8run_append (st : U8) (a b : List Nat) :
    u8run st (a ++ b) = (u8run st a).bind (fun st' => u8run st' b) := by
  induction a generalizing st with
  | nil => rfl
  | cons x a ih =>
    simp only [List.cons_append, u8run]
    cases u8step st x with
    | none => rfl
    | some st' => exact ih st'

theorem validUtf8_snoc (q : List Nat) (b : Nat) :
    validUtf8 (q ++ [b]) = true ↔ ∃ st, u8run .s0 q = some st ∧ u8step st b = some .s0 := by
  simp only [validUtf8, u8run_append, beq_iff_eq]
  cases u8run .s0 q with
  | none => simp
  | some st =>
    simp only [Option.bind_some, u8run, Option.some.injEq, exists_eq_left']
    cases u8step st b <;> simp

/-- the last byte of a string is below `0xC0` -/
theorem u8step_to_s0_lt {st : U8} {b : Nat} (h : u8step st b = some .s0) : b < 0xC0 := by
  cases st <;> simp only [u8step] at h <;> split at h <;> first | omega | (repeat' split at h) <;> simp_all

/-- the decoder accepts `b + 1` at the end exactly as it accepted `b`, unless `b` is `0x7F` or `0xBF` -/
theorem u8step_succ {st : U8} {b : Nat} (h : u8step st b = some .s0) (h1 : b ≠ 0x7F) (h2 : b ≠ 0xBF) :
    u8step st (b + 1) = some .s0 := by
  cases st <;> simp only [u8step] at h ⊢
  · -- s0: an ASCII byte
    split at h
    · rw [if_pos (by omega)]
    · repeat' split at h
      all_goals simp_all
  · split at h
    · rw [if_pos (by omega)]
    · simp at h
  all_goals (split at h <;> simp at h)

theorem u8step_succ_none {st : U8} {b : Nat} (h : u8step st b = some .s0) (h1 : b = 0x7F ∨ b = 0xBF) :
    u8step st (b + 1) ≠ some .s0 := by
  cases st <;> simp only [u8step] at h ⊢
  · split at h
    · have : b = 0x7F := by omega
      subst this; decide
    · repeat' split at h
      all_goals simp_all
  · split at h
    · have : b = 0xBF := by omega
      subst this; decide
    · simp at h
  all_goals (split at h <;> simp at h)

/-! ### `next_prefix` -/

theorem incLast_snoc (q : List Nat) (b : Nat) (hb : b < 0xff) : incLast (q ++ [b]) = some (q ++ [b + 1]) := by
  simp [incLast, incLastRev, hb]

/-- a non-empty string is `q ++ [b]` with `b < 0xC0`, and `next_prefix` adds one to `b` -/
theorem valid_nonempty {p : List Nat} (hv : validUtf8 p = true) (hp : p ≠ []) :
    ∃ q b st, p = q ++ [b] ∧ b < 0xC0 ∧ u8run .s0 q = some st ∧ u8step st b = some .s0 ∧
      incLast p = some (q ++ [b + 1]) := by
  obtain ⟨q, b, rfl⟩ : ∃ q b, p = q ++ [b] :=
    ⟨p.dropLast, p.getLast hp, (List.dropLast_concat_getLast hp).symm⟩
  obtain ⟨st, hq, hst⟩ := (validUtf8_snoc q b).mp hv
  have hlt := u8step_to_s0_lt hst
  exact ⟨q, b, st, rfl, hlt, hq, hst, incLast_snoc q b (by omega)⟩

/-- when `next_prefix` of a non-empty string exists it is the string with its last byte plus one -/
theorem nextPrefix_some_iff {p : List Nat} (hv : validUtf8 p = true) (hp : p ≠ []) :
    ∃ q b, p = q ++ [b] ∧
      ((nextPrefix p = some (q ++ [b + 1]) ∧ b ≠ 0x7F ∧ b ≠ 0xBF) ∨
       (nextPrefix p = none ∧ (b = 0x7F ∨ b = 0xBF))) := by
  obtain ⟨q, b, st, rfl, _, hq, hst, hinc⟩ := valid_nonempty hv hp
  refine ⟨q, b, rfl, ?_⟩
  by_cases hb : b = 0x7F ∨ b = 0xBF
  · right
    refine ⟨?_, hb⟩
    have hn : validUtf8 (q ++ [b + 1]) = false := by
      cases hvv : validUtf8 (q ++ [b + 1]) with
      | false => rfl
      | true =>
        obtain ⟨st', hq', hst'⟩ := (validUtf8_snoc q (b + 1)).mp hvv
        rw [hq] at hq'
        cases hq'
        exact absurd hst' (u8step_succ_none hst hb)
    simp [nextPrefix, hinc, hn]
  · left
    have h1 : b ≠ 0x7F := fun h => hb (Or.inl h)
    have h2 : b ≠ 0xBF := fun h => hb (Or.inr h)
    have hvv : validUtf8 (q ++ [b + 1]) = true :=
      (validUtf8_snoc q (b + 1)).mpr ⟨st, hq, u8step_succ hst h1 h2⟩
    exact ⟨by simp [nextPrefix, hinc, hvv], h1, h2⟩

/-! ### `MetadataSlab::scan` is `starts_with` -/

/-- the code before 27855097, on a prefix with an end key -/
theorem mdMatchOld_eq_pmatch {p : List Nat} (hb : boundedPrefix p = true) (k : Key) :
    mdMatchOld p k = pmatch p k := by
  by_cases hp : p = []
  · subst hp; simp [mdMatchOld, pmatch, isPfx_nil_left]
  · obtain ⟨hv, hsome⟩ : validUtf8 p = true ∧ (nextPrefix p).isSome = true := by
      cases p with
      | nil => exact absurd rfl hp
      | cons x p => simpa [boundedPrefix] using hb
    obtain ⟨q, b, rfl, h⟩ := nextPrefix_some_iff hv hp
    rcases h with ⟨hn, _, _⟩ | ⟨hn, _⟩
    · simp only [mdMatchOld, hp, if_false, hn, pmatch, range_succ_last]
      cases hpk : isPfx (q ++ [b]) k.bytes with
      | false => simp
      | true => simp [shardOf_of_isPfx hp hpk]
    · rw [hn] at hsome; simp at hsome

/-- the code: `starts_with` on every prefix that is a string -/
theorem mdMatch_eq_pmatch {p : List Nat} (hv : validUtf8 p = true) (k : Key) :
    mdMatch p k = pmatch p k := by
  by_cases hp : p = []
  · subst hp; simp [mdMatch, pmatch, isPfx_nil_left]
  · obtain ⟨q, b, rfl, h⟩ := nextPrefix_some_iff hv hp
    rcases h with ⟨hn, _, _⟩ | ⟨hn, _⟩
    · simp only [mdMatch, hp, if_false, hn, pmatch, range_succ_last]
      cases hpk : isPfx (q ++ [b]) k.bytes with
      | false => simp
      | true => simp [shardOf_of_isPfx hp hpk]
    · simp only [mdMatch, hp, if_false, hn, pmatch]
      cases hpk : isPfx (q ++ [b]) k.bytes with
      | false => simp
      | true => simp [shardOf_of_isPfx hp hpk, bleq_of_isPfx hpk]

end Neumann.KV
