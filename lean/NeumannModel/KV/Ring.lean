import NeumannModel.KV.Model
/-
  C11 — `CacheRing` (repo tensor_store/src/cache_ring.rs), the slab of every `_cache:` key, AS IT IS:

      slots : RwLock<Vec<Option<CacheEntry>>>      -- fixed capacity; an entry holds (key_hash, key, value, …)
      index : RwLock<BTreeMap<u64, usize>>         -- FxHash OF THE KEY ↦ slot number

      get(key):      h = hash(key);  let i = index.read().get(h)?;  drop(index);      <- other threads run HERE
                     let slots = self.slots.write();
                     if let Some(entry) = slots[i] { if entry.key == key { return Some(entry.value) } }   None
      put(key, v):   if index[h] = i and slots[i].key == key → overwrite the value in place;
                     else j = find_slot_for_insert() (first empty slot, else the lowest-scored one);
                          if slots[j] is occupied → index.remove(slots[j].key_hash);
                          slots[j] = (key, v); index.insert(h, j)
      delete(key):   i = index.write().remove(h)?;  if slots[i].key == key { slots[i] = None; true } else false
      contains(key): index[h] = i and slots[i].key == key
      scan_prefix(p): the keys of ALL occupied slots that start with p

  `Model.Store.cache` is this slab seen as a key ↦ value map, and a whole `get` is one atomic step
  there.  Here the ring is what it is: the index goes by the HASH of the key, so two live keys with
  the same hash share one index entry, and the comparison `entry.key == key` is the only thing that
  (a) re-validates the slot number `get` read from the index before it took the slots lock and
  (b) tells two keys with one hash apart.

  Granularity: `get` is TWO atomic steps (the index lookup under `index.read()`, then - the index
  lock released - the slot read under `slots.write()`; program counter `ringGetAfterIndex` = the
  yield point `cache_ring.get.after_index`, proposed/C11-hook-cache-ring-yield.diff).  `put`,
  `delete`, `contains`, `scan_prefix` are one atomic step each (as the scheduler of `corr_kv` runs
  them: there is no yield point inside; their own lock sections are not split here).
  `SlabRouter::delete` of a cache key is `contains` then `delete` (one hook step).

  Parameters (every theorem quantifies over them): `hash` - ANY function from keys to numbers
  (collisions at will); `pick` - the victim `find_slot_for_insert` chooses when no slot is empty
  (the lowest score: depends on wall-clock time and access counts, so: any function of the
  slots); the capacity.  `keyCheck = true` is THE CODE; `false` is NOT the code: `get` returns
  whatever sits in the slot the index resolved.

  Every step that does not touch a cache key is `Model.stepOp` on the other slabs.
  Import-free (Model only), total, computable.
-/
namespace Neumann.KV

/-- `CacheRing`: the slots (an occupied one holds key and value) and the hash ↦ slot index -/
structure Ring where
  slots : List (Option (Key × Val)) := []
  index : List (Nat × Nat) := []
  deriving Repr

/-- `CacheRing::new(capacity, _)` -/
def Ring.new (cap : Nat) : Ring := { slots := List.replicate cap none }

/-- `slots[i]` (an index entry never points past the end; the model is total) -/
def Ring.slot (r : Ring) (i : Nat) : Option (Key × Val) :=
  match r.slots[i]? with
  | some (some e) => some e
  | _ => none

structure RingCfg where
  /-- `CacheRing::hash_key`: FxHash of the string - any function -/
  hash : Key → Nat
  /-- the lowest-scored slot of a full ring (scores depend on the clock) - any function -/
  pick : List (Option (Key × Val)) → Nat
  /-- `if entry.key == key` in `get` -/
  keyCheck : Bool := true

/-- `self.index.read().get(&key_hash)` -/
def ringLookup (c : RingCfg) (r : Ring) (k : Key) : Option Nat := aget r.index (c.hash k)

/-- slot `i` holds an entry whose key is `k` -/
def ringHolds (r : Ring) (k : Key) (i : Nat) : Bool :=
  match r.slot i with
  | some (k', _) => decide (k' = k)
  | none => false

/-- the second half of `get`, under `slots.write()`: the entry of slot `i`, if it is `k`'s -/
def ringRead (c : RingCfg) (r : Ring) (k : Key) (i : Nat) : Option Val :=
  match r.slot i with
  | some (k', v) => if c.keyCheck then (if k' = k then some v else none) else some v
  | none => none

/-- `CacheRing::contains` -/
def ringContains (c : RingCfg) (r : Ring) (k : Key) : Bool :=
  match ringLookup c r k with
  | some i => ringHolds r k i
  | none => false

def firstEmpty : List (Option (Key × Val)) → Nat → Option Nat
  | [], _ => none
  | none :: _, i => some i
  | some _ :: r, i => firstEmpty r (i + 1)

/-- `find_slot_for_insert`: the first empty slot, else the lowest-scored one -/
def findSlot (c : RingCfg) (r : Ring) : Nat :=
  match firstEmpty r.slots 0 with
  | some i => i
  | none => c.pick r.slots % r.slots.length

/-- the insert path of `put`: a slot is found; the entry it held loses ITS index entry (by its
    stored hash); the new entry goes in; the index entry of the new key's hash points at it -/
def ringInsert (c : RingCfg) (r : Ring) (k : Key) (v : Val) : Ring :=
  let j := findSlot c r
  let idx := match r.slot j with
    | some (k', _) => aerase r.index (c.hash k')
    | none => r.index
  { slots := r.slots.set j (some (k, v)), index := aset idx (c.hash k) j }

/-- `CacheRing::put` -/
def ringPut (c : RingCfg) (r : Ring) (k : Key) (v : Val) : Ring :=
  match ringLookup c r k with
  | some i => if ringHolds r k i then { r with slots := r.slots.set i (some (k, v)) } else ringInsert c r k v
  | none => ringInsert c r k v

/-- `CacheRing::delete`: the index entry of the hash goes first, whatever the slot holds -/
def ringDelete (c : RingCfg) (r : Ring) (k : Key) : Ring × Bool :=
  match ringLookup c r k with
  | none => (r, false)
  | some i =>
      let idx := aerase r.index (c.hash k)
      if ringHolds r k i then ({ slots := r.slots.set i none, index := idx }, true)
      else ({ r with index := idx }, false)

/-- the occupied slots, in slot order -/
def ringEntries (r : Ring) : List (Key × Val) := r.slots.filterMap id

/-- the store: the slabs of `Model.Store` (its `cache` field unused) and the ring -/
structure RStore where
  base : Store
  ring : Ring
  deriving Repr

/-- the slabs as `SlabRouter::scan` reads them: `CacheRing::scan_prefix` walks every occupied slot -/
def RStore.view (rs : RStore) : Store := { rs.base with cache := ringEntries rs.ring }

/-- where a thread is parked: at a yield hook of `Model.PC`, or inside `CacheRing::get` between
    the index lookup (which found slot `slot`) and the slots lock -/
inductive RPC where
  | hook (pc : PC)
  | ringGetAfterIndex (slot : Nat)       -- `cache_ring.get.after_index`
  deriving DecidableEq, Repr

inductive ROutcome where
  | cont (pc : RPC)
  | done (r : Res)
  deriving DecidableEq, Repr

def Outcome.liftR : Outcome → ROutcome
  | .cont pc => .cont (.hook pc)
  | .done r => .done r

/-- the `_cache:` key an operation is on -/
def Op.cacheKey? (op : Op) : Option Key :=
  match op.key? with
  | some k => if k.cls = .cache then some k else none
  | none => none

/-- the one hook step of an operation on a cache key (`get`: its first half) -/
def ringStep (c : RingCfg) (rs : RStore) : Op → RStore × ROutcome
  | .put k v | .putD k v => ({ rs with ring := ringPut c rs.ring k v }, .done .ok)
  | .get k =>
      match ringLookup c rs.ring k with
      | some i => (rs, .cont (.ringGetAfterIndex i))      -- `drop(index)`: the slot number in hand
      | none => (rs, .done .notFound)
  | .delete k | .delD k =>
      -- `SlabRouter::delete`: `if !self.exists(key) { NotFound }`, then `self.cache.delete(key); Ok(())`
      if ringContains c rs.ring k then ({ rs with ring := (ringDelete c rs.ring k).1 }, .done .ok)
      else (rs, .done .notFound)
  | .exists_ k => (rs, .done (.bool (ringContains c rs.ring k)))
  | .scan _ => (rs, .done .notFound)

/-- ONE ATOMIC STEP at the granularity of `CacheRing::get`'s two lock sections -/
def stepOpR (c : RingCfg) (rs : RStore) (op : Op) : RPC → RStore × ROutcome
  | .ringGetAfterIndex i =>
      match op with
      | .get k =>
          (rs, .done (match ringRead c rs.ring k i with | some v => .found v | none => .notFound))
      | _ => (rs, .done .notFound)
  | .hook pc =>
      match pc, op with
      | .start, .scan p => (rs, .done (.keys (scanNow rs.view p)))
      | _, _ =>
        match op.cacheKey? with
        | some _ => ringStep c rs op
        | none => let r := stepOp rs.base op pc; ({ rs with base := r.1 }, r.2.liftR)

/-! ### the scheduler (as `Model.step`, with the finer program counter) -/

structure RThread where
  ops : List Op
  pc : RPC := .hook .start
  idx : Nat := 0
  inv : Nat := 0
  deriving Repr

structure RSys where
  store : RStore
  threads : List RThread
  hist : List OpRec := []
  clock : Nat := 0
  trace : List (Nat × Op × RPC) := []
  deriving Repr

def initRSys (cap : Nat) (walOn : Bool) (progs : List ThreadProgram) : RSys :=
  { store := { base := { walOn := walOn }, ring := Ring.new cap },
    threads := progs.map (fun p => { ops := p }) }

def RThread.inCS (th : RThread) : Bool :=
  match th.ops with
  | op :: _ => op.takesLock && decide (th.pc ≠ .hook .start)
  | [] => false

def stepR (c : RingCfg) (sys : RSys) (t : Nat) : RSys :=
  match sys.threads[t]? with
  | none => sys
  | some th =>
    match th.ops with
    | [] => sys
    | op :: rest =>
      if sys.store.base.walOn && op.takesLock && decide (th.pc = .hook .start) && sys.threads.any RThread.inCS
      then sys else
      let inv := if th.pc = .hook .start then sys.clock else th.inv
      let tr := sys.trace ++ [(t, op, th.pc)]
      match stepOpR c sys.store op th.pc with
      | (s', .cont pc') =>
          { store := s', threads := sys.threads.set t { th with pc := pc', inv := inv },
            hist := sys.hist, clock := sys.clock + 1, trace := tr }
      | (s', .done r) =>
          { store := s', threads := sys.threads.set t { ops := rest, pc := .hook .start, idx := th.idx + 1, inv := 0 },
            hist := sys.hist ++ [{ t := t, i := th.idx, op := op, res := r, inv := inv, ret := sys.clock }],
            clock := sys.clock + 1, trace := tr }

def runFromR (c : RingCfg) (sys : RSys) (sched : List Nat) : RSys := sched.foldl (stepR c) sys

/-- the interleaving `sched` on the store whose cache ring has `cap` slots -/
def runSchedR (c : RingCfg) (cap : Nat) (walOn : Bool) (progs : List ThreadProgram) (sched : List Nat) : RSys :=
  runFromR c (initRSys cap walOn progs) sched

/-- NOT the code: the same machine with `get` returning whatever sits in the slot the index
    resolved (no `entry.key == key`) -/
def runSchedRGetWithoutKeyCheck (hash : Key → Nat) (pick : List (Option (Key × Val)) → Nat) (cap : Nat)
    (walOn : Bool) (progs : List ThreadProgram) (sched : List Nat) : RSys :=
  runSchedR { hash := hash, pick := pick, keyCheck := false } cap walOn progs sched

def quiescentR (sys : RSys) : Bool := sys.threads.all (fun th => th.ops.isEmpty)

/-! #### the same ring at the granularity of a tree WITHOUT the yield point inside `CacheRing::get`

    What `corr_kv` compares a real store with while the hook `cache_ring.get.after_index` is not in
    the tree: the scheduler cannot stop a thread between the two lock sections of `get`, so both
    run in one scheduler step.  One step of this machine = the two steps of `stepOpR` back to back
    (every run of it is a run of `runSchedR` in which the slot read follows the index lookup at
    once, with the steps counted differently). -/

def stepOpRFused (c : RingCfg) (rs : RStore) (op : Op) (pc : RPC) : RStore × ROutcome :=
  match stepOpR c rs op pc with
  | (s, .cont (.ringGetAfterIndex i)) => stepOpR c s op (.ringGetAfterIndex i)
  | r => r

def stepRFused (c : RingCfg) (sys : RSys) (t : Nat) : RSys :=
  match sys.threads[t]? with
  | none => sys
  | some th =>
    match th.ops with
    | [] => sys
    | op :: rest =>
      if sys.store.base.walOn && op.takesLock && decide (th.pc = .hook .start) && sys.threads.any RThread.inCS
      then sys else
      let inv := if th.pc = .hook .start then sys.clock else th.inv
      let tr := sys.trace ++ [(t, op, th.pc)]
      match stepOpRFused c sys.store op th.pc with
      | (s', .cont pc') =>
          { store := s', threads := sys.threads.set t { th with pc := pc', inv := inv },
            hist := sys.hist, clock := sys.clock + 1, trace := tr }
      | (s', .done r) =>
          { store := s', threads := sys.threads.set t { ops := rest, pc := .hook .start, idx := th.idx + 1, inv := 0 },
            hist := sys.hist ++ [{ t := t, i := th.idx, op := op, res := r, inv := inv, ret := sys.clock }],
            clock := sys.clock + 1, trace := tr }

def runSchedRFused (c : RingCfg) (cap : Nat) (walOn : Bool) (progs : List ThreadProgram) (sched : List Nat) : RSys :=
  sched.foldl (stepRFused c) (initRSys cap walOn progs)

/-- the step of a `put` / `put_durable` of exactly `(k, v)` is among the first entries of the trace -/
def Written (tr : List (Nat × Op × RPC)) (k : Key) (v : Val) : Prop :=
  ∃ e ∈ tr, e.2.1 = .put k v ∨ e.2.1 = .putD k v

/-! ### sequential execution (all steps of an operation back to back), the reader's view -/

def seqOpRAux (c : RingCfg) : Nat → RStore → Op → RPC → RStore × Res
  | 0, s, _, _ => (s, .notFound)
  | n + 1, s, op, pc =>
      match stepOpR c s op pc with
      | (s', .cont pc') => seqOpRAux c n s' op pc'
      | (s', .done r) => (s', r)

def seqOpR (c : RingCfg) (s : RStore) (op : Op) : RStore × Res := seqOpRAux c 5 s op (.hook .start)

/-- what a reader sees of key `k` in a quiescent store: get / exists / listed by the scan of everything -/
def viewR (c : RingCfg) (s : RStore) (k : Key) : Res × Bool × Bool :=
  ((seqOpR c s (.get k)).2,
   (match (seqOpR c s (.exists_ k)).2 with | .bool b => b | _ => false),
   decide (k ∈ scanNow s.view []))

end Neumann.KV

/-! ### witness programs (proved in `RingProps.lean`, replayed on the real store by `corr_kv`) -/
namespace Neumann.KV

def kC1 : Key := mkKey .cache 1
def kC2 : Key := mkKey .cache 2

/-- a hash that tells `_cache:1` and `_cache:2` apart (the last byte) -/
def hashLastByte (k : Key) : Nat := k.bytes.getLastD 0

/-- a hash under which every two keys collide -/
def hashConst (_ : Key) : Nat := 7

/-- the code / the variant without the key comparison -/
def cfgOf (hash : Key → Nat) (keyCheck : Bool) : RingCfg := { hash := hash, pick := fun _ => 0, keyCheck := keyCheck }

/-- (a) by interleaving, no collision: a reader of `_cache:1`; a thread that deletes `_cache:1` and
    puts `_cache:2` (into the slot that has just become empty) -/
def ringRaceProgs : List ThreadProgram :=
  [[.put kC1 ⟨1, .none⟩, .delete kC1, .put kC2 ⟨2, .none⟩], [.get kC1]]

/-- put; the reader's index lookup (slot 0); delete; put of the other key (slot 0); the reader's slot read -/
def ringRaceSched : List Nat := [0, 1, 0, 0, 1]

/-- (b) sequentially, two keys with one hash: put A, put B, get A, get B -/
def ringCollisionProgs : List ThreadProgram :=
  [[.put kC1 ⟨1, .none⟩, .put kC2 ⟨2, .none⟩, .get kC1, .get kC2]]

def ringCollisionSched : List Nat := [0, 0, 0, 0, 0, 0]

end Neumann.KV
