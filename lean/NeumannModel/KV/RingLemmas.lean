import NeumannModel.KV.Ring
/-
  C11 — the cache ring: what every slot holds was written, under the key it is stored with
  (core Lean only).
-/
namespace Neumann.KV

theorem Ring.slot_mem {r : Ring} {i : Nat} {e : Key × Val} (h : r.slot i = some e) :
    some e ∈ r.slots := by
  unfold Ring.slot at h
  split at h
  · rename_i e' he
    cases h
    exact List.mem_of_getElem? he
  · cases h

theorem mem_set_or {α} {l : List α} {i : Nat} {a x : α} (h : x ∈ l.set i a) : x ∈ l ∨ x = a :=
  List.mem_or_eq_of_mem_set h

theorem ringInsert_slots (c : RingCfg) (r : Ring) (k : Key) (v : Val) :
    ∀ e ∈ (ringInsert c r k v).slots, e ∈ r.slots ∨ e = some (k, v) := by
  intro e he
  exact mem_set_or he

theorem ringPut_slots (c : RingCfg) (r : Ring) (k : Key) (v : Val) :
    ∀ e ∈ (ringPut c r k v).slots, e ∈ r.slots ∨ e = some (k, v) := by
  intro e he
  unfold ringPut at he
  split at he
  · split at he
    · exact mem_set_or he
    · exact ringInsert_slots c r k v e he
  · exact ringInsert_slots c r k v e he

theorem ringDelete_slots (c : RingCfg) (r : Ring) (k : Key) :
    ∀ e ∈ (ringDelete c r k).1.slots, e ∈ r.slots ∨ e = none := by
  intro e he
  unfold ringDelete at he
  split at he
  · exact Or.inl he
  · dsimp only at he
    split at he
    · exact mem_set_or he
    · exact Or.inl he

/-- the hook step of an operation on a cache key changes the slots only by emptying one or by
    storing the (key, value) of the put that takes the step -/
theorem ringStep_slots (c : RingCfg) (rs : RStore) (op : Op) :
    ∀ e ∈ (ringStep c rs op).1.ring.slots,
      e ∈ rs.ring.slots ∨ e = none ∨ ∃ k v, e = some (k, v) ∧ (op = .put k v ∨ op = .putD k v) := by
  intro e he
  cases op with
  | put k v =>
    rcases ringPut_slots c rs.ring k v e he with h | h
    · exact Or.inl h
    · exact Or.inr (Or.inr ⟨k, v, h, Or.inl rfl⟩)
  | putD k v =>
    rcases ringPut_slots c rs.ring k v e he with h | h
    · exact Or.inl h
    · exact Or.inr (Or.inr ⟨k, v, h, Or.inr rfl⟩)
  | get k =>
    simp only [ringStep] at he
    split at he <;> exact Or.inl he
  | delete k =>
    simp only [ringStep] at he
    split at he
    · rcases ringDelete_slots c rs.ring k e he with h | h
      · exact Or.inl h
      · exact Or.inr (Or.inl h)
    · exact Or.inl he
  | delD k =>
    simp only [ringStep] at he
    split at he
    · rcases ringDelete_slots c rs.ring k e he with h | h
      · exact Or.inl h
      · exact Or.inr (Or.inl h)
    · exact Or.inl he
  | exists_ k => exact Or.inl he
  | scan p => exact Or.inl he

/-- one atomic step changes the slots only by emptying one or by storing the (key, value) of the
    put that takes the step -/
theorem stepOpR_slots (c : RingCfg) (rs : RStore) (op : Op) (pc : RPC) :
    ∀ e ∈ (stepOpR c rs op pc).1.ring.slots,
      e ∈ rs.ring.slots ∨ e = none ∨ ∃ k v, e = some (k, v) ∧ (op = .put k v ∨ op = .putD k v) := by
  intro e he
  unfold stepOpR at he
  split at he
  · split at he <;> exact Or.inl he
  · split at he
    · exact Or.inl he
    · split at he
      · exact ringStep_slots c rs op e he
      · exact Or.inl he

theorem cacheKey_get {k : Key} (hk : k.cls = .cache) : (Op.get k).cacheKey? = some k := by
  simp [Op.cacheKey?, Op.key?, hk]

theorem ringRead_some {c : RingCfg} (hc : c.keyCheck = true) {r : Ring} {k : Key} {i : Nat} {v : Val}
    (h : ringRead c r k i = some v) : r.slot i = some (k, v) := by
  unfold ringRead at h
  cases hs : r.slot i with
  | none => rw [hs] at h; cases h
  | some e =>
    obtain ⟨k', v'⟩ := e
    rw [hs] at h
    simp only [hc, if_true] at h
    by_cases hkk : k' = k
    · simp only [hkk, if_true, Option.some.injEq] at h
      rw [hkk, h]
    · simp [hkk] at h

/-- THE CODE (`keyCheck`): a step that completes a `get` of a cache key with a value has read that
    value from a slot that stores it UNDER THAT KEY -/
theorem stepOpR_found (c : RingCfg) (hc : c.keyCheck = true) (rs : RStore) (pc : RPC) (k : Key) (v : Val)
    (hk : k.cls = .cache) (h : (stepOpR c rs (.get k) pc).2 = .done (.found v)) :
    some (k, v) ∈ rs.ring.slots := by
  cases pc with
  | ringGetAfterIndex i =>
    simp only [stepOpR] at h
    cases hr : ringRead c rs.ring k i with
    | none => rw [hr] at h; simp at h
    | some w =>
      rw [hr] at h
      simp only [ROutcome.done.injEq, Res.found.injEq] at h
      subst h
      exact Ring.slot_mem (ringRead_some hc hr)
  | hook pc' =>
    have : stepOpR c rs (.get k) (.hook pc') = ringStep c rs (.get k) := by
      cases pc' <;> simp [stepOpR, cacheKey_get hk]
    rw [this] at h
    simp only [ringStep] at h
    split at h <;> simp at h

theorem Written.mono {tr : List (Nat × Op × RPC)} {k : Key} {v : Val} (h : Written tr k v)
    (x : List (Nat × Op × RPC)) : Written (tr ++ x) k v := by
  obtain ⟨e, he, hp⟩ := h
  exact ⟨e, List.mem_append_left _ he, hp⟩

/-- the invariant: every occupied slot holds a (key, value) some put has written; every completed
    `get` of a cache key that found a value found one written to ITS key BEFORE the get returned -/
structure SafeInv (sys : RSys) : Prop where
  len : sys.trace.length = sys.clock
  slots : ∀ k v, some (k, v) ∈ sys.store.ring.slots → Written sys.trace k v
  rets : ∀ r ∈ sys.hist, r.ret < sys.clock
  gets : ∀ r ∈ sys.hist, ∀ k v, r.op = .get k → k.cls = .cache → r.res = .found v →
    Written (sys.trace.take r.ret) k v

theorem SafeInv.init (cap : Nat) (walOn : Bool) (progs : List ThreadProgram) :
    SafeInv (initRSys cap walOn progs) := by
  constructor
  · rfl
  · intro k v h
    simp only [initRSys, Ring.new] at h
    have := List.eq_of_mem_replicate h
    cases this
  · intro r hr; simp [initRSys] at hr
  · intro r hr; simp [initRSys] at hr

theorem SafeInv.step {c : RingCfg} (hc : c.keyCheck = true) {sys : RSys} (h : SafeInv sys) (t : Nat) :
    SafeInv (stepR c sys t) := by
  unfold stepR
  split
  · exact h
  · rename_i th hth
    split
    · exact h
    · rename_i op rest hops
      split
      · exact h
      · have hS := stepOpR_slots c sys.store op th.pc
        have hF : ∀ k v, op = .get k → k.cls = .cache →
            (stepOpR c sys.store op th.pc).2 = .done (.found v) → some (k, v) ∈ sys.store.ring.slots := by
          intro k v hop hk hr
          subst hop
          exact stepOpR_found c hc sys.store th.pc k v hk hr
        generalize stepOpR c sys.store op th.pc = res at hS hF
        obtain ⟨s', o⟩ := res
        have hslots : ∀ k v, some (k, v) ∈ s'.ring.slots →
            Written (sys.trace ++ [(t, op, th.pc)]) k v := by
          intro k v hm
          rcases hS _ hm with h1 | h1 | ⟨k', v', h1, h2⟩
          · exact (h.slots k v h1).mono _
          · cases h1
          · cases h1
            exact ⟨(t, op, th.pc), by simp, h2⟩
        have htake : ∀ n, n ≤ sys.clock →
            (sys.trace ++ [(t, op, th.pc)]).take n = sys.trace.take n := by
          intro n hn
          exact List.take_append_of_le_length (by rw [h.len]; exact hn)
        cases o with
        | cont pc' =>
          dsimp only
          constructor
          · simp [h.len]
          · exact hslots
          · intro r hr; exact Nat.lt_succ_of_lt (h.rets r hr)
          · intro r hr k v h1 h2 h3
            dsimp only
            rw [htake _ (Nat.le_of_lt (h.rets r hr))]
            exact h.gets r hr k v h1 h2 h3
        | done res =>
          dsimp only
          constructor
          · simp [h.len]
          · exact hslots
          · intro r hr
            simp only [List.mem_append, List.mem_singleton] at hr
            rcases hr with hr | hr
            · exact Nat.lt_succ_of_lt (h.rets r hr)
            · subst hr; exact Nat.lt_succ_self _
          · intro r hr k v h1 h2 h3
            simp only [List.mem_append, List.mem_singleton] at hr
            dsimp only
            rcases hr with hr | hr
            · rw [htake _ (Nat.le_of_lt (h.rets r hr))]
              exact h.gets r hr k v h1 h2 h3
            · subst hr
              dsimp only at h1 h3 ⊢
              rw [htake _ (Nat.le_refl _)]
              have hm := hF k v h1 h2 (by simp [h3])
              have hw := h.slots k v hm
              rw [← h.len, List.take_length]
              exact hw

/-! ### the same two local facts for the machine without the yield point inside `get` -/

theorem stepOpRFused_eq (c : RingCfg) (rs : RStore) (op : Op) (pc : RPC) :
    stepOpRFused c rs op pc = stepOpR c rs op pc ∨
    ∃ s i, stepOpR c rs op pc = (s, .cont (.ringGetAfterIndex i)) ∧
      stepOpRFused c rs op pc = stepOpR c s op (.ringGetAfterIndex i) := by
  unfold stepOpRFused
  split
  · rename_i s i h
    exact Or.inr ⟨s, i, h, rfl⟩
  · exact Or.inl rfl

theorem stepOpRFused_slots (c : RingCfg) (rs : RStore) (op : Op) (pc : RPC) :
    ∀ e ∈ (stepOpRFused c rs op pc).1.ring.slots,
      e ∈ rs.ring.slots ∨ e = none ∨ ∃ k v, e = some (k, v) ∧ (op = .put k v ∨ op = .putD k v) := by
  intro e he
  rcases stepOpRFused_eq c rs op pc with h | ⟨s, i, h1, h2⟩
  · rw [h] at he; exact stepOpR_slots c rs op pc e he
  · rw [h2] at he
    rcases stepOpR_slots c s op (.ringGetAfterIndex i) e he with h | h | h
    · have := stepOpR_slots c rs op pc e (by rw [h1]; exact h)
      exact this
    · exact Or.inr (Or.inl h)
    · exact Or.inr (Or.inr h)

theorem stepOpRFused_found (c : RingCfg) (hc : c.keyCheck = true) (rs : RStore) (pc : RPC) (k : Key) (v : Val)
    (hk : k.cls = .cache) (h : (stepOpRFused c rs (.get k) pc).2 = .done (.found v)) :
    some (k, v) ∈ rs.ring.slots := by
  rcases stepOpRFused_eq c rs (.get k) pc with h' | ⟨s, i, h1, h2⟩
  · rw [h'] at h; exact stepOpR_found c hc rs pc k v hk h
  · rw [h2] at h
    have hm := stepOpR_found c hc s (.ringGetAfterIndex i) k v hk h
    rcases stepOpR_slots c rs (.get k) pc (some (k, v)) (by rw [h1]; exact hm) with h3 | h3 | ⟨k', v', _, h4⟩
    · exact h3
    · cases h3
    · rcases h4 with h4 | h4 <;> cases h4

theorem SafeInv.stepFused {c : RingCfg} (hc : c.keyCheck = true) {sys : RSys} (h : SafeInv sys) (t : Nat) :
    SafeInv (stepRFused c sys t) := by
  unfold stepRFused
  split
  · exact h
  · rename_i th hth
    split
    · exact h
    · rename_i op rest hops
      split
      · exact h
      · have hS := stepOpRFused_slots c sys.store op th.pc
        have hF : ∀ k v, op = .get k → k.cls = .cache →
            (stepOpRFused c sys.store op th.pc).2 = .done (.found v) → some (k, v) ∈ sys.store.ring.slots := by
          intro k v hop hk hr
          subst hop
          exact stepOpRFused_found c hc sys.store th.pc k v hk hr
        generalize stepOpRFused c sys.store op th.pc = res at hS hF
        obtain ⟨s', o⟩ := res
        have hslots : ∀ k v, some (k, v) ∈ s'.ring.slots →
            Written (sys.trace ++ [(t, op, th.pc)]) k v := by
          intro k v hm
          rcases hS _ hm with h1 | h1 | ⟨k', v', h1, h2⟩
          · exact (h.slots k v h1).mono _
          · cases h1
          · cases h1
            exact ⟨(t, op, th.pc), by simp, h2⟩
        have htake : ∀ n, n ≤ sys.clock →
            (sys.trace ++ [(t, op, th.pc)]).take n = sys.trace.take n := by
          intro n hn
          exact List.take_append_of_le_length (by rw [h.len]; exact hn)
        cases o with
        | cont pc' =>
          dsimp only
          constructor
          · simp [h.len]
          · exact hslots
          · intro r hr; exact Nat.lt_succ_of_lt (h.rets r hr)
          · intro r hr k v h1 h2 h3
            dsimp only
            rw [htake _ (Nat.le_of_lt (h.rets r hr))]
            exact h.gets r hr k v h1 h2 h3
        | done res =>
          dsimp only
          constructor
          · simp [h.len]
          · exact hslots
          · intro r hr
            simp only [List.mem_append, List.mem_singleton] at hr
            rcases hr with hr | hr
            · exact Nat.lt_succ_of_lt (h.rets r hr)
            · subst hr; exact Nat.lt_succ_self _
          · intro r hr k v h1 h2 h3
            simp only [List.mem_append, List.mem_singleton] at hr
            dsimp only
            rcases hr with hr | hr
            · rw [htake _ (Nat.le_of_lt (h.rets r hr))]
              exact h.gets r hr k v h1 h2 h3
            · subst hr
              dsimp only at h1 h3 ⊢
              rw [htake _ (Nat.le_refl _)]
              have hm := hF k v h1 h2 (by simp [h3])
              have hw := h.slots k v hm
              rw [← h.len, List.take_length]
              exact hw

theorem SafeInv.run {c : RingCfg} (hc : c.keyCheck = true) {sys : RSys} (h : SafeInv sys)
    (sched : List Nat) : SafeInv (runFromR c sys sched) := by
  induction sched generalizing sys with
  | nil => exact h
  | cons t rest ih => exact ih (h.step hc t)

theorem SafeInv.runFused {c : RingCfg} (hc : c.keyCheck = true) {sys : RSys} (h : SafeInv sys)
    (sched : List Nat) : SafeInv (sched.foldl (stepRFused c) sys) := by
  induction sched generalizing sys with
  | nil => exact h
  | cons t rest ih => exact ih (h.stepFused hc t)

end Neumann.KV
