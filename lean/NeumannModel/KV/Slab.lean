import NeumannModel.KV.Model
/-
  C11 — the embedding slab AS IT IS, below the map `id ↦ vector` the concurrent model (Model.lean,
  `Store.slab`) sees it as, and `TensorStore::clear`.

  `EmbeddingSlab` (tensor_store/src/embedding_slab.rs) is a dense storage of slots (chunks of
  `dimension` floats), an index `EntityId → slot`, a FREE LIST of slots (`free_slots`, a `Vec` used
  as a stack) and a bump pointer (`write_pos`):

    set(id, v)   the id has a slot: overwrite it in place; otherwise `allocate_slot` = pop the free
                 list, or else take position `write_pos` and increment it; write the vector; insert
                 id ↦ slot; count += 1
    get(id)      the slot the index has for the id, read from the dense storage
    delete(id)   remove the id from the index, PUSH its slot on the free list, count -= 1
    clear()      index.clear(); free_slots.clear(); write_pos = 0; count = 0   (the dense storage
                 keeps its contents: every slot below the old write_pos still holds its last vector)

  `clear` is reached from `TensorStore::clear` → `SlabRouter::clear` (which also clears the entity
  index - ids start again at 0 -, the metadata slab and the cache ring).  It is a quiescent
  whole-store operation (no yield hook inside, callers clear a store nobody else is using), so it is
  modelled on SEQUENTIAL histories: `sRun` executes put / get / delete / exists / clear one after
  the other on a store whose embedding slab is the `ESlab` below.

  `keepFree = true` is NOT the code: `clear` without `free_slots.clear()` (`write_pos` still goes
  back to 0, so a slot that was free before the clear is handed out twice afterwards: once from the
  free list, once by the bump pointer).
-/
namespace Neumann.KV

/-- `EmbeddingSlab`; a slot is its position `chunk * chunk_capacity + offset` -/
structure ESlab where
  index : List (Nat × Nat) := []   -- `index: HashMap<EntityId, EmbeddingSlot>`
  free : List Nat := []            -- `free_slots: Vec<EmbeddingSlot>`, head = top of the stack
  wpos : Nat := 0                  -- `write_pos`
  count : Nat := 0                 -- `count`
  cells : List (Nat × Nat) := []   -- the chunks: slot ↦ tag of the vector last written there
  deriving DecidableEq, Repr

/-- `allocate_slot`: a free slot first, the bump pointer otherwise -/
def eAlloc (e : ESlab) : Nat × ESlab :=
  match e.free with
  | sl :: r => (sl, { e with free := r })
  | [] => (e.wpos, { e with wpos := e.wpos + 1 })

/-- `set` of a vector of the slab's dimension -/
def eSet (e : ESlab) (id t : Nat) : ESlab :=
  match aget e.index id with
  | some sl => { e with cells := aset e.cells sl t }
  | none =>
      let a := eAlloc e
      { a.2 with cells := aset a.2.cells a.1 t, index := aset a.2.index id a.1, count := a.2.count + 1 }

/-- `get`: what the dense storage holds at the slot of the id (0.0 = never written) -/
def eGet (e : ESlab) (id : Nat) : Option Nat :=
  match aget e.index id with
  | some sl => some ((aget e.cells sl).getD 0)
  | none => none

/-- `delete`: the slot goes on the free list -/
def eDelete (e : ESlab) (id : Nat) : ESlab :=
  match aget e.index id with
  | some sl => { e with index := aerase e.index id, free := sl :: e.free, count := e.count - 1 }
  | none => e

/-- `clear`; `keepFree = true` is the variant that forgets `free_slots.clear()` -/
def eClear (keepFree : Bool) (e : ESlab) : ESlab :=
  { e with index := [], free := if keepFree then e.free else [], wpos := 0, count := 0 }

/-! ### histories of slab calls -/

inductive EOp where
  | set (id t : Nat)
  | del (id : Nat)
  | clear
  deriving DecidableEq, Repr

def eStep (keepFree : Bool) (e : ESlab) : EOp → ESlab
  | .set id t => eSet e id t
  | .del id => eDelete e id
  | .clear => eClear keepFree e

def eRun (keepFree : Bool) (ops : List EOp) : ESlab := ops.foldl (eStep keepFree) {}

/-- the slab as the concurrent model has it (`Store.slab`, `slabPut`): a map id ↦ vector -/
def mStep (m : List (Nat × Nat)) : EOp → List (Nat × Nat)
  | .set id t => aset m id t
  | .del id => aerase m id
  | .clear => []

def mRun (ops : List EOp) : List (Nat × Nat) := ops.foldl mStep []

/-! ### the store, sequentially, with that slab -/

structure SStore where
  md : List (Key × Val) := []       -- MetadataSlab
  cache : List (Key × Val) := []    -- CacheRing as a map
  vocab : List (Key × Bool) := []   -- EntityIndex
  es : ESlab := {}                  -- EmbeddingSlab
  deriving Repr

inductive SOp where
  | put (k : Key) (v : Val)
  | get (k : Key)
  | delete (k : Key)
  | exists_ (k : Key)
  | clear                           -- `TensorStore::clear`
  deriving DecidableEq, Repr

def sMdGet (s : SStore) (k : Key) : Res :=
  match aget s.md k with
  | some v => .found v
  | none => .notFound

def sExists (s : SStore) (k : Key) : Bool :=
  match k.cls with
  | .emb => (idxGet s.vocab k).isSome || (aget s.md k).isSome
  | .cache => (aget s.cache k).isSome
  | _ => (aget s.md k).isSome

/-- `if embeddings.set(id, vec).is_err() { embeddings.delete(id) }` / `else embeddings.delete(id)` -/
def eSlabPut (e : ESlab) (id : Nat) : VecF → ESlab
  | .good t => eSet e id t
  | .bad _ => eDelete e id
  | .none => eDelete e id

/-- `put`, all its steps back to back (the steps are those of `stepOp`) -/
def sPut (s : SStore) (k : Key) (v : Val) : SStore :=
  match k.cls with
  | .emb =>
      let ic := idxGetOrCreate s.vocab k
      { s with vocab := ic.2, es := eSlabPut s.es ic.1 v.vec, md := aset s.md k v }
  | .cache => { s with cache := aset s.cache k v }
  | _ => { s with md := aset s.md k v }

def sGet (s : SStore) (k : Key) : Res :=
  match k.cls with
  | .emb =>
      (match idxGet s.vocab k with
       | some id =>
           (match eGet s.es id with
            | some t => .found { tag := ((aget s.md k).map (·.tag)).getD 0, vec := .good t }
            | none => sMdGet s k)
       | none => sMdGet s k)
  | .cache => (match aget s.cache k with | some v => .found v | none => .notFound)
  | _ => sMdGet s k

/-- `delete` of a key that exists -/
def sDelete (s : SStore) (k : Key) : SStore :=
  match k.cls with
  | .emb =>
      { s with es := (match idxGet s.vocab k with
                      | some id => eDelete s.es id
                      | none => s.es),
               vocab := idxRemove s.vocab k, md := aerase s.md k }
  | .cache => { s with cache := aerase s.cache k }
  | _ => { s with md := aerase s.md k }

/-- `TensorStore::clear` → `SlabRouter::clear`: every slab, the entity index included -/
def sClear (keepFree : Bool) (s : SStore) : SStore :=
  { md := [], cache := [], vocab := [], es := eClear keepFree s.es }

/-- one operation -/
def sOp (keepFree : Bool) (s : SStore) : SOp → SStore × Res
  | .put k v => (sPut s k v, .ok)
  | .get k => (s, sGet s k)
  | .delete k => if sExists s k then (sDelete s k, .ok) else (s, .notFound)
  | .exists_ k => (s, .bool (sExists s k))
  | .clear => (sClear keepFree s, .ok)

/-- a sequential history from the empty store: the final store and the results in order -/
def sRunFrom (keepFree : Bool) (s : SStore) : List SOp → SStore × List Res
  | [] => (s, [])
  | op :: r =>
      let a := sOp keepFree s op
      let b := sRunFrom keepFree a.1 r
      (b.1, a.2 :: b.2)

def sRun (keepFree : Bool) (ops : List SOp) : SStore × List Res := sRunFrom keepFree {} ops

/-! ### the sequential specification: a map key ↦ value, emptied by clear -/

def resOf : Option Val → Res
  | some v => .found v
  | none => .notFound

def sSpecStep (σ : Spec) : SOp → Spec × Res
  | .put k v => (aset σ k v, .ok)
  | .get k => (σ, resOf (aget σ k))
  | .delete k => if (aget σ k).isSome then (aerase σ k, .ok) else (σ, .notFound)
  | .exists_ k => (σ, .bool (aget σ k).isSome)
  | .clear => ([], .ok)

def sSpecRunFrom (σ : Spec) : List SOp → List Res
  | [] => []
  | op :: r => (sSpecStep σ op).2 :: sSpecRunFrom (sSpecStep σ op).1 r

/-- the slot of a live `emb:` key -/
def sSlot (s : SStore) (k : Key) : Option Nat :=
  match idxGet s.vocab k with
  | some id => aget s.es.index id
  | none => none

/-! ### the shortest history the missing `free_slots.clear()` needs -/

def kE2 : Key := mkKey .emb 2
def kE3 : Key := mkKey .emb 3

/-- put a, delete a (its slot 0 goes on the free list), clear, put b (pops slot 0), put c (the
    bump pointer, back at 0, hands out slot 0 again), get b -/
def clearKeepsFreeListOps : List SOp :=
  [.put kE1 ⟨1, .good 1⟩, .delete kE1, .clear, .put kE2 ⟨2, .good 2⟩, .put kE3 ⟨3, .good 3⟩, .get kE2]

end Neumann.KV
