import NeumannModel.KV.Lemmas
import NeumannModel.KV.Slab
/-
  Helper lemmas for SlabProps (core Lean only): the allocator invariant of the embedding slab and
  the refinement slab-with-slots ⊑ map id ↦ vector.
-/
namespace Neumann.KV

/-- the allocator invariant: the live slots are pairwise distinct, distinct from the free ones, the
    free list has no duplicates, and every slot in use or free lies below the bump pointer -/
structure SlabInv (e : ESlab) : Prop where
  inj : ∀ a b sl, aget e.index a = some sl → aget e.index b = some sl → a = b
  disj : ∀ a sl, aget e.index a = some sl → sl ∉ e.free
  nodup : e.free.Nodup
  live_lt : ∀ a sl, aget e.index a = some sl → sl < e.wpos
  free_lt : ∀ sl, sl ∈ e.free → sl < e.wpos

theorem SlabInv.init : SlabInv {} :=
  ⟨fun _ _ _ h => by simp [aget] at h, fun _ _ h => by simp [aget] at h, List.nodup_nil,
   fun _ _ h => by simp [aget] at h, fun _ h => by simp at h⟩

theorem SlabInv.set {e : ESlab} (h : SlabInv e) (id t : Nat) : SlabInv (eSet e id t) := by
  unfold eSet
  cases hi : aget e.index id with
  | some sl => exact ⟨h.inj, h.disj, h.nodup, h.live_lt, h.free_lt⟩
  | none =>
    unfold eAlloc
    cases hf : e.free with
    | nil =>
      refine ⟨?_, ?_, List.nodup_nil, ?_, ?_⟩
      · intro a b s ha hb
        simp only [aget_aset] at ha hb
        by_cases ea : id = a <;> by_cases eb : id = b
        all_goals first | rw [if_pos ea] at ha | rw [if_neg ea] at ha
        all_goals first | rw [if_pos eb] at hb | rw [if_neg eb] at hb
        · omega
        · have := h.live_lt b s hb
          simp only [Option.some.injEq] at ha; omega
        · have := h.live_lt a s ha
          simp only [Option.some.injEq] at hb; omega
        · exact h.inj a b s ha hb
      · intro a s _; simp
      · intro a s ha
        simp only [aget_aset] at ha
        by_cases ea : id = a
        all_goals first | rw [if_pos ea] at ha | rw [if_neg ea] at ha
        · simp only [Option.some.injEq] at ha; show s < e.wpos + 1; omega
        · have := h.live_lt a s ha; show s < e.wpos + 1; omega
      · intro s hs; simp at hs
    | cons sl r =>
      have nd : (sl :: r).Nodup := hf ▸ h.nodup
      have hslf : sl ∈ e.free := by rw [hf]; exact List.mem_cons_self
      refine ⟨?_, ?_, (List.nodup_cons.mp nd).2, ?_, ?_⟩
      · intro a b s ha hb
        simp only [aget_aset] at ha hb
        by_cases ea : id = a <;> by_cases eb : id = b
        all_goals first | rw [if_pos ea] at ha | rw [if_neg ea] at ha
        all_goals first | rw [if_pos eb] at hb | rw [if_neg eb] at hb
        · omega
        · simp only [Option.some.injEq] at ha
          exact absurd hslf (h.disj b sl (ha ▸ hb))
        · simp only [Option.some.injEq] at hb
          exact absurd hslf (h.disj a sl (hb ▸ ha))
        · exact h.inj a b s ha hb
      · intro a s ha
        simp only [aget_aset] at ha
        by_cases ea : id = a
        all_goals first | rw [if_pos ea] at ha | rw [if_neg ea] at ha
        · simp only [Option.some.injEq] at ha
          exact ha ▸ (List.nodup_cons.mp nd).1
        · intro hm
          exact h.disj a s ha (hf ▸ List.mem_cons_of_mem _ hm)
      · intro a s ha
        simp only [aget_aset] at ha
        by_cases ea : id = a
        all_goals first | rw [if_pos ea] at ha | rw [if_neg ea] at ha
        · simp only [Option.some.injEq] at ha
          exact ha ▸ h.free_lt sl hslf
        · exact h.live_lt a s ha
      · intro s hs
        exact h.free_lt s (hf ▸ List.mem_cons_of_mem _ hs)

theorem SlabInv.delete {e : ESlab} (h : SlabInv e) (id : Nat) : SlabInv (eDelete e id) := by
  unfold eDelete
  cases hi : aget e.index id with
  | none => exact h
  | some sl =>
    refine ⟨?_, ?_, List.nodup_cons.mpr ⟨h.disj id sl hi, h.nodup⟩, ?_, ?_⟩
    · intro a b s ha hb
      simp only [aget_aerase] at ha hb
      by_cases ea : id = a <;> by_cases eb : id = b
      all_goals first | rw [if_pos ea] at ha | rw [if_neg ea] at ha
      all_goals first | rw [if_pos eb] at hb | rw [if_neg eb] at hb
      all_goals first | exact h.inj a b s ha hb | simp at ha | simp at hb
    · intro a s ha
      simp only [aget_aerase] at ha
      by_cases ea : id = a
      all_goals first | rw [if_pos ea] at ha | rw [if_neg ea] at ha
      · simp at ha
      · intro hm
        rcases List.mem_cons.mp hm with e1 | e2
        · exact ea (h.inj id a sl hi (e1 ▸ ha))
        · exact h.disj a s ha e2
    · intro a s ha
      simp only [aget_aerase] at ha
      by_cases ea : id = a
      all_goals first | rw [if_pos ea] at ha | rw [if_neg ea] at ha
      · simp at ha
      · exact h.live_lt a s ha
    · intro s hs
      rcases List.mem_cons.mp hs with e1 | e2
      · exact e1 ▸ h.live_lt id sl hi
      · exact h.free_lt s e2

/-- the clear of the code (index, free list, bump pointer, count) -/
theorem SlabInv.clear (e : ESlab) : SlabInv (eClear false e) :=
  ⟨fun _ _ _ h => by simp [eClear, aget] at h, fun _ _ h => by simp [eClear, aget] at h,
   by simp [eClear], fun _ _ h => by simp [eClear, aget] at h, fun _ h => by simp [eClear] at h⟩

theorem SlabInv.step {e : ESlab} (h : SlabInv e) (op : EOp) : SlabInv (eStep false e op) := by
  cases op with
  | set id t => exact h.set id t
  | del id => exact h.delete id
  | clear => exact SlabInv.clear e

/-- the slab read through `get` IS the map `m` -/
def Refines (e : ESlab) (m : List (Nat × Nat)) : Prop := ∀ id, eGet e id = aget m id

theorem Refines.init : Refines {} [] := fun _ => by simp [eGet, aget]

theorem Refines.step {e : ESlab} {m : List (Nat × Nat)} (h : SlabInv e) (r : Refines e m) (op : EOp) :
    Refines (eStep false e op) (mStep m op) := by
  cases op with
  | clear => intro a; simp [eStep, mStep, eClear, eGet, aget]
  | del id =>
    intro a
    have ra := r a
    simp only [eStep, mStep, eDelete, aget_aerase]
    cases hi : aget e.index id with
    | none =>
      by_cases ea : id = a
      · subst ea; simp only [if_true]; unfold eGet; rw [hi]
      · simp only [ea, if_false]; exact ra
    | some sl =>
      by_cases ea : id = a
      · subst ea; simp [eGet, aget_aerase]
      · simp only [ea, if_false]
        rw [← ra]; simp [eGet, aget_aerase, ea]
  | set id t =>
    intro a
    have ra := r a
    simp only [eStep, mStep, eSet, aget_aset]
    cases hi : aget e.index id with
    | some sl =>
      by_cases ea : id = a
      · subst ea; simp [eGet, hi, aget_aset]
      · simp only [ea, if_false]
        rw [← ra]
        unfold eGet
        cases ha : aget e.index a with
        | none => simp
        | some s =>
          have : sl ≠ s := fun e' => ea (h.inj id a sl hi (e' ▸ ha))
          simp [aget_aset, this]
    | none =>
      by_cases ea : id = a
      · subst ea; simp [eGet, aget_aset]
      · simp only [ea, if_false]
        rw [← ra]
        have hx : (eAlloc e).2.index = e.index := by
          unfold eAlloc; cases e.free <;> rfl
        unfold eGet
        simp only [aget_aset, if_neg ea, hx]
        cases ha : aget e.index a with
        | none => simp
        | some s =>
          have : (eAlloc e).1 ≠ s := by
            unfold eAlloc
            cases hf : e.free with
            | nil => have := h.live_lt a s ha; simp only; omega
            | cons s0 r0 =>
              simp only
              intro e'
              exact h.disj a s ha (by rw [hf, ← e']; exact List.mem_cons_self)
          have hc : (eAlloc e).2.cells = e.cells := by
            unfold eAlloc; cases e.free <;> rfl
          simp [this, hc]

theorem slab_run_from (ops : List EOp) : ∀ (e : ESlab) (m : List (Nat × Nat)), SlabInv e → Refines e m →
    SlabInv (ops.foldl (eStep false) e) ∧ Refines (ops.foldl (eStep false) e) (ops.foldl mStep m) := by
  induction ops with
  | nil => intro e m h r; exact ⟨h, r⟩
  | cons op rest ih => intro e m h r; exact ih _ _ (h.step op) (r.step h op)

/-- operations of the map that leave `id` alone -/
def EOp.touches (id : Nat) : EOp → Bool
  | .set i _ => i == id
  | .del i => i == id
  | .clear => true

theorem aget_mRun_untouched (id : Nat) (later : List EOp) : ∀ (m : List (Nat × Nat)),
    (∀ op ∈ later, op.touches id = false) → aget (later.foldl mStep m) id = aget m id := by
  induction later with
  | nil => intro m _; rfl
  | cons op rest ih =>
    intro m h
    have h1 := h op List.mem_cons_self
    rw [List.foldl_cons, ih _ (fun o ho => h o (List.mem_cons_of_mem _ ho))]
    cases op with
    | clear => simp [EOp.touches] at h1
    | set i t =>
      have : i ≠ id := by simpa [EOp.touches] using h1
      simp [mStep, aget_aset, this]
    | del i =>
      have : i ≠ id := by simpa [EOp.touches] using h1
      simp [mStep, aget_aerase, this]

theorem sPut_inv {s : SStore} (h : SlabInv s.es) (k : Key) (v : Val) : SlabInv (sPut s k v).es := by
  unfold sPut
  split
  · show SlabInv (eSlabPut s.es _ v.vec)
    unfold eSlabPut
    split
    · exact h.set _ _
    · exact h.delete _
    · exact h.delete _
  · exact h
  · exact h

theorem sDelete_inv {s : SStore} (h : SlabInv s.es) (k : Key) : SlabInv (sDelete s k).es := by
  unfold sDelete
  split
  · show SlabInv (match idxGet s.vocab k with | some id => eDelete s.es id | none => s.es)
    split
    · exact h.delete _
    · exact h
  · exact h
  · exact h

theorem sOp_inv {s : SStore} (h : SlabInv s.es) (op : SOp) : SlabInv (sOp false s op).1.es := by
  cases op with
  | get k => exact h
  | exists_ k => exact h
  | clear => exact SlabInv.clear s.es
  | put k v => exact sPut_inv h k v
  | delete k =>
    show SlabInv (if sExists s k then (sDelete s k, Res.ok) else (s, Res.notFound)).1.es
    split
    · exact sDelete_inv h k
    · exact h

theorem sRunFrom_inv (ops : List SOp) : ∀ (s : SStore), SlabInv s.es → SlabInv (sRunFrom false s ops).1.es := by
  induction ops with
  | nil => intro s h; exact h
  | cons op rest ih => intro s h; exact ih _ (sOp_inv h op)

end Neumann.KV
