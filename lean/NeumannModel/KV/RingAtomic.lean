import NeumannModel.KV.Ring
import NeumannModel.KV.RingLemmas
import NeumannModel.KV.Lemmas
/-
  C11 — the cache ring: splitting `CacheRing::get` over two lock sections is invisible.

  `get` of a `_cache:` key is two atomic steps of `stepR` (the index lookup; then, the index lock
  released and any steps of other threads later, the slot read with the key comparison).  For EVERY
  hash function (collisions at will), every victim choice, capacity, programs and schedule: a
  two-step get that finds a value returns exactly what a ONE-step get (`ringGetAtomic`: lookup and
  slot read back to back) would have returned in some state the run passes through between the two
  steps of the get (ends included).  Core Lean only.
-/
namespace Neumann.KV

/-- `CacheRing::get` as ONE atomic step: index lookup and slot read back to back -/
def ringGetAtomic (c : RingCfg) (r : Ring) (k : Key) : Option Val :=
  match ringLookup c r k with
  | some i => ringRead c r k i
  | none => none

/-! ### the ring operations, slot by slot -/

theorem ra_slot_set {r r' : Ring} {j : Nat} {x : Option (Key × Val)}
    (h : r'.slots = r.slots.set j x) {i : Nat} {e : Key × Val} (hs : r'.slot i = some e) :
    (i = j ∧ x = some e) ∨ r.slot i = some e := by
  unfold Ring.slot at hs ⊢
  rw [h, List.getElem?_set] at hs
  by_cases hij : j = i
  · subst hij
    by_cases hl : j < r.slots.length
    · simp only [hl, if_true] at hs
      left
      refine ⟨rfl, ?_⟩
      cases x with
      | none => simp at hs
      | some e' => simp only [Option.some.injEq] at hs; rw [hs]
    · simp [hl] at hs
  · simp only [hij, if_false] at hs
    exact Or.inr hs

/-- the index resolves `k`'s hash to a slot that holds `k`: the atomic get returns the slot's value -/
theorem ra_atomic_of_lookup {c : RingCfg} {r : Ring} {k : Key} {i : Nat} {v : Val}
    (hl : ringLookup c r k = some i) (hs : r.slot i = some (k, v)) :
    ringGetAtomic c r k = some v := by
  simp only [ringGetAtomic, hl, ringRead, hs]
  cases c.keyCheck <;> simp

theorem ra_ringInsert_slot (c : RingCfg) (r : Ring) (k' : Key) (v' : Val) (i : Nat) (k : Key) (v : Val)
    (hs : (ringInsert c r k' v').slot i = some (k, v)) :
    r.slot i = some (k, v) ∨ ringGetAtomic c (ringInsert c r k' v') k = some v := by
  rcases ra_slot_set (r := r) (j := findSlot c r) (x := some (k', v')) rfl hs with ⟨hij, hx⟩ | h
  · right
    cases hx
    subst hij
    apply ra_atomic_of_lookup _ hs
    simp only [ringLookup, ringInsert, aget_aset, if_true]
  · exact Or.inl h

/-- a slot that holds `(k, v)` after a put held it before, or the put wrote it - and then the index
    entry of `k`'s hash points at that slot: an atomic get of `k` in the new ring returns `v` -/
theorem ra_ringPut_slot (c : RingCfg) (r : Ring) (k' : Key) (v' : Val) (i : Nat) (k : Key) (v : Val)
    (hs : (ringPut c r k' v').slot i = some (k, v)) :
    r.slot i = some (k, v) ∨ ringGetAtomic c (ringPut c r k' v') k = some v := by
  unfold ringPut at hs ⊢
  split
  · rename_i j hj
    simp only [hj] at hs
    split
    · rename_i hh
      simp only [hh, if_true] at hs
      rcases ra_slot_set (r := r) (j := j) (x := some (k', v')) rfl hs with ⟨hij, hx⟩ | h
      · right
        cases hx
        subst hij
        exact ra_atomic_of_lookup (by simpa only [ringLookup] using hj) hs
      · exact Or.inl h
    · rename_i hh
      simp only [hh] at hs
      exact ra_ringInsert_slot c r k' v' i k v hs
  · rename_i hj
    simp only [hj] at hs
    exact ra_ringInsert_slot c r k' v' i k v hs

theorem ra_ringDelete_slot (c : RingCfg) (r : Ring) (k' : Key) (i : Nat) (e : Key × Val)
    (hs : (ringDelete c r k').1.slot i = some e) : r.slot i = some e := by
  unfold ringDelete at hs
  split at hs
  · exact hs
  · rename_i j hj
    dsimp only at hs
    split at hs
    · rcases ra_slot_set (r := r) (j := j) (x := none) rfl hs with ⟨_, hx⟩ | h
      · cases hx
      · exact h
    · exact hs

theorem ra_ringStep_slot (c : RingCfg) (rs : RStore) (op : Op) (i : Nat) (k : Key) (v : Val)
    (hs : (ringStep c rs op).1.ring.slot i = some (k, v)) :
    rs.ring.slot i = some (k, v) ∨ ringGetAtomic c (ringStep c rs op).1.ring k = some v := by
  cases op with
  | put k' v' => exact ra_ringPut_slot c rs.ring k' v' i k v hs
  | putD k' v' => exact ra_ringPut_slot c rs.ring k' v' i k v hs
  | get k' =>
    simp only [ringStep] at hs
    split at hs <;> exact Or.inl hs
  | delete k' =>
    simp only [ringStep] at hs
    split at hs
    · exact Or.inl (ra_ringDelete_slot c rs.ring k' i _ hs)
    · exact Or.inl hs
  | delD k' =>
    simp only [ringStep] at hs
    split at hs
    · exact Or.inl (ra_ringDelete_slot c rs.ring k' i _ hs)
    · exact Or.inl hs
  | exists_ k' => exact Or.inl hs
  | scan p => exact Or.inl hs

/-- one atomic step either leaves the ring alone and does not park the thread inside `get`, or is
    the hook step of an operation on a cache key -/
theorem ra_stepOpR_cases (c : RingCfg) (rs : RStore) (op : Op) (pc : RPC) :
    ((stepOpR c rs op pc).1.ring = rs.ring ∧
      ∀ i, (stepOpR c rs op pc).2 ≠ .cont (.ringGetAfterIndex i)) ∨
    stepOpR c rs op pc = ringStep c rs op := by
  unfold stepOpR
  split
  · left
    split
    · exact ⟨rfl, fun i h => by cases h⟩
    · exact ⟨rfl, fun i h => by cases h⟩
  · split
    · left
      exact ⟨rfl, fun i h => by cases h⟩
    · split
      · right; rfl
      · left
        refine ⟨rfl, fun i h => ?_⟩
        dsimp only at h
        generalize (stepOp rs.base op _).2 = o at h
        cases o <;> simp [Outcome.liftR] at h

/-- THE LOCAL LEMMA: a slot that holds `(k, v)` after one atomic step (of any operation, from any
    program counter) held it before the step, or an atomic get of `k` AFTER the step returns `v` -/
theorem ra_stepOpR_slot (c : RingCfg) (rs : RStore) (op : Op) (pc : RPC) (i : Nat) (k : Key) (v : Val)
    (hs : (stepOpR c rs op pc).1.ring.slot i = some (k, v)) :
    rs.ring.slot i = some (k, v) ∨ ringGetAtomic c (stepOpR c rs op pc).1.ring k = some v := by
  rcases ra_stepOpR_cases c rs op pc with ⟨h, _⟩ | h
  · rw [h] at hs
    exact Or.inl hs
  · rw [h] at hs ⊢
    exact ra_ringStep_slot c rs op i k v hs

/-- a thread gets parked at `ringGetAfterIndex i` only by the first step of a `get` whose index
    lookup returned `i`; that step leaves the store alone -/
theorem ra_stepOpR_park (c : RingCfg) (rs : RStore) (op : Op) (pc : RPC) (i : Nat)
    (h : (stepOpR c rs op pc).2 = .cont (.ringGetAfterIndex i)) :
    ∃ k, op = .get k ∧ ringLookup c rs.ring k = some i ∧ (stepOpR c rs op pc).1 = rs := by
  rcases ra_stepOpR_cases c rs op pc with ⟨_, h'⟩ | h'
  · exact absurd h (h' i)
  · rw [h'] at h ⊢
    cases op with
    | get k =>
      simp only [ringStep] at h ⊢
      split
      · rename_i j hj
        simp only [hj, ROutcome.cont.injEq, RPC.ringGetAfterIndex.injEq] at h
        exact ⟨k, rfl, by rw [hj, h], rfl⟩
      · rename_i hj
        simp only [hj] at h
        cases h
    | put k v => simp [ringStep] at h
    | putD k v => simp [ringStep] at h
    | delete k => simp only [ringStep] at h; split at h <;> cases h
    | delD k => simp only [ringStep] at h; split at h <;> cases h
    | exists_ k => simp [ringStep] at h
    | scan p => simp [ringStep] at h

/-- THE CODE (`keyCheck`): a step that completes a `get` of a cache key with a value is the SECOND
    step of the get, and the slot it had in hand holds that value under that key -/
theorem ra_stepOpR_found (c : RingCfg) (hc : c.keyCheck = true) (rs : RStore) (pc : RPC) (k : Key) (v : Val)
    (hk : k.cls = .cache) (h : (stepOpR c rs (.get k) pc).2 = .done (.found v)) :
    ∃ i, pc = .ringGetAfterIndex i ∧ rs.ring.slot i = some (k, v) := by
  cases pc with
  | ringGetAfterIndex i =>
    simp only [stepOpR] at h
    cases hr : ringRead c rs.ring k i with
    | none => rw [hr] at h; simp at h
    | some w =>
      rw [hr] at h
      simp only [ROutcome.done.injEq, Res.found.injEq] at h
      subst h
      exact ⟨i, rfl, ringRead_some hc hr⟩
  | hook pc' =>
    have : stepOpR c rs (.get k) (.hook pc') = ringStep c rs (.get k) := by
      cases pc' <;> simp [stepOpR, cacheKey_get hk]
    rw [this] at h
    simp only [ringStep] at h
    split at h <;> simp at h

/-! ### the invariant -/

/-- `W lo hi k v` stands for: "some state the run has passed through, with its clock in `[lo, hi]`,
    has `ringGetAtomic k = some v`" (`ra_Wit` below).
    * every thread's `inv` is at most the clock;
    * J: a get of `k` parked with slot number `i` in hand: if slot `i` holds `(k, v)` NOW, an atomic
      get of `k` returned `v` at some moment since the get's first step;
    * every completed get of a cache key that found `v`: an atomic get returned `v` at some moment
      between its two steps. -/
structure AtomInv (c : RingCfg) (W : Nat → Nat → Key → Val → Prop) (sys : RSys) : Prop where
  invs : ∀ th ∈ sys.threads, th.inv ≤ sys.clock
  parked : ∀ (t : Nat) (th : RThread), sys.threads[t]? = some th → ∀ (i : Nat) (k : Key) (rest : List Op) (v : Val),
    th.pc = .ringGetAfterIndex i → th.ops = .get k :: rest →
    sys.store.ring.slot i = some (k, v) → W th.inv sys.clock k v
  gets : ∀ r ∈ sys.hist, ∀ k v, r.op = .get k → k.cls = .cache → r.res = .found v →
    W r.inv r.ret k v

theorem AtomInv.init (c : RingCfg) (W : Nat → Nat → Key → Val → Prop) (cap : Nat) (walOn : Bool)
    (progs : List ThreadProgram) : AtomInv c W (initRSys cap walOn progs) := by
  constructor
  · intro th hth
    simp only [initRSys, List.mem_map] at hth
    obtain ⟨p, _, rfl⟩ := hth
    exact Nat.le_refl _
  · intro t th hth i k rest v hpc
    simp only [initRSys, List.getElem?_map] at hth
    cases hp : progs[t]? with
    | none => rw [hp] at hth; cases hth
    | some p =>
      rw [hp] at hth
      simp only [Option.map_some, Option.some.injEq] at hth
      subst hth
      cases hpc
  · intro r hr
    simp [initRSys] at hr

theorem AtomInv.step {c : RingCfg} (hc : c.keyCheck = true) {W W' : Nat → Nat → Key → Val → Prop}
    {sys : RSys} (h : AtomInv c W sys) (t : Nat)
    (hmono : ∀ lo hi hi' k v, W lo hi k v → hi ≤ hi' → W' lo hi' k v)
    (hlast : ∀ lo k v, lo ≤ (stepR c sys t).clock →
      ringGetAtomic c (stepR c sys t).store.ring k = some v → W' lo (stepR c sys t).clock k v) :
    AtomInv c W' (stepR c sys t) := by
  have hsame : AtomInv c W' sys :=
    ⟨h.invs,
     fun t' th' hth' i k rest v h1 h2 h3 => hmono _ _ _ _ _ (h.parked t' th' hth' i k rest v h1 h2 h3) (Nat.le_refl _),
     fun r hr k v h1 h2 h3 => hmono _ _ _ _ _ (h.gets r hr k v h1 h2 h3) (Nat.le_refl _)⟩
  generalize hs' : stepR c sys t = sys' at hlast ⊢
  unfold stepR at hs'
  split at hs'
  · subst hs'; exact hsame
  · rename_i th hth
    split at hs'
    · subst hs'; exact hsame
    · rename_i op rest hops
      split at hs'
      · subst hs'; exact hsame
      · have hSlot := ra_stepOpR_slot c sys.store op th.pc
        have hPark := ra_stepOpR_park c sys.store op th.pc
        have hFound : ∀ k v, op = .get k → k.cls = .cache →
            (stepOpR c sys.store op th.pc).2 = .done (.found v) →
            ∃ i, th.pc = .ringGetAfterIndex i ∧ sys.store.ring.slot i = some (k, v) := by
          intro k v hop hk hr
          subst hop
          exact ra_stepOpR_found c hc sys.store th.pc k v hk hr
        have hthm : th ∈ sys.threads := List.mem_of_getElem? hth
        have hthinv : th.inv ≤ sys.clock := h.invs th hthm
        have hinv' : (if th.pc = .hook .start then sys.clock else th.inv) ≤ sys.clock := by
          split
          · exact Nat.le_refl _
          · exact hthinv
        generalize stepOpR c sys.store op th.pc = res at hs' hSlot hPark hFound
        obtain ⟨s', o⟩ := res
        -- a thread other than `t`, parked: the old witness, or the state after this step
        have hOther : ∀ (th' : RThread), th' ∈ sys.threads → ∀ (t' : Nat), sys.threads[t']? = some th' → ∀ (i : Nat) (k : Key) (rest' : List Op) (v : Val),
            th'.pc = .ringGetAfterIndex i → th'.ops = .get k :: rest' →
            s'.ring.slot i = some (k, v) →
            (∀ lo k v, lo ≤ sys.clock + 1 → ringGetAtomic c s'.ring k = some v → W' lo (sys.clock + 1) k v) →
            W' th'.inv (sys.clock + 1) k v := by
          intro th' hm' t' hth' i k rest' v h1 h2 h3 hl
          rcases hSlot i k v h3 with h4 | h4
          · exact hmono _ _ _ _ _ (h.parked t' th' hth' i k rest' v h1 h2 h4) (Nat.le_succ _)
          · exact hl _ k v (Nat.le_succ_of_le (h.invs th' hm')) h4
        cases o with
        | cont pc' =>
          dsimp only at hs'
          subst hs'
          dsimp only at hlast ⊢
          constructor
          · intro th' hm'
            dsimp only at hm' ⊢
            rcases List.mem_or_eq_of_mem_set hm' with hm' | hm'
            · exact Nat.le_succ_of_le (h.invs th' hm')
            · subst hm'
              exact Nat.le_succ_of_le hinv'
          · intro t' th' hth' i k rest' v h1 h2 h3
            dsimp only at hth' h3 ⊢
            rw [List.getElem?_set] at hth'
            by_cases htt : t = t'
            · subst htt
              simp only [if_true] at hth'
              split at hth'
              · simp only [Option.some.injEq] at hth'
                subst hth'
                dsimp only at h1 h2 ⊢
                obtain ⟨k0, hop, hlk, hst⟩ := hPark i (by rw [h1])
                dsimp only at hst
                subst hst
                rw [hops, hop] at h2
                simp only [List.cons.injEq, Op.get.injEq] at h2
                obtain ⟨hk, _⟩ := h2
                subst hk
                exact hlast _ k0 v (Nat.le_succ_of_le hinv') (ra_atomic_of_lookup hlk h3)
              · cases hth'
            · simp only [htt, if_false] at hth'
              exact hOther th' (List.mem_of_getElem? hth') t' hth' i k rest' v h1 h2 h3 hlast
          · intro r hr k v h1 h2 h3
            exact hmono _ _ _ _ _ (h.gets r hr k v h1 h2 h3) (Nat.le_refl _)
        | done res =>
          dsimp only at hs'
          subst hs'
          dsimp only at hlast ⊢
          constructor
          · intro th' hm'
            dsimp only at hm' ⊢
            rcases List.mem_or_eq_of_mem_set hm' with hm' | hm'
            · exact Nat.le_succ_of_le (h.invs th' hm')
            · subst hm'
              exact Nat.zero_le _
          · intro t' th' hth' i k rest' v h1 h2 h3
            dsimp only at hth' h3 ⊢
            rw [List.getElem?_set] at hth'
            by_cases htt : t = t'
            · subst htt
              simp only [if_true] at hth'
              split at hth'
              · simp only [Option.some.injEq] at hth'
                subst hth'
                cases h1
              · cases hth'
            · simp only [htt, if_false] at hth'
              exact hOther th' (List.mem_of_getElem? hth') t' hth' i k rest' v h1 h2 h3 hlast
          · intro r hr k v h1 h2 h3
            dsimp only at hr
            simp only [List.mem_append, List.mem_singleton] at hr
            rcases hr with hr | hr
            · exact hmono _ _ _ _ _ (h.gets r hr k v h1 h2 h3) (Nat.le_refl _)
            · subst hr
              dsimp only at h1 h3 ⊢
              obtain ⟨i, hpc, hsl⟩ := hFound k v h1 h2 (by rw [h3])
              have hne : ¬ th.pc = .hook .start := by rw [hpc]; intro hh; cases hh
              simp only [hne, if_false]
              exact hmono _ _ _ _ _ (h.parked t th hth i k rest v hpc (by rw [hops, h1]) hsl) (Nat.le_refl _)

/-! ### the witnesses: the states the run passes through -/

/-- some prefix of the schedule reaches a state whose clock lies in `[lo, hi]` and in which a
    one-step get of `k` returns `v` -/
def ra_Wit (c : RingCfg) (init : RSys) (sched : List Nat) (lo hi : Nat) (k : Key) (v : Val) : Prop :=
  ∃ n, n ≤ sched.length ∧
    lo ≤ (runFromR c init (sched.take n)).clock ∧
    (runFromR c init (sched.take n)).clock ≤ hi ∧
    ringGetAtomic c (runFromR c init (sched.take n)).store.ring k = some v

theorem ra_Wit_snoc {c : RingCfg} {init : RSys} {sched : List Nat} {lo hi : Nat} {k : Key} {v : Val}
    (h : ra_Wit c init sched lo hi k v) (t : Nat) {hi' : Nat} (hh : hi ≤ hi') :
    ra_Wit c init (sched ++ [t]) lo hi' k v := by
  obtain ⟨n, hn, h1, h2, h3⟩ := h
  refine ⟨n, ?_, ?_, ?_, ?_⟩
  · rw [List.length_append]; exact Nat.le_trans hn (Nat.le_add_right _ _)
  · rw [List.take_append_of_le_length hn]; exact h1
  · rw [List.take_append_of_le_length hn]; exact Nat.le_trans h2 hh
  · rw [List.take_append_of_le_length hn]; exact h3

theorem ra_Wit_last {c : RingCfg} {init : RSys} {sched : List Nat} {lo : Nat} {k : Key} {v : Val}
    (h1 : lo ≤ (runFromR c init sched).clock)
    (h3 : ringGetAtomic c (runFromR c init sched).store.ring k = some v) :
    ra_Wit c init sched lo (runFromR c init sched).clock k v := by
  refine ⟨sched.length, Nat.le_refl _, ?_, ?_, ?_⟩
  · rw [List.take_length]; exact h1
  · rw [List.take_length]; exact Nat.le_refl _
  · rw [List.take_length]; exact h3

theorem ra_runFromR_snoc (c : RingCfg) (init : RSys) (sched : List Nat) (t : Nat) :
    runFromR c init (sched ++ [t]) = stepR c (runFromR c init sched) t := by
  simp only [runFromR, List.foldl_append, List.foldl_cons, List.foldl_nil]

theorem AtomInv.snoc {c : RingCfg} (hc : c.keyCheck = true) {init : RSys} {sched : List Nat}
    (h : AtomInv c (ra_Wit c init sched) (runFromR c init sched)) (t : Nat) :
    AtomInv c (ra_Wit c init (sched ++ [t])) (runFromR c init (sched ++ [t])) := by
  have hstep := AtomInv.step hc (W' := ra_Wit c init (sched ++ [t])) h t
    (fun lo hi hi' k v hw hh => ra_Wit_snoc hw t hh)
    (by
      intro lo k v h1 h3
      rw [← ra_runFromR_snoc] at h1 h3 ⊢
      exact ra_Wit_last h1 h3)
  rw [ra_runFromR_snoc]
  exact hstep

theorem AtomInv.run {c : RingCfg} (hc : c.keyCheck = true) (init : RSys) (todo : List Nat) :
    ∀ done : List Nat, AtomInv c (ra_Wit c init done) (runFromR c init done) →
      AtomInv c (ra_Wit c init (done ++ todo)) (runFromR c init (done ++ todo)) := by
  induction todo with
  | nil => intro done h; rw [List.append_nil]; exact h
  | cons t rest ih =>
    intro done h
    have := ih (done ++ [t]) (h.snoc hc t)
    rw [List.append_assoc] at this
    exact this

/-- a two-step `get` of a cache key that finds a value returns exactly what a one-step (atomic)
    get returns in some state the run passes through between the two steps (ends included) - for
    every hash function, victim choice, capacity, programs and schedule -/
theorem two_step_get_reads_what_an_atomic_get_would (hash : Key → Nat)
    (pick : List (Option (Key × Val)) → Nat) (cap : Nat) (walOn : Bool)
    (progs : List ThreadProgram) (sched : List Nat) :
    let c : RingCfg := { hash := hash, pick := pick, keyCheck := true }
    ∀ r ∈ (runSchedR c cap walOn progs sched).hist, ∀ k v,
      r.op = .get k → k.cls = .cache → r.res = .found v →
      ∃ n, n ≤ sched.length ∧
        r.inv ≤ (runSchedR c cap walOn progs (sched.take n)).clock ∧
        (runSchedR c cap walOn progs (sched.take n)).clock ≤ r.ret ∧
        ringGetAtomic c (runSchedR c cap walOn progs (sched.take n)).store.ring k = some v := by
  intro c r hr k v h1 h2 h3
  have h0 : AtomInv c (ra_Wit c (initRSys cap walOn progs) []) (runFromR c (initRSys cap walOn progs) []) :=
    AtomInv.init c _ cap walOn progs
  have h := AtomInv.run (c := c) rfl (initRSys cap walOn progs) sched [] h0
  rw [List.nil_append] at h
  exact h.gets r hr k v h1 h2 h3

/-! ### not vacuous: every two keys collide; a get races with two puts of the other thread -/

/-- thread 0 puts `_cache:1` and reads it back; thread 1 puts `_cache:2` (same hash) and `_cache:1` again -/
def ra_progs : List ThreadProgram :=
  [[.put kC1 ⟨1, .none⟩, .get kC1], [.put kC2 ⟨2, .none⟩, .put kC1 ⟨3, .none⟩]]

/-- put; the get's index lookup; both puts of thread 1; the get's slot read -/
def ra_sched : List Nat := [0, 0, 1, 1, 0]

/-- four slots: the colliding puts go to fresh slots, slot 0 keeps `(_cache:1, 1)`.  The get (first
    step at clock 1, last at clock 4) returns 1 = what an atomic get returns in the state with clock
    2 (the prefix of length 2: right after the get's first step), although at clocks 3 and 4 an
    atomic get returns nothing / 3 -/
example :
    (runSchedR (cfgOf hashConst true) 4 false ra_progs ra_sched).hist[3]? =
        some { t := 0, i := 1, op := .get kC1, res := .found ⟨1, .none⟩, inv := 1, ret := 4 } ∧
      (runSchedR (cfgOf hashConst true) 4 false ra_progs (ra_sched.take 2)).clock = 2 ∧
      ringGetAtomic (cfgOf hashConst true)
        (runSchedR (cfgOf hashConst true) 4 false ra_progs (ra_sched.take 2)).store.ring kC1 = some ⟨1, .none⟩ ∧
      ringGetAtomic (cfgOf hashConst true)
        (runSchedR (cfgOf hashConst true) 4 false ra_progs (ra_sched.take 3)).store.ring kC1 = none ∧
      ringGetAtomic (cfgOf hashConst true)
        (runSchedR (cfgOf hashConst true) 4 false ra_progs (ra_sched.take 4)).store.ring kC1 = some ⟨3, .none⟩ := by
  decide

/-- one slot: both puts of thread 1 evict what slot 0 holds, the second one stores `(_cache:1, 3)`
    there.  The get had slot number 0 in hand since clock 1; it returns 3 = what an atomic get returns
    in the state with clock 4 (the prefix of length 4: right before the get's last step), not the 1
    an atomic get returned when the get took its first step -/
example :
    (runSchedR (cfgOf hashConst true) 1 false ra_progs ra_sched).hist[3]? =
        some { t := 0, i := 1, op := .get kC1, res := .found ⟨3, .none⟩, inv := 1, ret := 4 } ∧
      (runSchedR (cfgOf hashConst true) 1 false ra_progs (ra_sched.take 4)).clock = 4 ∧
      ringGetAtomic (cfgOf hashConst true)
        (runSchedR (cfgOf hashConst true) 1 false ra_progs (ra_sched.take 4)).store.ring kC1 = some ⟨3, .none⟩ ∧
      ringGetAtomic (cfgOf hashConst true)
        (runSchedR (cfgOf hashConst true) 1 false ra_progs (ra_sched.take 1)).store.ring kC1 = some ⟨1, .none⟩ := by
  decide

end Neumann.KV
