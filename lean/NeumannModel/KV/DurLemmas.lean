import NeumannModel.KV.EmbLemmas
/-
  C11 — durable writes (core Lean only):
  (1) `DInv`: runs of operations on keys of every class but `emb:`, durable forms included, with or
      without the log - the history is linearizable in the order of the LAST steps;
  (2) `RInv`: runs of durable writers of every class (`emb:` keys and vectors included) and readers -
      the slabs rebuilt from the log equal the live slabs once every thread has finished.
-/
namespace Neumann.KV

/-! ### (1) linearizability with the durable forms -/

theorem Abs.wal {s : Store} {σ : Spec} (h : Abs s σ) (w : List Entry) : Abs { s with wal := w } σ :=
  ⟨h.get, h.mdNoCache, h.cacheOnly, h.vocab⟩

theorem noEmb_cases {op : Op} (h : op.noEmb = true) :
    op.singleStep ∨ (∃ k v, op = .putD k v ∧ k.cls ≠ .cache ∧ k.cls ≠ .emb) ∨
      (∃ k, op = .delD k ∧ k.cls ≠ .cache ∧ k.cls ≠ .emb) := by
  cases op with
  | putD k v =>
    simp only [Op.noEmb, decide_eq_true_eq] at h
    by_cases hc : k.cls = .cache
    · exact Or.inl hc
    · exact Or.inr (Or.inl ⟨k, v, rfl, hc, h⟩)
  | delD k =>
    simp only [Op.noEmb, decide_eq_true_eq] at h
    by_cases hc : k.cls = .cache
    · exact Or.inl hc
    · exact Or.inr (Or.inr ⟨k, rfl, hc, h⟩)
  | put k v => left; simpa [Op.noEmb, Op.singleStep] using h
  | get k => left; simpa [Op.noEmb, Op.singleStep] using h
  | delete k => left; simpa [Op.noEmb, Op.singleStep] using h
  | exists_ k => left; simpa [Op.noEmb, Op.singleStep] using h
  | scan p => left; trivial

/-- the log step of a durable write of a non-`emb:` key, nothing in the entity index: the store
    changes in its log alone -/
theorem logStep_nonEmb {s : Store} {op : Op} {k : Key} (hv : s.vocab = [])
    (hop : (∃ v, op = .putD k v) ∨ op = .delD k) (hc : k.cls ≠ .cache) (he : k.cls ≠ .emb) :
    ∃ w, stepOp s op .start = ({ s with wal := w }, .cont (afterLog op)) := by
  rcases hop with ⟨v, rfl⟩ | rfl
  · by_cases hw : s.walOn = true
    · exact ⟨s.wal ++ [.metaSet k v], by simp [stepOp, hc, logPut, hw, he, afterLog]⟩
    · exact ⟨s.wal, by cases s; simp_all [stepOp, logPut, afterLog]⟩
  · by_cases hw : s.walOn = true
    · exact ⟨s.wal ++ [.metaDel k], by simp [stepOp, hc, logDelete, hw, hv, idxGet, idxGetAux, afterLog]⟩
    · exact ⟨s.wal, by cases s; simp_all [stepOp, logDelete, afterLog]⟩

/-- the non-durable twin of a durable write: what its apply step executes -/
def twin : Op → Op
  | .putD k v => .put k v
  | .delD k => .delete k
  | op => op

structure DInv (sys : Sys) : Prop where
  abs : Abs sys.store (specRun [] (sys.hist.map (·.op)))
  strict : SeqStrict [] sys.hist
  ops : ∀ th ∈ sys.threads, ∀ op ∈ th.ops, op.noEmb = true ∧ op.scanStr = true
  pcs : ∀ th ∈ sys.threads, th.pc = .start ∨
    ∃ op rest, th.ops = op :: rest ∧ op.takesLock = true ∧ th.pc = afterLog op ∧ th.inv < sys.clock
  times : ∀ r ∈ sys.hist, r.inv ≤ r.ret ∧ r.ret < sys.clock
  sorted : sys.hist.Pairwise (fun a b => a.ret < b.ret)

theorem DInv.init (w : Bool) (progs : List ThreadProgram)
    (h : ∀ p ∈ progs, ∀ op ∈ p, op.noEmb = true ∧ op.scanStr = true) : DInv (initSys w progs) := by
  constructor
  · exact Abs.init w
  · trivial
  · intro th hth
    simp only [initSys, List.mem_map] at hth
    obtain ⟨p, hp, rfl⟩ := hth
    exact h p hp
  · intro th hth
    simp only [initSys, List.mem_map] at hth
    obtain ⟨p, _, rfl⟩ := hth
    exact Or.inl rfl
  · intro r hr; simp [initSys] at hr
  · simp [initSys]

theorem DInv.stepOld {sys : Sys} (h : DInv sys) (t : Nat) : DInv (stepOld sys t) := by
  cases hth : sys.threads[t]? with
  | none => unfold Neumann.KV.stepOld; simp only [hth]; exact h
  | some th =>
    cases hops : th.ops with
    | nil => unfold Neumann.KV.stepOld; simp only [hth, hops]; exact h
    | cons op rest =>
      have hmem : th ∈ sys.threads := List.mem_of_getElem? hth
      have hall := h.ops th hmem
      have hop := hall op (by simp [hops])
      have hrest : ∀ o ∈ rest, o.noEmb = true ∧ o.scanStr = true :=
        fun o ho => hall o (by simp [hops, ho])
      -- what the last step of an operation does to the invariant
      have finish : ∀ (op' : Op) (s' : Store) (r : Res), op'.singleStep → op'.scanStr = true →
          stepOp sys.store op th.pc = stepOp sys.store op' .start →
          specStep (specRun [] (sys.hist.map (·.op))) op = specStep (specRun [] (sys.hist.map (·.op))) op' →
          (th.pc = .start ∨ th.inv < sys.clock) → DInv (Neumann.KV.stepOld sys t) := by
        intro op' s' r hss hsb hsame hspec hinv
        obtain ⟨s2, r2, hstep, hres, habs⟩ := single_step_refines h.abs op' hss hsb
        rw [stepOld_done hth hops (hsame.trans hstep)]
        constructor
        · simp only [afterDone, List.map_append, List.map_cons, List.map_nil, specRun_append]
          simpa only [specApply, hspec] using habs
        · refine (seqStrict_append _ _ _).mpr ⟨h.strict, ?_⟩
          simpa only [specRes, hspec] using hres
        · intro th' hm
          rcases mem_set_cases hm with h1 | h1
          · exact h.ops th' h1
          · subst h1; exact hrest
        · intro th' hm
          rcases mem_set_cases hm with h1 | h1
          · rcases h.pcs th' h1 with h2 | ⟨o, rs, a, b, c, d⟩
            · exact Or.inl h2
            · exact Or.inr ⟨o, rs, a, b, c, Nat.lt_succ_of_lt d⟩
          · subst h1; exact Or.inl rfl
        · intro x hx
          simp only [afterDone, List.mem_append, List.mem_singleton] at hx
          rcases hx with hx | hx
          · exact ⟨(h.times x hx).1, Nat.lt_succ_of_lt (h.times x hx).2⟩
          · subst hx
            refine ⟨?_, Nat.lt_succ_self _⟩
            rcases hinv with hpc | hlt
            · simp [hpc]
            · by_cases hpc : th.pc = .start
              · simp [hpc]
              · simp only [hpc, if_false]; exact Nat.le_of_lt hlt
        · refine List.pairwise_append.mpr ⟨h.sorted, by simp, ?_⟩
          intro a ha b hb
          simp only [List.mem_singleton] at hb
          subst hb
          exact (h.times a ha).2
      -- what the log step of a durable write does to the invariant
      have logged : ∀ (w : List Entry), op.takesLock = true → th.pc = .start →
          stepOp sys.store op .start = ({ sys.store with wal := w }, .cont (afterLog op)) →
          DInv (Neumann.KV.stepOld sys t) := by
        intro w hlk hpc hstep
        rw [← hpc] at hstep
        rw [stepOld_cont hth hops hstep]
        constructor
        · exact h.abs.wal w
        · exact h.strict
        · intro th' hm
          rcases mem_set_cases hm with h1 | h1
          · exact h.ops th' h1
          · subst h1; simpa [hops] using hall
        · intro th' hm
          rcases mem_set_cases hm with h1 | h1
          · rcases h.pcs th' h1 with h2 | ⟨o, rs, a, b, c, d⟩
            · exact Or.inl h2
            · exact Or.inr ⟨o, rs, a, b, c, Nat.lt_succ_of_lt d⟩
          · subst h1
            refine Or.inr ⟨_, rest, hops, hlk, rfl, ?_⟩
            simp [afterCont, hpc]
        · intro x hx
          exact ⟨(h.times x hx).1, Nat.lt_succ_of_lt (h.times x hx).2⟩
        · exact h.sorted
      rcases h.pcs th hmem with hpc | ⟨o, rs, hops', hlock, hpc, hinv⟩
      · -- the first step of the operation
        rcases noEmb_cases hop.1 with hss | ⟨k, v, rfl, hc, he⟩ | ⟨k, rfl, hc, he⟩
        · exact finish op sys.store .ok hss hop.2 (by rw [hpc]) rfl (Or.inl hpc)
        · obtain ⟨w, hstep⟩ := logStep_nonEmb (op := .putD k v) h.abs.vocab (Or.inl ⟨v, rfl⟩) hc he
          exact logged w (by simp [Op.takesLock, hc]) hpc hstep
        · obtain ⟨w, hstep⟩ := logStep_nonEmb (op := .delD k) h.abs.vocab (Or.inr rfl) hc he
          exact logged w (by simp [Op.takesLock, hc]) hpc hstep
      · -- the apply step of a durable write
        rw [hops] at hops'
        cases hops'
        rcases noEmb_cases hop.1 with hss | ⟨k, v, rfl, hc, he⟩ | ⟨k, rfl, hc, he⟩
        · -- a single-step operation is never between its steps
          exfalso
          cases op with
          | putD k v => simp [Op.takesLock, Op.singleStep] at hlock hss; exact hlock hss
          | delD k => simp [Op.takesLock, Op.singleStep] at hlock hss; exact hlock hss
          | _ => simp [Op.takesLock] at hlock
        · refine finish (.put k v) sys.store .ok he rfl ?_ rfl (Or.inr hinv)
          rw [hpc]; rfl
        · refine finish (.delete k) sys.store .ok he rfl ?_ rfl (Or.inr hinv)
          rw [hpc]; rfl

theorem DInv.step {sys : Sys} (h : DInv sys) (t : Nat) : DInv (step sys t) := by
  unfold Neumann.KV.step
  split
  · exact h
  · split
    · exact h
    · split
      · exact h
      · exact h.stepOld t

theorem DInv.run {sys : Sys} (h : DInv sys) (sched : List Nat) : DInv (runFrom sys sched) := by
  induction sched generalizing sys with
  | nil => exact h
  | cons t rest ih => exact ih (h.step t)

theorem DInv.realTime {sys : Sys} (h : DInv sys) : RespectsRealTime sys.hist := by
  refine List.Pairwise.imp_of_mem ?_ h.sorted
  intro a b ha _ hab hba
  have := (h.times a ha).1
  omega

theorem DInv.linearizable {sys : Sys} (h : DInv sys) : Linearizable sys.hist :=
  ⟨sys.hist, List.Perm.refl _, h.strict.valid, h.realTime⟩


/-! ### (2) durable writers of every key class: the log replays to the live slabs -/

/-- the metadata slab, the entity index and the embedding slab agree -/
def SlabsEq (a b : Store) : Prop := a.md = b.md ∧ a.vocab = b.vocab ∧ a.slab = b.slab

theorem SlabsEq.refl (a : Store) : SlabsEq a a := ⟨rfl, rfl, rfl⟩

theorem SlabsEq.trans {a b c : Store} (h1 : SlabsEq a b) (h2 : SlabsEq b c) : SlabsEq a c :=
  ⟨h1.1.trans h2.1, h1.2.1.trans h2.2.1, h1.2.2.trans h2.2.2⟩

theorem applyEntry_congr {a b : Store} (h : SlabsEq a b) (e : Entry) :
    SlabsEq (applyEntry a e) (applyEntry b e) := by
  obtain ⟨h1, h2, h3⟩ := h
  cases e <;> simp only [applyEntry, SlabsEq, h1, h2, h3] <;> (try split) <;> simp

theorem foldl_applyEntry_congr {a b : Store} (h : SlabsEq a b) (es : List Entry) :
    SlabsEq (es.foldl applyEntry a) (es.foldl applyEntry b) := by
  induction es generalizing a b with
  | nil => exact h
  | cons e es ih => exact ih (applyEntry_congr h e)

theorem replay_append (w es : List Entry) : replay (w ++ es) = es.foldl applyEntry (replay w) := by
  simp [replay, List.foldl_append]

/-- how many atomic steps an operation parked at this yield point has left, at most -/
def pcMeasure : PC → Nat
  | .start => 4
  | .putDAfterLog | .delDAfterLog => 3
  | .putEmbAfterIndex _ | .delEmbAfterVector | .getEmbAfterIndex _ => 2
  | .putEmbAfterVector | .delEmbAfterIndex | .getEmbAfterVector _ => 1

theorem pcMeasure_pos (pc : PC) : 0 < pcMeasure pc := by cases pc <;> simp [pcMeasure]

theorem stepOp_measure {s s' : Store} {op : Op} {pc pc' : PC}
    (h : stepOp s op pc = (s', .cont pc')) : pcMeasure pc' < pcMeasure pc := by
  cases pc <;> cases op <;>
    simp only [stepOp, routerPut, routerGet, routerDelete] at h <;>
    (repeat' split at h) <;>
    simp only [Prod.mk.injEq, Outcome.cont.injEq, reduceCtorEq, and_false] at h <;>
    (obtain ⟨-, rfl⟩ := h) <;> simp [pcMeasure]

theorem seqOpAux_fuel (op : Op) : ∀ (n m : Nat) (s : Store) (pc : PC), pcMeasure pc ≤ n →
    pcMeasure pc ≤ m → seqOpAux n s op pc = seqOpAux m s op pc := by
  intro n
  induction n with
  | zero => intro m s pc h; have := pcMeasure_pos pc; omega
  | succ n ih =>
    intro m s pc hn hm
    cases m with
    | zero => have := pcMeasure_pos pc; omega
    | succ m =>
      simp only [seqOpAux]
      cases hst : stepOp s op pc with
      | mk s' out =>
        cases out with
        | done r => rfl
        | cont pc' =>
          have := stepOp_measure hst
          exact ih m s' pc' (by omega) (by omega)

/-- the store when the operation parked at `pc` has run to its end with nobody in between -/
def finishOp (s : Store) (op : Op) (pc : PC) : Store := (seqOpAux 5 s op pc).1

theorem pcMeasure_le (pc : PC) : pcMeasure pc ≤ 4 := by cases pc <;> simp [pcMeasure]

theorem finishOp_cont {s s' : Store} {op : Op} {pc pc' : PC} (h : stepOp s op pc = (s', .cont pc')) :
    finishOp s op pc = finishOp s' op pc' ∧ pc' ≠ .start := by
  have hm := stepOp_measure h
  have hle := pcMeasure_le pc
  refine ⟨?_, ?_⟩
  · unfold finishOp
    rw [show seqOpAux 5 s op pc = seqOpAux 4 s' op pc' by simp only [seqOpAux, h]]
    rw [seqOpAux_fuel op 4 5 s' pc' (by omega) (by omega)]
  · intro e; subst e
    have : pcMeasure PC.start = 4 := rfl
    omega

theorem finishOp_done {s s' : Store} {op : Op} {pc : PC} {r : Res} (h : stepOp s op pc = (s', .done r)) :
    finishOp s op pc = s' := by
  simp [finishOp, seqOpAux, h]

/-- entity-index entries exist for `emb:` keys only -/
def EmbOnly (v : List (Key × Bool)) : Prop := ∀ k, k.cls ≠ .emb → idxGet v k = none

theorem EmbOnly.getOrCreate {v : List (Key × Bool)} (h : EmbOnly v) {k : Key} (hk : k.cls = .emb) :
    EmbOnly (idxGetOrCreate v k).2 := by
  intro k' hk'
  have hne : k' ≠ k := fun e => hk' (e ▸ hk)
  rw [idxGetOrCreate_other v hne]
  exact h k' hk'

theorem EmbOnly.remove {v : List (Key × Bool)} (h : EmbOnly v) (k : Key) : EmbOnly (idxRemove v k) := by
  intro k' hk'
  by_cases e : k' = k
  · subst e
    have := h k' hk'
    simp [idxRemove, this]
  · rw [idxRemove_other v e]
    exact h k' hk'

/-- one atomic step of a durable write of a non-cache key or of a read: the log mode, the cache
    ring and "index entries for `emb:` keys only" stay; past the entry of the call the log stays -/
theorem stepOp_frame {s : Store} {op : Op} {pc : PC} (hop : op.durableOrRead = true)
    (he : EmbOnly s.vocab) :
    (stepOp s op pc).1.walOn = s.walOn ∧ (stepOp s op pc).1.cache = s.cache ∧
    EmbOnly (stepOp s op pc).1.vocab ∧ (pc ≠ .start → (stepOp s op pc).1.wal = s.wal) := by
  cases op with
  | put k v => simp [Op.durableOrRead] at hop
  | delete k => simp [Op.durableOrRead] at hop
  | get k =>
    cases pc <;> simp only [stepOp, routerGet] <;> (repeat' split) <;> simp [he]
  | exists_ k => cases pc <;> simp [stepOp, he]
  | scan p => cases pc <;> simp [stepOp, he]
  | putD k v =>
    have hc : k.cls ≠ .cache := by simpa [Op.durableOrRead] using hop
    cases pc <;> simp only [stepOp, routerPut, logPut, hc, if_false] <;> (repeat' split) <;>
      (refine ⟨?_, ?_, ?_, ?_⟩) <;>
      (first
        | rfl
        | trivial
        | exact he
        | (intro; rfl)
        | (rename_i hcl _; exact he.getOrCreate hcl)
        | (rename_i hcl; exact he.getOrCreate hcl)
        | (exact he.getOrCreate (by simp_all))
        | simp_all)
  | delD k =>
    have hc : k.cls ≠ .cache := by simpa [Op.durableOrRead] using hop
    cases pc <;> simp only [stepOp, routerDelete, logDelete, hc, if_false] <;> (repeat' split) <;>
      (refine ⟨?_, ?_, ?_, ?_⟩) <;>
      (first
        | rfl
        | trivial
        | exact he
        | exact he.remove k
        | (intro; rfl)
        | simp_all)

theorem stepOp_read {s : Store} {op : Op} (pc : PC)
    (h : (∃ k, op = .get k) ∨ (∃ k, op = .exists_ k) ∨ (∃ p, op = .scan p)) : (stepOp s op pc).1 = s := by
  rcases h with ⟨k, rfl⟩ | ⟨k, rfl⟩ | ⟨p, rfl⟩
  · cases pc <;> simp only [stepOp, routerGet] <;> (repeat' split) <;> rfl
  · cases pc <;> rfl
  · cases pc <;> rfl

theorem aerase_absent {α β} [DecidableEq α] (m : List (α × β)) (k : α) (h : aget m k = none) :
    aerase m k = m := by
  induction m with
  | nil => rfl
  | cons p r ih =>
    obtain ⟨a, b⟩ := p
    by_cases e : a = k
    · simp [aget, e] at h
    · simp only [aget, e, if_false] at h
      simp only [aerase, List.filter, e, decide_false, Bool.not_false] at ih ⊢
      rw [ih h]

theorem idxGetOrCreate_idem (v : List (Key × Bool)) (k : Key) :
    idxGetOrCreate (idxGetOrCreate v k).2 k = idxGetOrCreate v k := by
  have h := idxGetOrCreate_self v k
  generalize idxGetOrCreate v k = w at h ⊢
  simp [idxGetOrCreate, h]

theorem idxRemove_absent (v : List (Key × Bool)) (k : Key) (h : idxGet v k = none) : idxRemove v k = v := by
  simp [idxRemove, h]

/-- THE LOG STEP.  On a store whose log replays to its slabs, `put_durable` / `delete_durable` of a
    key of any class but the cache (any value) appends exactly the records whose replay yields the
    slabs the operation will have produced when it has run to its end -/
theorem logStep_replay {s : Store} {op : Op} (hw : s.walOn = true) (hr : SlabsEq (replay s.wal) s)
    (he : EmbOnly s.vocab) (hop : (∃ k v, op = .putD k v ∧ k.cls ≠ .cache) ∨ (∃ k, op = .delD k ∧ k.cls ≠ .cache)) :
    ∃ s1, stepOp s op .start = (s1, .cont (afterLog op)) ∧ s1.walOn = true ∧
      SlabsEq (replay s1.wal) (finishOp s1 op (afterLog op)) := by
  rcases hop with ⟨k, v, rfl, hc⟩ | ⟨k, rfl, hc⟩
  · by_cases hemb : k.cls = .emb
    · cases hv : v.vec with
      | none =>
        refine ⟨{ s with wal := s.wal ++ [.metaSet k v] }, by simp [stepOp, logPut, hw, hemb, hv, afterLog], hw, ?_⟩
        simp only [replay_append]
        refine (foldl_applyEntry_congr hr _).trans ?_
        simp [SlabsEq, finishOp, seqOpAux, stepOp, routerPut, afterLog, applyEntry, hemb, hv]
      | good t =>
        refine ⟨{ s with vocab := (idxGetOrCreate s.vocab k).2,
                         wal := s.wal ++ [.embSet (idxGetOrCreate s.vocab k).1 (.good t), .metaSet k v] },
          by simp [stepOp, logPut, hw, hemb, hv, afterLog], hw, ?_⟩
        simp only [replay_append]
        refine (foldl_applyEntry_congr hr _).trans ?_
        simp [SlabsEq, finishOp, seqOpAux, stepOp, routerPut, afterLog, applyEntry, hemb, hv,
          idxGetOrCreate_idem]
      | bad t =>
        refine ⟨{ s with vocab := (idxGetOrCreate s.vocab k).2,
                         wal := s.wal ++ [.embSet (idxGetOrCreate s.vocab k).1 (.bad t), .metaSet k v] },
          by simp [stepOp, logPut, hw, hemb, hv, afterLog], hw, ?_⟩
        simp only [replay_append]
        refine (foldl_applyEntry_congr hr _).trans ?_
        simp [SlabsEq, finishOp, seqOpAux, stepOp, routerPut, afterLog, applyEntry, hemb, hv,
          idxGetOrCreate_idem]
    · refine ⟨{ s with wal := s.wal ++ [.metaSet k v] }, by simp [stepOp, hc, logPut, hw, hemb, afterLog], hw, ?_⟩
      simp only [replay_append]
      refine (foldl_applyEntry_congr hr _).trans ?_
      cases hcl : k.cls <;> simp_all [SlabsEq, finishOp, seqOpAux, stepOp, routerPut, afterLog, applyEntry]
  · cases hi : idxGet s.vocab k with
    | some id =>
      have hemb : k.cls = .emb := Decidable.byContradiction fun hne => by
        rw [he k hne] at hi
        cases hi
      refine ⟨{ s with wal := s.wal ++ [.embDel id, .entRemove k, .metaDel k] },
        by simp [stepOp, hc, logDelete, hw, hi, afterLog], hw, ?_⟩
      simp only [replay_append]
      refine (foldl_applyEntry_congr hr _).trans ?_
      simp [SlabsEq, finishOp, seqOpAux, stepOp, routerDelete, existsNow, afterLog, applyEntry, hemb, hi]
    | none =>
      refine ⟨{ s with wal := s.wal ++ [.metaDel k] }, by simp [stepOp, hc, logDelete, hw, hi, afterLog], hw, ?_⟩
      simp only [replay_append]
      refine (foldl_applyEntry_congr hr _).trans ?_
      cases hm : aget s.md k with
      | none =>
        cases hcl : k.cls <;>
          simp_all [SlabsEq, finishOp, seqOpAux, stepOp, routerDelete, existsNow, afterLog, applyEntry,
            aerase_absent]
      | some w =>
        cases hcl : k.cls <;>
          simp_all [SlabsEq, finishOp, seqOpAux, stepOp, routerDelete, existsNow, afterLog, applyEntry,
            idxRemove_absent]

theorem durableOrRead_cases {op : Op} (h : op.durableOrRead = true) :
    ((∃ k, op = .get k) ∨ (∃ k, op = .exists_ k) ∨ (∃ p, op = .scan p)) ∨
    ((∃ k v, op = .putD k v ∧ k.cls ≠ .cache) ∨ (∃ k, op = .delD k ∧ k.cls ≠ .cache)) := by
  cases op with
  | put k v => simp [Op.durableOrRead] at h
  | delete k => simp [Op.durableOrRead] at h
  | get k => exact Or.inl (Or.inl ⟨k, rfl⟩)
  | exists_ k => exact Or.inl (Or.inr (Or.inl ⟨k, rfl⟩))
  | scan p => exact Or.inl (Or.inr (Or.inr ⟨p, rfl⟩))
  | putD k v => exact Or.inr (Or.inl ⟨k, v, rfl, by simpa [Op.durableOrRead] using h⟩)
  | delD k => exact Or.inr (Or.inr ⟨k, rfl, by simpa [Op.durableOrRead] using h⟩)

theorem inCS_of_start {th : Thread} (h : th.pc = .start) : th.inCS = false := by
  unfold Thread.inCS
  cases th.ops <;> simp [h]

theorem inCS_of_read {th : Thread} {op : Op} {rest : List Op} (hops : th.ops = op :: rest)
    (h : op.takesLock = false) : th.inCS = false := by
  simp [Thread.inCS, hops, h]

theorem inCS_of_writer {th : Thread} {op : Op} {rest : List Op} (hops : th.ops = op :: rest)
    (h : op.takesLock = true) (hpc : th.pc ≠ .start) : th.inCS = true := by
  simp [Thread.inCS, hops, h, hpc]

/-- invariant of runs of durable writers of keys of every class but the cache and of readers:
    nobody is between the log step and the end of a durable write and the log replays to the live
    slabs; or exactly one thread is (it holds the log mutex) and the log replays to the slabs that
    thread will have produced when its operation has run to its end -/
structure RInv (sys : Sys) : Prop where
  walOn : sys.store.walOn = true
  cache : sys.store.cache = []
  embOnly : EmbOnly sys.store.vocab
  ops : ∀ th ∈ sys.threads, ∀ op ∈ th.ops, op.durableOrRead = true
  cs : ((∀ th ∈ sys.threads, th.inCS = false) ∧ SlabsEq (replay sys.store.wal) sys.store) ∨
       ∃ (i : Nat) (th : Thread) (op : Op) (rest : List Op),
         sys.threads[i]? = some th ∧ th.ops = op :: rest ∧ op.takesLock = true ∧ th.pc ≠ .start ∧
         (∀ (j : Nat) (thj : Thread), sys.threads[j]? = some thj → j ≠ i → thj.inCS = false) ∧
         SlabsEq (replay sys.store.wal) (finishOp sys.store op th.pc)

theorem RInv.init (progs : List ThreadProgram)
    (h : ∀ p ∈ progs, ∀ op ∈ p, op.durableOrRead = true) : RInv (initSys true progs) := by
  refine ⟨rfl, rfl, ?_, ?_, Or.inl ⟨?_, SlabsEq.refl _⟩⟩
  · intro k _; rfl
  · intro th hth
    simp only [initSys, List.mem_map] at hth
    obtain ⟨p, hp, rfl⟩ := hth
    exact h p hp
  · intro th hth
    simp only [initSys, List.mem_map] at hth
    obtain ⟨p, _, rfl⟩ := hth
    exact inCS_of_start rfl

theorem RInv.step {sys : Sys} (h : RInv sys) (t : Nat) : RInv (step sys t) := by
  unfold Neumann.KV.step
  split
  · exact h
  · rename_i th hth
    split
    · exact h
    · rename_i op rest hops
      split
      · exact h
      · rename_i hguard
        have hmem : th ∈ sys.threads := List.mem_of_getElem? hth
        have hall := h.ops th hmem
        have hop := hall op (by simp [hops])
        have hrest : ∀ o ∈ rest, o.durableOrRead = true := fun o ho => hall o (by simp [hops, ho])
        have hframe := stepOp_frame (pc := th.pc) hop h.embOnly
        have hopsSet : ∀ (th' : Thread), (∀ o ∈ th'.ops, o.durableOrRead = true) →
            ∀ x ∈ sys.threads.set t th', ∀ o ∈ x.ops, o.durableOrRead = true := by
          intro th' hth' x hx
          rcases mem_set_cases hx with h1 | h1
          · exact h.ops x h1
          · subst h1; exact hth'
        rcases durableOrRead_cases hop with hread | hwrite
        · -- a step of a read: the store stays, the thread is never inside a durable write
          have hstore := stepOp_read (s := sys.store) th.pc hread
          have hnl : op.takesLock = false := by
            rcases hread with ⟨k, rfl⟩ | ⟨k, rfl⟩ | ⟨p, rfl⟩ <;> rfl
          have key : ∀ (sys' : Sys) (th' : Thread), sys'.store = sys.store →
              sys'.threads = sys.threads.set t th' → th'.inCS = false →
              (∀ o ∈ th'.ops, o.durableOrRead = true) → RInv sys' := by
            intro sys' th' hs ht hin hops'
            refine ⟨by rw [hs]; exact h.walOn, by rw [hs]; exact h.cache, by rw [hs]; exact h.embOnly,
              by rw [ht]; exact hopsSet th' hops', ?_⟩
            rw [hs, ht]
            rcases h.cs with ⟨hall0, heq⟩ | ⟨i, thi, opi, resti, hi, hopsi, hlk, hpci, hoth, heq⟩
            · left
              refine ⟨?_, heq⟩
              intro x hx
              rcases mem_set_cases hx with h1 | h1
              · exact hall0 x h1
              · subst h1; exact hin
            · right
              have hne : i ≠ t := by
                rintro rfl
                rw [hth] at hi
                cases hi
                rw [hops] at hopsi
                cases hopsi
                rw [hnl] at hlk
                cases hlk
              refine ⟨i, thi, opi, resti, by rw [List.getElem?_set_ne (Ne.symm hne)]; exact hi,
                hopsi, hlk, hpci, ?_, heq⟩
              intro j thj hj hji
              by_cases hjt : j = t
              · subst hjt
                rw [getElem?_set_self' hth] at hj
                cases hj
                exact hin
              · rw [List.getElem?_set_ne (Ne.symm hjt)] at hj
                exact hoth j thj hj hji
          cases hst : stepOp sys.store op th.pc with
          | mk s' out =>
            have hs' : s' = sys.store := by rw [← hstore, hst]
            cases out with
            | cont pc' =>
              rw [stepOld_cont hth hops hst]
              exact key _ _ hs' rfl (inCS_of_read hops hnl) (by simpa [hops] using hall)
            | done r =>
              rw [stepOld_done hth hops hst]
              exact key _ _ hs' rfl (inCS_of_start rfl) hrest
        · -- a step of a durable write
          have hlk : op.takesLock = true := by
            rcases hwrite with ⟨k, v, rfl, hc⟩ | ⟨k, rfl, hc⟩ <;> simp [Op.takesLock, hc]
          by_cases hpc : th.pc = .start
          · -- the log step: nobody holds the mutex (else the thread would have blocked)
            have hnone : ∀ x ∈ sys.threads, x.inCS = false := by
              intro x hx
              cases hxc : x.inCS with
              | false => rfl
              | true =>
                exfalso
                apply hguard
                simp only [h.walOn, hlk, hpc, decide_true, Bool.and_self, Bool.true_and, List.any_eq_true]
                exact ⟨x, hx, hxc⟩
            have heq : SlabsEq (replay sys.store.wal) sys.store := by
              rcases h.cs with ⟨_, heq⟩ | ⟨i, thi, opi, resti, hi, hopsi, hlki, hpci, _, _⟩
              · exact heq
              · have := hnone thi (List.mem_of_getElem? hi)
                rw [inCS_of_writer hopsi hlki hpci] at this
                cases this
            obtain ⟨s1, hst, hw1, hfin⟩ := logStep_replay h.walOn heq h.embOnly hwrite
            rw [← hpc] at hst
            rw [stepOld_cont hth hops hst]
            have hfr := hframe
            rw [hst] at hfr
            refine ⟨hw1, by rw [← h.cache]; exact hfr.2.1, hfr.2.2.1,
              hopsSet _ (by simpa [hops] using hall), Or.inr ?_⟩
            have hne : afterLog op ≠ .start := by
              rcases hwrite with ⟨k, v, rfl, _⟩ | ⟨k, rfl, _⟩ <;> simp [afterLog]
            refine ⟨t, _, op, rest, getElem?_set_self' hth, hops, hlk, hne, ?_, hfin⟩
            intro j thj hj hjt
            simp only [afterCont] at hj
            rw [List.getElem?_set_ne (Ne.symm hjt)] at hj
            exact hnone thj (List.mem_of_getElem? hj)
          · -- inside the durable write: this thread holds the mutex
            have hin : th.inCS = true := inCS_of_writer hops hlk hpc
            rcases h.cs with ⟨hall0, _⟩ | ⟨i, thi, opi, resti, hi, hopsi, hlki, hpci, hoth, heq⟩
            · rw [hall0 th hmem] at hin; cases hin
            · have hit : i = t := by
                apply Decidable.byContradiction
                intro hne
                have := hoth t th hth (fun e => hne e.symm)
                rw [this] at hin
                cases hin
              subst hit
              rw [hth] at hi
              cases hi
              rw [hops] at hopsi
              cases hopsi
              cases hst : stepOp sys.store op th.pc with
              | mk s' out =>
                have hfr := hframe
                rw [hst] at hfr
                have hwal : s'.wal = sys.store.wal := hfr.2.2.2 hpc
                cases out with
                | cont pc' =>
                  obtain ⟨hfin, hne⟩ := finishOp_cont hst
                  rw [stepOld_cont hth hops hst]
                  refine ⟨by rw [← h.walOn]; exact hfr.1, by rw [← h.cache]; exact hfr.2.1, hfr.2.2.1,
                    hopsSet _ (by simpa [hops] using hall), Or.inr ?_⟩
                  refine ⟨i, _, op, rest, getElem?_set_self' hth, hops, hlk, hne, ?_, ?_⟩
                  · intro j thj hj hjt
                    simp only [afterCont] at hj
                    rw [List.getElem?_set_ne (Ne.symm hjt)] at hj
                    exact hoth j thj hj hjt
                  · simp only [afterCont]
                    rw [hwal, ← hfin]
                    exact heq
                | done r =>
                  have hfin := finishOp_done hst
                  rw [stepOld_done hth hops hst]
                  refine ⟨by rw [← h.walOn]; exact hfr.1, by rw [← h.cache]; exact hfr.2.1, hfr.2.2.1,
                    hopsSet _ hrest, Or.inl ⟨?_, ?_⟩⟩
                  · intro x hx
                    simp only [afterDone] at hx
                    obtain ⟨j, hj⟩ := List.getElem?_of_mem hx
                    rcases getElem?_set_cases hth hj with ⟨_, rfl⟩ | ⟨hne, hj'⟩
                    · exact inCS_of_start rfl
                    · exact hoth j x hj' hne
                  · simp only [afterDone]
                    rw [hwal, ← hfin]
                    exact heq

theorem RInv.run {sys : Sys} (h : RInv sys) (sched : List Nat) : RInv (runFrom sys sched) := by
  induction sched generalizing sys with
  | nil => exact h
  | cons t rest ih => exact ih (h.step t)

/-- once every thread has finished the log replays to the live slabs -/
theorem RInv.quiescent_eq {sys : Sys} (h : RInv sys) (hq : quiescent sys = true) :
    SlabsEq (replay sys.store.wal) sys.store := by
  rcases h.cs with ⟨_, heq⟩ | ⟨i, thi, opi, resti, hi, hopsi, _⟩
  · exact heq
  · simp only [quiescent, List.all_eq_true, List.isEmpty_iff] at hq
    rw [hq thi (List.mem_of_getElem? hi)] at hopsi
    cases hopsi

/-- the replayed store has nothing in its cache ring -/
theorem replay_cache (w : List Entry) : (replay w).cache = [] := by
  have : ∀ (es : List Entry) (s : Store), (es.foldl applyEntry s).cache = s.cache := by
    intro es
    induction es with
    | nil => intro s; rfl
    | cons e es ih =>
      intro s
      rw [List.foldl_cons, ih]
      cases e <;> simp only [applyEntry] <;> (try split) <;> rfl
  exact this w _

/-- stores with the same slabs and cache ring answer every read alike -/
theorem reads_congr {a b : Store} (h : SlabsEq a b) (hc : a.cache = b.cache) (k : Key) :
    view a k = view b k ∧ (∀ p, scanNow a p = scanNow b p) ∧ existsNow a k = existsNow b k ∧
      (seqOp a (.get k)).2 = (seqOp b (.get k)).2 := by
  obtain ⟨h1, h2, h3⟩ := h
  have hscan : ∀ p, scanNow a p = scanNow b p := fun p => by simp only [scanNow, h1, h2, hc]
  have hex : existsNow a k = existsNow b k := by simp only [existsNow, h1, h2, hc]
  have hget : (seqOp a (.get k)).2 = (seqOp b (.get k)).2 := by
    simp only [seqOp, seqOpAux, stepOp, routerGet, mdGet, h1, h2, hc]
    cases k.cls <;> simp only []
    cases idxGet b.vocab k with
    | none => rfl
    | some id =>
      simp only [h1, h3]
      cases aget b.slab id <;> simp [h1]
  exact ⟨by simp only [view, hscan, hex, hget], hscan, hex, hget⟩

end Neumann.KV
