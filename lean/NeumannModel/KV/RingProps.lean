import NeumannModel.KV.RingLemmas
import NeumannModel.KV.RingAtomic
import NeumannModel.KV.RingLin
/-
  C11 — the cache ring as it is: an index from the HASH of a key to a slot, slots holding
  (key, value), `get` = index lookup, then (the index lock released, other threads running) the
  slot read with the comparison `entry.key == key`.

  `runSchedR c cap walOn progs sched` (Ring.lean) is the store at that granularity; `c.hash` is ANY
  hash function (two live keys with one hash share one index entry), `c.pick` any eviction choice,
  `cap` any capacity; `c.keyCheck = true` is the code, `false` is `get` returning whatever sits in
  the slot the index resolved.

  What the comparison is there for: a read of a cache key returns only a value that was written to
  THAT key.  It is the only thing that re-validates the slot number after the gap between the two
  lock sections of `get`, and the only thing that tells two keys with one hash apart.
-/
namespace Neumann.KV.RingProps
open Neumann.KV

/-- FULL STRENGTH: every hash function (any collisions), every eviction choice, every capacity,
    every number of threads, every program of all seven operations on keys of every class (any
    byte strings), with or without the log, EVERY interleaving at the granularity of `get`'s two
    lock sections, stopped after ANY step: a completed `get` of a cache key that found a value
    found a value that a `put` / `put_durable` OF THAT VERY KEY had stored, and that put had taken
    its step before the get returned (`r.ret` = the number of atomic steps before the get's last
    one).  "A read never returns a value that was never written" - to the key it reads. -/
theorem cache_get_returns_only_a_value_written_to_that_key (hash : Key → Nat)
    (pick : List (Option (Key × Val)) → Nat) (cap : Nat) (walOn : Bool)
    (progs : List ThreadProgram) (sched : List Nat) :
    let sys := runSchedR { hash := hash, pick := pick, keyCheck := true } cap walOn progs sched
    ∀ r ∈ sys.hist, ∀ k v, r.op = .get k → k.cls = .cache → r.res = .found v →
      ∃ e ∈ sys.trace.take r.ret, e.2.1 = .put k v ∨ e.2.1 = .putD k v :=
  ((SafeInv.init cap walOn progs).run rfl sched).gets

/-- the same about the slots themselves, at every moment: whatever an occupied slot holds is the
    (key, value) of a put that has taken its step -/
theorem cache_slot_holds_only_what_was_put_under_its_key (hash : Key → Nat)
    (pick : List (Option (Key × Val)) → Nat) (cap : Nat) (walOn : Bool)
    (progs : List ThreadProgram) (sched : List Nat) :
    let sys := runSchedR { hash := hash, pick := pick, keyCheck := true } cap walOn progs sched
    ∀ k v, some (k, v) ∈ sys.store.ring.slots →
      ∃ e ∈ sys.trace, e.2.1 = .put k v ∨ e.2.1 = .putD k v :=
  ((SafeInv.init cap walOn progs).run rfl sched).slots

/-- the same on the machine `drv_kv` runs for a tree WITHOUT the yield point inside `CacheRing::get`
    (`runSchedRFused`, command `runrf`: both lock sections of `get` in one scheduler step - what
    `corr_kv` compares the real store with today): every hash function, every interleaving of the
    yield hooks, stopped anywhere -/
theorem cache_get_returns_only_a_value_written_to_that_key_at_hook_granularity (hash : Key → Nat)
    (pick : List (Option (Key × Val)) → Nat) (cap : Nat) (walOn : Bool)
    (progs : List ThreadProgram) (sched : List Nat) :
    let sys := runSchedRFused { hash := hash, pick := pick, keyCheck := true } cap walOn progs sched
    ∀ r ∈ sys.hist, ∀ k v, r.op = .get k → k.cls = .cache → r.res = .found v →
      ∃ e ∈ sys.trace.take r.ret, e.2.1 = .put k v ∨ e.2.1 = .putD k v :=
  ((SafeInv.init cap walOn progs).runFused rfl sched).gets

example :
    (runSchedRFused (cfgOf hashConst true) 4 false ringCollisionProgs [0, 0, 0, 0]).hist.map (·.res) =
      [.ok, .ok, .notFound, .found ⟨2, .none⟩] := by decide

/-- non-vacuity, (a) the interleaving: the reader's index lookup finds slot 0; `_cache:1` is deleted
    and `_cache:2` put into the slot that has just become empty; the reader's slot read compares
    the keys and reports NotFound.  The trace shows the get parked between its two lock sections. -/
example :
    (runSchedR (cfgOf hashLastByte true) 4 false ringRaceProgs ringRaceSched).hist.map
        (fun r => (r.t, r.i, r.inv, r.ret, r.res)) =
      [(0, 0, 0, 0, .ok), (0, 1, 2, 2, .ok), (0, 2, 3, 3, .ok), (1, 0, 1, 4, .notFound)] ∧
    (runSchedR (cfgOf hashLastByte true) 4 false ringRaceProgs ringRaceSched).trace.map (·.2.2) =
      [.hook .start, .hook .start, .hook .start, .hook .start, .ringGetAfterIndex 0] ∧
    (runSchedR (cfgOf hashLastByte true) 4 false ringRaceProgs ringRaceSched).store.ring.slots =
      [some (kC2, ⟨2, .none⟩), none, none, none] := by decide

/-- non-vacuity, a get that does find a value (written to its key, two steps before) -/
example :
    (runSchedR (cfgOf hashLastByte true) 4 false [[.put kC1 ⟨1, .none⟩], [.get kC1]] [0, 1, 1]).hist.map
        (fun r => (r.t, r.inv, r.ret, r.res)) = [(0, 0, 0, .ok), (1, 1, 2, .found ⟨1, .none⟩)] := by decide

/-! ### what does not hold without the key comparison -/

/-- NOT the code: `get` returns whatever sits in the slot the index resolved
    (`runSchedRGetWithoutKeyCheck`).  (a) BY INTERLEAVING, no two keys with one hash
    (`ringRaceSched`): put `_cache:1`; the reader of `_cache:1` reads slot 0 from the index and
    pauses before the slots lock; delete `_cache:1`; put `_cache:2` - it re-uses slot 0; the reader
    resumes and returns the value of `_cache:2`, a value NO put ever wrote to `_cache:1`, although
    `_cache:1` is absent by then and no order of the four operations allows it.  The code, same
    programs, same interleaving: NotFound. -/
theorem get_without_key_check_interleaving_witness :
    let bad := runSchedRGetWithoutKeyCheck hashLastByte (fun _ => 0) 4 false ringRaceProgs ringRaceSched
    let good := runSchedR (cfgOf hashLastByte true) 4 false ringRaceProgs ringRaceSched
    quiescentR bad = true ∧
    bad.hist.map (fun r => (r.t, r.i, r.op, r.res)) =
      [(0, 0, .put kC1 ⟨1, .none⟩, .ok), (0, 1, .delete kC1, .ok), (0, 2, .put kC2 ⟨2, .none⟩, .ok),
       (1, 0, .get kC1, .found ⟨2, .none⟩)] ∧
    (∀ e ∈ bad.trace, e.2.1 ≠ .put kC1 ⟨2, .none⟩ ∧ e.2.1 ≠ .putD kC1 ⟨2, .none⟩) ∧
    hashLastByte kC1 ≠ hashLastByte kC2 ∧
    good.hist.map (·.res) = [.ok, .ok, .ok, .notFound] ∧
    bad.trace.map (·.2.2) = good.trace.map (·.2.2) := by
  decide

/-- (b) SEQUENTIALLY, two keys with one hash (`hashConst`): put `_cache:1`, put `_cache:2`, get
    `_cache:1` returns the value of `_cache:2`.  The code: the second put takes the index entry of
    the shared hash over, the get of `_cache:1` finds `_cache:2` in the slot and reports NotFound;
    the get of `_cache:2` finds its own value. -/
theorem get_without_key_check_collision_witness :
    let bad := runSchedRGetWithoutKeyCheck hashConst (fun _ => 0) 4 false ringCollisionProgs ringCollisionSched
    let good := runSchedR (cfgOf hashConst true) 4 false ringCollisionProgs ringCollisionSched
    bad.hist.map (fun r => (r.op, r.res)) =
      [(.put kC1 ⟨1, .none⟩, .ok), (.put kC2 ⟨2, .none⟩, .ok), (.get kC1, .found ⟨2, .none⟩),
       (.get kC2, .found ⟨2, .none⟩)] ∧
    good.hist.map (·.res) = [.ok, .ok, .notFound, .found ⟨2, .none⟩] := by
  decide

/-- without a second key of the same hash and without a second thread the variant is
    indistinguishable from the code (no test that uses one thread and ordinary keys tells) -/
example :
    (runSchedRGetWithoutKeyCheck hashLastByte (fun _ => 0) 4 false
        [[.put kC1 ⟨1, .none⟩, .get kC1, .put kC2 ⟨2, .none⟩, .get kC2, .delete kC1, .get kC1]]
        (List.replicate 9 0)).hist.map (·.res) =
      [.ok, .found ⟨1, .none⟩, .ok, .found ⟨2, .none⟩, .ok, .notFound] ∧
    (runSchedR (cfgOf hashLastByte true) 4 false
        [[.put kC1 ⟨1, .none⟩, .get kC1, .put kC2 ⟨2, .none⟩, .get kC2, .delete kC1, .get kC1]]
        (List.replicate 9 0)).hist.map (·.res) =
      [.ok, .found ⟨1, .none⟩, .ok, .found ⟨2, .none⟩, .ok, .notFound] := by decide

/-! ### splitting `get` over two lock sections is invisible; the linearizability theorems carry over -/

/-- FULL STRENGTH (every hash function - no injectivity -, every eviction choice, capacity, programs
    of all seven operations on keys of every class, every interleaving, stopped anywhere): a `get` of
    a cache key that finds a value returns EXACTLY what a one-step get (`ringGetAtomic`: index lookup
    and slot read back to back) returns in some state the run passes through between the get's first
    and last step, ends included (`sched.take n` = a prefix of the interleaving; its clock lies in
    `[r.inv, r.ret]`).  So a get in two lock sections has the results of an atomic get at some moment
    of its interval - or NotFound (a cache may always say so: `absentOk`). -/
theorem two_step_get_returns_what_a_one_step_get_would_at_some_moment_of_its_interval
    (hash : Key → Nat) (pick : List (Option (Key × Val)) → Nat) (cap : Nat) (walOn : Bool)
    (progs : List ThreadProgram) (sched : List Nat) :
    let c : RingCfg := { hash := hash, pick := pick, keyCheck := true }
    ∀ r ∈ (runSchedR c cap walOn progs sched).hist, ∀ k v,
      r.op = .get k → k.cls = .cache → r.res = .found v →
      ∃ n, n ≤ sched.length ∧
        r.inv ≤ (runSchedR c cap walOn progs (sched.take n)).clock ∧
        (runSchedR c cap walOn progs (sched.take n)).clock ≤ r.ret ∧
        ringGetAtomic c (runSchedR c cap walOn progs (sched.take n)).store.ring k = some v :=
  two_step_get_reads_what_an_atomic_get_would hash pick cap walOn progs sched

/-- non-vacuity: every two keys collide, the get of `_cache:1` (first step at clock 1, last at clock 4)
    overlaps a put of `_cache:2` and a put of `_cache:1`; it returns the value an atomic get returns
    right after its first step (clock 2), although atomic gets at clocks 3 and 4 return nothing / 3 -/
example :
    (runSchedR (cfgOf hashConst true) 4 false ra_progs ra_sched).hist[3]? =
        some { t := 0, i := 1, op := .get kC1, res := .found ⟨1, .none⟩, inv := 1, ret := 4 } ∧
      (runSchedR (cfgOf hashConst true) 4 false ra_progs (ra_sched.take 2)).clock = 2 ∧
      ringGetAtomic (cfgOf hashConst true)
        (runSchedR (cfgOf hashConst true) 4 false ra_progs (ra_sched.take 2)).store.ring kC1 = some ⟨1, .none⟩ := by
  decide

/-- THE LINEARIZABILITY THEOREMS CARRY OVER to the ring as it is.  For every INJECTIVE hash function
    (no two keys of one hash - the situation `Model.Store.cache` as a map stands for), every eviction
    choice, every schedule no longer than the capacity (`find_slot_for_insert` then always finds an
    empty slot: no eviction; the real ring has 10 000 slots), every number of threads and every
    program of single-step operations (put / get / delete / exists on plain, graph, table and cache
    keys, put_durable / delete_durable on cache keys, scans over any string) - with `get` of a cache
    key in TWO steps and everything of every other thread in between: the history in order of
    completion is a legal sequential execution of the key ↦ value map that respects real time (a
    two-step get returns the value current at its second step, or NotFound), and the store, seen
    through `RStore.view` (the occupied slots as the cache slab), IS the specification map applied to
    the completed operations - the statement of `Props.single_step_ops_linearizable`, on the finer
    machine. -/
theorem cache_ring_with_injective_hash_is_linearizable (hash : Key → Nat)
    (hinj : ∀ a b : Key, hash a = hash b → a = b)
    (pick : List (Option (Key × Val)) → Nat) (cap : Nat) (walOn : Bool)
    (progs : List ThreadProgram) (sched : List Nat)
    (hops : ∀ p ∈ progs, ∀ op ∈ p, op.singleStep ∧ op.scanStr = true)
    (hcap : sched.length ≤ cap) :
    let sys := runSchedR { hash := hash, pick := pick, keyCheck := true } cap walOn progs sched
    SeqValid [] sys.hist ∧ RespectsRealTime sys.hist ∧ Linearizable sys.hist ∧
    Abs sys.store.view (specRun [] (sys.hist.map (·.op))) :=
  ring_run_linearizable hash hinj pick cap walOn progs sched hops hcap

/-- non-vacuity: an injective hash (`rl_hashInj`), a put inside the interval of a two-step get
    (put 2 takes its step between the get's index lookup and its slot read); the hypotheses hold -/
example :
    (∀ a b : Key, rl_hashInj a = rl_hashInj b → a = b) ∧
    (runSchedR { hash := rl_hashInj, pick := fun _ => 0, keyCheck := true } 4 false rl_overlapProgs rl_overlapSched).hist.map
        (fun r => (r.t, r.inv, r.ret, r.res)) =
      [(0, 0, 0, .ok), (1, 2, 2, .ok), (0, 1, 3, .found ⟨2, .none⟩)] ∧
    rl_overlapSched.length ≤ 4 :=
  ⟨rl_hashInj_inj, by decide, by decide⟩

/-! ### the ring is NOT a key ↦ value map on two keys with one hash (the code as it is) -/

/-- THE CODE, sequentially, two keys with one hash: after put `_cache:1`, put `_cache:2` the entry of
    `_cache:1` still occupies its slot but the index entry of the shared hash points at the slot of
    `_cache:2`: get `_cache:1` says NotFound and exists says false although no delete ran (as after an
    eviction), the scan STILL LISTS `_cache:1` (a key that "does not exist"), delete `_cache:1` says
    NotFound - the slot is never freed.  After delete `_cache:2` (Ok) and put `_cache:1` again the
    ring holds two entries of `_cache:1`.  So "the cache ring is a key ↦ value map" is false of the
    code for a hash function with collisions; what is true for EVERY hash function is
    `cache_get_returns_only_a_value_written_to_that_key`. -/
theorem ring_is_not_a_map_on_colliding_keys_witness :
    let c := cfgOf hashConst true
    let s := (runSchedR c 4 false [[.put kC1 ⟨1, .none⟩, .put kC2 ⟨2, .none⟩]] [0, 0]).store
    viewR c s kC1 = (.notFound, false, true) ∧
    viewR c s kC2 = (.found ⟨2, .none⟩, true, true) ∧
    (seqOpR c s (.delete kC1)).2 = .notFound ∧
    s.ring.slots = [some (kC1, ⟨1, .none⟩), some (kC2, ⟨2, .none⟩), none, none] ∧
    s.ring.index = [(7, 1)] ∧
    (let s2 := (seqOpR c (seqOpR c s (.delete kC2)).1 (.put kC1 ⟨3, .none⟩)).1
     s2.ring.slots = [some (kC1, ⟨1, .none⟩), some (kC1, ⟨3, .none⟩), none, none] ∧
     viewR c s2 kC1 = (.found ⟨3, .none⟩, true, true)) := by
  decide

end Neumann.KV.RingProps
