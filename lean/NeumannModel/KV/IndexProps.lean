import NeumannModel.KV.IndexLemmas
/-
  C11 — the entity index under concurrent first writes of one `emb:` key.

  `runSchedI recheck walOn progs sched` (Index.lean) is the store at the granularity of the
  index's own locks: `EntityIndex::try_get_or_create` is a lookup under the read locks and, when
  that missed, a second atomic step under the write locks; any step of any other thread runs in
  between.  `recheck = true` is the code (the write section looks the key up AGAIN before it
  appends), `recheck = false` is the write section that appends straight away.

  What the double-check is there for: a key never has two live entity ids.  Everything a reader
  sees of an `emb:` key hangs on it - `get` / `exists` / `delete` take the id that `index.get`
  returns, a scan lists every live entry; with two live ids a successful delete tombstones one and
  the key stays visible through the other.
-/
namespace Neumann.KV.IndexProps
open Neumann.KV

/-- FULL STRENGTH: every number of threads, every program of all seven operations on keys of every
    class (any byte strings), with or without the log, EVERY interleaving at the granularity of
    the index's locks (other threads run between the missed fast path of `try_get_or_create` and
    its write section), stopped after ANY step: no key has two live entity ids - as a statement
    about positions, and as a count. -/
theorem get_or_create_never_gives_a_key_two_live_ids (walOn : Bool) (progs : List ThreadProgram)
    (sched : List Nat) :
    let v := (runSchedI true walOn progs sched).store.vocab
    (∀ (i j : Nat) (k : Key), v[i]? = some (k, true) → v[j]? = some (k, true) → i = j) ∧
    (∀ k : Key, (liveIds v k).length ≤ 1) := by
  have hw : StoreWF (runSchedI true walOn progs sched).store := (StoreWF.init walOn).runI sched
  exact ⟨hw.uniq, fun k => liveIds_length_le_one hw.uniq k⟩

/-- non-vacuity: the two first puts of `emb:1` with both lookups before either write section; the
    second write section finds the entry of the first and takes its id -/
example :
    (runSchedI true false twoFirstPutsProgs twoFirstPutsSched).store.vocab = [(kE1, true)] ∧
    (runSchedI true false twoFirstPutsProgs twoFirstPutsSched).trace.map (·.2.2) =
      [.hook .start, .hook .start, .idxMiss .start, .idxMiss .start,
       .hook (.putEmbAfterIndex 0), .hook .putEmbAfterVector,
       .hook (.putEmbAfterIndex 0), .hook .putEmbAfterVector] ∧
    liveIds (runSchedI true false twoFirstPutsProgs twoFirstPutsSched).store.vocab kE1 = [0] ∧
    quiescentI (runSchedI true false twoFirstPutsProgs twoFirstPutsSched) = true := by decide

/-- FULL STRENGTH (same quantifier; the key any `emb:` key): whenever the run is stopped, a `delete`
    of the key executed then (all its steps back to back - the sequential check after the threads
    have been joined, or any moment at which nobody else moves) leaves NOTHING of the key: `get`
    says NotFound, `exists` false, no prefix scan lists it, a second `delete` says NotFound. -/
theorem deleted_key_is_gone (walOn : Bool) (progs : List ThreadProgram) (sched : List Nat)
    (k : Key) (hk : k.cls = .emb) :
    let s' := (seqOp (runSchedI true walOn progs sched).store (.delete k)).1
    (seqOp s' (.get k)).2 = .notFound ∧ existsNow s' k = false ∧ (∀ p, k ∉ scanNow s' p) ∧
      (seqOp s' (.delete k)).2 = .notFound :=
  delete_then_absent ((StoreWF.init walOn).runI sched) hk

/-- non-vacuity: after the two first puts `emb:1` is there (value of the second writer), the delete
    says Ok and then nothing is left -/
example :
    view (runSchedI true false twoFirstPutsProgs twoFirstPutsSched).store kE1
      = (.found ⟨2, .good 2⟩, true, true) ∧
    (seqOp (runSchedI true false twoFirstPutsProgs twoFirstPutsSched).store (.delete kE1)).2 = .ok ∧
    gone (seqOp (runSchedI true false twoFirstPutsProgs twoFirstPutsSched).store (.delete kE1)).1 kE1
      = true := by decide

/-- the same two statements on the machine the driver runs and the harness compares the real store
    with (`Model.runSched`: one step = the code between two yield hooks, `get_or_create` inside
    one step): every interleaving, stopped anywhere -/
theorem deleted_key_is_gone_at_hook_granularity (walOn : Bool) (progs : List ThreadProgram)
    (sched : List Nat) (k : Key) (hk : k.cls = .emb) :
    let s := (runSched walOn progs sched).store
    let s' := (seqOp s (.delete k)).1
    (liveIds s.vocab k).length ≤ 1 ∧
    (seqOp s' (.get k)).2 = .notFound ∧ existsNow s' k = false ∧ (∀ p, k ∉ scanNow s' p) ∧
      (seqOp s' (.delete k)).2 = .notFound := by
  have hw : StoreWF (runSched walOn progs sched).store := (StoreWF.init walOn).run sched
  exact ⟨liveIds_length_le_one hw.uniq k, delete_then_absent hw hk⟩

example :
    (seqOp (runSched false embMixtureProgs embMixtureSched).store (.delete kE1)).2 = .ok ∧
    gone (seqOp (runSched false embMixtureProgs embMixtureSched).store (.delete kE1)).1 kE1 = true := by
  decide

/-- WHY the hook-granularity machine may keep `get_or_create` in one step: at the granularity of
    the index's locks every step of the code is either the missed lookup - which changes nothing
    and parks the thread inside `try_get_or_create` - or EXACTLY the step of `Model.stepOp` (the
    fast path that finds the id; the write section, which with its double-check IS
    `idxGetOrCreate` on the store of that moment; every step that does not call the index).  For
    every store, operation and program counter. -/
theorem index_step_is_stutter_or_hook_step (s : Store) (op : Op) (pc : PC) :
    (stepOpI true s op (.hook pc) = (s, .cont (.idxMiss pc)) ∨
     stepOpI true s op (.hook pc) = ((stepOp s op pc).1, (stepOp s op pc).2.lift)) ∧
    (∀ k, getOrCreateKey s op pc = some k →
      stepOpI true s op (.idxMiss pc) = ((stepOp s op pc).1, (stepOp s op pc).2.lift)) := by
  constructor
  · cases hg : getOrCreateKey s op pc with
    | none => right; simp [stepOpI, hg]
    | some k =>
      cases hi : idxGet s.vocab k with
      | none => left; simp [stepOpI, hg, hi]
      | some i => right; simp [stepOpI, hg, hi]
  · intro k hk
    unfold getOrCreateKey at hk
    split at hk
    · rename_i k' v
      split at hk
      · rename_i hc
        simp [stepOpI, lockedStep, idxCreateLocked, stepOp, routerPut, hc, Outcome.lift]
      · simp at hk
    · rename_i k' v
      split at hk
      · rename_i hc
        simp [stepOpI, lockedStep, idxCreateLocked, stepOp, routerPut, hc, Outcome.lift]
      · simp at hk
    · rename_i k' v
      split at hk
      · rename_i hc
        simp only [Bool.and_eq_true, decide_eq_true_eq] at hc
        obtain ⟨⟨hw, he⟩, hv⟩ := hc
        have hne : k'.cls ≠ .cache := by rw [he]; decide
        cases hvv : v.vec with
        | none => exact absurd hvv hv
        | good t => simp [stepOpI, lockedStep, idxCreateLocked, stepOp, logPut, hw, he, hvv, Outcome.lift]
        | bad t => simp [stepOpI, lockedStep, idxCreateLocked, stepOp, logPut, hw, he, hvv, Outcome.lift]
      · simp at hk
    · simp at hk

/-- the missed lookup really occurs, and really is a stutter -/
example :
    getOrCreateKey {} (.put kE1 ⟨1, .good 1⟩) .start = some kE1 ∧
    (stepOpI true {} (.put kE1 ⟨1, .good 1⟩) (.hook .start)).2 = .cont (.idxMiss .start) ∧
    (stepOpI true {} (.put kE1 ⟨1, .good 1⟩) (.hook .start)).1.vocab = [] := by
  decide

/-! ### what does not hold without the double-check -/

/-- NOT the code: the write section appends without looking again.  Two first puts of `emb:1`, both
    lookups before either write section (`twoFirstPutsSched`): the key gets the live ids 0 and 1;
    every thread has finished, the store shows `emb:1` with the second writer's value; then,
    sequentially, `delete emb:1` returns Ok - and `exists` is still true, `get` returns a value NO
    put wrote (no field but the vector of the other id), the scan still lists the key, and a
    second delete returns Ok once more.  The same interleaving on the code leaves one id and
    nothing after the delete. -/
theorem get_or_create_without_recheck_witness :
    let s := (runSchedI false false twoFirstPutsProgs twoFirstPutsSched).store
    let d := seqOp s (.delete kE1)
    quiescentI (runSchedI false false twoFirstPutsProgs twoFirstPutsSched) = true ∧
    liveIds s.vocab kE1 = [0, 1] ∧
    view s kE1 = (.found ⟨2, .good 1⟩, true, true) ∧
    d.2 = .ok ∧
    view d.1 kE1 = (.found ⟨0, .good 2⟩, true, true) ∧
    (seqOp d.1 (.delete kE1)).2 = .ok ∧
    -- the code, same programs, same interleaving
    liveIds (runSchedI true false twoFirstPutsProgs twoFirstPutsSched).store.vocab kE1 = [0] ∧
    gone (seqOp (runSchedI true false twoFirstPutsProgs twoFirstPutsSched).store (.delete kE1)).1 kE1 = true := by
  decide

/-- the same on a key that was put and deleted before (the first write AFTER a delete): the
    tombstoned entry 0 and two live ones -/
theorem recreate_without_recheck_witness :
    let s := (runSchedI false false recreateProgs recreateSched).store
    let d := seqOp s (.delete kE1)
    quiescentI (runSchedI false false recreateProgs recreateSched) = true ∧
    s.vocab = [(kE1, false), (kE1, true), (kE1, true)] ∧
    d.2 = .ok ∧ existsNow d.1 kE1 = true ∧ gone d.1 kE1 = false ∧
    (runSchedI true false recreateProgs recreateSched).store.vocab = [(kE1, false), (kE1, true)] ∧
    gone (seqOp (runSchedI true false recreateProgs recreateSched).store (.delete kE1)).1 kE1 = true := by
  decide

/-- sequentially the two are indistinguishable: one thread alone never misses in the fast path and
    then finds the key in the write section (no test that puts from one thread at a time tells) -/
example :
    (runSchedI false false [[.put kE1 ⟨1, .good 1⟩, .put kE1 ⟨2, .none⟩, .delete kE1, .put kE1 ⟨3, .good 3⟩]]
        (List.replicate 16 0)).store.vocab =
    (runSchedI true false [[.put kE1 ⟨1, .good 1⟩, .put kE1 ⟨2, .none⟩, .delete kE1, .put kE1 ⟨3, .good 3⟩]]
        (List.replicate 16 0)).store.vocab := by decide

end Neumann.KV.IndexProps
