import NeumannModel.KV.Model
namespace Neumann.KV
end Neumann.KV
