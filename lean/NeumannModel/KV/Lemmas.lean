import NeumannModel.KV.Model
import NeumannModel.KV.ScanLemmas
/-
  Helper lemmas for C11 (core Lean only).
-/
namespace Neumann.KV

/-! ### association lists -/

theorem aget_aerase {α β} [DecidableEq α] (m : List (α × β)) (k k' : α) :
    aget (aerase m k) k' = if k = k' then none else aget m k' := by
  induction m with
  | nil => simp [aerase, aget]
  | cons p r ih =>
    obtain ⟨a, b⟩ := p
    unfold aerase at ih ⊢
    by_cases h : a = k
    · subst h
      by_cases h' : a = k'
      · subst h'; simpa [aget] using ih
      · simp only [List.filter, decide_true, Bool.not_true, aget, h', if_false] at ih ⊢
        simpa [h'] using ih
    · by_cases h' : k = k'
      · subst h'
        simp only [List.filter, h, decide_false, Bool.not_false, aget, if_false, if_true] at ih ⊢
        simpa using ih
      · simp only [List.filter, h, decide_false, Bool.not_false, aget] at ih ⊢
        by_cases h'' : a = k'
        · simp [h'', h']
        · simpa [h'', h'] using ih

theorem aget_aset {α β} [DecidableEq α] (m : List (α × β)) (k k' : α) (v : β) :
    aget (aset m k v) k' = if k = k' then some v else aget m k' := by
  unfold aset
  by_cases h : k = k'
  · simp [aget, h]
  · simp [aget, h, aget_aerase]

theorem mem_keys_iff {α β} [DecidableEq α] (m : List (α × β)) (k : α) :
    k ∈ m.map (·.1) ↔ (aget m k).isSome = true := by
  induction m with
  | nil => simp [aget]
  | cons p r ih =>
    obtain ⟨a, b⟩ := p
    by_cases h : a = k
    · simp [aget, h]
    · simp only [List.map_cons, List.mem_cons, aget, h, if_false]
      constructor
      · rintro (h' | h')
        · exact absurd h'.symm h
        · exact ih.mp h'
      · intro h'; exact Or.inr (ih.mpr h')

/-! ### sequential validity -/

/-- as `SeqValid`, with every result exactly the specification's (no "cache may be absent") -/
def SeqStrict : Spec → List OpRec → Prop
  | _, [] => True
  | σ, r :: rs => resEquiv r.res (specRes σ r.op) ∧ SeqStrict (specApply σ r.op) rs

theorem SeqStrict.valid : ∀ {σ : Spec} {l : List OpRec}, SeqStrict σ l → SeqValid σ l
  | _, [], _ => trivial
  | _, _ :: _, h => ⟨Or.inl h.1, SeqStrict.valid h.2⟩

theorem seqStrict_append (σ : Spec) (l : List OpRec) (r : OpRec) :
    SeqStrict σ (l ++ [r]) ↔
      SeqStrict σ l ∧ resEquiv r.res (specRes (specRun σ (l.map (·.op))) r.op) := by
  induction l generalizing σ with
  | nil => simp [SeqStrict, specRun]
  | cons a l ih =>
    simp only [List.cons_append, SeqStrict, List.map_cons, specRun, List.foldl_cons]
    rw [ih]
    simp only [specRun, and_assoc]

theorem specRun_append (σ : Spec) (l : List Op) (o : Op) :
    specRun σ (l ++ [o]) = specApply (specRun σ l) o := by
  simp [specRun, List.foldl_append]

theorem resEquiv_refl (r : Res) : resEquiv r r := by
  cases r <;> simp [resEquiv]

/-! ### abstraction relation for the single-step fragment -/

/-- the store, seen by single-step operations, is the specification map: metadata slab for every
    non-cache key, cache ring for cache keys, nothing in the entity index -/
structure Abs (s : Store) (σ : Spec) : Prop where
  get : ∀ k, aget σ k = if k.cls = .cache then aget s.cache k else aget s.md k
  mdNoCache : ∀ k, k.cls = .cache → aget s.md k = none
  cacheOnly : ∀ k, k.cls ≠ .cache → aget s.cache k = none
  vocab : s.vocab = []

theorem Abs.init (w : Bool) : Abs { walOn := w } [] := by
  constructor <;> simp [aget]

theorem Abs.setMd {s : Store} {σ : Spec} (h : Abs s σ) (k : Key) (v : Val) (hk : k.cls ≠ .cache) :
    Abs { s with md := aset s.md k v } (aset σ k v) := by
  constructor
  · intro k'
    simp only [aget_aset, h.get k']
    by_cases e : k = k'
    · subst e; simp [hk]
    · simp [e]
  · intro k' hk'
    simp only [aget_aset]
    by_cases e : k = k'
    · subst e; exact absurd hk' hk
    · simp [e, h.mdNoCache k' hk']
  · exact h.cacheOnly
  · exact h.vocab

theorem Abs.setCache {s : Store} {σ : Spec} (h : Abs s σ) (k : Key) (v : Val) (hk : k.cls = .cache) :
    Abs { s with cache := aset s.cache k v } (aset σ k v) := by
  constructor
  · intro k'
    simp only [aget_aset, h.get k']
    by_cases e : k = k'
    · subst e; simp [hk]
    · simp [e]
  · exact h.mdNoCache
  · intro k' hk'
    simp only [aget_aset]
    by_cases e : k = k'
    · subst e; exact absurd hk hk'
    · simp [e, h.cacheOnly k' hk']
  · exact h.vocab

theorem Abs.delMd {s : Store} {σ : Spec} (h : Abs s σ) (k : Key) (hk : k.cls ≠ .cache) :
    Abs { s with md := aerase s.md k } (aerase σ k) := by
  constructor
  · intro k'
    simp only [aget_aerase, h.get k']
    by_cases e : k = k'
    · subst e; simp [hk]
    · simp [e]
  · intro k' hk'
    simp only [aget_aerase]
    by_cases e : k = k'
    · simp [e]
    · simp [e, h.mdNoCache k' hk']
  · exact h.cacheOnly
  · exact h.vocab

theorem Abs.delCache {s : Store} {σ : Spec} (h : Abs s σ) (k : Key) (hk : k.cls = .cache) :
    Abs { s with cache := aerase s.cache k } (aerase σ k) := by
  constructor
  · intro k'
    simp only [aget_aerase, h.get k']
    by_cases e : k = k'
    · subst e; simp [hk]
    · simp [e]
  · exact h.mdNoCache
  · intro k' hk'
    simp only [aget_aerase]
    by_cases e : k = k'
    · simp [e]
    · simp [e, h.cacheOnly k' hk']
  · exact h.vocab

/-- a key is in the model's scan iff it is in the specification's (any prefix that is a string) -/
theorem Abs.scan {s : Store} {σ : Spec} (h : Abs s σ) (p : List Nat) (hb : validUtf8 p = true)
    (k : Key) : k ∈ scanNow s p ↔ k ∈ (σ.map (·.1)).filter (pmatch p) := by
  simp only [scanNow, h.vocab, liveKeys, List.filter_nil, List.map_nil, List.append_nil,
    List.mem_append, List.mem_filter, mem_keys_iff, h.get k, mdMatch_eq_pmatch hb]
  by_cases hk : k.cls = .cache
  · simp [hk, h.mdNoCache k hk]
  · simp [hk, h.cacheOnly k hk]

/-! ### one single-step operation = one step of the specification -/

theorem single_step_refines {s : Store} {σ : Spec} (h : Abs s σ) (op : Op) (hs : op.singleStep)
    (hsb : op.scanStr = true) :
    ∃ s' r, stepOp s op .start = (s', .done r) ∧ resEquiv r (specRes σ op) ∧
      Abs s' (specApply σ op) := by
  cases op with
  | put k v =>
    have hk : k.cls ≠ .emb := hs
    by_cases hc : k.cls = .cache
    · refine ⟨{ s with cache := aset s.cache k v }, .ok, ?_, by simp [resEquiv, specRes, specStep], ?_⟩
      · simp [stepOp, routerPut, hc]
      · simpa [specApply, specStep] using h.setCache k v hc
    · refine ⟨{ s with md := aset s.md k v }, .ok, ?_, by simp [resEquiv, specRes, specStep], ?_⟩
      · cases hcl : k.cls <;> simp_all [stepOp, routerPut]
      · simpa [specApply, specStep] using h.setMd k v hc
  | get k =>
    have hk : k.cls ≠ .emb := hs
    by_cases hc : k.cls = .cache
    · refine ⟨s, (match aget s.cache k with | some v => .found v | none => .notFound),
        by simp [stepOp, routerGet, hc]; cases aget s.cache k <;> rfl, ?_,
        by simpa [specApply, specStep] using h⟩
      simp only [specRes, specStep, h.get k, hc, if_true]
      exact resEquiv_refl _
    · refine ⟨s, mdGet s k, by cases hcl : k.cls <;> simp_all [stepOp, routerGet], ?_,
        by simpa [specApply, specStep] using h⟩
      simp only [specRes, specStep, h.get k, hc, if_false, mdGet]
      exact resEquiv_refl _
  | delete k =>
    have hk : k.cls ≠ .emb := hs
    by_cases hc : k.cls = .cache
    · have hg := h.get k
      simp only [hc, if_true] at hg
      cases hv : aget s.cache k with
      | none =>
        refine ⟨s, .notFound, by simp [stepOp, routerDelete, existsNow, hc, hv], ?_, ?_⟩
        · simp [specRes, specStep, hg, hv, resEquiv]
        · simpa [specApply, specStep, hg, hv] using h
      | some v =>
        refine ⟨{ s with cache := aerase s.cache k }, .ok,
          by simp [stepOp, routerDelete, existsNow, hc, hv], ?_, ?_⟩
        · simp [specRes, specStep, hg, hv, resEquiv]
        · simpa [specApply, specStep, hg, hv] using h.delCache k hc
    · have hg := h.get k
      simp only [hc, if_false] at hg
      cases hv : aget s.md k with
      | none =>
        refine ⟨s, .notFound, by cases hcl : k.cls <;> simp_all [stepOp, routerDelete, existsNow], ?_, ?_⟩
        · simp [specRes, specStep, hg, hv, resEquiv]
        · simpa [specApply, specStep, hg, hv] using h
      | some v =>
        refine ⟨{ s with md := aerase s.md k }, .ok,
          by cases hcl : k.cls <;> simp_all [stepOp, routerDelete, existsNow], ?_, ?_⟩
        · simp [specRes, specStep, hg, hv, resEquiv]
        · simpa [specApply, specStep, hg, hv] using h.delMd k hc
  | exists_ k =>
    have hk : k.cls ≠ .emb := hs
    refine ⟨s, .bool (existsNow s k), by simp [stepOp], ?_, by simpa [specApply, specStep] using h⟩
    have hg := h.get k
    by_cases hc : k.cls = .cache
    · simp [specRes, specStep, hg, hc, existsNow, resEquiv]
    · cases hcl : k.cls <;> simp_all [specRes, specStep, existsNow, resEquiv]
  | scan p =>
    refine ⟨s, .keys (scanNow s p), by simp [stepOp], ?_, by simpa [specApply, specStep] using h⟩
    simp only [specRes, specStep, resEquiv]
    exact ⟨fun k hk => (h.scan p hsb k).mp hk, fun k hk => (h.scan p hsb k).mpr hk⟩
  | putD k v =>
    have hc : k.cls = .cache := hs
    refine ⟨{ s with cache := aset s.cache k v }, .ok, ?_, by simp [resEquiv, specRes, specStep], ?_⟩
    · simp [stepOp, routerPut, hc]
    · simpa [specApply, specStep] using h.setCache k v hc
  | delD k =>
    have hc : k.cls = .cache := hs
    have hg := h.get k
    simp only [hc, if_true] at hg
    cases hv : aget s.cache k with
    | none =>
      refine ⟨s, .notFound, by simp [stepOp, routerDelete, existsNow, hc, hv], ?_, ?_⟩
      · simp [specRes, specStep, hg, hv, resEquiv]
      · simpa [specApply, specStep, hg, hv] using h
    | some v =>
      refine ⟨{ s with cache := aerase s.cache k }, .ok,
        by simp [stepOp, routerDelete, existsNow, hc, hv], ?_, ?_⟩
      · simp [specRes, specStep, hg, hv, resEquiv]
      · simpa [specApply, specStep, hg, hv] using h.delCache k hc

/-! ### the invariant of a run of single-step operations -/

structure Inv (sys : Sys) : Prop where
  abs : Abs sys.store (specRun [] (sys.hist.map (·.op)))
  strict : SeqStrict [] sys.hist
  threads : ∀ th ∈ sys.threads, th.pc = .start ∧ ∀ op ∈ th.ops, op.singleStep ∧ op.scanStr = true
  times : ∀ r ∈ sys.hist, r.inv = r.ret ∧ r.ret < sys.clock
  sorted : sys.hist.Pairwise (fun a b => a.ret < b.inv)

theorem Inv.init (w : Bool) (progs : List ThreadProgram)
    (h : ∀ p ∈ progs, ∀ op ∈ p, op.singleStep ∧ op.scanStr = true) : Inv (initSys w progs) := by
  constructor
  · exact Abs.init w
  · trivial
  · intro th hth
    simp only [initSys, List.mem_map] at hth
    obtain ⟨p, hp, rfl⟩ := hth
    exact ⟨rfl, h p hp⟩
  · intro r hr; simp [initSys] at hr
  · simp [initSys]

theorem Inv.stepOld {sys : Sys} (h : Inv sys) (t : Nat) : Inv (stepOld sys t) := by
  unfold Neumann.KV.stepOld
  split
  · exact h
  · rename_i th hth
    split
    · exact h
    · rename_i op rest hops
      have hmem : th ∈ sys.threads := List.mem_of_getElem? hth
      obtain ⟨hpc, hss⟩ := h.threads th hmem
      have hop := hss op (by simp [hops])
      obtain ⟨s', r, hstep, hres, habs⟩ := single_step_refines h.abs op hop.1 hop.2
      simp only [hpc, hstep, if_true]
      constructor
      · simp only [List.map_append, List.map_cons, List.map_nil, specRun_append]
        exact habs
      · exact (seqStrict_append _ _ _).mpr ⟨h.strict, hres⟩
      · intro th' hm
        rcases List.mem_or_eq_of_mem_set hm with h1 | h1
        · exact h.threads th' h1
        · subst h1
          exact ⟨rfl, fun o ho => hss o (by simp [hops, ho])⟩
      · intro x hx
        simp only [List.mem_append, List.mem_singleton] at hx
        rcases hx with hx | hx
        · exact ⟨(h.times x hx).1, Nat.lt_succ_of_lt (h.times x hx).2⟩
        · subst hx; exact ⟨rfl, Nat.lt_succ_self _⟩
      · refine List.pairwise_append.mpr ⟨h.sorted, by simp, ?_⟩
        intro a ha b hb
        simp only [List.mem_singleton] at hb
        subst hb
        exact (h.times a ha).2

theorem Inv.step {sys : Sys} (h : Inv sys) (t : Nat) : Inv (step sys t) := by
  unfold Neumann.KV.step
  split
  · exact h
  · split
    · exact h
    · split
      · exact h
      · exact h.stepOld t

theorem Inv.run {sys : Sys} (h : Inv sys) (sched : List Nat) : Inv (runFrom sys sched) := by
  induction sched generalizing sys with
  | nil => exact h
  | cons t rest ih => exact ih (h.step t)

theorem Inv.linearizable {sys : Sys} (h : Inv sys) : Linearizable sys.hist := by
  refine ⟨sys.hist, List.Perm.refl _, h.strict.valid, ?_⟩
  refine List.Pairwise.imp_of_mem ?_ h.sorted
  intro a b ha hb hab hba
  have := (h.times a ha).1
  have := (h.times b hb).1
  omega

/-! ### a read returns only values that were written -/

theorem aget_specApply {σ : Spec} {op : Op} {k : Key} {v : Val}
    (h : aget (specApply σ op) k = some v) :
    aget σ k = some v ∨ op = .put k v ∨ op = .putD k v := by
  cases op with
  | put k' v' =>
    simp only [specApply, specStep, aget_aset] at h
    by_cases e : k' = k
    · subst e; simp only [if_true, Option.some.injEq] at h; subst h; exact Or.inr (Or.inl rfl)
    · simp only [e, if_false] at h; exact Or.inl h
  | putD k' v' =>
    simp only [specApply, specStep, aget_aset] at h
    by_cases e : k' = k
    · subst e; simp only [if_true, Option.some.injEq] at h; subst h; exact Or.inr (Or.inr rfl)
    · simp only [e, if_false] at h; exact Or.inl h
  | delete k' =>
    simp only [specApply, specStep] at h
    cases hv : aget σ k' with
    | none => rw [hv] at h; exact Or.inl h
    | some w =>
      rw [hv] at h
      simp only [aget_aerase] at h
      by_cases e : k' = k
      · simp [e] at h
      · simp only [e, if_false] at h; exact Or.inl h
  | delD k' =>
    simp only [specApply, specStep] at h
    cases hv : aget σ k' with
    | none => rw [hv] at h; exact Or.inl h
    | some w =>
      rw [hv] at h
      simp only [aget_aerase] at h
      by_cases e : k' = k
      · simp [e] at h
      · simp only [e, if_false] at h; exact Or.inl h
  | get _ => exact Or.inl h
  | exists_ _ => exact Or.inl h
  | scan _ => exact Or.inl h

/-- in a legal sequential execution a `get` that finds `v` finds the initial value or the value
    of some put of the same key in the execution -/
theorem seqValid_get_written {σ : Spec} {l : List OpRec} (hv : SeqValid σ l)
    {r : OpRec} (hr : r ∈ l) {k : Key} {v : Val} (hop : r.op = .get k) (hres : r.res = .found v) :
    aget σ k = some v ∨ ∃ w ∈ l, w.op = .put k v ∨ w.op = .putD k v := by
  induction l generalizing σ with
  | nil => cases hr
  | cons a rest ih =>
    obtain ⟨hok, hrest⟩ := hv
    rcases List.mem_cons.mp hr with e | hr'
    · subst e
      left
      rw [hop, hres] at hok
      rcases hok with hq | hq
      · simp only [specRes, specStep] at hq
        cases hg : aget σ k with
        | none => rw [hg] at hq; simp [resEquiv] at hq
        | some w => rw [hg] at hq; simp only [resEquiv, Res.found.injEq] at hq; rw [hq]
      · exact absurd hq (by simp [absentOk])
    · rcases ih hrest hr' with h1 | ⟨w, hw, hw'⟩
      · rcases aget_specApply h1 with h2 | h2
        · exact Or.inl h2
        · exact Or.inr ⟨a, List.mem_cons_self, h2⟩
      · exact Or.inr ⟨w, List.mem_cons_of_mem _ hw, hw'⟩

/-! ### durable writers -/

theorem replay_snoc (w : List Entry) (e : Entry) : replay (w ++ [e]) = applyEntry (replay w) e := by
  simp [replay, List.foldl_append]

theorem getElem?_set_cases {α} {l : List α} {t i : Nat} {a x old : α} (hold : l[t]? = some old)
    (h : (l.set t a)[i]? = some x) : (i = t ∧ x = a) ∨ (i ≠ t ∧ l[i]? = some x) := by
  by_cases e : i = t
  · subst e
    obtain ⟨hlt, _⟩ := List.getElem?_eq_some_iff.mp hold
    rw [List.getElem?_set_self hlt] at h
    exact Or.inl ⟨rfl, (Option.some.inj h).symm⟩
  · rw [List.getElem?_set_ne (Ne.symm e)] at h
    exact Or.inr ⟨e, h⟩

/-! ### durable writes: the log mutex is held across the apply -/

/-- the yield point between log and apply of a durable write -/
def afterLog : Op → PC
  | .putD .. => .putDAfterLog
  | .delD .. => .delDAfterLog
  | _ => .start

theorem mem_set_cases {α} {l : List α} {t : Nat} {a x : α} (h : x ∈ l.set t a) : x ∈ l ∨ x = a :=
  List.mem_or_eq_of_mem_set h

/-- which keys a scan with prefix `p` lists: what the metadata range selects of the metadata slab,
    what starts with `p` of the entity index and the cache ring -/
theorem mem_scanNow_iff (s : Store) (p : List Nat) (k : Key) :
    k ∈ scanNow s p ↔ ((mdMatch p k = true ∧ (aget s.md k).isSome = true) ∨
      (pmatch p k = true ∧ (k ∈ liveKeys s.vocab ∨ (aget s.cache k).isSome = true))) := by
  simp only [scanNow, List.mem_append, List.mem_filter, mem_keys_iff]
  grind

end Neumann.KV
