import NeumannModel.KV.Model
/-
  C11 — `EntityIndex::try_get_or_create` at the granularity of ITS OWN locks
  (repo tensor_store/src/entity_index.rs).

      // Fast path: read-only lookup
      if let Some(id) = self.get(key) { return Ok(id); }      -- vocabulary.read(), reverse.read()
      // Slow path: acquire write locks                        <- other threads run HERE
      let mut vocab = self.vocabulary.write();
      let mut reverse = self.reverse.write();
      // Double-check after acquiring write lock (another thread may have inserted)
      … walk the hash run of the key: a live entry of the key → return Ok(that id) …
      // Insert new entry
      let new_id = vocab.len(); vocab.push(key); reverse.insert(..); Ok(EntityId(new_id))

  `Model.idxGetOrCreate` is the whole function as ONE atomic step (there is no yield hook inside
  it).  Here it is what it is: a lookup under the read locks, and - when that lookup missed - a
  second atomic step under the write locks that LOOKS AGAIN and appends only if the key is still
  missing.  Between the two the thread holds no lock of the index (`get` has returned), so any
  other operation of any thread runs there: that is the yield point
  `index.get_or_create.after_miss` (proposed/C11-hook-entity-index-yield.diff).

  Callers (all on `emb:` keys): `SlabRouter::put` (first step of `put`, and the apply step of
  `put_durable`, there under the log mutex) and the log step of `put_durable` (the id the
  `EmbeddingSet` record carries, value with a vector, log configured).  Replay at start-up is
  single-threaded.

  Every other step is `Model.stepOp` unchanged.  The machine is parametrised by `recheck`:
  `true` = THE CODE; `false` = NOT the code - the write section appends without looking again
  ("the fast path has already walked the hash run").

  Import-free (Model only), total, computable.
-/
namespace Neumann.KV

/-- the slow path of `try_get_or_create`, under `vocabulary.write()` / `reverse.write()` -/
def idxCreateLocked (recheck : Bool) (v : List (Key × Bool)) (k : Key) : Nat × List (Key × Bool) :=
  if recheck then idxGetOrCreate v k      -- the double-check, then the append
  else (v.length, v ++ [(k, true)])       -- NOT the code: the append alone

/-- where a thread is parked: at a yield hook of `Model.PC`, or inside the `try_get_or_create`
    that the step from hook `pc` begins with, after its fast path missed -/
inductive IPC where
  | hook (pc : PC)
  | idxMiss (pc : PC)       -- `index.get_or_create.after_miss`
  deriving DecidableEq, Repr

inductive IOutcome where
  | cont (pc : IPC)
  | done (r : Res)
  deriving DecidableEq, Repr

def Outcome.lift : Outcome → IOutcome
  | .cont pc => .cont (.hook pc)
  | .done r => .done r

/-- the key the step of `op` from hook `pc` calls `index.get_or_create` with, first thing -/
def getOrCreateKey (s : Store) (op : Op) (pc : PC) : Option Key :=
  match pc, op with
  | .start, .put k _ => if k.cls = .emb then some k else none
  | .putDAfterLog, .putD k _ => if k.cls = .emb then some k else none
  | .start, .putD k v =>
      if s.walOn && decide (k.cls = .emb) && decide (v.vec ≠ .none) then some k else none
  | _, _ => none

/-- the step that started at hook `pc` with a missed fast path, from the write locks on -/
def lockedStep (recheck : Bool) (s : Store) (op : Op) (pc : PC) : Store × IOutcome :=
  match pc, op with
  | .start, .put k _ | .putDAfterLog, .putD k _ =>
      -- `SlabRouter::put`: `let entity_id = self.index.get_or_create(key);` up to `…after_index`
      let ic := idxCreateLocked recheck s.vocab k
      ({ s with vocab := ic.2 }, .cont (.hook (.putEmbAfterIndex ic.1)))
  | .start, .putD k v =>
      -- `put_durable`: the id, then the `EmbeddingSet` and `MetadataSet` records
      let ic := idxCreateLocked recheck s.vocab k
      ({ s with vocab := ic.2, wal := s.wal ++ [.embSet ic.1 v.vec, .metaSet k v] },
       .cont (.hook .putDAfterLog))
  | _, _ => (s, .done .notFound)

/-- ONE ATOMIC STEP at the granularity of the index's locks -/
def stepOpI (recheck : Bool) (s : Store) (op : Op) : IPC → Store × IOutcome
  | .hook pc =>
      match getOrCreateKey s op pc with
      | some k =>
          match idxGet s.vocab k with
          | some _ => let r := stepOp s op pc; (r.1, r.2.lift)   -- fast path: the id is there
          | none => (s, .cont (.idxMiss pc))                     -- missed: nothing has changed
      | none => let r := stepOp s op pc; (r.1, r.2.lift)
  | .idxMiss pc => lockedStep recheck s op pc

/-! ### the scheduler (as `Model.step`, with the finer program counter) -/

structure IThread where
  ops : List Op
  pc : IPC := .hook .start
  idx : Nat := 0
  inv : Nat := 0
  deriving Repr

structure ISys where
  store : Store
  threads : List IThread
  hist : List OpRec := []
  clock : Nat := 0
  trace : List (Nat × Op × IPC) := []
  deriving Repr

def initISys (walOn : Bool) (progs : List ThreadProgram) : ISys :=
  { store := { walOn := walOn }, threads := progs.map (fun p => { ops := p }) }

/-- the thread holds the log mutex (a `put_durable` parked inside the `get_or_create` of its log
    step has taken it already) -/
def IThread.inCS (th : IThread) : Bool :=
  match th.ops with
  | op :: _ => op.takesLock && decide (th.pc ≠ .hook .start)
  | [] => false

def stepI (recheck : Bool) (sys : ISys) (t : Nat) : ISys :=
  match sys.threads[t]? with
  | none => sys
  | some th =>
    match th.ops with
    | [] => sys
    | op :: rest =>
      if sys.store.walOn && op.takesLock && decide (th.pc = .hook .start) && sys.threads.any IThread.inCS
      then sys else
      let inv := if th.pc = .hook .start then sys.clock else th.inv
      let tr := sys.trace ++ [(t, op, th.pc)]
      match stepOpI recheck sys.store op th.pc with
      | (s', .cont pc') =>
          { store := s', threads := sys.threads.set t { th with pc := pc', inv := inv },
            hist := sys.hist, clock := sys.clock + 1, trace := tr }
      | (s', .done r) =>
          { store := s', threads := sys.threads.set t { ops := rest, pc := .hook .start, idx := th.idx + 1, inv := 0 },
            hist := sys.hist ++ [{ t := t, i := th.idx, op := op, res := r, inv := inv, ret := sys.clock }],
            clock := sys.clock + 1, trace := tr }

def runFromI (recheck : Bool) (sys : ISys) (sched : List Nat) : ISys := sched.foldl (stepI recheck) sys

/-- THE CODE (`recheck = true`) / the append-without-looking-again variant (`false`) under the
    interleaving `sched` -/
def runSchedI (recheck : Bool) (walOn : Bool) (progs : List ThreadProgram) (sched : List Nat) : ISys :=
  runFromI recheck (initISys walOn progs) sched

def quiescentI (sys : ISys) : Bool := sys.threads.all (fun th => th.ops.isEmpty)

/-! ### what is claimed of the index -/

/-- the live entity ids of key `k` -/
def liveIds (v : List (Key × Bool)) (k : Key) : List Nat :=
  (List.range v.length).filter (fun i => v[i]? == some (k, true))

/-- what the claims below need of the slabs: a key has at most one live entity id; the cache ring
    holds cache-class keys only -/
structure StoreWF (s : Store) : Prop where
  uniq : ∀ (i j : Nat) (k : Key), s.vocab[i]? = some (k, true) → s.vocab[j]? = some (k, true) → i = j
  cacheOnly : ∀ k : Key, k.cls ≠ .cache → aget s.cache k = none

/-- a reader finds nothing of the key: `get` NotFound, `exists` false, no scan lists it -/
def gone (s : Store) (k : Key) : Bool := decide (view s k = (.notFound, false, false))

end Neumann.KV

/-! ### witness interleaving (proved in `IndexProps.lean`) -/
namespace Neumann.KV

/-- two first puts of `emb:1` -/
def twoFirstPutsProgs : List ThreadProgram := [[.put kE1 ⟨1, .good 1⟩], [.put kE1 ⟨2, .good 2⟩]]

/-- A looks `emb:1` up (absent), B looks it up (absent), A takes the write locks and appends,
    B takes the write locks …; then A's and B's vector and metadata steps -/
def twoFirstPutsSched : List Nat := [0, 1, 0, 1, 0, 0, 1, 1]

/-- the same on a key that was put and deleted before (thread 2 does that first) -/
def recreateProgs : List ThreadProgram :=
  [[.put kE1 ⟨1, .good 1⟩], [.put kE1 ⟨2, .good 2⟩], [.put kE1 ⟨3, .good 3⟩, .delete kE1]]

def recreateSched : List Nat := [2, 2, 2, 2, 2, 2, 2, 0, 1, 0, 1, 0, 0, 1, 1]

end Neumann.KV
