import NeumannModel.KV.Model
/-
  C11 — the shared store built WITH a Bloom filter (`TensorStore::with_bloom_filter`,
  `with_default_bloom_filter`, `with_bloom_and_instrumentation`, `open_durable_with_bloom`,
  `load_snapshot_with_bloom_filter`, `recover_with_bloom`; repo tensor_store/src/lib.rs).

  The filter sits in FRONT of the slabs, in `TensorStore` (the router knows nothing of it):

    put / put_durable : yield hook; `filter.add(&key)`; (access tracker); `router.put(..)`
    get               : yield hook; `if !filter.might_contain(&key) { return NotFound }`; `router.get(..)`
    exists            : yield hook; `if !filter.might_contain(&key) { return false }`; `router.exists(..)`
    delete / delete_durable / scan (scan_count, scan_filter_map, len) : never touch the filter

  A Bloom filter never forgets (`clear` is not an operation of the model): it is modelled as the
  monotone list `added` of the keys `add` was called with; `might_contain` is true of those and of
  whatever else the hash functions happen to cover (`fp`, an arbitrary predicate: every theorem
  quantifies over it).

  Two step machines.  (A) `stepG` at the granularity of the yield hooks, as `Model.step`: the
  prologue of a `TensorStore` method runs in the same atomic step as the first router step.  This
  is the machine the driver runs and the harness compares with the real store.  (B) `fstep`, finer:
  the prologue (the filter call), every router step and the return of the method are atomic steps
  of their own, so that other threads run between `filter.add` and `router.put`, between
  `might_contain` and `router.get`, and between the return of the router call and the return of
  the method.  Both are parametrised by WHERE `put` / `put_durable` call `filter.add`: before the
  router call (the code) or after it has returned Ok (not the code; `BloomProps.late_add_*`).

  Import-free (Model only), total, computable.
-/
namespace Neumann.KV

/-- the key is in one of the slabs that `get` / `exists` / `scan` read: metadata slab, cache ring,
    or live in the entity index -/
def visible (s : Store) (k : Key) : Bool :=
  (aget s.md k).isSome || (aget s.cache k).isSome || (idxGet s.vocab k).isSome

/-- `BloomFilter::might_contain` -/
def mightContain (fp : Key → Bool) (added : List Key) (k : Key) : Bool := fp k || decide (k ∈ added)

/-- the key `put` / `put_durable` register with the filter -/
def Op.putKey? : Op → Option Key
  | .put k _ | .putD k _ => some k
  | _ => none

/-- `if let Some(ref filter) = self.bloom_filter { filter.add(&key) }` of `put` / `put_durable` -/
def filterAdd (added : List Key) (op : Op) : List Key :=
  match op.putKey? with
  | some k => k :: added
  | none => added

/-! ### (A) at the granularity of the yield hooks -/

/-- one atomic step of a `TensorStore` operation on a store with a filter: the slabs, the outcome,
    the filter -/
abbrev StepFn := Store → List Key → Op → PC → (Store × Outcome) × List Key

/-- THE CODE: the negative fast path of `get` / `exists` answers from the filter alone; `put` /
    `put_durable` add the key BEFORE the router call (in the step that starts at `store.put` /
    `store.put_durable`); every other step is the router's -/
def stepOpB (fp : Key → Bool) : StepFn := fun s added op pc =>
  match pc, op with
  | .start, .get k =>
      if mightContain fp added k then (stepOp s op pc, added) else ((s, .done .notFound), added)
  | .start, .exists_ k =>
      if mightContain fp added k then (stepOp s op pc, added) else ((s, .done (.bool false)), added)
  | .start, _ => (stepOp s op pc, filterAdd added op)
  | _, _ => (stepOp s op pc, added)

/-- NOT THE CODE: `put` / `put_durable` add the key once the router call has returned Ok
    (`self.router.put(&key, tensor).map_err(..)?; filter.add(&key); Ok(())`) - at the granularity of
    the hooks: in the last atomic step of the operation -/
def stepOpBLate (fp : Key → Bool) : StepFn := fun s added op pc =>
  match pc, op with
  | .start, .get k =>
      if mightContain fp added k then (stepOp s op pc, added) else ((s, .done .notFound), added)
  | .start, .exists_ k =>
      if mightContain fp added k then (stepOp s op pc, added) else ((s, .done (.bool false)), added)
  | _, _ =>
      match stepOp s op pc with
      | (s', .done .ok) => ((s', .done .ok), filterAdd added op)
      | r => (r, added)

/-- the system of `Model.Sys` and the filter -/
structure BSys where
  sys : Sys
  added : List Key := []
  deriving Repr

/-- `Model.stepOld` with the step function of the filtered store -/
def stepOldG (f : StepFn) (b : BSys) (t : Nat) : BSys :=
  match b.sys.threads[t]? with
  | none => b
  | some th =>
    match th.ops with
    | [] => b
    | op :: rest =>
      let r := f b.sys.store b.added op th.pc
      let inv := if th.pc = .start then b.sys.clock else th.inv
      let tr := b.sys.trace ++ [(t, op, th.pc)]
      match r.1 with
      | (s', .cont pc') =>
          { sys := { store := s', threads := b.sys.threads.set t { th with pc := pc', inv := inv },
                     hist := b.sys.hist, clock := b.sys.clock + 1, trace := tr },
            added := r.2 }
      | (s', .done res) =>
          { sys := { store := s',
                     threads := b.sys.threads.set t { ops := rest, pc := .start, idx := th.idx + 1, inv := 0 },
                     hist := b.sys.hist ++ [{ t := t, i := th.idx, op := op, res := res, inv := inv, ret := b.sys.clock }],
                     clock := b.sys.clock + 1, trace := tr },
            added := r.2 }

/-- `Model.step` (the log mutex) with the step function of the filtered store.  A thread that is
    granted `store.put_durable` while another holds the mutex has in reality already called
    `filter.add` when it blocks; here it does not move at all (the key reaches `added` when it gets
    the mutex): `added` is then a subset of the real filter's content, which no result depends on
    (`BloomProps.bloom_store_transparent` holds for every `fp`); the finer machine (B) takes the
    prologue before the block. -/
def stepG (f : StepFn) (b : BSys) (t : Nat) : BSys :=
  match b.sys.threads[t]? with
  | none => b
  | some th =>
    match th.ops with
    | [] => b
    | op :: _ =>
      if b.sys.store.walOn && op.takesLock && decide (th.pc = .start) && b.sys.threads.any Thread.inCS
      then b else stepOldG f b t

def runFromG (f : StepFn) (b : BSys) (sched : List Nat) : BSys := sched.foldl (stepG f) b

/-- a store created empty with a filter (`with_bloom_filter`, `open_durable_with_bloom`) -/
def initB (walOn : Bool) (progs : List ThreadProgram) : BSys := { sys := initSys walOn progs }

/-- a store LOADED with a filter (`load_snapshot_with_bloom_filter`, `recover_with_bloom`): the
    slabs come from the file, `for key in router.scan("") { bloom.add(&key) }` -/
def loadB (s : Store) (progs : List ThreadProgram) : BSys :=
  { sys := { store := s, threads := progs.map (fun p => { ops := p }) }, added := scanNow s [] }

/-- THE CODE on a store with a Bloom filter whose hash collisions are `fp` -/
def runSchedB (fp : Key → Bool) (walOn : Bool) (progs : List ThreadProgram) (sched : List Nat) : BSys :=
  runFromG (stepOpB fp) (initB walOn progs) sched

/-- NOT THE CODE: the same with `filter.add` after the router call -/
def runSchedBLate (fp : Key → Bool) (walOn : Bool) (progs : List ThreadProgram) (sched : List Nat) : BSys :=
  runFromG (stepOpBLate fp) (initB walOn progs) sched

/-- "the filter knows every visible key", checked on the keys `ks` -/
def coversOn (b : BSys) (ks : List Key) : Bool :=
  ks.all (fun k => !visible b.sys.store k || decide (k ∈ b.added))

/-- what a reader of the filtered store sees of key `k` in a quiescent state: `get` and `exists`
    go through the filter, the scan does not -/
def viewB (fp : Key → Bool) (b : BSys) (k : Key) : Res × Bool × Bool :=
  let v := view b.sys.store k
  if mightContain fp b.added k then v else (.notFound, false, v.2.2)

/-! ### (B) at the granularity of single filter / router calls -/

/-- where a thread is inside a `TensorStore` method -/
inductive FPC where
  | pre              -- at the method's yield hook: the prologue (`filter.add` / `might_contain`) is next
  | call (pc : PC)   -- the router call is next (`pc = .start`) or in progress (parked at `pc`)
  | post (r : Res)   -- the router call has returned `r`: the rest of the method and its return are next
  deriving DecidableEq, Repr

structure FThread where
  ops : List Op
  pc : FPC := .pre
  deriving Repr

/-- a completed operation: thread, operation, result -/
structure FRec where
  t : Nat
  op : Op
  res : Res
  deriving DecidableEq, Repr

structure FSys where
  store : Store
  added : List Key := []
  threads : List FThread
  hist : List FRec := []      -- in order of completion
  deriving Repr

/-- the thread holds the log mutex: inside the router call of a durable write, past its log step -/
def FThread.inCS (th : FThread) : Bool :=
  match th.ops, th.pc with
  | op :: _, .call pc => op.takesLock && decide (pc ≠ .start)
  | _, _ => false

/-- ONE ATOMIC STEP of thread `t`: one filter call, or one router step, or the return.  `bloomOn`:
    the store has a filter; `late`: NOT the code - `filter.add` sits after the router call. -/
def fstep (bloomOn late : Bool) (fp : Key → Bool) (sys : FSys) (t : Nat) : FSys :=
  match sys.threads[t]? with
  | none => sys
  | some th =>
    match th.ops with
    | [] => sys
    | op :: rest =>
      match th.pc with
      | .pre =>
          -- the prologue: never waits for anything
          match op with
          | .get k =>
              if bloomOn && !mightContain fp sys.added k then
                { sys with threads := sys.threads.set t { ops := rest, pc := .pre },
                           hist := sys.hist ++ [⟨t, op, .notFound⟩] }
              else { sys with threads := sys.threads.set t { th with pc := .call .start } }
          | .exists_ k =>
              if bloomOn && !mightContain fp sys.added k then
                { sys with threads := sys.threads.set t { ops := rest, pc := .pre },
                           hist := sys.hist ++ [⟨t, op, .bool false⟩] }
              else { sys with threads := sys.threads.set t { th with pc := .call .start } }
          | _ =>
              { sys with added := if late then sys.added else filterAdd sys.added op,
                         threads := sys.threads.set t { th with pc := .call .start } }
      | .call pc =>
          -- `Mutex::lock` of a durable write blocks while another thread is between log and apply
          if sys.store.walOn && op.takesLock && decide (pc = .start) && sys.threads.any FThread.inCS
          then sys else
          match stepOp sys.store op pc with
          | (s', .cont pc') => { sys with store := s', threads := sys.threads.set t { th with pc := .call pc' } }
          | (s', .done r) => { sys with store := s', threads := sys.threads.set t { th with pc := .post r } }
      | .post r =>
          { sys with added := if late && decide (r = .ok) then filterAdd sys.added op else sys.added,
                     threads := sys.threads.set t { ops := rest, pc := .pre },
                     hist := sys.hist ++ [⟨t, op, r⟩] }

/-- a store (empty or loaded: the filter is then rebuilt from `router.scan("")`) and its threads -/
def finit (s : Store) (progs : List ThreadProgram) : FSys :=
  { store := s, added := scanNow s [], threads := progs.map (fun p => { ops := p }) }

def frun (bloomOn late : Bool) (fp : Key → Bool) (s : Store) (progs : List ThreadProgram)
    (sched : List Nat) : FSys :=
  sched.foldl (fstep bloomOn late fp) (finit s progs)

end Neumann.KV

/-! ### witness interleavings (proved in `BloomProps.lean`, replayed on the real store by `corr_kv`) -/
namespace Neumann.KV

/-- a writer creates `emb:1` (never put before); a reader scans, then asks for the key -/
def lateAddProgs : List ThreadProgram :=
  [[.put kE1 ⟨1, .good 1⟩], [.scan pfxEmb, .exists_ kE1, .get kE1]]

/-- the writer's index step; the reader's scan (lists `emb:1`), exists, get (first step); the
    writer's vector and metadata steps; the rest of the get -/
def lateAddSched : List Nat := [0, 1, 1, 1, 0, 0, 1, 1]

/-- the same on a plain key, at the granularity of single calls -/
def lateAddFineProgs : List ThreadProgram :=
  [[.put kP1 ⟨1, .none⟩], [.scan pfxUser, .exists_ kP1, .get kP1]]

/-- writer: prologue, router call (the value is visible) - parked before its return; reader: scan
    (3 steps), exists, get; writer: return -/
def lateAddFineSched : List Nat := [0, 0, 1, 1, 1, 1, 1, 1, 1, 1, 1, 0]

end Neumann.KV
