import NeumannModel.KV.Ring
import NeumannModel.KV.RingLemmas
import NeumannModel.KV.Lemmas
/-
  C11 — the cache ring at the granularity of `CacheRing::get`'s two lock sections is linearizable
  against the key ↦ value specification, when the hash function is injective and the ring never
  has to evict (the schedule is no longer than the capacity).  Linearization order = order of
  completion (core Lean only).
-/
namespace Neumann.KV

/-! ### association lists, options -/

theorem rl_aget_mem {α β} [DecidableEq α] {l : List (α × β)} {k : α} {v : β}
    (h : aget l k = some v) : (k, v) ∈ l := by
  induction l with
  | nil => simp [aget] at h
  | cons p r ih =>
    obtain ⟨a, b⟩ := p
    by_cases e : a = k
    · subst e
      simp only [aget, if_true, Option.some.injEq] at h
      subst h
      exact List.mem_cons_self
    · simp only [aget, e, if_false] at h
      exact List.mem_cons_of_mem _ (ih h)

theorem rl_option_ext {α} {a b : Option α} (h : ∀ w, a = some w ↔ b = some w) : a = b := by
  cases a with
  | none =>
    cases b with
    | none => rfl
    | some y => exact (h y).mpr rfl
  | some x => exact ((h x).mp rfl).symm

/-- the abstraction relation reads the cache slab through `aget` only -/
theorem rl_abs_congr {s s' : Store} {σ : Spec} (h : Abs s σ) (hmd : s'.md = s.md)
    (hv : s'.vocab = s.vocab) (hc : ∀ k, aget s'.cache k = aget s.cache k) : Abs s' σ := by
  constructor
  · intro k; rw [h.get k, hc, hmd]
  · intro k hk; rw [hmd]; exact h.mdNoCache k hk
  · intro k hk; rw [hc]; exact h.cacheOnly k hk
  · rw [hv]; exact h.vocab

/-! ### slots -/

theorem rl_slot_iff (r : Ring) (i : Nat) (e : Key × Val) :
    r.slot i = some e ↔ r.slots[i]? = some (some e) := by
  unfold Ring.slot
  split
  · rename_i e' he
    rw [he]
    simp
  · rename_i hne
    constructor
    · intro h; cases h
    · intro h; exact absurd h (hne e)

theorem rl_slot_lt {r : Ring} {i : Nat} {e : Key × Val} (h : r.slot i = some e) :
    i < r.slots.length :=
  (List.getElem?_eq_some_iff.mp ((rl_slot_iff r i e).mp h)).1

theorem rl_slot_none_of_empty {r : Ring} {i : Nat} (h : r.slots[i]? = some none) : r.slot i = none := by
  unfold Ring.slot
  rw [h]

theorem rl_mem_entries (r : Ring) (e : Key × Val) :
    e ∈ ringEntries r ↔ ∃ i, r.slot i = some e := by
  unfold ringEntries
  simp only [List.mem_filterMap, id, rl_slot_iff]
  constructor
  · rintro ⟨a, ha, rfl⟩
    exact List.mem_iff_getElem?.mp ha
  · rintro ⟨i, hi⟩
    exact ⟨some e, List.mem_of_getElem? hi, rfl⟩

/-- no key sits in two slots -/
def rl_Uniq (r : Ring) : Prop :=
  ∀ i j k v v', r.slot i = some (k, v) → r.slot j = some (k, v') → i = j

/-- the slab as a map: key `k` has value `v` iff some slot holds `(k, v)` -/
theorem rl_aget_entries {r : Ring} (hu : rl_Uniq r) (k : Key) (v : Val) :
    aget (ringEntries r) k = some v ↔ ∃ i, r.slot i = some (k, v) := by
  constructor
  · intro h
    exact (rl_mem_entries r (k, v)).mp (rl_aget_mem h)
  · rintro ⟨i, hi⟩
    have hm : (k, v) ∈ ringEntries r := (rl_mem_entries r _).mpr ⟨i, hi⟩
    have hk : k ∈ (ringEntries r).map (·.1) := List.mem_map.mpr ⟨(k, v), hm, rfl⟩
    have hs := (mem_keys_iff _ _).mp hk
    cases hg : aget (ringEntries r) k with
    | none => rw [hg] at hs; cases hs
    | some v' =>
      obtain ⟨j, hj⟩ := (rl_mem_entries r (k, v')).mp (rl_aget_mem hg)
      have := hu i j k v v' hi hj
      subst this
      rw [hi] at hj
      cases hj
      rfl

theorem rl_slot_set (r : Ring) (i : Nat) (x : Option (Key × Val)) (idx : List (Nat × Nat))
    (hi : i < r.slots.length) (j : Nat) :
    Ring.slot { slots := r.slots.set i x, index := idx } j = if j = i then x else r.slot j := by
  unfold Ring.slot
  simp only [List.getElem?_set]
  by_cases h : j = i
  · subst h
    simp only [if_true, hi]
    cases x <;> rfl
  · have h' : ¬ i = j := fun e => h e.symm
    simp only [h, h', if_false]

/-- storing `(k, v)` in slot `i`, which is empty or holds `k`, while no other slot holds `k`:
    the slab as a map gets `k ↦ v` -/
theorem rl_set_some {r : Ring} (hu : rl_Uniq r) {i : Nat} (hi : i < r.slots.length) (k : Key) (v : Val)
    (idx : List (Nat × Nat))
    (honly : ∀ j v', r.slot j = some (k, v') → j = i)
    (hold : ∀ k'' v'', r.slot i = some (k'', v'') → k'' = k) :
    rl_Uniq { slots := r.slots.set i (some (k, v)), index := idx } ∧
    ∀ k', aget (ringEntries { slots := r.slots.set i (some (k, v)), index := idx }) k'
      = aget (aset (ringEntries r) k v) k' := by
  have hu' : rl_Uniq { slots := r.slots.set i (some (k, v)), index := idx } := by
    intro a b k' w w' ha hb
    rw [rl_slot_set r i _ idx hi] at ha hb
    by_cases ea : a = i <;> by_cases eb : b = i
    · rw [ea, eb]
    · simp only [ea, eb, if_true, if_false, Option.some.injEq, Prod.mk.injEq] at ha hb
      rw [← ha.1] at hb
      exact absurd (honly b w' hb) eb
    · simp only [ea, eb, if_true, if_false, Option.some.injEq, Prod.mk.injEq] at ha hb
      rw [← hb.1] at ha
      exact absurd (honly a w ha) ea
    · simp only [ea, eb, if_false] at ha hb
      exact hu a b k' w w' ha hb
  refine ⟨hu', fun k' => rl_option_ext fun w => ?_⟩
  rw [rl_aget_entries hu', aget_aset]
  by_cases e : k = k'
  · subst e
    simp only [if_true, Option.some.injEq]
    constructor
    · rintro ⟨j, hj⟩
      rw [rl_slot_set r i _ idx hi] at hj
      by_cases ej : j = i
      · simp only [ej, if_true, Option.some.injEq, Prod.mk.injEq] at hj
        exact hj.2
      · simp only [ej, if_false] at hj
        exact absurd (honly j w hj) ej
    · intro hw
      refine ⟨i, ?_⟩
      rw [rl_slot_set r i _ idx hi, hw]
      simp
  · simp only [e, if_false]
    rw [rl_aget_entries hu]
    constructor
    · rintro ⟨j, hj⟩
      rw [rl_slot_set r i _ idx hi] at hj
      by_cases ej : j = i
      · simp only [ej, if_true, Option.some.injEq, Prod.mk.injEq] at hj
        exact absurd hj.1 e
      · simp only [ej, if_false] at hj
        exact ⟨j, hj⟩
    · rintro ⟨j, hj⟩
      have ej : j ≠ i := by
        intro ej
        rw [ej] at hj
        exact e (hold k' w hj).symm
      refine ⟨j, ?_⟩
      rw [rl_slot_set r i _ idx hi]
      simp only [ej, if_false]
      exact hj

/-- emptying the slot that holds `k`: the slab as a map loses `k` -/
theorem rl_set_none {r : Ring} (hu : rl_Uniq r) {i : Nat} {k : Key} {v : Val}
    (hs : r.slot i = some (k, v)) (idx : List (Nat × Nat)) :
    rl_Uniq { slots := r.slots.set i none, index := idx } ∧
    ∀ k', aget (ringEntries { slots := r.slots.set i none, index := idx }) k'
      = aget (aerase (ringEntries r) k) k' := by
  have hi := rl_slot_lt hs
  have hu' : rl_Uniq { slots := r.slots.set i none, index := idx } := by
    intro a b k' w w' ha hb
    rw [rl_slot_set r i _ idx hi] at ha hb
    by_cases ea : a = i
    · simp [ea] at ha
    · by_cases eb : b = i
      · simp [eb] at hb
      · simp only [ea, eb, if_false] at ha hb
        exact hu a b k' w w' ha hb
  refine ⟨hu', fun k' => rl_option_ext fun w => ?_⟩
  rw [rl_aget_entries hu', aget_aerase]
  by_cases e : k = k'
  · subst e
    simp only [if_true]
    constructor
    · rintro ⟨j, hj⟩
      rw [rl_slot_set r i _ idx hi] at hj
      by_cases ej : j = i
      · simp [ej] at hj
      · simp only [ej, if_false] at hj
        exact absurd (hu j i k w v hj hs) ej
    · intro h; cases h
  · simp only [e, if_false]
    rw [rl_aget_entries hu]
    constructor
    · rintro ⟨j, hj⟩
      rw [rl_slot_set r i _ idx hi] at hj
      by_cases ej : j = i
      · simp [ej] at hj
      · simp only [ej, if_false] at hj
        exact ⟨j, hj⟩
    · rintro ⟨j, hj⟩
      have ej : j ≠ i := by
        intro ej
        rw [ej, hs] at hj
        simp only [Option.some.injEq, Prod.mk.injEq] at hj
        exact e hj.1
      refine ⟨j, ?_⟩
      rw [rl_slot_set r i _ idx hi]
      simp only [ej, if_false]
      exact hj

/-! ### room: the number of empty slots -/

def rl_free : List (Option (Key × Val)) → Nat
  | [] => 0
  | none :: r => rl_free r + 1
  | some _ :: r => rl_free r

theorem rl_free_set (l : List (Option (Key × Val))) (i : Nat) (x : Option (Key × Val)) :
    rl_free l ≤ rl_free (l.set i x) + 1 := by
  induction l generalizing i with
  | nil => simp [rl_free]
  | cons a l ih =>
    cases i with
    | zero => cases a <;> cases x <;> simp only [List.set, rl_free] <;> omega
    | succ i =>
      have := ih i
      cases a <;> simp only [List.set, rl_free] <;> omega

theorem rl_free_replicate (n : Nat) : rl_free (List.replicate n none) = n := by
  induction n with
  | zero => rfl
  | succ n ih => simp only [List.replicate, rl_free, ih]

/-- a slab with an empty slot: `find_slot_for_insert` returns an EMPTY slot -/
theorem rl_firstEmpty (l : List (Option (Key × Val))) (n : Nat) (h : 0 < rl_free l) :
    ∃ j, firstEmpty l n = some (n + j) ∧ l[j]? = some none := by
  induction l generalizing n with
  | nil => simp [rl_free] at h
  | cons a l ih =>
    cases a with
    | none => exact ⟨0, by simp [firstEmpty]⟩
    | some e =>
      obtain ⟨j, h1, h2⟩ := ih (n + 1) (by simpa [rl_free] using h)
      refine ⟨j + 1, ?_, by simpa using h2⟩
      simp only [firstEmpty, h1, Option.some.injEq]
      omega

/-! ### well-formedness of the ring -/

/-- no key in two slots; every occupied slot is indexed under the hash of its key; every index
    entry points at an occupied slot of that hash -/
structure RWF (hash : Key → Nat) (r : Ring) : Prop where
  uniq : rl_Uniq r
  indexed : ∀ i k v, r.slot i = some (k, v) → aget r.index (hash k) = some i
  points : ∀ h i, aget r.index h = some i → ∃ k v, r.slot i = some (k, v) ∧ hash k = h

theorem RWF.new (hash : Key → Nat) (cap : Nat) : RWF hash (Ring.new cap) := by
  have hs : ∀ i, (Ring.new cap).slot i = none := by
    intro i
    cases h : (Ring.new cap).slot i with
    | none => rfl
    | some e =>
      have := Ring.slot_mem h
      simp only [Ring.new] at this
      cases List.eq_of_mem_replicate this
  constructor
  · intro i j k v v' hi; rw [hs i] at hi; cases hi
  · intro i k v hi; rw [hs i] at hi; cases hi
  · intro h i hi; simp [Ring.new, aget] at hi

theorem rl_nodup_of_uniq (l : List (Option (Key × Val)))
    (hu : ∀ (i j : Nat) (k : Key) (v v' : Val),
      l[i]? = some (some (k, v)) → l[j]? = some (some (k, v')) → i = j) :
    ((l.filterMap id).map (·.1)).Nodup := by
  induction l with
  | nil => simp
  | cons a l ih =>
    have hu' : ∀ (i j : Nat) (k : Key) (v v' : Val),
        l[i]? = some (some (k, v)) → l[j]? = some (some (k, v')) → i = j := by
      intro i j k v v' hi hj
      have := hu (i + 1) (j + 1) k v v' (by simpa using hi) (by simpa using hj)
      omega
    cases a with
    | none => simpa [List.filterMap_cons] using ih hu'
    | some e =>
      obtain ⟨k, v⟩ := e
      simp only [List.filterMap_cons, id, List.map_cons, List.nodup_cons]
      refine ⟨?_, ih hu'⟩
      intro hm
      obtain ⟨⟨k', v'⟩, hm', rfl⟩ := List.mem_map.mp hm
      obtain ⟨a, ha, ha'⟩ := List.mem_filterMap.mp hm'
      simp only [id] at ha'
      subst ha'
      obtain ⟨j, hj⟩ := List.mem_iff_getElem?.mp ha
      have := hu 0 (j + 1) k' v v' (by simp) (by simpa using hj)
      omega

/-- no key in two slots, as a statement about the slab seen as a map -/
theorem RWF.nodup {hash : Key → Nat} {r : Ring} (h : RWF hash r) :
    ((ringEntries r).map (·.1)).Nodup :=
  rl_nodup_of_uniq r.slots fun i j k v v' hi hj =>
    h.uniq i j k v v' ((rl_slot_iff r i _).mpr hi) ((rl_slot_iff r j _).mpr hj)

/-- with an injective hash the slot the index resolves holds the key itself -/
theorem RWF.lookup_holds {c : RingCfg} (hinj : ∀ a b : Key, c.hash a = c.hash b → a = b) {r : Ring}
    (h : RWF c.hash r) {k : Key} {i : Nat} (hl : ringLookup c r k = some i) :
    ∃ v, r.slot i = some (k, v) := by
  obtain ⟨k', v, hs, hh⟩ := h.points _ _ hl
  have := hinj _ _ hh
  subst this
  exact ⟨v, hs⟩

theorem rl_holds_of_slot {r : Ring} {k : Key} {i : Nat} {v : Val} (h : r.slot i = some (k, v)) :
    ringHolds r k i = true := by
  simp [ringHolds, h]

/-- `CacheRing::contains` is membership in the slab as a map -/
theorem RWF.contains_eq {c : RingCfg} (hinj : ∀ a b : Key, c.hash a = c.hash b → a = b) {r : Ring}
    (h : RWF c.hash r) (k : Key) : ringContains c r k = (aget (ringEntries r) k).isSome := by
  cases hg : aget (ringEntries r) k with
  | none =>
    unfold ringContains
    cases hl : ringLookup c r k with
    | none => rfl
    | some i =>
      obtain ⟨v, hv⟩ := h.lookup_holds hinj hl
      have := (rl_aget_entries h.uniq k v).mpr ⟨i, hv⟩
      rw [hg] at this
      cases this
  | some v =>
    obtain ⟨i, hi⟩ := (rl_aget_entries h.uniq k v).mp hg
    have hl : ringLookup c r k = some i := h.indexed i k v hi
    simp [ringContains, hl, rl_holds_of_slot hi]

/-- `get` with the key comparison returns only the key's current value -/
theorem RWF.read_some {c : RingCfg} (hc : c.keyCheck = true) {r : Ring} {hash : Key → Nat}
    (h : RWF hash r) {k : Key} {i : Nat} {v : Val} (hr : ringRead c r k i = some v) :
    aget (ringEntries r) k = some v :=
  (rl_aget_entries h.uniq k v).mpr ⟨i, ringRead_some hc hr⟩

/-- the ring after `(k, v)` went into slot `i` (empty, or holding `k`) and the index entry of
    `hash k` points at `i` -/
theorem RWF.setSome {hash : Key → Nat} (hinj : ∀ a b : Key, hash a = hash b → a = b) {r : Ring}
    (h : RWF hash r) {i : Nat} (hi : i < r.slots.length) (k : Key) (v : Val) (idx : List (Nat × Nat))
    (honly : ∀ j v', r.slot j = some (k, v') → j = i)
    (hold : ∀ k'' v'', r.slot i = some (k'', v'') → k'' = k)
    (hidx : ∀ x, aget idx x = if hash k = x then some i else aget r.index x) :
    RWF hash { slots := r.slots.set i (some (k, v)), index := idx } := by
  refine ⟨(rl_set_some h.uniq hi k v idx honly hold).1, ?_, ?_⟩
  · intro j k' v' hj
    rw [rl_slot_set r i _ idx hi] at hj
    dsimp only
    rw [hidx]
    by_cases ej : j = i
    · simp only [ej, if_true, Option.some.injEq, Prod.mk.injEq] at hj
      rw [← hj.1, ej]
      simp
    · simp only [ej, if_false] at hj
      by_cases eh : hash k = hash k'
      · have := hinj _ _ eh
        subst this
        exact absurd (honly j v' hj) ej
      · simp only [eh, if_false]
        exact h.indexed j k' v' hj
  · intro x j hx
    dsimp only at hx
    rw [hidx] at hx
    rw [rl_slot_set r i _ idx hi]
    by_cases eh : hash k = x
    · simp only [eh, if_true, Option.some.injEq] at hx
      subst hx
      exact ⟨k, v, by simp, eh⟩
    · simp only [eh, if_false] at hx
      obtain ⟨k', v', hs, hh⟩ := h.points x j hx
      by_cases ej : j = i
      · rw [ej] at hs
        have := hold k' v' hs
        subst this
        exact absurd hh eh
      · exact ⟨k', v', by simp only [ej, if_false]; exact hs, hh⟩

/-- `CacheRing::put` with room: the slab as a map gets `k ↦ v`, at most one empty slot is used -/
theorem RWF.put {c : RingCfg} (hinj : ∀ a b : Key, c.hash a = c.hash b → a = b) {r : Ring}
    (h : RWF c.hash r) (hf : 0 < rl_free r.slots) (k : Key) (v : Val) :
    RWF c.hash (ringPut c r k v) ∧
    (∀ k', aget (ringEntries (ringPut c r k v)) k' = aget (aset (ringEntries r) k v) k') ∧
    rl_free r.slots ≤ rl_free (ringPut c r k v).slots + 1 := by
  unfold ringPut
  cases hl : ringLookup c r k with
  | some i =>
    obtain ⟨v0, hv0⟩ := h.lookup_holds hinj hl
    have hi := rl_slot_lt hv0
    simp only [rl_holds_of_slot hv0, if_true]
    have honly : ∀ j v', r.slot j = some (k, v') → j = i := fun j v' hj => h.uniq j i k v' v0 hj hv0
    have hold : ∀ k'' v'', r.slot i = some (k'', v'') → k'' = k := by
      intro k'' v'' hs
      rw [hv0] at hs
      simp only [Option.some.injEq, Prod.mk.injEq] at hs
      exact hs.1.symm
    refine ⟨h.setSome hinj hi k v r.index honly hold ?_, (rl_set_some h.uniq hi k v r.index honly hold).2,
      rl_free_set _ _ _⟩
    intro x
    by_cases e : c.hash k = x
    · simp only [e, if_true]
      rw [← e]
      exact hl
    · simp only [e, if_false]
  | none =>
    dsimp only
    obtain ⟨j, hj1, hj2⟩ := rl_firstEmpty r.slots 0 hf
    have hfs : findSlot c r = j := by
      simp [findSlot, hj1]
    have hsj : r.slot j = none := rl_slot_none_of_empty hj2
    have hi : j < r.slots.length := (List.getElem?_eq_some_iff.mp hj2).1
    have heq : ringInsert c r k v =
        { slots := r.slots.set j (some (k, v)), index := aset r.index (c.hash k) j } := by
      simp only [ringInsert, hfs, hsj]
    rw [heq]
    have honly : ∀ j' v', r.slot j' = some (k, v') → j' = j := by
      intro j' v' hs
      have := h.indexed j' k v' hs
      unfold ringLookup at hl
      rw [hl] at this
      cases this
    have hold : ∀ k'' v'', r.slot j = some (k'', v'') → k'' = k := by
      intro k'' v'' hs
      rw [hsj] at hs
      cases hs
    exact ⟨h.setSome hinj hi k v _ honly hold (fun x => aget_aset _ _ _ _),
      (rl_set_some h.uniq hi k v _ honly hold).2, rl_free_set _ _ _⟩

/-- `CacheRing::delete` of a present key: the slab as a map loses `k` -/
theorem RWF.delete {c : RingCfg} (hinj : ∀ a b : Key, c.hash a = c.hash b → a = b) {r : Ring}
    (h : RWF c.hash r) {k : Key} {v0 : Val} (hp : aget (ringEntries r) k = some v0) :
    RWF c.hash (ringDelete c r k).1 ∧
    (∀ k', aget (ringEntries (ringDelete c r k).1) k' = aget (aerase (ringEntries r) k) k') ∧
    rl_free r.slots ≤ rl_free (ringDelete c r k).1.slots + 1 := by
  obtain ⟨i, hi⟩ := (rl_aget_entries h.uniq k v0).mp hp
  have hl : ringLookup c r k = some i := h.indexed i k v0 hi
  have hlt := rl_slot_lt hi
  have heq : (ringDelete c r k).1 = { slots := r.slots.set i none, index := aerase r.index (c.hash k) } := by
    simp [ringDelete, hl, rl_holds_of_slot hi]
  rw [heq]
  refine ⟨⟨(rl_set_none h.uniq hi _).1, ?_, ?_⟩, (rl_set_none h.uniq hi _).2, rl_free_set _ _ _⟩
  · intro j k' v' hj
    rw [rl_slot_set r i _ _ hlt] at hj
    dsimp only
    by_cases ej : j = i
    · simp [ej] at hj
    · simp only [ej, if_false] at hj
      rw [aget_aerase]
      by_cases eh : c.hash k = c.hash k'
      · have := hinj _ _ eh
        subst this
        exact absurd (h.uniq j i k v' v0 hj hi) ej
      · simp only [eh, if_false]
        exact h.indexed j k' v' hj
  · intro x j hx
    dsimp only at hx
    rw [aget_aerase] at hx
    by_cases eh : c.hash k = x
    · simp [eh] at hx
    · simp only [eh, if_false] at hx
      obtain ⟨k', v', hs, hh⟩ := h.points x j hx
      have ej : j ≠ i := by
        intro ej
        rw [ej, hi] at hs
        simp only [Option.some.injEq, Prod.mk.injEq] at hs
        rw [hs.1] at eh
        exact eh hh
      refine ⟨k', v', ?_, hh⟩
      rw [rl_slot_set r i _ _ hlt]
      simp only [ej, if_false]
      exact hs

/-! ### one atomic step of the fine machine against the specification -/

theorem rl_seqValid_append (σ : Spec) (l : List OpRec) (r : OpRec) :
    SeqValid σ (l ++ [r]) ↔
      SeqValid σ l ∧ specOk (specRun σ (l.map (·.op))) r.op r.res := by
  induction l generalizing σ with
  | nil => simp [SeqValid, specRun]
  | cons a l ih =>
    simp only [List.cons_append, SeqValid, List.map_cons, specRun, List.foldl_cons]
    rw [ih]
    simp only [specRun, and_assoc]

/-- an operation on a key that is no cache key never touches the cache slab -/
theorem rl_stepOp_cache_irrel (b : Store) (cc : List (Key × Val)) (op : Op) (hs : op.singleStep)
    (hk : op.cacheKey? = none) (hns : ∀ p, op ≠ .scan p) :
    stepOp { b with cache := cc } op .start =
      ({ (stepOp b op .start).1 with cache := cc }, (stepOp b op .start).2) := by
  cases op with
  | scan p => exact absurd rfl (hns p)
  | put k v =>
    have hc : k.cls ≠ .cache := by
      intro e; simp [Op.cacheKey?, Op.key?, e] at hk
    cases hcl : k.cls <;> simp_all [stepOp, routerPut, Op.singleStep]
  | get k =>
    have hc : k.cls ≠ .cache := by
      intro e; simp [Op.cacheKey?, Op.key?, e] at hk
    cases hcl : k.cls <;> simp_all [stepOp, routerGet, mdGet, Op.singleStep]
  | exists_ k =>
    have hc : k.cls ≠ .cache := by
      intro e; simp [Op.cacheKey?, Op.key?, e] at hk
    cases hcl : k.cls <;> simp_all [stepOp, existsNow, Op.singleStep]
  | delete k =>
    have hc : k.cls ≠ .cache := by
      intro e; simp [Op.cacheKey?, Op.key?, e] at hk
    cases hcl : k.cls <;> simp_all [stepOp, routerDelete, existsNow, Op.singleStep] <;>
      split <;> rfl
  | putD k v =>
    have hc : k.cls = .cache := hs
    simp [Op.cacheKey?, Op.key?, hc] at hk
  | delD k =>
    have hc : k.cls = .cache := hs
    simp [Op.cacheKey?, Op.key?, hc] at hk

theorem rl_stepOpR_cache (c : RingCfg) (rs : RStore) (op : Op) {k : Key} (hk : op.cacheKey? = some k) :
    stepOpR c rs op (.hook .start) = ringStep c rs op := by
  cases op with
  | scan p => simp [Op.cacheKey?, Op.key?] at hk
  | _ => simp [stepOpR, hk]

theorem rl_stepOpR_base (c : RingCfg) (rs : RStore) (op : Op) (hk : op.cacheKey? = none)
    (hns : ∀ p, op ≠ .scan p) :
    stepOpR c rs op (.hook .start) =
      ({ rs with base := (stepOp rs.base op .start).1 }, (stepOp rs.base op .start).2.liftR) := by
  cases op with
  | scan p => exact absurd rfl (hns p)
  | _ => simp [stepOpR, hk]

/-- steps on keys that are no cache keys: `Model.stepOp` on the other slabs, seen through the view -/
theorem rl_step_base {c : RingCfg} {rs : RStore} {σ : Spec} (habs : Abs rs.view σ) (op : Op)
    (hs : op.singleStep) (hsb : op.scanStr = true) (hk : op.cacheKey? = none)
    (hns : ∀ p, op ≠ .scan p) :
    ∃ rs' r, stepOpR c rs op (.hook .start) = (rs', .done r) ∧ resEquiv r (specRes σ op) ∧
      Abs rs'.view (specApply σ op) ∧ rs'.ring = rs.ring := by
  obtain ⟨s', r, hstep, hres, habs'⟩ := single_step_refines habs op hs hsb
  have hcomm := rl_stepOp_cache_irrel rs.base (ringEntries rs.ring) op hs hk hns
  have hv : rs.view = { rs.base with cache := ringEntries rs.ring } := rfl
  rw [hv, hcomm] at hstep
  simp only [Prod.mk.injEq] at hstep
  refine ⟨{ rs with base := (stepOp rs.base op .start).1 }, r, ?_, hres, ?_, rfl⟩
  · rw [rl_stepOpR_base c rs op hk hns, hstep.2]
    rfl
  · rw [← hstep.1] at habs'
    exact habs'

theorem rl_cacheKey_some {op : Op} {k : Key} (hk : op.key? = some k) (hc : k.cls = .cache) :
    op.cacheKey? = some k := by
  simp [Op.cacheKey?, hk, hc]

theorem rl_cacheKey_none {op : Op} {k : Key} (hk : op.key? = some k) (hc : k.cls ≠ .cache) :
    op.cacheKey? = none := by
  simp [Op.cacheKey?, hk, hc]

/-- the view after the ring changed -/
theorem rl_abs_ring {rs : RStore} {σ' : Spec} {r' : Ring} {cache' : List (Key × Val)}
    (h : Abs { rs.view with cache := cache' } σ')
    (he : ∀ k, aget (ringEntries r') k = aget cache' k) :
    Abs ({ rs with ring := r' } : RStore).view σ' :=
  rl_abs_congr h rfl rfl he

/-- the put of a cache key -/
theorem rl_step_put {c : RingCfg} (hinj : ∀ a b : Key, c.hash a = c.hash b → a = b)
    {rs : RStore} {σ : Spec} (habs : Abs rs.view σ) (hwf : RWF c.hash rs.ring)
    (hf : 0 < rl_free rs.ring.slots) (k : Key) (v : Val) (hc : k.cls = .cache) :
    Abs ({ rs with ring := ringPut c rs.ring k v } : RStore).view (aset σ k v) ∧
    RWF c.hash (ringPut c rs.ring k v) ∧
    rl_free rs.ring.slots ≤ rl_free (ringPut c rs.ring k v).slots + 1 := by
  obtain ⟨h1, h2, h3⟩ := hwf.put hinj hf k v
  exact ⟨rl_abs_ring (habs.setCache k v hc) h2, h1, h3⟩

/-- the delete of a cache key -/
theorem rl_step_delete {c : RingCfg} (hinj : ∀ a b : Key, c.hash a = c.hash b → a = b)
    {rs : RStore} {σ : Spec} (habs : Abs rs.view σ) (hwf : RWF c.hash rs.ring)
    (k : Key) (hc : k.cls = .cache) :
    ∃ rs' r, (if ringContains c rs.ring k then
        (({ rs with ring := (ringDelete c rs.ring k).1 } : RStore), ROutcome.done .ok)
        else (rs, .done .notFound)) = (rs', .done r) ∧
      resEquiv r (specRes σ (.delete k)) ∧ Abs rs'.view (specApply σ (.delete k)) ∧
      RWF c.hash rs'.ring ∧ rl_free rs.ring.slots ≤ rl_free rs'.ring.slots + 1 := by
  have hg := habs.get k
  simp only [hc, if_true] at hg
  have hv : rs.view.cache = ringEntries rs.ring := rfl
  rw [hv] at hg
  rw [hwf.contains_eq hinj k]
  cases hp : aget (ringEntries rs.ring) k with
  | none =>
    refine ⟨rs, .notFound, by simp, ?_, ?_, hwf, Nat.le_succ _⟩
    · simp [specRes, specStep, hg, hp, resEquiv]
    · simpa [specApply, specStep, hg, hp] using habs
  | some v0 =>
    obtain ⟨h1, h2, h3⟩ := hwf.delete hinj hp
    refine ⟨{ rs with ring := (ringDelete c rs.ring k).1 }, .ok, by simp, ?_, ?_, h1, h3⟩
    · simp [specRes, specStep, hg, hp, resEquiv]
    · have := rl_abs_ring (habs.delCache k hc) h2
      simpa [specApply, specStep, hg, hp] using this

/-- the FIRST step of an operation: it completes with a result the specification allows and the
    abstraction, the ring's well-formedness and (up to one slot) the room are kept - or it is the
    index lookup of a `get` of a cache key that found a slot number -/
theorem rl_step_start {c : RingCfg} (hinj : ∀ a b : Key, c.hash a = c.hash b → a = b)
    {rs : RStore} {σ : Spec} (habs : Abs rs.view σ) (hwf : RWF c.hash rs.ring)
    (hf : 0 < rl_free rs.ring.slots) (op : Op) (hs : op.singleStep) (hsb : op.scanStr = true) :
    (∃ i k, op = .get k ∧ k.cls = .cache ∧
      stepOpR c rs op (.hook .start) = (rs, .cont (.ringGetAfterIndex i))) ∨
    (∃ rs' r, stepOpR c rs op (.hook .start) = (rs', .done r) ∧ specOk σ op r ∧
      Abs rs'.view (specApply σ op) ∧ RWF c.hash rs'.ring ∧
      rl_free rs.ring.slots ≤ rl_free rs'.ring.slots + 1) := by
  have hbase : ∀ k, op.key? = some k → k.cls ≠ .cache →
      ∃ rs' r, stepOpR c rs op (.hook .start) = (rs', .done r) ∧ specOk σ op r ∧
        Abs rs'.view (specApply σ op) ∧ RWF c.hash rs'.ring ∧
        rl_free rs.ring.slots ≤ rl_free rs'.ring.slots + 1 := by
    intro k hk hc
    have hns : ∀ p, op ≠ .scan p := by
      intro p e; rw [e] at hk; cases hk
    obtain ⟨rs', r, h1, h2, h3, h4⟩ := rl_step_base (c := c) habs op hs hsb (rl_cacheKey_none hk hc) hns
    exact ⟨rs', r, h1, Or.inl h2, h3, h4 ▸ hwf, by rw [h4]; exact Nat.le_succ _⟩
  cases op with
  | scan p =>
    right
    refine ⟨rs, .keys (scanNow rs.view p), by simp [stepOpR], Or.inl ?_,
      by simpa [specApply, specStep] using habs, hwf, Nat.le_succ _⟩
    simp only [specRes, specStep, resEquiv]
    exact ⟨fun k hk => (habs.scan p hsb k).mp hk, fun k hk => (habs.scan p hsb k).mpr hk⟩
  | put k v =>
    right
    by_cases hc : k.cls = .cache
    · obtain ⟨h1, h2, h3⟩ := rl_step_put hinj habs hwf hf k v hc
      refine ⟨{ rs with ring := ringPut c rs.ring k v }, .ok, ?_, Or.inl ?_, ?_, h2, h3⟩
      · rw [rl_stepOpR_cache c rs _ (rl_cacheKey_some rfl hc)]; rfl
      · simp [specRes, specStep, resEquiv]
      · simpa [specApply, specStep] using h1
    · exact hbase k rfl hc
  | putD k v =>
    right
    have hc : k.cls = .cache := hs
    obtain ⟨h1, h2, h3⟩ := rl_step_put hinj habs hwf hf k v hc
    refine ⟨{ rs with ring := ringPut c rs.ring k v }, .ok, ?_, Or.inl ?_, ?_, h2, h3⟩
    · rw [rl_stepOpR_cache c rs _ (rl_cacheKey_some rfl hc)]; rfl
    · simp [specRes, specStep, resEquiv]
    · simpa [specApply, specStep] using h1
  | get k =>
    by_cases hc : k.cls = .cache
    · rw [rl_stepOpR_cache c rs _ (rl_cacheKey_some rfl hc)]
      simp only [ringStep]
      cases hl : ringLookup c rs.ring k with
      | some i => exact Or.inl ⟨i, k, rfl, hc, rfl⟩
      | none =>
        right
        exact ⟨rs, .notFound, rfl, Or.inr hc, by simpa [specApply, specStep] using habs, hwf,
          Nat.le_succ _⟩
    · exact Or.inr (hbase k rfl hc)
  | exists_ k =>
    right
    by_cases hc : k.cls = .cache
    · rw [rl_stepOpR_cache c rs _ (rl_cacheKey_some rfl hc)]
      refine ⟨rs, .bool (ringContains c rs.ring k), rfl, ?_,
        by simpa [specApply, specStep] using habs, hwf, Nat.le_succ _⟩
      have hg := habs.get k
      simp only [hc, if_true] at hg
      have hv : rs.view.cache = ringEntries rs.ring := rfl
      left
      rw [hwf.contains_eq hinj k, ← hv, ← hg]
      simp [specRes, specStep, resEquiv]
    · exact hbase k rfl hc
  | delete k =>
    right
    by_cases hc : k.cls = .cache
    · rw [rl_stepOpR_cache c rs _ (rl_cacheKey_some rfl hc)]
      obtain ⟨rs', r, h1, h2, h3, h4, h5⟩ := rl_step_delete hinj habs hwf k hc
      exact ⟨rs', r, h1, Or.inl h2, h3, h4, h5⟩
    · exact hbase k rfl hc
  | delD k =>
    right
    have hc : k.cls = .cache := hs
    rw [rl_stepOpR_cache c rs _ (rl_cacheKey_some rfl hc)]
    obtain ⟨rs', r, h1, h2, h3, h4, h5⟩ := rl_step_delete hinj habs hwf k hc
    exact ⟨rs', r, h1, Or.inl h2, h3, h4, h5⟩

/-- the SECOND step of a `get` of a cache key (the slot read with the key comparison): the key's
    CURRENT value, or NotFound -/
theorem rl_step_after {c : RingCfg} (hc : c.keyCheck = true) {rs : RStore} {σ : Spec}
    (habs : Abs rs.view σ) (hwf : RWF c.hash rs.ring) (k : Key) (hk : k.cls = .cache) (i : Nat) :
    ∃ r, stepOpR c rs (.get k) (.ringGetAfterIndex i) = (rs, .done r) ∧ specOk σ (.get k) r := by
  simp only [stepOpR]
  cases hr : ringRead c rs.ring k i with
  | none => exact ⟨.notFound, rfl, Or.inr hk⟩
  | some v =>
    refine ⟨.found v, rfl, Or.inl ?_⟩
    have hg := habs.get k
    simp only [hk, if_true] at hg
    have hv : rs.view.cache = ringEntries rs.ring := rfl
    rw [hv, hwf.read_some hc hr] at hg
    simp [specRes, specStep, hg, resEquiv]

/-! ### the invariant of a run -/

/-- where a thread may be parked: at the entry of its next operation, or between the two lock
    sections of a `get` of a cache key it invoked at an earlier step -/
def rl_ThreadOk (clock : Nat) (th : RThread) : Prop :=
  (∀ op ∈ th.ops, op.singleStep ∧ op.scanStr = true) ∧
  (th.pc = .hook .start ∨
    ∃ i k rest, th.pc = .ringGetAfterIndex i ∧ th.ops = .get k :: rest ∧ k.cls = .cache ∧ th.inv < clock)

theorem rl_ThreadOk.mono {clock : Nat} {th : RThread} (h : rl_ThreadOk clock th) :
    rl_ThreadOk (clock + 1) th := by
  refine ⟨h.1, ?_⟩
  rcases h.2 with h2 | ⟨i, k, rest, h1, h2, h3, h4⟩
  · exact Or.inl h2
  · exact Or.inr ⟨i, k, rest, h1, h2, h3, Nat.lt_succ_of_lt h4⟩

structure RLInv (hash : Key → Nat) (cap : Nat) (sys : RSys) : Prop where
  abs : Abs sys.store.view (specRun [] (sys.hist.map (·.op)))
  wf : RWF hash sys.store.ring
  room : cap ≤ rl_free sys.store.ring.slots + sys.clock
  valid : SeqValid [] sys.hist
  threads : ∀ th ∈ sys.threads, rl_ThreadOk sys.clock th
  times : ∀ r ∈ sys.hist, r.inv ≤ r.ret ∧ r.ret < sys.clock
  sorted : sys.hist.Pairwise (fun a b => a.ret < b.ret)

theorem RLInv.init (hash : Key → Nat) (cap : Nat) (walOn : Bool) (progs : List ThreadProgram)
    (h : ∀ p ∈ progs, ∀ op ∈ p, op.singleStep ∧ op.scanStr = true) :
    RLInv hash cap (initRSys cap walOn progs) := by
  constructor
  · have he : ringEntries (Ring.new cap) = [] := by
      unfold ringEntries Ring.new
      refine List.filterMap_eq_nil_iff.mpr ?_
      intro a ha
      rw [List.eq_of_mem_replicate ha]
      rfl
    refine rl_abs_congr (Abs.init walOn) rfl rfl ?_
    intro k
    show aget (ringEntries (Ring.new cap)) k = _
    rw [he]
  · exact RWF.new hash cap
  · simp [initRSys, Ring.new, rl_free_replicate]
  · trivial
  · intro th hth
    simp only [initRSys, List.mem_map] at hth
    obtain ⟨p, hp, rfl⟩ := hth
    exact ⟨h p hp, Or.inl rfl⟩
  · intro r hr; simp [initRSys] at hr
  · simp [initRSys]

/-- the part of the invariant that a completed operation extends -/
theorem RLInv.done {hash : Key → Nat} {cap : Nat} {sys : RSys} (h : RLInv hash cap sys)
    {t : Nat} {th : RThread} {op : Op} {rest : List Op} (hops : th.ops = op :: rest)
    (hmem : th ∈ sys.threads) {s' : RStore} {r : Res} {inv : Nat} {tr : List (Nat × Op × RPC)}
    (hinv : inv ≤ sys.clock)
    (hok : specOk (specRun [] (sys.hist.map (·.op))) op r)
    (habs : Abs s'.view (specApply (specRun [] (sys.hist.map (·.op))) op))
    (hwf : RWF hash s'.ring) (hroom : rl_free sys.store.ring.slots ≤ rl_free s'.ring.slots + 1) :
    RLInv hash cap
      { store := s',
        threads := sys.threads.set t { ops := rest, pc := .hook .start, idx := th.idx + 1, inv := 0 },
        hist := sys.hist ++ [{ t := t, i := th.idx, op := op, res := r, inv := inv, ret := sys.clock }],
        clock := sys.clock + 1, trace := tr } := by
  have hro := h.room
  constructor
  · simp only [List.map_append, List.map_cons, List.map_nil, specRun_append]
    exact habs
  · exact hwf
  · dsimp only; omega
  · exact (rl_seqValid_append _ _ _).mpr ⟨h.valid, hok⟩
  · intro th' hm
    rcases List.mem_or_eq_of_mem_set hm with h1 | h1
    · exact (h.threads th' h1).mono
    · subst h1
      exact ⟨fun o ho => (h.threads th hmem).1 o (by simp [hops, ho]), Or.inl rfl⟩
  · intro x hx
    simp only [List.mem_append, List.mem_singleton] at hx
    rcases hx with hx | hx
    · exact ⟨(h.times x hx).1, Nat.lt_succ_of_lt (h.times x hx).2⟩
    · subst hx; exact ⟨hinv, Nat.lt_succ_self _⟩
  · refine List.pairwise_append.mpr ⟨h.sorted, by simp, ?_⟩
    intro a ha b hb
    simp only [List.mem_singleton] at hb
    subst hb
    exact (h.times a ha).2

theorem RLInv.step {c : RingCfg} (hc : c.keyCheck = true)
    (hinj : ∀ a b : Key, c.hash a = c.hash b → a = b) {cap : Nat} {sys : RSys}
    (h : RLInv c.hash cap sys) (hlt : sys.clock < cap) (t : Nat) :
    RLInv c.hash cap (stepR c sys t) ∧ (stepR c sys t).clock ≤ sys.clock + 1 := by
  unfold stepR
  split
  · exact ⟨h, Nat.le_succ _⟩
  · rename_i th hth
    split
    · exact ⟨h, Nat.le_succ _⟩
    · rename_i op rest hops
      split
      · exact ⟨h, Nat.le_succ _⟩
      · have hmem : th ∈ sys.threads := List.mem_of_getElem? hth
        obtain ⟨hss, hpc⟩ := h.threads th hmem
        have hop := hss op (by simp [hops])
        have hro := h.room
        have hf : 0 < rl_free sys.store.ring.slots := by omega
        rcases hpc with hpc | ⟨i, k, rest', hpc, hops', hk, hinv⟩
        · rcases rl_step_start hinj h.abs h.wf hf op hop.1 hop.2 with
            ⟨i, k, hopk, hk, hstep⟩ | ⟨rs', r, hstep, hok, habs, hwf, hroom⟩
          · simp only [hpc, hstep, if_true]
            refine ⟨?_, Nat.le_refl _⟩
            constructor
            · exact h.abs
            · exact h.wf
            · dsimp only; omega
            · exact h.valid
            · intro th' hm
              rcases List.mem_or_eq_of_mem_set hm with h1 | h1
              · exact (h.threads th' h1).mono
              · subst h1
                exact ⟨hss, Or.inr ⟨i, k, rest, rfl, by rw [hops, hopk], hk, Nat.lt_succ_self _⟩⟩
            · intro x hx
              exact ⟨(h.times x hx).1, Nat.lt_succ_of_lt (h.times x hx).2⟩
            · exact h.sorted
          · simp only [hpc, hstep, if_true]
            exact ⟨h.done hops hmem (Nat.le_refl _) hok habs hwf hroom, Nat.le_refl _⟩
        · rw [hops] at hops'
          simp only [List.cons.injEq] at hops'
          obtain ⟨hopk, _⟩ := hops'
          subst hopk
          obtain ⟨r, hstep, hok⟩ := rl_step_after hc h.abs h.wf k hk i
          simp only [hpc, hstep, reduceCtorEq, if_false]
          refine ⟨h.done hops hmem (Nat.le_of_lt hinv) hok ?_ h.wf (Nat.le_succ _), Nat.le_refl _⟩
          simpa [specApply, specStep] using h.abs

theorem RLInv.run {c : RingCfg} (hc : c.keyCheck = true)
    (hinj : ∀ a b : Key, c.hash a = c.hash b → a = b) {cap : Nat} {sys : RSys}
    (h : RLInv c.hash cap sys) (sched : List Nat) (hlen : sys.clock + sched.length ≤ cap) :
    RLInv c.hash cap (runFromR c sys sched) := by
  induction sched generalizing sys with
  | nil => exact h
  | cons t rest ih =>
    simp only [List.length_cons] at hlen
    obtain ⟨h1, h2⟩ := h.step hc hinj (by omega) t
    exact ih h1 (by omega)

theorem RLInv.respectsRealTime {hash : Key → Nat} {cap : Nat} {sys : RSys} (h : RLInv hash cap sys) :
    RespectsRealTime sys.hist := by
  refine List.Pairwise.imp_of_mem ?_ h.sorted
  intro a b ha _ hab hba
  have := (h.times a ha).1
  omega

theorem RLInv.linearizable {hash : Key → Nat} {cap : Nat} {sys : RSys} (h : RLInv hash cap sys) :
    Linearizable sys.hist :=
  ⟨sys.hist, List.Perm.refl _, h.valid, h.respectsRealTime⟩

/-- THE CODE (`keyCheck`), an injective hash, a schedule no longer than the ring capacity (no
    eviction): every interleaving of single-step operations and two-step `get`s of cache keys is
    linearizable against the key ↦ value specification, in the order of completion -/
theorem ring_run_linearizable (hash : Key → Nat) (hinj : ∀ a b : Key, hash a = hash b → a = b)
    (pick : List (Option (Key × Val)) → Nat) (cap : Nat) (walOn : Bool)
    (progs : List ThreadProgram) (sched : List Nat)
    (hops : ∀ p ∈ progs, ∀ op ∈ p, op.singleStep ∧ op.scanStr = true)
    (hcap : sched.length ≤ cap) :
    let sys := runSchedR { hash := hash, pick := pick, keyCheck := true } cap walOn progs sched
    SeqValid [] sys.hist ∧ RespectsRealTime sys.hist ∧ Linearizable sys.hist ∧
    Abs sys.store.view (specRun [] (sys.hist.map (·.op))) := by
  intro sys
  have h : RLInv hash cap sys :=
    RLInv.run (c := { hash := hash, pick := pick, keyCheck := true }) rfl hinj
      (RLInv.init hash cap walOn progs hops) sched (by simpa [initRSys] using hcap)
  exact ⟨h.valid, h.respectsRealTime, h.linearizable, h.abs⟩


/-! ### non-vacuity -/

/-- an injective hash: the bytes of the key as one number (`2^a * odd`, nested) -/
def rl_enc : List Nat → Nat
  | [] => 0
  | a :: l => 2 ^ a * (2 * rl_enc l + 1)

theorem rl_pow_odd_inj : ∀ (a b x y : Nat), 2 ^ a * (2 * x + 1) = 2 ^ b * (2 * y + 1) → a = b ∧ x = y
  | 0, 0, x, y, h => by
      simp only [Nat.pow_zero, Nat.one_mul] at h
      exact ⟨rfl, by omega⟩
  | 0, b + 1, x, y, h => by
      have e : 2 ^ (b + 1) * (2 * y + 1) = 2 * (2 ^ b * (2 * y + 1)) := by
        rw [Nat.pow_succ, Nat.mul_comm (2 ^ b) 2, Nat.mul_assoc]
      rw [e] at h
      simp only [Nat.pow_zero, Nat.one_mul] at h
      omega
  | a + 1, 0, x, y, h => by
      have e : 2 ^ (a + 1) * (2 * x + 1) = 2 * (2 ^ a * (2 * x + 1)) := by
        rw [Nat.pow_succ, Nat.mul_comm (2 ^ a) 2, Nat.mul_assoc]
      rw [e] at h
      simp only [Nat.pow_zero, Nat.one_mul] at h
      omega
  | a + 1, b + 1, x, y, h => by
      have e : ∀ n z, 2 ^ (n + 1) * z = 2 * (2 ^ n * z) := by
        intro n z
        rw [Nat.pow_succ, Nat.mul_comm (2 ^ n) 2, Nat.mul_assoc]
      rw [e, e] at h
      obtain ⟨h1, h2⟩ := rl_pow_odd_inj a b x y (Nat.eq_of_mul_eq_mul_left (by decide) h)
      exact ⟨by rw [h1], h2⟩

theorem rl_enc_inj : ∀ l m : List Nat, rl_enc l = rl_enc m → l = m
  | [], [], _ => rfl
  | [], b :: m, h => by
      have : 0 < 2 ^ b * (2 * rl_enc m + 1) := Nat.mul_pos (Nat.two_pow_pos b) (by omega)
      simp only [rl_enc] at h
      omega
  | a :: l, [], h => by
      have : 0 < 2 ^ a * (2 * rl_enc l + 1) := Nat.mul_pos (Nat.two_pow_pos a) (by omega)
      simp only [rl_enc] at h
      omega
  | a :: l, b :: m, h => by
      simp only [rl_enc] at h
      obtain ⟨h1, h2⟩ := rl_pow_odd_inj _ _ _ _ h
      rw [h1, rl_enc_inj l m h2]

/-- a hash function without collisions -/
def rl_hashInj (k : Key) : Nat := rl_enc k.bytes

theorem rl_hashInj_inj (a b : Key) (h : rl_hashInj a = rl_hashInj b) : a = b := by
  cases a; cases b
  simp only [Key.mk.injEq]
  exact rl_enc_inj _ _ h

/-- a two-step `get` that OVERLAPS a put of its key: put 1; the reader's index lookup; the other
    thread's put 2 (ret 2, inside the get's interval 1..3); the reader's slot read finds 2 -/
def rl_overlapProgs : List ThreadProgram :=
  [[.put kC1 ⟨1, .none⟩, .get kC1], [.put kC1 ⟨2, .none⟩]]

def rl_overlapSched : List Nat := [0, 0, 1, 0]

def rl_overlapHist : List OpRec :=
  [{ t := 0, i := 0, op := .put kC1 ⟨1, .none⟩, res := .ok, inv := 0, ret := 0 },
   { t := 1, i := 0, op := .put kC1 ⟨2, .none⟩, res := .ok, inv := 2, ret := 2 },
   { t := 0, i := 1, op := .get kC1, res := .found ⟨2, .none⟩, inv := 1, ret := 3 }]

/-- the run under the hash of the witness programs of `Ring.lean` (injective on the keys used,
    not on all keys): the concrete history, and it is a legal sequential execution -/
example :
    let sys := runSchedR (cfgOf hashLastByte true) 4 false rl_overlapProgs rl_overlapSched
    sys.hist = rl_overlapHist ∧ SeqValid [] sys.hist ∧ rl_overlapSched.length ≤ 4 ∧
    (∀ p ∈ rl_overlapProgs, ∀ op ∈ p, op.singleStep ∧ op.scanStr = true) := by
  decide

/-- the theorem instantiated: its hypotheses are satisfiable (an injective hash exists) and the
    run it speaks about contains the overlapping two-step `get` -/
example :
    let sys := runSchedR { hash := rl_hashInj, pick := fun _ => 0, keyCheck := true } 4 false
      rl_overlapProgs rl_overlapSched
    sys.hist = rl_overlapHist ∧
    (SeqValid [] sys.hist ∧ RespectsRealTime sys.hist ∧ Linearizable sys.hist ∧
      Abs sys.store.view (specRun [] (sys.hist.map (·.op)))) :=
  ⟨by decide,
   ring_run_linearizable rl_hashInj rl_hashInj_inj (fun _ => 0) 4 false rl_overlapProgs
     rl_overlapSched (by decide) (by decide)⟩


end Neumann.KV
