/-
  C11 — the shared store under concurrency.

  Model of `tensor_store::SlabRouter` / `TensorStore` (repo: tensor_store/src/{lib.rs,
  slab_router.rs, metadata_slab.rs, entity_index.rs, embedding_slab.rs, cache_ring.rs}) at the
  granularity of the `verif::yield_point` hooks: a public operation is a small state machine
  (`PC`); one transition of it (`stepOp`) is the code that runs between two consecutive yield
  points of the real operation and is the ATOMIC STEP of the scheduler (`runSched`).

  Import-free, total, computable.  Mirrors the code that exists (not what it should do).
-/
namespace Neumann.KV

/-! ### keys, values -/

/-- `SlabRouter::KeyClass` (`plain` = `Metadata`) -/
inductive KeyClass where
  | plain | graph | table | cache | emb
  deriving DecidableEq, Repr

/-- a key: the UTF-8 bytes of the Rust `String` (every byte < 256; the model is total on any list) -/
structure Key where
  bytes : List Nat
  deriving DecidableEq, Repr

/-- `str::starts_with` on bytes: `p` is a prefix of `k` -/
def isPfx : List Nat → List Nat → Bool
  | [], _ => true
  | _ :: _, [] => false
  | a :: p, b :: k => a == b && isPfx p k

def pfxEmb : List Nat := [101, 109, 98, 58]              -- "emb:"
def pfxNode : List Nat := [110, 111, 100, 101, 58]       -- "node:"
def pfxEdge : List Nat := [101, 100, 103, 101, 58]       -- "edge:"
def pfxTable : List Nat := [116, 97, 98, 108, 101, 58]   -- "table:"
def pfxCache : List Nat := [95, 99, 97, 99, 104, 101, 58] -- "_cache:"
def pfxUser : List Nat := [117, 115, 101, 114, 58]       -- "user:" (one of the plain keys)

/-- `SlabRouter::classify_key`: the prefix decides, in this order -/
def classify (b : List Nat) : KeyClass :=
  if isPfx pfxEmb b then .emb
  else if isPfx pfxNode b || isPfx pfxEdge b then .graph
  else if isPfx pfxTable b then .table
  else if isPfx pfxCache b then .cache
  else .plain

def Key.cls (k : Key) : KeyClass := classify k.bytes

/-- the keys the harness contends on: `user:<d>`, `node:<d>`, `table:<d>`, `_cache:<d>`, `emb:<d>`
    (one decimal digit `d`; the driver renders every natural number) -/
def clsPrefix : KeyClass → List Nat
  | .plain => pfxUser | .graph => pfxNode | .table => pfxTable | .cache => pfxCache | .emb => pfxEmb

def mkKey (c : KeyClass) (d : Nat) : Key := ⟨clsPrefix c ++ [48 + d]⟩

/-- the `_embedding` field of a `TensorData`: absent, a vector of the slab's dimension (384) whose
    components all equal `t`, or a vector of another dimension -/
inductive VecF where
  | none | good (t : Nat) | bad (t : Nat)
  deriving DecidableEq, Repr

/-- a `TensorData`: field `m` (an integer tag, 0 = field absent) and `_embedding` -/
structure Val where
  tag : Nat
  vec : VecF
  deriving DecidableEq, Repr

/-! ### association lists (a `BTreeMap`/`HashMap` seen through get/insert/remove) -/

def aget {α β} [DecidableEq α] : List (α × β) → α → Option β
  | [], _ => none
  | (k', v) :: r, k => if k' = k then some v else aget r k

def aerase {α β} [DecidableEq α] (m : List (α × β)) (k : α) : List (α × β) :=
  m.filter (fun p => !decide (p.1 = k))

def aset {α β} [DecidableEq α] (m : List (α × β)) (k : α) (v : β) : List (α × β) :=
  (k, v) :: aerase m k

/-! ### entity index: vocabulary position = EntityId, `false` = tombstone -/

def idxGetAux : List (Key × Bool) → Key → Nat → Option Nat
  | [], _, _ => none
  | (k', live) :: r, k, i => if live ∧ k' = k then some i else idxGetAux r k (i + 1)

def idxGet (v : List (Key × Bool)) (k : Key) : Option Nat := idxGetAux v k 0

def idxGetOrCreate (v : List (Key × Bool)) (k : Key) : Nat × List (Key × Bool) :=
  match idxGet v k with
  | some i => (i, v)
  | none => (v.length, v ++ [(k, true)])

def idxRemove (v : List (Key × Bool)) (k : Key) : List (Key × Bool) :=
  match idxGet v k with
  | some i => v.set i (k, false)
  | none => v

def liveKeys (v : List (Key × Bool)) : List Key := (v.filter (·.2)).map (·.1)

/-! ### write-ahead log records -/

/-- `WalEntry` (the records `put_durable` / `delete_durable` write) -/
inductive Entry where
  | metaSet (k : Key) (v : Val)
  | metaDel (k : Key)
  | embSet (id : Nat) (vec : VecF)
  | embDel (id : Nat)
  | entRemove (k : Key)
  deriving DecidableEq, Repr

/-! ### the store: the slabs and the log -/

structure Store where
  md : List (Key × Val) := []       -- MetadataSlab (16 RwLock<BTreeMap> shards; one call = atomic)
  cache : List (Key × Val) := []    -- CacheRing as a map (eviction never fires: capacity 10 000)
  vocab : List (Key × Bool) := []   -- EntityIndex
  slab : List (Nat × Nat) := []     -- EmbeddingSlab: id ↦ vector tag
  wal : List Entry := []            -- the log file, in append order
  walOn : Bool := false             -- `SlabRouter.wal.is_some()`
  deriving Repr

/-- `if embeddings.set(id, vec).is_err() { embeddings.delete(id) }` / `else embeddings.delete(id)` -/
def slabPut (s : List (Nat × Nat)) (id : Nat) : VecF → List (Nat × Nat)
  | .good t => aset s id t
  | .bad _ => aerase s id
  | .none => aerase s id

/-! ### operations, results, program counters -/

inductive Op where
  | put (k : Key) (v : Val)
  | get (k : Key)
  | delete (k : Key)
  | exists_ (k : Key)
  | scan (p : List Nat)             -- the bytes of the prefix (any string; "" = everything)
  | putD (k : Key) (v : Val)        -- `put_durable`
  | delD (k : Key)                  -- `delete_durable`
  deriving DecidableEq, Repr

/-- the key an operation is on (a scan has none) -/
def Op.key? : Op → Option Key
  | .put k _ | .get k | .delete k | .exists_ k | .putD k _ | .delD k => some k
  | .scan _ => none

inductive Res where
  | ok | notFound
  | found (v : Val)
  | bool (b : Bool)
  | keys (ks : List Key)
  deriving DecidableEq, Repr

/-- where a thread is parked inside an operation = the yield point it is waiting at -/
inductive PC where
  | start                        -- `store.<op>` (entry of the TensorStore method)
  | putEmbAfterIndex (id : Nat)  -- `router.put.emb.after_index`
  | putEmbAfterVector            -- `router.put.emb.after_vector`
  | getEmbAfterIndex (id : Nat)  -- `router.get.emb.after_index`
  | getEmbAfterVector (t : Nat)  -- `router.get.emb.after_vector`
  | delEmbAfterVector            -- `router.delete.emb.after_vector`
  | delEmbAfterIndex             -- `router.delete.emb.after_index`
  | putDAfterLog                 -- `router.put_durable.after_log`
  | delDAfterLog                 -- `router.delete_durable.after_log`
  deriving DecidableEq, Repr

inductive Outcome where
  | cont (pc : PC)
  | done (r : Res)
  deriving DecidableEq, Repr

def mdGet (s : Store) (k : Key) : Res :=
  match aget s.md k with
  | some v => .found v
  | none => .notFound

/-- `SlabRouter::exists` -/
def existsNow (s : Store) (k : Key) : Bool :=
  match k.cls with
  | .emb => (idxGet s.vocab k).isSome || (aget s.md k).isSome
  | .cache => (aget s.cache k).isSome
  | _ => (aget s.md k).isSome

/-- THE SPECIFICATION of a prefix scan (and what `EntityIndex::scan_prefix` / `CacheRing::scan_prefix`
    compute): `key.starts_with(prefix)`, byte-wise -/
def pmatch (p : List Nat) (k : Key) : Bool := isPfx p k.bytes

/-! #### `MetadataSlab::scan`: one shard, a `BTreeMap` range -/

/-- `shard_index`: first byte mod 16 (the empty key lives in shard 0) -/
def shardOf : List Nat → Nat
  | [] => 0
  | b :: _ => b % 16

/-- `String`'s `Ord`: byte-wise lexicographic, `a ≤ b` -/
def bleq : List Nat → List Nat → Bool
  | [], _ => true
  | _ :: _, [] => false
  | x :: a, y :: b => decide (x < y) || (x == y && bleq a b)

/-- `a < b` -/
def blt (a b : List Nat) : Bool := !bleq b a

/-- the UTF-8 decoder of `core::str::from_utf8` as a state machine (Unicode table 3-7): which
    bytes may follow -/
inductive U8 where
  | s0    -- between characters
  | c1    -- one continuation byte 80..BF to come
  | c2    -- two, the next in 80..BF
  | c2a   -- two, the next in A0..BF (lead E0)
  | c2b   -- two, the next in 80..9F (lead ED: no surrogates)
  | c3    -- three, the next in 80..BF
  | c3a   -- three, the next in 90..BF (lead F0)
  | c3b   -- three, the next in 80..8F (lead F4)
  deriving DecidableEq, Repr

def u8step : U8 → Nat → Option U8
  | .s0, b =>
      if b < 0x80 then some .s0
      else if 0xC2 ≤ b ∧ b ≤ 0xDF then some .c1
      else if b = 0xE0 then some .c2a
      else if b = 0xED then some .c2b
      else if 0xE1 ≤ b ∧ b ≤ 0xEF then some .c2
      else if b = 0xF0 then some .c3a
      else if b = 0xF4 then some .c3b
      else if 0xF1 ≤ b ∧ b ≤ 0xF3 then some .c3
      else none
  | .c1, b => if 0x80 ≤ b ∧ b ≤ 0xBF then some .s0 else none
  | .c2, b => if 0x80 ≤ b ∧ b ≤ 0xBF then some .c1 else none
  | .c2a, b => if 0xA0 ≤ b ∧ b ≤ 0xBF then some .c1 else none
  | .c2b, b => if 0x80 ≤ b ∧ b ≤ 0x9F then some .c1 else none
  | .c3, b => if 0x80 ≤ b ∧ b ≤ 0xBF then some .c2 else none
  | .c3a, b => if 0x90 ≤ b ∧ b ≤ 0xBF then some .c2 else none
  | .c3b, b => if 0x80 ≤ b ∧ b ≤ 0x8F then some .c2 else none

def u8run : U8 → List Nat → Option U8
  | st, [] => some st
  | st, b :: r =>
      match u8step st b with
      | some st' => u8run st' r
      | none => none

/-- `String::from_utf8(bytes).is_ok()` -/
def validUtf8 (l : List Nat) : Bool := u8run .s0 l == some .s0

/-- the loop of `next_prefix` on the reversed bytes: drop trailing `0xFF`s, add one to the byte
    before them -/
def incLastRev : List Nat → Option (List Nat)
  | [] => none
  | last :: r => if last < 0xff then some ((last + 1) :: r) else incLastRev r

/-- the bytes `next_prefix` builds, before it converts them into a `String` -/
def incLast (p : List Nat) : Option (List Nat) := (incLastRev p.reverse).map List.reverse

/-- `metadata_slab::next_prefix`: "the smallest string greater than all strings starting with the
    prefix" - `None` when the prefix is empty, when every byte is `0xFF`, AND when the incremented
    bytes are not UTF-8 (`String::from_utf8(bytes).ok()`): a last byte `0x7F` becomes `0x80`, a last
    byte `0xBF` (every character whose code point is 63 mod 64: `?`+64n, e.g. `п` U+043F, `ÿ` U+00FF)
    becomes `0xC0` -/
def nextPrefix (p : List Nat) : Option (List Nat) :=
  match incLast p with
  | some e => if validUtf8 e then some e else none
  | none => none

/-- `MetadataSlab::scan(prefix)` lists key `k` of the slab (repo 27855097): the empty prefix reads
    every shard; any other prefix reads the ONE shard of its first byte and there the range
    `prefix .. end_key`, or - when `next_prefix` is `None` - `range(prefix ..)` taken WHILE the key
    starts with the prefix (on the sorted shard that is the filter:
    `ScanProps.take_while_on_sorted_range_is_the_prefix_filter`) -/
def mdMatch (p : List Nat) (k : Key) : Bool :=
  if p = [] then true else
  decide (shardOf k.bytes = shardOf p) &&
    (match nextPrefix p with
     | some e => bleq p k.bytes && blt k.bytes e
     | none => bleq p k.bytes && isPfx p k.bytes)

/-- `SlabRouter::scan`: metadata shard(s), then entity index, then cache ring (no yield point
    between the three reads: one step at the granularity of the hooks); a `HashSet` in the code -/
def scanNow (s : Store) (p : List Nat) : List Key :=
  (s.md.map (·.1)).filter (mdMatch p) ++ (liveKeys s.vocab).filter (pmatch p)
    ++ (s.cache.map (·.1)).filter (pmatch p)

/-- THE CODE BEFORE 27855097: without an end key, `range(prefix ..)` - THE REST OF THE SHARD -/
def mdMatchOld (p : List Nat) (k : Key) : Bool :=
  if p = [] then true else
  decide (shardOf k.bytes = shardOf p) &&
    (match nextPrefix p with
     | some e => bleq p k.bytes && blt k.bytes e
     | none => bleq p k.bytes)

def scanNowOld (s : Store) (p : List Nat) : List Key :=
  (s.md.map (·.1)).filter (mdMatchOld p) ++ (liveKeys s.vocab).filter (pmatch p)
    ++ (s.cache.map (·.1)).filter (pmatch p)

/-- a prefix on which the code before 27855097 answered by `starts_with`: the empty one, or a
    string (`&str`: UTF-8) whose `next_prefix` exists -/
def boundedPrefix (p : List Nat) : Bool := p.isEmpty || (validUtf8 p && (nextPrefix p).isSome)

/-- first step of `SlabRouter::put` (runs at `store.put`, or at `router.put_durable.after_log`) -/
def routerPut (s : Store) (k : Key) (v : Val) : Store × Outcome :=
  match k.cls with
  | .emb =>
      let ic := idxGetOrCreate s.vocab k
      ({ s with vocab := ic.2 }, .cont (.putEmbAfterIndex ic.1))
  | .cache => ({ s with cache := aset s.cache k v }, .done .ok)
  | _ => ({ s with md := aset s.md k v }, .done .ok)

/-- first step of `SlabRouter::get` -/
def routerGet (s : Store) (k : Key) : Store × Outcome :=
  match k.cls with
  | .emb =>
      match idxGet s.vocab k with
      | some id => (s, .cont (.getEmbAfterIndex id))
      | none => (s, .done (mdGet s k))
  | .cache =>
      (s, .done (match aget s.cache k with | some v => .found v | none => .notFound))
  | _ => (s, .done (mdGet s k))

/-- first step of `SlabRouter::delete`: the existence check and, for `emb:`, the slab delete -/
def routerDelete (s : Store) (k : Key) : Store × Outcome :=
  if !existsNow s k then (s, .done .notFound) else
  match k.cls with
  | .emb =>
      let slab := match idxGet s.vocab k with
        | some id => aerase s.slab id
        | none => s.slab
      ({ s with slab := slab }, .cont .delEmbAfterVector)
  | .cache => ({ s with cache := aerase s.cache k }, .done .ok)
  | _ => ({ s with md := aerase s.md k }, .done .ok)

/-- the records `put_durable` appends while it holds the log mutex (and the entity id it
    allocates there for an `emb:` key whose value carries a vector; a vector stored under a key
    of any other class logs its `MetadataSet` record alone and allocates no id) -/
def logPut (s : Store) (k : Key) (v : Val) : Store :=
  if !s.walOn then s else
  if k.cls ≠ .emb then { s with wal := s.wal ++ [.metaSet k v] } else
  match v.vec with
  | .none => { s with wal := s.wal ++ [.metaSet k v] }
  | vec =>
      let ic := idxGetOrCreate s.vocab k
      { s with vocab := ic.2, wal := s.wal ++ [.embSet ic.1 vec, .metaSet k v] }

/-- the records `delete_durable` appends while it holds the log mutex (before the existence check) -/
def logDelete (s : Store) (k : Key) : Store :=
  if !s.walOn then s else
  match idxGet s.vocab k with
  | some id => { s with wal := s.wal ++ [.embDel id, .entRemove k, .metaDel k] }
  | none => { s with wal := s.wal ++ [.metaDel k] }

/-- ONE ATOMIC STEP of operation `op` parked at `pc`: the code between this yield point and the
    next one (or the return).  Combinations that cannot occur leave the store alone and finish. -/
def stepOp (s : Store) (op : Op) (pc : PC) : Store × Outcome :=
  match pc, op with
  -- entry points
  | .start, .put k v => routerPut s k v
  | .start, .get k => routerGet s k
  | .start, .delete k => routerDelete s k
  | .start, .exists_ k => (s, .done (.bool (existsNow s k)))
  | .start, .scan p => (s, .done (.keys (scanNow s p)))
  | .start, .putD k v =>
      if k.cls = .cache then routerPut s k v else (logPut s k v, .cont .putDAfterLog)
  | .start, .delD k =>
      if k.cls = .cache then routerDelete s k else (logDelete s k, .cont .delDAfterLog)
  -- durable: the in-memory apply (the log mutex is still held, see `blocked`)
  | .putDAfterLog, .putD k v => routerPut s k v
  | .delDAfterLog, .delD k => routerDelete s k
  -- emb: put
  | .putEmbAfterIndex id, .put _ v | .putEmbAfterIndex id, .putD _ v =>
      ({ s with slab := slabPut s.slab id v.vec }, .cont .putEmbAfterVector)
  | .putEmbAfterVector, .put k v | .putEmbAfterVector, .putD k v =>
      ({ s with md := aset s.md k v }, .done .ok)
  -- emb: get
  | .getEmbAfterIndex id, .get k =>
      (match aget s.slab id with
       | some t => (s, .cont (.getEmbAfterVector t))
       | none => (s, .done (mdGet s k)))
  | .getEmbAfterVector t, .get k =>
      (s, .done (.found { tag := ((aget s.md k).map (·.tag)).getD 0, vec := .good t }))
  -- emb: delete
  | .delEmbAfterVector, .delete k | .delEmbAfterVector, .delD k =>
      ({ s with vocab := idxRemove s.vocab k }, .cont .delEmbAfterIndex)
  | .delEmbAfterIndex, .delete k | .delEmbAfterIndex, .delD k =>
      ({ s with md := aerase s.md k }, .done .ok)
  | _, _ => (s, .done .notFound)

/-! ### the scheduler -/

structure Thread where
  ops : List Op          -- remaining operations; the head is the current one
  pc : PC := .start
  idx : Nat := 0         -- index of the current operation in the thread's program
  inv : Nat := 0         -- step number at which the current operation took its first step
  deriving Repr

/-- a completed operation: thread, index in its program, the op, its result and the (step)
    times of its first and last atomic step -/
structure OpRec where
  t : Nat
  i : Nat
  op : Op
  res : Res
  inv : Nat
  ret : Nat
  deriving DecidableEq, Repr

abbrev ThreadProgram := List Op

structure Sys where
  store : Store
  threads : List Thread
  hist : List OpRec := []              -- in order of completion
  clock : Nat := 0                     -- number of steps taken
  trace : List (Nat × Op × PC) := []   -- (thread, op, yield point it ran from), in step order
  deriving Repr

def initSys (walOn : Bool) (progs : List ThreadProgram) : Sys :=
  { store := { walOn := walOn }, threads := progs.map (fun p => { ops := p }) }

/-! #### the log mutex

    `put_durable` / `delete_durable` of a non-cache key take `SlabRouter.wal` (a `Mutex`) before
    they log and release it when the in-memory apply has returned (repo dfea2ecb; before that
    commit it was released right after the log records were appended, see `stepOld`). -/

def Op.takesLock : Op → Bool
  | .putD k _ | .delD k => decide (k.cls ≠ .cache)
  | _ => false

/-- between its log step and the end of its durable operation: the thread holds the log mutex -/
def Thread.inCS (th : Thread) : Bool :=
  match th.ops with
  | op :: _ => op.takesLock && decide (th.pc ≠ .start)
  | [] => false

/-- let thread `t` take its next atomic step, whoever holds the log mutex (no-op when `t` does not
    exist or has finished).  This is the step machine of the code BEFORE dfea2ecb, where the mutex
    covered the log step only (one atomic step, so exclusion of two log steps is automatic). -/
def stepOld (sys : Sys) (t : Nat) : Sys :=
  match sys.threads[t]? with
  | none => sys
  | some th =>
    match th.ops with
    | [] => sys
    | op :: rest =>
      let inv := if th.pc = .start then sys.clock else th.inv
      let tr := sys.trace ++ [(t, op, th.pc)]
      match stepOp sys.store op th.pc with
      | (s', .cont pc') =>
          { store := s', threads := sys.threads.set t { th with pc := pc', inv := inv },
            hist := sys.hist, clock := sys.clock + 1, trace := tr }
      | (s', .done r) =>
          { store := s', threads := sys.threads.set t { ops := rest, pc := .start, idx := th.idx + 1, inv := 0 },
            hist := sys.hist ++ [{ t := t, i := th.idx, op := op, res := r, inv := inv, ret := sys.clock }],
            clock := sys.clock + 1, trace := tr }

/-- THE CURRENT CODE: as `stepOld`, but a thread about to enter a durable write of a non-cache key
    while another thread holds the log mutex does not move (it blocks in `Mutex::lock`; nothing
    is recorded and the clock does not advance) -/
def step (sys : Sys) (t : Nat) : Sys :=
  match sys.threads[t]? with
  | none => sys
  | some th =>
    match th.ops with
    | [] => sys
    | op :: _ =>
      if sys.store.walOn && op.takesLock && decide (th.pc = .start) && sys.threads.any Thread.inCS
      then sys else stepOld sys t

def runFrom (sys : Sys) (sched : List Nat) : Sys := sched.foldl step sys

/-- interpret an interleaving: `sched` names the thread that takes each successive atomic step -/
def runSched (walOn : Bool) (progs : List ThreadProgram) (sched : List Nat) : Sys :=
  runFrom (initSys walOn progs) sched

/-- the same interleaving on the step machine of the code before dfea2ecb -/
def runSchedOld (walOn : Bool) (progs : List ThreadProgram) (sched : List Nat) : Sys :=
  sched.foldl stepOld (initSys walOn progs)

def quiescent (sys : Sys) : Bool := sys.threads.all (fun th => th.ops.isEmpty)

/-! #### NOT the code: `delete_durable` that decides OUTSIDE the log mutex whether to log

    A variant step machine for one realistic regression of `SlabRouter::delete_durable` ("do not log
    no-op deletes"): `let present = self.exists(key)` is evaluated BEFORE `Mutex::lock`, the log
    records are appended only if `present` was true, the in-memory `self.delete(key)` under the
    mutex stays unconditional.  A thread that is granted its `store.delete_durable` step while
    another thread holds the mutex has therefore already made its observation when it blocks; it
    logs (or not) by that stale observation once it gets the mutex.  Everything else is `step`.
    Used only by `Props.delete_skip_if_absent_witness` (the property is lost) and replayed by
    `corr_kv` on the real mutex (where the outcome must be the one of `step`). -/

/-- a system of the variant: per thread waiting for the log mutex inside `delete_durable`, the
    presence of the key it observed before it blocked -/
structure SysV where
  sys : Sys
  seen : List (Nat × Bool) := []
  deriving Repr

/-- one pick of thread `t` on the exists-before-mutex variant -/
def stepDelSkipIfAbsent (v : SysV) (t : Nat) : SysV :=
  match v.sys.threads[t]? with
  | none => v
  | some th =>
    match th.ops, th.pc with
    | .delD k :: _, .start =>
      if k.cls = .cache ∨ v.sys.store.walOn = false then { v with sys := step v.sys t } else
      -- `let present = self.exists(key);` (kept from the first grant if the thread then blocked)
      let present := match aget v.seen t with
        | some b => b
        | none => existsNow v.sys.store k
      -- `self.wal.as_ref().map(Mutex::lock)`: blocks while another thread is between log and apply
      if v.sys.threads.any Thread.inCS then { v with seen := aset v.seen t present } else
      -- `wal_guard.as_mut().filter(|_| present)`: the records are appended only if `present`
      let s' := if present then logDelete v.sys.store k else v.sys.store
      { sys := { store := s',
                 threads := v.sys.threads.set t { th with pc := .delDAfterLog, inv := v.sys.clock },
                 hist := v.sys.hist, clock := v.sys.clock + 1,
                 trace := v.sys.trace ++ [(t, .delD k, .start)] },
        seen := aerase v.seen t }
    | _, _ => { v with sys := step v.sys t }

/-- interpret an interleaving on the exists-before-mutex variant of `delete_durable` -/
def runSchedDelSkipIfAbsent (walOn : Bool) (progs : List ThreadProgram) (sched : List Nat) : Sys :=
  (sched.foldl stepDelSkipIfAbsent { sys := initSys walOn progs }).sys

/-! #### "no two operations on the same key overlap in time", stated over the schedule -/

/-- the key of the operation thread `th` is INSIDE of: it has taken the first atomic step of its
    current operation and not yet the last one (only `emb:` keys and durable writes have
    operations of more than one step) -/
def Thread.midKey (th : Thread) : Option Key :=
  if th.pc = .start then none else
  match th.ops with
  | op :: _ => op.key?
  | [] => none

/-- the next step of thread `t` does not INVOKE an operation on an `emb:` key while another thread
    is inside an operation on the same key (steps that continue an operation, operations on
    other keys and scans are never restricted) -/
def startsExclusive (sys : Sys) (t : Nat) : Bool :=
  match sys.threads[t]? with
  | none => true
  | some th =>
    if th.pc ≠ .start then true else
    match th.ops with
    | [] => true
    | op :: _ =>
      match op.key? with
      | none => true
      | some k => decide (k.cls ≠ .emb) || sys.threads.all (fun th' => decide (th'.midKey ≠ some k))

/-- in the run of `sched` from `sys` no operation on an `emb:` key is invoked while another
    operation on that key is in progress, i.e. no two operations on one `emb:` key overlap in time
    (an operation occupies the steps from its first to its last atomic step) -/
def NoEmbOverlapFrom (sys : Sys) : List Nat → Bool
  | [] => true
  | t :: rest => startsExclusive sys t && NoEmbOverlapFrom (step sys t) rest

def NoEmbOverlap (walOn : Bool) (progs : List ThreadProgram) (sched : List Nat) : Bool :=
  NoEmbOverlapFrom (initSys walOn progs) sched

/-! ### sequential execution of one operation (all its steps back to back) -/

def seqOpAux : Nat → Store → Op → PC → Store × Res
  | 0, s, _, _ => (s, .notFound)
  | n + 1, s, op, pc =>
      match stepOp s op pc with
      | (s', .cont pc') => seqOpAux n s' op pc'
      | (s', .done r) => (s', r)

/-- no operation has more than 4 steps -/
def seqOp (s : Store) (op : Op) : Store × Res := seqOpAux 5 s op .start

/-- what a reader sees of key `k` in a quiescent store -/
def view (s : Store) (k : Key) : Res × Bool × Bool :=
  ((seqOp s (.get k)).2, existsNow s k, decide (k ∈ scanNow s []))

/-! ### recovery: replay of the log over an empty store (`SlabRouter::recover`, no snapshot) -/

/-- `apply_wal_entry` -/
def applyEntry (s : Store) : Entry → Store
  | .metaSet k v =>
      if k.cls = .emb then
        let ic := idxGetOrCreate s.vocab k
        { s with md := aset s.md k v, vocab := ic.2, slab := slabPut s.slab ic.1 v.vec }
      else { s with md := aset s.md k v }
  | .metaDel k => { s with md := aerase s.md k }
  -- ignored by replay (repo 6b9ec7ce): the id is the one the key had in the session that logged
  -- it; the `MetadataSet` record that always follows carries the vector
  | .embSet _ _ => s
  | .embDel id => { s with slab := aerase s.slab id }
  | .entRemove k => { s with vocab := idxRemove s.vocab k }

/-- the slabs rebuilt by replaying the log over an empty store -/
def replay (wal : List Entry) : Store := wal.foldl applyEntry { walOn := true }

def recover (wal : List Entry) : Store := { replay wal with wal := wal }

/-! ### the sequential specification: one map key ↦ value -/

abbrev Spec := List (Key × Val)

def specStep (σ : Spec) : Op → Spec × Res
  | .put k v | .putD k v => (aset σ k v, .ok)
  | .get k => (σ, match aget σ k with | some v => .found v | none => .notFound)
  | .delete k | .delD k =>
      (match aget σ k with
       | some _ => (aerase σ k, .ok)
       | none => (σ, .notFound))
  | .exists_ k => (σ, .bool (aget σ k).isSome)
  | .scan p => (σ, .keys ((σ.map (·.1)).filter (pmatch p)))

def specApply (σ : Spec) (op : Op) : Spec := (specStep σ op).1
def specRes (σ : Spec) (op : Op) : Res := (specStep σ op).2

/-- results are compared exactly, except key lists (a `HashSet` in the code): as sets -/
def resEquiv : Res → Res → Prop
  | .keys a, .keys b => a ⊆ b ∧ b ⊆ a
  | a, b => a = b

instance : (a b : Res) → Decidable (resEquiv a b) := fun a b => by
  cases a <;> cases b <;> unfold resEquiv <;> infer_instance

/-- a cache-class key may always be reported absent (bounded ring with eviction) -/
def absentOk : Op → Res → Prop
  | .get k, .notFound => k.cls = .cache
  | .exists_ k, .bool false => k.cls = .cache
  | _, _ => False

instance : (o : Op) → (r : Res) → Decidable (absentOk o r) := fun o r => by
  unfold absentOk; split <;> infer_instance

/-- `r` is a result the sequential specification allows for `op` in state `σ` -/
def specOk (σ : Spec) (op : Op) (r : Res) : Prop := resEquiv r (specRes σ op) ∨ absentOk op r

instance (σ : Spec) (op : Op) (r : Res) : Decidable (specOk σ op r) := by
  unfold specOk; infer_instance

def specRun (σ : Spec) (ops : List Op) : Spec := ops.foldl specApply σ

/-- the records, taken in list order from state `σ`, are a legal sequential execution -/
def SeqValid : Spec → List OpRec → Prop
  | _, [] => True
  | σ, r :: rs => specOk σ r.op r.res ∧ SeqValid (specApply σ r.op) rs

instance : (σ : Spec) → (l : List OpRec) → Decidable (SeqValid σ l)
  | _, [] => by unfold SeqValid; infer_instance
  | σ, r :: rs => by
      unfold SeqValid
      have := instDecidableSeqValid (specApply σ r.op) rs
      infer_instance

/-- the list order never puts `a` before `b` when `b` had returned before `a` was invoked -/
def RespectsRealTime (l : List OpRec) : Prop := l.Pairwise (fun a b => ¬ (b.ret < a.inv))

/-- linearizable from the empty store: some permutation of the completed operations is a legal
    sequential execution that respects real time -/
def Linearizable (recs : List OpRec) : Prop :=
  ∃ order : List OpRec, order.Perm recs ∧ SeqValid [] order ∧ RespectsRealTime order

/-- an operation that is ONE atomic step: everything on plain/graph/table/cache keys except the
    durable forms (which log first, then apply), and scans -/
def Op.singleStep : Op → Prop
  | .put k _ | .get k | .delete k | .exists_ k => k.cls ≠ .emb
  | .scan _ => True
  | .putD k _ | .delD k => k.cls = .cache

instance : (o : Op) → Decidable o.singleStep := fun o => by
  cases o <;> unfold Op.singleStep <;> infer_instance

/-- an operation on a key that is not an `emb:` key, or a scan: its effect on the key→value map is
    ONE atomic step, its last (the durable forms on plain / graph / table keys log first) -/
def Op.noEmb : Op → Bool
  | .put k _ | .get k | .delete k | .exists_ k | .putD k _ | .delD k => decide (k.cls ≠ .emb)
  | .scan _ => true

/-- `put_durable` / `delete_durable` of a key of any class but the cache (any value), or a read
    (get / exists / scan of any key, any prefix) -/
def Op.durableOrRead : Op → Bool
  | .putD k _ | .delD k => decide (k.cls ≠ .cache)
  | .get _ | .exists_ _ | .scan _ => true
  | .put .. | .delete .. => false

/-- put / get / delete / exists / scan (no `put_durable` / `delete_durable`) -/
def Op.nonDurable : Op → Bool
  | .putD .. | .delD .. => false
  | _ => true

/-- every scan prefix of the operation is a string (`&str`: UTF-8) - well-formedness of the model's
    input, every Rust caller satisfies it -/
def Op.scanStr : Op → Bool
  | .scan p => validUtf8 p
  | _ => true

/-- put / get / delete / exists / scan (scan prefixes are strings) -/
def Op.nonDurableStr (op : Op) : Bool := op.nonDurable && op.scanStr

end Neumann.KV

/-! ### witness interleavings (proved in `Props.lean`, replayed on the real store by `corr_kv`) -/
namespace Neumann.KV

def kE1 : Key := mkKey .emb 1
def kP1 : Key := mkKey .plain 1

/-- two writers of `emb:1` and one reader, all three overlapping -/
def embMixtureProgs : List ThreadProgram :=
  [[.put kE1 ⟨1, .good 1⟩], [.put kE1 ⟨2, .good 2⟩], [.get kE1]]

/-- A index, B index, A vector, C index.get, C embeddings.get (A's vector), B vector, A metadata,
    B metadata, C metadata.get (B's metadata) -/
def embMixtureSched : List Nat := [0, 1, 0, 2, 2, 1, 0, 1, 2]

/-- two durable writers of `user:1` -/
def durableOrderProgs : List ThreadProgram :=
  [[.putD kP1 ⟨1, .none⟩], [.putD kP1 ⟨2, .none⟩]]

/-- A logs, B logs, B applies, A applies (executable on `stepOld` only: under the log mutex B does
    not move until A has applied) -/
def durableOrderSched : List Nat := [0, 1, 1, 0]

/-- `put_durable user:1` racing `delete_durable user:1`, the key absent at the start -/
def putDeleteAbsentProgs : List ThreadProgram :=
  [[.putD kP1 ⟨1, .none⟩], [.delD kP1]]

/-- A logs its set (holds the mutex); B enters `delete_durable` and waits for the mutex; A applies
    and releases; B logs; B applies -/
def putDeleteAbsentSched : List Nat := [0, 1, 0, 1, 1]

end Neumann.KV
