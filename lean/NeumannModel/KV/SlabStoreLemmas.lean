import NeumannModel.KV.SlabLemmas
import NeumannModel.KV.EmbLemmas
/-
  Helper lemmas for SlabProps: sequential histories of the store with the slab as it is are the
  map key ↦ last value put (core Lean only).
-/
namespace Neumann.KV

/-- the map a slab is, read off its index and cells -/
def eAbs (e : ESlab) : List (Nat × Nat) := e.index.map fun p => (p.1, (aget e.cells p.2).getD 0)

theorem aget_map_val {β γ} (l : List (Nat × β)) (f : β → γ) (id : Nat) :
    aget (l.map fun p => (p.1, f p.2)) id = (aget l id).map f := by
  induction l with
  | nil => rfl
  | cons p r ih =>
    obtain ⟨a, b⟩ := p
    simp only [List.map, aget]
    by_cases h : a = id
    · simp [h]
    · simp [h, ih]

theorem refines_eAbs (e : ESlab) : Refines e (eAbs e) := by
  intro id
  unfold eGet eAbs
  rw [aget_map_val e.index (fun sl => (aget e.cells sl).getD 0) id]
  cases aget e.index id <;> rfl

theorem eGet_eSet {e : ESlab} (h : SlabInv e) (id t a : Nat) :
    eGet (eSet e id t) a = if id = a then some t else eGet e a := by
  have := Refines.step h (refines_eAbs e) (.set id t) a
  simp only [eStep, mStep, aget_aset] at this
  rw [this, refines_eAbs e a]

theorem eGet_eDelete {e : ESlab} (h : SlabInv e) (id a : Nat) :
    eGet (eDelete e id) a = if id = a then none else eGet e a := by
  have := Refines.step h (refines_eAbs e) (.del id) a
  simp only [eStep, mStep, aget_aerase] at this
  rw [this, refines_eAbs e a]

theorem eGet_eSlabPut {e : ESlab} (h : SlabInv e) (id a : Nat) (vec : VecF) :
    eGet (eSlabPut e id vec) a = if id = a then vecTag vec else eGet e a := by
  cases vec with
  | good t => exact eGet_eSet h id t a
  | bad t => exact eGet_eDelete h id a
  | none => exact eGet_eDelete h id a

/-- the store IS the map σ -/
structure Coh (s : SStore) (σ : Spec) : Prop where
  inv : SlabInv s.es
  uniq : LiveUnique s.vocab
  md : ∀ k, k.cls ≠ .cache → aget s.md k = aget σ k
  cache : ∀ k, k.cls = .cache → aget s.cache k = aget σ k
  embOnly : ∀ k id, idxGet s.vocab k = some id → k.cls = .emb
  live : ∀ k id, idxGet s.vocab k = some id → (aget σ k).isSome = true
  vec : ∀ k id, idxGet s.vocab k = some id → eGet s.es id = (aget σ k).bind fun v => vecTag v.vec

theorem Coh.init : Coh {} [] :=
  ⟨SlabInv.init, fun i j k h => by simp at h, fun _ _ => rfl, fun _ _ => rfl,
   fun _ _ h => by simp [idxGet, idxGetAux] at h, fun _ _ h => by simp [idxGet, idxGetAux] at h,
   fun _ _ h => by simp [idxGet, idxGetAux] at h⟩

theorem Coh.exists_eq {s : SStore} {σ : Spec} (c : Coh s σ) (k : Key) : sExists s k = (aget σ k).isSome := by
  unfold sExists
  cases hc : k.cls with
  | cache => simp only; rw [c.cache k hc]
  | emb =>
    simp only
    rw [c.md k (by rw [hc]; decide)]
    cases hi : idxGet s.vocab k with
    | none => simp
    | some id => simp [c.live k id hi]
  | plain => simp only; rw [c.md k (by rw [hc]; decide)]
  | graph => simp only; rw [c.md k (by rw [hc]; decide)]
  | table => simp only; rw [c.md k (by rw [hc]; decide)]

theorem Coh.get_eq {s : SStore} {σ : Spec} (c : Coh s σ) (k : Key) :
    sGet s k = resOf (aget σ k) := by
  have hmd : k.cls ≠ .cache → sMdGet s k = resOf (aget σ k) := by
    intro h; unfold sMdGet; rw [c.md k h]; cases aget σ k <;> rfl
  unfold sGet
  cases hc : k.cls with
  | cache => simp only; rw [c.cache k hc]; cases aget σ k <;> rfl
  | plain => simp only; exact hmd (by rw [hc]; decide)
  | graph => simp only; exact hmd (by rw [hc]; decide)
  | table => simp only; exact hmd (by rw [hc]; decide)
  | emb =>
    have hne : k.cls ≠ .cache := by rw [hc]; decide
    simp only
    cases hi : idxGet s.vocab k with
    | none => simp only; exact hmd hne
    | some id =>
      simp only
      have hv := c.vec k id hi
      have hm := c.md k hne
      cases hσ : aget σ k with
      | none => have := c.live k id hi; rw [hσ] at this; simp at this
      | some v =>
        rw [hσ] at hv hm
        obtain ⟨tag, vec⟩ := v
        cases vec with
        | good t =>
          simp only [Option.bind, vecTag] at hv
          rw [hv]; simp only; rw [hm]; rfl
        | bad t =>
          simp only [Option.bind, vecTag] at hv
          rw [hv]; simp only; rw [hmd hne, hσ]
        | none =>
          simp only [Option.bind, vecTag] at hv
          rw [hv]; simp only; rw [hmd hne, hσ]

theorem aget_aset_ne {β} (m : List (Key × β)) {k k' : Key} (v : β) (h : k ≠ k') : aget (aset m k v) k' = aget m k' := by
  rw [aget_aset, if_neg h]

theorem aget_aerase_ne {β} (m : List (Key × β)) {k k' : Key} (h : k ≠ k') : aget (aerase m k) k' = aget m k' := by
  rw [aget_aerase, if_neg h]

theorem cls_ne {k k' : Key} (h : k.cls ≠ k'.cls) : k ≠ k' := fun e => h (e ▸ rfl)

theorem Coh.clear {s : SStore} : Coh (sClear false s) [] :=
  ⟨SlabInv.clear s.es, fun i j k h => by simp [sClear] at h, fun _ _ => rfl, fun _ _ => rfl,
   fun _ _ h => by simp [sClear, idxGet, idxGetAux] at h, fun _ _ h => by simp [sClear, idxGet, idxGetAux] at h,
   fun _ _ h => by simp [sClear, idxGet, idxGetAux] at h⟩

/-- a write to a key outside the slab (metadata or cache ring) -/
theorem Coh.put_plain {s : SStore} {σ : Spec} (c : Coh s σ) (k : Key) (v : Val) (hc : k.cls ≠ .emb) :
    Coh (sPut s k v) (aset σ k v) := by
  have hs : sPut s k v = if k.cls = .cache then { s with cache := aset s.cache k v } else { s with md := aset s.md k v } := by
    unfold sPut; cases h : k.cls <;> simp_all
  rw [hs]
  by_cases hca : k.cls = .cache
  · rw [if_pos hca]
    refine ⟨c.inv, c.uniq, ?_, ?_, c.embOnly, ?_, ?_⟩
    · intro k' h'; rw [aget_aset_ne _ _ (cls_ne (by rw [hca]; exact Ne.symm h'))]; exact c.md k' h'
    · intro k' h'; show aget (aset s.cache k v) k' = _; rw [aget_aset, aget_aset]; split; rfl; exact c.cache k' h'
    · intro k' id hi; rw [aget_aset_ne _ _ (cls_ne (by rw [hca, c.embOnly k' id hi]; decide))]; exact c.live k' id hi
    · intro k' id hi; rw [aget_aset_ne _ _ (cls_ne (by rw [hca, c.embOnly k' id hi]; decide))]; exact c.vec k' id hi
  · rw [if_neg hca]
    refine ⟨c.inv, c.uniq, ?_, ?_, c.embOnly, ?_, ?_⟩
    · intro k' h'; show aget (aset s.md k v) k' = _; rw [aget_aset, aget_aset]; split; rfl; exact c.md k' h'
    · intro k' h'; rw [aget_aset_ne _ _ (cls_ne (by rw [h']; exact hca))]; exact c.cache k' h'
    · intro k' id hi; rw [aget_aset_ne _ _ (cls_ne (by rw [c.embOnly k' id hi]; exact hc))]; exact c.live k' id hi
    · intro k' id hi; rw [aget_aset_ne _ _ (cls_ne (by rw [c.embOnly k' id hi]; exact hc))]; exact c.vec k' id hi

theorem Coh.delete_plain {s : SStore} {σ : Spec} (c : Coh s σ) (k : Key) (hc : k.cls ≠ .emb) :
    Coh (sDelete s k) (aerase σ k) := by
  have hs : sDelete s k = if k.cls = .cache then { s with cache := aerase s.cache k } else { s with md := aerase s.md k } := by
    unfold sDelete; cases h : k.cls <;> simp_all
  rw [hs]
  by_cases hca : k.cls = .cache
  · rw [if_pos hca]
    refine ⟨c.inv, c.uniq, ?_, ?_, c.embOnly, ?_, ?_⟩
    · intro k' h'; rw [aget_aerase_ne _ (cls_ne (by rw [hca]; exact Ne.symm h'))]; exact c.md k' h'
    · intro k' h'; show aget (aerase s.cache k) k' = _; rw [aget_aerase, aget_aerase]; split; rfl; exact c.cache k' h'
    · intro k' id hi; rw [aget_aerase_ne _ (cls_ne (by rw [hca, c.embOnly k' id hi]; decide))]; exact c.live k' id hi
    · intro k' id hi; rw [aget_aerase_ne _ (cls_ne (by rw [hca, c.embOnly k' id hi]; decide))]; exact c.vec k' id hi
  · rw [if_neg hca]
    refine ⟨c.inv, c.uniq, ?_, ?_, c.embOnly, ?_, ?_⟩
    · intro k' h'; show aget (aerase s.md k) k' = _; rw [aget_aerase, aget_aerase]; split; rfl; exact c.md k' h'
    · intro k' h'; rw [aget_aerase_ne _ (cls_ne (by rw [h']; exact hca))]; exact c.cache k' h'
    · intro k' id hi; rw [aget_aerase_ne _ (cls_ne (by rw [c.embOnly k' id hi]; exact hc))]; exact c.live k' id hi
    · intro k' id hi; rw [aget_aerase_ne _ (cls_ne (by rw [c.embOnly k' id hi]; exact hc))]; exact c.vec k' id hi

theorem Coh.put_emb {s : SStore} {σ : Spec} (c : Coh s σ) (k : Key) (v : Val) (hc : k.cls = .emb) :
    Coh (sPut s k v) (aset σ k v) := by
  have hs : sPut s k v = ⟨aset s.md k v, s.cache, (idxGetOrCreate s.vocab k).2, eSlabPut s.es (idxGetOrCreate s.vocab k).1 v.vec⟩ := by
    unfold sPut; rw [hc]
  have hself := idxGetOrCreate_self s.vocab k
  have hinv : SlabInv (sPut s k v).es := sPut_inv c.inv k v
  rw [hs] at hinv ⊢
  refine ⟨hinv, c.uniq.getOrCreate k, ?_, ?_, ?_, ?_, ?_⟩
  · intro k' h'; show aget (aset s.md k v) k' = _; rw [aget_aset, aget_aset]; split; rfl; exact c.md k' h'
  · intro k' h'; rw [aget_aset_ne _ _ (cls_ne (by rw [hc, h']; decide))]; exact c.cache k' h'
  · intro k' id hi
    by_cases e : k' = k
    · rw [e]; exact hc
    · exact c.embOnly k' id (by rw [← idxGetOrCreate_other s.vocab e]; exact hi)
  · intro k' id hi
    by_cases e : k' = k
    · rw [e, aget_aset, if_pos rfl]; rfl
    · rw [aget_aset_ne _ _ (Ne.symm e)]
      exact c.live k' id (by rw [← idxGetOrCreate_other s.vocab e]; exact hi)
  · intro k' id hi
    show eGet (eSlabPut s.es (idxGetOrCreate s.vocab k).1 v.vec) id = _
    rw [eGet_eSlabPut c.inv]
    by_cases e : k' = k
    · subst e
      have : (idxGetOrCreate s.vocab k').1 = id := by
        have hi' : idxGet (idxGetOrCreate s.vocab k').2 k' = some id := hi
        rw [hself] at hi'; exact Option.some.inj hi'
      rw [if_pos this, aget_aset, if_pos rfl]; rfl
    · have hne : (idxGetOrCreate s.vocab k).1 ≠ id := by
        intro e'
        have hi' : idxGet (idxGetOrCreate s.vocab k).2 k' = some id := hi
        exact e (idxGet_inj hi' (e' ▸ hself))
      rw [if_neg hne, aget_aset_ne _ _ (Ne.symm e)]
      exact c.vec k' id (by rw [← idxGetOrCreate_other s.vocab e]; exact hi)

theorem Coh.delete_emb {s : SStore} {σ : Spec} (c : Coh s σ) (k : Key) (hc : k.cls = .emb) :
    Coh (sDelete s k) (aerase σ k) := by
  have hs : sDelete s k = ⟨aerase s.md k, s.cache, idxRemove s.vocab k, (match idxGet s.vocab k with | some id => eDelete s.es id | none => s.es)⟩ := by
    unfold sDelete; rw [hc]; rfl
  have hinv : SlabInv (sDelete s k).es := sDelete_inv c.inv k
  rw [hs] at hinv ⊢
  have old : ∀ k' id, idxGet (idxRemove s.vocab k) k' = some id → k' ≠ k ∧ idxGet s.vocab k' = some id := by
    intro k' id hi
    by_cases e : k' = k
    · rw [e, idxRemove_self c.uniq k] at hi; simp at hi
    · exact ⟨e, by rw [← idxRemove_other s.vocab e]; exact hi⟩
  refine ⟨hinv, c.uniq.remove k, ?_, ?_, ?_, ?_, ?_⟩
  · intro k' h'; show aget (aerase s.md k) k' = _; rw [aget_aerase, aget_aerase]; split; rfl; exact c.md k' h'
  · intro k' h'; rw [aget_aerase_ne _ (cls_ne (by rw [hc, h']; decide))]; exact c.cache k' h'
  · intro k' id hi; exact c.embOnly k' id (old k' id hi).2
  · intro k' id hi
    rw [aget_aerase_ne _ (Ne.symm (old k' id hi).1)]; exact c.live k' id (old k' id hi).2
  · intro k' id hi
    obtain ⟨e, hi0⟩ := old k' id hi
    rw [aget_aerase_ne _ (Ne.symm e)]
    show eGet (match idxGet s.vocab k with | some id => eDelete s.es id | none => s.es) id = _
    cases hk : idxGet s.vocab k with
    | none => exact c.vec k' id hi0
    | some idk =>
      simp only
      have hne : idk ≠ id := fun e' => e (idxGet_inj hi0 (e' ▸ hk))
      rw [eGet_eDelete c.inv, if_neg hne]
      exact c.vec k' id hi0

theorem Coh.step {s : SStore} {σ : Spec} (c : Coh s σ) (op : SOp) :
    Coh (sOp false s op).1 (sSpecStep σ op).1 ∧ (sOp false s op).2 = (sSpecStep σ op).2 := by
  cases op with
  | get k => exact ⟨c, c.get_eq k⟩
  | exists_ k => exact ⟨c, by show Res.bool _ = Res.bool _; rw [c.exists_eq k]⟩
  | clear => exact ⟨Coh.clear, rfl⟩
  | put k v =>
    refine ⟨?_, rfl⟩
    show Coh (sPut s k v) (aset σ k v)
    by_cases hc : k.cls = .emb
    · exact c.put_emb k v hc
    · exact c.put_plain k v hc
  | delete k =>
    show Coh (if sExists s k then (sDelete s k, Res.ok) else (s, Res.notFound)).1
           (if (aget σ k).isSome then (aerase σ k, Res.ok) else (σ, Res.notFound)).1 ∧
         (if sExists s k then (sDelete s k, Res.ok) else (s, Res.notFound)).2 =
           (if (aget σ k).isSome then (aerase σ k, Res.ok) else (σ, Res.notFound)).2
    rw [c.exists_eq k]
    by_cases h : (aget σ k).isSome = true
    · rw [if_pos h, if_pos h]
      refine ⟨?_, rfl⟩
      by_cases hc : k.cls = .emb
      · exact c.delete_emb k hc
      · exact c.delete_plain k hc
    · rw [if_neg h, if_neg h]; exact ⟨c, rfl⟩

theorem sRunFrom_is_the_map (ops : List SOp) : ∀ (s : SStore) (σ : Spec), Coh s σ →
    (sRunFrom false s ops).2 = sSpecRunFrom σ ops := by
  induction ops with
  | nil => intro s σ _; rfl
  | cons op rest ih =>
    intro s σ c
    have st := c.step op
    show (sOp false s op).2 :: (sRunFrom false (sOp false s op).1 rest).2 = (sSpecStep σ op).2 :: sSpecRunFrom (sSpecStep σ op).1 rest
    rw [st.2, ih _ _ st.1]

end Neumann.KV
