import NeumannModel.KV.BloomLemmas
import NeumannModel.KV.Props
/-
  C11 — the shared store built WITH a Bloom filter behaves as the store without one.

  `get` / `exists` of a `TensorStore` with a filter answer "absent" from the filter alone, while
  `scan` (and `scan_count`, `scan_filter_map`, `len`) read the slabs.  That is sound exactly as long
  as THE FILTER KNOWS A KEY NO LATER THAN THE KEY BECOMES VISIBLE IN THE SLABS: `put` /
  `put_durable` call `filter.add` before the router call.  Model: `Bloom.lean` - (A) `runSchedB`
  at the granularity of the yield hooks (what the driver runs and `corr_kv` compares with the real
  store), (B) `frun` at the granularity of single filter / router calls.  Every statement holds for
  every false-positive behaviour `fp` of the filter.
-/
namespace Neumann.KV.BloomProps
open Neumann.KV Neumann.KV.Props

/-! ### (A) hook granularity: the invariant, and transparency -/

/-- FULL STRENGTH, every number of threads, every program (all seven operations, keys of every
    class, any byte strings), with or without the log, every interleaving, every false-positive
    behaviour of the filter, stopped after ANY number of atomic steps: every key that is visible
    in the slabs (metadata slab, cache ring, live in the entity index) has been added to the
    filter; so whatever `exists` of the router reports present and whatever a scan lists passes
    `might_contain`. -/
theorem filter_knows_every_visible_key (fp : Key → Bool) (walOn : Bool) (progs : List ThreadProgram)
    (sched : List Nat) :
    let b := runSchedB fp walOn progs sched
    (∀ k, visible b.sys.store k = true → k ∈ b.added) ∧
    (∀ k, existsNow b.sys.store k = true → mightContain fp b.added k = true) ∧
    (∀ p k, k ∈ scanNow b.sys.store p → mightContain fp b.added k = true) := by
  intro b
  have inv : BInv b := (BInv.init walOn progs).run fp sched
  refine ⟨inv.cov, fun k h => ?_, fun p k h => ?_⟩
  · simp [mightContain, inv.cov k (existsNow_visible h)]
  · simp [mightContain, inv.cov k (scanNow_visible h)]

/-- the same for a store LOADED with a filter (`load_snapshot_with_bloom_filter`,
    `recover_with_bloom`): ANY slabs `s`, the filter rebuilt from `router.scan("")` -/
theorem filter_knows_every_visible_key_of_a_loaded_store (fp : Key → Bool) (s : Store)
    (progs : List ThreadProgram) (sched : List Nat) :
    let b := runFromG (stepOpB fp) (loadB s progs) sched
    ∀ k, visible b.sys.store k = true → k ∈ b.added :=
  ((BInv.load s progs).run fp sched).cov

/-- non-vacuity: after the index step of `put emb:1` the key is visible (a scan lists it) and in
    the filter; a deleted key stays in the filter -/
example :
    visible (runSchedB (fun _ => false) false [[.put kE1 ⟨1, .good 1⟩], [.scan pfxEmb]] [0, 1]).sys.store kE1 = true ∧
    (runSchedB (fun _ => false) false [[.put kE1 ⟨1, .good 1⟩], [.scan pfxEmb]] [0, 1]).added = [kE1] ∧
    (runSchedB (fun _ => false) false [[.put kE1 ⟨1, .good 1⟩], [.scan pfxEmb]] [0, 1]).sys.hist.map (·.res) = [.keys [kE1]] ∧
    visible (runSchedB (fun _ => false) false [[.put kP1 ⟨1, .none⟩, .delete kP1]] [0, 0]).sys.store kP1 = false ∧
    (runSchedB (fun _ => false) false [[.put kP1 ⟨1, .none⟩, .delete kP1]] [0, 0]).added = [kP1] := by decide

/-- FULL STRENGTH: the store with a Bloom filter IS the store without one.  For every
    false-positive behaviour of the filter, with or without the log, every number of threads,
    every program, every interleaving: the run on the filtered store has the same slabs, the same
    log, the same threads, THE SAME HISTORY (every result, every invocation and return step) and
    the same yield trace as the run of `Model.runSched` - the negative fast path of `get` /
    `exists` never gives an answer the slabs would not have given in that very step. -/
theorem bloom_store_transparent (fp : Key → Bool) (walOn : Bool) (progs : List ThreadProgram)
    (sched : List Nat) : (runSchedB fp walOn progs sched).sys = runSched walOn progs sched :=
  run_sys (BInv.init walOn progs) fp sched

/-- the same for a store loaded with a filter: any slabs, the filter rebuilt from `scan("")` -/
theorem loaded_bloom_store_transparent (fp : Key → Bool) (s : Store) (progs : List ThreadProgram)
    (sched : List Nat) :
    (runFromG (stepOpB fp) (loadB s progs) sched).sys
      = runFrom { store := s, threads := progs.map (fun p => { ops := p }) } sched :=
  run_sys (BInv.load s progs) fp sched

/-- non-vacuity: four threads on a filtered store whose filter has false positives on the cache
    keys; the reads see the other threads' writes, the get of the never-written `table:7` and the
    exists of `user:2` are answered by the filter alone -/
example :
    (runSchedB (fun k => k.cls = .cache) false
        [[.put kP1 ⟨1, .none⟩, .get (mkKey .cache 1)], [.get kP1, .delete kP1, .get (mkKey .table 7)],
         [.put (mkKey .cache 1) ⟨2, .good 2⟩, .scan []], [.exists_ kP1, .exists_ (mkKey .plain 2)]]
        [0, 1, 2, 3, 2, 0, 3, 1, 1]).sys.hist.map (·.res)
      = [.ok, .found ⟨1, .none⟩, .ok, .bool true, .keys [kP1, (mkKey .cache 1)],
         .found ⟨2, .good 2⟩, .bool false, .ok, .notFound] := by decide

/-! #### every theorem of `Props` therefore speaks of the filtered store as well -/

/-- `Props.durable_ops_linearizable` on a store with a Bloom filter: every operation (durable
    forms included) on keys of every class but `emb:`, with or without the log, every interleaving:
    the history in the order of the last steps is a legal sequential execution that respects real
    time, and the live slabs are the specification applied to the completed operations. -/
theorem bloom_store_linearizable (fp : Key → Bool) (walOn : Bool) (progs : List ThreadProgram)
    (sched : List Nat) (h : ∀ p ∈ progs, ∀ op ∈ p, op.noEmb = true ∧ op.scanStr = true) :
    let r := (runSchedB fp walOn progs sched).sys
    SeqStrict [] r.hist ∧ RespectsRealTime r.hist ∧
    Abs r.store (specRun [] (r.hist.map (·.op))) ∧ Linearizable r.hist := by
  intro r
  have e : r = runSched walOn progs sched := bloom_store_transparent fp walOn progs sched
  obtain ⟨h1, _, _, _, h5, h6, h7⟩ := durable_ops_linearizable walOn progs sched h
  rw [e]
  exact ⟨h1, h5, h6, h7⟩

/-- non-vacuity: the durable example of `Props` on the filtered store -/
example :
    (∀ p ∈ ([[.putD kP1 ⟨1, .none⟩], [.get kP1, .get kP1, .putD kP1 ⟨3, .none⟩], [.put kP1 ⟨2, .none⟩, .scan pfxUser]]
        : List ThreadProgram), ∀ op ∈ p, op.noEmb = true ∧ op.scanStr = true) ∧
    (runSchedB (fun _ => false) true [[.putD kP1 ⟨1, .none⟩], [.get kP1, .get kP1, .putD kP1 ⟨3, .none⟩], [.put kP1 ⟨2, .none⟩, .scan pfxUser]]
        [0, 1, 2, 2, 1, 1, 0, 1, 1]).sys.hist.map (fun r => (r.t, r.i, r.res, r.inv, r.ret))
      = [(1, 0, .notFound, 1, 1), (2, 0, .ok, 2, 2), (2, 1, .keys [kP1], 3, 3), (1, 1, .found ⟨2, .none⟩, 4, 4),
         (0, 0, .ok, 0, 5), (1, 2, .ok, 6, 7)] := by decide

/-- `Props.emb_linearizable_partial` on a store with a Bloom filter (PARTIAL exactly as that
    theorem is: operations on one `emb:` key must not overlap, no durable forms, the run finished) -/
theorem bloom_store_emb_linearizable_partial (fp : Key → Bool) (progs : List ThreadProgram) (sched : List Nat)
    (h : ∀ p ∈ progs, ∀ op ∈ p, op.nonDurableStr = true)
    (hx : NoEmbOverlap false progs sched = true)
    (hq : quiescent (runSched false progs sched) = true) :
    Linearizable (runSchedB fp false progs sched).sys.hist := by
  rw [bloom_store_transparent]
  exact (emb_linearizable_partial progs sched h hx hq).1

/-- non-vacuity: the hypotheses of `emb_linearizable_partial` hold of a run that interleaves the
    three steps of `put emb:1` with a scan and an `exists` -/
example :
    (∀ p ∈ ([[.put kE1 ⟨1, .good 1⟩], [.scan pfxEmb, .exists_ kE1]] : List ThreadProgram), ∀ op ∈ p, op.nonDurableStr = true) ∧
    NoEmbOverlap false [[.put kE1 ⟨1, .good 1⟩], [.scan pfxEmb, .exists_ kE1]] [0, 1, 0, 0, 1] = true ∧
    quiescent (runSched false [[.put kE1 ⟨1, .good 1⟩], [.scan pfxEmb, .exists_ kE1]] [0, 1, 0, 0, 1]) = true := by decide

/-- `Props.recovered_eq_live` on a store with a Bloom filter: durable writers of any keys and
    readers, every interleaving, all calls returned - the store recovered from the log alone
    answers `get` / `exists` / `scan` about every key as the live store does. -/
theorem bloom_store_recovered_eq_live (fp : Key → Bool) (progs : List ThreadProgram) (sched : List Nat)
    (h : ∀ p ∈ progs, ∀ op ∈ p, op.durableOrRead = true)
    (hq : quiescent (runSched true progs sched) = true) (k : Key) :
    view (recover (runSchedB fp true progs sched).sys.store.wal) k
      = view (runSchedB fp true progs sched).sys.store k := by
  rw [bloom_store_transparent]
  exact durable_order_eq_memory_order progs sched h hq k

/-- non-vacuity -/
example :
    (∀ p ∈ durableOrderProgs, ∀ op ∈ p, op.durableOrRead = true) ∧
    quiescent (runSched true durableOrderProgs [0, 1, 1, 0, 1, 1]) = true := by decide

/-! ### what linearizability says about the reader of `lateAddProgs` -/

/-- in ANY linearizable history: a key that a scan has listed is found by every `exists` and
    every `get` invoked after that scan returned, as long as the history holds no delete of the key
    (keys of the cache class excepted: the ring may evict).  This is the reader's side of "a read
    never returns a state older than one it is known to follow". -/
theorem linearizable_listed_key_is_found (recs : List OpRec) (hl : Linearizable recs)
    (k : Key) (hc : k.cls ≠ .cache) (hnd : ∀ r ∈ recs, r.op ≠ .delete k ∧ r.op ≠ .delD k)
    (a : OpRec) (ha : a ∈ recs) (p : List Nat) (ks : List Key) (hop : a.op = .scan p)
    (hres : a.res = .keys ks) (hk : k ∈ ks)
    (b : OpRec) (hb : b ∈ recs) (hab : a.ret < b.inv) :
    (b.op = .exists_ k → b.res ≠ .bool false) ∧ (b.op = .get k → b.res ≠ .notFound) := by
  by_cases hne : a = b
  · subst hne
    refine ⟨fun h => ?_, fun h => ?_⟩ <;> (rw [hop] at h; cases h)
  obtain ⟨order, hperm, hvalid, hrt⟩ := hl
  have ha' : a ∈ order := hperm.mem_iff.mpr ha
  have hb' : b ∈ order := hperm.mem_iff.mpr hb
  have hnd' : ∀ r ∈ order, r.op ≠ .delete k ∧ r.op ≠ .delD k := fun r hr => hnd r (hperm.mem_iff.mp hr)
  clear hperm ha hb hnd
  generalize ([] : Spec) = σ at hvalid
  induction order generalizing σ with
  | nil => simp at ha'
  | cons x xs ih =>
    obtain ⟨hx, hxs⟩ := hvalid
    have hrt' := List.pairwise_cons.mp hrt
    rcases List.mem_cons.mp ha' with rfl | ha''
    · -- the scan comes first: it saw the key, so the specification holds it from here on
      have hb'' : b ∈ xs := by
        rcases List.mem_cons.mp hb' with e | e
        · exact absurd e.symm hne
        · exact e
      have hs : (aget σ k).isSome = true := by
        rw [hop, hres] at hx
        rcases hx with hx | hx
        · simp only [resEquiv, specRes, specStep] at hx
          have := (List.mem_filter.mp (hx.1 hk)).1
          exact (mem_keys_iff σ k).mp this
        · simp [absentOk] at hx
      have hσ : specApply σ a.op = σ := by rw [hop]; rfl
      rw [hσ] at hxs
      exact seen_stays hc xs σ hxs hs (fun r hr => hnd' r (List.mem_cons_of_mem _ hr)) b hb''
    · rcases List.mem_cons.mp hb' with rfl | hb''
      · exact absurd hab (hrt'.1 a ha'')
      · exact ih hrt'.2 ha'' hb'' (fun r hr => hnd' r (List.mem_cons_of_mem _ hr)) _ hxs

/-- non-vacuity: the reader of `lateAddProgs` on the code as it is - scan lists `emb:1`, then
    exists says true and get finds the value; the history is the filter-free store's -/
example :
    (runSchedB (fun _ => false) false lateAddProgs lateAddSched).sys.hist.map (fun r => (r.t, r.i, r.res, r.inv, r.ret))
      = [(1, 0, .keys [kE1], 1, 1), (1, 1, .bool true, 2, 2), (0, 0, .ok, 0, 5), (1, 2, .found ⟨1, .good 1⟩, 3, 7)] := by
  decide

/-! ### NOT the code: `filter.add` after the router call -/

/-- THE STATEMENTS, over a step function of the filtered store -/
def FilterTransparent (f : (Key → Bool) → StepFn) : Prop :=
  ∀ (fp : Key → Bool) (walOn : Bool) (progs : List ThreadProgram) (sched : List Nat),
    (runFromG (f fp) (initB walOn progs) sched).sys = runSched walOn progs sched

def FilterCoversVisible (f : (Key → Bool) → StepFn) : Prop :=
  ∀ (fp : Key → Bool) (walOn : Bool) (progs : List ThreadProgram) (sched : List Nat) (k : Key),
    visible (runFromG (f fp) (initB walOn progs) sched).sys.store k = true →
      k ∈ (runFromG (f fp) (initB walOn progs) sched).added

/-- the code has both -/
theorem code_filter_transparent_and_covering : FilterTransparent stepOpB ∧ FilterCoversVisible stepOpB :=
  ⟨bloom_store_transparent, fun fp walOn progs sched => (filter_knows_every_visible_key fp walOn progs sched).1⟩

/-- `put` / `put_durable` that register the key with the filter once the router call has returned
    (`stepOpBLate`) lose both, at the granularity of the yield hooks on an `emb:` key: a writer
    creates `emb:1` and has taken its entity-index step; a reader's scan lists `emb:1`; the
    reader's `exists emb:1` is answered `false` and its `get emb:1` `NotFound` by the filter, which
    has not heard of the key yet; the writer finishes.  After the first step the key is visible and
    not in the filter; the history differs from the filter-free store's; and it is NOT
    LINEARIZABLE (a key seen by a scan, never deleted, then reported absent) - whereas the run of
    the code is (`bloom_store_transparent`).  The quiescent state is the same as the code's. -/
theorem late_add_witness :
    (runSchedBLate (fun _ => false) false lateAddProgs lateAddSched).sys.hist
      = [⟨1, 0, .scan pfxEmb, .keys [kE1], 1, 1⟩, ⟨1, 1, .exists_ kE1, .bool false, 2, 2⟩,
         ⟨1, 2, .get kE1, .notFound, 3, 3⟩, ⟨0, 0, .put kE1 ⟨1, .good 1⟩, .ok, 0, 5⟩] ∧
    visible (runSchedBLate (fun _ => false) false lateAddProgs [0]).sys.store kE1 = true ∧
    (runSchedBLate (fun _ => false) false lateAddProgs [0]).added = [] ∧
    ¬ Linearizable (runSchedBLate (fun _ => false) false lateAddProgs lateAddSched).sys.hist ∧
    ¬ FilterTransparent stepOpBLate ∧ ¬ FilterCoversVisible stepOpBLate ∧
    view (runSchedBLate (fun _ => false) false lateAddProgs lateAddSched).sys.store kE1
      = view (runSched false lateAddProgs lateAddSched).store kE1 ∧
    (runSchedBLate (fun _ => false) false lateAddProgs lateAddSched).added = [kE1] := by
  have hh : (runSchedBLate (fun _ => false) false lateAddProgs lateAddSched).sys.hist
      = [⟨1, 0, .scan pfxEmb, .keys [kE1], 1, 1⟩, ⟨1, 1, .exists_ kE1, .bool false, 2, 2⟩,
         ⟨1, 2, .get kE1, .notFound, 3, 3⟩, ⟨0, 0, .put kE1 ⟨1, .good 1⟩, .ok, 0, 5⟩] := by decide
  refine ⟨hh, by decide, by decide, ?_, ?_, ?_, by decide, by decide⟩
  · intro hl
    rw [hh] at hl
    have := (linearizable_listed_key_is_found _ hl kE1 (by decide) (by decide)
      ⟨1, 0, .scan pfxEmb, .keys [kE1], 1, 1⟩ (by simp) pfxEmb [kE1] rfl rfl (by simp)
      ⟨1, 1, .exists_ kE1, .bool false, 2, 2⟩ (by simp) (by decide)).1 rfl
    exact this rfl
  · intro h
    have := congrArg (fun s => s.hist.map (·.res)) (h (fun _ => false) false lateAddProgs lateAddSched)
    revert this
    decide
  · intro h
    have := h (fun _ => false) false lateAddProgs [0] kE1 (by decide)
    revert this
    decide

/-- the variant differs from the code ONLY in that window: run sequentially (one thread: put,
    exists, get, scan, delete, exists, put again) it gives the same history and the same filter -/
example :
    (runSchedBLate (fun _ => false) false
        [[.put kE1 ⟨1, .good 1⟩, .exists_ kE1, .get kE1, .scan pfxEmb, .delete kE1, .exists_ kE1, .put kP1 ⟨2, .none⟩, .get kP1]]
        [0, 0, 0, 0, 0, 0, 0, 0, 0, 0, 0, 0, 0, 0, 0]).sys.hist
      = (runSchedB (fun _ => false) false
        [[.put kE1 ⟨1, .good 1⟩, .exists_ kE1, .get kE1, .scan pfxEmb, .delete kE1, .exists_ kE1, .put kP1 ⟨2, .none⟩, .get kP1]]
        [0, 0, 0, 0, 0, 0, 0, 0, 0, 0, 0, 0, 0, 0, 0]).sys.hist ∧
    (runSchedBLate (fun _ => false) false
        [[.put kE1 ⟨1, .good 1⟩, .exists_ kE1, .get kE1, .scan pfxEmb, .delete kE1, .exists_ kE1, .put kP1 ⟨2, .none⟩, .get kP1]]
        [0, 0, 0, 0, 0, 0, 0, 0, 0, 0, 0, 0, 0, 0, 0]).sys.hist.map (·.res)
      = [.ok, .bool true, .found ⟨1, .good 1⟩, .keys [kE1, kE1], .ok, .bool false, .ok, .found ⟨2, .none⟩] := by
  decide

/-! ### (B) between any two single calls -/

/-- FULL STRENGTH at the granularity of single filter / router calls (other threads run between
    `filter.add` and `router.put`, between `might_contain` and `router.get`, between the steps of
    the router and between the return of the router call and the return of the method): for ANY
    initial slabs (a store created empty, or loaded with the filter rebuilt from `scan("")`), every
    number of threads, every program, with or without the log, every interleaving, every
    false-positive behaviour, stopped anywhere - every visible key is in the filter. -/
theorem filter_knows_every_visible_key_between_any_two_calls (bloomOn : Bool) (fp : Key → Bool)
    (s : Store) (progs : List ThreadProgram) (sched : List Nat) :
    let sys := frun bloomOn false fp s progs sched
    (∀ k, visible sys.store k = true → k ∈ sys.added) ∧
    (∀ p k, k ∈ scanNow sys.store p → mightContain fp sys.added k = true) := by
  intro sys
  have inv : FInv sys := (FInv.init s progs).run bloomOn fp sched
  exact ⟨inv.cov, fun p k h => by simp [mightContain, inv.cov k (scanNow_visible h)]⟩

/-- hence, in every state reachable at that granularity: whenever a thread is about to take the
    negative fast path of `get` / `exists` (it is at the prologue and the filter says "no"), the
    router call it skips would, made at that very moment, have answered the same and changed
    nothing.  The fast path never changes an answer. -/
theorem fast_path_answers_what_the_router_would (fp : Key → Bool) (s : Store)
    (progs : List ThreadProgram) (sched : List Nat) (k : Key)
    (hm : mightContain fp (frun true false fp s progs sched).added k = false) :
    let sys := frun true false fp s progs sched
    stepOp sys.store (.get k) .start = (sys.store, .done .notFound) ∧
    stepOp sys.store (.exists_ k) .start = (sys.store, .done (.bool false)) := by
  intro sys
  have inv : FInv sys := (FInv.init s progs).run true fp sched
  have hv : visible sys.store k = false := by
    cases hv : visible sys.store k with
    | false => rfl
    | true =>
      have := inv.cov k hv
      simp only [mightContain, Bool.or_eq_false_iff, decide_eq_false_iff_not] at hm
      exact absurd this hm.2
  exact ⟨routerGet_invisible hv, by simp only [stepOp]; rw [existsNow_invisible hv]⟩

/-- non-vacuity: the plain-key reader of `lateAddFineProgs` with the writer parked between the
    return of `router.put` and the return of `put` (and a reader of a key nobody wrote, answered by
    the filter) -/
example :
    (frun true false (fun _ => false) {} lateAddFineProgs lateAddFineSched).hist
      = [⟨1, .scan pfxUser, .keys [kP1]⟩, ⟨1, .exists_ kP1, .bool true⟩, ⟨1, .get kP1, .found ⟨1, .none⟩⟩,
         ⟨0, .put kP1 ⟨1, .none⟩, .ok⟩] ∧
    mightContain (fun _ => false) (frun true false (fun _ => false) {} lateAddFineProgs [0, 0]).added (mkKey .plain 2) = false ∧
    (frun true false (fun _ => false) {} [[.put kP1 ⟨1, .none⟩], [.get (mkKey .plain 2)]] [0, 0, 1]).hist
      = [⟨1, .get (mkKey .plain 2), .notFound⟩] := by decide

/-- NOT the code, on a PLAIN key: with `filter.add` after the router call (`late`), the writer of
    `user:1` parked between the return of `router.put` (the value is visible) and `filter.add`, a
    reader's scan lists `user:1`, then its `exists` says false and its `get` NotFound.  The window
    lies inside ONE step of the hook-granularity machine (no yield hook between the router call
    and the return of `put`): on keys that are not `emb:` keys only this finer machine shows it. -/
theorem late_add_fine_witness :
    (frun true true (fun _ => false) {} lateAddFineProgs lateAddFineSched).hist
      = [⟨1, .scan pfxUser, .keys [kP1]⟩, ⟨1, .exists_ kP1, .bool false⟩, ⟨1, .get kP1, .notFound⟩,
         ⟨0, .put kP1 ⟨1, .none⟩, .ok⟩] ∧
    visible (frun true true (fun _ => false) {} lateAddFineProgs [0, 0]).store kP1 = true ∧
    (frun true true (fun _ => false) {} lateAddFineProgs [0, 0]).added = [] ∧
    -- the same variant on a store WITHOUT a filter, and the quiescent state, are the code's
    (frun false true (fun _ => false) {} lateAddFineProgs lateAddFineSched).hist
      = (frun true false (fun _ => false) {} lateAddFineProgs lateAddFineSched).hist ∧
    (frun true true (fun _ => false) {} lateAddFineProgs lateAddFineSched).store.md
      = (frun true false (fun _ => false) {} lateAddFineProgs lateAddFineSched).store.md ∧
    (frun true true (fun _ => false) {} lateAddFineProgs lateAddFineSched).added = [kP1] := by
  decide

end Neumann.KV.BloomProps
