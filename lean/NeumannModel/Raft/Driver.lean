import NeumannModel.Common.Proto
import NeumannModel.Raft.Model
import NeumannModel.Raft.Snap
/- Line-protocol driver for the Raft model (C01). State = config + nodes. -/
open Neumann Neumann.Proto Neumann.Raft

structure Cluster where
  cfg : Config := { n := 3 }
  nodes : List Node := []

def showOptNat : Option Nat → String
  | none => "-" | some x => toString x

def showEntries (es : List Entry) : String :=
  if es.isEmpty then "-" else ",".intercalate (es.map fun e => s!"{e.term}:{e.payload}")

def parseEntries (s : String) : Option (List Entry) :=
  if s = "-" then some [] else
    (s.splitOn ",").mapM fun p =>
      match p.splitOn ":" with
      | [a, b] => do
        let t ← a.toNat?
        let v ← b.toNat?
        pure ⟨t, v⟩
      | _ => none

def showBool (b : Bool) : String := if b then "1" else "0"

def showMsg : Msg → String
  | .requestVote t c li lt => s!"rv {t} {c} {li} {lt}"
  | .requestVoteResp t g v => s!"rvr {t} {showBool g} {v}"
  | .preVote t c li lt => s!"pv {t} {c} {li} {lt}"
  | .preVoteResp t g v => s!"pvr {t} {showBool g} {v}"
  | .appendEntries t l pi pt es lc => s!"ae {t} {l} {pi} {pt} {lc} {showEntries es}"
  | .appendEntriesResp t s f mi => s!"aer {t} {showBool s} {f} {mi}"
  | .timeoutNow t l => s!"tn {t} {l}"

def parseBool (s : String) : Option Bool :=
  if s = "1" then some true else if s = "0" then some false else none

def parseMsg : List String → Option Msg
  | ["rv", t, c, li, lt] => do pure (.requestVote (← t.toNat?) (← c.toNat?) (← li.toNat?) (← lt.toNat?))
  | ["rvr", t, g, v] => do pure (.requestVoteResp (← t.toNat?) (← parseBool g) (← v.toNat?))
  | ["pv", t, c, li, lt] => do pure (.preVote (← t.toNat?) (← c.toNat?) (← li.toNat?) (← lt.toNat?))
  | ["pvr", t, g, v] => do pure (.preVoteResp (← t.toNat?) (← parseBool g) (← v.toNat?))
  | ["ae", t, l, pi, pt, lc, es] => do
      pure (.appendEntries (← t.toNat?) (← l.toNat?) (← pi.toNat?) (← pt.toNat?) (← parseEntries es) (← lc.toNat?))
  | ["aer", t, s, f, mi] => do pure (.appendEntriesResp (← t.toNat?) (← parseBool s) (← f.toNat?) (← mi.toNat?))
  | ["tn", t, l] => do pure (.timeoutNow (← t.toNat?) (← l.toNat?))
  | _ => none

def sortPairs (l : List (Nat × Nat)) : List (Nat × Nat) :=
  l.foldr (fun p acc =>
    let rec ins : List (Nat × Nat) → List (Nat × Nat)
      | [] => [p]
      | q :: qs => if p.1 ≤ q.1 then p :: q :: qs else q :: ins qs
    ins acc) []

def showPairs (l : List (Nat × Nat)) : String :=
  if l.isEmpty then "-" else ",".intercalate ((sortPairs l).map fun p => s!"{p.1}:{p.2}")

def showRole : Role → String
  | .follower => "F" | .candidate => "C" | .leader => "L"

def showNode (nd : Node) : String :=
  s!"t={nd.term} v={showOptNat nd.votedFor} r={showRole nd.role} l={showOptNat nd.leaderId} c={nd.commit} " ++
  s!"pv={showBool nd.inPreVote} log={showEntries nd.log} votes={showNats (sortAsc nd.votes)} " ++
  s!"pvotes={showNats (sortAsc nd.preVotes)} ls={showBool nd.hasLeaderState} " ++
  (if nd.hasLeaderState then s!"next={showPairs nd.nextIdx} match={showPairs nd.matchIdx} bo={showPairs nd.backoff}"
   else "next=- match=- bo=-")

def getNode (cl : Cluster) (i : Nat) : Option Node := cl.nodes[i]?
def setNode (cl : Cluster) (i : Nat) (nd : Node) : Cluster := { cl with nodes := cl.nodes.set i nd }

def raftStep (cl : Cluster) (line : String) : Cluster × String :=
  let bad := (cl, "bad-op")
  match words line with
  | ["init", n, geo, ad, mp] =>
    match n.toNat?, parseBool geo, parseBool ad, mp.toNat? with
    | some n, some g, some a, some m =>
      ({ cfg := { n := n, geoTiebreak := g, adaptiveBackoff := a, maxBackoffPower := m },
         nodes := (List.range n).map fun i => { id := i } }, "ok")
    | _, _, _, _ => bad
  | ["timeout", i] =>
    match i.toNat? with
    | some i => match getNode cl i with
      | some nd => let (nd', m) := startElection nd; (setNode cl i nd', showMsg m ++ " || " ++ showNode nd')
      | none => bad
    | none => bad
  | ["prevote", i] =>
    match i.toNat? with
    | some i => match getNode cl i with
      | some nd => let (nd', m) := startPreVote nd; (setNode cl i nd', showMsg m ++ " || " ++ showNode nd')
      | none => bad
    | none => bad
  | "deliver" :: src :: dst :: h :: g :: e :: rest =>
    match src.toNat?, dst.toNat?, parseBool h, parseBool g, parseBool e, parseMsg rest with
    | some s, some d, some h, some g, some e, some m =>
      match getNode cl d with
      | some nd =>
        let (nd', r) := deliver cl.cfg nd s m h g e
        (setNode cl d nd', (match r with | some r => showMsg r | none => "none") ++ " || " ++ showNode nd')
      | none => bad
    | _, _, _, _, _, _ => bad
  | ["propose", i, p, a] =>
    match i.toNat?, p.toNat?, parseBool a with
    | some i, some p, some a => match getNode cl i with
      | some nd =>
        let (nd', r) := propose nd p a
        (setNode cl i nd', (match r with | some k => s!"idx {k}" | none => "none") ++ " || " ++ showNode nd')
      | none => bad
    | _, _, _ => bad
  | ["aefor", i, j] =>
    match i.toNat?, j.toNat? with
    | some i, some j => match getNode cl i with
      | some nd => (cl, match appendEntriesFor nd j with | some m => showMsg m | none => "none")
      | none => bad
    | _, _ => bad
  | ["crash", i] =>
    match i.toNat? with
    | some i => match getNode cl i with
      | some nd => let nd' := crashRestart nd; (setNode cl i nd', "ok || " ++ showNode nd')
      | none => bad
    | none => bad
  | ["snap", src, dst, k, fresh] =>
    -- leader `src`: finalize_to k + create_snapshot (its log up to k); `dst`: install_snapshot
    -- (`fresh` = the snapshot is newer than the last one `dst` installed since its start, else refused)
    match src.toNat?, dst.toNat?, k.toNat?, parseBool fresh with
    | some s, some d, some k, some fresh =>
      match getNode cl s, getNode cl d with
      | some sn, some dn =>
        let snap := sn.log.take k
        match snap.getLast? with
        | some last =>
          if fresh then
            let dn' := installSnapshot dn last.term snap
            (setNode cl d dn', "ok || " ++ showNode dn')
          else (cl, "refused || " ++ showNode dn)
        | none => bad
      | _, _ => bad
    | _, _, _, _ => bad
  | ["state", i] =>
    match i.toNat? with
    | some i => match getNode cl i with
      | some nd => (cl, showNode nd)
      | none => bad
    | none => bad
  | _ => bad

def main : IO Unit := run raftStep {}
