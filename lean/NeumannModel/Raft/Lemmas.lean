import NeumannModel.Raft.Model
/- Helper lemmas about the Raft handlers (C01). -/
namespace Neumann.Raft

theorem stepDown_of_gt (nd : Node) (t : Nat) (h : t > nd.term) :
    stepDown nd t = { nd with term := t, votedFor := none, role := .follower } := by
  simp [stepDown, h]

theorem stepDown_of_le (nd : Node) (t : Nat) (h : ¬ t > nd.term) : stepDown nd t = nd := by
  simp [stepDown, h]

@[simp] theorem stepDown_id (nd : Node) (t : Nat) : (stepDown nd t).id = nd.id := by
  unfold stepDown; split <;> rfl
@[simp] theorem stepDown_log (nd : Node) (t : Nat) : (stepDown nd t).log = nd.log := by
  unfold stepDown; split <;> rfl
@[simp] theorem stepDown_commit (nd : Node) (t : Nat) : (stepDown nd t).commit = nd.commit := by
  unfold stepDown; split <;> rfl
@[simp] theorem stepDown_votes (nd : Node) (t : Nat) : (stepDown nd t).votes = nd.votes := by
  unfold stepDown; split <;> rfl

theorem stepDown_term (nd : Node) (t : Nat) : (stepDown nd t).term = max nd.term t := by
  unfold stepDown; split
  · show t = max nd.term t; omega
  · show nd.term = max nd.term t; omega

theorem stepDown_term_ge (nd : Node) (t : Nat) : nd.term ≤ (stepDown nd t).term := by
  rw [stepDown_term]; omega

theorem aeAccept_msg (nd2 : Node) (pi : Nat) (es : List Entry) (lc : Nat) :
    (aeAccept nd2 pi es lc).2 = .appendEntriesResp nd2.term true nd2.id
      (min (pi + es.length) (appendLeaderEntries nd2.log (pi + 1) es).length) := rfl

theorem aeAccept_commit (nd2 : Node) (pi : Nat) (es : List Entry) (lc : Nat) :
    (aeAccept nd2 pi es lc).1.commit =
      if lc > nd2.commit then
        max nd2.commit (min lc (min (pi + es.length) (appendLeaderEntries nd2.log (pi + 1) es).length))
      else nd2.commit := rfl

end Neumann.Raft
