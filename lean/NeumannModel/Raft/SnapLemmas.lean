import NeumannModel.Raft.Snap
/-! Helper lemmas for `Raft/SnapProps.lean` (sorted-association-list facts, replay invariants,
    the records of a snapshot install). -/
namespace Neumann.Raft.Props

open Neumann.Raft

/-! ## association-list facts -/

theorem mem_wmInsert (k : Nat) (v : Entry) (m : List (Nat × Entry)) (p : Nat × Entry)
    (h : p ∈ wmInsert k v m) : p = (k, v) ∨ p ∈ m := by
  induction m with
  | nil =>
    simp only [wmInsert, List.mem_singleton] at h
    exact Or.inl h
  | cons hd t ih =>
    obtain ⟨k', v'⟩ := hd
    simp only [wmInsert] at h
    split at h
    · simp only [List.mem_cons] at h ⊢
      rcases h with h | h
      · exact Or.inr (Or.inl h)
      · rcases ih h with h | h
        · exact Or.inl h
        · exact Or.inr (Or.inr h)
    · split at h
      · simp only [List.mem_cons] at h ⊢
        rcases h with h | h
        · exact Or.inl h
        · exact Or.inr (Or.inr h)
      · simp only [List.mem_cons] at h ⊢
        rcases h with h | h | h
        · exact Or.inl h
        · exact Or.inr (Or.inl h)
        · exact Or.inr (Or.inr h)

theorem wmInsert_sorted (k : Nat) (v : Entry) (m : List (Nat × Entry)) (hs : KeySorted m) :
    KeySorted (wmInsert k v m) := by
  induction m with
  | nil => simp [wmInsert, KeySorted]
  | cons hd t ih =>
    obtain ⟨k', v'⟩ := hd
    have hs' := List.pairwise_cons.mp hs
    simp only [wmInsert]
    split
    · rename_i hlt
      refine List.pairwise_cons.mpr ⟨?_, ih hs'.2⟩
      intro p hp
      rcases mem_wmInsert k v t p hp with h | h
      · subst h; exact hlt
      · exact hs'.1 p h
    · split
      · rename_i _ heq
        refine List.pairwise_cons.mpr ⟨?_, hs'.2⟩
        intro p hp
        have := hs'.1 p hp
        simp only at this ⊢
        omega
      · rename_i hnlt hne
        refine List.pairwise_cons.mpr ⟨?_, hs⟩
        intro p hp
        simp only [List.mem_cons] at hp
        rcases hp with h | h
        · subst h; simp only; omega
        · have := hs'.1 p h
          simp only at this ⊢
          omega

theorem wmTrunc_sorted (f : Nat) (m : List (Nat × Entry)) (hs : KeySorted m) :
    KeySorted (wmTrunc f m) :=
  List.Pairwise.filter _ hs

theorem wmTrunc_eq_nil (f : Nat) (m : List (Nat × Entry)) (h : ∀ p ∈ m, f ≤ p.1) :
    wmTrunc f m = [] := by
  unfold wmTrunc
  rw [List.filter_eq_nil_iff]
  intro p hp
  have := h p hp
  simp only [decide_eq_true_eq]
  omega

theorem wmTrunc_eq_self (f : Nat) (m : List (Nat × Entry)) (h : ∀ p ∈ m, p.1 < f) :
    wmTrunc f m = m := by
  unfold wmTrunc
  rw [List.filter_eq_self]
  intro p hp
  simp only [decide_eq_true_eq]
  exact h p hp

/-- one insert at `b+1`, seen below `b+2`: everything below `b+1` survives, then the new pair -/
theorem wmTrunc_wmInsert (b : Nat) (e : Entry) (m : List (Nat × Entry)) (hs : KeySorted m) :
    wmTrunc (b + 2) (wmInsert (b + 1) e m) = wmTrunc (b + 1) m ++ [(b + 1, e)] := by
  induction m with
  | nil => simp [wmInsert, wmTrunc]
  | cons hd t ih =>
    obtain ⟨k', v'⟩ := hd
    have hs' := List.pairwise_cons.mp hs
    simp only [wmInsert]
    split
    · rename_i hlt
      have ih' := ih hs'.2
      have h1 : wmTrunc (b + 2) ((k', v') :: wmInsert (b + 1) e t)
          = (k', v') :: wmTrunc (b + 2) (wmInsert (b + 1) e t) := by
        unfold wmTrunc
        rw [List.filter_cons_of_pos]
        simp only [decide_eq_true_eq]; omega
      have h2 : wmTrunc (b + 1) ((k', v') :: t) = (k', v') :: wmTrunc (b + 1) t := by
        unfold wmTrunc
        rw [List.filter_cons_of_pos]
        simp only [decide_eq_true_eq]; exact hlt
      rw [h1, h2, ih', List.cons_append]
    · rename_i hnlt
      have htail : ∀ p ∈ t, b + 2 ≤ p.1 := by
        intro p hp
        have := hs'.1 p hp
        simp only at this
        omega
      have hR : wmTrunc (b + 1) ((k', v') :: t) = [] := by
        apply wmTrunc_eq_nil
        intro p hp
        simp only [List.mem_cons] at hp
        rcases hp with h | h
        · subst h; simp only; omega
        · have := htail p h; omega
      rw [hR, List.nil_append]
      split
      · have h1 : wmTrunc (b + 2) ((b + 1, e) :: t) = (b + 1, e) :: wmTrunc (b + 2) t := by
          unfold wmTrunc
          rw [List.filter_cons_of_pos]
          simp only [decide_eq_true_eq]; omega
        rw [h1, wmTrunc_eq_nil _ _ htail]
      · rename_i hne
        have h1 : wmTrunc (b + 2) ((b + 1, e) :: (k', v') :: t)
            = (b + 1, e) :: wmTrunc (b + 2) ((k', v') :: t) := by
          unfold wmTrunc
          rw [List.filter_cons_of_pos]
          simp only [decide_eq_true_eq]; omega
        rw [h1, wmTrunc_eq_nil]
        intro p hp
        simp only [List.mem_cons] at hp
        rcases hp with h | h
        · subst h; simp only; omega
        · exact htail p h

/-- inserting above every key appends -/
theorem wmInsert_above (k : Nat) (v : Entry) (m : List (Nat × Entry)) (h : ∀ p ∈ m, p.1 < k) :
    wmInsert k v m = m ++ [(k, v)] := by
  induction m with
  | nil => rfl
  | cons hd t ih =>
    obtain ⟨k', v'⟩ := hd
    have hk : k' < k := h (k', v') (List.mem_cons_self ..)
    simp only [wmInsert, if_pos hk, List.cons_append]
    rw [ih (fun p hp => h p (List.mem_cons_of_mem _ hp))]

/-! ## replay invariants -/

theorem walApply_sorted (m : List (Nat × Entry)) (r : WalRec) (hs : KeySorted m) :
    KeySorted (walApply m r) := by
  cases r with
  | full i e => exact wmInsert_sorted i e m hs
  | trunc f => exact wmTrunc_sorted f m hs
  | other => exact hs

theorem foldl_walApply_sorted (rs : List WalRec) (m : List (Nat × Entry)) (hs : KeySorted m) :
    KeySorted (rs.foldl walApply m) := by
  induction rs generalizing m with
  | nil => exact hs
  | cons r rs ih => exact ih _ (walApply_sorted m r hs)

theorem foldl_walApply_keys_pos (rs : List WalRec) (m : List (Nat × Entry))
    (hidx : ∀ i e, WalRec.full i e ∈ rs → 1 ≤ i) (hm : ∀ p ∈ m, 1 ≤ p.1) :
    ∀ p ∈ rs.foldl walApply m, 1 ≤ p.1 := by
  induction rs generalizing m with
  | nil => exact hm
  | cons r rs ih =>
    apply ih
    · intro i e h; exact hidx i e (List.mem_cons_of_mem _ h)
    · intro p hp
      cases r with
      | full i e =>
        rcases mem_wmInsert i e m p hp with h | h
        · subst h; exact hidx i e (List.mem_cons_self ..)
        · exact hm p h
      | trunc f =>
        exact hm p (List.mem_filter.mp hp).1
      | other => exact hm p hp

theorem walReplay_sorted (rs : List WalRec) : KeySorted (walReplay rs) :=
  foldl_walApply_sorted rs [] List.Pairwise.nil

theorem walReplay_keys_pos (rs : List WalRec) (hidx : ∀ i e, WalRec.full i e ∈ rs → 1 ≤ i) :
    ∀ p ∈ walReplay rs, 1 ≤ p.1 :=
  foldl_walApply_keys_pos rs [] hidx (fun _ h => nomatch h)

/-! ## the records of an install / of appends -/

/-- replaying `LogEntryFull b+1 .. b+len` over a sorted map, seen below `b+len+1` -/
theorem wmTrunc_foldl_fullRecs (es : List Entry) (b : Nat) (m : List (Nat × Entry))
    (hs : KeySorted m) :
    wmTrunc (b + es.length + 1) ((fullRecs b es).foldl walApply m)
      = wmTrunc (b + 1) m ++ wmIndexed b es := by
  induction es generalizing b m with
  | nil => simp [fullRecs, wmIndexed]
  | cons e es ih =>
    simp only [fullRecs, List.foldl_cons, walApply, wmIndexed, List.length_cons]
    have := ih (b + 1) (wmInsert (b + 1) e m) (wmInsert_sorted _ _ _ hs)
    have hlen : b + (es.length + 1) + 1 = b + 1 + es.length + 1 := by omega
    rw [hlen, this, wmTrunc_wmInsert b e m hs, List.append_assoc, List.singleton_append]

theorem wmIndexed_keys_lt (es : List Entry) (b : Nat) :
    ∀ p ∈ wmIndexed b es, p.1 < b + es.length + 1 := by
  induction es generalizing b with
  | nil => intro p hp; exact nomatch hp
  | cons e es ih =>
    intro p hp
    simp only [wmIndexed, List.mem_cons] at hp
    simp only [List.length_cons]
    rcases hp with h | h
    · subst h; simp only; omega
    · have := ih (b + 1) p h; omega

theorem wmIndexed_values (es : List Entry) (b : Nat) : (wmIndexed b es).map (·.2) = es := by
  induction es generalizing b with
  | nil => rfl
  | cons e es ih => simp only [wmIndexed, List.map_cons, ih]

/-- appends above every held key extend the map -/
theorem foldl_fullRecs_above (es : List Entry) (b : Nat) (m : List (Nat × Entry))
    (h : ∀ p ∈ m, p.1 < b + 1) :
    (fullRecs b es).foldl walApply m = m ++ wmIndexed b es := by
  induction es generalizing b m with
  | nil => simp [fullRecs, wmIndexed]
  | cons e es ih =>
    simp only [fullRecs, List.foldl_cons, walApply, wmIndexed]
    rw [wmInsert_above _ _ _ h, ih (b + 1), List.append_assoc, List.singleton_append]
    intro p hp
    simp only [List.mem_append, List.mem_singleton] at hp
    rcases hp with hp | hp
    · have := h p hp; omega
    · subst hp; simp only; omega

/-- after an install the replayed map is exactly the snapshot at indices `1 ..= len` -/
theorem walReplay_after_install (wal : List WalRec) (snap : List Entry)
    (hidx : ∀ i e, WalRec.full i e ∈ wal → 1 ≤ i) (hne : snap ≠ []) :
    walReplay (wal ++ installRecs snap) = wmIndexed 0 snap := by
  have hemp : snap.isEmpty = false := by
    cases snap with
    | nil => exact absurd rfl hne
    | cons _ _ => rfl
  unfold walReplay installRecs
  simp only [hemp, Bool.false_eq_true, if_false, List.foldl_append, List.foldl_cons,
    List.foldl_nil, walApply]
  have h := wmTrunc_foldl_fullRecs snap 0 (walReplay wal) (walReplay_sorted wal)
  simp only [Nat.zero_add] at h
  unfold walReplay at h
  rw [h]
  have hnil : wmTrunc 1 (List.foldl walApply [] wal) = [] :=
    wmTrunc_eq_nil 1 _ (walReplay_keys_pos wal hidx)
  rw [hnil, List.nil_append]

end Neumann.Raft.Props
