import NeumannModel.Raft.LogMatch
/-
  C01 — towards Leader Completeness / State-Machine Safety: provenance and soundness of
  acknowledgements and of the leader's `match_index` bookkeeping, for every reachable state.
-/
namespace Neumann.Raft

/-! ## more handler facts -/

/-- an AppendEntriesResponse leaves a node only as the answer to an AppendEntries; a success
    answer comes from the accept branch and acknowledges exactly `min (prev+len) |log'|` -/
theorem deliver_out_aer (c : Config) (nd : Node) (src : Nat) (m : Msg) (b1 b2 b3 : Bool)
    (T : Nat) (sc : Bool) (f mi : Nat)
    (h : (deliver c nd src m b1 b2 b3).2 = some (.appendEntriesResp T sc f mi)) :
    f = nd.id ∧ T = (deliver c nd src m b1 b2 b3).1.term ∧
    ∃ t l pi pt es lc, m = .appendEntries t l pi pt es lc ∧
      (sc = true → nd.term ≤ t ∧ t = T ∧ aeLogOk nd.log pi pt = true ∧
        (deliver c nd src m b1 b2 b3).1.log = appendLeaderEntries nd.log (pi + 1) es ∧
        mi = min (pi + es.length) (deliver c nd src m b1 b2 b3).1.log.length) := by
  cases m with
  | requestVote t' cand li lt =>
    simp only [deliver, handleRequestVote_eq] at h
    split at h <;> simp at h
  | requestVoteResp t' gr v => simp [deliver] at h
  | preVote t' cand li lt =>
    simp only [deliver, handlePreVote] at h
    split at h
    · split at h <;> simp at h
    · simp at h
  | preVoteResp t' gr v =>
    simp only [deliver, handlePreVoteResp] at h
    split at h
    · simp at h
    · split at h
      · simp at h
      · split at h
        · split at h
          · simp at h
          · split at h
            · simp [startElection] at h
            · simp at h
        · simp at h
  | appendEntriesResp t' sc' f' mi' => simp [deliver] at h
  | timeoutNow t' l' =>
    simp only [deliver, handleTimeoutNow] at h
    split at h
    · simp at h
    · split at h
      · simp at h
      · simp [startElection] at h
  | appendEntries t l pi pt es lc =>
    simp only [deliver, handleAppendEntries] at h ⊢
    have hge := stepDown_term_ge nd t
    have hterm := stepDown_term nd t
    by_cases h1 : t = (stepDown nd t).term
    · rw [if_pos h1] at h ⊢
      by_cases h2 : aeLogOk (stepDown nd t).log pi pt = true
      · simp only [h2, if_true] at h ⊢
        simp only [aeAccept, Option.some.injEq, Msg.appendEntriesResp.injEq, stepDown_id] at h
        obtain ⟨hT, hs, hf, hm⟩ := h
        refine ⟨hf.symm, by simp [aeAccept]; exact hT.symm, t, l, pi, pt, es, lc, rfl, fun _ => ?_⟩
        refine ⟨by omega, by rw [← hT]; exact h1, by simpa using h2, by simp [aeAccept], ?_⟩
        simp only [aeAccept, stepDown_log] at hm ⊢
        exact hm.symm
      · simp only [h2, Bool.false_eq_true, if_false] at h ⊢
        simp only [Option.some.injEq, Msg.appendEntriesResp.injEq, stepDown_id] at h
        obtain ⟨hT, hs, hf, hm⟩ := h
        refine ⟨hf.symm, hT.symm, t, l, pi, pt, es, lc, rfl, fun hsc => ?_⟩
        rw [← hs] at hsc; cases hsc
    · rw [if_neg h1] at h ⊢
      simp only [Option.some.injEq, Msg.appendEntriesResp.injEq, stepDown_id] at h
      obtain ⟨hT, hs, hf, hm⟩ := h
      refine ⟨hf.symm, hT.symm, t, l, pi, pt, es, lc, rfl, fun hsc => ?_⟩
      rw [← hs] at hsc; cases hsc

theorem tryAdvanceCommit_matchIdx (c : Config) (x : Node) :
    (tryAdvanceCommit c x).matchIdx = x.matchIdx ∧ (tryAdvanceCommit c x).role = x.role ∧
    (tryAdvanceCommit c x).term = x.term ∧ (tryAdvanceCommit c x).log = x.log := by
  unfold tryAdvanceCommit
  split
  · exact ⟨rfl, rfl, rfl, rfl⟩
  · split
    · exact ⟨rfl, rfl, rfl, rfl⟩
    · dsimp only; split <;> exact ⟨rfl, rfl, rfl, rfl⟩

theorem handleAER_matchIdx (c : Config) (nd : Node) (src t : Nat) (sc : Bool) (mi : Nat)
    (hl : (handleAppendEntriesResp c nd src t sc mi).role = .leader) :
    nd.role = .leader ∧
    ((handleAppendEntriesResp c nd src t sc mi).matchIdx = nd.matchIdx ∨
     (sc = true ∧ t = nd.term ∧
      (handleAppendEntriesResp c nd src t sc mi).matchIdx = alSet nd.matchIdx src mi)) := by
  unfold handleAppendEntriesResp at hl ⊢
  by_cases h1 : nd.role ≠ .leader
  · rw [if_pos h1] at hl; exact absurd hl h1
  · rw [if_neg h1] at hl ⊢
    have hlead : nd.role = .leader := Decidable.of_not_not h1
    by_cases h2 : t > nd.term
    · rw [if_pos h2] at hl; cases hl
    · rw [if_neg h2] at hl ⊢
      by_cases h3 : t < nd.term
      · rw [if_pos h3]; exact ⟨hlead, Or.inl rfl⟩
      · rw [if_neg h3] at hl ⊢
        by_cases h4 : nd.hasLeaderState = false
        · rw [if_pos h4]; exact ⟨hlead, Or.inl rfl⟩
        · rw [if_neg h4] at hl ⊢
          by_cases h5 : sc = true
          · rw [if_pos h5]
            rw [(tryAdvanceCommit_matchIdx c _).1]
            exact ⟨hlead, Or.inr ⟨h5, by omega, rfl⟩⟩
          · rw [if_neg h5]; exact ⟨hlead, Or.inl rfl⟩

/-- what a delivery can do to a node that is leader afterwards: it was leader and its
    `match_index` is unchanged or updated from a success response of its current term, or it
    was just elected with a fresh all-zero `match_index` -/
theorem deliver_matchIdx (c : Config) (nd : Node) (src : Nat) (m : Msg) (b1 b2 b3 : Bool)
    (hl : (deliver c nd src m b1 b2 b3).1.role = .leader) :
    (nd.role = .leader ∧
      ((deliver c nd src m b1 b2 b3).1.matchIdx = nd.matchIdx ∨
       ∃ f mi, m = .appendEntriesResp nd.term true f mi ∧
         (deliver c nd src m b1 b2 b3).1.matchIdx = alSet nd.matchIdx src mi)) ∨
    (nd.role = .candidate ∧
      (deliver c nd src m b1 b2 b3).1.matchIdx = (peers c nd.id).map (fun p => (p, 0))) := by
  cases m with
  | requestVote t cand li lt =>
    have hsd : (stepDown nd t).role = .leader → nd.role = .leader ∧ (stepDown nd t).matchIdx = nd.matchIdx := by
      intro h
      by_cases hgt : t > nd.term
      · rw [stepDown_of_gt nd t hgt] at h; cases h
      · rw [stepDown_of_le nd t hgt] at h ⊢; exact ⟨h, rfl⟩
    have heq : (deliver c nd src (.requestVote t cand li lt) b1 b2 b3).1
        = (handleRequestVote c nd t cand li lt b1 b2).1 := rfl
    rw [heq, handleRequestVote_eq] at hl ⊢
    split at hl
    · rename_i hc; rw [if_pos hc]
      exact Or.inl ⟨(hsd hl).1, Or.inl (hsd hl).2⟩
    · rename_i hc; rw [if_neg hc]
      exact Or.inl ⟨(hsd hl).1, Or.inl (hsd hl).2⟩
  | requestVoteResp t gr v =>
    have heq : (deliver c nd src (.requestVoteResp t gr v) b1 b2 b3).1
        = handleRequestVoteResp c nd src t gr := rfl
    rw [heq] at hl ⊢
    unfold handleRequestVoteResp at hl ⊢
    by_cases h1 : nd.role ≠ .candidate
    · rw [if_pos h1] at hl ⊢; exact Or.inl ⟨hl, Or.inl rfl⟩
    · rw [if_neg h1] at hl ⊢
      have hcand : nd.role = .candidate := Decidable.of_not_not h1
      by_cases h2 : t > nd.term
      · rw [if_pos h2] at hl; cases hl
      · rw [if_neg h2] at hl ⊢
        by_cases h3 : gr = true ∧ t = nd.term
        · rw [if_pos h3] at hl ⊢
          by_cases h4 : src ∈ nd.votes
          · rw [if_pos h4] at hl; rw [hcand] at hl; cases hl
          · rw [if_neg h4] at hl ⊢
            by_cases h5 : ({ nd with votes := nd.votes ++ [src] } : Node).votes.length ≥ c.quorum
            · rw [if_pos h5]
              exact Or.inr ⟨hcand, rfl⟩
            · rw [if_neg h5] at hl
              have : ({ nd with votes := nd.votes ++ [src] } : Node).role = nd.role := rfl
              rw [this, hcand] at hl; cases hl
        · rw [if_neg h3] at hl; rw [hcand] at hl; cases hl
  | preVote t cand li lt => exact Or.inl ⟨hl, Or.inl rfl⟩
  | preVoteResp t gr v =>
    have heq : (deliver c nd src (.preVoteResp t gr v) b1 b2 b3).1
        = (handlePreVoteResp c nd src t gr).1 := rfl
    rw [heq] at hl ⊢
    unfold handlePreVoteResp at hl ⊢
    by_cases h1 : nd.inPreVote = false
    · rw [if_pos h1] at hl ⊢; exact Or.inl ⟨hl, Or.inl rfl⟩
    · rw [if_neg h1] at hl ⊢
      by_cases h2 : t > nd.term
      · rw [if_pos h2] at hl; cases hl
      · rw [if_neg h2] at hl ⊢
        by_cases h3 : gr = true ∧ t = nd.term
        · rw [if_pos h3] at hl ⊢
          by_cases h4 : src ∈ nd.preVotes
          · rw [if_pos h4] at hl ⊢; exact Or.inl ⟨hl, Or.inl rfl⟩
          · rw [if_neg h4] at hl ⊢
            by_cases h5 : ({ nd with preVotes := nd.preVotes ++ [src] } : Node).preVotes.length ≥ c.quorum
            · rw [if_pos h5] at hl; simp [startElection] at hl
            · rw [if_neg h5] at hl ⊢; exact Or.inl ⟨hl, Or.inl rfl⟩
        · rw [if_neg h3] at hl ⊢; exact Or.inl ⟨hl, Or.inl rfl⟩
  | appendEntries t l pi pt es lc =>
    have heq : (deliver c nd src (.appendEntries t l pi pt es lc) b1 b2 b3).1
        = (handleAppendEntries nd t l pi pt es lc).1 := rfl
    rw [heq] at hl ⊢
    have hlog := handleAppendEntries_log nd t l pi pt es lc
    by_cases hle : nd.term ≤ t
    · rw [hlog.2 hle] at hl; cases hl
    · -- a stale AppendEntries is rejected and the node is returned unchanged
      have hsd : stepDown nd t = nd := stepDown_of_le nd t (by omega)
      have hne : ¬ t = (stepDown nd t).term := by rw [hsd]; omega
      unfold handleAppendEntries at hl ⊢
      rw [if_neg hne] at hl ⊢
      rw [hsd] at hl ⊢
      exact Or.inl ⟨hl, Or.inl rfl⟩
  | appendEntriesResp t sc f mi =>
    have heq : (deliver c nd src (.appendEntriesResp t sc f mi) b1 b2 b3).1
        = handleAppendEntriesResp c nd src t sc mi := rfl
    rw [heq] at hl ⊢
    obtain ⟨h1, h2⟩ := handleAER_matchIdx c nd src t sc mi hl
    rcases h2 with h2 | ⟨hs, ht, h2⟩
    · exact Or.inl ⟨h1, Or.inl h2⟩
    · subst hs; subst ht
      exact Or.inl ⟨h1, Or.inr ⟨f, mi, rfl, h2⟩⟩
  | timeoutNow t l =>
    have heq : (deliver c nd src (.timeoutNow t l) b1 b2 b3).1
        = (handleTimeoutNow nd src t l).1 := rfl
    rw [heq] at hl ⊢
    unfold handleTimeoutNow at hl ⊢
    split at hl
    · rename_i h; rw [if_pos h]; exact Or.inl ⟨hl, Or.inl rfl⟩
    · rename_i h; rw [if_neg h]
      split at hl
      · rename_i h2; rw [if_pos h2]; exact Or.inl ⟨hl, Or.inl rfl⟩
      · simp [startElection] at hl

/-! ## invariant: term bounds, acknowledgement soundness, `match_index` soundness -/

structure CInv (c : Config) (s : Sys) : Prop where
  nodeTermBound : ∀ (i : Nat) (nd : Node), s.nodes[i]? = some nd → ∀ e ∈ nd.log, e.term ≤ nd.term
  canonTermBound : ∀ (t : Nat), ∀ e ∈ s.canon t, e.term ≤ t
  aerSrc : ∀ (src dst T : Nat) (sc : Bool) (f m : Nat),
    (src, dst, Msg.appendEntriesResp T sc f m) ∈ s.net → src = f
  ackElected : ∀ (src dst T f m : Nat),
    (src, dst, Msg.appendEntriesResp T true f m) ∈ s.net → TermElected s T
  /-- a success acknowledgement `(T, f, m)`: `f` has reached term `T`, `m` lies inside the
      canonical log of `T`, and while `f` stays in term `T` its log keeps that prefix -/
  ackSound : ∀ (src dst T f m : Nat),
    (src, dst, Msg.appendEntriesResp T true f m) ∈ s.net →
      ∃ nd : Node, s.nodes[f]? = some nd ∧ T ≤ nd.term ∧ m ≤ (s.canon T).length ∧
        (nd.term = T → nd.log.take m = (s.canon T).take m)
  /-- a positive `match_index` entry of a leader is backed by a success acknowledgement of
      its own term from that follower -/
  matchSound : ∀ (i : Nat) (nd : Node), s.nodes[i]? = some nd → nd.role = .leader →
    ∀ f m, alGet nd.matchIdx f = some m → 0 < m →
      ∃ dst, (f, dst, Msg.appendEntriesResp nd.term true f m) ∈ s.net

theorem alGet_alSet (l : List (Nat × Nat)) (k v k' : Nat) :
    alGet (alSet l k v) k' = if k' = k then some v else alGet l k' := by
  induction l with
  | nil =>
    simp only [alSet, alGet]
    by_cases h : k = k'
    · simp [h]
    · have : ¬ k' = k := fun e => h e.symm
      simp [h, this]
  | cons p rest ih =>
    obtain ⟨a, w⟩ := p
    simp only [alSet]
    by_cases hak : a = k
    · simp only [hak, if_true, alGet]
      by_cases h : k = k'
      · simp [h]
      · have : ¬ k' = k := fun e => h e.symm
        simp [h, this]
    · simp only [hak, if_false, alGet]
      by_cases h : a = k'
      · have : ¬ k' = k := by rw [← h]; exact hak
        simp [h, this]
      · simp only [h, if_false]; exact ih

theorem alGet_map_zero (ps : List Nat) (k m : Nat)
    (h : alGet (ps.map (fun p => (p, 0))) k = some m) : m = 0 := by
  induction ps with
  | nil => simp [alGet] at h
  | cons p rest ih =>
    simp only [List.map, alGet] at h
    split at h
    · simp at h; exact h.symm
    · exact ih h

theorem cinv_init (c : Config) : CInv c (initSys c) := by
  have hget : ∀ (i : Nat) (nd : Node), (initSys c).nodes[i]? = some nd → nd = { id := i } := by
    intro i nd h
    simp only [initSys] at h
    rw [List.getElem?_map] at h
    by_cases hi : i < c.n
    · rw [List.getElem?_range hi] at h
      simp only [Option.map_some, Option.some.injEq] at h
      exact h.symm
    · rw [List.getElem?_eq_none (by simp; omega)] at h; simp at h
  refine ⟨?_, ?_, ?_, ?_, ?_, ?_⟩
  · intro i nd h e he; rw [hget i nd h] at he; simp at he
  · intro t e he; simp [initSys] at he
  · intro src dst T sc f m h; simp [initSys] at h
  · intro src dst T f m h; simp [initSys] at h
  · intro src dst T f m h; simp [initSys] at h
  · intro i nd h hr; rw [hget i nd h] at hr; simp at hr

/-- what the consistency check of an accepted AppendEntries establishes -/
theorem accept_facts (c : Config) (s : Sys) (hL : LMInv c s) (i : Nat) (nd : Node)
    (hnd : s.nodes[i]? = some nd) (src T l pi pt : Nat) (es : List Entry) (lc : Nat)
    (hmsg : (src, i, Msg.appendEntries T l pi pt es lc) ∈ s.net)
    (hok : aeLogOk nd.log pi pt = true) :
    pi + es.length ≤ (s.canon T).length ∧
    Canon s.canon ((s.canon T).take (pi + es.length)) ∧
    nd.log.take pi = ((s.canon T).take (pi + es.length)).take pi ∧
    ((s.canon T).take (pi + es.length)).drop pi = es := by
  obtain ⟨_, _, _, hseg, hpt⟩ := hL.aeOk src i T l pi pt es lc hmsg
  have hpi : pi ≤ (s.canon T).length := by
    rcases hpt with h | h
    · omega
    · obtain ⟨h0, e, he, _⟩ := termAt_some _ _ _ h
      have := getElem?_lt _ _ e he; omega
  have hlen : pi + es.length ≤ (s.canon T).length := by
    have := congrArg List.length hseg
    simp only [List.length_append, List.length_take] at this
    omega
  refine ⟨hlen, canon_take _ _ _ (hL.canonCanon T), ?_, ?_⟩
  · rw [List.take_take, Nat.min_eq_left (by omega)]
    by_cases hp0 : pi = 0
    · simp [hp0]
    · have hpt' : termAt (s.canon T) pi = some pt := by
        rcases hpt with h | h
        · exact absurd h hp0
        · exact h
      unfold aeLogOk at hok
      rw [if_neg hp0] at hok
      split at hok
      · simp only [decide_eq_true_eq] at hok
        obtain ⟨_, e1, he1, ht1⟩ := termAt_some _ _ _ hok
        obtain ⟨_, e2, he2, ht2⟩ := termAt_some _ _ _ hpt'
        have h1 := hL.nodeCanon i nd hnd (pi - 1) e1 he1
        have h2 := hL.canonCanon T (pi - 1) e2 he2
        rw [show pi - 1 + 1 = pi by omega] at h1 h2
        rw [h1, h2, ht1, ht2]
      · cases hok
  · rw [← hseg, List.drop_append_of_le_length (by simp; omega)]
    rw [List.drop_of_length_le (by simp)]; simp

/-- the four ways a single node step can touch log / role / match_index -/
def Kind (c : Config) (s : Sys) (i : Nat) (nd nd' : Node) : Prop :=
  (nd'.log = nd.log ∧ (nd'.role = .leader → nd.role = .leader ∧ nd'.term = nd.term ∧
      (nd'.matchIdx = nd.matchIdx ∨
        ∃ src f mi, (src, i, Msg.appendEntriesResp nd.term true f mi) ∈ s.net ∧
          nd'.matchIdx = alSet nd.matchIdx src mi)))
  ∨ (nd.role = .candidate ∧ nd'.role = .leader ∧ nd'.term = nd.term ∧ nd'.log = nd.log ∧
      nd'.matchIdx = (peers c nd.id).map (fun p => (p, 0)))
  ∨ (nd.role = .leader ∧ ∃ p, nd' = { nd with log := nd.log ++ [⟨nd.term, p⟩] })
  ∨ (nd'.role = .follower ∧ ∃ src l pi pt es lc,
      (src, i, Msg.appendEntries nd'.term l pi pt es lc) ∈ s.net ∧
      aeLogOk nd.log pi pt = true ∧ nd'.log = appendLeaderEntries nd.log (pi + 1) es)

/-- messages a step may add, as far as acknowledgements are concerned -/
def MsgsC (s : Sys) (i : Nat) (nd nd' : Node) (msgs : List (Nat × Nat × Msg)) : Prop :=
  ∀ (a b : Nat) (m : Msg), (a, b, m) ∈ msgs → a = i ∧
    ∀ T sc f mi, m = Msg.appendEntriesResp T sc f mi → f = i ∧ T = nd'.term ∧
      (sc = true → ∃ src l pi pt es lc,
        (src, i, Msg.appendEntries nd'.term l pi pt es lc) ∈ s.net ∧
        aeLogOk nd.log pi pt = true ∧ nd'.log = appendLeaderEntries nd.log (pi + 1) es ∧
        mi = min (pi + es.length) nd'.log.length)

theorem canon_setNode_ext (c : Config) (s : Sys) (i : Nat) (nd nd' : Node)
    (msgs : List (Nat × Nat × Msg)) (hL : LMInv c s)
    (hI' : Inv c (setNode s i nd' nd msgs)) (hL' : LMInv c (setNode s i nd' nd msgs))
    (hnd : s.nodes[i]? = some nd) (hk : Kind c s i nd nd') (T : Nat) (hT : TermElected s T) :
    ∃ x, (setNode s i nd' nd msgs).canon T = s.canon T ++ x := by
  simp only [setNode]
  by_cases hl : nd'.role = .leader
  · rw [if_pos hl]
    by_cases hTt : T = nd'.term
    · simp only [hTt, if_true]
      rcases hk with ⟨hlog, hq⟩ | ⟨hr, _, hterm, hlog, _⟩ | ⟨hr, p, hp⟩ | ⟨hr', _⟩
      · obtain ⟨hr, hterm, _⟩ := hq hl
        exact ⟨[], by rw [hlog, hterm, ← hL.leaderCanon i nd hnd hr]; simp⟩
      · -- elected: the term had no election before
        exfalso
        obtain ⟨j, vs, hj⟩ := hT
        have hnl : nd.role ≠ .leader := by rw [hr]; intro h; cases h
        have hel : (setNode s i nd' nd msgs).elected = s.elected ++ [(nd'.term, i, nd'.votes)] := by
          simp only [setNode]; rw [if_pos ⟨hnl, hl⟩]
        have h1 : (T, j, vs) ∈ (setNode s i nd' nd msgs).elected := by
          rw [hel]; exact List.mem_append_left _ hj
        have h2 : (T, i, nd'.votes) ∈ (setNode s i nd' nd msgs).elected := by
          rw [hel, hTt]; exact List.mem_append_right _ (by simp)
        have hji := elected_unique c _ hI' hL' T j i vs nd'.votes h1 h2
        subst hji
        rw [hTt, hterm] at hj
        exact hL.candNotElected j nd hnd hr vs hj
      · subst hp
        exact ⟨[⟨nd.term, p⟩], by
          show nd.log ++ [⟨nd.term, p⟩] = s.canon nd.term ++ [⟨nd.term, p⟩]
          rw [← hL.leaderCanon i nd hnd hr]⟩
      · rw [hr'] at hl; cases hl
    · simp only [hTt, if_false]; exact ⟨[], by simp⟩
  · rw [if_neg hl]; exact ⟨[], by simp⟩

theorem elected_mono_setNode (s : Sys) (i : Nat) (nd nd' : Node) (msgs : List (Nat × Nat × Msg))
    (x : Nat × Nat × List Nat) (h : x ∈ s.elected) : x ∈ (setNode s i nd' nd msgs).elected := by
  simp only [setNode]
  split
  · exact List.mem_append_left _ h
  · exact h

/-- entries `es` of an AppendEntries in flight are entries of its term's canonical log -/
theorem ae_entries_in_canon (c : Config) (s : Sys) (hL : LMInv c s) (src dst T l pi pt : Nat)
    (es : List Entry) (lc : Nat) (h : (src, dst, Msg.appendEntries T l pi pt es lc) ∈ s.net) :
    ∀ e ∈ es, e ∈ s.canon T := by
  intro e he
  obtain ⟨_, _, _, hseg, _⟩ := hL.aeOk src dst T l pi pt es lc h
  have : e ∈ (s.canon T).take (pi + es.length) := by
    rw [← hseg]; exact List.mem_append_right _ he
  exact List.mem_of_mem_take this

theorem cinv_setNode (c : Config) (s : Sys) (i : Nat) (nd nd' : Node)
    (msgs : List (Nat × Nat × Msg)) (hL : LMInv c s) (hC : CInv c s)
    (hI' : Inv c (setNode s i nd' nd msgs)) (hL' : LMInv c (setNode s i nd' nd msgs))
    (hnd : s.nodes[i]? = some nd) (hterm : nd.term ≤ nd'.term)
    (hk : Kind c s i nd nd') (hm : MsgsC s i nd nd' msgs) : CInv c (setNode s i nd' nd msgs) := by
  have hget : ∀ j, (s.nodes.set i nd')[j]? = if j = i then some nd' else s.nodes[j]? :=
    fun j => getElem?_set_of_some s.nodes i j nd nd' hnd
  have hnodes : (setNode s i nd' nd msgs).nodes = s.nodes.set i nd' := rfl
  have hnet : (setNode s i nd' nd msgs).net = s.net ++ msgs := rfl
  have hTE : ∀ t, TermElected s t → TermElected (setNode s i nd' nd msgs) t :=
    fun t ht => termElected_mono s _ (elected_mono_setNode s i nd nd' msgs) t ht
  have hext := canon_setNode_ext c s i nd nd' msgs hL hI' hL' hnd hk
  -- the new node respects the term bound
  have hbound' : ∀ e ∈ nd'.log, e.term ≤ nd'.term := by
    intro e he
    rcases hk with ⟨hlog, _⟩ | ⟨_, _, _, hlog, _⟩ | ⟨_, p, hp⟩ | ⟨_, src, l, pi, pt, es, lc, hmsg, _, hlog⟩
    · rw [hlog] at he; exact Nat.le_trans (hC.nodeTermBound i nd hnd e he) hterm
    · rw [hlog] at he; exact Nat.le_trans (hC.nodeTermBound i nd hnd e he) hterm
    · subst hp
      rcases List.mem_append.mp he with h | h
      · exact hC.nodeTermBound i nd hnd e h
      · simp only [List.mem_singleton] at h; subst h; exact Nat.le_refl _
    · rw [hlog] at he
      rcases appendLeaderEntries_mem es _ _ e he with h | h
      · exact Nat.le_trans (hC.nodeTermBound i nd hnd e h) hterm
      · exact hC.canonTermBound _ e (ae_entries_in_canon c s hL src i _ l pi pt es lc hmsg e h)
  refine ⟨?_, ?_, ?_, ?_, ?_, ?_⟩
  · -- nodeTermBound
    intro j ndj hj e he
    rw [hnodes, hget] at hj
    by_cases hji : j = i
    · rw [if_pos hji] at hj; cases hj; exact hbound' e he
    · rw [if_neg hji] at hj; exact hC.nodeTermBound j ndj hj e he
  · -- canonTermBound
    intro t e he
    simp only [setNode] at he
    split at he
    · by_cases ht : t = nd'.term
      · simp only [ht, if_true] at he; rw [ht]; exact hbound' e he
      · simp only [ht, if_false] at he; exact hC.canonTermBound t e he
    · exact hC.canonTermBound t e he
  · -- aerSrc
    intro src dst T sc f m h
    rw [hnet] at h
    rcases List.mem_append.mp h with h | h
    · exact hC.aerSrc src dst T sc f m h
    · obtain ⟨ha, hq⟩ := hm src dst _ h
      rw [ha, (hq T sc f m rfl).1]
  · -- ackElected
    intro src dst T f m h
    rw [hnet] at h
    rcases List.mem_append.mp h with h | h
    · exact hTE _ (hC.ackElected src dst T f m h)
    · obtain ⟨_, hq⟩ := hm src dst _ h
      obtain ⟨_, hT, hs⟩ := hq T true f m rfl
      obtain ⟨src', l, pi, pt, es, lc, hmsg, _⟩ := hs rfl
      obtain ⟨_, _, ⟨vs, hvs⟩, _⟩ := hL.aeOk src' i _ l pi pt es lc hmsg
      rw [hT]; exact hTE _ ⟨l, vs, hvs⟩
  · -- ackSound
    intro src dst T f m h
    rw [hnet] at h
    rcases List.mem_append.mp h with h | h
    · obtain ⟨ndf, hf, hle, hmlen, hpre⟩ := hC.ackSound src dst T f m h
      obtain ⟨x, hx⟩ := hext T (hC.ackElected src dst T f m h)
      have hmlen' : m ≤ ((setNode s i nd' nd msgs).canon T).length := by
        rw [hx, List.length_append]; omega
      have htake : ((setNode s i nd' nd msgs).canon T).take m = (s.canon T).take m := by
        rw [hx, List.take_append_of_le_length hmlen]
      rw [hnodes, hget]
      by_cases hfi : f = i
      · subst hfi
        rw [hnd] at hf; cases hf
        refine ⟨nd', by simp, Nat.le_trans hle hterm, hmlen', ?_⟩
        intro hT
        have hndT : nd.term = T := by omega
        have hold := hpre hndT
        have hmlog : m ≤ nd.log.length := by
          have := congrArg List.length hold
          simp only [List.length_take] at this; omega
        rw [htake, ← hold]
        rcases hk with ⟨hlog, _⟩ | ⟨_, _, _, hlog, _⟩ | ⟨_, p, hp⟩ | ⟨_, src', l, pi, pt, es, lc, hmsg, hok, hlog⟩
        · rw [hlog]
        · rw [hlog]
        · subst hp
          show (nd.log ++ [Entry.mk nd.term p]).take m = nd.log.take m
          rw [List.take_append_of_le_length hmlog]
        · rw [hlog]
          rw [hT] at hmsg
          obtain ⟨hlen, _, _, hdrop⟩ := accept_facts c s hL f nd hnd src' T l pi pt es lc hmsg hok
          apply appendLeaderEntries_take_stable es nd.log (pi + 1) m (by omega) hmlog
          intro j e hj hle'
          have hjlt : pi + j < m := by omega
          -- es[j] = (canon T)[pi + j]
          have hes : (s.canon T)[pi + j]? = some e := by
            have h1 : (((s.canon T).take (pi + es.length)).drop pi)[j]? = some e := by rw [hdrop]; exact hj
            rw [List.getElem?_drop, List.getElem?_take] at h1
            split at h1
            · exact h1
            · cases h1
          -- log[pi + j] = (canon T)[pi + j]
          have hlg : nd.log[pi + j]? = (s.canon T)[pi + j]? := by
            have h1 : (nd.log.take m)[pi + j]? = ((s.canon T).take m)[pi + j]? := by rw [hold]
            rw [List.getElem?_take, List.getElem?_take, if_pos hjlt, if_pos hjlt] at h1
            exact h1
          exact ⟨e, by rw [show pi + 1 + j - 1 = pi + j by omega, hlg, hes], rfl⟩
      · refine ⟨ndf, by rw [if_neg hfi]; exact hf, hle, hmlen', ?_⟩
        intro hT; rw [htake]; exact hpre hT
    · -- a new acknowledgement, just produced by node i
      obtain ⟨_, hq⟩ := hm src dst _ h
      obtain ⟨hf, hT, hs⟩ := hq T true f m rfl
      obtain ⟨src', l, pi, pt, es, lc, hmsg, hok, hlog, hmi⟩ := hs rfl
      subst hf
      rw [← hT] at hmsg
      obtain ⟨hlen, hMc, hpre, hdrop⟩ := accept_facts c s hL f nd hnd src' T l pi pt es lc hmsg hok
      obtain ⟨_, _, ⟨vs, hvs⟩, _⟩ := hL.aeOk src' f T l pi pt es lc hmsg
      obtain ⟨x, hx⟩ := hext T ⟨l, vs, hvs⟩
      have hmle : m ≤ pi + es.length := by rw [hmi]; exact Nat.min_le_left _ _
      refine ⟨nd', by rw [hnodes, hget]; simp, by omega, by rw [hx, List.length_append]; omega, ?_⟩
      intro _
      have hp := appendLeaderEntries_prefix s.canon _ hMc es nd.log (pi + 1) (by omega)
        (hL.nodeCanon f nd hnd) (by rw [show pi + 1 - 1 = pi by omega]; exact hpre)
        (by rw [show pi + 1 - 1 = pi by omega]; exact hdrop)
      rw [show pi + 1 - 1 + es.length = pi + es.length by omega] at hp
      rw [← hlog] at hp
      have h1 : nd'.log.take m = (nd'.log.take (pi + es.length)).take m := by
        rw [List.take_take, Nat.min_eq_left hmle]
      rw [h1, hp, List.take_take, List.take_take, Nat.min_eq_left hmle, Nat.min_eq_left hmle,
        hx, List.take_append_of_le_length (by omega)]
  · -- matchSound
    intro j ndj hj hr f m hg hpos
    rw [hnodes, hget] at hj
    by_cases hji : j = i
    · rw [if_pos hji] at hj; cases hj; subst hji
      rcases hk with ⟨_, hq⟩ | ⟨_, _, _, _, hmi⟩ | ⟨hr0, p, hp⟩ | ⟨hr', _⟩
      · obtain ⟨hr0, ht, hmatch⟩ := hq hr
        rw [ht]
        rcases hmatch with hsame | ⟨src, f', mi, hmsg, hset⟩
        · rw [hsame] at hg
          obtain ⟨dst, hd⟩ := hC.matchSound j nd hnd hr0 f m hg hpos
          exact ⟨dst, by rw [hnet]; exact List.mem_append_left _ hd⟩
        · rw [hset, alGet_alSet] at hg
          by_cases hfs : f = src
          · rw [if_pos hfs] at hg
            simp only [Option.some.injEq] at hg
            have := hC.aerSrc src j nd.term true f' mi hmsg
            subst hfs; subst hg; subst this
            exact ⟨j, by rw [hnet]; exact List.mem_append_left _ hmsg⟩
          · rw [if_neg hfs] at hg
            obtain ⟨dst, hd⟩ := hC.matchSound j nd hnd hr0 f m hg hpos
            exact ⟨dst, by rw [hnet]; exact List.mem_append_left _ hd⟩
      · rw [hmi] at hg
        have := alGet_map_zero _ _ _ hg
        omega
      · subst hp
        obtain ⟨dst, hd⟩ := hC.matchSound j nd hnd hr0 f m hg hpos
        exact ⟨dst, by rw [hnet]; exact List.mem_append_left _ hd⟩
      · rw [hr'] at hr; cases hr
    · rw [if_neg hji] at hj
      obtain ⟨dst, hd⟩ := hC.matchSound j ndj hj hr f m hg hpos
      exact ⟨dst, by rw [hnet]; exact List.mem_append_left _ hd⟩

theorem handleAppendEntries_term (nd : Node) (t l pi pt : Nat) (es : List Entry) (lc : Nat)
    (hle : nd.term ≤ t) : (handleAppendEntries nd t l pi pt es lc).1.term = t := by
  unfold handleAppendEntries
  have hterm := stepDown_term nd t
  have h1 : t = (stepDown nd t).term := by rw [hterm]; omega
  rw [if_pos h1]
  by_cases h2 : aeLogOk (stepDown nd t).log pi pt = true
  · simp only [h2, if_true, aeAccept]; exact h1.symm
  · simp only [h2, Bool.false_eq_true, if_false]; exact h1.symm

theorem msgsC_noAER (s : Sys) (i : Nat) (nd nd' : Node) (msgs : List (Nat × Nat × Msg))
    (h1 : ∀ a b m, (a, b, m) ∈ msgs → a = i)
    (h2 : ∀ a b m, (a, b, m) ∈ msgs → ∀ T sc f mi, m ≠ Msg.appendEntriesResp T sc f mi) :
    MsgsC s i nd nd' msgs := by
  intro a b m h
  exact ⟨h1 a b m h, fun T sc f mi e => absurd e (h2 a b m h T sc f mi)⟩

/-- the `Kind` of any transition that leaves the log alone -/
theorem kind_of_logsame (c : Config) (s : Sys) (i : Nat) (nd nd' : Node) (g : Option Nat)
    (ht : NodeTrans c nd nd' g) (hlog : nd'.log = nd.log)
    (hmi : nd'.role = .leader →
      (nd.role = .leader ∧ (nd'.matchIdx = nd.matchIdx ∨
        ∃ src f mi, (src, i, Msg.appendEntriesResp nd.term true f mi) ∈ s.net ∧
          nd'.matchIdx = alSet nd.matchIdx src mi)) ∨
      (nd.role = .candidate ∧ nd'.matchIdx = (peers c nd.id).map (fun p => (p, 0)))) :
    Kind c s i nd nd' := by
  by_cases hl : nd'.role = .leader
  · rcases hmi hl with ⟨hr, hm⟩ | ⟨hr, hm⟩
    · left
      refine ⟨hlog, fun _ => ⟨hr, ?_, hm⟩⟩
      rcases ht.shape with sh | sh | sh | sh
      · rw [sh] at hl; cases hl
      · exact sh.2.1
      · rw [sh.1] at hl; cases hl
      · rw [hr] at sh; cases sh.1
    · right; left
      refine ⟨hr, hl, ?_, hlog, hm⟩
      rcases ht.shape with sh | sh | sh | sh
      · rw [sh] at hl; cases hl
      · rw [sh.1, hr] at hl; cases hl
      · rw [sh.1] at hl; cases hl
      · exact sh.2.1
  · left; exact ⟨hlog, fun h => absurd h hl⟩

/-- **Every step preserves `CInv`.** -/
theorem cinv_step (c : Config) (s : Sys) (st : Step) (hI : Inv c s) (hL : LMInv c s)
    (hC : CInv c s) : CInv c (sysStep c s st) := by
  have hI' := inv_step c s st hI
  have hL' := lm_step c s st hI hL
  cases st with
  | timeout i =>
    simp only [sysStep] at hI' hL' ⊢
    cases hnd : s.nodes[i]? with
    | none => exact hC
    | some nd =>
      rw [hnd] at hI' hL'
      simp only [] at hI' hL' ⊢
      have htr := startElection_trans c nd none
      apply cinv_setNode c s i nd _ _ hL hC hI' hL' hnd htr.term_le
      · exact kind_of_logsame c s i nd _ none htr rfl (fun h => by simp [startElection] at h)
      · apply msgsC_noAER
        · intro a b m h; exact (mem_broadcast c i _ a b m h).1
        · intro a b m h T sc f mi e
          rw [(mem_broadcast c i _ a b m h).2] at e; simp [startElection] at e
  | preVote i =>
    simp only [sysStep] at hI' hL' ⊢
    cases hnd : s.nodes[i]? with
    | none => exact hC
    | some nd =>
      rw [hnd] at hI' hL'
      simp only [] at hI' hL' ⊢
      have htr := startPreVote_trans c nd none
      apply cinv_setNode c s i nd _ _ hL hC hI' hL' hnd htr.term_le
      · refine kind_of_logsame c s i nd _ none htr rfl (fun h => ?_)
        have hr : nd.role = .leader := h
        exact Or.inl ⟨hr, Or.inl rfl⟩
      · apply msgsC_noAER
        · intro a b m h; exact (mem_broadcast c i _ a b m h).1
        · intro a b m h T sc f mi e
          rw [(mem_broadcast c i _ a b m h).2] at e; simp [startPreVote] at e
  | deliver k h1 h2 h3 =>
    simp only [sysStep] at hI' hL' ⊢
    cases hk : s.net[k]? with
    | none => exact hC
    | some x =>
      obtain ⟨src, dst, m⟩ := x
      rw [hk] at hI' hL'
      simp only [] at hI' hL' ⊢
      have hmem : (src, dst, m) ∈ s.net := List.mem_of_getElem? hk
      cases hnd : s.nodes[dst]? with
      | none => exact hC
      | some nd =>
        rw [hnd] at hI' hL'
        simp only [] at hI' hL' ⊢
        have hid : nd.id = dst := hI.ids dst nd hnd
        have htr := deliver_trans c nd src m h1 h2 h3
        -- match_index facts when the node is leader afterwards
        have hmi : (deliver c nd src m h1 h2 h3).1.role = .leader →
            (nd.role = .leader ∧ ((deliver c nd src m h1 h2 h3).1.matchIdx = nd.matchIdx ∨
              ∃ src' f mi, (src', dst, Msg.appendEntriesResp nd.term true f mi) ∈ s.net ∧
                (deliver c nd src m h1 h2 h3).1.matchIdx = alSet nd.matchIdx src' mi)) ∨
            (nd.role = .candidate ∧
              (deliver c nd src m h1 h2 h3).1.matchIdx = (peers c nd.id).map (fun p => (p, 0))) := by
          intro hl
          rcases deliver_matchIdx c nd src m h1 h2 h3 hl with ⟨hr, hq⟩ | hq
          · left
            refine ⟨hr, ?_⟩
            rcases hq with hq | ⟨f, mi, hmeq, hset⟩
            · exact Or.inl hq
            · exact Or.inr ⟨src, f, mi, by rw [← hmeq]; exact hmem, hset⟩
          · exact Or.inr hq
        -- messages
        have hmsgs : MsgsC s dst nd (deliver c nd src m h1 h2 h3).1
            (route c dst src (deliver c nd src m h1 h2 h3).2) := by
          intro a b m' hm'
          cases hout : (deliver c nd src m h1 h2 h3).2 with
          | none => rw [hout] at hm'; simp [route] at hm'
          | some out =>
            rw [hout] at hm'
            have hcases : (∃ t cand li lt, out = .requestVote t cand li lt) ∨
                (∀ t cand li lt, out ≠ .requestVote t cand li lt) := by
              cases out <;> simp
            rcases hcases with ⟨t, cand, li, lt, ho⟩ | hno
            · subst ho
              simp only [route] at hm'
              obtain ⟨ha, hm2⟩ := mem_broadcast c dst _ a b m' hm'
              exact ⟨ha, fun T sc f mi e => by rw [hm2] at e; cases e⟩
            · have hr : route c dst src (some out) = [(dst, src, out)] := by
                cases out <;> first | rfl | (exfalso; exact hno _ _ _ _ rfl)
              rw [hr] at hm'
              simp only [List.mem_singleton, Prod.mk.injEq] at hm'
              obtain ⟨ha, _, hm2⟩ := hm'
              refine ⟨ha, fun T sc f mi e => ?_⟩
              rw [hm2] at e; rw [e] at hout
              obtain ⟨hf, hT, t, l, pi, pt, es, lc, hmin, hs⟩ :=
                deliver_out_aer c nd src m h1 h2 h3 T sc f mi hout
              refine ⟨by rw [hf, hid], hT, fun hsc => ?_⟩
              obtain ⟨_, htT, hok, hlog, hmi'⟩ := hs hsc
              subst hmin
              refine ⟨src, l, pi, pt, es, lc, ?_, hok, hlog, hmi'⟩
              rw [← hT, ← htT]; exact hmem
        apply cinv_setNode c s dst nd _ _ hL hC hI' hL' hnd htr.term_le _ hmsgs
        by_cases hae : ∃ t l pi pt es lc, m = Msg.appendEntries t l pi pt es lc
        · obtain ⟨t, l, pi, pt, es, lc, rfl⟩ := hae
          have hl := handleAppendEntries_log nd t l pi pt es lc
          have hdl : (deliver c nd src (Msg.appendEntries t l pi pt es lc) h1 h2 h3).1
              = (handleAppendEntries nd t l pi pt es lc).1 := rfl
          rcases hl.1 with hsame | ⟨hle, hok, hacc⟩
          · exact kind_of_logsame c s dst nd _ _ htr (by rw [hdl]; exact hsame) hmi
          · right; right; right
            refine ⟨by rw [hdl]; exact hl.2 hle, src, l, pi, pt, es, lc, ?_, hok, by rw [hdl]; exact hacc⟩
            rw [hdl, handleAppendEntries_term nd t l pi pt es lc hle]; exact hmem
        · have hlog := deliver_log_other c nd src m h1 h2 h3
            (by intro t l pi pt es lc h; exact hae ⟨t, l, pi, pt, es, lc, h⟩)
          exact kind_of_logsame c s dst nd _ _ htr hlog hmi
  | propose i p a =>
    simp only [sysStep] at hI' hL' ⊢
    cases hnd : s.nodes[i]? with
    | none => exact hC
    | some nd =>
      rw [hnd] at hI' hL'
      simp only [] at hI' hL' ⊢
      have hm0 : MsgsC s i nd (propose nd p a).1 [] := by intro a b m h; simp at h
      rcases propose_log nd p a with h | ⟨hr, h⟩
      · rw [h] at hI' hL' hm0 ⊢
        exact cinv_setNode c s i nd nd [] hL hC hI' hL' hnd (Nat.le_refl _)
          (kind_of_logsame c s i nd nd none (NodeTrans.refl c nd none) rfl
            (fun hl => Or.inl ⟨hl, Or.inl rfl⟩)) hm0
      · rw [h] at hI' hL' hm0 ⊢
        exact cinv_setNode c s i nd _ [] hL hC hI' hL' hnd (Nat.le_refl _)
          (Or.inr (Or.inr (Or.inl ⟨hr, p, rfl⟩))) hm0
  | replicate i j =>
    simp only [sysStep] at hI' hL' ⊢
    split
    · exact hC
    · cases hnd : s.nodes[i]? with
      | none => exact hC
      | some nd =>
        simp only []
        cases hae : appendEntriesFor nd j with
        | none => exact hC
        | some m =>
          simp only []
          obtain ⟨_, pi, pt, es, rfl, _, _⟩ := appendEntriesFor_spec nd j m hae
          refine ⟨hC.nodeTermBound, hC.canonTermBound, ?_, ?_, ?_, ?_⟩
          · intro src dst T sc f m' h
            rcases List.mem_append.mp h with h | h
            · exact hC.aerSrc src dst T sc f m' h
            · simp at h
          · intro src dst T f m' h
            rcases List.mem_append.mp h with h | h
            · exact hC.ackElected src dst T f m' h
            · simp at h
          · intro src dst T f m' h
            rcases List.mem_append.mp h with h | h
            · exact hC.ackSound src dst T f m' h
            · simp at h
          · intro i' nd' hi' hr f m' hg hpos
            obtain ⟨dst, hd⟩ := hC.matchSound i' nd' hi' hr f m' hg hpos
            exact ⟨dst, List.mem_append_left _ hd⟩
  | crash i =>
    simp only [sysStep] at hI' hL' ⊢
    cases hnd : s.nodes[i]? with
    | none => exact hC
    | some nd =>
      rw [hnd] at hI' hL'
      simp only [] at hI' hL' ⊢
      have htr := crash_trans c nd none
      apply cinv_setNode c s i nd _ [] hL hC hI' hL' hnd htr.term_le
      · exact kind_of_logsame c s i nd _ none htr rfl (fun h => by simp [crashRestart] at h)
      · intro a b m h; simp at h

theorem cinv_run (c : Config) (s : Sys) (steps : List Step) (hI : Inv c s) (hL : LMInv c s)
    (hC : CInv c s) : CInv c (run c s steps) := by
  induction steps generalizing s with
  | nil => exact hC
  | cons st rest ih =>
    exact ih (sysStep c s st) (inv_step c s st hI) (lm_step c s st hI hL) (cinv_step c s st hI hL hC)

end Neumann.Raft
