import NeumannModel.Raft.Complete
/-
  C01 — Leader Completeness, part 2: the invariants that carry the argument.
  * the candidate's log at the start of its election (`startLog`) is what every RequestVote
    advertises, what every voter compared its own log with, and what the winner starts from;
  * whoever holds an acknowledgement for `(T, k)` (a follower's success response covering index
    `k`, or the leader of `T` itself) keeps the first `k` entries of `T`'s canonical log —
    unless an elected later leader that lacks them has meanwhile had the right to overwrite them
    (`Excuse`); the same holds for the log each voter held when it voted (`core`).
-/
namespace Neumann.Raft

def UpToDate (a b : List Entry) : Prop :=
  lastTerm a > lastTerm b ∨ (lastTerm a = lastTerm b ∧ b.length ≤ a.length)

/-- some elected leader of a term in `(T, hi]` started without the first `k` entries of `T` -/
def Excuse (s : Sys) (T k hi : Nat) : Prop :=
  ∃ U j vs, (U, j, vs) ∈ s.elected ∧ T < U ∧ U ≤ hi ∧ (s.elog U).take k ≠ (s.canon T).take k

/-- `f` has acknowledged the first `k` entries of term `T`'s log: by a success response
    covering `k`, or by being the leader of `T` whose log reaches `k` -/
def AckLike (s : Sys) (T f k : Nat) : Prop :=
  (∃ src dst m, (src, dst, Msg.appendEntriesResp T true f m) ∈ s.net ∧ k ≤ m) ∨
  (∃ vs, (T, f, vs) ∈ s.elected ∧ k ≤ (s.canon T).length)

structure FInv (c : Config) (s : Sys) : Prop where
  rvTermBound : ∀ (src dst U cd li lt : Nat), (src, dst, Msg.requestVote U cd li lt) ∈ s.net →
    ∃ nd : Node, s.nodes[cd]? = some nd ∧ U ≤ nd.term
  voteCandTerm : ∀ (v U cd : Nat) (vlog : List Entry) (fl : Bool),
    (v, U, cd, vlog, fl) ∈ s.voteLogs → ∃ nd : Node, s.nodes[cd]? = some nd ∧ U ≤ nd.term
  rvStart : ∀ (src dst U cd li lt : Nat), (src, dst, Msg.requestVote U cd li lt) ∈ s.net →
    li = (s.startLog U cd).length ∧ lt = lastTerm (s.startLog U cd)
  candStart : ∀ (i : Nat) (nd : Node), s.nodes[i]? = some nd → nd.role = .candidate →
    nd.log = s.startLog nd.term i
  electedStart : ∀ (U cd : Nat) (vs : List Nat), (U, cd, vs) ∈ s.elected →
    s.elog U = s.startLog U cd
  voteUpToDate : ∀ (v U cd : Nat) (vlog : List Entry) (fl : Bool),
    (v, U, cd, vlog, fl) ∈ s.voteLogs → UpToDate (s.startLog U cd) vlog
  voteToGhost : ∀ (v U cd : Nat) (vlog : List Entry) (fl : Bool),
    (v, U, cd, vlog, fl) ∈ s.voteLogs → (v, U, cd) ∈ s.ghost
  nodeAck : ∀ (T f k : Nat), AckLike s T f k → 0 < k →
    ∃ nd : Node, s.nodes[f]? = some nd ∧
      (nd.log.take k = (s.canon T).take k ∨ Excuse s T k nd.term)
  core : ∀ (f U cd : Nat) (vlog : List Entry) (T k : Nat),
    (f, U, cd, vlog, false) ∈ s.voteLogs → AckLike s T f k → T < U → 0 < k →
      vlog.take k = (s.canon T).take k ∨
      ∃ U' j vs, (U', j, vs) ∈ s.elected ∧ T < U' ∧ U' < U ∧
        (s.elog U').take k ≠ (s.canon T).take k

theorem upToDate_refl (a : List Entry) : UpToDate a a := Or.inr ⟨rfl, Nat.le_refl _⟩

theorem ackLike_elected (c : Config) (s : Sys) (hC : CInv c s) (T f k : Nat)
    (h : AckLike s T f k) : TermElected s T := by
  rcases h with ⟨src, dst, m, hm, _⟩ | ⟨vs, hv, _⟩
  · exact hC.ackElected src dst T f m hm
  · exact ⟨f, vs, hv⟩

theorem ackLike_le (c : Config) (s : Sys) (hC : CInv c s) (T f k : Nat)
    (h : AckLike s T f k) : k ≤ (s.canon T).length := by
  rcases h with ⟨src, dst, m, hm, hk⟩ | ⟨vs, _, hk⟩
  · obtain ⟨_, _, _, hml, _⟩ := hC.ackSound src dst T f m hm
    omega
  · exact hk

theorem ackLike_term (c : Config) (s : Sys) (hL : LMInv c s) (hC : CInv c s) (T f k : Nat)
    (h : AckLike s T f k) : ∃ nd : Node, s.nodes[f]? = some nd ∧ T ≤ nd.term := by
  rcases h with ⟨src, dst, m, hm, _⟩ | ⟨vs, hv, _⟩
  · obtain ⟨nd, hnd, hle, _⟩ := hC.ackSound src dst T f m hm
    exact ⟨nd, hnd, hle⟩
  · exact hL.electedTerm T f vs hv

theorem finv_init (c : Config) : FInv c (initSys c) := by
  have hget : ∀ (i : Nat) (nd : Node), (initSys c).nodes[i]? = some nd → nd = { id := i } := by
    intro i nd h
    simp only [initSys] at h
    rw [List.getElem?_map] at h
    by_cases hi : i < c.n
    · rw [List.getElem?_range hi] at h
      simp only [Option.map_some, Option.some.injEq] at h
      exact h.symm
    · rw [List.getElem?_eq_none (by simp; omega)] at h; simp at h
  refine ⟨?_, ?_, ?_, ?_, ?_, ?_, ?_, ?_, ?_⟩
  · intro src dst U cd li lt h; simp [initSys] at h
  · intro v U cd vlog fl h; simp [initSys] at h
  · intro src dst U cd li lt h; simp [initSys] at h
  · intro i nd h hr; rw [hget i nd h] at hr; simp at hr
  · intro U cd vs h; simp [initSys] at h
  · intro v U cd vlog fl h; simp [initSys] at h
  · intro v U cd vlog fl h; simp [initSys] at h
  · intro T f k h _
    rcases h with ⟨src, dst, m, hm, _⟩ | ⟨vs, hv, _⟩
    · simp [initSys] at hm
    · simp [initSys] at hv
  · intro f U cd vlog T k h; simp [initSys] at h

/-! ## stability of the ghost fields across one node replacement -/

section stab
variable (c : Config) (s : Sys) (i : Nat) (nd nd' : Node) (msgs : List (Nat × Nat × Msg))

theorem startLog_setNode (U cd : Nat) (h : ¬ (U = nd'.term ∧ cd = i ∧ nd'.role = .candidate ∧ nd.term < nd'.term)) :
    (setNode s i nd' nd msgs).startLog U cd = s.startLog U cd := by
  simp only [setNode]
  split
  · rename_i hc
    have : ¬ (U = nd'.term ∧ cd = i) := fun e => h ⟨e.1, e.2, hc.1, hc.2⟩
    simp only [this, if_false]
  · rfl

theorem startLog_setNode_new (hr : nd'.role = .candidate) (ht : nd.term < nd'.term) :
    (setNode s i nd' nd msgs).startLog nd'.term i = nd.log := by
  simp only [setNode]
  rw [if_pos ⟨hr, ht⟩]
  simp

theorem elog_setNode (U : Nat) (h : ¬ (U = nd'.term ∧ nd.role ≠ .leader ∧ nd'.role = .leader)) :
    (setNode s i nd' nd msgs).elog U = s.elog U := by
  simp only [setNode]
  split
  · rename_i hc
    have : ¬ U = nd'.term := fun e => h ⟨e, hc.1, hc.2⟩
    simp only [this, if_false]
  · rfl

end stab

/-- elected terms keep their election log; the leader-to-be's term was not elected before -/
theorem elog_stable (c : Config) (s : Sys) (i : Nat) (nd nd' : Node) (g : Option Nat)
    (msgs : List (Nat × Nat × Msg)) (hL : LMInv c s)
    (hI' : Inv c (setNode s i nd' nd msgs)) (hL' : LMInv c (setNode s i nd' nd msgs))
    (hnd : s.nodes[i]? = some nd) (ht : NodeTrans c nd nd' g) (U : Nat) (hU : TermElected s U) :
    (setNode s i nd' nd msgs).elog U = s.elog U := by
  apply elog_setNode
  rintro ⟨hUt, hnl, hl⟩
  -- a new leader: it was a candidate of the same term, and that term had no winner
  have hrc : nd.role = .candidate ∧ nd'.term = nd.term := by
    rcases ht.shape with sh | sh | sh | sh
    · rw [sh] at hl; cases hl
    · exact absurd (by rw [← sh.1]; exact hl) hnl
    · rw [sh.1] at hl; cases hl
    · exact ⟨sh.1, sh.2.1⟩
  have := no_prior_election c s i nd nd' msgs hL hI' hL' hnd hrc.1 hl hrc.2
  rw [hUt, hrc.2] at hU
  exact this hU

/-- an accepted AppendEntries of term `T2` keeps every prefix on which the follower's log
    already agrees with `T2`'s canonical log -/
theorem accept_keeps_prefix (c : Config) (s : Sys) (hL : LMInv c s) (i : Nat) (nd : Node)
    (hnd : s.nodes[i]? = some nd) (src T2 l pi pt : Nat) (es : List Entry) (lc : Nat)
    (hmsg : (src, i, Msg.appendEntries T2 l pi pt es lc) ∈ s.net)
    (hok : aeLogOk nd.log pi pt = true) (k : Nat) (hk : k ≤ nd.log.length)
    (hold : nd.log.take k = (s.canon T2).take k) :
    (appendLeaderEntries nd.log (pi + 1) es).take k = nd.log.take k := by
  obtain ⟨hlen, _, _, hdrop⟩ := accept_facts c s hL i nd hnd src T2 l pi pt es lc hmsg hok
  apply appendLeaderEntries_take_stable es nd.log (pi + 1) k (by omega) hk
  intro j e hj hle'
  have hjlt : pi + j < k := by omega
  have hes : (s.canon T2)[pi + j]? = some e := by
    have h1 : (((s.canon T2).take (pi + es.length)).drop pi)[j]? = some e := by rw [hdrop]; exact hj
    rw [List.getElem?_drop, List.getElem?_take] at h1
    split at h1
    · exact h1
    · cases h1
  have hlg : nd.log[pi + j]? = (s.canon T2)[pi + j]? := by
    have h1 : (nd.log.take k)[pi + j]? = ((s.canon T2).take k)[pi + j]? := by rw [hold]
    rw [List.getElem?_take, List.getElem?_take, if_pos hjlt, if_pos hjlt] at h1
    exact h1
  exact ⟨e, by rw [show pi + 1 + j - 1 = pi + j by omega, hlg, hes], rfl⟩

/-- everything the later lemmas need to know about one node replacement -/
structure StepCtx (c : Config) (s : Sys) (i : Nat) (nd nd' : Node) (g : Option Nat)
    (msgs : List (Nat × Nat × Msg)) : Prop where
  hI : Inv c s
  hL : LMInv c s
  hC : CInv c s
  hE : EInv c s
  hI' : Inv c (setNode s i nd' nd msgs)
  hL' : LMInv c (setNode s i nd' nd msgs)
  hC' : CInv c (setNode s i nd' nd msgs)
  hE' : EInv c (setNode s i nd' nd msgs)
  hnd : s.nodes[i]? = some nd
  ht : NodeTrans c nd nd' g
  hk : Kind c s i nd nd'
  hmC : MsgsC s i nd nd' msgs
  hmR : MsgsR i nd nd' msgs
  hno : NoAE msgs
  hv : VoteFact s i nd nd'

namespace StepCtx
variable {c : Config} {s : Sys} {i : Nat} {nd nd' : Node} {g : Option Nat}
  {msgs : List (Nat × Nat × Msg)} (x : StepCtx c s i nd nd' g msgs)
include x

theorem get (j : Nat) : (setNode s i nd' nd msgs).nodes[j]? = if j = i then some nd' else s.nodes[j]? :=
  getElem?_set_of_some s.nodes i j nd nd' x.hnd

theorem te (t : Nat) (h : TermElected s t) : TermElected (setNode s i nd' nd msgs) t :=
  termElected_mono s _ (elected_mono_setNode s i nd nd' msgs) t h

theorem canonExt (T : Nat) (hT : TermElected s T) :
    ∃ y, (setNode s i nd' nd msgs).canon T = s.canon T ++ y :=
  canon_setNode_ext c s i nd nd' msgs x.hL x.hI' x.hL' x.hnd x.hk T hT

theorem canonTake (T k : Nat) (hT : TermElected s T) (hk : k ≤ (s.canon T).length) :
    ((setNode s i nd' nd msgs).canon T).take k = (s.canon T).take k := by
  obtain ⟨y, hy⟩ := x.canonExt T hT
  rw [hy, List.take_append_of_le_length hk]

theorem elogSt (U : Nat) (hU : TermElected s U) :
    (setNode s i nd' nd msgs).elog U = s.elog U :=
  elog_stable c s i nd nd' g msgs x.hL x.hI' x.hL' x.hnd x.ht U hU

theorem excuseMono (T k hi hi' : Nat) (h : Excuse s T k hi) (hle : hi ≤ hi')
    (hT : TermElected s T) (hk : k ≤ (s.canon T).length) :
    Excuse (setNode s i nd' nd msgs) T k hi' := by
  obtain ⟨U, j, vs, hU, h1, h2, h3⟩ := h
  refine ⟨U, j, vs, elected_mono_setNode s i nd nd' msgs _ hU, h1, by omega, ?_⟩
  rw [x.elogSt U ⟨j, vs, hU⟩, x.canonTake T k hT hk]; exact h3

/-- an acknowledgement that existed before the step is still honoured after it -/
theorem nodeAckOld (hF : FInv c s) (T f k : Nat) (ha : AckLike s T f k) (hk0 : 0 < k) :
    ∃ ndf : Node, (setNode s i nd' nd msgs).nodes[f]? = some ndf ∧
      (ndf.log.take k = ((setNode s i nd' nd msgs).canon T).take k ∨
       Excuse (setNode s i nd' nd msgs) T k ndf.term) := by
  have hT := ackLike_elected c s x.hC T f k ha
  have hkle := ackLike_le c s x.hC T f k ha
  obtain ⟨ndf, hf, hq⟩ := hF.nodeAck T f k ha hk0
  obtain ⟨ndt, hft, hTle⟩ := ackLike_term c s x.hL x.hC T f k ha
  rw [hf] at hft; cases hft
  by_cases hfi : f = i
  · subst hfi
    rw [x.hnd] at hf; cases hf
    refine ⟨nd', by rw [x.get]; simp, ?_⟩
    rcases hq with hold | hex
    · have hklog : k ≤ nd.log.length := by
        have := congrArg List.length hold
        simp only [List.length_take] at this; omega
      have hgoal : nd'.log.take k = nd.log.take k ∨ Excuse s T k nd'.term := by
        rcases x.hk with ⟨hlog, _⟩ | ⟨_, _, _, hlog, _⟩ | ⟨_, p, hp⟩ | ⟨_, src, l, pi, pt, es, lc, hmsg, hok, hlog⟩
        · left; rw [hlog]
        · left; rw [hlog]
        · left; subst hp
          show (nd.log ++ [Entry.mk nd.term p]).take k = nd.log.take k
          rw [List.take_append_of_le_length hklog]
        · -- accept an AppendEntries of term T2 = nd'.term ≥ T
          have hT2 : T ≤ nd'.term := Nat.le_trans hTle x.ht.term_le
          obtain ⟨_, _, ⟨vs2, hvs2⟩, _⟩ := x.hL.aeOk src f nd'.term l pi pt es lc hmsg
          by_cases heqT : nd'.term = T
          · left; rw [hlog]
            exact accept_keeps_prefix c s x.hL f nd x.hnd src nd'.term l pi pt es lc hmsg hok k hklog
              (by rw [heqT]; exact hold)
          · by_cases hhas : (s.elog nd'.term).take k = (s.canon T).take k
            · left; rw [hlog]
              have hEl := x.hE.elogOk nd'.term l vs2 hvs2
              obtain ⟨y, hy, _⟩ := hEl.ext
              have hkel : k ≤ (s.elog nd'.term).length := by
                have := congrArg List.length hhas
                simp only [List.length_take] at this; omega
              exact accept_keeps_prefix c s x.hL f nd x.hnd src nd'.term l pi pt es lc hmsg hok k hklog
                (by rw [hold, hy, List.take_append_of_le_length hkel, hhas])
            · right
              exact ⟨nd'.term, l, vs2, hvs2, by omega, Nat.le_refl _, hhas⟩
      rcases hgoal with h | h
      · left; rw [h, hold, x.canonTake T k hT hkle]
      · right; exact x.excuseMono T k nd'.term nd'.term h (Nat.le_refl _) hT hkle
    · right; exact x.excuseMono T k nd.term nd'.term hex x.ht.term_le hT hkle
  · refine ⟨ndf, by rw [x.get, if_neg hfi]; exact hf, ?_⟩
    rcases hq with hold | hex
    · left; rw [hold, x.canonTake T k hT hkle]
    · right; exact x.excuseMono T k ndf.term ndf.term hex (Nat.le_refl _) hT hkle

/-- an acknowledgement present after the step either existed before, or belongs to the node
    that moved, whose new term is then the acknowledged term and whose new log carries it -/
theorem ackLikeCases (T f k : Nat) (ha : AckLike (setNode s i nd' nd msgs) T f k) :
    AckLike s T f k ∨
    (f = i ∧ nd'.term = T ∧ nd'.log.take k = ((setNode s i nd' nd msgs).canon T).take k) := by
  have hnode' : (setNode s i nd' nd msgs).nodes[i]? = some nd' := by rw [x.get]; simp
  rcases ha with ⟨src, dst, m, hm, hkm⟩ | ⟨vs, hv, hkc⟩
  · have hm' : (src, dst, Msg.appendEntriesResp T true f m) ∈ s.net ++ msgs := hm
    rcases List.mem_append.mp hm' with h | h
    · exact Or.inl (Or.inl ⟨src, dst, m, h, hkm⟩)
    · right
      obtain ⟨_, hq⟩ := x.hmC src dst _ h
      obtain ⟨hf, hT, _⟩ := hq T true f m rfl
      obtain ⟨ndf, hndf, _, _, hpre⟩ := x.hC'.ackSound src dst T f m hm
      subst hf
      rw [hnode'] at hndf; cases hndf
      refine ⟨rfl, hT.symm, ?_⟩
      have := hpre hT.symm
      have h1 : nd'.log.take k = (nd'.log.take m).take k := by
        rw [List.take_take, Nat.min_eq_left hkm]
      rw [h1, this, List.take_take, Nat.min_eq_left hkm]
  · by_cases hold : (T, f, vs) ∈ s.elected ∧ k ≤ (s.canon T).length
    · exact Or.inl (Or.inr ⟨vs, hold.1, hold.2⟩)
    · right
      -- the node that moved is (now) the leader of T
      have hlead : nd'.role = .leader ∧ nd'.term = T := by
        by_cases hin : (T, f, vs) ∈ s.elected
        · have hlt : ¬ k ≤ (s.canon T).length := fun h => hold ⟨hin, h⟩
          -- canon changed at T
          have hne : (setNode s i nd' nd msgs).canon T ≠ s.canon T := by
            intro e; rw [e] at hkc; exact hlt hkc
          simp only [setNode] at hne
          by_cases hl : nd'.role = .leader
          · rw [if_pos hl] at hne
            by_cases hTt : T = nd'.term
            · exact ⟨hl, hTt.symm⟩
            · simp only [hTt, if_false] at hne; exact absurd rfl hne
          · rw [if_neg hl] at hne; exact absurd rfl hne
        · have hv' : (T, f, vs) ∈ (setNode s i nd' nd msgs).elected := hv
          simp only [setNode] at hv'
          split at hv'
          · rename_i hc
            rcases List.mem_append.mp hv' with h | h
            · exact absurd h hin
            · simp only [List.mem_singleton, Prod.mk.injEq] at h
              exact ⟨hc.2, h.1.symm⟩
          · exact absurd hv' hin
      obtain ⟨vs', hvs'⟩ := x.hL'.leaderElected i nd' hnode' hlead.1
      have hfi : f = i := by
        rw [hlead.2] at hvs'
        exact elected_unique c _ x.hI' x.hL' T f i vs vs' hv hvs'
      refine ⟨hfi, hlead.2, ?_⟩
      have := x.hL'.leaderCanon i nd' hnode' hlead.1
      rw [this, hlead.2]

theorem nodeAckNew (hF : FInv c s) (T f k : Nat) (ha : AckLike (setNode s i nd' nd msgs) T f k)
    (hk0 : 0 < k) :
    ∃ ndf : Node, (setNode s i nd' nd msgs).nodes[f]? = some ndf ∧
      (ndf.log.take k = ((setNode s i nd' nd msgs).canon T).take k ∨
       Excuse (setNode s i nd' nd msgs) T k ndf.term) := by
  rcases x.ackLikeCases T f k ha with hold | ⟨hfi, _, hhas⟩
  · exact x.nodeAckOld hF T f k hold hk0
  · subst hfi
    exact ⟨nd', by rw [x.get]; simp, Or.inl hhas⟩

theorem coreNew (hF : FInv c s) (f U cd : Nat) (vlog : List Entry) (T k : Nat)
    (hrec : (f, U, cd, vlog, false) ∈ (setNode s i nd' nd msgs).voteLogs)
    (ha : AckLike (setNode s i nd' nd msgs) T f k) (hTU : T < U) (hk0 : 0 < k) :
    vlog.take k = ((setNode s i nd' nd msgs).canon T).take k ∨
    ∃ U' j vs, (U', j, vs) ∈ (setNode s i nd' nd msgs).elected ∧ T < U' ∧ U' < U ∧
      ((setNode s i nd' nd msgs).elog U').take k ≠ ((setNode s i nd' nd msgs).canon T).take k := by
  have hrec' : (f, U, cd, vlog, false) ∈ s.voteLogs ++ voteLogOf s i nd nd' := hrec
  -- transport of a strict excuse
  have htrans : ∀ (hT : TermElected s T) (hkle : k ≤ (s.canon T).length),
      (∃ U' j vs, (U', j, vs) ∈ s.elected ∧ T < U' ∧ U' < U ∧ (s.elog U').take k ≠ (s.canon T).take k) →
      ∃ U' j vs, (U', j, vs) ∈ (setNode s i nd' nd msgs).elected ∧ T < U' ∧ U' < U ∧
        ((setNode s i nd' nd msgs).elog U').take k ≠ ((setNode s i nd' nd msgs).canon T).take k := by
    intro hT hkle ⟨U', j, vs, hU', h1, h2, h3⟩
    refine ⟨U', j, vs, elected_mono_setNode s i nd nd' msgs _ hU', h1, h2, ?_⟩
    rw [x.elogSt U' ⟨j, vs, hU'⟩, x.canonTake T k hT hkle]; exact h3
  rcases List.mem_append.mp hrec' with hro | hrn
  · -- an old vote record
    rcases x.ackLikeCases T f k ha with hold | ⟨hfi, hterm, _⟩
    · have hT := ackLike_elected c s x.hC T f k hold
      have hkle := ackLike_le c s x.hC T f k hold
      rcases hF.core f U cd vlog T k hro hold hTU hk0 with h | h
      · left; rw [h, x.canonTake T k hT hkle]
      · right; exact htrans hT hkle h
    · -- a fresh acknowledgement by a node that had already voted in a later term: impossible
      exfalso
      subst hfi
      have hgh := hF.voteToGhost f U cd vlog false hro
      obtain ⟨ndg, hg, hle, _⟩ := x.hI.ghostNode f U cd hgh
      rw [x.hnd] at hg; cases hg
      have := x.ht.term_le
      omega
  · -- the vote recorded in this very step
    obtain ⟨cd', hx, _, _⟩ := mem_voteLogOf s i nd nd' _ hrn
    simp only [Prod.mk.injEq] at hx
    obtain ⟨hf, hU, _, hvlog, hfl⟩ := hx
    have hNoU : ¬ TermElected s U := by
      intro h
      have := (any_elected_iff s nd'.term).mpr (hU ▸ h)
      rw [this] at hfl; cases hfl
    subst hf
    rcases x.ackLikeCases T f k ha with hold | ⟨_, hterm, _⟩
    · have hT := ackLike_elected c s x.hC T f k hold
      have hkle := ackLike_le c s x.hC T f k hold
      obtain ⟨ndf, hf', hq⟩ := hF.nodeAck T f k hold hk0
      rw [x.hnd] at hf'; cases hf'
      rcases hq with h | ⟨U', j, vs, hU', h1, h2, h3⟩
      · left; rw [hvlog, h, x.canonTake T k hT hkle]
      · right
        apply htrans hT hkle
        refine ⟨U', j, vs, hU', h1, ?_, h3⟩
        have hle : U' ≤ U := by have := x.ht.term_le; omega
        rcases Nat.lt_or_ge U' U with h | h
        · exact h
        · exfalso
          have : U' = U := by omega
          exact hNoU ⟨j, vs, this ▸ hU'⟩
    · omega

/-- a candidate-or-leader-to-be keeps its log in this step -/
theorem candLogSame (hr : nd'.role = .candidate) : nd'.log = nd.log := by
  rcases x.hk with ⟨hlog, _⟩ | ⟨_, hl, _⟩ | ⟨hr0, p, hp⟩ | ⟨hr', _⟩
  · exact hlog
  · rw [hl] at hr; cases hr
  · subst hp; have : nd.role = .candidate := hr; rw [hr0] at this; cases this
  · rw [hr'] at hr; cases hr

theorem finv (hF : FInv c s) : FInv c (setNode s i nd' nd msgs) := by
  have hnet : (setNode s i nd' nd msgs).net = s.net ++ msgs := rfl
  have hvl : (setNode s i nd' nd msgs).voteLogs = s.voteLogs ++ voteLogOf s i nd nd' := rfl
  have hle := x.ht.term_le
  -- node `cd` still bounds the term after the step
  have hbound : ∀ (cd U : Nat), (∃ ndc : Node, s.nodes[cd]? = some ndc ∧ U ≤ ndc.term) →
      ∃ ndc : Node, (setNode s i nd' nd msgs).nodes[cd]? = some ndc ∧ U ≤ ndc.term := by
    intro cd U ⟨ndc, hc, hU⟩
    by_cases hci : cd = i
    · subst hci; rw [x.hnd] at hc; cases hc
      exact ⟨nd', by rw [x.get]; simp, by omega⟩
    · exact ⟨ndc, by rw [x.get, if_neg hci]; exact hc, hU⟩
  -- startLog of a (term, candidate) pair that is bounded by the candidate's old term is stable
  have hstart : ∀ (cd U : Nat), (∃ ndc : Node, s.nodes[cd]? = some ndc ∧ U ≤ ndc.term) →
      (setNode s i nd' nd msgs).startLog U cd = s.startLog U cd := by
    intro cd U ⟨ndc, hc, hU⟩
    apply startLog_setNode
    rintro ⟨hUt, hci, _, hlt⟩
    subst hci; rw [x.hnd] at hc; cases hc; omega
  refine ⟨?_, ?_, ?_, ?_, ?_, ?_, ?_, x.nodeAckNew hF, x.coreNew hF⟩
  · -- rvTermBound
    intro src dst U cd li lt h
    rw [hnet] at h
    rcases List.mem_append.mp h with h | h
    · exact hbound cd U (hF.rvTermBound src dst U cd li lt h)
    · obtain ⟨hc, hU, _⟩ := x.hmR src dst _ h U cd li lt rfl
      subst hc
      exact ⟨nd', by rw [x.get]; simp, by omega⟩
  · -- voteCandTerm
    intro v U cd vlog fl h
    rw [hvl] at h
    rcases List.mem_append.mp h with h | h
    · exact hbound cd U (hF.voteCandTerm v U cd vlog fl h)
    · obtain ⟨cd', hx, hvf, hne⟩ := mem_voteLogOf s i nd nd' _ h
      simp only [Prod.mk.injEq] at hx
      obtain ⟨_, hU, hcd, _, _⟩ := hx
      subst hcd
      obtain ⟨_, hq⟩ := x.hv cd hvf hne
      rcases hq with ⟨hci, _, _⟩ | ⟨_, src, li, lt, hmsg, _⟩
      · subst hci; exact ⟨nd', by rw [x.get]; simp, by omega⟩
      · rw [hU]; exact hbound cd _ (hF.rvTermBound src i _ cd li lt hmsg)
  · -- rvStart
    intro src dst U cd li lt h
    rw [hnet] at h
    rcases List.mem_append.mp h with h | h
    · rw [hstart cd U (hF.rvTermBound src dst U cd li lt h)]
      exact hF.rvStart src dst U cd li lt h
    · obtain ⟨hc, hU, hr, hlt, hli, hlt'⟩ := x.hmR src dst _ h U cd li lt rfl
      subst hc; subst hU
      rw [startLog_setNode_new s cd nd nd' msgs hr hlt]
      exact ⟨hli, hlt'⟩
  · -- candStart
    intro j ndj hj hr
    rw [x.get] at hj
    by_cases hji : j = i
    · rw [if_pos hji] at hj; cases hj; subst hji
      have hlog := x.candLogSame hr
      rcases x.ht.shape with sh | sh | sh | sh
      · rw [sh] at hr; cases hr
      · have hr0 : nd.role = .candidate := by rw [← sh.1]; exact hr
        rw [startLog_setNode s j nd nd' msgs _ _ (by rintro ⟨_, _, _, h⟩; omega), hlog, sh.2.1]
        exact hF.candStart j nd x.hnd hr0
      · rw [startLog_setNode_new s j nd nd' msgs hr sh.2.2.2, hlog]
      · rw [startLog_setNode s j nd nd' msgs _ _ (by rintro ⟨_, _, _, h⟩; omega), hlog, sh.2.1]
        exact hF.candStart j nd x.hnd sh.1
    · rw [if_neg hji] at hj
      rw [startLog_setNode s i nd nd' msgs _ _ (by rintro ⟨_, h, _⟩; exact hji h)]
      exact hF.candStart j ndj hj hr
  · -- electedStart
    intro U cd vs h
    by_cases hold : (U, cd, vs) ∈ s.elected
    · rw [x.elogSt U ⟨cd, vs, hold⟩, hstart cd U (x.hL.electedTerm U cd vs hold)]
      exact hF.electedStart U cd vs hold
    · -- the election won in this step
      have h' : (U, cd, vs) ∈ (setNode s i nd' nd msgs).elected := h
      simp only [setNode] at h'
      split at h'
      · rename_i hc
        rcases List.mem_append.mp h' with h2 | h2
        · exact absurd h2 hold
        · simp only [List.mem_singleton, Prod.mk.injEq] at h2
          obtain ⟨hU, hcd, _⟩ := h2
          subst hU; subst hcd
          have hrc : nd.role = .candidate ∧ nd'.term = nd.term ∧ nd'.log = nd.log := by
            rcases x.hk with ⟨_, hq⟩ | ⟨hr, _, ht', hlog, _⟩ | ⟨hr, _⟩ | ⟨hr', _⟩
            · exact absurd (hq hc.2).1 hc.1
            · exact ⟨hr, ht', hlog⟩
            · exact absurd hr hc.1
            · rw [hr'] at hc; cases hc.2
          have he : (setNode s cd nd' nd msgs).elog nd'.term = nd'.log := by
            simp only [setNode]; rw [if_pos hc]; simp
          rw [he, startLog_setNode s cd nd nd' msgs _ _
            (by rintro ⟨_, _, hr, _⟩; rw [hc.2] at hr; cases hr), hrc.2.2, hrc.2.1]
          exact hF.candStart cd nd x.hnd hrc.1
      · exact absurd h' hold
  · -- voteUpToDate
    intro v U cd vlog fl h
    rw [hvl] at h
    rcases List.mem_append.mp h with h | h
    · rw [hstart cd U (hF.voteCandTerm v U cd vlog fl h)]
      exact hF.voteUpToDate v U cd vlog fl h
    · obtain ⟨cd', hx, hvf, hne⟩ := mem_voteLogOf s i nd nd' _ h
      simp only [Prod.mk.injEq] at hx
      obtain ⟨_, hU, hcd, hvlog, _⟩ := hx
      subst hcd; subst hU; subst hvlog
      obtain ⟨_, hq⟩ := x.hv cd hvf hne
      rcases hq with ⟨hci, hr, hlt⟩ | ⟨hnc, src, li, lt, hmsg, hup⟩
      · subst hci
        rw [startLog_setNode_new s cd nd nd' msgs hr hlt]
        exact upToDate_refl _
      · rw [startLog_setNode s i nd nd' msgs _ _ (by rintro ⟨_, _, hr, hlt⟩; exact hnc hlt hr)]
        obtain ⟨hli, hlt'⟩ := hF.rvStart src i _ cd li lt hmsg
        unfold UpToDate
        rcases hup with h1 | ⟨h1, h2⟩
        · left; rw [← hlt']; exact h1
        · right; exact ⟨by rw [← hlt']; exact h1, by rw [← hli]; exact h2⟩
  · -- voteToGhost
    intro v U cd vlog fl h
    rw [hvl] at h
    show (v, U, cd) ∈ s.ghost ++ ghostOf i nd nd'
    rcases List.mem_append.mp h with h | h
    · exact List.mem_append_left _ (hF.voteToGhost v U cd vlog fl h)
    · obtain ⟨cd', hx, hvf, hne⟩ := mem_voteLogOf s i nd nd' _ h
      simp only [Prod.mk.injEq] at hx
      obtain ⟨hv', hU, hcd, _, _⟩ := hx
      subst hv'; subst hU; subst hcd
      apply List.mem_append_right
      unfold ghostOf; rw [if_neg hne, hvf]; simp

end StepCtx

theorem finv_step (c : Config) (s : Sys) (st : Step) (hI : Inv c s) (hL : LMInv c s)
    (hC : CInv c s) (hE : EInv c s) (hF : FInv c s) : FInv c (sysStep c s st) := by
  have hI' := inv_step c s st hI
  have hL' := lm_step c s st hI hL
  have hC' := cinv_step c s st hI hL hC
  have hE' := einv_step c s st hI hL hC hE
  apply sysStep_cases c s st hI
    (fun s' => Inv c s' → LMInv c s' → CInv c s' → EInv c s' → FInv c s') _ _ _ hI' hL' hC' hE'
  · intro _ _ _ _; exact hF
  · intro i nd nd' g msgs hnd htr hk hmC hno hmR hv _ _ hI2 hL2 hC2 hE2
    exact (StepCtx.mk hI hL hC hE hI2 hL2 hC2 hE2 hnd htr hk hmC hmR hno hv).finv hF
  · intro i j nd m _ hnd hae _ _ _ _
    obtain ⟨_, pi, pt, es, rfl, _, _⟩ := appendEntriesFor_spec nd j m hae
    have hack : ∀ T f k, AckLike { s with net := s.net ++ [(i, j, Msg.appendEntries nd.term nd.id pi pt es nd.commit)] } T f k →
        AckLike s T f k := by
      intro T f k h
      rcases h with ⟨src, dst, m, hm, hk⟩ | h
      · left
        rcases List.mem_append.mp hm with h | h
        · exact ⟨src, dst, m, h, hk⟩
        · simp at h
      · exact Or.inr h
    refine ⟨?_, hF.voteCandTerm, ?_, hF.candStart, hF.electedStart, hF.voteUpToDate, hF.voteToGhost, ?_, ?_⟩
    · intro src dst U cd li lt h
      rcases List.mem_append.mp h with h | h
      · exact hF.rvTermBound src dst U cd li lt h
      · simp at h
    · intro src dst U cd li lt h
      rcases List.mem_append.mp h with h | h
      · exact hF.rvStart src dst U cd li lt h
      · simp at h
    · intro T f k h hk0
      exact hF.nodeAck T f k (hack T f k h) hk0
    · intro f U cd vlog T k hrec h hTU hk0
      exact hF.core f U cd vlog T k hrec (hack T f k h) hTU hk0

theorem finv_run (c : Config) (s : Sys) (steps : List Step) (hI : Inv c s) (hL : LMInv c s)
    (hC : CInv c s) (hE : EInv c s) (hF : FInv c s) : FInv c (run c s steps) := by
  induction steps generalizing s with
  | nil => exact hF
  | cons st rest ih =>
    exact ih (sysStep c s st) (inv_step c s st hI) (lm_step c s st hI hL)
      (cinv_step c s st hI hL hC) (einv_step c s st hI hL hC hE) (finv_step c s st hI hL hC hE hF)

end Neumann.Raft
