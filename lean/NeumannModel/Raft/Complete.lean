import NeumannModel.Raft.Commit
/-
  C01 — Leader Completeness, part 1: bookkeeping invariants about election logs and the
  snapshot of each voter's log at the moment it recorded its vote (ghost `elog`, `voteLogs`).
-/
namespace Neumann.Raft

/-- canonicity is stable when canonical logs only grow at their end -/
theorem canon_mono (cn cn' : Nat → List Entry) (l : List Entry) (h : Canon cn l)
    (hext : ∀ e ∈ l, ∃ x, cn' e.term = cn e.term ++ x) : Canon cn' l := by
  intro k e hk
  have hold := h k e hk
  obtain ⟨x, hx⟩ := hext e (List.mem_of_getElem? hk)
  rw [hx, hold]
  have hlen : k + 1 ≤ (cn e.term).length := by
    have h1 : (l.take (k + 1)).length = k + 1 := by
      rw [List.length_take]; have := getElem?_lt l k e hk; omega
    rw [hold, List.length_take] at h1
    omega
  rw [List.take_append_of_le_length hlen]

/-- the winner of term `U` started from `elog U`, whose entries are older than `U`, and has
    only appended entries of term `U` since -/
structure ElogOk (s : Sys) (U : Nat) : Prop where
  pos : 1 ≤ U
  ext : ∃ x, s.canon U = s.elog U ++ x ∧ ∀ e ∈ x, e.term = U
  old : ∀ e ∈ s.elog U, e.term < U

structure EInv (c : Config) (s : Sys) : Prop where
  elogOk : ∀ (U j : Nat) (vs : List Nat), (U, j, vs) ∈ s.elected → ElogOk s U
  /-- a candidate's log holds no entry of its own term, and its term is positive -/
  candFresh : ∀ (i : Nat) (nd : Node), s.nodes[i]? = some nd → nd.role = .candidate →
    1 ≤ nd.term ∧ ∀ e ∈ nd.log, e.term < nd.term
  vlogCanon : ∀ (v U cd : Nat) (vlog : List Entry) (fl : Bool),
    (v, U, cd, vlog, fl) ∈ s.voteLogs →
      Canon s.canon vlog ∧ ∀ e ∈ vlog, TermElected s e.term
  ghostToVoteLog : ∀ (v t cd : Nat), (v, t, cd) ∈ s.ghost →
    ∃ vlog fl, (v, t, cd, vlog, fl) ∈ s.voteLogs
  flagTrue : ∀ (v U cd : Nat) (vlog : List Entry),
    (v, U, cd, vlog, true) ∈ s.voteLogs → TermElected s U
  electedVoters : ∀ (T i : Nat) (vs : List Nat), (T, i, vs) ∈ s.elected →
    ∀ v ∈ vs, ∃ vlog, (v, T, i, vlog, false) ∈ s.voteLogs

theorem mem_voteLogOf (s : Sys) (v : Nat) (nd nd' : Node)
    (x : Nat × Nat × Nat × List Entry × Bool) (h : x ∈ voteLogOf s v nd nd') :
    ∃ cd, x = (v, nd'.term, cd, nd.log, s.elected.any (fun y => y.1 == nd'.term)) ∧
      nd'.votedFor = some cd ∧ ¬ (nd'.term = nd.term ∧ nd'.votedFor = nd.votedFor) := by
  unfold voteLogOf at h
  split at h
  · simp at h
  · rename_i hne
    split at h
    · rename_i cd hv
      simp only [List.mem_singleton] at h
      exact ⟨cd, h, hv, hne⟩
    · simp at h

theorem any_elected_iff (s : Sys) (t : Nat) :
    s.elected.any (fun y => y.1 == t) = true ↔ TermElected s t := by
  unfold TermElected
  rw [List.any_eq_true]
  constructor
  · rintro ⟨⟨a, j, vs⟩, hmem, heq⟩
    simp only [beq_iff_eq] at heq
    exact ⟨j, vs, heq ▸ hmem⟩
  · rintro ⟨j, vs, h⟩
    exact ⟨(t, j, vs), h, by simp⟩

theorem einv_init (c : Config) : EInv c (initSys c) := by
  have hget : ∀ (i : Nat) (nd : Node), (initSys c).nodes[i]? = some nd → nd = { id := i } := by
    intro i nd h
    simp only [initSys] at h
    rw [List.getElem?_map] at h
    by_cases hi : i < c.n
    · rw [List.getElem?_range hi] at h
      simp only [Option.map_some, Option.some.injEq] at h
      exact h.symm
    · rw [List.getElem?_eq_none (by simp; omega)] at h; simp at h
  refine ⟨?_, ?_, ?_, ?_, ?_, ?_⟩
  · intro U j vs h; simp [initSys] at h
  · intro i nd h hr; rw [hget i nd h] at hr; simp at hr
  · intro v U cd vlog fl h; simp [initSys] at h
  · intro v t cd h; simp [initSys] at h
  · intro v U cd vlog h; simp [initSys] at h
  · intro T i vs h; simp [initSys] at h

/-- in an election step the term had no winner before -/
theorem no_prior_election (c : Config) (s : Sys) (i : Nat) (nd nd' : Node)
    (msgs : List (Nat × Nat × Msg)) (hL : LMInv c s)
    (hI' : Inv c (setNode s i nd' nd msgs)) (hL' : LMInv c (setNode s i nd' nd msgs))
    (hnd : s.nodes[i]? = some nd) (hr : nd.role = .candidate) (hl : nd'.role = .leader)
    (hterm : nd'.term = nd.term) : ¬ TermElected s nd.term := by
  rintro ⟨j, vs, hj⟩
  have hnl : nd.role ≠ .leader := by rw [hr]; intro h; cases h
  have hel : (setNode s i nd' nd msgs).elected = s.elected ++ [(nd'.term, i, nd'.votes)] := by
    simp only [setNode]; rw [if_pos ⟨hnl, hl⟩]
  have h1 : (nd.term, j, vs) ∈ (setNode s i nd' nd msgs).elected := by
    rw [hel]; exact List.mem_append_left _ hj
  have h2 : (nd.term, i, nd'.votes) ∈ (setNode s i nd' nd msgs).elected := by
    rw [hel, hterm]; exact List.mem_append_right _ (by simp)
  have hji := elected_unique c _ hI' hL' nd.term j i vs nd'.votes h1 h2
  subst hji
  exact hL.candNotElected j nd hnd hr vs hj

theorem einv_setNode (c : Config) (s : Sys) (i : Nat) (nd nd' : Node) (g : Option Nat)
    (msgs : List (Nat × Nat × Msg)) (hL : LMInv c s) (hC : CInv c s) (hE : EInv c s)
    (hI' : Inv c (setNode s i nd' nd msgs)) (hL' : LMInv c (setNode s i nd' nd msgs))
    (hnd : s.nodes[i]? = some nd) (ht : NodeTrans c nd nd' g) (hk : Kind c s i nd nd')
    (hvf : nd.role = .candidate → nd'.role = .leader → nd'.votedFor = nd.votedFor) :
    EInv c (setNode s i nd' nd msgs) := by
  have hget : ∀ j, (s.nodes.set i nd')[j]? = if j = i then some nd' else s.nodes[j]? :=
    fun j => getElem?_set_of_some s.nodes i j nd nd' hnd
  have hnodes : (setNode s i nd' nd msgs).nodes = s.nodes.set i nd' := rfl
  have hTE : ∀ t, TermElected s t → TermElected (setNode s i nd' nd msgs) t :=
    fun t h => termElected_mono s _ (elected_mono_setNode s i nd nd' msgs) t h
  have hext := canon_setNode_ext c s i nd nd' msgs hL hI' hL' hnd hk
  have hvl : (setNode s i nd' nd msgs).voteLogs = s.voteLogs ++ voteLogOf s i nd nd' := rfl
  have hcanonmono : ∀ l, Canon s.canon l → (∀ e ∈ l, TermElected s e.term) →
      Canon (setNode s i nd' nd msgs).canon l :=
    fun l hl hel => canon_mono _ _ l hl (fun e he => hext e.term (hel e he))
  have hflag : ∀ v U cd vlog, (v, U, cd, vlog, true) ∈ (setNode s i nd' nd msgs).voteLogs →
      TermElected (setNode s i nd' nd msgs) U := by
    intro v U cd vlog h
    rw [hvl] at h
    rcases List.mem_append.mp h with h | h
    · exact hTE _ (hE.flagTrue v U cd vlog h)
    · obtain ⟨cd', hx, _, _⟩ := mem_voteLogOf s i nd nd' _ h
      simp only [Prod.mk.injEq] at hx
      obtain ⟨_, hU, _, _, hfl⟩ := hx
      rw [hU]; exact hTE _ ((any_elected_iff s nd'.term).mp hfl.symm)
  have hg2v : ∀ v t cd, (v, t, cd) ∈ (setNode s i nd' nd msgs).ghost →
      ∃ vlog fl, (v, t, cd, vlog, fl) ∈ (setNode s i nd' nd msgs).voteLogs := by
    intro v t cd h
    simp only [setNode, List.mem_append] at h
    rcases h with h | h
    · obtain ⟨vlog, fl, hr⟩ := hE.ghostToVoteLog v t cd h
      exact ⟨vlog, fl, by rw [hvl]; exact List.mem_append_left _ hr⟩
    · obtain ⟨cd', hx, hvf', hne⟩ := mem_ghostOf i nd nd' _ h
      simp only [Prod.mk.injEq] at hx
      obtain ⟨rfl, rfl, rfl⟩ := hx
      refine ⟨nd.log, s.elected.any (fun y => y.1 == nd'.term), ?_⟩
      rw [hvl]; apply List.mem_append_right
      unfold voteLogOf; rw [if_neg hne, hvf']; simp
  refine ⟨?_, ?_, ?_, hg2v, hflag, ?_⟩
  · -- elogOk
    intro U j vs hU
    rcases hk with ⟨hlog, hq⟩ | ⟨hr, hl, hterm, hlog, _⟩ | ⟨hr, p, hp⟩ | ⟨hr', _⟩
    · -- quiet: canon, elog, elected unchanged
      have hel : (setNode s i nd' nd msgs).elected = s.elected := by
        simp only [setNode]; rw [if_neg]; intro h; exact h.1 (hq h.2).1
      have helog : (setNode s i nd' nd msgs).elog = s.elog := by
        simp only [setNode]; rw [if_neg]; intro h; exact h.1 (hq h.2).1
      have hcn : (setNode s i nd' nd msgs).canon = s.canon := by
        simp only [setNode]
        split
        · rename_i hl
          obtain ⟨hl0, htm, _⟩ := hq hl
          funext t
          by_cases h : t = nd'.term
          · rw [if_pos h, h, hlog, htm]; exact hL.leaderCanon i nd hnd hl0
          · rw [if_neg h]
        · rfl
      rw [hel] at hU
      have := hE.elogOk U j vs hU
      exact ⟨this.pos, by rw [hcn, helog]; exact this.ext, by rw [helog]; exact this.old⟩
    · -- elected
      have hnl : nd.role ≠ .leader := by rw [hr]; intro h; cases h
      have hNoT := no_prior_election c s i nd nd' msgs hL hI' hL' hnd hr hl hterm
      have hel : (setNode s i nd' nd msgs).elected = s.elected ++ [(nd'.term, i, nd'.votes)] := by
        simp only [setNode]; rw [if_pos ⟨hnl, hl⟩]
      have helog : (setNode s i nd' nd msgs).elog = fun t => if t = nd.term then nd.log else s.elog t := by
        simp only [setNode]; rw [if_pos ⟨hnl, hl⟩, hterm, hlog]
      have hcn : (setNode s i nd' nd msgs).canon = fun t => if t = nd.term then nd.log else s.canon t := by
        simp only [setNode]; rw [if_pos hl, hterm, hlog]
      rw [hel] at hU
      rcases List.mem_append.mp hU with hU | hU
      · have hne : U ≠ nd.term := fun e => hNoT ⟨j, vs, e ▸ hU⟩
        have := hE.elogOk U j vs hU
        refine ⟨this.pos, ?_, ?_⟩
        · rw [hcn, helog]; simp only [hne, if_false]; exact this.ext
        · rw [helog]; simp only [hne, if_false]; exact this.old
      · simp only [List.mem_singleton, Prod.mk.injEq] at hU
        obtain ⟨hUt, _, _⟩ := hU
        have hcf := hE.candFresh i nd hnd hr
        rw [hUt, hterm]
        refine ⟨hcf.1, ?_, ?_⟩
        · rw [hcn, helog]; simp only [if_true]; exact ⟨[], by simp, by simp⟩
        · rw [helog]; simp only [if_true]; exact hcf.2
    · -- propose
      subst hp
      have hel : (setNode s i { nd with log := nd.log ++ [⟨nd.term, p⟩] } nd msgs).elected = s.elected := by
        simp only [setNode]; rw [if_neg]; intro h; exact h.1 hr
      have helog : (setNode s i { nd with log := nd.log ++ [⟨nd.term, p⟩] } nd msgs).elog = s.elog := by
        simp only [setNode]; rw [if_neg]; intro h; exact h.1 hr
      have hcn : (setNode s i { nd with log := nd.log ++ [⟨nd.term, p⟩] } nd msgs).canon =
          fun t => if t = nd.term then s.canon nd.term ++ [⟨nd.term, p⟩] else s.canon t := by
        simp only [setNode]
        have hl' : ({ nd with log := nd.log ++ [⟨nd.term, p⟩] } : Node).role = .leader := hr
        rw [if_pos hl']
        funext t
        by_cases h : t = nd.term
        · have h' : t = ({ nd with log := nd.log ++ [⟨nd.term, p⟩] } : Node).term := h
          rw [if_pos h', if_pos h, ← hL.leaderCanon i nd hnd hr]
        · have h' : ¬ t = ({ nd with log := nd.log ++ [⟨nd.term, p⟩] } : Node).term := h
          rw [if_neg h', if_neg h]
      rw [hel] at hU
      have := hE.elogOk U j vs hU
      refine ⟨this.pos, ?_, by rw [helog]; exact this.old⟩
      rw [hcn, helog]
      by_cases hUt : U = nd.term
      · simp only [hUt, if_true]
        obtain ⟨x, hx, hxt⟩ := this.ext
        rw [hUt] at hx hxt
        refine ⟨x ++ [⟨nd.term, p⟩], by rw [hx, List.append_assoc], ?_⟩
        intro e he
        rcases List.mem_append.mp he with h | h
        · exact hxt e h
        · simp only [List.mem_singleton] at h; subst h; rfl
      · simp only [hUt, if_false]; exact this.ext
    · -- accept
      have hnl : ¬ nd'.role = .leader := by rw [hr']; intro h; cases h
      have hel : (setNode s i nd' nd msgs).elected = s.elected := by
        simp only [setNode]; rw [if_neg]; intro h; exact hnl h.2
      have helog : (setNode s i nd' nd msgs).elog = s.elog := by
        simp only [setNode]; rw [if_neg]; intro h; exact hnl h.2
      have hcn : (setNode s i nd' nd msgs).canon = s.canon := by
        simp only [setNode]; rw [if_neg hnl]
      rw [hel] at hU
      have := hE.elogOk U j vs hU
      exact ⟨this.pos, by rw [hcn, helog]; exact this.ext, by rw [helog]; exact this.old⟩
  · -- candFresh
    intro j ndj hj hrc
    rw [hnodes, hget] at hj
    by_cases hji : j = i
    · rw [if_pos hji] at hj; cases hj
      -- a candidate's step keeps the log
      have hlog : nd'.log = nd.log := by
        rcases hk with ⟨hlog, _⟩ | ⟨_, hl, _⟩ | ⟨hr, p, hp⟩ | ⟨hr', _⟩
        · exact hlog
        · rw [hl] at hrc; cases hrc
        · subst hp; have : nd.role = .candidate := hrc; rw [hr] at this; cases this
        · rw [hr'] at hrc; cases hrc
      rcases ht.shape with sh | sh | sh | sh
      · rw [sh] at hrc; cases hrc
      · have hr0 : nd.role = .candidate := by rw [← sh.1]; exact hrc
        have := hE.candFresh i nd hnd hr0
        rw [sh.2.1, hlog]; exact this
      · refine ⟨by have := sh.2.2.2; omega, ?_⟩
        intro e he
        rw [hlog] at he
        have := hC.nodeTermBound i nd hnd e he
        have := sh.2.2.2; omega
      · have := hE.candFresh i nd hnd sh.1
        rw [sh.2.1, hlog]; exact this
    · rw [if_neg hji] at hj; exact hE.candFresh j ndj hj hrc
  · -- vlogCanon
    intro v U cd vlog fl h
    rw [hvl] at h
    rcases List.mem_append.mp h with h | h
    · obtain ⟨h1, h2⟩ := hE.vlogCanon v U cd vlog fl h
      exact ⟨hcanonmono vlog h1 h2, fun e he => hTE _ (h2 e he)⟩
    · obtain ⟨cd', hx, _, _⟩ := mem_voteLogOf s i nd nd' _ h
      simp only [Prod.mk.injEq] at hx
      obtain ⟨_, _, _, hvlog, _⟩ := hx
      rw [hvlog]
      exact ⟨hcanonmono _ (hL.nodeCanon i nd hnd) (hL.nodeEntries i nd hnd),
        fun e he => hTE _ (hL.nodeEntries i nd hnd e he)⟩
  · -- electedVoters
    intro T j vs hT v hv
    by_cases hnew : nd.role ≠ .leader ∧ nd'.role = .leader
    · have hel : (setNode s i nd' nd msgs).elected = s.elected ++ [(nd'.term, i, nd'.votes)] := by
        simp only [setNode]; rw [if_pos hnew]
      rw [hel] at hT
      rcases List.mem_append.mp hT with hT | hT
      · obtain ⟨vlog, hr⟩ := hE.electedVoters T j vs hT v hv
        exact ⟨vlog, by rw [hvl]; exact List.mem_append_left _ hr⟩
      · simp only [List.mem_singleton, Prod.mk.injEq] at hT
        obtain ⟨rfl, rfl, rfl⟩ := hT
        -- the new leader: its voters' records all predate this step and carry `false`
        have hrc : nd.role = .candidate := by
          rcases hk with ⟨_, hq⟩ | ⟨hr, _⟩ | ⟨hr, _⟩ | ⟨hr', _⟩
          · exact absurd (hq hnew.2).1 hnew.1
          · exact hr
          · exact absurd hr hnew.1
          · rw [hr'] at hnew; cases hnew.2
        have hterm : nd'.term = nd.term := by
          rcases ht.shape with sh | sh | sh | sh
          · rw [sh] at hnew; cases hnew.2
          · exact sh.2.1
          · rw [sh.1] at hnew; cases hnew.2
          · exact sh.2.1
        have hNoT := no_prior_election c s j nd nd' msgs hL hI' hL' hnd hrc hnew.2 hterm
        have hnode' : (setNode s j nd' nd msgs).nodes[j]? = some nd' := by rw [hnodes, hget]; simp
        have hq := hI'.votesOk j nd' hnode' (by rw [hnew.2]; intro h; cases h)
        obtain ⟨vlog, fl, hrec⟩ := hg2v v nd'.term j (hq.1 v hv)
        -- no record is created in this step
        have hnone : voteLogOf s j nd nd' = [] := by
          unfold voteLogOf
          rw [if_pos ⟨hterm, hvf hrc hnew.2⟩]
        rw [hvl, hnone, List.append_nil] at hrec
        cases fl with
        | false => exact ⟨vlog, by rw [hvl]; exact List.mem_append_left _ hrec⟩
        | true =>
          exfalso
          have := hE.flagTrue v nd'.term j vlog hrec
          rw [hterm] at this; exact hNoT this
    · have hel : (setNode s i nd' nd msgs).elected = s.elected := by
        simp only [setNode]; rw [if_neg hnew]
      rw [hel] at hT
      obtain ⟨vlog, hr⟩ := hE.electedVoters T j vs hT v hv
      exact ⟨vlog, by rw [hvl]; exact List.mem_append_left _ hr⟩

/-- a delivery that turns a candidate into a leader leaves its recorded vote alone -/
theorem deliver_elected_votedFor (c : Config) (nd : Node) (src : Nat) (m : Msg) (b1 b2 b3 : Bool)
    (hr : nd.role = .candidate) (hl : (deliver c nd src m b1 b2 b3).1.role = .leader) :
    (deliver c nd src m b1 b2 b3).1.votedFor = nd.votedFor := by
  cases m with
  | requestVote t cand li lt =>
    exfalso
    have heq : (deliver c nd src (.requestVote t cand li lt) b1 b2 b3).1
        = (handleRequestVote c nd t cand li lt b1 b2).1 := rfl
    rw [heq, handleRequestVote_eq] at hl
    have hsd : (stepDown nd t).role ≠ .leader := by
      by_cases hgt : t > nd.term
      · rw [stepDown_of_gt nd t hgt]; intro h; cases h
      · rw [stepDown_of_le nd t hgt, hr]; intro h; cases h
    split at hl <;> exact hsd hl
  | requestVoteResp t gr v =>
    have heq : (deliver c nd src (.requestVoteResp t gr v) b1 b2 b3).1
        = handleRequestVoteResp c nd src t gr := rfl
    rw [heq] at hl ⊢
    unfold handleRequestVoteResp at hl ⊢
    by_cases h1 : nd.role ≠ .candidate
    · exact absurd hr h1
    · rw [if_neg h1] at hl ⊢
      by_cases h2 : t > nd.term
      · rw [if_pos h2] at hl; cases hl
      · rw [if_neg h2] at hl ⊢
        by_cases h3 : gr = true ∧ t = nd.term
        · rw [if_pos h3] at hl ⊢
          by_cases h4 : src ∈ nd.votes
          · rw [if_pos h4]
          · rw [if_neg h4] at hl ⊢
            by_cases h5 : ({ nd with votes := nd.votes ++ [src] } : Node).votes.length ≥ c.quorum
            · rw [if_pos h5]; rfl
            · rw [if_neg h5]
        · rw [if_neg h3]
  | preVote t cand li lt => exact absurd hl (by rw [show (deliver c nd src (.preVote t cand li lt) b1 b2 b3).1 = nd from rfl, hr]; intro h; cases h)
  | preVoteResp t gr v =>
    exfalso
    have heq : (deliver c nd src (.preVoteResp t gr v) b1 b2 b3).1
        = (handlePreVoteResp c nd src t gr).1 := rfl
    rw [heq] at hl
    unfold handlePreVoteResp at hl
    by_cases h1 : nd.inPreVote = false
    · rw [if_pos h1, hr] at hl; cases hl
    · rw [if_neg h1] at hl
      by_cases h2 : t > nd.term
      · rw [if_pos h2] at hl; cases hl
      · rw [if_neg h2] at hl
        by_cases h3 : gr = true ∧ t = nd.term
        · rw [if_pos h3] at hl
          by_cases h4 : src ∈ nd.preVotes
          · rw [if_pos h4, hr] at hl; cases hl
          · rw [if_neg h4] at hl
            by_cases h5 : ({ nd with preVotes := nd.preVotes ++ [src] } : Node).preVotes.length ≥ c.quorum
            · rw [if_pos h5] at hl; simp [startElection] at hl
            · rw [if_neg h5] at hl
              have : ({ nd with preVotes := nd.preVotes ++ [src] } : Node).role = nd.role := rfl
              rw [this, hr] at hl; cases hl
        · rw [if_neg h3, hr] at hl; cases hl
  | appendEntries t l pi pt es lc =>
    exfalso
    rcases deliver_matchIdx c nd src (.appendEntries t l pi pt es lc) b1 b2 b3 hl with ⟨h, _⟩ | ⟨_, _⟩
    · rw [hr] at h; cases h
    · -- a candidate is never made leader by an AppendEntries
      have heq : (deliver c nd src (.appendEntries t l pi pt es lc) b1 b2 b3).1
          = (handleAppendEntries nd t l pi pt es lc).1 := rfl
      rw [heq] at hl
      have hlog := handleAppendEntries_log nd t l pi pt es lc
      by_cases hle : nd.term ≤ t
      · rw [hlog.2 hle] at hl; cases hl
      · have hsd : stepDown nd t = nd := stepDown_of_le nd t (by omega)
        have hne : ¬ t = (stepDown nd t).term := by rw [hsd]; omega
        unfold handleAppendEntries at hl
        rw [if_neg hne, hsd, hr] at hl; cases hl
  | appendEntriesResp t sc f mi =>
    exfalso
    have heq : (deliver c nd src (.appendEntriesResp t sc f mi) b1 b2 b3).1
        = handleAppendEntriesResp c nd src t sc mi := rfl
    rw [heq] at hl
    have := (handleAER_matchIdx c nd src t sc mi hl).1
    rw [hr] at this; cases this
  | timeoutNow t l =>
    exfalso
    have heq : (deliver c nd src (.timeoutNow t l) b1 b2 b3).1
        = (handleTimeoutNow nd src t l).1 := rfl
    rw [heq] at hl
    unfold handleTimeoutNow at hl
    split at hl
    · rw [hr] at hl; cases hl
    · split at hl
      · rw [hr] at hl; cases hl
      · simp [startElection] at hl

/-- a RequestVote a handler emits is the start of an election by that node, right now -/
theorem deliver_out_rv_full (c : Config) (nd : Node) (src : Nat) (m : Msg) (b1 b2 b3 : Bool)
    (t cand li lt : Nat) (h : (deliver c nd src m b1 b2 b3).2 = some (.requestVote t cand li lt)) :
    cand = nd.id ∧ t = (deliver c nd src m b1 b2 b3).1.term ∧
    (deliver c nd src m b1 b2 b3).1.role = .candidate ∧
    nd.term < (deliver c nd src m b1 b2 b3).1.term ∧ li = lastIdx nd.log ∧ lt = lastTerm nd.log := by
  cases m with
  | requestVote t' cand' li' lt' =>
    simp only [deliver, handleRequestVote_eq] at h
    split at h <;> simp at h
  | requestVoteResp t' gr v => simp [deliver] at h
  | preVote t' cand' li' lt' =>
    simp only [deliver, handlePreVote] at h
    split at h
    · split at h <;> simp at h
    · simp at h
  | appendEntries t' l pi pt es lc =>
    simp only [deliver, handleAppendEntries] at h
    split at h
    · split at h
      · simp [aeAccept] at h
      · simp at h
    · simp at h
  | appendEntriesResp t' sc f mi => simp [deliver] at h
  | preVoteResp t' gr v =>
    have heq : deliver c nd src (.preVoteResp t' gr v) b1 b2 b3 = handlePreVoteResp c nd src t' gr := rfl
    rw [heq] at h ⊢
    unfold handlePreVoteResp at h ⊢
    by_cases h1 : nd.inPreVote = false
    · rw [if_pos h1] at h; simp at h
    · rw [if_neg h1] at h ⊢
      by_cases h2 : t' > nd.term
      · rw [if_pos h2] at h; simp at h
      · rw [if_neg h2] at h ⊢
        by_cases h3 : gr = true ∧ t' = nd.term
        · rw [if_pos h3] at h ⊢
          by_cases h4 : src ∈ nd.preVotes
          · rw [if_pos h4] at h; simp at h
          · rw [if_neg h4] at h ⊢
            by_cases h5 : ({ nd with preVotes := nd.preVotes ++ [src] } : Node).preVotes.length ≥ c.quorum
            · rw [if_pos h5] at h ⊢
              simp only [startElection, Option.some.injEq, Msg.requestVote.injEq] at h ⊢
              obtain ⟨ht, hc, hli, hlt⟩ := h
              exact ⟨hc.symm, ht.symm, trivial, by omega, hli.symm, hlt.symm⟩
            · rw [if_neg h5] at h; simp at h
        · rw [if_neg h3] at h; simp at h
  | timeoutNow t' l =>
    have heq : deliver c nd src (.timeoutNow t' l) b1 b2 b3 = handleTimeoutNow nd src t' l := rfl
    rw [heq] at h ⊢
    unfold handleTimeoutNow at h ⊢
    split at h
    · simp at h
    · rename_i h1; rw [if_neg h1]
      split at h
      · simp at h
      · rename_i h2; rw [if_neg h2]
        simp only [startElection, Option.some.injEq, Msg.requestVote.injEq] at h ⊢
        obtain ⟨ht, hc, hli, hlt⟩ := h
        exact ⟨hc.symm, ht.symm, trivial, by omega, hli.symm, hlt.symm⟩

/-- how a node can come to record a (new) vote: it starts an election itself, or it grants a
    RequestVote whose advertised log is at least as up to date as its own -/
def VoteFact (s : Sys) (i : Nat) (nd nd' : Node) : Prop :=
  ∀ cd, nd'.votedFor = some cd → ¬ (nd'.term = nd.term ∧ nd'.votedFor = nd.votedFor) →
    nd'.log = nd.log ∧
    ((cd = i ∧ nd'.role = .candidate ∧ nd.term < nd'.term) ∨
     ((nd.term < nd'.term → nd'.role ≠ .candidate) ∧
      ∃ src li lt, (src, i, Msg.requestVote nd'.term cd li lt) ∈ s.net ∧
        (lt > lastTerm nd.log ∨ (lt = lastTerm nd.log ∧ nd.log.length ≤ li))))

theorem stepDown_vote (nd : Node) (t : Nat) :
    ((stepDown nd t).term = nd.term ∧ (stepDown nd t).votedFor = nd.votedFor) ∨
    (stepDown nd t).votedFor = none := by
  by_cases h : t > nd.term
  · right; rw [stepDown_of_gt nd t h]
  · left; rw [stepDown_of_le nd t h]; exact ⟨rfl, rfl⟩

theorem stepDown_role_ne_cand (nd : Node) (t : Nat) (h : (stepDown nd t).role = .candidate) :
    stepDown nd t = nd := by
  by_cases hgt : t > nd.term
  · rw [stepDown_of_gt nd t hgt] at h; cases h
  · exact stepDown_of_le nd t hgt

theorem deliver_vote_fact (c : Config) (nd : Node) (src : Nat) (m : Msg) (b1 b2 b3 : Bool) (cd : Nat)
    (hv : (deliver c nd src m b1 b2 b3).1.votedFor = some cd)
    (hne : ¬ ((deliver c nd src m b1 b2 b3).1.term = nd.term ∧
              (deliver c nd src m b1 b2 b3).1.votedFor = nd.votedFor)) :
    (deliver c nd src m b1 b2 b3).1.log = nd.log ∧
    ((cd = nd.id ∧ (deliver c nd src m b1 b2 b3).1.role = .candidate ∧
        nd.term < (deliver c nd src m b1 b2 b3).1.term) ∨
     ((nd.term < (deliver c nd src m b1 b2 b3).1.term →
        (deliver c nd src m b1 b2 b3).1.role ≠ .candidate) ∧
      ∃ li lt, m = Msg.requestVote (deliver c nd src m b1 b2 b3).1.term cd li lt ∧
        (lt > lastTerm nd.log ∨ (lt = lastTerm nd.log ∧ nd.log.length ≤ li)))) := by
  cases m with
  | requestVote t cand li lt =>
    have heq : (deliver c nd src (.requestVote t cand li lt) b1 b2 b3).1
        = (handleRequestVote c nd t cand li lt b1 b2).1 := rfl
    rw [heq, handleRequestVote_eq] at hv hne ⊢
    by_cases hc : t = (stepDown nd t).term ∧ canVote (stepDown nd t) cand = true ∧
         voteLogOk c (stepDown nd t).log li lt b2 = true ∧ b1 = true
    · rw [if_pos hc] at hv hne ⊢
      simp only [Option.some.injEq] at hv
      subst hv
      refine ⟨by simp, Or.inr ⟨?_, li, lt, ?_, ?_⟩⟩
      · -- a higher term makes the node a follower before it votes
        intro hlt hrc
        have hsd : stepDown nd t = nd := stepDown_role_ne_cand nd t hrc
        have : (stepDown nd t).term = nd.term := by rw [hsd]
        have h2 : nd.term < (stepDown nd t).term := hlt
        omega
      · show (Msg.requestVote t cand li lt) = Msg.requestVote (stepDown nd t).term cand li lt
        rw [← hc.1]
      · have hlo := hc.2.2.1
        simp only [voteLogOk, stepDown_log, decide_eq_true_eq] at hlo
        unfold lastIdx at hlo
        rcases hlo with h | h
        · rcases h with h | h
          · exact Or.inl h
          · exact Or.inr ⟨h.1, by omega⟩
        · exact Or.inr ⟨h.1.1, by omega⟩
    · rw [if_neg hc] at hv hne
      rcases stepDown_vote nd t with h | h
      · exact absurd h hne
      · rw [h] at hv; cases hv
  | requestVoteResp t gr v =>
    exfalso
    have htr := handleRequestVoteResp_trans c nd src t gr v
    have heq : (deliver c nd src (.requestVoteResp t gr v) b1 b2 b3).1
        = handleRequestVoteResp c nd src t gr := rfl
    rw [heq] at hv hne
    unfold handleRequestVoteResp at hv hne
    by_cases h1 : nd.role ≠ .candidate
    · rw [if_pos h1] at hne; exact hne ⟨rfl, rfl⟩
    · rw [if_neg h1] at hv hne
      by_cases h2 : t > nd.term
      · rw [if_pos h2] at hv; cases hv
      · rw [if_neg h2] at hv hne
        by_cases h3 : gr = true ∧ t = nd.term
        · rw [if_pos h3] at hne
          by_cases h4 : src ∈ nd.votes
          · rw [if_pos h4] at hne; exact hne ⟨rfl, rfl⟩
          · rw [if_neg h4] at hne
            by_cases h5 : ({ nd with votes := nd.votes ++ [src] } : Node).votes.length ≥ c.quorum
            · rw [if_pos h5] at hne; exact hne ⟨rfl, rfl⟩
            · rw [if_neg h5] at hne; exact hne ⟨rfl, rfl⟩
        · rw [if_neg h3] at hne; exact hne ⟨rfl, rfl⟩
  | preVote t cand li lt => exact absurd ⟨rfl, rfl⟩ hne
  | preVoteResp t gr v =>
    have heq : (deliver c nd src (.preVoteResp t gr v) b1 b2 b3).1
        = (handlePreVoteResp c nd src t gr).1 := rfl
    rw [heq] at hv hne ⊢
    unfold handlePreVoteResp at hv hne ⊢
    by_cases h1 : nd.inPreVote = false
    · rw [if_pos h1] at hne; exact absurd ⟨rfl, rfl⟩ hne
    · rw [if_neg h1] at hv hne ⊢
      by_cases h2 : t > nd.term
      · rw [if_pos h2] at hv; cases hv
      · rw [if_neg h2] at hv hne ⊢
        by_cases h3 : gr = true ∧ t = nd.term
        · rw [if_pos h3] at hv hne ⊢
          by_cases h4 : src ∈ nd.preVotes
          · rw [if_pos h4] at hne; exact absurd ⟨rfl, rfl⟩ hne
          · rw [if_neg h4] at hv hne ⊢
            by_cases h5 : ({ nd with preVotes := nd.preVotes ++ [src] } : Node).preVotes.length ≥ c.quorum
            · rw [if_pos h5] at hv ⊢
              simp only [startElection, Option.some.injEq] at hv
              exact ⟨rfl, Or.inl ⟨hv.symm, rfl, by simp [startElection]⟩⟩
            · rw [if_neg h5] at hne; exact absurd ⟨rfl, rfl⟩ hne
        · rw [if_neg h3] at hne; exact absurd ⟨rfl, rfl⟩ hne
  | appendEntries t l pi pt es lc =>
    exfalso
    have heq : (deliver c nd src (.appendEntries t l pi pt es lc) b1 b2 b3).1
        = (handleAppendEntries nd t l pi pt es lc).1 := rfl
    rw [heq] at hv hne
    unfold handleAppendEntries at hv hne
    by_cases h1 : t = (stepDown nd t).term
    · rw [if_pos h1] at hv hne
      by_cases h2 : aeLogOk (stepDown nd t).log pi pt = true
      · simp only [h2, if_true, aeAccept] at hv hne
        rcases stepDown_vote nd t with h | h
        · exact hne h
        · rw [h] at hv; cases hv
      · simp only [h2, Bool.false_eq_true, if_false] at hv hne
        rcases stepDown_vote nd t with h | h
        · exact hne h
        · rw [h] at hv; cases hv
    · rw [if_neg h1] at hv hne
      rcases stepDown_vote nd t with h | h
      · exact hne h
      · rw [h] at hv; cases hv
  | appendEntriesResp t sc f mi =>
    exfalso
    have heq : (deliver c nd src (.appendEntriesResp t sc f mi) b1 b2 b3).1
        = handleAppendEntriesResp c nd src t sc mi := rfl
    rw [heq] at hv hne
    unfold handleAppendEntriesResp at hv hne
    by_cases h1 : nd.role ≠ .leader
    · rw [if_pos h1] at hne; exact hne ⟨rfl, rfl⟩
    · rw [if_neg h1] at hv hne
      by_cases h2 : t > nd.term
      · rw [if_pos h2] at hv; cases hv
      · rw [if_neg h2] at hv hne
        by_cases h3 : t < nd.term
        · rw [if_pos h3] at hne; exact hne ⟨rfl, rfl⟩
        · rw [if_neg h3] at hv hne
          by_cases h4 : nd.hasLeaderState = false
          · rw [if_pos h4] at hne; exact hne ⟨rfl, rfl⟩
          · rw [if_neg h4] at hv hne
            by_cases h5 : sc = true
            · rw [if_pos h5] at hne
              obtain ⟨_, _, e1, _, _⟩ := tryAdvanceCommit_fields c
                { nd with nextIdx := alSet nd.nextIdx src (mi + 1), matchIdx := alSet nd.matchIdx src mi,
                          backoff := alRemove nd.backoff src }
              obtain ⟨_, e2, e3, _, _⟩ := tryAdvanceCommit_fields c
                { nd with nextIdx := alSet nd.nextIdx src (mi + 1), matchIdx := alSet nd.matchIdx src mi,
                          backoff := alRemove nd.backoff src }
              exact hne ⟨e2, e3⟩
            · rw [if_neg h5] at hne; exact hne ⟨rfl, rfl⟩
  | timeoutNow t l =>
    have heq : (deliver c nd src (.timeoutNow t l) b1 b2 b3).1
        = (handleTimeoutNow nd src t l).1 := rfl
    rw [heq] at hv hne ⊢
    unfold handleTimeoutNow at hv hne ⊢
    split at hne
    · exact absurd ⟨rfl, rfl⟩ hne
    · rename_i h1; rw [if_neg h1] at hv ⊢
      split at hne
      · exact absurd ⟨rfl, rfl⟩ hne
      · rename_i h2; rw [if_neg h2] at hv ⊢
        simp only [startElection, Option.some.injEq] at hv
        exact ⟨rfl, Or.inl ⟨hv.symm, rfl, by simp [startElection]⟩⟩

/-- every RequestVote a step adds announces an election the node starts in this very step -/
def MsgsR (i : Nat) (nd nd' : Node) (msgs : List (Nat × Nat × Msg)) : Prop :=
  ∀ (a b : Nat) (m : Msg), (a, b, m) ∈ msgs → ∀ t cand li lt, m = Msg.requestVote t cand li lt →
    cand = i ∧ t = nd'.term ∧ nd'.role = .candidate ∧ nd.term < nd'.term ∧
    li = lastIdx nd.log ∧ lt = lastTerm nd.log

/-- **Case analysis of one system step**, shared by every invariant layer: a step either
    leaves the state alone, or replaces one node (with the facts `NodeTrans`, `Kind`, `MsgsC`,
    `NoAE` about the replacement), or adds one AppendEntries built by a leader. -/
theorem sysStep_cases (c : Config) (s : Sys) (st : Step) (hI : Inv c s) (P : Sys → Prop)
    (hsame : P s)
    (hset : ∀ (i : Nat) (nd nd' : Node) (g : Option Nat) (msgs : List (Nat × Nat × Msg)),
      s.nodes[i]? = some nd → NodeTrans c nd nd' g → Kind c s i nd nd' → MsgsC s i nd nd' msgs →
      NoAE msgs → MsgsR i nd nd' msgs → VoteFact s i nd nd' →
      (nd.role = .candidate → nd'.role = .leader → nd'.votedFor = nd.votedFor) →
      sysStep c s st = setNode s i nd' nd msgs → P (setNode s i nd' nd msgs))
    (hrep : ∀ (i j : Nat) (nd : Node) (m : Msg), j ≠ i → s.nodes[i]? = some nd →
      appendEntriesFor nd j = some m → P { s with net := s.net ++ [(i, j, m)] }) :
    P (sysStep c s st) := by
  cases st with
  | timeout i =>
    cases hnd : s.nodes[i]? with
    | none => simp only [sysStep, hnd]; exact hsame
    | some nd =>
      have heq : sysStep c s (.timeout i) = setNode s i (startElection nd).1 nd (broadcast c i (startElection nd).2) := by
        simp only [sysStep, hnd]
      rw [heq]
      have htr := startElection_trans c nd none
      apply hset i nd _ none _ hnd htr
      · exact kind_of_logsame c s i nd _ none htr rfl (fun h => by simp [startElection] at h)
      · apply msgsC_noAER
        · intro a b m h; exact (mem_broadcast c i _ a b m h).1
        · intro a b m h T sc f mi e
          rw [(mem_broadcast c i _ a b m h).2] at e; simp [startElection] at e
      · exact noAE_broadcast c i _ (by intro _ _ _ _ _ _ h; simp [startElection] at h)
      · intro a b m h t cand li lt e
        rw [(mem_broadcast c i _ a b m h).2] at e
        simp only [startElection, Msg.requestVote.injEq] at e
        obtain ⟨ht, hc, hli, hlt⟩ := e
        exact ⟨by rw [← hc]; exact hI.ids i nd hnd, by simp [startElection, ← ht], rfl,
          by simp [startElection], hli.symm, hlt.symm⟩
      · intro cd hv _
        simp only [startElection, Option.some.injEq] at hv
        exact ⟨rfl, Or.inl ⟨by rw [← hv]; exact hI.ids i nd hnd, rfl, by simp [startElection]⟩⟩
      · intro _ h; simp [startElection] at h
      · exact heq
  | preVote i =>
    cases hnd : s.nodes[i]? with
    | none => simp only [sysStep, hnd]; exact hsame
    | some nd =>
      have heq : sysStep c s (.preVote i) = setNode s i (startPreVote nd).1 nd (broadcast c i (startPreVote nd).2) := by
        simp only [sysStep, hnd]
      rw [heq]
      have htr := startPreVote_trans c nd none
      apply hset i nd _ none _ hnd htr
      · refine kind_of_logsame c s i nd _ none htr rfl (fun h => ?_)
        have hr : nd.role = .leader := h
        exact Or.inl ⟨hr, Or.inl rfl⟩
      · apply msgsC_noAER
        · intro a b m h; exact (mem_broadcast c i _ a b m h).1
        · intro a b m h T sc f mi e
          rw [(mem_broadcast c i _ a b m h).2] at e; simp [startPreVote] at e
      · exact noAE_broadcast c i _ (by intro _ _ _ _ _ _ h; simp [startPreVote] at h)
      · intro a b m h t cand li lt e
        rw [(mem_broadcast c i _ a b m h).2] at e; simp [startPreVote] at e
      · intro cd _ hne; exact absurd ⟨rfl, rfl⟩ hne
      · intro hr h
        have : nd.role = .leader := h
        rw [hr] at this; cases this
      · exact heq
  | deliver k h1 h2 h3 =>
    cases hk : s.net[k]? with
    | none => simp only [sysStep, hk]; exact hsame
    | some x =>
      obtain ⟨src, dst, m⟩ := x
      have hmem : (src, dst, m) ∈ s.net := List.mem_of_getElem? hk
      cases hnd : s.nodes[dst]? with
      | none => simp only [sysStep, hk, hnd]; exact hsame
      | some nd =>
        have heq : sysStep c s (.deliver k h1 h2 h3) =
            setNode s dst (deliver c nd src m h1 h2 h3).1 nd (route c dst src (deliver c nd src m h1 h2 h3).2) := by
          simp only [sysStep, hk, hnd]
        rw [heq]
        have hid : nd.id = dst := hI.ids dst nd hnd
        have htr := deliver_trans c nd src m h1 h2 h3
        have hmi : (deliver c nd src m h1 h2 h3).1.role = .leader →
            (nd.role = .leader ∧ ((deliver c nd src m h1 h2 h3).1.matchIdx = nd.matchIdx ∨
              ∃ src' f mi, (src', dst, Msg.appendEntriesResp nd.term true f mi) ∈ s.net ∧
                (deliver c nd src m h1 h2 h3).1.matchIdx = alSet nd.matchIdx src' mi)) ∨
            (nd.role = .candidate ∧
              (deliver c nd src m h1 h2 h3).1.matchIdx = (peers c nd.id).map (fun p => (p, 0))) := by
          intro hl
          rcases deliver_matchIdx c nd src m h1 h2 h3 hl with ⟨hr, hq⟩ | hq
          · left
            refine ⟨hr, ?_⟩
            rcases hq with hq | ⟨f, mi, hmeq, hset'⟩
            · exact Or.inl hq
            · exact Or.inr ⟨src, f, mi, by rw [← hmeq]; exact hmem, hset'⟩
          · exact Or.inr hq
        have hmsgs : MsgsC s dst nd (deliver c nd src m h1 h2 h3).1
            (route c dst src (deliver c nd src m h1 h2 h3).2) := by
          intro a b m' hm'
          cases hout : (deliver c nd src m h1 h2 h3).2 with
          | none => rw [hout] at hm'; simp [route] at hm'
          | some out =>
            rw [hout] at hm'
            have hcases : (∃ t cand li lt, out = .requestVote t cand li lt) ∨
                (∀ t cand li lt, out ≠ .requestVote t cand li lt) := by
              cases out <;> simp
            rcases hcases with ⟨t, cand, li, lt, ho⟩ | hno
            · subst ho
              simp only [route] at hm'
              obtain ⟨ha, hm2⟩ := mem_broadcast c dst _ a b m' hm'
              exact ⟨ha, fun T sc f mi e => by rw [hm2] at e; cases e⟩
            · have hr : route c dst src (some out) = [(dst, src, out)] := by
                cases out <;> first | rfl | (exfalso; exact hno _ _ _ _ rfl)
              rw [hr] at hm'
              simp only [List.mem_singleton, Prod.mk.injEq] at hm'
              obtain ⟨ha, _, hm2⟩ := hm'
              refine ⟨ha, fun T sc f mi e => ?_⟩
              rw [hm2] at e; rw [e] at hout
              obtain ⟨hf, hT, t, l, pi, pt, es, lc, hmin, hs⟩ :=
                deliver_out_aer c nd src m h1 h2 h3 T sc f mi hout
              refine ⟨by rw [hf, hid], hT, fun hsc => ?_⟩
              obtain ⟨_, htT, hok, hlog, hmi'⟩ := hs hsc
              subst hmin
              refine ⟨src, l, pi, pt, es, lc, ?_, hok, hlog, hmi'⟩
              rw [← hT, ← htT]; exact hmem
        have hmsgsR : MsgsR dst nd (deliver c nd src m h1 h2 h3).1
            (route c dst src (deliver c nd src m h1 h2 h3).2) := by
          intro a b m' hm' t cand li lt e
          cases hout : (deliver c nd src m h1 h2 h3).2 with
          | none => rw [hout] at hm'; simp [route] at hm'
          | some out =>
            rw [hout] at hm'
            have hcases : (∃ t cand li lt, out = .requestVote t cand li lt) ∨
                (∀ t cand li lt, out ≠ .requestVote t cand li lt) := by
              cases out <;> simp
            rcases hcases with ⟨t0, cand0, li0, lt0, ho⟩ | hno
            · subst ho
              simp only [route] at hm'
              obtain ⟨_, hm2⟩ := mem_broadcast c dst _ a b m' hm'
              rw [hm2] at e
              simp only [Msg.requestVote.injEq] at e
              obtain ⟨rfl, rfl, rfl, rfl⟩ := e
              obtain ⟨p1, p2, p3, p4, p5, p6⟩ := deliver_out_rv_full c nd src m h1 h2 h3 _ _ _ _ hout
              exact ⟨by rw [p1, hid], p2, p3, p4, p5, p6⟩
            · have hr : route c dst src (some out) = [(dst, src, out)] := by
                cases out <;> first | rfl | (exfalso; exact hno _ _ _ _ rfl)
              rw [hr] at hm'
              simp only [List.mem_singleton, Prod.mk.injEq] at hm'
              rw [hm'.2.2] at e
              exact absurd e (hno t cand li lt)
        have hvote : VoteFact s dst nd (deliver c nd src m h1 h2 h3).1 := by
          intro cd hv hne
          obtain ⟨hlg, hq⟩ := deliver_vote_fact c nd src m h1 h2 h3 cd hv hne
          refine ⟨hlg, ?_⟩
          rcases hq with ⟨a, b, d⟩ | ⟨a, li, lt, hm, hup⟩
          · exact Or.inl ⟨by rw [a, hid], b, d⟩
          · exact Or.inr ⟨a, src, li, lt, by rw [← hm]; exact hmem, hup⟩
        apply hset dst nd _ _ _ hnd htr _ hmsgs (noAE_route c nd src dst m h1 h2 h3) hmsgsR hvote
          (fun hr hl => deliver_elected_votedFor c nd src m h1 h2 h3 hr hl) heq
        by_cases hae : ∃ t l pi pt es lc, m = Msg.appendEntries t l pi pt es lc
        · obtain ⟨t, l, pi, pt, es, lc, rfl⟩ := hae
          have hl := handleAppendEntries_log nd t l pi pt es lc
          have hdl : (deliver c nd src (Msg.appendEntries t l pi pt es lc) h1 h2 h3).1
              = (handleAppendEntries nd t l pi pt es lc).1 := rfl
          rcases hl.1 with hsame' | ⟨hle, hok, hacc⟩
          · exact kind_of_logsame c s dst nd _ _ htr (by rw [hdl]; exact hsame') hmi
          · right; right; right
            refine ⟨by rw [hdl]; exact hl.2 hle, src, l, pi, pt, es, lc, ?_, hok, by rw [hdl]; exact hacc⟩
            rw [hdl, handleAppendEntries_term nd t l pi pt es lc hle]; exact hmem
        · have hlog := deliver_log_other c nd src m h1 h2 h3
            (by intro t l pi pt es lc h; exact hae ⟨t, l, pi, pt, es, lc, h⟩)
          exact kind_of_logsame c s dst nd _ _ htr hlog hmi
  | propose i p a =>
    cases hnd : s.nodes[i]? with
    | none => simp only [sysStep, hnd]; exact hsame
    | some nd =>
      have heq : sysStep c s (.propose i p a) = setNode s i (propose nd p a).1 nd [] := by
        simp only [sysStep, hnd]
      rw [heq]
      have hm0 : ∀ nd', MsgsC s i nd nd' [] := by intro nd' a b m h; simp at h
      rcases propose_log nd p a with h | ⟨hr, h⟩
      · rw [h] at heq ⊢
        exact hset i nd nd none [] hnd (NodeTrans.refl c nd none)
          (kind_of_logsame c s i nd nd none (NodeTrans.refl c nd none) rfl
            (fun hl => Or.inl ⟨hl, Or.inl rfl⟩)) (hm0 nd) noAE_nil
          (by intro a b m h; simp at h) (by intro cd _ hne; exact absurd ⟨rfl, rfl⟩ hne)
          (fun _ _ => rfl) heq
      · rw [h] at heq ⊢
        refine hset i nd _ none [] hnd ?_ (Or.inr (Or.inr (Or.inl ⟨hr, p, rfl⟩))) (hm0 _) noAE_nil
          (by intro a b m h; simp at h) (by intro cd _ hne; exact absurd ⟨rfl, rfl⟩ hne)
          (fun _ _ => rfl) heq
        have := propose_trans c nd p a none
        rw [h] at this; exact this
  | replicate i j =>
    simp only [sysStep]
    split
    · exact hsame
    · rename_i hji
      cases hnd : s.nodes[i]? with
      | none => exact hsame
      | some nd =>
        simp only []
        cases hae : appendEntriesFor nd j with
        | none => exact hsame
        | some m => exact hrep i j nd m hji hnd hae
  | crash i =>
    cases hnd : s.nodes[i]? with
    | none => simp only [sysStep, hnd]; exact hsame
    | some nd =>
      have heq : sysStep c s (.crash i) = setNode s i (crashRestart nd) nd [] := by
        simp only [sysStep, hnd]
      rw [heq]
      have htr := crash_trans c nd none
      apply hset i nd _ none [] hnd htr
      · exact kind_of_logsame c s i nd _ none htr rfl (fun h => by simp [crashRestart] at h)
      · intro a b m h; simp at h
      · exact noAE_nil
      · intro a b m h; simp at h
      · intro cd _ hne; exact absurd ⟨rfl, rfl⟩ hne
      · intro _ h; simp [crashRestart] at h
      · exact heq

theorem einv_step (c : Config) (s : Sys) (st : Step) (hI : Inv c s) (hL : LMInv c s)
    (hC : CInv c s) (hE : EInv c s) : EInv c (sysStep c s st) := by
  have hI' := inv_step c s st hI
  have hL' := lm_step c s st hI hL
  apply sysStep_cases c s st hI (fun s' => Inv c s' → LMInv c s' → EInv c s') _ _ _ hI' hL'
  · intro _ _; exact hE
  · intro i nd nd' g msgs hnd htr hk _ _ _ _ hvf _ hI2 hL2
    exact einv_setNode c s i nd nd' g msgs hL hC hE hI2 hL2 hnd htr hk hvf
  · intro i j nd m _ _ _ _ _
    refine ⟨?_, hE.candFresh, hE.vlogCanon, hE.ghostToVoteLog, hE.flagTrue, hE.electedVoters⟩
    intro U j' vs h
    have := hE.elogOk U j' vs h
    exact ⟨this.pos, this.ext, this.old⟩

theorem einv_run (c : Config) (s : Sys) (steps : List Step) (hI : Inv c s) (hL : LMInv c s)
    (hC : CInv c s) (hE : EInv c s) : EInv c (run c s steps) := by
  induction steps generalizing s with
  | nil => exact hE
  | cons st rest ih =>
    exact ih (sysStep c s st) (inv_step c s st hI) (lm_step c s st hI hL)
      (cinv_step c s st hI hL hC) (einv_step c s st hI hL hC hE)

end Neumann.Raft
