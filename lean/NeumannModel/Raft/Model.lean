/-
  Raft model (C01): per-node pure handlers mirroring tensor_chain/src/raft.rs
  (handle_request_vote, handle_request_vote_response, start_pre_vote, handle_pre_vote,
   handle_pre_vote_response, handle_timeout_now, start_election, become_leader,
   append_leader_entries, handle_append_entries, handle_append_entries_response,
   try_advance_commit_index, propose, get_entries_for_follower) and crash/restart.

  Modelling decisions (also in DESIGN.md / evidence):
  * node ids are `Nat`; the cluster has `n` voters `0 … n-1`, fixed membership;
  * log entries are `(term, payload)`; the entry index is its position + 1
    (`log_base_index = 0`: compaction / snapshot install are not modelled) — the harness
    asserts `entry.index = position + 1` on every real log and message it sees;
  * WAL persistence is assumed to succeed (the failure branches return early without
    changing state); `is_peer_healthy`, the geometric tie-break outcome and "election
    timeout elapsed" are input bits supplied per delivered message;
  * fast-path only sets a response flag / statistics and is not part of the state.
  Import-free.
-/
namespace Neumann.Raft

structure Entry where
  term : Nat
  payload : Nat
  deriving DecidableEq, Repr

inductive Role where
  | follower | candidate | leader
  deriving DecidableEq, Repr

structure Config where
  n : Nat                      -- cluster size (voters 0..n-1)
  geoTiebreak : Bool := false  -- enable_geometric_tiebreak
  adaptiveBackoff : Bool := true
  maxBackoffPower : Nat := 10
  deriving Repr

def Config.quorum (c : Config) : Nat := c.n / 2 + 1

structure Node where
  id : Nat
  term : Nat := 0
  votedFor : Option Nat := none
  log : List Entry := []
  role : Role := .follower
  leaderId : Option Nat := none
  commit : Nat := 0
  votes : List Nat := []           -- votes_received
  inPreVote : Bool := false
  preVotes : List Nat := []
  hasLeaderState : Bool := false   -- leader_volatile.is_some()
  nextIdx : List (Nat × Nat) := []
  matchIdx : List (Nat × Nat) := []
  backoff : List (Nat × Nat) := []
  deriving Repr

inductive Msg where
  | requestVote (term cand lastIdx lastTerm : Nat)
  | requestVoteResp (term : Nat) (granted : Bool) (voter : Nat)
  | preVote (term cand lastIdx lastTerm : Nat)
  | preVoteResp (term : Nat) (granted : Bool) (voter : Nat)
  | appendEntries (term leader prevIdx prevTerm : Nat) (entries : List Entry) (leaderCommit : Nat)
  | appendEntriesResp (term : Nat) (success : Bool) (follower matchIdx : Nat)
  | timeoutNow (term leader : Nat)
  deriving DecidableEq, Repr

/-! ### association lists (HashMap<NodeId, u64>) -/
def alGet (l : List (Nat × Nat)) (k : Nat) : Option Nat :=
  match l with
  | [] => none
  | (a, v) :: rest => if a = k then some v else alGet rest k

def alSet (l : List (Nat × Nat)) (k v : Nat) : List (Nat × Nat) :=
  match l with
  | [] => [(k, v)]
  | (a, w) :: rest => if a = k then (a, v) :: rest else (a, w) :: alSet rest k v

def alRemove (l : List (Nat × Nat)) (k : Nat) : List (Nat × Nat) :=
  l.filter (fun p => p.1 ≠ k)

/-! ### log helpers -/
def lastIdx (log : List Entry) : Nat := log.length
def lastTerm (log : List Entry) : Nat :=
  match log.getLast? with
  | some e => e.term
  | none => 0

/-- term of the entry at 1-based log index `i` -/
def termAt (log : List Entry) (i : Nat) : Option Nat :=
  if i = 0 then none else (log[i - 1]?).map (·.term)

def peers (c : Config) (self : Nat) : List Nat := (List.range c.n).filter (· ≠ self)

/-- "Update term if needed": a higher term in any RPC resets the vote and the role -/
def stepDown (nd : Node) (t : Nat) : Node :=
  if t > nd.term then { nd with term := t, votedFor := none, role := .follower } else nd

/-! ### elections -/

/-- `start_election`: returns the node and the RequestVote it would broadcast -/
def startElection (nd : Node) : Node × Msg :=
  let t := nd.term + 1
  let nd' := { nd with term := t, votedFor := some nd.id, role := .candidate, votes := [nd.id] }
  (nd', .requestVote t nd.id (lastIdx nd.log) (lastTerm nd.log))

/-- `become_leader` -/
def becomeLeader (c : Config) (nd : Node) : Node :=
  let ps := peers c nd.id
  { nd with role := .leader, leaderId := some nd.id, hasLeaderState := true,
            nextIdx := ps.map (fun p => (p, lastIdx nd.log + 1)),
            matchIdx := ps.map (fun p => (p, 0)),
            backoff := [] }

/-- `handle_request_vote`; `healthy` = is_peer_healthy(candidate), `geoOk` = tie-break passes -/
def voteLogOk (c : Config) (log : List Entry) (cLastIdx cLastTerm : Nat) (geoOk : Bool) : Bool :=
  let li := lastIdx log
  let lt := lastTerm log
  let strictlyBetter := cLastTerm > lt ∨ (cLastTerm = lt ∧ cLastIdx > li)
  let logEqual := cLastTerm = lt ∧ cLastIdx = li
  let geometricOk := if logEqual ∧ c.geoTiebreak then geoOk else true
  decide (strictlyBetter ∨ (logEqual ∧ geometricOk = true))

def canVote (nd : Node) (cand : Nat) : Bool := decide (nd.votedFor = none ∨ nd.votedFor = some cand)

def handleRequestVote (c : Config) (nd : Node) (term cand cLastIdx cLastTerm : Nat)
    (healthy geoOk : Bool) : Node × Msg :=
  let nd1 := stepDown nd term
  if term = nd1.term ∧ canVote nd1 cand = true ∧ voteLogOk c nd1.log cLastIdx cLastTerm geoOk = true ∧ healthy = true then
    ({ nd1 with votedFor := some cand }, .requestVoteResp nd1.term true nd.id)
  else (nd1, .requestVoteResp nd1.term false nd.id)

/-- `handle_request_vote_response` -/
def handleRequestVoteResp (c : Config) (nd : Node) (src : Nat) (term : Nat) (granted : Bool) : Node :=
  if nd.role ≠ .candidate then nd
  else if term > nd.term then { nd with term := term, votedFor := none, role := .follower }
  else if granted = true ∧ term = nd.term then
    if src ∈ nd.votes then nd
    else
      let nd1 := { nd with votes := nd.votes ++ [src] }
      if nd1.votes.length ≥ c.quorum then becomeLeader c nd1 else nd1
  else nd

/-- `start_pre_vote` -/
def startPreVote (nd : Node) : Node × Msg :=
  ({ nd with inPreVote := true, preVotes := [nd.id] },
   .preVote nd.term nd.id (lastIdx nd.log) (lastTerm nd.log))

/-- `handle_pre_vote`; never changes the node -/
def handlePreVote (nd : Node) (term _cand cLastIdx cLastTerm : Nat) (timeoutElapsed healthy : Bool) : Msg :=
  if term ≥ nd.term then
    let li := lastIdx nd.log
    let lt := lastTerm nd.log
    let logOk := cLastTerm > lt ∨ (cLastTerm = lt ∧ cLastIdx ≥ li)
    if timeoutElapsed = true ∧ logOk ∧ healthy = true then .preVoteResp nd.term true nd.id
    else .preVoteResp nd.term false nd.id
  else .preVoteResp nd.term false nd.id

/-- `handle_pre_vote_response`: may start a real election (second component = the RequestVote) -/
def handlePreVoteResp (c : Config) (nd : Node) (src : Nat) (term : Nat) (granted : Bool) : Node × Option Msg :=
  if nd.inPreVote = false then (nd, none)
  else if term > nd.term then
    ({ nd with term := term, votedFor := none, role := .follower, inPreVote := false }, none)
  else if granted = true ∧ term = nd.term then
    if src ∈ nd.preVotes then (nd, none)
    else
      let nd1 := { nd with preVotes := nd.preVotes ++ [src] }
      if nd1.preVotes.length ≥ c.quorum then
        let (nd2, rv) := startElection { nd1 with inPreVote := false }
        (nd2, some rv)
      else (nd1, none)
  else (nd, none)

/-- `handle_timeout_now` -/
def handleTimeoutNow (nd : Node) (src term leader : Nat) : Node × Option Msg :=
  if nd.leaderId ≠ some src ∧ nd.leaderId ≠ some leader then (nd, none)
  else if term ≠ nd.term then (nd, none)
  else
    let (nd', rv) := startElection nd
    (nd', some rv)

/-! ### replication -/

/-- `append_leader_entries`; `idx` = 1-based index of the first entry of `es` -/
def appendLeaderEntries (log : List Entry) (idx : Nat) : List Entry → List Entry
  | [] => log
  | e :: es =>
    if idx > log.length then appendLeaderEntries (log ++ [e]) (idx + 1) es
    else
      match log[idx - 1]? with
      | some old =>
        if old.term ≠ e.term then appendLeaderEntries (log.take (idx - 1) ++ [e]) (idx + 1) es
        else appendLeaderEntries log (idx + 1) es
      | none => appendLeaderEntries log (idx + 1) es   -- idx = 0: compacted (unreachable here)

def aeLogOk (log : List Entry) (prevIdx prevTerm : Nat) : Bool :=
  if prevIdx = 0 then true
  else if prevIdx ≤ log.length then decide (termAt log prevIdx = some prevTerm)
  else false

/-- accept branch of `handle_append_entries` (with the fixes of this tree: match / commit bounded
    by `prev_log_index + entries.len()`) -/
def aeAccept (nd2 : Node) (prevIdx : Nat) (entries : List Entry) (leaderCommit : Nat) : Node × Msg :=
  let log' := appendLeaderEntries nd2.log (prevIdx + 1) entries
  let lastNew := min (prevIdx + entries.length) log'.length
  let commit' := if leaderCommit > nd2.commit then max nd2.commit (min leaderCommit lastNew) else nd2.commit
  ({ nd2 with log := log', commit := commit' }, .appendEntriesResp nd2.term true nd2.id lastNew)

/-- pre-fix accept branch: acknowledges / commits up to the whole local log -/
def aeAcceptOld (nd2 : Node) (prevIdx : Nat) (entries : List Entry) (leaderCommit : Nat) : Node × Msg :=
  let log' := appendLeaderEntries nd2.log (prevIdx + 1) entries
  let commit' := if leaderCommit > nd2.commit then min leaderCommit log'.length else nd2.commit
  ({ nd2 with log := log', commit := commit' }, .appendEntriesResp nd2.term true nd2.id log'.length)

/-- `handle_append_entries` -/
def handleAppendEntries (nd : Node) (term leader prevIdx prevTerm : Nat) (entries : List Entry)
    (leaderCommit : Nat) : Node × Msg :=
  let nd1 := stepDown nd term
  if term = nd1.term then
    let nd2 := { nd1 with role := .follower, leaderId := some leader }
    if aeLogOk nd2.log prevIdx prevTerm = true then aeAccept nd2 prevIdx entries leaderCommit
    else (nd2, .appendEntriesResp nd2.term false nd2.id 0)
  else (nd1, .appendEntriesResp nd1.term false nd1.id 0)

def handleAppendEntriesOld (nd : Node) (term leader prevIdx prevTerm : Nat) (entries : List Entry)
    (leaderCommit : Nat) : Node × Msg :=
  let nd1 := stepDown nd term
  if term = nd1.term then
    let nd2 := { nd1 with role := .follower, leaderId := some leader }
    if aeLogOk nd2.log prevIdx prevTerm = true then aeAcceptOld nd2 prevIdx entries leaderCommit
    else (nd2, .appendEntriesResp nd2.term false nd2.id 0)
  else (nd1, .appendEntriesResp nd1.term false nd1.id 0)

/-- q-th largest element (1-based q) of a list: sort ascending, index `len - q` -/
def insertSorted (x : Nat) : List Nat → List Nat
  | [] => [x]
  | y :: ys => if x ≤ y then x :: y :: ys else y :: insertSorted x ys
def sortAsc (l : List Nat) : List Nat := l.foldr insertSorted []

/-- `try_advance_commit_index` -/
def tryAdvanceCommit (c : Config) (nd : Node) : Node :=
  if nd.role ≠ .leader then nd
  else if nd.hasLeaderState = false then nd
  else
    let ms := sortAsc (nd.matchIdx.map (·.2) ++ [nd.log.length])
    let newCommit := ms.getD (ms.length - c.quorum) 0
    if newCommit > nd.commit ∧ termAt nd.log newCommit = some nd.term then { nd with commit := newCommit }
    else nd

def pow2 (k : Nat) : Nat := 2 ^ k

/-- `handle_append_entries_response` (with the fix: responses from an earlier term are ignored) -/
def handleAppendEntriesResp (c : Config) (nd : Node) (src : Nat) (term : Nat) (success : Bool)
    (mIdx : Nat) : Node :=
  if nd.role ≠ .leader then nd
  else if term > nd.term then
    { nd with term := term, votedFor := none, role := .follower, hasLeaderState := false,
              nextIdx := [], matchIdx := [], backoff := [] }
  else if term < nd.term then nd
  else if nd.hasLeaderState = false then nd
  else if success then
    tryAdvanceCommit c { nd with nextIdx := alSet nd.nextIdx src (mIdx + 1),
                                 matchIdx := alSet nd.matchIdx src mIdx,
                                 backoff := alRemove nd.backoff src }
  else
    let next := (alGet nd.nextIdx src).getD 1
    let failures := (alGet nd.backoff src).getD 0
    let decrement :=
      if c.adaptiveBackoff then min (pow2 (min failures c.maxBackoffPower)) (next - 1) else 1
    let next' := if decrement > 0 then (if next - decrement < 1 then 1 else next - decrement) else next
    { nd with nextIdx := alSet nd.nextIdx src next', backoff := alSet nd.backoff src (failures + 1) }

/-- pre-fix response handler: stale-term responses update match_index -/
def handleAppendEntriesRespOld (c : Config) (nd : Node) (src : Nat) (term : Nat) (success : Bool)
    (mIdx : Nat) : Node :=
  if nd.role ≠ .leader then nd
  else if term > nd.term then
    { nd with term := term, votedFor := none, role := .follower, hasLeaderState := false,
              nextIdx := [], matchIdx := [], backoff := [] }
  else if nd.hasLeaderState = false then nd
  else if success then
    tryAdvanceCommit c { nd with nextIdx := alSet nd.nextIdx src (mIdx + 1),
                                 matchIdx := alSet nd.matchIdx src mIdx,
                                 backoff := alRemove nd.backoff src }
  else nd

/-- `propose` (the `is_write_safe` / transfer checks are an input bit `allowed`) -/
def propose (nd : Node) (payload : Nat) (allowed : Bool) : Node × Option Nat :=
  if nd.role ≠ .leader then (nd, none)
  else if allowed = false then (nd, none)
  else ({ nd with log := nd.log ++ [⟨nd.term, payload⟩] }, some (nd.log.length + 1))

/-- `get_entries_for_follower` + `send_heartbeats`: the AppendEntries for follower `j` -/
def appendEntriesFor (nd : Node) (j : Nat) : Option Msg :=
  if nd.role ≠ .leader then none
  else
    let next := if nd.hasLeaderState then (alGet nd.nextIdx j).getD 1 else 1
    let (prevIdx, prevTerm) :=
      if next ≤ 1 then (0, 0)
      else match nd.log[next - 2]? with
        | some e => (next - 1, e.term)
        | none => (0, 0)
    let entries := if next = 0 then [] else nd.log.drop (next - 1)
    some (.appendEntries nd.term nd.id prevIdx prevTerm entries nd.commit)

/-- crash + restart from the WAL: persistent `(term, votedFor, log)` kept, the rest reset -/
def crashRestart (nd : Node) : Node :=
  { id := nd.id, term := nd.term, votedFor := nd.votedFor, log := nd.log }

/-- deliver one message to a node; bits: (healthy, geoOk, timeoutElapsed) -/
def deliver (c : Config) (nd : Node) (src : Nat) (m : Msg) (healthy geoOk timeoutElapsed : Bool) :
    Node × Option Msg :=
  match m with
  | .requestVote t cand li lt =>
    let (nd', r) := handleRequestVote c nd t cand li lt healthy geoOk
    (nd', some r)
  | .requestVoteResp t g _ => (handleRequestVoteResp c nd src t g, none)
  | .preVote t cand li lt => (nd, some (handlePreVote nd t cand li lt timeoutElapsed healthy))
  | .preVoteResp t g _ => handlePreVoteResp c nd src t g
  | .appendEntries t l pi pt es lc =>
    let (nd', r) := handleAppendEntries nd t l pi pt es lc
    (nd', some r)
  | .appendEntriesResp t s _ mi => (handleAppendEntriesResp c nd src t s mi, none)
  | .timeoutNow t l => handleTimeoutNow nd src t l

end Neumann.Raft
