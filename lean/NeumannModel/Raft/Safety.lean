import NeumannModel.Raft.System
import NeumannModel.Raft.Lemmas
import Mathlib.Data.Fintype.Card
/-
  C01 — Election Safety for every reachable state of the system model, i.e. for every
  interleaving of deliveries (any order, duplicated, lost), timeouts, pre-votes, proposals,
  replication and crash/restart events, on clusters of any size.
-/
namespace Neumann.Raft

/-! ## single-node transitions -/

/-- What one handler call may do to `(term, votedFor, role, votes)`.
    `grant = some src` records that the call consumed a granted vote response for the
    node's current term sent by `src`. -/
structure NodeTrans (c : Config) (nd nd' : Node) (grant : Option Nat) : Prop where
  id_eq : nd'.id = nd.id
  term_le : nd.term ≤ nd'.term
  vote_stable : nd'.term = nd.term → nd'.votedFor = nd.votedFor ∨ nd.votedFor = none
  shape :
    nd'.role = .follower
    ∨ (nd'.role = nd.role ∧ nd'.term = nd.term ∧ nd'.votes = nd.votes)
    ∨ (nd'.role = .candidate ∧ nd'.votes = [nd.id] ∧ nd'.votedFor = some nd.id ∧ nd.term < nd'.term)
    ∨ (nd.role = .candidate ∧ nd'.term = nd.term ∧
        (∃ src, grant = some src ∧ src ∉ nd.votes ∧ nd'.votes = nd.votes ++ [src]) ∧
        (nd'.role = .candidate ∨ (nd'.role = .leader ∧ c.quorum ≤ nd'.votes.length)))

theorem NodeTrans.refl (c : Config) (nd : Node) (g : Option Nat) : NodeTrans c nd nd g :=
  ⟨rfl, Nat.le_refl _, fun _ => Or.inl rfl, Or.inr (Or.inl ⟨rfl, rfl, rfl⟩)⟩

/-- a transition that keeps term, vote, role and votes -/
theorem NodeTrans.of_same (c : Config) (nd nd' : Node) (g : Option Nat)
    (h0 : nd'.id = nd.id) (h1 : nd'.term = nd.term) (h2 : nd'.votedFor = nd.votedFor)
    (h3 : nd'.role = nd.role) (h4 : nd'.votes = nd.votes) : NodeTrans c nd nd' g :=
  ⟨h0, by omega, fun _ => Or.inl h2, Or.inr (Or.inl ⟨h3, h1, h4⟩)⟩

theorem stepDown_trans (c : Config) (nd : Node) (t : Nat) (g : Option Nat) :
    NodeTrans c nd (stepDown nd t) g := by
  by_cases h : t > nd.term
  · rw [stepDown_of_gt nd t h]
    exact ⟨rfl, by simp; omega, fun e => by simp at e; omega, Or.inl rfl⟩
  · rw [stepDown_of_le nd t h]; exact NodeTrans.refl c nd g

theorem NodeTrans.trans_same {c : Config} {nd nd1 nd' : Node} {g : Option Nat}
    (h : NodeTrans c nd nd1 g)
    (h0 : nd'.id = nd1.id) (h1 : nd'.term = nd1.term) (h2 : nd'.votedFor = nd1.votedFor)
    (h3 : nd'.role = nd1.role ∨ nd'.role = .follower) (h4 : nd'.votes = nd1.votes) :
    NodeTrans c nd nd' g := by
  refine ⟨by rw [h0, h.id_eq], by rw [h1]; exact h.term_le, ?_, ?_⟩
  · intro e; rw [h2]; exact h.vote_stable (by rw [← h1]; exact e)
  · rcases h3 with h3 | h3
    · rcases h.shape with s | s | s | s
      · exact Or.inl (by rw [h3]; exact s)
      · exact Or.inr (Or.inl ⟨by rw [h3]; exact s.1, by rw [h1]; exact s.2.1, by rw [h4]; exact s.2.2⟩)
      · exact Or.inr (Or.inr (Or.inl ⟨by rw [h3]; exact s.1, by rw [h4]; exact s.2.1, by rw [h2]; exact s.2.2.1, by rw [h1]; exact s.2.2.2⟩))
      · refine Or.inr (Or.inr (Or.inr ⟨s.1, by rw [h1]; exact s.2.1, ?_, ?_⟩))
        · obtain ⟨src, a, b, d⟩ := s.2.2.1
          exact ⟨src, a, b, by rw [h4]; exact d⟩
        · rw [h3, h4]; exact s.2.2.2
    · exact Or.inl h3

theorem startElection_trans (c : Config) (nd : Node) (g : Option Nat) :
    NodeTrans c nd (startElection nd).1 g :=
  ⟨rfl, by simp [startElection], fun e => by simp [startElection] at e,
   Or.inr (Or.inr (Or.inl ⟨rfl, rfl, rfl, by simp [startElection]⟩))⟩

theorem startPreVote_trans (c : Config) (nd : Node) (g : Option Nat) :
    NodeTrans c nd (startPreVote nd).1 g :=
  NodeTrans.of_same c nd _ g rfl rfl rfl rfl rfl

theorem crash_trans (c : Config) (nd : Node) (g : Option Nat) :
    NodeTrans c nd (crashRestart nd) g :=
  ⟨rfl, Nat.le_refl _, fun _ => Or.inl rfl, Or.inl rfl⟩

theorem propose_trans (c : Config) (nd : Node) (p : Nat) (a : Bool) (g : Option Nat) :
    NodeTrans c nd (propose nd p a).1 g := by
  unfold propose
  split
  · exact NodeTrans.refl c nd g
  · split
    · exact NodeTrans.refl c nd g
    · exact NodeTrans.of_same c nd _ g rfl rfl rfl rfl rfl

theorem handleRequestVote_eq (c : Config) (nd : Node) (t cand li lt : Nat) (hl geo : Bool) :
    handleRequestVote c nd t cand li lt hl geo =
      if t = (stepDown nd t).term ∧ canVote (stepDown nd t) cand = true ∧
         voteLogOk c (stepDown nd t).log li lt geo = true ∧ hl = true then
        ({ stepDown nd t with votedFor := some cand }, .requestVoteResp (stepDown nd t).term true nd.id)
      else (stepDown nd t, .requestVoteResp (stepDown nd t).term false nd.id) := rfl

theorem handleRequestVote_trans (c : Config) (nd : Node) (t cand li lt : Nat) (hl geo : Bool)
    (g : Option Nat) : NodeTrans c nd (handleRequestVote c nd t cand li lt hl geo).1 g := by
  rw [handleRequestVote_eq]
  have hs := stepDown_trans c nd t g
  by_cases hc : t = (stepDown nd t).term ∧ canVote (stepDown nd t) cand = true ∧
         voteLogOk c (stepDown nd t).log li lt geo = true ∧ hl = true
  · rw [if_pos hc]
    by_cases h : t > nd.term
    · rw [stepDown_of_gt nd t h]
      exact ⟨rfl, by simp; omega, fun e => by simp at e; omega, Or.inl rfl⟩
    · have hsd := stepDown_of_le nd t h
      have hcv : canVote (stepDown nd t) cand = true := hc.2.1
      rw [hsd] at hcv ⊢
      simp only [canVote, decide_eq_true_eq] at hcv
      refine ⟨rfl, Nat.le_refl _, fun _ => ?_, Or.inr (Or.inl ⟨rfl, rfl, rfl⟩)⟩
      rcases hcv with hv | hv
      · exact Or.inr hv
      · exact Or.inl hv.symm
  · rw [if_neg hc]; exact hs

theorem becomeLeader_fields (c : Config) (nd : Node) :
    (becomeLeader c nd).id = nd.id ∧ (becomeLeader c nd).term = nd.term ∧
    (becomeLeader c nd).votedFor = nd.votedFor ∧ (becomeLeader c nd).votes = nd.votes ∧
    (becomeLeader c nd).role = .leader := ⟨rfl, rfl, rfl, rfl, rfl⟩

/-- the vote response consumed by `handleRequestVoteResp`, if it is one that counts -/
def grantOf (nd : Node) (src : Nat) : Msg → Option Nat
  | .requestVoteResp t true _ => if t = nd.term then some src else none
  | _ => none

theorem handleRequestVoteResp_trans (c : Config) (nd : Node) (src t : Nat) (gr : Bool) (v : Nat) :
    NodeTrans c nd (handleRequestVoteResp c nd src t gr)
      (grantOf nd src (.requestVoteResp t gr v)) := by
  unfold handleRequestVoteResp
  by_cases h1 : nd.role ≠ .candidate
  · rw [if_pos h1]; exact NodeTrans.refl _ _ _
  · rw [if_neg h1]
    have hcand : nd.role = .candidate := by
      cases hr : nd.role <;> simp_all
    by_cases h2 : t > nd.term
    · rw [if_pos h2]
      exact ⟨rfl, by simp; omega, fun e => by simp at e; omega, Or.inl rfl⟩
    · rw [if_neg h2]
      by_cases h3 : gr = true ∧ t = nd.term
      · rw [if_pos h3]
        by_cases h4 : src ∈ nd.votes
        · rw [if_pos h4]; exact NodeTrans.refl _ _ _
        · rw [if_neg h4]
          have hg : grantOf nd src (.requestVoteResp t gr v) = some src := by
            rw [h3.1]; simp [grantOf, h3.2]
          by_cases h5 : ({ nd with votes := nd.votes ++ [src] } : Node).votes.length ≥ c.quorum
          · rw [if_pos h5]
            refine ⟨rfl, Nat.le_refl _, fun _ => Or.inl rfl, ?_⟩
            exact Or.inr (Or.inr (Or.inr ⟨hcand, rfl, ⟨src, hg, h4, rfl⟩, Or.inr ⟨rfl, h5⟩⟩))
          · rw [if_neg h5]
            refine ⟨rfl, Nat.le_refl _, fun _ => Or.inl rfl, ?_⟩
            exact Or.inr (Or.inr (Or.inr ⟨hcand, rfl, ⟨src, hg, h4, rfl⟩, Or.inl hcand⟩))
      · rw [if_neg h3]; exact NodeTrans.refl _ _ _

theorem handlePreVoteResp_trans (c : Config) (nd : Node) (src t : Nat) (gr : Bool) (g : Option Nat) :
    NodeTrans c nd (handlePreVoteResp c nd src t gr).1 g := by
  unfold handlePreVoteResp
  by_cases h1 : nd.inPreVote = false
  · rw [if_pos h1]; exact NodeTrans.refl _ _ _
  · rw [if_neg h1]
    by_cases h2 : t > nd.term
    · rw [if_pos h2]
      exact ⟨rfl, by simp; omega, fun e => by simp at e; omega, Or.inl rfl⟩
    · rw [if_neg h2]
      by_cases h3 : gr = true ∧ t = nd.term
      · rw [if_pos h3]
        by_cases h4 : src ∈ nd.preVotes
        · rw [if_pos h4]; exact NodeTrans.refl _ _ _
        · rw [if_neg h4]
          by_cases h5 : ({ nd with preVotes := nd.preVotes ++ [src] } : Node).preVotes.length ≥ c.quorum
          · rw [if_pos h5]
            exact ⟨rfl, by simp [startElection], fun e => by simp [startElection] at e,
              Or.inr (Or.inr (Or.inl ⟨rfl, rfl, rfl, by simp [startElection]⟩))⟩
          · rw [if_neg h5]
            exact NodeTrans.of_same c nd _ g rfl rfl rfl rfl rfl
      · rw [if_neg h3]; exact NodeTrans.refl _ _ _

theorem handleTimeoutNow_trans (c : Config) (nd : Node) (src t l : Nat) (g : Option Nat) :
    NodeTrans c nd (handleTimeoutNow nd src t l).1 g := by
  unfold handleTimeoutNow
  split
  · exact NodeTrans.refl _ _ _
  · split
    · exact NodeTrans.refl _ _ _
    · exact startElection_trans c nd g

theorem handleAppendEntries_trans (c : Config) (nd : Node) (t l pi pt : Nat) (es : List Entry)
    (lc : Nat) (g : Option Nat) : NodeTrans c nd (handleAppendEntries nd t l pi pt es lc).1 g := by
  unfold handleAppendEntries
  have hs := stepDown_trans c nd t g
  by_cases h1 : t = (stepDown nd t).term
  · rw [if_pos h1]
    by_cases h2 : aeLogOk (stepDown nd t).log pi pt = true
    · simp only [h2, if_true]
      exact hs.trans_same rfl rfl rfl (Or.inr rfl) rfl
    · simp only [h2]
      exact hs.trans_same rfl rfl rfl (Or.inr rfl) rfl
  · rw [if_neg h1]; exact hs

theorem tryAdvanceCommit_fields (c : Config) (nd : Node) :
    (tryAdvanceCommit c nd).id = nd.id ∧ (tryAdvanceCommit c nd).term = nd.term ∧
    (tryAdvanceCommit c nd).votedFor = nd.votedFor ∧ (tryAdvanceCommit c nd).votes = nd.votes ∧
    (tryAdvanceCommit c nd).role = nd.role := by
  unfold tryAdvanceCommit
  split
  · exact ⟨rfl, rfl, rfl, rfl, rfl⟩
  · split
    · exact ⟨rfl, rfl, rfl, rfl, rfl⟩
    · dsimp only
      split <;> exact ⟨rfl, rfl, rfl, rfl, rfl⟩

theorem handleAppendEntriesResp_trans (c : Config) (nd : Node) (src t : Nat) (sc : Bool) (mi : Nat)
    (g : Option Nat) : NodeTrans c nd (handleAppendEntriesResp c nd src t sc mi) g := by
  unfold handleAppendEntriesResp
  split
  · exact NodeTrans.refl _ _ _
  · split
    · rename_i h2
      exact ⟨rfl, by simp; omega, fun e => by simp at e; omega, Or.inl rfl⟩
    · split
      · exact NodeTrans.refl _ _ _
      · split
        · exact NodeTrans.refl _ _ _
        · split
          · obtain ⟨a, b, d, e, f⟩ := tryAdvanceCommit_fields c
              { nd with nextIdx := alSet nd.nextIdx src (mi + 1), matchIdx := alSet nd.matchIdx src mi,
                        backoff := alRemove nd.backoff src }
            exact NodeTrans.of_same c nd _ g a b d f e
          · exact NodeTrans.of_same c nd _ g rfl rfl rfl rfl rfl

theorem deliver_trans (c : Config) (nd : Node) (src : Nat) (m : Msg) (b1 b2 b3 : Bool) :
    NodeTrans c nd (deliver c nd src m b1 b2 b3).1 (grantOf nd src m) := by
  cases m with
  | requestVote t cand li lt => exact handleRequestVote_trans c nd t cand li lt b1 b2 _
  | requestVoteResp t gr v => exact handleRequestVoteResp_trans c nd src t gr v
  | preVote t cand li lt => exact NodeTrans.refl _ _ _
  | preVoteResp t gr v => exact handlePreVoteResp_trans c nd src t gr _
  | appendEntries t l pi pt es lc => exact handleAppendEntries_trans c nd t l pi pt es lc _
  | appendEntriesResp t sc f mi => exact handleAppendEntriesResp_trans c nd src t sc mi _
  | timeoutNow t l => exact handleTimeoutNow_trans c nd src t l _

/-! ## what a handler may send -/

/-- a RequestVote leaving a node names that node as the candidate -/
theorem deliver_out_rv (c : Config) (nd : Node) (src : Nat) (m : Msg) (b1 b2 b3 : Bool)
    (t cand li lt : Nat) (h : (deliver c nd src m b1 b2 b3).2 = some (.requestVote t cand li lt)) :
    cand = nd.id := by
  cases m with
  | requestVote t' cand' li' lt' =>
    simp only [deliver, handleRequestVote_eq] at h
    split at h <;> simp at h
  | requestVoteResp t' gr v => simp [deliver] at h
  | preVote t' cand' li' lt' =>
    simp only [deliver, handlePreVote] at h
    split at h
    · split at h <;> simp at h
    · simp at h
  | preVoteResp t' gr v =>
    simp only [deliver, handlePreVoteResp] at h
    split at h
    · simp at h
    · split at h
      · simp at h
      · split at h
        · split at h
          · simp at h
          · split at h
            · simp only [startElection, Option.some.injEq, Msg.requestVote.injEq] at h
              exact h.2.1.symm
            · simp at h
        · simp at h
  | appendEntries t' l pi pt es lc =>
    simp only [deliver, handleAppendEntries] at h
    split at h
    · split at h
      · simp [aeAccept] at h
      · simp at h
    · simp at h
  | appendEntriesResp t' sc f mi => simp [deliver] at h
  | timeoutNow t' l =>
    simp only [deliver, handleTimeoutNow] at h
    split at h
    · simp at h
    · split at h
      · simp at h
      · simp only [startElection, Option.some.injEq, Msg.requestVote.injEq] at h
        exact h.2.1.symm

/-- a granted vote response leaves a node only when it handled a RequestVote for that
    term and has recorded the vote for that candidate -/
theorem deliver_out_rvr (c : Config) (nd : Node) (src : Nat) (m : Msg) (b1 b2 b3 : Bool)
    (t v : Nat) (h : (deliver c nd src m b1 b2 b3).2 = some (.requestVoteResp t true v)) :
    ∃ cand li lt, m = .requestVote t cand li lt ∧
      (deliver c nd src m b1 b2 b3).1.votedFor = some cand ∧
      (deliver c nd src m b1 b2 b3).1.term = t := by
  cases m with
  | requestVote t' cand' li' lt' =>
    simp only [deliver, handleRequestVote_eq] at h ⊢
    by_cases hc : t' = (stepDown nd t').term ∧ canVote (stepDown nd t') cand' = true ∧
         voteLogOk c (stepDown nd t').log li' lt' b2 = true ∧ b1 = true
    · rw [if_pos hc] at h ⊢
      simp only [Option.some.injEq, Msg.requestVoteResp.injEq] at h
      refine ⟨cand', li', lt', ?_, rfl, ?_⟩
      · rw [hc.1, h.1]
      · exact h.1
    · rw [if_neg hc] at h; simp at h
  | requestVoteResp t' gr v' => simp [deliver] at h
  | preVote t' cand' li' lt' =>
    simp only [deliver, handlePreVote] at h
    split at h
    · split at h <;> simp at h
    · simp at h
  | preVoteResp t' gr v' =>
    simp only [deliver, handlePreVoteResp] at h
    split at h
    · simp at h
    · split at h
      · simp at h
      · split at h
        · split at h
          · simp at h
          · split at h
            · simp [startElection] at h
            · simp at h
        · simp at h
  | appendEntries t' l pi pt es lc =>
    simp only [deliver, handleAppendEntries] at h
    split at h
    · split at h
      · simp [aeAccept] at h
      · simp at h
    · simp at h
  | appendEntriesResp t' sc f mi => simp [deliver] at h
  | timeoutNow t' l =>
    simp only [deliver, handleTimeoutNow] at h
    split at h
    · simp at h
    · split at h
      · simp at h
      · simp [startElection] at h

/-! ## the system invariant -/

structure Inv (c : Config) (s : Sys) : Prop where
  len : s.nodes.length = c.n
  ids : ∀ (i : Nat) (nd : Node), s.nodes[i]? = some nd → nd.id = i
  netSrc : ∀ (src dst : Nat) (m : Msg), (src, dst, m) ∈ s.net → src < c.n
  rvSrc : ∀ (src dst t cand li lt : Nat), (src, dst, Msg.requestVote t cand li lt) ∈ s.net → cand = src
  ghostNode : ∀ (v t cd : Nat), (v, t, cd) ∈ s.ghost →
    ∃ nd : Node, s.nodes[v]? = some nd ∧ t ≤ nd.term ∧ (nd.term = t → nd.votedFor = some cd)
  ghostFun : ∀ (v t c1 c2 : Nat), (v, t, c1) ∈ s.ghost → (v, t, c2) ∈ s.ghost → c1 = c2
  votedInGhost : ∀ (i : Nat) (nd : Node) (cd : Nat), s.nodes[i]? = some nd → nd.votedFor = some cd → (i, nd.term, cd) ∈ s.ghost
  rvrInGhost : ∀ (src dst t v : Nat), (src, dst, Msg.requestVoteResp t true v) ∈ s.net → (src, t, dst) ∈ s.ghost
  votesOk : ∀ (i : Nat) (nd : Node), s.nodes[i]? = some nd → nd.role ≠ .follower →
    (∀ v ∈ nd.votes, (v, nd.term, i) ∈ s.ghost) ∧ nd.votes.Nodup ∧
    (nd.role = .leader → c.quorum ≤ nd.votes.length)

theorem getElem?_set_of_some {α : Type} (l : List α) (i j : Nat) (a b : α) (h : l[i]? = some a) :
    (l.set i b)[j]? = if j = i then some b else l[j]? := by
  have hi : i < l.length := by
    rcases Nat.lt_or_ge i l.length with h' | h'
    · exact h'
    · rw [List.getElem?_eq_none h'] at h; cases h
  by_cases hji : j = i
  · subst hji; simp [hi]
  · rw [if_neg hji, List.getElem?_set_ne (Ne.symm hji)]

theorem mem_ghostOf (v : Nat) (nd nd' : Node) (x : Nat × Nat × Nat) (h : x ∈ ghostOf v nd nd') :
    ∃ cd, x = (v, nd'.term, cd) ∧ nd'.votedFor = some cd ∧ ¬ (nd'.term = nd.term ∧ nd'.votedFor = nd.votedFor) := by
  unfold ghostOf at h
  split at h
  · simp at h
  · rename_i hne
    split at h
    · rename_i cd hv
      simp only [List.mem_singleton] at h
      exact ⟨cd, h, hv, hne⟩
    · simp at h

/-- messages a node `i` may add when it moves to `nd'` -/
def MsgsOk (i : Nat) (nd' : Node) (msgs : List (Nat × Nat × Msg)) : Prop :=
  ∀ a b m, (a, b, m) ∈ msgs →
    a = i ∧ (∀ t cand li lt, m = Msg.requestVote t cand li lt → cand = i) ∧
    (∀ t v, m = Msg.requestVoteResp t true v → nd'.votedFor = some b ∧ nd'.term = t)

theorem inv_setNode (c : Config) (s : Sys) (i : Nat) (nd nd' : Node) (g : Option Nat)
    (msgs : List (Nat × Nat × Msg))
    (hI : Inv c s) (hnd : s.nodes[i]? = some nd) (ht : NodeTrans c nd nd' g)
    (hg : ∀ src, g = some src → (src, nd.term, i) ∈ s.ghost)
    (hm : MsgsOk i nd' msgs) : Inv c (setNode s i nd' nd msgs) := by
  have hi : i < c.n := by
    rw [← hI.len]
    rcases Nat.lt_or_ge i s.nodes.length with h' | h'
    · exact h'
    · rw [List.getElem?_eq_none h'] at hnd; cases hnd
  have hget : ∀ j, (s.nodes.set i nd')[j]? = if j = i then some nd' else s.nodes[j]? :=
    fun j => getElem?_set_of_some s.nodes i j nd nd' hnd
  have hidnd : nd.id = i := hI.ids i nd hnd
  -- new `votedInGhost`, needed by several other parts
  have hvoted : ∀ j ndj cd, (s.nodes.set i nd')[j]? = some ndj → ndj.votedFor = some cd →
      (j, ndj.term, cd) ∈ s.ghost ++ ghostOf i nd nd' := by
    intro j ndj cd hj hv
    rw [hget] at hj
    by_cases hji : j = i
    · rw [if_pos hji] at hj; cases hj; subst hji
      by_cases hsame : nd'.term = nd.term ∧ nd'.votedFor = nd.votedFor
      · apply List.mem_append_left
        have := hI.votedInGhost j nd cd hnd (by rw [← hsame.2]; exact hv)
        rw [hsame.1]; exact this
      · apply List.mem_append_right
        unfold ghostOf; rw [if_neg hsame, hv]; simp
    · rw [if_neg hji] at hj
      exact List.mem_append_left _ (hI.votedInGhost j ndj cd hj hv)
  refine ⟨?_, ?_, ?_, ?_, ?_, ?_, hvoted, ?_, ?_⟩
  · simp [setNode, hI.len]
  · intro j ndj hj
    simp only [setNode] at hj; rw [hget] at hj
    by_cases hji : j = i
    · rw [if_pos hji] at hj; cases hj; rw [ht.id_eq, hidnd, hji]
    · rw [if_neg hji] at hj; exact hI.ids j ndj hj
  · intro src dst m h
    simp only [setNode, List.mem_append] at h
    rcases h with h | h
    · exact hI.netSrc src dst m h
    · rw [(hm src dst m h).1]; exact hi
  · intro src dst t cand li lt h
    simp only [setNode, List.mem_append] at h
    rcases h with h | h
    · exact hI.rvSrc src dst t cand li lt h
    · have := hm src dst _ h
      rw [this.1]; exact this.2.1 t cand li lt rfl
  · -- ghostNode
    intro v t cd h
    simp only [setNode, List.mem_append] at h ⊢
    rcases h with h | h
    · obtain ⟨ndv, hv, hle, heq⟩ := hI.ghostNode v t cd h
      by_cases hvi : v = i
      · subst hvi
        rw [hnd] at hv; cases hv
        refine ⟨nd', by rw [hget]; simp, Nat.le_trans hle ht.term_le, ?_⟩
        intro e
        have hte : nd.term = t := Nat.le_antisymm (by rw [← e]; exact ht.term_le) hle
        have hvf := heq hte
        rcases ht.vote_stable (by rw [e, hte]) with h1 | h1
        · rw [h1]; exact hvf
        · rw [h1] at hvf; cases hvf
      · exact ⟨ndv, by rw [hget, if_neg hvi]; exact hv, hle, heq⟩
    · obtain ⟨cd', hx, hvf, _⟩ := mem_ghostOf i nd nd' _ h
      simp only [Prod.mk.injEq] at hx
      obtain ⟨rfl, rfl, rfl⟩ := hx
      exact ⟨nd', by rw [hget]; simp, Nat.le_refl _, fun _ => hvf⟩
  · -- ghostFun
    intro v t c1 c2 h1 h2
    simp only [setNode, List.mem_append] at h1 h2
    have key : ∀ ca cb, (v, t, ca) ∈ s.ghost → (v, t, cb) ∈ ghostOf i nd nd' → False := by
      intro ca cb ha hb
      obtain ⟨cd', hx, hvf, hne⟩ := mem_ghostOf i nd nd' _ hb
      simp only [Prod.mk.injEq] at hx
      obtain ⟨rfl, rfl, rfl⟩ := hx
      obtain ⟨ndv, hv, hle, heq⟩ := hI.ghostNode v _ ca ha
      rw [hnd] at hv; cases hv
      have hte : nd'.term = nd.term := Nat.le_antisymm hle ht.term_le
      have hvf0 := heq hte.symm
      rcases ht.vote_stable hte with h | h
      · exact hne ⟨hte, h⟩
      · rw [h] at hvf0; cases hvf0
    rcases h1 with h1 | h1 <;> rcases h2 with h2 | h2
    · exact hI.ghostFun v t c1 c2 h1 h2
    · exact (key c1 c2 h1 h2).elim
    · exact (key c2 c1 h2 h1).elim
    · obtain ⟨ca, hxa, hva, _⟩ := mem_ghostOf i nd nd' _ h1
      obtain ⟨cb, hxb, hvb, _⟩ := mem_ghostOf i nd nd' _ h2
      simp only [Prod.mk.injEq] at hxa hxb
      rw [hxa.2.2, hxb.2.2]
      rw [hva] at hvb; cases hvb; rfl
  · -- rvrInGhost
    intro src dst t v h
    simp only [setNode, List.mem_append] at h
    rcases h with h | h
    · simp only [setNode]; exact List.mem_append_left _ (hI.rvrInGhost src dst t v h)
    · obtain ⟨ha, _, h3⟩ := hm src dst _ h
      obtain ⟨hv, hterm⟩ := h3 t v rfl
      subst ha
      have := hvoted src nd' dst (by rw [hget]; simp) hv
      simp only [setNode]; rw [← hterm]; exact this
  · -- votesOk
    intro j ndj hj hrole
    simp only [setNode] at hj ⊢; rw [hget] at hj
    by_cases hji : j = i
    · rw [if_pos hji] at hj; cases hj; subst hji
      rcases ht.shape with sh | sh | sh | sh
      · exact absurd sh hrole
      · obtain ⟨hr, hterm, hvotes⟩ := sh
        have hold := hI.votesOk j nd hnd (by rw [← hr]; exact hrole)
        rw [hterm, hvotes, hr]
        exact ⟨fun v hv => List.mem_append_left _ (hold.1 v hv), hold.2.1, hold.2.2⟩
      · obtain ⟨hr, hvotes, hvf, _⟩ := sh
        rw [hvotes, hr]
        refine ⟨?_, by simp, fun h => by cases h⟩
        intro v hv
        simp only [List.mem_singleton] at hv; subst hv
        have := hvoted j nd' nd.id (by rw [hget]; simp) hvf
        rw [hidnd] at this ⊢; exact this
      · obtain ⟨hr, hterm, ⟨src, hgs, hnot, hvotes⟩, hrole'⟩ := sh
        have hold := hI.votesOk j nd hnd (by rw [hr]; intro h; cases h)
        rw [hvotes, hterm]
        refine ⟨?_, ?_, ?_⟩
        · intro v hv
          rcases List.mem_append.mp hv with hv | hv
          · exact List.mem_append_left _ (hold.1 v hv)
          · simp only [List.mem_singleton] at hv; subst hv
            exact List.mem_append_left _ (hg v hgs)
        · rw [List.nodup_append]
          refine ⟨hold.2.1, by simp, ?_⟩
          intro a ha b hb
          simp only [List.mem_singleton] at hb; subst hb
          intro e; subst e; exact hnot ha
        · intro hl
          rcases hrole' with h | h
          · rw [h] at hl; cases hl
          · rw [← hvotes]; exact h.2
    · rw [if_neg hji] at hj
      have hold := hI.votesOk j ndj hj hrole
      exact ⟨fun v hv => List.mem_append_left _ (hold.1 v hv), hold.2.1, hold.2.2⟩

theorem mem_broadcast (c : Config) (src : Nat) (m : Msg) (a b : Nat) (m' : Msg)
    (h : (a, b, m') ∈ broadcast c src m) : a = src ∧ m' = m := by
  unfold broadcast at h
  simp only [List.mem_map] at h
  obtain ⟨d, _, hd⟩ := h
  simp only [Prod.mk.injEq] at hd
  exact ⟨hd.1.symm, hd.2.2.symm⟩

theorem inv_init (c : Config) : Inv c (initSys c) := by
  have hget : ∀ (i : Nat) (nd : Node), (initSys c).nodes[i]? = some nd → nd = { id := i } ∧ i < c.n := by
    intro i nd h
    simp only [initSys] at h
    rw [List.getElem?_map] at h
    by_cases hi : i < c.n
    · rw [List.getElem?_range hi] at h
      simp only [Option.map_some, Option.some.injEq] at h
      exact ⟨h.symm, hi⟩
    · rw [List.getElem?_eq_none (by simp; omega)] at h; simp at h
  refine ⟨by simp [initSys], ?_, ?_, ?_, ?_, ?_, ?_, ?_, ?_⟩
  · intro i nd h; rw [(hget i nd h).1]
  · intro src dst m h; simp [initSys] at h
  · intro src dst t cand li lt h; simp [initSys] at h
  · intro v t cd h; simp [initSys] at h
  · intro v t c1 c2 h; simp [initSys] at h
  · intro i nd cd h hv; rw [(hget i nd h).1] at hv; simp at hv
  · intro src dst t v h; simp [initSys] at h
  · intro i nd h hr; rw [(hget i nd h).1] at hr; simp at hr

/-- **Every step preserves the invariant** — deliveries of any pending message (any order,
    any number of times), timeouts, pre-votes, proposals, replication, crash/restart. -/
theorem inv_step (c : Config) (s : Sys) (st : Step) (hI : Inv c s) : Inv c (sysStep c s st) := by
  cases st with
  | timeout i =>
    simp only [sysStep]
    cases hnd : s.nodes[i]? with
    | none => exact hI
    | some nd =>
      simp only []
      apply inv_setNode c s i nd _ none _ hI hnd (startElection_trans c nd none) (by intro src h; cases h)
      intro a b m h
      obtain ⟨ha, hm⟩ := mem_broadcast c i _ a b m h
      refine ⟨ha, ?_, ?_⟩
      · intro t cand li lt e
        rw [hm] at e; simp only [startElection, Msg.requestVote.injEq] at e
        rw [← e.2.1]; exact hI.ids i nd hnd
      · intro t v e; rw [hm] at e; simp [startElection] at e
  | preVote i =>
    simp only [sysStep]
    cases hnd : s.nodes[i]? with
    | none => exact hI
    | some nd =>
      simp only []
      apply inv_setNode c s i nd _ none _ hI hnd (startPreVote_trans c nd none) (by intro src h; cases h)
      intro a b m h
      obtain ⟨ha, hm⟩ := mem_broadcast c i _ a b m h
      refine ⟨ha, ?_, ?_⟩
      · intro t cand li lt e; rw [hm] at e; simp [startPreVote] at e
      · intro t v e; rw [hm] at e; simp [startPreVote] at e
  | deliver k h1 h2 h3 =>
    simp only [sysStep]
    cases hk : s.net[k]? with
    | none => exact hI
    | some x =>
      obtain ⟨src, dst, m⟩ := x
      simp only []
      have hmem : (src, dst, m) ∈ s.net := List.mem_of_getElem? hk
      cases hnd : s.nodes[dst]? with
      | none => exact hI
      | some nd =>
        simp only []
        have hid : nd.id = dst := hI.ids dst nd hnd
        apply inv_setNode c s dst nd _ (grantOf nd src m) _ hI hnd (deliver_trans c nd src m h1 h2 h3)
        · -- a counted vote response is backed by the ghost log
          intro src' hg
          cases m with
          | requestVoteResp t gr v =>
            cases gr with
            | false => simp [grantOf] at hg
            | true =>
              simp only [grantOf] at hg
              split at hg
              · rename_i ht
                cases hg
                rw [← ht]; exact hI.rvrInGhost src dst t v hmem
              · cases hg
          | requestVote _ _ _ _ => simp [grantOf] at hg
          | preVote _ _ _ _ => simp [grantOf] at hg
          | preVoteResp _ _ _ => simp [grantOf] at hg
          | appendEntries _ _ _ _ _ _ => simp [grantOf] at hg
          | appendEntriesResp _ _ _ _ => simp [grantOf] at hg
          | timeoutNow _ _ => simp [grantOf] at hg
        · intro a b m' hm'
          cases hout : (deliver c nd src m h1 h2 h3).2 with
          | none => rw [hout] at hm'; simp [route] at hm'
          | some out =>
            rw [hout] at hm'
            have hcases : (∃ t cand li lt, out = .requestVote t cand li lt) ∨
                (∀ t cand li lt, out ≠ .requestVote t cand li lt) := by
              cases out <;> simp
            rcases hcases with ⟨t, cand, li, lt, ho⟩ | hno
            · subst ho
              simp only [route] at hm'
              obtain ⟨ha, hm2⟩ := mem_broadcast c dst _ a b m' hm'
              have hc := deliver_out_rv c nd src m h1 h2 h3 t cand li lt hout
              refine ⟨ha, ?_, ?_⟩
              · intro t' cand' li' lt' e
                rw [hm2] at e; simp only [Msg.requestVote.injEq] at e
                rw [← e.2.1, hc, hid]
              · intro t' v e; rw [hm2] at e; cases e
            · have hr : route c dst src (some out) = [(dst, src, out)] := by
                cases out <;> first | rfl | (exfalso; exact hno _ _ _ _ rfl)
              rw [hr] at hm'
              simp only [List.mem_singleton, Prod.mk.injEq] at hm'
              obtain ⟨ha, hb, hm2⟩ := hm'
              refine ⟨ha, ?_, ?_⟩
              · intro t cand li lt e; rw [hm2] at e; exact absurd e (hno t cand li lt)
              · intro t v e
                rw [hm2] at e; rw [e] at hout
                obtain ⟨cand, li, lt, hmin, hv, hterm⟩ := deliver_out_rvr c nd src m h1 h2 h3 t v hout
                subst hmin
                have hcs : cand = src := hI.rvSrc src dst t cand li lt hmem
                rw [hb, ← hcs]; exact ⟨hv, hterm⟩
  | propose i p a =>
    simp only [sysStep]
    cases hnd : s.nodes[i]? with
    | none => exact hI
    | some nd =>
      simp only []
      exact inv_setNode c s i nd _ none _ hI hnd (propose_trans c nd p a none) (by intro src h; cases h)
        (by intro a b m h; simp at h)
  | replicate i j =>
    simp only [sysStep]
    split
    · exact hI
    cases hnd : s.nodes[i]? with
    | none => exact hI
    | some nd =>
      simp only []
      cases hae : appendEntriesFor nd j with
      | none => exact hI
      | some m =>
        simp only []
        have hi : i < c.n := by
          rw [← hI.len]
          rcases Nat.lt_or_ge i s.nodes.length with h' | h'
          · exact h'
          · rw [List.getElem?_eq_none h'] at hnd; cases hnd
        have hm : ∃ t l pi pt es lc, m = .appendEntries t l pi pt es lc := by
          unfold appendEntriesFor at hae
          split at hae
          · cases hae
          · simp only [Option.some.injEq] at hae
            exact ⟨_, _, _, _, _, _, hae.symm⟩
        obtain ⟨t, l, pi, pt, es, lc, rfl⟩ := hm
        refine ⟨hI.len, hI.ids, ?_, ?_, hI.ghostNode, hI.ghostFun, hI.votedInGhost, ?_, hI.votesOk⟩
        · intro src dst m' h
          simp only [List.mem_append, List.mem_singleton, Prod.mk.injEq] at h
          rcases h with h | h
          · exact hI.netSrc src dst m' h
          · rw [h.1]; exact hi
        · intro src dst t' cand li lt h
          simp only [List.mem_append, List.mem_singleton, Prod.mk.injEq] at h
          rcases h with h | h
          · exact hI.rvSrc src dst t' cand li lt h
          · cases h.2.2
        · intro src dst t' v h
          simp only [List.mem_append, List.mem_singleton, Prod.mk.injEq] at h
          rcases h with h | h
          · exact hI.rvrInGhost src dst t' v h
          · cases h.2.2
  | crash i =>
    simp only [sysStep]
    cases hnd : s.nodes[i]? with
    | none => exact hI
    | some nd =>
      simp only []
      exact inv_setNode c s i nd _ none _ hI hnd (crash_trans c nd none) (by intro src h; cases h)
        (by intro a b m h; simp at h)

theorem inv_run (c : Config) (s : Sys) (steps : List Step) (hI : Inv c s) : Inv c (run c s steps) := by
  induction steps generalizing s with
  | nil => exact hI
  | cons st rest ih => exact ih (sysStep c s st) (inv_step c s st hI)

/-! ## quorum intersection -/

theorem nodup_lists_intersect (n : Nat) (l1 l2 : List Nat) (h1 : l1.Nodup) (h2 : l2.Nodup)
    (b1 : ∀ x ∈ l1, x < n) (b2 : ∀ x ∈ l2, x < n) (hlen : n < l1.length + l2.length) :
    ∃ x, x ∈ l1 ∧ x ∈ l2 := by
  by_contra hne
  have hd : Disjoint l1.toFinset l2.toFinset := by
    rw [Finset.disjoint_left]
    intro x hx hy
    exact hne ⟨x, List.mem_toFinset.mp hx, List.mem_toFinset.mp hy⟩
  have hsub : l1.toFinset ∪ l2.toFinset ⊆ Finset.range n := by
    intro x hx
    rw [Finset.mem_union] at hx
    rw [Finset.mem_range]
    rcases hx with hx | hx
    · exact b1 x (List.mem_toFinset.mp hx)
    · exact b2 x (List.mem_toFinset.mp hx)
  have hcard := Finset.card_le_card hsub
  rw [Finset.card_union_of_disjoint hd, List.toFinset_card_of_nodup h1, List.toFinset_card_of_nodup h2,
    Finset.card_range] at hcard
  omega

/-- Election Safety, stated on the invariant. -/
theorem election_safety_of_inv (c : Config) (s : Sys) (hI : Inv c s) (i j : Nat) (a b : Node)
    (ha : s.nodes[i]? = some a) (hb : s.nodes[j]? = some b)
    (hla : a.role = .leader) (hlb : b.role = .leader) (hterm : a.term = b.term) : i = j := by
  obtain ⟨va, na, qa⟩ := hI.votesOk i a ha (by rw [hla]; intro h; cases h)
  obtain ⟨vb, nb, qb⟩ := hI.votesOk j b hb (by rw [hlb]; intro h; cases h)
  have ba : ∀ x ∈ a.votes, x < c.n := by
    intro x hx
    obtain ⟨nd, hnd, _, _⟩ := hI.ghostNode x a.term i (va x hx)
    rw [← hI.len]
    rcases Nat.lt_or_ge x s.nodes.length with h' | h'
    · exact h'
    · rw [List.getElem?_eq_none h'] at hnd; cases hnd
  have bb : ∀ x ∈ b.votes, x < c.n := by
    intro x hx
    obtain ⟨nd, hnd, _, _⟩ := hI.ghostNode x b.term j (vb x hx)
    rw [← hI.len]
    rcases Nat.lt_or_ge x s.nodes.length with h' | h'
    · exact h'
    · rw [List.getElem?_eq_none h'] at hnd; cases hnd
  have hq : c.n < a.votes.length + b.votes.length := by
    have := qa hla; have := qb hlb
    unfold Config.quorum at *; omega
  obtain ⟨x, hxa, hxb⟩ := nodup_lists_intersect c.n a.votes b.votes na nb ba bb hq
  have h1 := va x hxa
  have h2 := vb x hxb
  rw [hterm] at h1
  exact hI.ghostFun x b.term i j h1 h2

end Neumann.Raft
