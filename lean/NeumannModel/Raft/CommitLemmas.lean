import NeumannModel.Raft.LeaderCompleteness
/-
  C01 — State Machine Safety, part 1: what a step can do to a node's commit index, and the
  counting argument behind `try_advance_commit_index` (the `quorum`-th largest of the
  `match_index` values and the leader's own log length is reached by a quorum of distinct nodes).
-/
namespace Neumann.Raft

/-! ## the `quorum`-th largest value -/

def cntGe (l : List Nat) (x : Nat) : Nat := (l.filter (fun v => decide (x ≤ v))).length

theorem cntGe_nil (x : Nat) : cntGe [] x = 0 := rfl

theorem cntGe_cons (a : Nat) (l : List Nat) (x : Nat) :
    cntGe (a :: l) x = (if x ≤ a then 1 else 0) + cntGe l x := by
  unfold cntGe
  rw [List.filter_cons]
  by_cases h : x ≤ a
  · simp [h]; omega
  · simp [h]

theorem cntGe_append (a b : List Nat) (x : Nat) : cntGe (a ++ b) x = cntGe a x + cntGe b x := by
  unfold cntGe; rw [List.filter_append, List.length_append]

theorem cntGe_insertSorted (y : Nat) (l : List Nat) (x : Nat) :
    cntGe (insertSorted y l) x = cntGe (y :: l) x := by
  induction l with
  | nil => rfl
  | cons a t ih =>
    rw [insertSorted]
    split
    · rfl
    · rw [cntGe_cons, ih, cntGe_cons, cntGe_cons, cntGe_cons]; omega

theorem cntGe_sortAsc (l : List Nat) (x : Nat) : cntGe (sortAsc l) x = cntGe l x := by
  induction l with
  | nil => rfl
  | cons a t ih =>
    show cntGe (insertSorted a (sortAsc t)) x = _
    rw [cntGe_insertSorted, cntGe_cons, cntGe_cons, ih]

theorem insertSorted_length (y : Nat) (l : List Nat) : (insertSorted y l).length = l.length + 1 := by
  induction l with
  | nil => rfl
  | cons a t ih =>
    rw [insertSorted]
    split
    · rfl
    · simp only [List.length_cons, ih]

theorem sortAsc_length (l : List Nat) : (sortAsc l).length = l.length := by
  induction l with
  | nil => rfl
  | cons a t ih =>
    show (insertSorted a (sortAsc t)).length = _
    rw [insertSorted_length, ih]; rfl

theorem mem_insertSorted (y : Nat) (l : List Nat) (a : Nat) :
    a ∈ insertSorted y l → a = y ∨ a ∈ l := by
  induction l with
  | nil => intro h; simp [insertSorted] at h; exact Or.inl h
  | cons b t ih =>
    intro h
    rw [insertSorted] at h
    split at h
    · rcases List.mem_cons.mp h with h | h
      · exact Or.inl h
      · exact Or.inr h
    · rcases List.mem_cons.mp h with h | h
      · exact Or.inr (List.mem_cons.mpr (Or.inl h))
      · rcases ih h with h | h
        · exact Or.inl h
        · exact Or.inr (List.mem_cons_of_mem _ h)

theorem insertSorted_sorted (y : Nat) (l : List Nat) (h : l.Pairwise (· ≤ ·)) :
    (insertSorted y l).Pairwise (· ≤ ·) := by
  induction l with
  | nil => simp [insertSorted]
  | cons b t ih =>
    rw [insertSorted]
    have hb := List.pairwise_cons.mp h
    split
    · rename_i hyb
      refine List.pairwise_cons.mpr ⟨?_, h⟩
      intro a ha
      rcases List.mem_cons.mp ha with ha | ha
      · omega
      · have := hb.1 a ha; omega
    · rename_i hyb
      refine List.pairwise_cons.mpr ⟨?_, ih hb.2⟩
      intro a ha
      rcases mem_insertSorted y t a ha with ha | ha
      · omega
      · exact hb.1 a ha

theorem sortAsc_sorted (l : List Nat) : (sortAsc l).Pairwise (· ≤ ·) := by
  induction l with
  | nil => exact List.Pairwise.nil
  | cons a t ih => exact insertSorted_sorted a _ ih

/-- in an ascending list, the element at position `k` is reached by all the elements from `k` on -/
theorem sorted_cntGe (l : List Nat) (h : l.Pairwise (· ≤ ·)) :
    ∀ (k : Nat) (x : Nat), l[k]? = some x → l.length - k ≤ cntGe l x := by
  induction l with
  | nil => intro k x hk; simp at hk
  | cons a t ih =>
    intro k x hk
    have ha := List.pairwise_cons.mp h
    cases k with
    | zero =>
      simp only [List.getElem?_cons_zero, Option.some.injEq] at hk
      subst hk
      -- every element is ≥ a
      have hall : ∀ (u : List Nat), (∀ v ∈ u, a ≤ v) → cntGe u a = u.length := by
        intro u
        induction u with
        | nil => intro _; rfl
        | cons b u ihu =>
          intro hu
          rw [cntGe_cons, if_pos (hu b List.mem_cons_self),
            ihu (fun v hv => hu v (List.mem_cons_of_mem _ hv))]
          simp only [List.length_cons]; omega
      rw [cntGe_cons, if_pos (Nat.le_refl _), hall t ha.1]
      simp only [List.length_cons]; omega
    | succ k =>
      simp only [List.getElem?_cons_succ] at hk
      have := ih ha.2 k x hk
      rw [cntGe_cons]
      simp only [List.length_cons]; omega

/-- the value `try_advance_commit_index` picks is reached by at least `q` of the values -/
theorem quorum_count (vals : List Nat) (q : Nat) (hq : 1 ≤ q) (hle : q ≤ vals.length) :
    q ≤ cntGe vals ((sortAsc vals).getD ((sortAsc vals).length - q) 0) := by
  have hlen := sortAsc_length vals
  have hidx : (sortAsc vals).length - q < (sortAsc vals).length := by omega
  have hget : (sortAsc vals)[(sortAsc vals).length - q]? = some ((sortAsc vals)[(sortAsc vals).length - q]'hidx) :=
    List.getElem?_eq_getElem hidx
  have hd : (sortAsc vals).getD ((sortAsc vals).length - q) 0 = (sortAsc vals)[(sortAsc vals).length - q]'hidx := by
    rw [List.getD_eq_getElem?_getD, hget]; rfl
  rw [hd, ← cntGe_sortAsc vals]
  have := sorted_cntGe (sortAsc vals) (sortAsc_sorted vals) _ _ hget
  omega

/-! ## association lists -/

theorem alSet_keys (l : List (Nat × Nat)) (k v a : Nat) :
    a ∈ (alSet l k v).map (·.1) → a = k ∨ a ∈ l.map (·.1) := by
  induction l with
  | nil => intro h; simp [alSet] at h; exact Or.inl h
  | cons p t ih =>
    obtain ⟨b, w⟩ := p
    intro h
    rw [alSet] at h
    split at h
    · rename_i hbk
      simp only [List.map_cons, List.mem_cons] at h ⊢
      rcases h with h | h
      · exact Or.inr (Or.inl h)
      · exact Or.inr (Or.inr h)
    · simp only [List.map_cons, List.mem_cons] at h ⊢
      rcases h with h | h
      · exact Or.inr (Or.inl h)
      · rcases ih h with h | h
        · exact Or.inl h
        · exact Or.inr (Or.inr h)

theorem alSet_nodup (l : List (Nat × Nat)) (k v : Nat) (h : (l.map (·.1)).Nodup) :
    ((alSet l k v).map (·.1)).Nodup := by
  induction l with
  | nil => simp [alSet]
  | cons p t ih =>
    obtain ⟨b, w⟩ := p
    rw [alSet]
    simp only [List.map_cons, List.nodup_cons] at h
    split
    · simp only [List.map_cons, List.nodup_cons]; exact h
    · rename_i hbk
      simp only [List.map_cons, List.nodup_cons]
      refine ⟨fun hm => ?_, ih h.2⟩
      rcases alSet_keys t k v b hm with h1 | h1
      · exact hbk h1
      · exact h.1 h1

theorem alSet_length (l : List (Nat × Nat)) (k v : Nat) : l.length ≤ (alSet l k v).length := by
  induction l with
  | nil => simp [alSet]
  | cons p t ih =>
    obtain ⟨b, w⟩ := p
    rw [alSet]
    split
    · simp
    · simp only [List.length_cons]; omega

theorem alGet_of_mem (l : List (Nat × Nat)) (h : (l.map (·.1)).Nodup) (f m : Nat)
    (hm : (f, m) ∈ l) : alGet l f = some m := by
  induction l with
  | nil => simp at hm
  | cons p t ih =>
    obtain ⟨b, w⟩ := p
    simp only [List.map_cons, List.nodup_cons] at h
    rw [alGet]
    rcases List.mem_cons.mp hm with hm | hm
    · simp only [Prod.mk.injEq] at hm
      rw [if_pos hm.1.symm, hm.2]
    · have hne : ¬ b = f := by
        intro e
        apply h.1
        rw [e]
        exact List.mem_map.mpr ⟨(f, m), hm, rfl⟩
      rw [if_neg hne]
      exact ih h.2 hm

theorem filter_ne_single (n i : Nat) :
    ([n].filter (fun x => decide (x ≠ i))).length = if n = i then 0 else 1 := by
  by_cases h : n = i <;> simp [h]

theorem peers_length (n i : Nat) (hi : i < n) :
    ((List.range n).filter (fun x => decide (x ≠ i))).length + 1 = n := by
  induction n with
  | zero => omega
  | succ n ih =>
    rw [List.range_succ, List.filter_append, List.length_append, filter_ne_single]
    by_cases hin : i < n
    · have := ih hin
      have hne : ¬ n = i := by omega
      rw [if_neg hne]; omega
    · have hi' : n = i := by omega
      subst hi'
      have hall : ∀ (k : Nat), k ≤ n → ((List.range k).filter (fun x => decide (x ≠ n))).length = k := by
        intro k
        induction k with
        | zero => intro _; rfl
        | succ k ihk =>
          intro hk
          rw [List.range_succ, List.filter_append, List.length_append, ihk (by omega), filter_ne_single]
          have : ¬ k = n := by omega
          rw [if_neg this]
      rw [hall n (Nat.le_refl _), if_pos rfl]

theorem peers_nodup (c : Config) (i : Nat) : (peers c i).Nodup := by
  unfold peers
  exact List.Nodup.filter _ List.nodup_range

theorem peers_not_self (c : Config) (i : Nat) : i ∉ peers c i := by
  unfold peers
  intro h
  simp at h

/-- the distinct nodes behind the values `≥ N` of a leader's `match_index` and its own log -/
theorem quorum_nodes (M : List (Nat × Nat)) (i len N q : Nat)
    (hnd : (M.map (·.1)).Nodup) (hi : i ∉ M.map (·.1))
    (hq : q ≤ cntGe (M.map (·.2) ++ [len]) N) :
    ∃ Q : List Nat, Q.Nodup ∧ q ≤ Q.length ∧
      ∀ f ∈ Q, (f = i ∧ N ≤ len) ∨ (∃ m, (f, m) ∈ M ∧ N ≤ m) := by
  -- the keys whose value reaches N
  have hkeys : ∀ (L : List (Nat × Nat)), (L.map (·.1)).Nodup →
      ∃ K : List Nat, K.Nodup ∧ K.length = cntGe (L.map (·.2)) N ∧
        (∀ f ∈ K, ∃ m, (f, m) ∈ L ∧ N ≤ m) ∧ (∀ f ∈ K, f ∈ L.map (·.1)) := by
    intro L
    induction L with
    | nil => intro _; exact ⟨[], List.nodup_nil, rfl, by simp, by simp⟩
    | cons p t ih =>
      obtain ⟨b, w⟩ := p
      intro hn
      simp only [List.map_cons, List.nodup_cons] at hn
      obtain ⟨K, hK1, hK2, hK3, hK4⟩ := ih hn.2
      by_cases hw : N ≤ w
      · refine ⟨b :: K, List.nodup_cons.mpr ⟨fun h => hn.1 (hK4 b h), hK1⟩, ?_, ?_, ?_⟩
        · simp only [List.map_cons, List.length_cons, cntGe_cons, if_pos hw, hK2]; omega
        · intro f hf
          rcases List.mem_cons.mp hf with hf | hf
          · exact ⟨w, by rw [hf]; exact List.mem_cons_self, hw⟩
          · obtain ⟨m, hm, hle⟩ := hK3 f hf
            exact ⟨m, List.mem_cons_of_mem _ hm, hle⟩
        · intro f hf
          rcases List.mem_cons.mp hf with hf | hf
          · rw [hf]; exact List.mem_cons_self
          · exact List.mem_cons_of_mem _ (hK4 f hf)
      · refine ⟨K, hK1, ?_, ?_, ?_⟩
        · simp only [List.map_cons, cntGe_cons, if_neg hw, hK2]; omega
        · intro f hf
          obtain ⟨m, hm, hle⟩ := hK3 f hf
          exact ⟨m, List.mem_cons_of_mem _ hm, hle⟩
        · intro f hf; exact List.mem_cons_of_mem _ (hK4 f hf)
  obtain ⟨K, hK1, hK2, hK3, hK4⟩ := hkeys M hnd
  rw [cntGe_append, cntGe_cons, cntGe_nil] at hq
  by_cases hlen : N ≤ len
  · refine ⟨i :: K, List.nodup_cons.mpr ⟨fun h => hi (hK4 i h), hK1⟩, ?_, ?_⟩
    · rw [if_pos hlen] at hq; simp only [List.length_cons]; omega
    · intro f hf
      rcases List.mem_cons.mp hf with hf | hf
      · exact Or.inl ⟨hf, hlen⟩
      · exact Or.inr (hK3 f hf)
  · refine ⟨K, hK1, ?_, fun f hf => Or.inr (hK3 f hf)⟩
    rw [if_neg hlen] at hq; omega

end Neumann.Raft
