import NeumannModel.Raft.SnapLemmas

/-!
# Restart after a snapshot install recovers exactly the snapshot

Whatever the WAL held before (a longer, divergent or conflicting prior log), the
records written by `install_snapshot_entries` make recovery return exactly the
snapshot entries; appends after the install are recovered after them.  The
"skip the records the node already holds an index for" variant does not.
-/

namespace Neumann.Raft.Props

open Neumann.Raft

/-! ## headline statements -/

/-- For every prior WAL content, restarting after `install_snapshot_entries`
    recovers exactly the snapshot entries. -/
theorem restart_after_snapshot_install_recovers_the_snapshot (wal : List WalRec)
    (snap : List Entry) (hidx : ∀ i e, WalRec.full i e ∈ wal → 1 ≤ i) (hne : snap ≠ []) :
    recoveredLog (wal ++ installRecs snap) = snap := by
  unfold recoveredLog
  rw [walReplay_after_install wal snap hidx hne, wmIndexed_values]

/-- ... and entries appended after the install are recovered right after the snapshot. -/
theorem restart_after_install_and_appends_recovers_the_log (wal : List WalRec)
    (snap es : List Entry) (hidx : ∀ i e, WalRec.full i e ∈ wal → 1 ≤ i) (hne : snap ≠ []) :
    recoveredLog (wal ++ installRecs snap ++ fullRecs snap.length es) = snap ++ es := by
  unfold recoveredLog
  have h1 : walReplay (wal ++ installRecs snap ++ fullRecs snap.length es)
      = (fullRecs snap.length es).foldl walApply (walReplay (wal ++ installRecs snap)) := by
    unfold walReplay
    rw [List.foldl_append]
  rw [h1, walReplay_after_install wal snap hidx hne, foldl_fullRecs_above]
  · rw [List.map_append, wmIndexed_values, wmIndexed_values]
  · intro p hp
    have := wmIndexed_keys_lt snap 0 p hp
    omega

/-- The seeded variant (skip records at indices the node already holds) lets a
    restart resurrect stale entries: held log `[1:1, 1:2, 1:3]`, snapshot
    `[1:1, 2:4, 2:5]` — nothing is rewritten, recovery returns the stale log. -/
theorem skip_held_install_resurrects_stale_entries_witness :
    ¬ (∀ (wal : List WalRec) (held : Nat) (snap : List Entry),
        (∀ i e, WalRec.full i e ∈ wal → 1 ≤ i) → snap ≠ [] →
        recoveredLog (wal ++ installRecsSkipHeld held snap) = snap) := by
  intro h
  have := h [.full 1 ⟨1, 1⟩, .full 2 ⟨1, 2⟩, .full 3 ⟨1, 3⟩] 3 [⟨1, 1⟩, ⟨2, 4⟩, ⟨2, 5⟩]
    (by
      intro i e hm
      simp only [List.mem_cons, WalRec.full.injEq, List.not_mem_nil, or_false] at hm
      omega)
    (by decide)
  revert this
  decide

/-- What the cluster model's `crashRestart` assumes of a WAL-backed node (the restarted node's log is
    the log it held): after a snapshot install it holds for EVERY node state and every prior WAL content —
    the log recovered from the WAL is the in-memory log of the installing node. -/
theorem restart_from_wal_after_install_is_the_held_log (nd : Node) (lastTerm : Nat) (wal : List WalRec)
    (snap : List Entry) (hidx : ∀ i e, WalRec.full i e ∈ wal → 1 ≤ i) (hne : snap ≠ []) :
    recoveredLog (wal ++ installRecs snap) = (crashRestart (installSnapshot nd lastTerm snap)).log := by
  rw [restart_after_snapshot_install_recovers_the_snapshot wal snap hidx hne]
  rfl

/-! ## non-vacuity at the same witness -/

/-- the witness WAL satisfies the index hypothesis -/
example : ∀ i e, WalRec.full i e ∈
    [WalRec.full 1 ⟨1, 1⟩, .full 2 ⟨1, 2⟩, .full 3 ⟨1, 3⟩] → 1 ≤ i := by
  intro i e hm
  simp only [List.mem_cons, WalRec.full.injEq, List.not_mem_nil, or_false] at hm
  omega

example : ([⟨1, 1⟩, ⟨2, 4⟩, ⟨2, 5⟩] : List Entry) ≠ [] := by decide

/-- the unmodified install recovers the snapshot over the stale held log -/
example : recoveredLog ([WalRec.full 1 ⟨1, 1⟩, .full 2 ⟨1, 2⟩, .full 3 ⟨1, 3⟩]
    ++ installRecs [⟨1, 1⟩, ⟨2, 4⟩, ⟨2, 5⟩]) = [⟨1, 1⟩, ⟨2, 4⟩, ⟨2, 5⟩] := by decide

/-- the seeded variant recovers the stale held log instead -/
example : recoveredLog ([WalRec.full 1 ⟨1, 1⟩, .full 2 ⟨1, 2⟩, .full 3 ⟨1, 3⟩]
    ++ installRecsSkipHeld 3 [⟨1, 1⟩, ⟨2, 4⟩, ⟨2, 5⟩])
    = [⟨1, 1⟩, ⟨1, 2⟩, ⟨1, 3⟩] := by decide

/-- a longer conflicting prior log is cut back to the snapshot -/
example : recoveredLog ([WalRec.full 1 ⟨1, 1⟩, .full 2 ⟨1, 2⟩, .full 3 ⟨1, 3⟩, .other,
      .full 4 ⟨1, 9⟩, .full 5 ⟨1, 8⟩]
    ++ installRecs [⟨1, 1⟩, ⟨2, 4⟩]) = [⟨1, 1⟩, ⟨2, 4⟩] := by decide

/-- appends after the install come back after the snapshot -/
example : recoveredLog ([WalRec.full 1 ⟨1, 1⟩, .full 2 ⟨1, 2⟩, .full 3 ⟨1, 3⟩]
    ++ installRecs [⟨1, 1⟩, ⟨2, 4⟩] ++ fullRecs 2 [⟨3, 7⟩]) = [⟨1, 1⟩, ⟨2, 4⟩, ⟨3, 7⟩] := by
  decide

end Neumann.Raft.Props
