import NeumannModel.Raft.Safety
import NeumannModel.Raft.LogLemmas
/-
  C01 — Log Matching for every reachable state of the system model.
  Ghost state (`Sys.canon`, `Sys.elected`): the log of the leader of each term and the record
  of every election ever won.  Invariant `LMInv`; every node log is `Canon` w.r.t. `canon`.
-/
namespace Neumann.Raft

/-! ## how handlers change the log -/

theorem deliver_log_other (c : Config) (nd : Node) (src : Nat) (m : Msg) (b1 b2 b3 : Bool)
    (hm : ∀ t l pi pt es lc, m ≠ .appendEntries t l pi pt es lc) :
    (deliver c nd src m b1 b2 b3).1.log = nd.log := by
  cases m with
  | requestVote t cand li lt =>
    simp only [deliver, handleRequestVote_eq]
    split <;> simp
  | requestVoteResp t gr v =>
    simp only [deliver, handleRequestVoteResp]
    split
    · rfl
    · split
      · rfl
      · split
        · split
          · rfl
          · split <;> rfl
        · rfl
  | preVote t cand li lt => rfl
  | preVoteResp t gr v =>
    simp only [deliver, handlePreVoteResp]
    split
    · rfl
    · split
      · rfl
      · split
        · split
          · rfl
          · split <;> rfl
        · rfl
  | appendEntries t l pi pt es lc => exact absurd rfl (hm t l pi pt es lc)
  | appendEntriesResp t sc f mi =>
    simp only [deliver, handleAppendEntriesResp]
    split
    · rfl
    · split
      · rfl
      · split
        · rfl
        · split
          · rfl
          · split
            · have hf : ∀ x : Node, (tryAdvanceCommit c x).log = x.log := by
                intro x
                unfold tryAdvanceCommit
                split
                · rfl
                · split
                  · rfl
                  · dsimp only; split <;> rfl
              rw [hf]
            · rfl
  | timeoutNow t l =>
    simp only [deliver, handleTimeoutNow]
    split
    · rfl
    · split <;> rfl

/-- `handle_append_entries`: the log changes only in the accept branch, and whenever the
    request's term is current the node ends as follower -/
theorem handleAppendEntries_log (nd : Node) (t l pi pt : Nat) (es : List Entry) (lc : Nat) :
    ((handleAppendEntries nd t l pi pt es lc).1.log = nd.log ∨
      (nd.term ≤ t ∧ aeLogOk nd.log pi pt = true ∧
       (handleAppendEntries nd t l pi pt es lc).1.log = appendLeaderEntries nd.log (pi + 1) es)) ∧
    (nd.term ≤ t → (handleAppendEntries nd t l pi pt es lc).1.role = .follower) := by
  unfold handleAppendEntries
  have hge := stepDown_term_ge nd t
  have hterm := stepDown_term nd t
  by_cases h1 : t = (stepDown nd t).term
  · rw [if_pos h1]
    by_cases h2 : aeLogOk (stepDown nd t).log pi pt = true
    · simp only [h2, if_true]
      refine ⟨Or.inr ⟨by omega, by simpa using h2, by simp [aeAccept]⟩, fun _ => by simp [aeAccept]⟩
    · simp only [h2]
      exact ⟨Or.inl (by simp), fun _ => rfl⟩
  · rw [if_neg h1]
    refine ⟨Or.inl (by simp), fun hle => ?_⟩
    exfalso; apply h1; rw [hterm]; omega

theorem propose_log (nd : Node) (p : Nat) (a : Bool) :
    (propose nd p a).1 = nd ∨
    (nd.role = .leader ∧ (propose nd p a).1 = { nd with log := nd.log ++ [⟨nd.term, p⟩] }) := by
  unfold propose
  split
  · exact Or.inl rfl
  · rename_i h
    split
    · exact Or.inl rfl
    · right
      refine ⟨?_, rfl⟩
      cases hr : nd.role <;> simp_all

/-- the AppendEntries a leader builds is a suffix of its log after a prefix of its log -/
theorem appendEntriesFor_spec (nd : Node) (j : Nat) (m : Msg) (h : appendEntriesFor nd j = some m) :
    nd.role = .leader ∧ ∃ pi pt es, m = .appendEntries nd.term nd.id pi pt es nd.commit ∧
      nd.log.take pi ++ es = nd.log.take (pi + es.length) ∧ (pi = 0 ∨ termAt nd.log pi = some pt) := by
  unfold appendEntriesFor at h
  split at h
  · cases h
  · rename_i hr
    have hl : nd.role = .leader := by cases hr' : nd.role <;> simp_all
    refine ⟨hl, ?_⟩
    simp only [Option.some.injEq] at h
    generalize hnext : (if nd.hasLeaderState = true then (alGet nd.nextIdx j).getD 1 else 1) = next at h
    by_cases hn1 : next ≤ 1
    · simp only [hn1, if_true] at h
      refine ⟨0, 0, _, h.symm, ?_, Or.inl rfl⟩
      by_cases hn0 : next = 0
      · simp [hn0]
      · have : next = 1 := by omega
        simp [this]
    · simp only [hn1, if_false] at h
      have hn0 : ¬ next = 0 := by omega
      cases hget : nd.log[next - 2]? with
      | none =>
        rw [hget] at h
        simp only [hn0, if_false] at h
        refine ⟨0, 0, _, h.symm, ?_, Or.inl rfl⟩
        have hlen : nd.log.length ≤ next - 2 := by
          rcases Nat.lt_or_ge (next - 2) nd.log.length with h' | h'
          · rw [List.getElem?_eq_getElem h'] at hget; cases hget
          · exact h'
        rw [List.drop_eq_nil_of_le (by omega)]
        simp
      | some e =>
        rw [hget] at h
        simp only [hn0, if_false] at h
        refine ⟨next - 1, e.term, _, h.symm, ?_, Or.inr ?_⟩
        · rw [List.take_append_drop]
          rw [List.take_of_length_le]
          simp only [List.length_drop]; omega
        · unfold termAt
          have : ¬ next - 1 = 0 := by omega
          simp only [this, if_false]
          rw [show next - 1 - 1 = next - 2 by omega, hget]; rfl

/-! ## the Log Matching invariant -/

/-- some election was won in term `t` -/
def TermElected (s : Sys) (t : Nat) : Prop := ∃ j vs, (t, j, vs) ∈ s.elected

structure LMInv (c : Config) (s : Sys) : Prop where
  electedOk : ∀ (t i : Nat) (vs : List Nat), (t, i, vs) ∈ s.elected →
    vs.Nodup ∧ c.quorum ≤ vs.length ∧ ∀ v ∈ vs, (v, t, i) ∈ s.ghost
  electedTerm : ∀ (t i : Nat) (vs : List Nat), (t, i, vs) ∈ s.elected →
    ∃ nd : Node, s.nodes[i]? = some nd ∧ t ≤ nd.term
  candNotElected : ∀ (i : Nat) (nd : Node), s.nodes[i]? = some nd → nd.role = .candidate →
    ∀ vs, (nd.term, i, vs) ∉ s.elected
  leaderElected : ∀ (i : Nat) (nd : Node), s.nodes[i]? = some nd → nd.role = .leader →
    ∃ vs, (nd.term, i, vs) ∈ s.elected
  leaderCanon : ∀ (i : Nat) (nd : Node), s.nodes[i]? = some nd → nd.role = .leader →
    nd.log = s.canon nd.term
  nodeCanon : ∀ (i : Nat) (nd : Node), s.nodes[i]? = some nd → Canon s.canon nd.log
  canonCanon : ∀ t : Nat, Canon s.canon (s.canon t)
  nodeEntries : ∀ (i : Nat) (nd : Node), s.nodes[i]? = some nd → ∀ e ∈ nd.log, TermElected s e.term
  canonEntries : ∀ (t : Nat), ∀ e ∈ s.canon t, TermElected s e.term
  aeEntries : ∀ (src dst T l pi pt : Nat) (es : List Entry) (lc : Nat),
    (src, dst, Msg.appendEntries T l pi pt es lc) ∈ s.net → ∀ e ∈ es, TermElected s e.term
  aeOk : ∀ (src dst T l pi pt : Nat) (es : List Entry) (lc : Nat),
    (src, dst, Msg.appendEntries T l pi pt es lc) ∈ s.net →
      src = l ∧ dst ≠ src ∧ (∃ vs, (T, l, vs) ∈ s.elected) ∧
      (s.canon T).take pi ++ es = (s.canon T).take (pi + es.length) ∧
      (pi = 0 ∨ termAt (s.canon T) pi = some pt)

/-- two quorums of recorded votes for one term belong to one candidate -/
theorem quorum_unique (c : Config) (s : Sys) (hI : Inv c s) (t i j : Nat) (vs ws : List Nat)
    (h1 : vs.Nodup ∧ c.quorum ≤ vs.length ∧ ∀ v ∈ vs, (v, t, i) ∈ s.ghost)
    (h2 : ws.Nodup ∧ c.quorum ≤ ws.length ∧ ∀ v ∈ ws, (v, t, j) ∈ s.ghost) : i = j := by
  have bound : ∀ (k : Nat) (l : List Nat), (∀ v ∈ l, (v, t, k) ∈ s.ghost) → ∀ x ∈ l, x < c.n := by
    intro k l hl x hx
    obtain ⟨nd, hnd, _, _⟩ := hI.ghostNode x t k (hl x hx)
    rw [← hI.len]; exact getElem?_lt _ _ _ hnd
  have hq : c.n < vs.length + ws.length := by
    have := h1.2.1; have := h2.2.1; unfold Config.quorum at *; omega
  obtain ⟨x, hx1, hx2⟩ := nodup_lists_intersect c.n vs ws h1.1 h2.1
    (bound i vs h1.2.2) (bound j ws h2.2.2) hq
  exact hI.ghostFun x t i j (h1.2.2 x hx1) (h2.2.2 x hx2)

theorem elected_unique (c : Config) (s : Sys) (hI : Inv c s) (hL : LMInv c s) (t i j : Nat)
    (vs ws : List Nat) (h1 : (t, i, vs) ∈ s.elected) (h2 : (t, j, ws) ∈ s.elected) : i = j :=
  quorum_unique c s hI t i j vs ws (hL.electedOk t i vs h1) (hL.electedOk t j ws h2)

/-- **Log Matching** on the invariant: two logs that agree on the term of a position agree on
    every position up to it. -/
theorem log_matching_of_inv (c : Config) (s : Sys) (hL : LMInv c s) (i j : Nat) (a b : Node)
    (ha : s.nodes[i]? = some a) (hb : s.nodes[j]? = some b) (k : Nat) (ea eb : Entry)
    (h1 : a.log[k]? = some ea) (h2 : b.log[k]? = some eb) (ht : ea.term = eb.term) :
    a.log.take (k + 1) = b.log.take (k + 1) :=
  canon_match s.canon a.log b.log (hL.nodeCanon i a ha) (hL.nodeCanon j b hb) k ea eb h1 h2 ht

theorem lm_init (c : Config) : LMInv c (initSys c) := by
  have hget : ∀ (i : Nat) (nd : Node), (initSys c).nodes[i]? = some nd → nd = { id := i } := by
    intro i nd h
    simp only [initSys] at h
    rw [List.getElem?_map] at h
    by_cases hi : i < c.n
    · rw [List.getElem?_range hi] at h
      simp only [Option.map_some, Option.some.injEq] at h
      exact h.symm
    · rw [List.getElem?_eq_none (by simp; omega)] at h; simp at h
  refine ⟨?_, ?_, ?_, ?_, ?_, ?_, ?_, ?_, ?_, ?_, ?_⟩
  · intro t i vs h; simp [initSys] at h
  · intro t i vs h; simp [initSys] at h
  · intro i nd h hr; rw [hget i nd h] at hr; simp at hr
  · intro i nd h hr; rw [hget i nd h] at hr; simp at hr
  · intro i nd h hr; rw [hget i nd h] at hr; simp at hr
  · intro i nd h; rw [hget i nd h]; exact canon_nil _
  · intro t; simp only [initSys]; exact canon_nil _
  · intro i nd h e he; rw [hget i nd h] at he; simp at he
  · intro t e he; simp [initSys] at he
  · intro src dst T l pi pt es lc h; simp [initSys] at h
  · intro src dst T l pi pt es lc h; simp [initSys] at h

/-! ## preservation -/

def NoAE (msgs : List (Nat × Nat × Msg)) : Prop :=
  ∀ (a b : Nat) (m : Msg), (a, b, m) ∈ msgs → ∀ t l pi pt es lc, m ≠ Msg.appendEntries t l pi pt es lc

theorem termElected_mono (s s' : Sys) (h : ∀ x, x ∈ s.elected → x ∈ s'.elected) (t : Nat)
    (ht : TermElected s t) : TermElected s' t := by
  obtain ⟨j, vs, hj⟩ := ht; exact ⟨j, vs, h _ hj⟩

/-- a step that keeps the log and creates no leader -/
theorem lm_setNode_quiet (c : Config) (s : Sys) (i : Nat) (nd nd' : Node)
    (msgs : List (Nat × Nat × Msg)) (hL : LMInv c s) (hnd : s.nodes[i]? = some nd)
    (hlog : nd'.log = nd.log) (hterm : nd.term ≤ nd'.term)
    (hlead : nd'.role = .leader → nd.role = .leader ∧ nd'.term = nd.term)
    (hcand : nd'.role = .candidate → (nd.role = .candidate ∧ nd'.term = nd.term) ∨ nd.term < nd'.term)
    (hno : NoAE msgs) : LMInv c (setNode s i nd' nd msgs) := by
  have hget : ∀ j, (s.nodes.set i nd')[j]? = if j = i then some nd' else s.nodes[j]? :=
    fun j => getElem?_set_of_some s.nodes i j nd nd' hnd
  have hcanon : (setNode s i nd' nd msgs).canon = s.canon := by
    simp only [setNode]
    split
    · rename_i hl
      obtain ⟨hl0, ht⟩ := hlead hl
      funext t
      by_cases h : t = nd'.term
      · rw [if_pos h, h, hlog, ht]; exact hL.leaderCanon i nd hnd hl0
      · rw [if_neg h]
    · rfl
  have helected : (setNode s i nd' nd msgs).elected = s.elected := by
    simp only [setNode]
    split
    · rename_i h; exact absurd (hlead h.2).1 h.1
    · rfl
  have hnodes : (setNode s i nd' nd msgs).nodes = s.nodes.set i nd' := rfl
  have hnet : (setNode s i nd' nd msgs).net = s.net ++ msgs := rfl
  have hghost : ∀ x, x ∈ s.ghost → x ∈ (setNode s i nd' nd msgs).ghost :=
    fun x hx => List.mem_append_left _ hx
  have hTE : ∀ t, TermElected s t → TermElected (setNode s i nd' nd msgs) t := by
    intro t ht; unfold TermElected; rw [helected]; exact ht
  refine ⟨?_, ?_, ?_, ?_, ?_, ?_, ?_, ?_, ?_, ?_, ?_⟩
  · intro t j vs h
    rw [helected] at h
    obtain ⟨a, b, d⟩ := hL.electedOk t j vs h
    exact ⟨a, b, fun v hv => hghost _ (d v hv)⟩
  · intro t j vs h
    rw [helected] at h
    obtain ⟨ndj, hj, hle⟩ := hL.electedTerm t j vs h
    rw [hnodes, hget]
    by_cases hji : j = i
    · subst hji; rw [hnd] at hj; cases hj
      exact ⟨nd', by simp, Nat.le_trans hle hterm⟩
    · exact ⟨ndj, by rw [if_neg hji]; exact hj, hle⟩
  · intro j ndj hj hr vs
    rw [hnodes, hget] at hj; rw [helected]
    by_cases hji : j = i
    · rw [if_pos hji] at hj; cases hj; subst hji
      rcases hcand hr with ⟨hr0, ht⟩ | hlt
      · rw [ht]; exact hL.candNotElected j nd hnd hr0 vs
      · intro hmem
        obtain ⟨nd0, h0, hle⟩ := hL.electedTerm _ j vs hmem
        rw [hnd] at h0; cases h0; omega
    · rw [if_neg hji] at hj; exact hL.candNotElected j ndj hj hr vs
  · intro j ndj hj hr
    rw [hnodes, hget] at hj; rw [helected]
    by_cases hji : j = i
    · rw [if_pos hji] at hj; cases hj; subst hji
      obtain ⟨hr0, ht⟩ := hlead hr
      rw [ht]; exact hL.leaderElected j nd hnd hr0
    · rw [if_neg hji] at hj; exact hL.leaderElected j ndj hj hr
  · intro j ndj hj hr
    rw [hnodes, hget] at hj; rw [hcanon]
    by_cases hji : j = i
    · rw [if_pos hji] at hj; cases hj; subst hji
      obtain ⟨hr0, ht⟩ := hlead hr
      rw [ht, hlog]; exact hL.leaderCanon j nd hnd hr0
    · rw [if_neg hji] at hj; exact hL.leaderCanon j ndj hj hr
  · intro j ndj hj
    rw [hnodes, hget] at hj; rw [hcanon]
    by_cases hji : j = i
    · rw [if_pos hji] at hj; cases hj; rw [hlog]; exact hL.nodeCanon i nd hnd
    · rw [if_neg hji] at hj; exact hL.nodeCanon j ndj hj
  · intro t; rw [hcanon]; exact hL.canonCanon t
  · intro j ndj hj e he
    rw [hnodes, hget] at hj
    apply hTE
    by_cases hji : j = i
    · rw [if_pos hji] at hj; cases hj; rw [hlog] at he; exact hL.nodeEntries i nd hnd e he
    · rw [if_neg hji] at hj; exact hL.nodeEntries j ndj hj e he
  · intro t e he; rw [hcanon] at he; exact hTE _ (hL.canonEntries t e he)
  · intro src dst T l pi pt es lc h e he
    rw [hnet] at h
    rcases List.mem_append.mp h with h | h
    · exact hTE _ (hL.aeEntries src dst T l pi pt es lc h e he)
    · exact absurd rfl (hno src dst _ h T l pi pt es lc)
  · intro src dst T l pi pt es lc h
    rw [hnet] at h
    rcases List.mem_append.mp h with h | h
    · rw [hcanon, helected]; exact hL.aeOk src dst T l pi pt es lc h
    · exact absurd rfl (hno src dst _ h T l pi pt es lc)

/-- the leader appends one entry of its own term -/
theorem lm_setNode_propose (c : Config) (s : Sys) (i : Nat) (nd : Node) (p : Nat)
    (hI : Inv c s) (hL : LMInv c s) (hnd : s.nodes[i]? = some nd) (hr : nd.role = .leader) :
    LMInv c (setNode s i { nd with log := nd.log ++ [⟨nd.term, p⟩] } nd []) := by
  let nd' : Node := { nd with log := nd.log ++ [⟨nd.term, p⟩] }
  let e : Entry := ⟨nd.term, p⟩
  have hget : ∀ j, (s.nodes.set i nd')[j]? = if j = i then some nd' else s.nodes[j]? :=
    fun j => getElem?_set_of_some s.nodes i j nd nd' hnd
  have hLc : s.canon nd.term = nd.log := (hL.leaderCanon i nd hnd hr).symm
  have hcanon : (setNode s i nd' nd []).canon =
      fun t => if t = nd.term then s.canon nd.term ++ [e] else s.canon t := by
    simp only [setNode]
    have : nd'.role = .leader := hr
    rw [if_pos this]
    funext t
    by_cases h : t = nd.term
    · have h' : t = nd'.term := h
      rw [if_pos h', if_pos h, hLc]
    · have h' : ¬ t = nd'.term := h
      rw [if_neg h', if_neg h]
  have helected : (setNode s i nd' nd []).elected = s.elected := by
    simp only [setNode]
    rw [if_neg]; intro h; exact h.1 hr
  have hnodes : (setNode s i nd' nd []).nodes = s.nodes.set i nd' := rfl
  have hnet : (setNode s i nd' nd []).net = s.net := by simp [setNode]
  have hghost : ∀ x, x ∈ s.ghost → x ∈ (setNode s i nd' nd []).ghost :=
    fun x hx => List.mem_append_left _ hx
  have hTE : ∀ t, TermElected s t → TermElected (setNode s i nd' nd []) t := by
    intro t ht; unfold TermElected; rw [helected]; exact ht
  have hext : ∀ l, Canon s.canon l →
      Canon (fun t => if t = nd.term then s.canon nd.term ++ [e] else s.canon t) l :=
    fun l hl => canon_extend s.canon nd.term _ [e] rfl l hl
  have hnewlog : Canon (fun t => if t = nd.term then s.canon nd.term ++ [e] else s.canon t)
      (nd.log ++ [e]) := by
    apply canon_snoc _ _ _ (hext _ (hL.nodeCanon i nd hnd))
    show (if e.term = nd.term then s.canon nd.term ++ [e] else s.canon e.term) = nd.log ++ [e]
    rw [if_pos rfl, hLc]
  refine ⟨?_, ?_, ?_, ?_, ?_, ?_, ?_, ?_, ?_, ?_, ?_⟩
  · intro t j vs h
    rw [helected] at h
    obtain ⟨a, b, d⟩ := hL.electedOk t j vs h
    exact ⟨a, b, fun v hv => hghost _ (d v hv)⟩
  · intro t j vs h
    rw [helected] at h
    obtain ⟨ndj, hj, hle⟩ := hL.electedTerm t j vs h
    rw [hnodes, hget]
    by_cases hji : j = i
    · subst hji; rw [hnd] at hj; cases hj
      exact ⟨nd', by simp, hle⟩
    · exact ⟨ndj, by rw [if_neg hji]; exact hj, hle⟩
  · intro j ndj hj hrc vs
    rw [hnodes, hget] at hj; rw [helected]
    by_cases hji : j = i
    · rw [if_pos hji] at hj; cases hj
      have : nd'.role = .leader := hr
      rw [this] at hrc; cases hrc
    · rw [if_neg hji] at hj; exact hL.candNotElected j ndj hj hrc vs
  · intro j ndj hj hrl
    rw [hnodes, hget] at hj; rw [helected]
    by_cases hji : j = i
    · rw [if_pos hji] at hj; cases hj; subst hji
      exact hL.leaderElected j nd hnd hr
    · rw [if_neg hji] at hj; exact hL.leaderElected j ndj hj hrl
  · intro j ndj hj hrl
    rw [hnodes, hget] at hj; rw [hcanon]
    by_cases hji : j = i
    · rw [if_pos hji] at hj; cases hj
      show nd.log ++ [e] = if nd.term = nd.term then s.canon nd.term ++ [e] else s.canon nd.term
      rw [if_pos rfl, hLc]
    · rw [if_neg hji] at hj
      have hne : ndj.term ≠ nd.term := by
        intro heq
        exact hji (election_safety_of_inv c s hI j i ndj nd hj hnd hrl hr heq)
      simp only [hne, if_false]
      exact hL.leaderCanon j ndj hj hrl
  · intro j ndj hj
    rw [hnodes, hget] at hj; rw [hcanon]
    by_cases hji : j = i
    · rw [if_pos hji] at hj; cases hj; exact hnewlog
    · rw [if_neg hji] at hj; exact hext _ (hL.nodeCanon j ndj hj)
  · intro t; rw [hcanon]
    by_cases ht : t = nd.term
    · simp only [ht, if_true]
      have := hnewlog
      rw [hLc] at this ⊢
      exact this
    · simp only [ht, if_false]; exact hext _ (hL.canonCanon t)
  · intro j ndj hj e' he'
    rw [hnodes, hget] at hj
    apply hTE
    by_cases hji : j = i
    · rw [if_pos hji] at hj; cases hj
      rcases List.mem_append.mp he' with h | h
      · exact hL.nodeEntries i nd hnd e' h
      · simp only [List.mem_singleton] at h; subst h
        obtain ⟨vs, hvs⟩ := hL.leaderElected i nd hnd hr
        exact ⟨i, vs, hvs⟩
    · rw [if_neg hji] at hj; exact hL.nodeEntries j ndj hj e' he'
  · intro t e' he'
    rw [hcanon] at he'
    apply hTE
    by_cases ht : t = nd.term
    · simp only [ht, if_true] at he'
      rcases List.mem_append.mp he' with h | h
      · exact hL.canonEntries nd.term e' h
      · simp only [List.mem_singleton] at h; subst h
        obtain ⟨vs, hvs⟩ := hL.leaderElected i nd hnd hr
        exact ⟨i, vs, hvs⟩
    · simp only [ht, if_false] at he'; exact hL.canonEntries t e' he'
  · intro src dst T l pi pt es lc h e' he'
    rw [hnet] at h
    exact hTE _ (hL.aeEntries src dst T l pi pt es lc h e' he')
  · intro src dst T l pi pt es lc h
    rw [hnet] at h
    obtain ⟨a, b, d, f, g⟩ := hL.aeOk src dst T l pi pt es lc h
    rw [hcanon, helected]
    refine ⟨a, b, d, ?_⟩
    by_cases ht : T = nd.term
    · simp only [ht, if_true]
      rw [ht] at f g
      exact ae_seg_extend _ [e] es pi pt f g
    · simp only [ht, if_false]; exact ⟨f, g⟩

theorem termAt_some (l : List Entry) (k t : Nat) (h : termAt l k = some t) :
    0 < k ∧ ∃ e, l[k - 1]? = some e ∧ e.term = t := by
  unfold termAt at h
  split at h
  · cases h
  · rename_i h0
    cases hg : l[k - 1]? with
    | none => rw [hg] at h; cases h
    | some e =>
      rw [hg] at h
      simp only [Option.map_some, Option.some.injEq] at h
      exact ⟨by omega, e, rfl, h⟩

/-- a follower accepts an AppendEntries that is in the network -/
theorem lm_setNode_accept (c : Config) (s : Sys) (i : Nat) (nd nd' : Node)
    (msgs : List (Nat × Nat × Msg)) (src T l pi pt : Nat) (es : List Entry) (lc : Nat)
    (hL : LMInv c s) (hnd : s.nodes[i]? = some nd)
    (hmsg : (src, i, Msg.appendEntries T l pi pt es lc) ∈ s.net)
    (hok : aeLogOk nd.log pi pt = true)
    (hlog : nd'.log = appendLeaderEntries nd.log (pi + 1) es)
    (hterm : nd.term ≤ nd'.term) (hrole : nd'.role = .follower)
    (hno : NoAE msgs) : LMInv c (setNode s i nd' nd msgs) := by
  have hget : ∀ j, (s.nodes.set i nd')[j]? = if j = i then some nd' else s.nodes[j]? :=
    fun j => getElem?_set_of_some s.nodes i j nd nd' hnd
  have hnl : ¬ nd'.role = .leader := by rw [hrole]; intro h; cases h
  have hcanon : (setNode s i nd' nd msgs).canon = s.canon := by
    simp only [setNode]; rw [if_neg hnl]
  have helected : (setNode s i nd' nd msgs).elected = s.elected := by
    simp only [setNode]; rw [if_neg]; intro h; exact hnl h.2
  have hnodes : (setNode s i nd' nd msgs).nodes = s.nodes.set i nd' := rfl
  have hnet : (setNode s i nd' nd msgs).net = s.net ++ msgs := rfl
  have hghost : ∀ x, x ∈ s.ghost → x ∈ (setNode s i nd' nd msgs).ghost :=
    fun x hx => List.mem_append_left _ hx
  have hTE : ∀ t, TermElected s t → TermElected (setNode s i nd' nd msgs) t := by
    intro t ht; unfold TermElected; rw [helected]; exact ht
  obtain ⟨_, _, _, hseg, hpt⟩ := hL.aeOk src i T l pi pt es lc hmsg
  -- the new log is canonical
  have hnew : Canon s.canon (appendLeaderEntries nd.log (pi + 1) es) := by
    have hpi : pi ≤ (s.canon T).length := by
      rcases hpt with h | h
      · omega
      · obtain ⟨h0, e, he, _⟩ := termAt_some _ _ _ h
        have := getElem?_lt _ _ e he; omega
    have hMc : Canon s.canon ((s.canon T).take (pi + es.length)) :=
      canon_take _ _ _ (hL.canonCanon T)
    apply appendLeaderEntries_canon s.canon _ hMc es nd.log (pi + 1) (by omega) (hL.nodeCanon i nd hnd)
    · -- the consistency check: the follower's log agrees with the leader's before `pi`
      rw [show pi + 1 - 1 = pi by omega, List.take_take, Nat.min_eq_left (by omega)]
      by_cases hp0 : pi = 0
      · simp [hp0]
      · have hpt' : termAt (s.canon T) pi = some pt := by
          rcases hpt with h | h
          · exact absurd h hp0
          · exact h
        unfold aeLogOk at hok
        rw [if_neg hp0] at hok
        split at hok
        · simp only [decide_eq_true_eq] at hok
          obtain ⟨_, e1, he1, ht1⟩ := termAt_some _ _ _ hok
          obtain ⟨_, e2, he2, ht2⟩ := termAt_some _ _ _ hpt'
          have h1 := hL.nodeCanon i nd hnd (pi - 1) e1 he1
          have h2 := hL.canonCanon T (pi - 1) e2 he2
          rw [show pi - 1 + 1 = pi by omega] at h1 h2
          rw [h1, h2, ht1, ht2]
        · cases hok
    · rw [show pi + 1 - 1 = pi by omega, ← hseg, List.drop_append_of_le_length (by simp; omega)]
      rw [List.drop_of_length_le (by simp)]; simp
  refine ⟨?_, ?_, ?_, ?_, ?_, ?_, ?_, ?_, ?_, ?_, ?_⟩
  · intro t j vs h
    rw [helected] at h
    obtain ⟨a, b, d⟩ := hL.electedOk t j vs h
    exact ⟨a, b, fun v hv => hghost _ (d v hv)⟩
  · intro t j vs h
    rw [helected] at h
    obtain ⟨ndj, hj, hle⟩ := hL.electedTerm t j vs h
    rw [hnodes, hget]
    by_cases hji : j = i
    · subst hji; rw [hnd] at hj; cases hj
      exact ⟨nd', by simp, Nat.le_trans hle hterm⟩
    · exact ⟨ndj, by rw [if_neg hji]; exact hj, hle⟩
  · intro j ndj hj hrc vs
    rw [hnodes, hget] at hj; rw [helected]
    by_cases hji : j = i
    · rw [if_pos hji] at hj; cases hj; rw [hrole] at hrc; cases hrc
    · rw [if_neg hji] at hj; exact hL.candNotElected j ndj hj hrc vs
  · intro j ndj hj hrl
    rw [hnodes, hget] at hj; rw [helected]
    by_cases hji : j = i
    · rw [if_pos hji] at hj; cases hj; exact absurd hrl hnl
    · rw [if_neg hji] at hj; exact hL.leaderElected j ndj hj hrl
  · intro j ndj hj hrl
    rw [hnodes, hget] at hj; rw [hcanon]
    by_cases hji : j = i
    · rw [if_pos hji] at hj; cases hj; exact absurd hrl hnl
    · rw [if_neg hji] at hj; exact hL.leaderCanon j ndj hj hrl
  · intro j ndj hj
    rw [hnodes, hget] at hj; rw [hcanon]
    by_cases hji : j = i
    · rw [if_pos hji] at hj; cases hj; rw [hlog]; exact hnew
    · rw [if_neg hji] at hj; exact hL.nodeCanon j ndj hj
  · intro t; rw [hcanon]; exact hL.canonCanon t
  · intro j ndj hj e he
    rw [hnodes, hget] at hj
    apply hTE
    by_cases hji : j = i
    · rw [if_pos hji] at hj; cases hj
      rw [hlog] at he
      rcases appendLeaderEntries_mem es _ _ e he with h | h
      · exact hL.nodeEntries i nd hnd e h
      · exact hL.aeEntries src i T l pi pt es lc hmsg e h
    · rw [if_neg hji] at hj; exact hL.nodeEntries j ndj hj e he
  · intro t e he; rw [hcanon] at he; exact hTE _ (hL.canonEntries t e he)
  · intro src' dst T' l' pi' pt' es' lc' h e he
    rw [hnet] at h
    rcases List.mem_append.mp h with h | h
    · exact hTE _ (hL.aeEntries src' dst T' l' pi' pt' es' lc' h e he)
    · exact absurd rfl (hno src' dst _ h T' l' pi' pt' es' lc')
  · intro src' dst T' l' pi' pt' es' lc' h
    rw [hnet] at h
    rcases List.mem_append.mp h with h | h
    · rw [hcanon, helected]; exact hL.aeOk src' dst T' l' pi' pt' es' lc' h
    · exact absurd rfl (hno src' dst _ h T' l' pi' pt' es' lc')

/-- a candidate wins its election -/
theorem lm_setNode_elected (c : Config) (s : Sys) (i : Nat) (nd nd' : Node)
    (msgs : List (Nat × Nat × Msg)) (hL : LMInv c s)
    (hI' : Inv c (setNode s i nd' nd msgs)) (hnd : s.nodes[i]? = some nd)
    (hr : nd.role = .candidate) (hr' : nd'.role = .leader) (hterm : nd'.term = nd.term)
    (hlog : nd'.log = nd.log) (hno : NoAE msgs) : LMInv c (setNode s i nd' nd msgs) := by
  have hget : ∀ j, (s.nodes.set i nd')[j]? = if j = i then some nd' else s.nodes[j]? :=
    fun j => getElem?_set_of_some s.nodes i j nd nd' hnd
  have hnodes : (setNode s i nd' nd msgs).nodes = s.nodes.set i nd' := rfl
  have hnet : (setNode s i nd' nd msgs).net = s.net ++ msgs := rfl
  have hghost : ∀ x, x ∈ s.ghost → x ∈ (setNode s i nd' nd msgs).ghost :=
    fun x hx => List.mem_append_left _ hx
  have hcanon : (setNode s i nd' nd msgs).canon =
      fun t => if t = nd.term then nd.log else s.canon t := by
    simp only [setNode]; rw [if_pos hr', hterm, hlog]
  have hnl : nd.role ≠ .leader := by rw [hr]; intro h; cases h
  have helected : (setNode s i nd' nd msgs).elected = s.elected ++ [(nd.term, i, nd'.votes)] := by
    simp only [setNode]; rw [if_pos ⟨hnl, hr'⟩, hterm]
  have hnode' : (setNode s i nd' nd msgs).nodes[i]? = some nd' := by rw [hnodes, hget]; simp
  -- the new leader's recorded quorum
  have hq := hI'.votesOk i nd' hnode' (by rw [hr']; intro h; cases h)
  have hq' : nd'.votes.Nodup ∧ c.quorum ≤ nd'.votes.length ∧
      ∀ v ∈ nd'.votes, (v, nd.term, i) ∈ (setNode s i nd' nd msgs).ghost := by
    refine ⟨hq.2.1, hq.2.2 hr', ?_⟩
    intro v hv; have := hq.1 v hv; rw [hterm] at this; exact this
  -- no election had been won in this term before
  have hNoT : ¬ TermElected s nd.term := by
    rintro ⟨j, vs, hj⟩
    obtain ⟨a, b, d⟩ := hL.electedOk nd.term j vs hj
    have hji : j = i :=
      quorum_unique c _ hI' nd.term j i vs nd'.votes ⟨a, b, fun v hv => hghost _ (d v hv)⟩ hq'
    subst hji
    exact hL.candNotElected j nd hnd hr vs hj
  have hmono : ∀ x, x ∈ s.elected → x ∈ (setNode s i nd' nd msgs).elected := by
    intro x hx; rw [helected]; exact List.mem_append_left _ hx
  have hTE : ∀ t, TermElected s t → TermElected (setNode s i nd' nd msgs) t :=
    fun t ht => termElected_mono s _ hmono t ht
  have hfresh : ∀ l, Canon s.canon l → (∀ e ∈ l, TermElected s e.term) →
      Canon (fun t => if t = nd.term then nd.log else s.canon t) l := by
    intro l hl hel
    apply canon_fresh s.canon nd.term nd.log l hl
    intro e he heq
    exact hNoT (heq ▸ hel e he)
  refine ⟨?_, ?_, ?_, ?_, ?_, ?_, ?_, ?_, ?_, ?_, ?_⟩
  · intro t j vs h
    rw [helected] at h
    rcases List.mem_append.mp h with h | h
    · obtain ⟨a, b, d⟩ := hL.electedOk t j vs h
      exact ⟨a, b, fun v hv => hghost _ (d v hv)⟩
    · simp only [List.mem_singleton, Prod.mk.injEq] at h
      obtain ⟨rfl, rfl, rfl⟩ := h
      exact hq'
  · intro t j vs h
    rw [helected] at h
    rw [hnodes, hget]
    rcases List.mem_append.mp h with h | h
    · obtain ⟨ndj, hj, hle⟩ := hL.electedTerm t j vs h
      by_cases hji : j = i
      · subst hji; rw [hnd] at hj; cases hj
        exact ⟨nd', by simp, by rw [hterm]; exact hle⟩
      · exact ⟨ndj, by rw [if_neg hji]; exact hj, hle⟩
    · simp only [List.mem_singleton, Prod.mk.injEq] at h
      obtain ⟨rfl, rfl, rfl⟩ := h
      exact ⟨nd', by simp, by rw [hterm]⟩
  · intro j ndj hj hrc vs
    rw [hnodes, hget] at hj; rw [helected]
    by_cases hji : j = i
    · rw [if_pos hji] at hj; cases hj; rw [hr'] at hrc; cases hrc
    · rw [if_neg hji] at hj
      intro hmem
      rcases List.mem_append.mp hmem with h | h
      · exact hL.candNotElected j ndj hj hrc vs h
      · simp only [List.mem_singleton, Prod.mk.injEq] at h
        exact hji h.2.1
  · intro j ndj hj hrl
    rw [hnodes, hget] at hj; rw [helected]
    by_cases hji : j = i
    · rw [if_pos hji] at hj; cases hj; subst hji
      exact ⟨nd'.votes, by rw [hterm]; exact List.mem_append_right _ (by simp)⟩
    · rw [if_neg hji] at hj
      obtain ⟨vs, hvs⟩ := hL.leaderElected j ndj hj hrl
      exact ⟨vs, List.mem_append_left _ hvs⟩
  · intro j ndj hj hrl
    rw [hnodes, hget] at hj; rw [hcanon]
    by_cases hji : j = i
    · rw [if_pos hji] at hj; cases hj
      show nd'.log = if nd'.term = nd.term then nd.log else s.canon nd'.term
      rw [if_pos hterm, hlog]
    · rw [if_neg hji] at hj
      have hne : ndj.term ≠ nd.term := by
        intro heq
        obtain ⟨vs, hvs⟩ := hL.leaderElected j ndj hj hrl
        exact hNoT ⟨j, vs, heq ▸ hvs⟩
      simp only [hne, if_false]
      exact hL.leaderCanon j ndj hj hrl
  · intro j ndj hj
    rw [hnodes, hget] at hj; rw [hcanon]
    by_cases hji : j = i
    · rw [if_pos hji] at hj; cases hj; rw [hlog]
      exact hfresh _ (hL.nodeCanon i nd hnd) (hL.nodeEntries i nd hnd)
    · rw [if_neg hji] at hj
      exact hfresh _ (hL.nodeCanon j ndj hj) (hL.nodeEntries j ndj hj)
  · intro t; rw [hcanon]
    by_cases ht : t = nd.term
    · simp only [ht, if_true]
      exact hfresh _ (hL.nodeCanon i nd hnd) (hL.nodeEntries i nd hnd)
    · simp only [ht, if_false]
      exact hfresh _ (hL.canonCanon t) (hL.canonEntries t)
  · intro j ndj hj e he
    rw [hnodes, hget] at hj
    apply hTE
    by_cases hji : j = i
    · rw [if_pos hji] at hj; cases hj; rw [hlog] at he; exact hL.nodeEntries i nd hnd e he
    · rw [if_neg hji] at hj; exact hL.nodeEntries j ndj hj e he
  · intro t e he
    rw [hcanon] at he
    apply hTE
    by_cases ht : t = nd.term
    · simp only [ht, if_true] at he; exact hL.nodeEntries i nd hnd e he
    · simp only [ht, if_false] at he; exact hL.canonEntries t e he
  · intro src dst T l pi pt es lc h e he
    rw [hnet] at h
    rcases List.mem_append.mp h with h | h
    · exact hTE _ (hL.aeEntries src dst T l pi pt es lc h e he)
    · exact absurd rfl (hno src dst _ h T l pi pt es lc)
  · intro src dst T l pi pt es lc h
    rw [hnet] at h
    rcases List.mem_append.mp h with h | h
    · obtain ⟨a, b, ⟨vs, hvs⟩, f, g⟩ := hL.aeOk src dst T l pi pt es lc h
      have hne : T ≠ nd.term := by
        intro heq; exact hNoT ⟨l, vs, heq ▸ hvs⟩
      rw [hcanon]
      simp only [hne, if_false]
      exact ⟨a, b, ⟨vs, hmono _ hvs⟩, f, g⟩
    · exact absurd rfl (hno src dst _ h T l pi pt es lc)

/-- any handler transition that leaves the log alone -/
theorem lm_of_trans_logsame (c : Config) (s : Sys) (i : Nat) (nd nd' : Node) (g : Option Nat)
    (msgs : List (Nat × Nat × Msg)) (hL : LMInv c s)
    (hI' : Inv c (setNode s i nd' nd msgs)) (hnd : s.nodes[i]? = some nd)
    (ht : NodeTrans c nd nd' g) (hlog : nd'.log = nd.log) (hno : NoAE msgs) :
    LMInv c (setNode s i nd' nd msgs) := by
  rcases ht.shape with sh | sh | sh | sh
  · exact lm_setNode_quiet c s i nd nd' msgs hL hnd hlog ht.term_le
      (fun h => by rw [sh] at h; cases h) (fun h => by rw [sh] at h; cases h) hno
  · exact lm_setNode_quiet c s i nd nd' msgs hL hnd hlog ht.term_le
      (fun h => ⟨by rw [← sh.1]; exact h, sh.2.1⟩)
      (fun h => Or.inl ⟨by rw [← sh.1]; exact h, sh.2.1⟩) hno
  · exact lm_setNode_quiet c s i nd nd' msgs hL hnd hlog ht.term_le
      (fun h => by rw [sh.1] at h; cases h) (fun _ => Or.inr sh.2.2.2) hno
  · obtain ⟨hr, hterm, _, hr'⟩ := sh
    rcases hr' with hc | hl
    · exact lm_setNode_quiet c s i nd nd' msgs hL hnd hlog ht.term_le
        (fun h => by rw [hc] at h; cases h) (fun _ => Or.inl ⟨hr, hterm⟩) hno
    · exact lm_setNode_elected c s i nd nd' msgs hL hI' hnd hr hl.1 hterm hlog hno

theorem noAE_nil : NoAE [] := by intro a b m h; simp at h

theorem noAE_broadcast (c : Config) (src : Nat) (m : Msg)
    (hm : ∀ t l pi pt es lc, m ≠ Msg.appendEntries t l pi pt es lc) : NoAE (broadcast c src m) := by
  intro a b m' h
  obtain ⟨_, hm'⟩ := mem_broadcast c src m a b m' h
  rw [hm']; exact hm

/-- no handler ever emits an AppendEntries (only `send_heartbeats` / replication does) -/
theorem deliver_out_noAE (c : Config) (nd : Node) (src : Nat) (m : Msg) (b1 b2 b3 : Bool) (out : Msg)
    (h : (deliver c nd src m b1 b2 b3).2 = some out) :
    ∀ t l pi pt es lc, out ≠ Msg.appendEntries t l pi pt es lc := by
  intro t l pi pt es lc heq
  subst heq
  cases m with
  | requestVote t' cand li lt =>
    simp only [deliver, handleRequestVote_eq] at h
    split at h <;> simp at h
  | requestVoteResp t' gr v => simp [deliver] at h
  | preVote t' cand li lt =>
    simp only [deliver, handlePreVote] at h
    split at h
    · split at h <;> simp at h
    · simp at h
  | preVoteResp t' gr v =>
    simp only [deliver, handlePreVoteResp] at h
    split at h
    · simp at h
    · split at h
      · simp at h
      · split at h
        · split at h
          · simp at h
          · split at h
            · simp [startElection] at h
            · simp at h
        · simp at h
  | appendEntries t' l' pi' pt' es' lc' =>
    simp only [deliver, handleAppendEntries] at h
    split at h
    · split at h
      · simp [aeAccept] at h
      · simp at h
    · simp at h
  | appendEntriesResp t' sc f mi => simp [deliver] at h
  | timeoutNow t' l' =>
    simp only [deliver, handleTimeoutNow] at h
    split at h
    · simp at h
    · split at h
      · simp at h
      · simp [startElection] at h

theorem noAE_route (c : Config) (nd : Node) (src dst : Nat) (m : Msg) (b1 b2 b3 : Bool) :
    NoAE (route c dst src (deliver c nd src m b1 b2 b3).2) := by
  cases hout : (deliver c nd src m b1 b2 b3).2 with
  | none => simp [route]; exact noAE_nil
  | some out =>
    have hno := deliver_out_noAE c nd src m b1 b2 b3 out hout
    cases out with
    | requestVote t cand li lt =>
      simp only [route]
      exact noAE_broadcast c dst _ (by intro _ _ _ _ _ _ h; cases h)
    | appendEntries t l pi pt es lc => exact absurd rfl (hno t l pi pt es lc)
    | requestVoteResp t g v =>
      intro a b m' h; simp only [route, List.mem_singleton, Prod.mk.injEq] at h
      rw [h.2.2]; intro _ _ _ _ _ _ h'; cases h'
    | preVote t cand li lt =>
      intro a b m' h; simp only [route, List.mem_singleton, Prod.mk.injEq] at h
      rw [h.2.2]; intro _ _ _ _ _ _ h'; cases h'
    | preVoteResp t g v =>
      intro a b m' h; simp only [route, List.mem_singleton, Prod.mk.injEq] at h
      rw [h.2.2]; intro _ _ _ _ _ _ h'; cases h'
    | appendEntriesResp t sc f mi =>
      intro a b m' h; simp only [route, List.mem_singleton, Prod.mk.injEq] at h
      rw [h.2.2]; intro _ _ _ _ _ _ h'; cases h'
    | timeoutNow t l =>
      intro a b m' h; simp only [route, List.mem_singleton, Prod.mk.injEq] at h
      rw [h.2.2]; intro _ _ _ _ _ _ h'; cases h'

/-- **Every step preserves the Log Matching invariant.** -/
theorem lm_step (c : Config) (s : Sys) (st : Step) (hI : Inv c s) (hL : LMInv c s) :
    LMInv c (sysStep c s st) := by
  have hI' := inv_step c s st hI
  cases st with
  | timeout i =>
    simp only [sysStep] at hI' ⊢
    cases hnd : s.nodes[i]? with
    | none => exact hL
    | some nd =>
      rw [hnd] at hI'
      simp only [] at hI' ⊢
      exact lm_of_trans_logsame c s i nd _ none _ hL hI' hnd (startElection_trans c nd none) rfl
        (noAE_broadcast c i _ (by intro _ _ _ _ _ _ h; simp [startElection] at h))
  | preVote i =>
    simp only [sysStep] at hI' ⊢
    cases hnd : s.nodes[i]? with
    | none => exact hL
    | some nd =>
      rw [hnd] at hI'
      simp only [] at hI' ⊢
      exact lm_of_trans_logsame c s i nd _ none _ hL hI' hnd (startPreVote_trans c nd none) rfl
        (noAE_broadcast c i _ (by intro _ _ _ _ _ _ h; simp [startPreVote] at h))
  | deliver k h1 h2 h3 =>
    simp only [sysStep] at hI' ⊢
    cases hk : s.net[k]? with
    | none => exact hL
    | some x =>
      obtain ⟨src, dst, m⟩ := x
      rw [hk] at hI'
      simp only [] at hI' ⊢
      have hmem : (src, dst, m) ∈ s.net := List.mem_of_getElem? hk
      cases hnd : s.nodes[dst]? with
      | none => exact hL
      | some nd =>
        rw [hnd] at hI'
        simp only [] at hI' ⊢
        have hno := noAE_route c nd src dst m h1 h2 h3
        have htr := deliver_trans c nd src m h1 h2 h3
        by_cases hae : ∃ t l pi pt es lc, m = Msg.appendEntries t l pi pt es lc
        · obtain ⟨t, l, pi, pt, es, lc, rfl⟩ := hae
          have hl := handleAppendEntries_log nd t l pi pt es lc
          have hdl : (deliver c nd src (Msg.appendEntries t l pi pt es lc) h1 h2 h3).1
              = (handleAppendEntries nd t l pi pt es lc).1 := rfl
          rcases hl.1 with hsame | ⟨hle, hok, hacc⟩
          · exact lm_of_trans_logsame c s dst nd _ _ _ hL hI' hnd htr (by rw [hdl]; exact hsame) hno
          · exact lm_setNode_accept c s dst nd _ _ src t l pi pt es lc hL hnd hmem hok
              (by rw [hdl]; exact hacc) htr.term_le (by rw [hdl]; exact hl.2 hle) hno
        · have hlog := deliver_log_other c nd src m h1 h2 h3
            (by intro t l pi pt es lc h; exact hae ⟨t, l, pi, pt, es, lc, h⟩)
          exact lm_of_trans_logsame c s dst nd _ _ _ hL hI' hnd htr hlog hno
  | propose i p a =>
    simp only [sysStep] at hI' ⊢
    cases hnd : s.nodes[i]? with
    | none => exact hL
    | some nd =>
      rw [hnd] at hI'
      simp only [] at hI' ⊢
      rcases propose_log nd p a with h | ⟨hr, h⟩
      · rw [h] at hI' ⊢
        exact lm_of_trans_logsame c s i nd nd none [] hL hI' hnd (NodeTrans.refl c nd none) rfl noAE_nil
      · rw [h]; exact lm_setNode_propose c s i nd p hI hL hnd hr
  | replicate i j =>
    simp only [sysStep] at hI' ⊢
    split
    · exact hL
    · rename_i hji
      cases hnd : s.nodes[i]? with
      | none => exact hL
      | some nd =>
        simp only []
        cases hae : appendEntriesFor nd j with
        | none => exact hL
        | some m =>
          simp only []
          obtain ⟨hr, pi, pt, es, rfl, hseg, hpt⟩ := appendEntriesFor_spec nd j m hae
          have hid : nd.id = i := hI.ids i nd hnd
          have hlc := hL.leaderCanon i nd hnd hr
          obtain ⟨vs, hvs⟩ := hL.leaderElected i nd hnd hr
          refine ⟨hL.electedOk, hL.electedTerm, hL.candNotElected, hL.leaderElected, hL.leaderCanon,
            hL.nodeCanon, hL.canonCanon, hL.nodeEntries, hL.canonEntries, ?_, ?_⟩
          · intro src dst T l pi' pt' es' lc' h e he
            rcases List.mem_append.mp h with h | h
            · exact hL.aeEntries src dst T l pi' pt' es' lc' h e he
            · simp only [List.mem_singleton, Prod.mk.injEq, Msg.appendEntries.injEq] at h
              obtain ⟨_, _, _, _, _, _, hes, _⟩ := h
              rw [hes] at he
              apply hL.nodeEntries i nd hnd e
              have : e ∈ nd.log.take (pi + es.length) := by
                rw [← hseg]; exact List.mem_append_right _ he
              exact List.mem_of_mem_take this
          · intro src dst T l pi' pt' es' lc' h
            rcases List.mem_append.mp h with h | h
            · exact hL.aeOk src dst T l pi' pt' es' lc' h
            · simp only [List.mem_singleton, Prod.mk.injEq, Msg.appendEntries.injEq] at h
              obtain ⟨hs, hd, hT, hl, hpi, hpt', hes, _⟩ := h
              subst hs hd hT hl hpi hpt' hes
              refine ⟨hid.symm, hji, ⟨vs, by rw [hid]; exact hvs⟩, ?_, ?_⟩
              · rw [← hlc]; exact hseg
              · rw [← hlc]; exact hpt
  | crash i =>
    simp only [sysStep] at hI' ⊢
    cases hnd : s.nodes[i]? with
    | none => exact hL
    | some nd =>
      rw [hnd] at hI'
      simp only [] at hI' ⊢
      exact lm_of_trans_logsame c s i nd _ none [] hL hI' hnd (crash_trans c nd none) rfl noAE_nil

theorem lm_run (c : Config) (s : Sys) (steps : List Step) (hI : Inv c s) (hL : LMInv c s) :
    LMInv c (run c s steps) := by
  induction steps generalizing s with
  | nil => exact hL
  | cons st rest ih => exact ih (sysStep c s st) (inv_step c s st hI) (lm_step c s st hI hL)

end Neumann.Raft
