import NeumannModel.Raft.Complete2
/-
  C01 — Leader Completeness, derived from the invariants of `Complete2.lean`:
  once the first `N` entries of term `T`'s log are acknowledged by a quorum and entry `N` is of
  term `T`, every election ever won in a later term started from a log with those entries.
-/
namespace Neumann.Raft

theorem lastTerm_nil : lastTerm ([] : List Entry) = 0 := rfl

theorem lastTerm_spec (l : List Entry) (h : l ≠ []) :
    ∃ e, l[l.length - 1]? = some e ∧ lastTerm l = e.term := by
  unfold lastTerm
  have hlast := List.getLast?_eq_getElem? (l := l)
  cases hg : l.getLast? with
  | none =>
    rw [List.getLast?_eq_none_iff] at hg
    exact absurd hg h
  | some e =>
    refine ⟨e, ?_, rfl⟩
    rw [← hlast, hg]

/-- a canonical log is a prefix of the canonical log of its last term -/
theorem canon_is_prefix (cn : Nat → List Entry) (l : List Entry) (hc : Canon cn l) (h : l ≠ []) :
    l = (cn (lastTerm l)).take l.length := by
  obtain ⟨e, he, ht⟩ := lastTerm_spec l h
  have := hc (l.length - 1) e he
  have hpos : 0 < l.length := List.length_pos_iff.mpr h
  rw [show l.length - 1 + 1 = l.length by omega, List.take_of_length_le (Nat.le_refl _)] at this
  rw [ht]; exact this

/-- in `a ++ y` with all of `a` older than `t`, an entry of term `t` lies in `y` -/
theorem pos_ge_of_term (a y : List Entry) (t p : Nat) (e : Entry)
    (ha : ∀ x ∈ a, x.term < t) (he : (a ++ y)[p]? = some e) (het : e.term = t) : a.length ≤ p := by
  rcases Nat.lt_or_ge p a.length with h | h
  · rw [List.getElem?_append_left h] at he
    have := ha e (List.mem_of_getElem? he)
    omega
  · exact h

/-- the first `N` entries of term `T`'s log are acknowledged by a quorum, entry `N` is of term `T` -/
def Durable (c : Config) (s : Sys) (T N : Nat) : Prop :=
  0 < N ∧ (∃ e, (s.canon T)[N - 1]? = some e ∧ e.term = T) ∧
  ∃ Q : List Nat, Q.Nodup ∧ c.quorum ≤ Q.length ∧ ∀ f ∈ Q, AckLike s T f N

theorem leader_completeness_of_inv (c : Config) (s : Sys) (hI : Inv c s) (hL : LMInv c s)
    (hC : CInv c s) (hE : EInv c s) (hF : FInv c s) (T N : Nat) (hD : Durable c s T N) :
    ∀ (U j : Nat) (vs : List Nat), (U, j, vs) ∈ s.elected → T < U →
      (s.elog U).take N = (s.canon T).take N := by
  obtain ⟨hN0, ⟨eN, heN, heNt⟩, Q, hQn, hQq, hQa⟩ := hD
  have hNle : N ≤ (s.canon T).length := by have := getElem?_lt _ _ eN heN; omega
  intro U
  induction U using Nat.strongRecOn with
  | _ U ih =>
    intro j vs hel hTU
    -- a voter of U that also acknowledged (T, N)
    obtain ⟨hvn, hvq, hvg⟩ := hL.electedOk U j vs hel
    have hvb : ∀ v ∈ vs, v < c.n := by
      intro v hv
      obtain ⟨ndv, hndv, _, _⟩ := hI.ghostNode v U j (hvg v hv)
      rw [← hI.len]; exact getElem?_lt _ _ _ hndv
    have hQb : ∀ f ∈ Q, f < c.n := by
      intro f hf
      obtain ⟨ndf, hndf, _⟩ := ackLike_term c s hL hC T f N (hQa f hf)
      rw [← hI.len]; exact getElem?_lt _ _ _ hndf
    have hq : c.n < Q.length + vs.length := by unfold Config.quorum at *; omega
    obtain ⟨f, hfQ, hfv⟩ := nodup_lists_intersect c.n Q vs hQn hvn hQb hvb hq
    obtain ⟨vlog, hrec⟩ := hE.electedVoters U j vs hel f hfv
    have hup := hF.voteUpToDate f U j vlog false hrec
    rw [← hF.electedStart U j vs hel] at hup
    -- the voter's log at vote time carries the prefix
    have hvpre : vlog.take N = (s.canon T).take N := by
      rcases hF.core f U j vlog T N hrec (hQa f hfQ) hTU hN0 with h | ⟨U', j', vs', hU', h1, h2, h3⟩
      · exact h
      · exact absurd (ih U' h2 j' vs' hU' h1) h3
    have hvlen : N ≤ vlog.length := by
      have := congrArg List.length hvpre
      simp only [List.length_take] at this; omega
    have hvN : vlog[N - 1]? = some eN := by
      have h1 : (vlog.take N)[N - 1]? = ((s.canon T).take N)[N - 1]? := by rw [hvpre]
      rw [List.getElem?_take, List.getElem?_take, if_pos (by omega), if_pos (by omega)] at h1
      rw [h1]; exact heN
    obtain ⟨hvcanon, hvel⟩ := hE.vlogCanon f U j vlog false hrec
    have hvne : vlog ≠ [] := by intro h; rw [h] at hvlen; simp at hvlen; omega
    -- T ≤ lastTerm vlog
    have hTlt : T ≤ lastTerm vlog := by
      have hpre := canon_is_prefix s.canon vlog hvcanon hvne
      obtain ⟨el, hel', hlt⟩ := lastTerm_spec vlog hvne
      have hltE : TermElected s (lastTerm vlog) := by rw [hlt]; exact hvel el (List.mem_of_getElem? hel')
      obtain ⟨jl, vsl, hjl⟩ := hltE
      have hEl := hE.elogOk _ jl vsl hjl
      obtain ⟨y, hy, hyt⟩ := hEl.ext
      -- eN sits in canon (lastTerm vlog) at position N-1
      have hin : (s.canon (lastTerm vlog))[N - 1]? = some eN := by
        have : (vlog)[N - 1]? = ((s.canon (lastTerm vlog)).take vlog.length)[N - 1]? := by rw [← hpre]
        rw [List.getElem?_take, if_pos (by omega)] at this
        rw [← this]; exact hvN
      rw [hy] at hin
      rcases Nat.lt_or_ge (N - 1) (s.elog (lastTerm vlog)).length with h | h
      · rw [List.getElem?_append_left h] at hin
        have := hEl.old eN (List.mem_of_getElem? hin); omega
      · rw [List.getElem?_append_right h] at hin
        have := hyt eN (List.mem_of_getElem? hin); omega
    -- the election log
    have hEU := hE.elogOk U j vs hel
    obtain ⟨yU, hyU, _⟩ := hEU.ext
    have hEcanon : Canon s.canon (s.elog U) := by
      have := canon_take s.canon (s.canon U) (s.elog U).length (hL.canonCanon U)
      rw [hyU, List.take_append_of_le_length (Nat.le_refl _), List.take_of_length_le (Nat.le_refl _)] at this
      exact this
    have hT1 : 1 ≤ T := by
      obtain ⟨jT, vsT, hjT⟩ := ackLike_elected c s hC T f N (hQa f hfQ)
      exact (hE.elogOk T jT vsT hjT).pos
    have hEne : s.elog U ≠ [] := by
      intro h
      unfold UpToDate at hup
      rw [h, lastTerm_nil] at hup
      rcases hup with h1 | ⟨h1, _⟩ <;> omega
    obtain ⟨eE, heE, hltE⟩ := lastTerm_spec (s.elog U) hEne
    have hEpre := canon_is_prefix s.canon (s.elog U) hEcanon hEne
    have hltEge : T ≤ lastTerm (s.elog U) := by
      unfold UpToDate at hup
      rcases hup with h1 | ⟨h1, _⟩ <;> omega
    rcases Nat.lt_or_ge T (lastTerm (s.elog U)) with hgt | hle
    · -- last term of the election log is a later elected term T' < U: use the induction hypothesis
      have hT'U : lastTerm (s.elog U) < U := by
        rw [hltE]; exact hEU.old eE (List.mem_of_getElem? heE)
      have hT'el : TermElected s (lastTerm (s.elog U)) := by
        rw [hltE]
        apply hL.canonEntries U eE
        rw [hyU]; exact List.mem_append_left _ (List.mem_of_getElem? heE)
      obtain ⟨j', vs', hj'⟩ := hT'el
      have hih := ih _ hT'U j' vs' hj' hgt
      have hEl' := hE.elogOk _ j' vs' hj'
      obtain ⟨y', hy', _⟩ := hEl'.ext
      have hNel : N ≤ (s.elog (lastTerm (s.elog U))).length := by
        have := congrArg List.length hih
        simp only [List.length_take] at this; omega
      -- eE lies beyond the election log of its term
      have hpos : (s.elog (lastTerm (s.elog U))).length ≤ (s.elog U).length - 1 := by
        have hin : (s.canon (lastTerm (s.elog U)))[(s.elog U).length - 1]? = some eE := by
          have : (s.elog U)[(s.elog U).length - 1]? =
              ((s.canon (lastTerm (s.elog U))).take (s.elog U).length)[(s.elog U).length - 1]? := by
            rw [← hEpre]
          have hp : 0 < (s.elog U).length := List.length_pos_iff.mpr hEne
          rw [List.getElem?_take, if_pos (by omega)] at this
          rw [← this]; exact heE
        rw [hy'] at hin
        exact pos_ge_of_term _ y' _ _ eE hEl'.old hin hltE.symm
      have hp : 0 < (s.elog U).length := List.length_pos_iff.mpr hEne
      rw [hEpre, List.take_take, Nat.min_eq_left (by omega), hy',
        List.take_append_of_le_length hNel]
      exact hih
    · -- last term of the election log is T itself
      have hltEq : lastTerm (s.elog U) = T := by omega
      have hlen : vlog.length ≤ (s.elog U).length := by
        unfold UpToDate at hup
        rcases hup with h1 | ⟨_, h2⟩
        · omega
        · exact h2
      rw [hEpre, hltEq, List.take_take, Nat.min_eq_left (by omega)]

end Neumann.Raft
