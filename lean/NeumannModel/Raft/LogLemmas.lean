import NeumannModel.Raft.Model
/-
  List-level lemmas for Log Matching (C01): the "canonical log per term" argument.
  `cn t` is the log of the leader of term `t`.  A log is `Canon` when every entry of term `t`
  in it sits on a prefix of `cn t`.  Two `Canon` logs that agree on the term at a position are
  equal up to that position — that is Log Matching.
-/
namespace Neumann.Raft

def Canon (cn : Nat → List Entry) (l : List Entry) : Prop :=
  ∀ (k : Nat) (e : Entry), l[k]? = some e → l.take (k + 1) = (cn e.term).take (k + 1)

theorem canon_nil (cn : Nat → List Entry) : Canon cn [] := by
  intro k e h; simp at h

/-- **Log Matching from canonicity** -/
theorem canon_match (cn : Nat → List Entry) (a b : List Entry) (ha : Canon cn a) (hb : Canon cn b)
    (k : Nat) (ea eb : Entry) (h1 : a[k]? = some ea) (h2 : b[k]? = some eb) (ht : ea.term = eb.term) :
    a.take (k + 1) = b.take (k + 1) := by
  rw [ha k ea h1, hb k eb h2, ht]

theorem canon_take (cn : Nat → List Entry) (l : List Entry) (m : Nat) (h : Canon cn l) :
    Canon cn (l.take m) := by
  intro k e hk
  rw [List.getElem?_take] at hk
  split at hk
  · rename_i hkm
    rw [List.take_take, Nat.min_eq_left (by omega)]
    exact h k e hk
  · cases hk

theorem getElem?_lt {α : Type} (l : List α) (k : Nat) (e : α) (h : l[k]? = some e) : k < l.length := by
  rcases Nat.lt_or_ge k l.length with h' | h'
  · exact h'
  · rw [List.getElem?_eq_none h'] at h; cases h

/-- extending one canonical log at its end keeps every log canonical -/
theorem canon_extend (cn : Nat → List Entry) (T : Nat) (L' : List Entry) (x : List Entry)
    (hL : L' = cn T ++ x) (l : List Entry) (h : Canon cn l) :
    Canon (fun t => if t = T then L' else cn t) l := by
  intro k e hk
  have hold := h k e hk
  by_cases ht : e.term = T
  · simp only [ht, if_true]
    rw [hold, ht, hL]
    have hlen : k + 1 ≤ (cn T).length := by
      have h1 : (l.take (k + 1)).length = k + 1 := by
        rw [List.length_take]; have := getElem?_lt l k e hk; omega
      rw [hold, ht, List.length_take] at h1
      omega
    rw [List.take_append_of_le_length hlen]
  · simp only [ht, if_false]; exact hold

/-- a term with no entry anywhere may be given any canonical log -/
theorem canon_fresh (cn : Nat → List Entry) (T : Nat) (L' : List Entry) (l : List Entry)
    (h : Canon cn l) (hno : ∀ e ∈ l, e.term ≠ T) :
    Canon (fun t => if t = T then L' else cn t) l := by
  intro k e hk
  have hne : e.term ≠ T := hno e (List.mem_of_getElem? hk)
  simp only [hne, if_false]
  exact h k e hk

theorem canon_snoc (cn : Nat → List Entry) (l : List Entry) (e : Entry)
    (h : Canon cn l) (he : cn e.term = l ++ [e]) : Canon cn (l ++ [e]) := by
  intro k e' hk
  by_cases hkl : k < l.length
  · rw [List.getElem?_append_left hkl] at hk
    rw [List.take_append_of_le_length (by omega)]
    exact h k e' hk
  · have hk' := getElem?_lt _ k e' hk
    simp only [List.length_append, List.length_singleton] at hk'
    have hkeq : k = l.length := by omega
    subst hkeq
    rw [List.getElem?_append_right (by omega)] at hk
    simp only [Nat.sub_self, List.getElem?_cons_zero, Option.some.injEq] at hk
    subst hk
    rw [he]

/-! ### `append_leader_entries` keeps canonicity -/

/-- invariant of the loop: the log built so far is canonical and agrees with the leader's
    canonical prefix `M` before position `idx` -/
theorem appendLeaderEntries_canon (cn : Nat → List Entry) (M : List Entry) (hM : Canon cn M) :
    ∀ (es : List Entry) (c : List Entry) (idx : Nat),
      1 ≤ idx → Canon cn c → c.take (idx - 1) = M.take (idx - 1) →
      M.drop (idx - 1) = es →
      Canon cn (appendLeaderEntries c idx es) := by
  intro es
  induction es with
  | nil => intro c idx _ hc _ _; simpa [appendLeaderEntries] using hc
  | cons e es ih =>
    intro c idx hidx hc hpre hdrop
    have hMidx : M[idx - 1]? = some e := by
      have := congrArg (fun l => l[0]?) hdrop
      simpa [List.getElem?_drop] using this
    have hMlt : idx - 1 < M.length := getElem?_lt M _ e hMidx
    have hMtake : M.take idx = M.take (idx - 1) ++ [e] := by
      have h1 : idx = (idx - 1) + 1 := by omega
      conv => lhs; rw [h1]
      rw [List.take_add_one, hMidx]; simp
    have hdrop' : M.drop (idx + 1 - 1) = es := by
      have : M.drop (idx - 1 + 1) = es := by
        rw [← List.drop_drop, hdrop]; simp
      rw [show idx + 1 - 1 = idx - 1 + 1 by omega]; exact this
    have hMcanon : Canon cn (M.take idx) := canon_take cn M idx hM
    rw [appendLeaderEntries]
    by_cases hgt : idx > c.length
    · rw [if_pos hgt]
      -- c = M.take (idx-1)
      have hclen : c.length = idx - 1 := by
        have h1 := congrArg List.length hpre
        rw [List.length_take, List.length_take] at h1
        omega
      have hceq : c = M.take (idx - 1) := by
        rw [← hpre, List.take_of_length_le (by omega)]
      apply ih (c ++ [e]) (idx + 1) (by omega)
      · rw [hceq, ← hMtake]; exact hMcanon
      · rw [show idx + 1 - 1 = idx by omega, hceq, ← hMtake, List.take_take, Nat.min_self]
      · exact hdrop'
    · rw [if_neg hgt]
      have hclt : idx - 1 < c.length := by omega
      have hcget : c[idx - 1]? = some (c[idx - 1]'hclt) := List.getElem?_eq_getElem hclt
      rw [hcget]
      simp only []
      by_cases hterm : (c[idx - 1]'hclt).term ≠ e.term
      · rw [if_pos hterm]
        apply ih (c.take (idx - 1) ++ [e]) (idx + 1) (by omega)
        · rw [hpre, ← hMtake]; exact hMcanon
        · rw [show idx + 1 - 1 = idx by omega, hpre, ← hMtake, List.take_take, Nat.min_self]
        · exact hdrop'
      · rw [if_neg hterm]
        have hteq : (c[idx - 1]'hclt).term = e.term := Decidable.of_not_not hterm
        apply ih c (idx + 1) (by omega) hc
        · rw [show idx + 1 - 1 = idx by omega]
          have h1 := hc (idx - 1) _ hcget
          have h2 := hM (idx - 1) e hMidx
          rw [show idx - 1 + 1 = idx by omega] at h1 h2
          rw [h1, h2, hteq]
        · exact hdrop'

theorem appendLeaderEntries_mem (es : List Entry) : ∀ (c : List Entry) (idx : Nat) (e : Entry),
    e ∈ appendLeaderEntries c idx es → e ∈ c ∨ e ∈ es := by
  induction es with
  | nil => intro c idx e h; left; simpa [appendLeaderEntries] using h
  | cons x xs ih =>
    intro c idx e h
    rw [appendLeaderEntries] at h
    split at h
    · rcases ih _ _ e h with h1 | h1
      · rcases List.mem_append.mp h1 with h2 | h2
        · exact Or.inl h2
        · right; simp only [List.mem_singleton] at h2; subst h2; exact List.mem_cons_self
      · exact Or.inr (List.mem_cons_of_mem _ h1)
    · split at h
      · split at h
        · rcases ih _ _ e h with h1 | h1
          · rcases List.mem_append.mp h1 with h2 | h2
            · exact Or.inl (List.mem_of_mem_take h2)
            · right; simp only [List.mem_singleton] at h2; subst h2; exact List.mem_cons_self
          · exact Or.inr (List.mem_cons_of_mem _ h1)
        · rcases ih _ _ e h with h1 | h1
          · exact Or.inl h1
          · exact Or.inr (List.mem_cons_of_mem _ h1)
      · rcases ih _ _ e h with h1 | h1
        · exact Or.inl h1
        · exact Or.inr (List.mem_cons_of_mem _ h1)

/-- the leader-segment property of an AppendEntries survives appending to the canonical log -/
theorem ae_seg_extend (L x es : List Entry) (pi pt : Nat)
    (h1 : L.take pi ++ es = L.take (pi + es.length)) (h2 : pi = 0 ∨ termAt L pi = some pt) :
    (L ++ x).take pi ++ es = (L ++ x).take (pi + es.length) ∧
    (pi = 0 ∨ termAt (L ++ x) pi = some pt) := by
  have hpi : pi ≤ L.length := by
    rcases h2 with h | h
    · omega
    · unfold termAt at h
      split at h
      · cases h
      · cases hg : L[pi - 1]? with
        | none => rw [hg] at h; cases h
        | some e => have := getElem?_lt L _ e hg; omega
  have hlen : pi + es.length ≤ L.length := by
    have := congrArg List.length h1
    simp only [List.length_append, List.length_take] at this
    omega
  refine ⟨?_, ?_⟩
  · rw [List.take_append_of_le_length hpi, List.take_append_of_le_length hlen]; exact h1
  · rcases h2 with h | h
    · exact Or.inl h
    · right
      unfold termAt at h ⊢
      split
      · rename_i h0; rw [if_pos h0] at h; cases h
      · rename_i h0; rw [if_neg h0] at h
        rw [List.getElem?_append_left (by omega)]; exact h

/-- positions below `N` are untouched when every processed position below `N` already carries
    the incoming entry's term (`N ≤ c.length`) -/
theorem appendLeaderEntries_take_stable (es : List Entry) : ∀ (c : List Entry) (idx N : Nat),
    1 ≤ idx → N ≤ c.length →
    (∀ j e, es[j]? = some e → idx + j ≤ N → ∃ e', c[idx + j - 1]? = some e' ∧ e'.term = e.term) →
    (appendLeaderEntries c idx es).take N = c.take N := by
  induction es with
  | nil => intro c idx N _ _ _; simp [appendLeaderEntries]
  | cons x xs ih =>
    intro c idx N hidx hN hagree
    rw [appendLeaderEntries]
    have hrest : ∀ (c' : List Entry), (∀ j e, xs[j]? = some e → idx + 1 + j ≤ N →
        ∃ e', c'[idx + 1 + j - 1]? = some e' ∧ e'.term = e.term) → True := fun _ _ => trivial
    by_cases hgt : idx > c.length
    · rw [if_pos hgt]
      -- idx - 1 ≥ c.length ≥ N: nothing below N is processed any more
      rw [ih (c ++ [x]) (idx + 1) N (by omega) (by simp; omega)]
      · rw [List.take_append_of_le_length hN]
      · intro j e hj hle; omega
    · rw [if_neg hgt]
      have hclt : idx - 1 < c.length := by omega
      rw [List.getElem?_eq_getElem hclt]
      simp only []
      by_cases hle : idx ≤ N
      · obtain ⟨e', he', hte⟩ := hagree 0 x (by simp) (by omega)
        rw [show idx + 0 - 1 = idx - 1 by omega, List.getElem?_eq_getElem hclt] at he'
        simp only [Option.some.injEq] at he'
        have hsame : ¬ (c[idx - 1]'hclt).term ≠ x.term := by rw [he']; simp [hte]
        rw [if_neg hsame]
        apply ih c (idx + 1) N (by omega) hN
        intro j e hj hle'
        have := hagree (j + 1) e (by simpa using hj) (by omega)
        rw [show idx + (j + 1) - 1 = idx + 1 + j - 1 by omega] at this
        exact this
      · -- idx > N: whatever happens, it happens at positions ≥ idx - 1 ≥ N
        by_cases hterm : (c[idx - 1]'hclt).term ≠ x.term
        · rw [if_pos hterm]
          rw [ih (c.take (idx - 1) ++ [x]) (idx + 1) N (by omega)
              (by simp only [List.length_append, List.length_take, List.length_singleton]; omega)
              (by intro j e _ h; omega)]
          rw [List.take_append_of_le_length (by simp only [List.length_take]; omega),
              List.take_take, Nat.min_eq_left (by omega)]
        · rw [if_neg hterm]
          exact ih c (idx + 1) N (by omega) hN (by intro j e _ h; omega)

/-- after processing, the log agrees with the leader's canonical prefix `M` on everything the
    request covers -/
theorem appendLeaderEntries_prefix (cn : Nat → List Entry) (M : List Entry) (hM : Canon cn M) :
    ∀ (es : List Entry) (c : List Entry) (idx : Nat),
      1 ≤ idx → Canon cn c → c.take (idx - 1) = M.take (idx - 1) →
      M.drop (idx - 1) = es →
      (appendLeaderEntries c idx es).take (idx - 1 + es.length) = M.take (idx - 1 + es.length) := by
  intro es
  induction es with
  | nil => intro c idx _ _ hpre _; simpa [appendLeaderEntries] using hpre
  | cons e es ih =>
    intro c idx hidx hc hpre hdrop
    have hMidx : M[idx - 1]? = some e := by
      have := congrArg (fun l => l[0]?) hdrop
      simpa [List.getElem?_drop] using this
    have hMtake : M.take idx = M.take (idx - 1) ++ [e] := by
      have h1 : idx = (idx - 1) + 1 := by omega
      conv => lhs; rw [h1]
      rw [List.take_add_one, hMidx]; simp
    have hdrop' : M.drop (idx + 1 - 1) = es := by
      have : M.drop (idx - 1 + 1) = es := by
        rw [← List.drop_drop, hdrop]; simp
      rw [show idx + 1 - 1 = idx - 1 + 1 by omega]; exact this
    have hMcanon : Canon cn (M.take idx) := canon_take cn M idx hM
    have hlen : idx - 1 + (e :: es).length = idx + 1 - 1 + es.length := by
      simp only [List.length_cons]; omega
    rw [appendLeaderEntries, hlen]
    by_cases hgt : idx > c.length
    · rw [if_pos hgt]
      have hclen : c.length = idx - 1 := by
        have h1 := congrArg List.length hpre
        rw [List.length_take, List.length_take] at h1
        have := getElem?_lt M _ e hMidx
        omega
      have hceq : c = M.take (idx - 1) := by
        rw [← hpre, List.take_of_length_le (by omega)]
      apply ih (c ++ [e]) (idx + 1) (by omega)
      · rw [hceq, ← hMtake]; exact hMcanon
      · rw [show idx + 1 - 1 = idx by omega, hceq, ← hMtake, List.take_take, Nat.min_self]
      · exact hdrop'
    · rw [if_neg hgt]
      have hclt : idx - 1 < c.length := by omega
      have hcget : c[idx - 1]? = some (c[idx - 1]'hclt) := List.getElem?_eq_getElem hclt
      rw [hcget]
      simp only []
      by_cases hterm : (c[idx - 1]'hclt).term ≠ e.term
      · rw [if_pos hterm]
        apply ih (c.take (idx - 1) ++ [e]) (idx + 1) (by omega)
        · rw [hpre, ← hMtake]; exact hMcanon
        · rw [show idx + 1 - 1 = idx by omega, hpre, ← hMtake, List.take_take, Nat.min_self]
        · exact hdrop'
      · rw [if_neg hterm]
        have hteq : (c[idx - 1]'hclt).term = e.term := Decidable.of_not_not hterm
        apply ih c (idx + 1) (by omega) hc
        · rw [show idx + 1 - 1 = idx by omega]
          have h1 := hc (idx - 1) _ hcget
          have h2 := hM (idx - 1) e hMidx
          rw [show idx - 1 + 1 = idx by omega] at h1 h2
          rw [h1, h2, hteq]
        · exact hdrop'

end Neumann.Raft
