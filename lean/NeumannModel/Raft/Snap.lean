import NeumannModel.Raft.Model

/-!
# Snapshot install on a WAL-backed node, and what a restart recovers

Model of `install_snapshot_entries` (tensor_chain/src/raft.rs) together with
`RaftRecoveryState::from_entries` (tensor_chain/src/raft_wal.rs).

* The WAL is a list of records.  Only `LogEntryFull` and `LogTruncate` touch the
  recovered log map; every other record kind is `other`.
* Recovery replays the records into a `BTreeMap<u64, entry>`, modelled as an
  association list kept strictly sorted by key: `LogEntryFull` inserts
  (overwriting an equal key), `LogTruncate{from}` removes every key `≥ from`.
  The recovered log is the map's values in key order.
* `install_snapshot_entries` writes one `LogEntryFull` per snapshot entry
  (indices `1 ..= len`) and then one `LogTruncate{from_index: len + 1}`.
* Ordinary appends write `LogEntryFull` at `len+1, len+2, ...` (`fullRecs len es`).
-/

namespace Neumann.Raft

inductive WalRec where
  | full (index : Nat) (e : Entry)   -- LogEntryFull
  | trunc (fromIdx : Nat)            -- LogTruncate
  | other                            -- TermAndVote / VoteCast / TermChange: no effect on the log map
  deriving DecidableEq, Repr

/-- `BTreeMap::insert` on a sorted association list: overwrite on an equal key. -/
def wmInsert (k : Nat) (v : Entry) : List (Nat × Entry) → List (Nat × Entry)
  | [] => [(k, v)]
  | (k', v') :: t =>
    if k' < k then (k', v') :: wmInsert k v t
    else if k' = k then (k, v) :: t
    else (k, v) :: (k', v') :: t

/-- `LogTruncate{from}`: drop every key `≥ from`. -/
def wmTrunc (f : Nat) (m : List (Nat × Entry)) : List (Nat × Entry) :=
  m.filter (fun p => p.1 < f)

/-- strictly sorted by key (the `BTreeMap` representation invariant) -/
abbrev KeySorted (m : List (Nat × Entry)) : Prop := m.Pairwise (fun a b => a.1 < b.1)

def walApply (m : List (Nat × Entry)) : WalRec → List (Nat × Entry)
  | .full i e => wmInsert i e m
  | .trunc f => wmTrunc f m
  | .other => m

def walReplay (rs : List WalRec) : List (Nat × Entry) := rs.foldl walApply []

/-- the log a restarted node holds: the replayed map's values in key order -/
def recoveredLog (rs : List WalRec) : List Entry := (walReplay rs).map (·.2)

/-- `LogEntryFull` records for `es` at indices `base+1, base+2, ...` -/
def fullRecs (base : Nat) : List Entry → List WalRec
  | [] => []
  | e :: es => .full (base + 1) e :: fullRecs (base + 1) es

/-- the map contents holding `es` at indices `base+1, base+2, ...` (specification helper) -/
def wmIndexed (base : Nat) : List Entry → List (Nat × Entry)
  | [] => []
  | e :: es => (base + 1, e) :: wmIndexed (base + 1) es

/-- the records `install_snapshot_entries` writes -/
def installRecs (snap : List Entry) : List WalRec :=
  fullRecs 0 snap ++ (if snap.isEmpty then [] else [.trunc (snap.length + 1)])

/-- the seeded mistake: skip the records whose index is ≤ the node's current last log index -/
def installRecsSkipHeld (held : Nat) (snap : List Entry) : List WalRec :=
  (fullRecs 0 snap).filter (fun r => match r with | .full i _ => held < i | _ => true)
    ++ (if snap.isEmpty then [] else [.trunc (snap.length + 1)])

/-- in-memory effect of install_snapshot_entries (role/leader state untouched, as in the code) -/
def installSnapshot (nd : Node) (lastTerm : Nat) (snap : List Entry) : Node :=
  { nd with
    log := snap
    term := if lastTerm > nd.term then lastTerm else nd.term
    votedFor := if lastTerm > nd.term then none else nd.votedFor
    commit := snap.length }

end Neumann.Raft
