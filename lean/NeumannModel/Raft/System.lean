import NeumannModel.Raft.Model
/-
  System model for C01: `n` nodes + a monotone network + a ghost vote log.
  The network is an append-only list of (src, dst, msg): delivering any element any
  number of times, in any order, models delay / reordering / duplication; never
  delivering it models loss.  Crash = `crashRestart` of one node.  Import-free.
-/
namespace Neumann.Raft

structure Sys where
  nodes : List Node
  net : List (Nat × Nat × Msg) := []
  /-- ghost history: (voter, term, candidate) for every vote ever recorded -/
  ghost : List (Nat × Nat × Nat) := []
  /-- ghost: the log of the leader of each term, as of its last step as leader -/
  canon : Nat → List Entry := fun _ => []
  /-- ghost history: (term, node, voters) for every election ever won -/
  elected : List (Nat × Nat × List Nat) := []
  /-- ghost: the log the winner of each term held when it was elected -/
  elog : Nat → List Entry := fun _ => []
  /-- ghost history: (voter, term, candidate, the voter's log when it recorded the vote,
      whether an election of that term had already been won at that moment) -/
  voteLogs : List (Nat × Nat × Nat × List Entry × Bool) := []
  /-- ghost: the log a candidate held when it started its election of a term (term, node) -/
  startLog : Nat → Nat → List Entry := fun _ _ => []

inductive Step where
  | timeout (i : Nat)
  | preVote (i : Nat)
  | deliver (k : Nat) (healthy geo elapsed : Bool)
  | propose (i payload : Nat) (allowed : Bool)
  | replicate (i j : Nat)
  | crash (i : Nat)
  deriving Repr

def initSys (c : Config) : Sys := { nodes := (List.range c.n).map fun i => { id := i } }

def broadcast (c : Config) (src : Nat) (m : Msg) : List (Nat × Nat × Msg) :=
  (peers c src).map fun d => (src, d, m)

/-- the vote recorded by a transition, if its (term, votedFor) pair changed to `some c` -/
def ghostOf (v : Nat) (nd nd' : Node) : List (Nat × Nat × Nat) :=
  if nd'.term = nd.term ∧ nd'.votedFor = nd.votedFor then []
  else match nd'.votedFor with
    | some cand => [(v, nd'.term, cand)]
    | none => []

/-- where the output of a handler goes: a RequestVote produced by a pre-vote success /
    TimeoutNow is broadcast, everything else is a reply to the sender -/
def route (c : Config) (dst src : Nat) (out : Option Msg) : List (Nat × Nat × Msg) :=
  match out with
  | none => []
  | some (.requestVote t cand li lt) => broadcast c dst (.requestVote t cand li lt)
  | some m => [(dst, src, m)]

/-- the vote-log record of a transition (same trigger as `ghostOf`) -/
def voteLogOf (s : Sys) (v : Nat) (nd nd' : Node) : List (Nat × Nat × Nat × List Entry × Bool) :=
  if nd'.term = nd.term ∧ nd'.votedFor = nd.votedFor then []
  else match nd'.votedFor with
    | some cand => [(v, nd'.term, cand, nd.log, s.elected.any (fun x => x.1 == nd'.term))]
    | none => []

def setNode (s : Sys) (i : Nat) (nd' : Node) (nd : Node) (msgs : List (Nat × Nat × Msg)) : Sys :=
  { nodes := s.nodes.set i nd', net := s.net ++ msgs, ghost := s.ghost ++ ghostOf i nd nd',
    canon := if nd'.role = .leader then (fun t => if t = nd'.term then nd'.log else s.canon t) else s.canon,
    elected := if nd.role ≠ .leader ∧ nd'.role = .leader then s.elected ++ [(nd'.term, i, nd'.votes)]
               else s.elected,
    elog := if nd.role ≠ .leader ∧ nd'.role = .leader then
              (fun t => if t = nd'.term then nd'.log else s.elog t) else s.elog,
    voteLogs := s.voteLogs ++ voteLogOf s i nd nd',
    startLog := if nd'.role = .candidate ∧ nd.term < nd'.term then
                  (fun t j => if t = nd'.term ∧ j = i then nd.log else s.startLog t j)
                else s.startLog }

def sysStep (c : Config) (s : Sys) : Step → Sys
  | .timeout i =>
    match s.nodes[i]? with
    | some nd => let (nd', m) := startElection nd; setNode s i nd' nd (broadcast c i m)
    | none => s
  | .preVote i =>
    match s.nodes[i]? with
    | some nd => let (nd', m) := startPreVote nd; setNode s i nd' nd (broadcast c i m)
    | none => s
  | .deliver k h g e =>
    match s.net[k]? with
    | some (src, dst, m) =>
      match s.nodes[dst]? with
      | some nd =>
        let (nd', out) := deliver c nd src m h g e
        setNode s dst nd' nd (route c dst src out)
      | none => s
    | none => s
  | .propose i p a =>
    match s.nodes[i]? with
    | some nd => setNode s i (propose nd p a).1 nd []
    | none => s
  | .replicate i j =>
    -- `send_heartbeats` iterates over the peers only: a node never sends to itself
    if j = i then s else
    match s.nodes[i]? with
    | some nd =>
      match appendEntriesFor nd j with
      | some m => { s with net := s.net ++ [(i, j, m)] }
      | none => s
    | none => s
  | .crash i =>
    match s.nodes[i]? with
    | some nd => setNode s i (crashRestart nd) nd []
    | none => s

def run (c : Config) (s : Sys) (steps : List Step) : Sys := steps.foldl (sysStep c) s

end Neumann.Raft
