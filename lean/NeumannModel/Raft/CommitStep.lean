import NeumannModel.Raft.CommitLemmas
/-
  C01 — State Machine Safety, part 2: what each handler, and each system step, can do to a
  node's commit index; where a newly sent acknowledgement goes.
-/
namespace Neumann.Raft

/-- the value `try_advance_commit_index` computes from a node's `match_index` and log -/
def quorumIdx (c : Config) (nd : Node) : Nat :=
  (sortAsc (nd.matchIdx.map (·.2) ++ [nd.log.length])).getD
    ((sortAsc (nd.matchIdx.map (·.2) ++ [nd.log.length])).length - c.quorum) 0

/-- a leader advanced its own commit index -/
def LeaderAdvance (c : Config) (nd nd' : Node) : Prop :=
  nd.role = .leader ∧ nd'.role = .leader ∧ nd.commit < nd'.commit ∧
  termAt nd'.log nd'.commit = some nd'.term ∧ nd'.commit = quorumIdx c nd'

/-- what one handler call can do to the commit index -/
def CommitChange (c : Config) (nd nd' : Node) (m : Option Msg) : Prop :=
  nd'.commit = nd.commit ∨ LeaderAdvance c nd nd' ∨
  (∃ t l pi pt es lc, m = some (.appendEntries t l pi pt es lc) ∧ t = nd'.term ∧
     aeLogOk nd.log pi pt = true ∧ nd'.log = appendLeaderEntries nd.log (pi + 1) es ∧
     nd'.commit = min lc (min (pi + es.length) nd'.log.length))

theorem tryAdvanceCommit_commit (c : Config) (x : Node) :
    (tryAdvanceCommit c x).commit = x.commit ∨
    (x.role = .leader ∧ x.commit < (tryAdvanceCommit c x).commit ∧
      termAt x.log (tryAdvanceCommit c x).commit = some x.term ∧
      (tryAdvanceCommit c x).commit = quorumIdx c x) := by
  unfold tryAdvanceCommit
  by_cases h1 : x.role ≠ .leader
  · rw [if_pos h1]; exact Or.inl rfl
  · rw [if_neg h1]
    have hl : x.role = .leader := Decidable.of_not_not h1
    by_cases h2 : x.hasLeaderState = false
    · rw [if_pos h2]; exact Or.inl rfl
    · rw [if_neg h2]
      dsimp only
      split
      · rename_i h3
        right
        exact ⟨hl, h3.1, h3.2, rfl⟩
      · exact Or.inl rfl

theorem handleAER_commit (c : Config) (nd : Node) (src t : Nat) (sc : Bool) (mi : Nat) :
    (handleAppendEntriesResp c nd src t sc mi).commit = nd.commit ∨
    LeaderAdvance c nd (handleAppendEntriesResp c nd src t sc mi) := by
  unfold handleAppendEntriesResp
  by_cases h1 : nd.role ≠ .leader
  · rw [if_pos h1]; exact Or.inl rfl
  · rw [if_neg h1]
    have hlead : nd.role = .leader := Decidable.of_not_not h1
    by_cases h2 : t > nd.term
    · rw [if_pos h2]; exact Or.inl rfl
    · rw [if_neg h2]
      by_cases h3 : t < nd.term
      · rw [if_pos h3]; exact Or.inl rfl
      · rw [if_neg h3]
        by_cases h4 : nd.hasLeaderState = false
        · rw [if_pos h4]; exact Or.inl rfl
        · rw [if_neg h4]
          by_cases h5 : sc = true
          · rw [if_pos h5]
            obtain ⟨hm, hr, htm, hlog⟩ := tryAdvanceCommit_matchIdx c
              { nd with nextIdx := alSet nd.nextIdx src (mi + 1),
                        matchIdx := alSet nd.matchIdx src mi,
                        backoff := alRemove nd.backoff src }
            rcases tryAdvanceCommit_commit c
              { nd with nextIdx := alSet nd.nextIdx src (mi + 1),
                        matchIdx := alSet nd.matchIdx src mi,
                        backoff := alRemove nd.backoff src } with h | ⟨_, hlt, hta, hq⟩
            · exact Or.inl h
            · right
              refine ⟨hlead, by rw [hr]; exact hlead, hlt, ?_, ?_⟩
              · rw [hlog, htm]; exact hta
              · rw [hq]; unfold quorumIdx; rw [hm, hlog]
          · rw [if_neg h5]; exact Or.inl rfl

theorem handleAE_commit (nd : Node) (t l pi pt : Nat) (es : List Entry) (lc : Nat) :
    (handleAppendEntries nd t l pi pt es lc).1.commit = nd.commit ∨
    (t = (handleAppendEntries nd t l pi pt es lc).1.term ∧ aeLogOk nd.log pi pt = true ∧
      (handleAppendEntries nd t l pi pt es lc).1.log = appendLeaderEntries nd.log (pi + 1) es ∧
      (handleAppendEntries nd t l pi pt es lc).1.commit =
        min lc (min (pi + es.length) (handleAppendEntries nd t l pi pt es lc).1.log.length)) := by
  unfold handleAppendEntries
  have hcm := stepDown_commit nd t
  have hlg := stepDown_log nd t
  by_cases h1 : t = (stepDown nd t).term
  · rw [if_pos h1]
    by_cases h2 : aeLogOk (stepDown nd t).log pi pt = true
    · simp only [h2, if_true]
      unfold aeAccept
      dsimp only
      by_cases h3 : lc > (stepDown nd t).commit
      · rw [if_pos h3]
        rcases Nat.le_total (min lc (min (pi + es.length) (appendLeaderEntries (stepDown nd t).log (pi + 1) es).length))
            (stepDown nd t).commit with h4 | h4
        · left; rw [Nat.max_eq_left h4, hcm]
        · right
          rw [Nat.max_eq_right h4]
          refine ⟨h1, by rw [← hlg]; exact h2, by rw [hlg], rfl⟩
      · rw [if_neg h3]; exact Or.inl hcm
    · simp only [h2]
      exact Or.inl hcm
  · rw [if_neg h1]; exact Or.inl hcm

theorem becomeLeader_commit (c : Config) (nd : Node) : (becomeLeader c nd).commit = nd.commit := rfl

theorem deliver_commit (c : Config) (nd : Node) (src : Nat) (m : Msg) (b1 b2 b3 : Bool) :
    CommitChange c nd (deliver c nd src m b1 b2 b3).1 (some m) := by
  cases m with
  | requestVote t cand li lt =>
    have heq : (deliver c nd src (.requestVote t cand li lt) b1 b2 b3).1
        = (handleRequestVote c nd t cand li lt b1 b2).1 := rfl
    rw [heq, handleRequestVote_eq]
    left
    split
    · exact stepDown_commit nd t
    · exact stepDown_commit nd t
  | requestVoteResp t gr v =>
    have heq : (deliver c nd src (.requestVoteResp t gr v) b1 b2 b3).1
        = handleRequestVoteResp c nd src t gr := rfl
    rw [heq]
    left
    unfold handleRequestVoteResp
    split
    · rfl
    · split
      · rfl
      · split
        · split
          · rfl
          · dsimp only
            split
            · rfl
            · rfl
        · rfl
  | preVote t cand li lt => exact Or.inl rfl
  | preVoteResp t gr v =>
    have heq : (deliver c nd src (.preVoteResp t gr v) b1 b2 b3).1
        = (handlePreVoteResp c nd src t gr).1 := rfl
    rw [heq]
    left
    unfold handlePreVoteResp
    split
    · rfl
    · split
      · rfl
      · split
        · split
          · rfl
          · dsimp only
            split
            · rfl
            · rfl
        · rfl
  | appendEntries t l pi pt es lc =>
    have heq : (deliver c nd src (.appendEntries t l pi pt es lc) b1 b2 b3).1
        = (handleAppendEntries nd t l pi pt es lc).1 := rfl
    rw [heq]
    rcases handleAE_commit nd t l pi pt es lc with h | ⟨h1, h2, h3, h4⟩
    · exact Or.inl h
    · exact Or.inr (Or.inr ⟨t, l, pi, pt, es, lc, rfl, h1, h2, h3, h4⟩)
  | appendEntriesResp t sc f mi =>
    have heq : (deliver c nd src (.appendEntriesResp t sc f mi) b1 b2 b3).1
        = handleAppendEntriesResp c nd src t sc mi := rfl
    rw [heq]
    rcases handleAER_commit c nd src t sc mi with h | h
    · exact Or.inl h
    · exact Or.inr (Or.inl h)
  | timeoutNow t l =>
    have heq : (deliver c nd src (.timeoutNow t l) b1 b2 b3).1
        = (handleTimeoutNow nd src t l).1 := rfl
    rw [heq]
    left
    unfold handleTimeoutNow
    split
    · rfl
    · split
      · rfl
      · rfl

/-- **what one system step does to the commit index of node `i`** -/
def CommitFact (c : Config) (s : Sys) (i : Nat) (nd nd' : Node) : Prop :=
  nd'.commit = nd.commit ∨ nd'.commit = 0 ∨ LeaderAdvance c nd nd' ∨
  (∃ src l pi pt es lc, (src, i, Msg.appendEntries nd'.term l pi pt es lc) ∈ s.net ∧
     aeLogOk nd.log pi pt = true ∧ nd'.log = appendLeaderEntries nd.log (pi + 1) es ∧
     nd'.commit = min lc (min (pi + es.length) nd'.log.length))

theorem nodes_setNode (s : Sys) (i : Nat) (a b : Node) (msgs : List (Nat × Nat × Msg)) :
    (setNode s i a b msgs).nodes = s.nodes.set i a := rfl

theorem step_commit (c : Config) (s : Sys) (st : Step) (i : Nat) (nd nd' : Node)
    (hnd : s.nodes[i]? = some nd) (hnd' : (sysStep c s st).nodes[i]? = some nd') :
    CommitFact c s i nd nd' := by
  have hsame : s.nodes[i]? = some nd' → CommitFact c s i nd nd' := by
    intro h; rw [hnd] at h; cases h; exact Or.inl rfl
  have hother : ∀ (j : Nat) (x : Node), j ≠ i → (s.nodes.set j x)[i]? = some nd' →
      CommitFact c s i nd nd' := by
    intro j x hji h
    rw [List.getElem?_set_ne hji] at h
    exact hsame h
  have hself : ∀ (x : Node), (s.nodes.set i x)[i]? = some nd' → x = nd' := by
    intro x h
    have hi : i < s.nodes.length := getElem?_lt _ _ _ hnd
    rw [List.getElem?_set_self hi] at h
    cases h; rfl
  cases st with
  | timeout j =>
    simp only [sysStep] at hnd'
    cases hj : s.nodes[j]? with
    | none => rw [hj] at hnd'; exact hsame hnd'
    | some ndj =>
      rw [hj] at hnd'
      simp only [nodes_setNode] at hnd'
      by_cases hji : j = i
      · subst hji
        rw [hnd] at hj; cases hj
        rw [← hself _ hnd']
        exact Or.inl rfl
      · exact hother j _ hji hnd'
  | preVote j =>
    simp only [sysStep] at hnd'
    cases hj : s.nodes[j]? with
    | none => rw [hj] at hnd'; exact hsame hnd'
    | some ndj =>
      rw [hj] at hnd'
      simp only [nodes_setNode] at hnd'
      by_cases hji : j = i
      · subst hji
        rw [hnd] at hj; cases hj
        rw [← hself _ hnd']
        exact Or.inl rfl
      · exact hother j _ hji hnd'
  | deliver k h1 h2 h3 =>
    simp only [sysStep] at hnd'
    cases hk : s.net[k]? with
    | none => rw [hk] at hnd'; exact hsame hnd'
    | some x =>
      obtain ⟨src, dst, m⟩ := x
      rw [hk] at hnd'
      have hmem : (src, dst, m) ∈ s.net := List.mem_of_getElem? hk
      cases hj : s.nodes[dst]? with
      | none => simp only [hj] at hnd'; exact hsame hnd'
      | some ndj =>
        simp only [hj, nodes_setNode] at hnd'
        by_cases hji : dst = i
        · subst hji
          rw [hnd] at hj; cases hj
          rw [← hself _ hnd']
          rcases deliver_commit c nd src m h1 h2 h3 with h | h | ⟨t, l, pi, pt, es, lc, hm, ht, hok, hlog, hcm⟩
          · exact Or.inl h
          · exact Or.inr (Or.inr (Or.inl h))
          · simp only [Option.some.injEq] at hm
            subst hm
            exact Or.inr (Or.inr (Or.inr ⟨src, l, pi, pt, es, lc, by rw [← ht]; exact hmem, hok, hlog, hcm⟩))
        · exact hother dst _ hji hnd'
  | propose j p a =>
    simp only [sysStep] at hnd'
    cases hj : s.nodes[j]? with
    | none => rw [hj] at hnd'; exact hsame hnd'
    | some ndj =>
      rw [hj] at hnd'
      simp only [nodes_setNode] at hnd'
      by_cases hji : j = i
      · subst hji
        rw [hnd] at hj; cases hj
        rw [← hself _ hnd']
        rcases propose_log nd p a with h | ⟨_, h⟩
        · rw [h]; exact Or.inl rfl
        · rw [h]; exact Or.inl rfl
      · exact hother j _ hji hnd'
  | replicate j k =>
    simp only [sysStep] at hnd'
    split at hnd'
    · exact hsame hnd'
    · cases hj : s.nodes[j]? with
      | none => rw [hj] at hnd'; exact hsame hnd'
      | some ndj =>
        rw [hj] at hnd'
        dsimp only at hnd'
        split at hnd'
        · exact hsame hnd'
        · exact hsame hnd'
  | crash j =>
    simp only [sysStep] at hnd'
    cases hj : s.nodes[j]? with
    | none => rw [hj] at hnd'; exact hsame hnd'
    | some ndj =>
      rw [hj] at hnd'
      simp only [nodes_setNode] at hnd'
      by_cases hji : j = i
      · subst hji
        rw [← hself _ hnd']
        exact Or.inr (Or.inl rfl)
      · exact hother j _ hji hnd'

/-- a success/failure acknowledgement that is new after a step answers an AppendEntries that
    was in the network, and travels back along it -/
theorem step_new_aer (c : Config) (s : Sys) (st : Step) (a b T : Nat) (sc : Bool) (f mi : Nat)
    (h : (a, b, Msg.appendEntriesResp T sc f mi) ∈ (sysStep c s st).net) :
    (a, b, Msg.appendEntriesResp T sc f mi) ∈ s.net ∨
    ∃ t l pi pt es lc, (b, a, Msg.appendEntries t l pi pt es lc) ∈ s.net := by
  have hbc : ∀ (j : Nat) (m : Msg), (∀ T sc f mi, m ≠ Msg.appendEntriesResp T sc f mi) →
      (a, b, Msg.appendEntriesResp T sc f mi) ∈ s.net ++ broadcast c j m →
      (a, b, Msg.appendEntriesResp T sc f mi) ∈ s.net := by
    intro j m hm hin
    rcases List.mem_append.mp hin with h | h
    · exact h
    · exact absurd (mem_broadcast c j m a b _ h).2.symm (hm T sc f mi)
  cases st with
  | timeout j =>
    simp only [sysStep] at h
    cases hj : s.nodes[j]? with
    | none => rw [hj] at h; exact Or.inl h
    | some ndj =>
      rw [hj] at h
      exact Or.inl (hbc j _ (by intro _ _ _ _ e; simp [startElection] at e) h)
  | preVote j =>
    simp only [sysStep] at h
    cases hj : s.nodes[j]? with
    | none => rw [hj] at h; exact Or.inl h
    | some ndj =>
      rw [hj] at h
      exact Or.inl (hbc j _ (by intro _ _ _ _ e; simp [startPreVote] at e) h)
  | deliver k h1 h2 h3 =>
    simp only [sysStep] at h
    cases hk : s.net[k]? with
    | none => rw [hk] at h; exact Or.inl h
    | some x =>
      obtain ⟨src, dst, m⟩ := x
      rw [hk] at h
      have hmem : (src, dst, m) ∈ s.net := List.mem_of_getElem? hk
      cases hj : s.nodes[dst]? with
      | none => simp only [hj] at h; exact Or.inl h
      | some ndj =>
        simp only [hj] at h
        have h' : (a, b, Msg.appendEntriesResp T sc f mi) ∈
            s.net ++ route c dst src (deliver c ndj src m h1 h2 h3).2 := h
        rcases List.mem_append.mp h' with h' | h'
        · exact Or.inl h'
        · right
          cases hout : (deliver c ndj src m h1 h2 h3).2 with
          | none => rw [hout] at h'; simp [route] at h'
          | some out =>
            rw [hout] at h'
            have hcases : (∃ t cand li lt, out = .requestVote t cand li lt) ∨
                (∀ t cand li lt, out ≠ .requestVote t cand li lt) := by
              cases out <;> simp
            rcases hcases with ⟨t, cand, li, lt, ho⟩ | hno
            · subst ho
              simp only [route] at h'
              have := (mem_broadcast c dst _ a b _ h').2
              cases this
            · have hr : route c dst src (some out) = [(dst, src, out)] := by
                cases out <;> first | rfl | (exfalso; exact hno _ _ _ _ rfl)
              rw [hr] at h'
              simp only [List.mem_singleton, Prod.mk.injEq] at h'
              obtain ⟨ha, hb, hm2⟩ := h'
              rw [← hm2] at hout
              obtain ⟨_, _, t, l, pi, pt, es, lc, hmeq, _⟩ :=
                deliver_out_aer c ndj src m h1 h2 h3 T sc f mi hout
              subst hmeq
              exact ⟨t, l, pi, pt, es, lc, by rw [ha, hb]; exact hmem⟩
  | propose j p al =>
    simp only [sysStep] at h
    cases hj : s.nodes[j]? with
    | none => rw [hj] at h; exact Or.inl h
    | some ndj =>
      rw [hj] at h
      have h' : (a, b, Msg.appendEntriesResp T sc f mi) ∈ s.net ++ [] := h
      rw [List.append_nil] at h'
      exact Or.inl h'
  | replicate j k =>
    simp only [sysStep] at h
    split at h
    · exact Or.inl h
    · cases hj : s.nodes[j]? with
      | none => rw [hj] at h; exact Or.inl h
      | some ndj =>
        rw [hj] at h
        dsimp only at h
        cases hae : appendEntriesFor ndj k with
        | none => rw [hae] at h; exact Or.inl h
        | some m =>
          rw [hae] at h
          obtain ⟨_, pi, pt, es, hm, _⟩ := appendEntriesFor_spec ndj k m hae
          subst hm
          have h' : (a, b, Msg.appendEntriesResp T sc f mi) ∈
              s.net ++ [(j, k, Msg.appendEntries ndj.term ndj.id pi pt es ndj.commit)] := h
          rcases List.mem_append.mp h' with h' | h'
          · exact Or.inl h'
          · simp at h'
  | crash j =>
    simp only [sysStep] at h
    cases hj : s.nodes[j]? with
    | none => rw [hj] at h; exact Or.inl h
    | some ndj =>
      rw [hj] at h
      have h' : (a, b, Msg.appendEntriesResp T sc f mi) ∈ s.net ++ [] := h
      rw [List.append_nil] at h'
      exact Or.inl h'

end Neumann.Raft
