import NeumannModel.Raft.Lemmas
import NeumannModel.Raft.Safety
import NeumannModel.Raft.LogMatch
import NeumannModel.Raft.Commit
import NeumannModel.Raft.LeaderCompleteness
import NeumannModel.Raft.CommitSafety
/-
  C01 — property theorems.
  Part 1: handler-level facts (for every node state and message).
  Part 2: system-level theorems for EVERY reachable state of `Raft/System.lean`, i.e. every
  interleaving of message deliveries (arbitrary delay, reordering, duplication, loss), election
  timeouts, pre-votes, proposals, replication and crash/restart events, on clusters of any size
  (proof in `Raft/Safety.lean`: invariant `Inv`, `inv_step`, quorum intersection).
  Part 3: the log theorems that are NOT yet proved are kept as full-strength `def`s.
-/
namespace Neumann.Raft.Props
open Neumann.Raft

/-- A follower never acknowledges more than the request covers (the fact the repaired
    `match_index` defect violated): `match_index ≤ prev_log_index + entries.len()`. -/
theorem ae_match_le_covered (nd : Node) (t l pi pt : Nat) (es : List Entry) (lc : Nat)
    (t' : Nat) (s : Bool) (f mi : Nat)
    (h : (handleAppendEntries nd t l pi pt es lc).2 = .appendEntriesResp t' s f mi) :
    mi ≤ pi + es.length := by
  unfold handleAppendEntries at h
  by_cases h1 : t = (stepDown nd t).term
  · rw [if_pos h1] at h
    by_cases h2 : aeLogOk (stepDown nd t).log pi pt = true
    · simp only [h2, if_true, aeAccept_msg] at h
      injection h with _ _ _ h4
      subst h4; exact Nat.min_le_left _ _
    · simp only [h2] at h
      injection h with _ _ _ h4
      omega
  · rw [if_neg h1] at h
    injection h with _ _ _ h4
    omega

/-- …and never advances its commit index beyond what the request covers. -/
theorem ae_commit_le_covered (nd : Node) (t l pi pt : Nat) (es : List Entry) (lc : Nat) :
    (handleAppendEntries nd t l pi pt es lc).1.commit ≤ max nd.commit (pi + es.length) := by
  unfold handleAppendEntries
  by_cases h1 : t = (stepDown nd t).term
  · rw [if_pos h1]
    by_cases h2 : aeLogOk (stepDown nd t).log pi pt = true
    · simp only [h2, if_true, aeAccept_commit, stepDown_commit]
      split <;> omega
    · simp only [h2]; simp <;> omega
  · rw [if_neg h1]; simp <;> omega

/-- commit index never decreases in `handle_append_entries` -/
theorem ae_commit_monotone (nd : Node) (t l pi pt : Nat) (es : List Entry) (lc : Nat) :
    nd.commit ≤ (handleAppendEntries nd t l pi pt es lc).1.commit := by
  unfold handleAppendEntries
  by_cases h1 : t = (stepDown nd t).term
  · rw [if_pos h1]
    by_cases h2 : aeLogOk (stepDown nd t).log pi pt = true
    · simp only [h2, if_true, aeAccept_commit, stepDown_commit]
      split <;> omega
    · simp only [h2]; simp
  · rw [if_neg h1]; simp

/-- A response from an earlier term never changes the leader's state (second repaired defect). -/
theorem stale_term_ack_ignored (c : Config) (nd : Node) (src t : Nat) (s : Bool) (mi : Nat)
    (h : t < nd.term) : handleAppendEntriesResp c nd src t s mi = nd := by
  unfold handleAppendEntriesResp
  have h1 : ¬ t > nd.term := by omega
  by_cases hr : nd.role ≠ .leader
  · rw [if_pos hr]
  · rw [if_neg hr, if_neg h1, if_pos h]

/-- A vote is granted only for the requested term, only if no other candidate holds this
    node's vote in that term, and the vote is recorded before the reply exists. -/
theorem vote_grant_sound (c : Config) (nd : Node) (t cand li lt : Nat) (hl geo : Bool) (t' v : Nat)
    (h : (handleRequestVote c nd t cand li lt hl geo).2 = .requestVoteResp t' true v) :
    t' = t ∧ nd.term ≤ t ∧
    (handleRequestVote c nd t cand li lt hl geo).1.votedFor = some cand ∧
    (handleRequestVote c nd t cand li lt hl geo).1.term = t ∧
    (nd.term = t → nd.votedFor = none ∨ nd.votedFor = some cand) := by
  unfold handleRequestVote at h ⊢
  by_cases hc : t = (stepDown nd t).term ∧ canVote (stepDown nd t) cand = true ∧
      voteLogOk c (stepDown nd t).log li lt geo = true ∧ hl = true
  · rw [if_pos hc] at h ⊢
    injection h with h1 _ _
    have hge := stepDown_term_ge nd t
    refine ⟨by omega, by omega, rfl, hc.1.symm, ?_⟩
    intro heq
    have : stepDown nd t = nd := stepDown_of_le nd t (by omega)
    have hcv := hc.2.1
    rw [this] at hcv
    simpa [canVote] using hcv
  · rw [if_neg hc] at h
    injection h with _ h2 _; cases h2

/-- a crash keeps exactly the persistent state -/
theorem crash_keeps_persistent (nd : Node) :
    (crashRestart nd).term = nd.term ∧ (crashRestart nd).votedFor = nd.votedFor ∧
    (crashRestart nd).log = nd.log ∧ (crashRestart nd).role = .follower := by
  simp [crashRestart]

/-! ## Part 2 — all interleavings -/

/-- **Election Safety**: in every reachable state at most one node is leader in any term. -/
theorem election_safety (c : Config) (steps : List Step) (i j : Nat) (a b : Node)
    (ha : (run c (initSys c) steps).nodes[i]? = some a)
    (hb : (run c (initSys c) steps).nodes[j]? = some b)
    (hla : a.role = .leader) (hlb : b.role = .leader) (hterm : a.term = b.term) : i = j :=
  election_safety_of_inv c _ (inv_run c _ steps (inv_init c)) i j a b ha hb hla hlb hterm

/-- **One vote per term, across crashes and restarts**: the history of all votes ever recorded
    (every granted RequestVoteResponse in the network is in it, `granted_votes_are_recorded`)
    never holds two different candidates for one voter and term. -/
theorem vote_once_per_term (c : Config) (steps : List Step) (v t c1 c2 : Nat)
    (h1 : (v, t, c1) ∈ (run c (initSys c) steps).ghost)
    (h2 : (v, t, c2) ∈ (run c (initSys c) steps).ghost) : c1 = c2 :=
  (inv_run c _ steps (inv_init c)).ghostFun v t c1 c2 h1 h2

theorem granted_votes_are_recorded (c : Config) (steps : List Step) (src dst t v : Nat)
    (h : (src, dst, Msg.requestVoteResp t true v) ∈ (run c (initSys c) steps).net) :
    (src, t, dst) ∈ (run c (initSys c) steps).ghost :=
  (inv_run c _ steps (inv_init c)).rvrInGhost src dst t v h

/-- a leader holds recorded votes of a strict majority for its term -/
theorem leader_has_quorum (c : Config) (steps : List Step) (i : Nat) (a : Node)
    (ha : (run c (initSys c) steps).nodes[i]? = some a) (hl : a.role = .leader) :
    c.quorum ≤ a.votes.length ∧ a.votes.Nodup ∧
    ∀ v ∈ a.votes, (v, a.term, i) ∈ (run c (initSys c) steps).ghost := by
  obtain ⟨h1, h2, h3⟩ := (inv_run c _ steps (inv_init c)).votesOk i a ha (by rw [hl]; intro h; cases h)
  exact ⟨h3 hl, h2, h1⟩

/-! ## Part 3 — Log Matching (proved), and the full statements not yet proved (explored by the monitors of `corr_raft` on the
    real cluster; they are NOT claimed as theorems) -/

/-- **Log Matching**: in every reachable state, two logs that agree on the term of a position
    agree on every position up to it (proof: `Raft/LogMatch.lean`, invariant `LMInv` — every
    entry of term `t` in any log or AppendEntries sits on a prefix of the log of the one leader
    of term `t`; `append_leader_entries` preserves that). -/
theorem log_matching (c : Config) (steps : List Step) (i j : Nat) (a b : Node)
    (ha : (run c (initSys c) steps).nodes[i]? = some a)
    (hb : (run c (initSys c) steps).nodes[j]? = some b)
    (k : Nat) (ea eb : Entry) (h1 : a.log[k]? = some ea) (h2 : b.log[k]? = some eb)
    (ht : ea.term = eb.term) : a.log.take (k + 1) = b.log.take (k + 1) :=
  log_matching_of_inv c _ (lm_run c _ steps (inv_init c) (lm_init c)) i j a b ha hb k ea eb h1 h2 ht

/-- at most one node EVER wins an election in a term (historical form of Election Safety) -/
theorem one_election_per_term (c : Config) (steps : List Step) (t i j : Nat) (vs ws : List Nat)
    (h1 : (t, i, vs) ∈ (run c (initSys c) steps).elected)
    (h2 : (t, j, ws) ∈ (run c (initSys c) steps).elected) : i = j :=
  elected_unique c _ (inv_run c _ steps (inv_init c)) (lm_run c _ steps (inv_init c) (lm_init c))
    t i j vs ws h1 h2

/-- a leader's log only ever grows by its own proposals: it always equals the canonical log of
    its term, and every AppendEntries in the network is a segment of that canonical log -/
theorem ae_is_leader_log_segment (c : Config) (steps : List Step) (src dst T l pi pt : Nat)
    (es : List Entry) (lc : Nat)
    (h : (src, dst, Msg.appendEntries T l pi pt es lc) ∈ (run c (initSys c) steps).net) :
    ((run c (initSys c) steps).canon T).take pi ++ es
      = ((run c (initSys c) steps).canon T).take (pi + es.length) :=
  ((lm_run c _ steps (inv_init c) (lm_init c)).aeOk src dst T l pi pt es lc h).2.2.2.1

/-- **Acknowledgements are sound**: a success AppendEntriesResponse `(T, f, m)` anywhere in the
    network means `f` reached term `T`, `m` lies inside the log of the leader of `T`, and as
    long as `f` stays in term `T` its log keeps exactly that leader's first `m` entries
    (whatever later AppendEntries of that term it processes, in whatever order). -/
theorem ack_sound (c : Config) (steps : List Step) (src dst T f m : Nat)
    (h : (src, dst, Msg.appendEntriesResp T true f m) ∈ (run c (initSys c) steps).net) :
    src = f ∧ ∃ nd : Node, (run c (initSys c) steps).nodes[f]? = some nd ∧ T ≤ nd.term ∧
      m ≤ ((run c (initSys c) steps).canon T).length ∧
      (nd.term = T → nd.log.take m = ((run c (initSys c) steps).canon T).take m) := by
  have hC := cinv_run c _ steps (inv_init c) (lm_init c) (cinv_init c)
  exact ⟨hC.aerSrc src dst T true f m h, hC.ackSound src dst T f m h⟩

/-- **`match_index` is sound**: every positive `match_index[f] = m` a leader holds is backed by
    a success acknowledgement of its CURRENT term sent by `f` (never by a stale or foreign one). -/
theorem match_index_sound (c : Config) (steps : List Step) (i : Nat) (nd : Node)
    (hnd : (run c (initSys c) steps).nodes[i]? = some nd) (hr : nd.role = .leader)
    (f m : Nat) (hg : alGet nd.matchIdx f = some m) (hpos : 0 < m) :
    ∃ dst, (f, dst, Msg.appendEntriesResp nd.term true f m) ∈ (run c (initSys c) steps).net :=
  (cinv_run c _ steps (inv_init c) (lm_init c) (cinv_init c)).matchSound i nd hnd hr f m hg hpos

/-- no log ever holds an entry of a term its node has not reached -/
theorem log_terms_bounded (c : Config) (steps : List Step) (i : Nat) (nd : Node)
    (hnd : (run c (initSys c) steps).nodes[i]? = some nd) : ∀ e ∈ nd.log, e.term ≤ nd.term :=
  (cinv_run c _ steps (inv_init c) (lm_init c) (cinv_init c)).nodeTermBound i nd hnd

/-- **Leader Completeness**: in every reachable state, if the first `N` entries of the log of
    term `T`'s leader are acknowledged by a quorum (success responses covering `N`, the leader
    itself counting as one) and entry `N` is of term `T` — exactly the leader's commit rule —
    then EVERY election ever won in a later term was won by a node whose log, at that moment,
    started with those `N` entries. (Invariants: `Raft/Complete.lean`, `Raft/Complete2.lean`;
    the argument by strong induction on the later term: `Raft/LeaderCompleteness.lean`.) -/
theorem leader_completeness (c : Config) (steps : List Step) (T N : Nat)
    (hD : Durable c (run c (initSys c) steps) T N) (U j : Nat) (vs : List Nat)
    (hU : (U, j, vs) ∈ (run c (initSys c) steps).elected) (hTU : T < U) :
    ((run c (initSys c) steps).elog U).take N = ((run c (initSys c) steps).canon T).take N := by
  have hI := inv_run c _ steps (inv_init c)
  have hL := lm_run c _ steps (inv_init c) (lm_init c)
  have hC := cinv_run c _ steps (inv_init c) (lm_init c) (cinv_init c)
  have hE := einv_run c _ steps (inv_init c) (lm_init c) (cinv_init c) (einv_init c)
  have hF := finv_run c _ steps (inv_init c) (lm_init c) (cinv_init c) (einv_init c) (finv_init c)
  exact leader_completeness_of_inv c _ hI hL hC hE hF T N hD U j vs hU hTU

/-- all six invariant layers hold in every reachable state -/
theorem reachable_invariants (c : Config) (steps : List Step) :
    Inv c (run c (initSys c) steps) ∧ LMInv c (run c (initSys c) steps) ∧
    CInv c (run c (initSys c) steps) ∧ EInv c (run c (initSys c) steps) ∧
    FInv c (run c (initSys c) steps) ∧ GInv c (run c (initSys c) steps) :=
  ⟨inv_run c _ steps (inv_init c),
   lm_run c _ steps (inv_init c) (lm_init c),
   cinv_run c _ steps (inv_init c) (lm_init c) (cinv_init c),
   einv_run c _ steps (inv_init c) (lm_init c) (cinv_init c) (einv_init c),
   finv_run c _ steps (inv_init c) (lm_init c) (cinv_init c) (einv_init c) (finv_init c),
   ginv_run c _ steps (inv_init c) (lm_init c) (cinv_init c) (einv_init c) (finv_init c) (ginv_init c)⟩

/-- **State Machine Safety**: in every reachable state (any interleaving of timeouts, pre-votes,
    deliveries in any order with duplication and loss, proposals, replication rounds and
    crash-restarts), no two nodes hold different entries at a position both have committed —
    and both do hold an entry there. -/
theorem state_machine_safety (c : Config) (steps : List Step) (i j : Nat) (a b : Node)
    (ha : (run c (initSys c) steps).nodes[i]? = some a)
    (hb : (run c (initSys c) steps).nodes[j]? = some b)
    (k : Nat) (hka : k < a.commit) (hkb : k < b.commit) :
    a.log[k]? = b.log[k]? ∧ ∃ e, a.log[k]? = some e := by
  obtain ⟨hI, hL, hC, hE, hF, hG⟩ := reachable_invariants c steps
  exact state_machine_safety_of_inv c _ hI hL hC hE hF hG i j a b ha hb k hka hkb

/-- a node's commit index never exceeds its log -/
theorem commit_within_log (c : Config) (steps : List Step) (i : Nat) (a : Node)
    (ha : (run c (initSys c) steps).nodes[i]? = some a) : a.commit ≤ a.log.length := by
  rcases Nat.eq_zero_or_pos a.commit with h | h
  · omega
  · obtain ⟨_, e, he⟩ := state_machine_safety c steps i i a a ha ha (a.commit - 1) (by omega) (by omega)
    have := getElem?_lt _ _ e he
    omega

/-- **a committed entry is in the log of every later leader**: what some node has committed
    (positions `< a.commit`) is a prefix of the log with which any election of a term above the
    committing node's term was won. -/
theorem committed_prefix_in_later_leaders (c : Config) (steps : List Step) (i : Nat) (a : Node)
    (ha : (run c (initSys c) steps).nodes[i]? = some a) (U j : Nat) (vs : List Nat)
    (hU : (U, j, vs) ∈ (run c (initSys c) steps).elected) (hTU : a.term < U) :
    ((run c (initSys c) steps).elog U).take a.commit = a.log.take a.commit := by
  obtain ⟨hI, hL, hC, hE, hF, hG⟩ := reachable_invariants c steps
  rcases Nat.eq_zero_or_pos a.commit with h | h
  · rw [h]; simp
  · obtain ⟨T, N, hD, hT, hN, htk⟩ := hG.commitOk i a ha h
    have hlc := leader_completeness_of_inv c _ hI hL hC hE hF T N hD U j vs hU (by omega)
    rw [htk]
    exact take_of_take_eq _ _ N a.commit hN hlc

/-- **State Machine Safety over time** — the property as stated: once some node has reported a
    position committed (at the state after `steps1`), no node at that moment or at any later one
    (after any further `steps2`: crashes, new elections, anything) reports a different entry
    committed at that position. -/
theorem state_machine_safety_over_time (c : Config) (steps1 steps2 : List Step) (i j : Nat)
    (a b : Node) (ha : (run c (initSys c) steps1).nodes[i]? = some a)
    (hb : (run c (initSys c) (steps1 ++ steps2)).nodes[j]? = some b)
    (k : Nat) (hka : k < a.commit) (hkb : k < b.commit) :
    a.log[k]? = b.log[k]? ∧ ∃ e, a.log[k]? = some e := by
  obtain ⟨hI1, hL1, hC1, hE1, _, hG1⟩ := reachable_invariants c steps1
  obtain ⟨hI2, hL2, hC2, hE2, hF2, hG2⟩ := reachable_invariants c (steps1 ++ steps2)
  rw [run_append] at hb hI2 hL2 hC2 hE2 hF2 hG2
  obtain ⟨Ta, Na, hDa, _, hNa, htka⟩ := hG1.commitOk i a ha (by omega)
  obtain ⟨hDa2, hcan⟩ := durable_run c _ steps2 hI1 hL1 hC1 hE1 Ta Na hDa
  obtain ⟨Tb, Nb, hDb, _, hNb, htkb⟩ := hG2.commitOk j b hb (by omega)
  have htka2 : a.log.take a.commit =
      ((run c (run c (initSys c) steps1) steps2).canon Ta).take a.commit := by
    rw [htka]; exact (take_of_take_eq _ _ Na a.commit hNa hcan).symm
  exact prefix_agree c _ hI2 hL2 hC2 hE2 hF2 a.log b.log a.commit b.commit k hka hkb
    Ta Na Tb Nb hDa2 hDb hNa hNb htka2 htkb

/-- **every later leader's log contains every committed entry**: whatever node `i` had committed
    after `steps1` is a prefix of the log of any node that is leader, at that moment or at any
    later one, in a term not below `i`'s term at the time. -/
theorem later_leader_has_committed_entries (c : Config) (steps1 steps2 : List Step) (i l : Nat)
    (a nl : Node) (ha : (run c (initSys c) steps1).nodes[i]? = some a)
    (hl : (run c (initSys c) (steps1 ++ steps2)).nodes[l]? = some nl)
    (hrole : nl.role = .leader) (hterm : a.term ≤ nl.term) :
    nl.log.take a.commit = a.log.take a.commit := by
  obtain ⟨hI1, hL1, hC1, hE1, _, hG1⟩ := reachable_invariants c steps1
  obtain ⟨hI2, hL2, hC2, hE2, hF2, _⟩ := reachable_invariants c (steps1 ++ steps2)
  rw [run_append] at hl hI2 hL2 hC2 hE2 hF2
  rcases Nat.eq_zero_or_pos a.commit with h0 | hpos
  · rw [h0]; simp
  · obtain ⟨Ta, Na, hDa, hTa, hNa, htka⟩ := hG1.commitOk i a ha hpos
    obtain ⟨hDa2, hcan⟩ := durable_run c _ steps2 hI1 hL1 hC1 hE1 Ta Na hDa
    have hNale := durable_le c _ Ta Na hDa2
    obtain ⟨vs, hvs⟩ := hL2.leaderElected l nl hl hrole
    have hlog := hL2.leaderCanon l nl hl hrole
    have hpre : ((run c (run c (initSys c) steps1) steps2).canon nl.term).take Na =
        ((run c (run c (initSys c) steps1) steps2).canon Ta).take Na := by
      by_cases heq : Ta = nl.term
      · rw [heq]
      · have hlc := leader_completeness_of_inv c _ hI2 hL2 hC2 hE2 hF2 Ta Na hDa2
          nl.term l vs hvs (by omega)
        obtain ⟨y, hy, _⟩ := (hE2.elogOk nl.term l vs hvs).ext
        have hNel := le_length_of_take_eq _ _ _ hNale hlc
        rw [hy, List.take_append_of_le_length hNel]; exact hlc
    rw [hlog, htka]
    rw [take_of_take_eq _ _ Na a.commit hNa hpre]
    exact take_of_take_eq _ _ Na a.commit hNa hcan

/-- the commit rule: whenever any node's commit index is positive it lies inside a prefix
    acknowledged by a quorum whose last entry carries the acknowledging term -/
theorem commit_is_quorum_backed (c : Config) (steps : List Step) (i : Nat) (a : Node)
    (ha : (run c (initSys c) steps).nodes[i]? = some a) (hpos : 0 < a.commit) :
    ∃ T N, Durable c (run c (initSys c) steps) T N ∧ T ≤ a.term ∧ a.commit ≤ N ∧
      a.log.take a.commit = ((run c (initSys c) steps).canon T).take a.commit :=
  (reachable_invariants c steps).2.2.2.2.2.commitOk i a ha hpos

/-- the hypotheses of `state_machine_safety` are met by a reachable state: after this 9-step
    run of a 3-node cluster, nodes 0 and 1 have both committed position 0 -/
def demoSteps : List Step :=
  [.timeout 0, .deliver 0 true true true, .deliver 2 true true true, .propose 0 7 true,
   .replicate 0 1, .deliver 3 true true true, .deliver 4 true true true, .replicate 0 1,
   .deliver 5 true true true]

theorem state_machine_safety_nonvacuous :
    ((run { n := 3 } (initSys { n := 3 }) demoSteps).nodes.map (fun nd => (nd.commit, nd.log.length)))
      = [(1, 1), (1, 1), (0, 0)] := by decide +kernel

/-! ### Pre-fix handlers: concrete witnesses that the repaired facts were false. -/

/-- old follower with a stale 2-entry log acknowledges index 2 on an EMPTY heartbeat -/
theorem old_match_index_witness :
    (handleAppendEntriesOld { id := 2, term := 1, log := [⟨1, 101⟩, ⟨1, 102⟩] } 2 0 0 0 [] 0).2
      = .appendEntriesResp 2 true 2 2 := by decide

theorem new_match_index_on_same_input :
    (handleAppendEntries { id := 2, term := 1, log := [⟨1, 101⟩, ⟨1, 102⟩] } 2 0 0 0 [] 0).2
      = .appendEntriesResp 2 true 2 0 := by decide

/-! ### Non-vacuity -/
/-- a concrete 3-node run (timeout, vote request delivered, vote delivered) elects node 0:
    the hypotheses of `election_safety` / `leader_has_quorum` are satisfiable -/
example : ((run { n := 3 } (initSys { n := 3 })
    [.timeout 0, .deliver 0 true true true, .deliver 2 true true true]).nodes[0]?).map (·.role)
      = some Role.leader := by decide
example : (handleRequestVote { n := 3 } { id := 1 } 1 0 0 0 true true).2 = .requestVoteResp 1 true 1 := by decide
example : (handleAppendEntries { id := 1 } 1 0 0 0 [⟨1, 7⟩] 1).1.commit = 1 := by decide

end Neumann.Raft.Props
