import NeumannModel.Raft.Lemmas
/-
  C01 — property theorems, part 1: handler-level facts (for every node state and message).
  System-level theorems (all interleavings) are in `NeumannModel.Raft.Safety`.
-/
namespace Neumann.Raft.Props
open Neumann.Raft

/-- A follower never acknowledges more than the request covers (the fact the repaired
    `match_index` defect violated): `match_index ≤ prev_log_index + entries.len()`. -/
theorem ae_match_le_covered (nd : Node) (t l pi pt : Nat) (es : List Entry) (lc : Nat)
    (t' : Nat) (s : Bool) (f mi : Nat)
    (h : (handleAppendEntries nd t l pi pt es lc).2 = .appendEntriesResp t' s f mi) :
    mi ≤ pi + es.length := by
  unfold handleAppendEntries at h
  by_cases h1 : t = (stepDown nd t).term
  · rw [if_pos h1] at h
    by_cases h2 : aeLogOk (stepDown nd t).log pi pt = true
    · simp only [h2, if_true, aeAccept_msg] at h
      injection h with _ _ _ h4
      subst h4; exact Nat.min_le_left _ _
    · simp only [h2] at h
      injection h with _ _ _ h4
      omega
  · rw [if_neg h1] at h
    injection h with _ _ _ h4
    omega

/-- …and never advances its commit index beyond what the request covers. -/
theorem ae_commit_le_covered (nd : Node) (t l pi pt : Nat) (es : List Entry) (lc : Nat) :
    (handleAppendEntries nd t l pi pt es lc).1.commit ≤ max nd.commit (pi + es.length) := by
  unfold handleAppendEntries
  by_cases h1 : t = (stepDown nd t).term
  · rw [if_pos h1]
    by_cases h2 : aeLogOk (stepDown nd t).log pi pt = true
    · simp only [h2, if_true, aeAccept_commit, stepDown_commit]
      split <;> omega
    · simp only [h2]; simp; omega
  · rw [if_neg h1]; simp; omega

/-- commit index never decreases in `handle_append_entries` -/
theorem ae_commit_monotone (nd : Node) (t l pi pt : Nat) (es : List Entry) (lc : Nat) :
    nd.commit ≤ (handleAppendEntries nd t l pi pt es lc).1.commit := by
  unfold handleAppendEntries
  by_cases h1 : t = (stepDown nd t).term
  · rw [if_pos h1]
    by_cases h2 : aeLogOk (stepDown nd t).log pi pt = true
    · simp only [h2, if_true, aeAccept_commit, stepDown_commit]
      split <;> omega
    · simp only [h2]; simp
  · rw [if_neg h1]; simp

/-- A response from an earlier term never changes the leader's state (second repaired defect). -/
theorem stale_term_ack_ignored (c : Config) (nd : Node) (src t : Nat) (s : Bool) (mi : Nat)
    (h : t < nd.term) : handleAppendEntriesResp c nd src t s mi = nd := by
  unfold handleAppendEntriesResp
  have h1 : ¬ t > nd.term := by omega
  by_cases hr : nd.role ≠ .leader
  · rw [if_pos hr]
  · rw [if_neg hr, if_neg h1, if_pos h]

/-- A vote is granted only for the requested term, only if no other candidate holds this
    node's vote in that term, and the vote is recorded before the reply exists. -/
theorem vote_grant_sound (c : Config) (nd : Node) (t cand li lt : Nat) (hl geo : Bool) (t' v : Nat)
    (h : (handleRequestVote c nd t cand li lt hl geo).2 = .requestVoteResp t' true v) :
    t' = t ∧ nd.term ≤ t ∧
    (handleRequestVote c nd t cand li lt hl geo).1.votedFor = some cand ∧
    (handleRequestVote c nd t cand li lt hl geo).1.term = t ∧
    (nd.term = t → nd.votedFor = none ∨ nd.votedFor = some cand) := by
  unfold handleRequestVote at h ⊢
  by_cases hc : t = (stepDown nd t).term ∧ canVote (stepDown nd t) cand = true ∧
      voteLogOk c (stepDown nd t).log li lt geo = true ∧ hl = true
  · rw [if_pos hc] at h ⊢
    injection h with h1 _ _
    have hge := stepDown_term_ge nd t
    refine ⟨by omega, by omega, rfl, hc.1.symm, ?_⟩
    intro heq
    have : stepDown nd t = nd := stepDown_of_le nd t (by omega)
    have hcv := hc.2.1
    rw [this] at hcv
    simpa [canVote] using hcv
  · rw [if_neg hc] at h
    injection h with _ h2 _; cases h2

/-- a crash keeps exactly the persistent state -/
theorem crash_keeps_persistent (nd : Node) :
    (crashRestart nd).term = nd.term ∧ (crashRestart nd).votedFor = nd.votedFor ∧
    (crashRestart nd).log = nd.log ∧ (crashRestart nd).role = .follower := by
  simp [crashRestart]

/-! ### Pre-fix handlers: concrete witnesses that the repaired facts were false. -/

/-- old follower with a stale 2-entry log acknowledges index 2 on an EMPTY heartbeat -/
theorem old_match_index_witness :
    (handleAppendEntriesOld { id := 2, term := 1, log := [⟨1, 101⟩, ⟨1, 102⟩] } 2 0 0 0 [] 0).2
      = .appendEntriesResp 2 true 2 2 := by decide

theorem new_match_index_on_same_input :
    (handleAppendEntries { id := 2, term := 1, log := [⟨1, 101⟩, ⟨1, 102⟩] } 2 0 0 0 [] 0).2
      = .appendEntriesResp 2 true 2 0 := by decide

/-! ### Non-vacuity -/
example : (handleRequestVote { n := 3 } { id := 1 } 1 0 0 0 true true).2 = .requestVoteResp 1 true 1 := by decide
example : (handleAppendEntries { id := 1 } 1 0 0 0 [⟨1, 7⟩] 1).1.commit = 1 := by decide

end Neumann.Raft.Props
