import NeumannModel.Raft.CommitStep
/-
  C01 — State Machine Safety: every positive commit index of every node, and every
  `leader_commit` carried by an AppendEntries, lies inside a DURABLE prefix (`Durable`: acknowledged
  by a quorum, last entry of the acknowledging term) that the node's log carries.  With Leader
  Completeness, two nodes' committed prefixes are then prefixes of one canonical log.
-/
namespace Neumann.Raft

structure GInv (c : Config) (s : Sys) : Prop where
  /-- a leader's `match_index` has one entry per peer and none for itself -/
  leaderShape : ∀ (i : Nat) (nd : Node), s.nodes[i]? = some nd → nd.role = .leader →
    (nd.matchIdx.map (·.1)).Nodup ∧ i ∉ nd.matchIdx.map (·.1) ∧ c.quorum ≤ nd.matchIdx.length + 1
  aerNotSelf : ∀ (src dst T : Nat) (sc : Bool) (f m : Nat),
    (src, dst, Msg.appendEntriesResp T sc f m) ∈ s.net → src ≠ dst
  commitOk : ∀ (i : Nat) (nd : Node), s.nodes[i]? = some nd → 0 < nd.commit →
    ∃ T N, Durable c s T N ∧ T ≤ nd.term ∧ nd.commit ≤ N ∧
      nd.log.take nd.commit = (s.canon T).take nd.commit
  aeCommitOk : ∀ (src dst T2 l pi pt : Nat) (es : List Entry) (lc : Nat),
    (src, dst, Msg.appendEntries T2 l pi pt es lc) ∈ s.net → 0 < lc →
    ∃ T N, Durable c s T N ∧ T ≤ T2 ∧ lc ≤ N ∧ (s.canon T2).take lc = (s.canon T).take lc

theorem ginv_init (c : Config) : GInv c (initSys c) := by
  have hget : ∀ (i : Nat) (nd : Node), (initSys c).nodes[i]? = some nd → nd = { id := i } := by
    intro i nd h
    simp only [initSys] at h
    rw [List.getElem?_map] at h
    by_cases hi : i < c.n
    · rw [List.getElem?_range hi] at h
      simp only [Option.map_some, Option.some.injEq] at h
      exact h.symm
    · rw [List.getElem?_eq_none (by simp; omega)] at h; simp at h
  refine ⟨?_, ?_, ?_, ?_⟩
  · intro i nd h hr; rw [hget i nd h] at hr; simp at hr
  · intro src dst T sc f m h; simp [initSys] at h
  · intro i nd h hpos; rw [hget i nd h] at hpos; simp at hpos
  · intro src dst T2 l pi pt es lc h; simp [initSys] at h

theorem take_of_take_eq {α : Type} (a b : List α) (n k : Nat) (hk : k ≤ n)
    (h : a.take n = b.take n) : a.take k = b.take k := by
  have h1 : a.take k = (a.take n).take k := by rw [List.take_take, Nat.min_eq_left hk]
  have h2 : b.take k = (b.take n).take k := by rw [List.take_take, Nat.min_eq_left hk]
  rw [h1, h2, h]

theorem getElem?_of_take_eq {α : Type} (a b : List α) (n k : Nat) (hk : k < n)
    (h : a.take n = b.take n) : a[k]? = b[k]? := by
  have h1 : (a.take n)[k]? = (b.take n)[k]? := by rw [h]
  rw [List.getElem?_take, List.getElem?_take, if_pos hk, if_pos hk] at h1
  exact h1

theorem le_length_of_take_eq {α : Type} (a b : List α) (k : Nat) (hk : k ≤ b.length)
    (h : a.take k = b.take k) : k ≤ a.length := by
  have := congrArg List.length h
  simp only [List.length_take] at this; omega

theorem durable_le (c : Config) (s : Sys) (T N : Nat) (h : Durable c s T N) :
    N ≤ (s.canon T).length := by
  obtain ⟨h0, ⟨e, he, _⟩, _⟩ := h
  have := getElem?_lt _ _ e he; omega

theorem quorum_pos (c : Config) : 1 ≤ c.quorum := by unfold Config.quorum; omega

theorem durable_elected (c : Config) (s : Sys) (hC : CInv c s) (T N : Nat) (h : Durable c s T N) :
    TermElected s T := by
  obtain ⟨_, _, Q, _, hq, ha⟩ := h
  have hpos : 0 < Q.length := by have := quorum_pos c; omega
  cases Q with
  | nil => simp at hpos
  | cons f t => exact ackLike_elected c s hC T f N (ha f List.mem_cons_self)

theorem map_fst_pairs (ps : List Nat) : (ps.map (fun p => (p, 0))).map (·.1) = ps := by
  induction ps with
  | nil => rfl
  | cons p t ih => simp only [List.map_cons, ih]

/-- the prefix an accepted AppendEntries of term `T` installs is `T`'s canonical prefix -/
theorem accept_prefix (c : Config) (s : Sys) (hL : LMInv c s) (i : Nat) (nd : Node)
    (hnd : s.nodes[i]? = some nd) (src T l pi pt : Nat) (es : List Entry) (lc : Nat)
    (hmsg : (src, i, Msg.appendEntries T l pi pt es lc) ∈ s.net)
    (hok : aeLogOk nd.log pi pt = true) :
    (appendLeaderEntries nd.log (pi + 1) es).take (pi + es.length) =
      (s.canon T).take (pi + es.length) := by
  obtain ⟨hlen, hMc, hpre, hdrop⟩ := accept_facts c s hL i nd hnd src T l pi pt es lc hmsg hok
  have hp := appendLeaderEntries_prefix s.canon _ hMc es nd.log (pi + 1) (by omega)
    (hL.nodeCanon i nd hnd) (by rw [show pi + 1 - 1 = pi by omega]; exact hpre)
    (by rw [show pi + 1 - 1 = pi by omega]; exact hdrop)
  rw [show pi + 1 - 1 + es.length = pi + es.length by omega] at hp
  rw [hp, List.take_take, Nat.min_self]

namespace StepCtx
variable {c : Config} {s : Sys} {i : Nat} {nd nd' : Node} {g : Option Nat}
  {msgs : List (Nat × Nat × Msg)} (x : StepCtx c s i nd nd' g msgs)
include x

theorem ackLikeMono (T f k : Nat) (ha : AckLike s T f k) :
    AckLike (setNode s i nd' nd msgs) T f k := by
  have hT := ackLike_elected c s x.hC T f k ha
  rcases ha with ⟨src, dst, m, hm, hk⟩ | ⟨vs, hv, hk⟩
  · exact Or.inl ⟨src, dst, m, List.mem_append_left _ hm, hk⟩
  · right
    refine ⟨vs, elected_mono_setNode s i nd nd' msgs _ hv, ?_⟩
    obtain ⟨y, hy⟩ := x.canonExt T hT
    rw [hy, List.length_append]; omega

theorem durableMono (T N : Nat) (hD : Durable c s T N) :
    Durable c (setNode s i nd' nd msgs) T N := by
  have hT := durable_elected c s x.hC T N hD
  obtain ⟨h0, ⟨e, he, het⟩, Q, hQn, hQl, hQa⟩ := hD
  refine ⟨h0, ⟨e, ?_, het⟩, Q, hQn, hQl, fun f hf => x.ackLikeMono T f N (hQa f hf)⟩
  obtain ⟨y, hy⟩ := x.canonExt T hT
  rw [hy, List.getElem?_append_left (getElem?_lt _ _ e he)]
  exact he

theorem ginv (hF : FInv c s) (hG : GInv c s) (hcf : CommitFact c s i nd nd')
    (hans : ∀ (src dst T : Nat) (sc : Bool) (f m : Nat),
      (src, dst, Msg.appendEntriesResp T sc f m) ∈ (setNode s i nd' nd msgs).net → src ≠ dst) :
    GInv c (setNode s i nd' nd msgs) := by
  have hnode' : (setNode s i nd' nd msgs).nodes[i]? = some nd' := by rw [x.get]; simp
  have hiid : nd.id = i := x.hI.ids i nd x.hnd
  have hin : i < c.n := by rw [← x.hI.len]; exact getElem?_lt _ _ _ x.hnd
  -- shape of a leader's match_index
  have hshape : ∀ (j : Nat) (ndj : Node), (setNode s i nd' nd msgs).nodes[j]? = some ndj →
      ndj.role = .leader →
      (ndj.matchIdx.map (·.1)).Nodup ∧ j ∉ ndj.matchIdx.map (·.1) ∧
        c.quorum ≤ ndj.matchIdx.length + 1 := by
    intro j ndj hj hr
    rw [x.get] at hj
    by_cases hji : j = i
    · rw [if_pos hji] at hj; cases hj; subst hji
      rcases x.hk with ⟨_, hq⟩ | ⟨_, _, _, _, hm⟩ | ⟨hr0, p, hp⟩ | ⟨hr', _⟩
      · obtain ⟨hrl, _, hm⟩ := hq hr
        have hold := hG.leaderShape j nd x.hnd hrl
        rcases hm with hm | ⟨src, f, mi, hmsg, hm⟩
        · rw [hm]; exact hold
        · rw [hm]
          refine ⟨alSet_nodup _ _ _ hold.1, fun h => ?_, ?_⟩
          · rcases alSet_keys _ _ _ _ h with h | h
            · exact hG.aerNotSelf src j _ _ _ _ hmsg h.symm
            · exact hold.2.1 h
          · have := alSet_length nd.matchIdx src mi; have := hold.2.2; omega
      · rw [hm, map_fst_pairs, hiid]
        refine ⟨peers_nodup c j, peers_not_self c j, ?_⟩
        rw [List.length_map]
        have := peers_length c.n j hin
        unfold peers
        unfold Config.quorum
        omega
      · subst hp
        exact hG.leaderShape j nd x.hnd hr0
      · rw [hr'] at hr; cases hr
    · rw [if_neg hji] at hj
      exact hG.leaderShape j ndj hj hr
  -- an old durable prefix carried by the old log is carried by the new log
  have hkeep : 0 < nd.commit → ∃ T N, Durable c s T N ∧ T ≤ nd.term ∧ nd.commit ≤ N ∧
      nd'.log.take nd.commit = (s.canon T).take nd.commit := by
    intro hpos
    obtain ⟨T, N, hD, hT, hN, htk⟩ := hG.commitOk i nd x.hnd hpos
    refine ⟨T, N, hD, hT, hN, ?_⟩
    have hNle := durable_le c s T N hD
    have hklog : nd.commit ≤ nd.log.length := le_length_of_take_eq _ _ _ (by omega) htk
    rcases x.hk with ⟨hlog, _⟩ | ⟨_, _, _, hlog, _⟩ | ⟨_, p, hp⟩ | ⟨_, src, l, pi, pt, es, lc, hmsg, hok, hlog⟩
    · rw [hlog]; exact htk
    · rw [hlog]; exact htk
    · subst hp
      show (nd.log ++ [Entry.mk nd.term p]).take nd.commit = _
      rw [List.take_append_of_le_length hklog]; exact htk
    · rw [hlog]
      have hT2 : T ≤ nd'.term := Nat.le_trans hT x.ht.term_le
      obtain ⟨_, _, ⟨vs2, hvs2⟩, _⟩ := x.hL.aeOk src i nd'.term l pi pt es lc hmsg
      have hcan : nd.log.take nd.commit = (s.canon nd'.term).take nd.commit := by
        by_cases heqT : nd'.term = T
        · rw [heqT]; exact htk
        · have hlc := leader_completeness_of_inv c s x.hI x.hL x.hC x.hE hF T N hD
            nd'.term l vs2 hvs2 (by omega)
          obtain ⟨y, hy, _⟩ := (x.hE.elogOk nd'.term l vs2 hvs2).ext
          have hNel : N ≤ (s.elog nd'.term).length := le_length_of_take_eq _ _ _ hNle hlc
          have h1 : (s.canon nd'.term).take N = (s.canon T).take N := by
            rw [hy, List.take_append_of_le_length hNel]; exact hlc
          rw [htk]
          exact (take_of_take_eq _ _ N nd.commit hN h1).symm
      rw [accept_keeps_prefix c s x.hL i nd x.hnd src nd'.term l pi pt es lc hmsg hok nd.commit
        hklog hcan]
      exact htk
  refine ⟨hshape, hans, ?_, ?_⟩
  · -- commitOk
    intro j ndj hj hpos
    rw [x.get] at hj
    by_cases hji : j = i
    · rw [if_pos hji] at hj; cases hj; subst hji
      have hquiet : nd'.commit = nd.commit →
          ∃ T N, Durable c (setNode s j nd' nd msgs) T N ∧ T ≤ nd'.term ∧ nd'.commit ≤ N ∧
            nd'.log.take nd'.commit = ((setNode s j nd' nd msgs).canon T).take nd'.commit := by
        intro hq
        rw [hq] at hpos ⊢
        obtain ⟨T, N, hD, hT, hN, htk⟩ := hkeep hpos
        refine ⟨T, N, x.durableMono T N hD, Nat.le_trans hT x.ht.term_le, hN, ?_⟩
        rw [htk, x.canonTake T nd.commit (durable_elected c s x.hC T N hD)
          (by have := durable_le c s T N hD; omega)]
      rcases hcf with hq | h0 | ⟨hrl, hrl', hlt, hta, hq⟩ | ⟨src, l, pi, pt, es, lc, hmsg, hok, hlog, hcm⟩
      · exact hquiet hq
      · omega
      · -- the leader advanced its commit index: a quorum of acknowledgements stands behind it
        have hlc := x.hL'.leaderCanon j nd' hnode' hrl'
        obtain ⟨hN0, e, he, het⟩ := termAt_some _ _ _ hta
        have hNlen : nd'.commit ≤ nd'.log.length := by
          have := getElem?_lt _ _ e he; omega
        obtain ⟨hs1, hs2, hs3⟩ := hshape j nd' hnode' hrl'
        have hcnt : c.quorum ≤ cntGe (nd'.matchIdx.map (·.2) ++ [nd'.log.length]) nd'.commit := by
          have h1 := quorum_count (nd'.matchIdx.map (·.2) ++ [nd'.log.length]) c.quorum
            (quorum_pos c) (by simp only [List.length_append, List.length_map, List.length_singleton]; exact hs3)
          have e : quorumIdx c nd' =
              (sortAsc (nd'.matchIdx.map (·.2) ++ [nd'.log.length])).getD
                ((sortAsc (nd'.matchIdx.map (·.2) ++ [nd'.log.length])).length - c.quorum) 0 := rfl
          rw [← e, ← hq] at h1
          exact h1
        obtain ⟨Q, hQn, hQl, hQa⟩ :=
          quorum_nodes nd'.matchIdx j nd'.log.length nd'.commit c.quorum hs1 hs2 hcnt
        obtain ⟨vs, hvs⟩ := x.hL'.leaderElected j nd' hnode' hrl'
        refine ⟨nd'.term, nd'.commit, ⟨hN0, ⟨e, by rw [← hlc]; exact he, het⟩, Q, hQn, hQl, ?_⟩,
          Nat.le_refl _, Nat.le_refl _, by rw [hlc]⟩
        intro f hf
        rcases hQa f hf with ⟨hfj, hle⟩ | ⟨m, hm, hle⟩
        · right
          subst hfj
          exact ⟨vs, hvs, by rw [← hlc]; exact hle⟩
        · left
          have hget := alGet_of_mem nd'.matchIdx hs1 f m hm
          obtain ⟨dst, hmsg⟩ := x.hC'.matchSound j nd' hnode' hrl' f m hget (by omega)
          exact ⟨f, dst, m, hmsg, hle⟩
      · -- the follower took the leader's commit index, bounded by what this message covers
        have hlc0 : 0 < lc := by
          rw [hcm] at hpos
          exact Nat.lt_of_lt_of_le hpos (Nat.min_le_left _ _)
        obtain ⟨T, N, hD, hT, hN, htk⟩ := hG.aeCommitOk src j nd'.term l pi pt es lc hmsg hlc0
        have hNle := durable_le c s T N hD
        have hc1 : nd'.commit ≤ lc := by rw [hcm]; exact Nat.min_le_left _ _
        have hc2 : nd'.commit ≤ pi + es.length := by
          rw [hcm]; exact Nat.le_trans (Nat.min_le_right _ _) (Nat.min_le_left _ _)
        have hp := accept_prefix c s x.hL j nd x.hnd src nd'.term l pi pt es lc hmsg hok
        rw [← hlog] at hp
        refine ⟨T, N, x.durableMono T N hD, hT, by omega, ?_⟩
        rw [x.canonTake T nd'.commit (durable_elected c s x.hC T N hD) (by omega)]
        rw [take_of_take_eq _ _ _ _ hc2 hp]
        exact take_of_take_eq _ _ _ _ hc1 htk
    · rw [if_neg hji] at hj
      obtain ⟨T, N, hD, hT, hN, htk⟩ := hG.commitOk j ndj hj hpos
      refine ⟨T, N, x.durableMono T N hD, hT, hN, ?_⟩
      rw [htk, x.canonTake T ndj.commit (durable_elected c s x.hC T N hD)
        (by have := durable_le c s T N hD; omega)]
  · -- aeCommitOk
    intro src dst T2 l pi pt es lc hm hpos
    have hm' : (src, dst, Msg.appendEntries T2 l pi pt es lc) ∈ s.net ++ msgs := hm
    rcases List.mem_append.mp hm' with h | h
    · obtain ⟨T, N, hD, hT, hN, htk⟩ := hG.aeCommitOk src dst T2 l pi pt es lc h hpos
      have hNle := durable_le c s T N hD
      obtain ⟨_, _, ⟨vs2, hvs2⟩, _⟩ := x.hL.aeOk src dst T2 l pi pt es lc h
      refine ⟨T, N, x.durableMono T N hD, hT, hN, ?_⟩
      rw [x.canonTake T lc (durable_elected c s x.hC T N hD) (by omega),
        x.canonTake T2 lc ⟨l, vs2, hvs2⟩ (le_length_of_take_eq _ _ _ (by omega) htk)]
      exact htk
    · exact absurd rfl (x.hno _ _ _ h T2 l pi pt es lc)

end StepCtx

theorem durable_net_mono (c : Config) (s : Sys) (extra : List (Nat × Nat × Msg)) (T N : Nat)
    (hD : Durable c s T N) : Durable c { s with net := s.net ++ extra } T N := by
  obtain ⟨h0, he, Q, hQn, hQl, hQa⟩ := hD
  refine ⟨h0, he, Q, hQn, hQl, fun f hf => ?_⟩
  rcases hQa f hf with ⟨src, dst, m, hm, hk⟩ | h
  · exact Or.inl ⟨src, dst, m, List.mem_append_left _ hm, hk⟩
  · exact Or.inr h

theorem ginv_step (c : Config) (s : Sys) (st : Step) (hI : Inv c s) (hL : LMInv c s)
    (hC : CInv c s) (hE : EInv c s) (hF : FInv c s) (hG : GInv c s) : GInv c (sysStep c s st) := by
  have hI' := inv_step c s st hI
  have hL' := lm_step c s st hI hL
  have hC' := cinv_step c s st hI hL hC
  have hE' := einv_step c s st hI hL hC hE
  have hans : ∀ (src dst T : Nat) (sc : Bool) (f m : Nat),
      (src, dst, Msg.appendEntriesResp T sc f m) ∈ (sysStep c s st).net → src ≠ dst := by
    intro src dst T sc f m h
    rcases step_new_aer c s st src dst T sc f m h with h | ⟨t, l, pi, pt, es, lc, h⟩
    · exact hG.aerNotSelf _ _ _ _ _ _ h
    · obtain ⟨_, hne, _⟩ := hL.aeOk dst src t l pi pt es lc h
      exact hne
  have hsc : ∀ (i : Nat) (nd nd' : Node), s.nodes[i]? = some nd →
      (sysStep c s st).nodes[i]? = some nd' → CommitFact c s i nd nd' :=
    fun i nd nd' h1 h2 => step_commit c s st i nd nd' h1 h2
  revert hans hsc
  apply sysStep_cases c s st hI
    (fun s' => Inv c s' → LMInv c s' → CInv c s' → EInv c s' →
      (∀ (src dst T : Nat) (sc : Bool) (f m : Nat),
        (src, dst, Msg.appendEntriesResp T sc f m) ∈ s'.net → src ≠ dst) →
      (∀ (i : Nat) (nd nd' : Node), s.nodes[i]? = some nd →
        s'.nodes[i]? = some nd' → CommitFact c s i nd nd') → GInv c s') _ _ _ hI' hL' hC' hE'
  · intro _ _ _ _ _ _; exact hG
  · intro i nd nd' g msgs hnd htr hk hmC hno hmR hv _ _ hI2 hL2 hC2 hE2 hans2 hsc2
    have x := StepCtx.mk hI hL hC hE hI2 hL2 hC2 hE2 hnd htr hk hmC hmR hno hv
    exact x.ginv hF hG (hsc2 i nd nd' hnd (by rw [x.get]; simp)) hans2
  · intro i j nd m _ hnd hae _ _ _ _ hans2 _
    obtain ⟨hrl, pi, pt, es, rfl, _, _⟩ := appendEntriesFor_spec nd j m hae
    refine ⟨hG.leaderShape, hans2, ?_, ?_⟩
    · intro k ndk hk hpos
      obtain ⟨T, N, hD, hT, hN, htk⟩ := hG.commitOk k ndk hk hpos
      exact ⟨T, N, durable_net_mono c s _ T N hD, hT, hN, htk⟩
    · intro src dst T2 l pi' pt' es' lc hm hpos
      rcases List.mem_append.mp hm with h | h
      · obtain ⟨T, N, hD, hT, hN, htk⟩ := hG.aeCommitOk src dst T2 l pi' pt' es' lc h hpos
        exact ⟨T, N, durable_net_mono c s _ T N hD, hT, hN, htk⟩
      · simp only [List.mem_singleton, Prod.mk.injEq, Msg.appendEntries.injEq] at h
        obtain ⟨_, _, hT2, _, _, _, _, hlc⟩ := h
        subst hT2; subst hlc
        obtain ⟨T, N, hD, hT, hN, htk⟩ := hG.commitOk i nd hnd hpos
        refine ⟨T, N, durable_net_mono c s _ T N hD, hT, hN, ?_⟩
        show (s.canon nd.term).take nd.commit = (s.canon T).take nd.commit
        rw [← hL.leaderCanon i nd hnd hrl]; exact htk

theorem ginv_run (c : Config) (s : Sys) (steps : List Step) (hI : Inv c s) (hL : LMInv c s)
    (hC : CInv c s) (hE : EInv c s) (hF : FInv c s) (hG : GInv c s) : GInv c (run c s steps) := by
  induction steps generalizing s with
  | nil => exact hG
  | cons st rest ih =>
    exact ih (sysStep c s st) (inv_step c s st hI) (lm_step c s st hI hL)
      (cinv_step c s st hI hL hC) (einv_step c s st hI hL hC hE) (finv_step c s st hI hL hC hE hF)
      (ginv_step c s st hI hL hC hE hF hG)

/-- two logs whose first `ca` / `cb` entries are prefixes of durable canonical prefixes agree
    below both bounds (and hold an entry there) -/
theorem prefix_agree (c : Config) (s : Sys) (hI : Inv c s) (hL : LMInv c s)
    (hC : CInv c s) (hE : EInv c s) (hF : FInv c s)
    (la lb : List Entry) (ca cb k : Nat) (hka : k < ca) (hkb : k < cb)
    (Ta Na Tb Nb : Nat) (hDa : Durable c s Ta Na) (hDb : Durable c s Tb Nb)
    (hNa : ca ≤ Na) (hNb : cb ≤ Nb)
    (htka : la.take ca = (s.canon Ta).take ca) (htkb : lb.take cb = (s.canon Tb).take cb) :
    la[k]? = lb[k]? ∧ ∃ e, la[k]? = some e := by
  have aux : ∀ (la lb : List Entry) (ca cb : Nat), k < ca → k < cb →
      ∀ Ta Na Tb Nb, Durable c s Ta Na → Durable c s Tb Nb → ca ≤ Na → cb ≤ Nb →
        la.take ca = (s.canon Ta).take ca → lb.take cb = (s.canon Tb).take cb → Ta ≤ Tb →
        la[k]? = lb[k]? ∧ ∃ e, la[k]? = some e := by
    intro la lb ca cb hka hkb Ta Na Tb Nb hDa hDb hNa hNb htka htkb hle
    have hNale := durable_le c s Ta Na hDa
    have h1 : la[k]? = (s.canon Ta)[k]? := getElem?_of_take_eq _ _ _ k hka htka
    have h2 : lb[k]? = (s.canon Tb)[k]? := getElem?_of_take_eq _ _ _ k hkb htkb
    have h3 : (s.canon Tb)[k]? = (s.canon Ta)[k]? := by
      by_cases heq : Ta = Tb
      · rw [heq]
      · obtain ⟨j, vs, hel⟩ := durable_elected c s hC Tb Nb hDb
        have hlc := leader_completeness_of_inv c s hI hL hC hE hF Ta Na hDa Tb j vs hel (by omega)
        obtain ⟨y, hy, _⟩ := (hE.elogOk Tb j vs hel).ext
        have hNel : Na ≤ (s.elog Tb).length := le_length_of_take_eq _ _ _ hNale hlc
        have h4 : (s.canon Tb).take Na = (s.canon Ta).take Na := by
          rw [hy, List.take_append_of_le_length hNel]; exact hlc
        exact getElem?_of_take_eq _ _ Na k (by omega) h4
    refine ⟨by rw [h1, h2, h3], ?_⟩
    rw [h1]
    have hlt : k < (s.canon Ta).length := by omega
    exact ⟨(s.canon Ta)[k], List.getElem?_eq_getElem hlt⟩
  rcases Nat.le_total Ta Tb with hle | hle
  · exact aux la lb ca cb hka hkb Ta Na Tb Nb hDa hDb hNa hNb htka htkb hle
  · obtain ⟨h1, e, he⟩ := aux lb la cb ca hkb hka Tb Nb Ta Na hDb hDa hNb hNa htkb htka hle
    exact ⟨h1.symm, e, by rw [← h1]; exact he⟩

/-- **State Machine Safety from the invariants**: below both commit indexes, two nodes hold
    the same entry (and do hold one) -/
theorem state_machine_safety_of_inv (c : Config) (s : Sys) (hI : Inv c s) (hL : LMInv c s)
    (hC : CInv c s) (hE : EInv c s) (hF : FInv c s) (hG : GInv c s)
    (a b : Nat) (na nb : Node) (ha : s.nodes[a]? = some na) (hb : s.nodes[b]? = some nb)
    (k : Nat) (hka : k < na.commit) (hkb : k < nb.commit) :
    na.log[k]? = nb.log[k]? ∧ ∃ e, na.log[k]? = some e := by
  obtain ⟨Ta, Na, hDa, _, hNa, htka⟩ := hG.commitOk a na ha (by omega)
  obtain ⟨Tb, Nb, hDb, _, hNb, htkb⟩ := hG.commitOk b nb hb (by omega)
  exact prefix_agree c s hI hL hC hE hF na.log nb.log na.commit nb.commit k hka hkb
    Ta Na Tb Nb hDa hDb hNa hNb htka htkb

/-- a durable prefix stays durable, and stays the same entries, across one step -/
theorem durable_step (c : Config) (s : Sys) (st : Step) (hI : Inv c s) (hL : LMInv c s)
    (hC : CInv c s) (hE : EInv c s) (T N : Nat) (hD : Durable c s T N) :
    Durable c (sysStep c s st) T N ∧ ((sysStep c s st).canon T).take N = (s.canon T).take N := by
  have hI' := inv_step c s st hI
  have hL' := lm_step c s st hI hL
  have hC' := cinv_step c s st hI hL hC
  have hE' := einv_step c s st hI hL hC hE
  apply sysStep_cases c s st hI
    (fun s' => Inv c s' → LMInv c s' → CInv c s' → EInv c s' →
      Durable c s' T N ∧ (s'.canon T).take N = (s.canon T).take N) _ _ _ hI' hL' hC' hE'
  · intro _ _ _ _; exact ⟨hD, rfl⟩
  · intro i nd nd' g msgs hnd htr hk hmC hno hmR hv _ _ hI2 hL2 hC2 hE2
    have x := StepCtx.mk hI hL hC hE hI2 hL2 hC2 hE2 hnd htr hk hmC hmR hno hv
    exact ⟨x.durableMono T N hD,
      x.canonTake T N (durable_elected c s hC T N hD) (durable_le c s T N hD)⟩
  · intro i j nd m _ _ _ _ _ _ _
    exact ⟨durable_net_mono c s _ T N hD, rfl⟩

theorem run_append (c : Config) (s : Sys) (a b : List Step) :
    run c s (a ++ b) = run c (run c s a) b := by
  unfold run; rw [List.foldl_append]

theorem durable_run (c : Config) (s : Sys) (steps : List Step) (hI : Inv c s) (hL : LMInv c s)
    (hC : CInv c s) (hE : EInv c s) (T N : Nat) (hD : Durable c s T N) :
    Durable c (run c s steps) T N ∧ ((run c s steps).canon T).take N = (s.canon T).take N := by
  induction steps generalizing s with
  | nil => exact ⟨hD, rfl⟩
  | cons st rest ih =>
    obtain ⟨hD1, h1⟩ := durable_step c s st hI hL hC hE T N hD
    obtain ⟨hD2, h2⟩ := ih (sysStep c s st) (inv_step c s st hI) (lm_step c s st hI hL)
      (cinv_step c s st hI hL hC) (einv_step c s st hI hL hC hE) hD1
    exact ⟨hD2, by rw [← h1]; exact h2⟩

end Neumann.Raft
